/-
  Helper lemmas for the history-level theorems C14H / C15H over the locking model.

  * `step` / `runS`: the state component of `C11H.apply` / `C11H.run` (the ledger of C11H dropped).
  * `Env a s t`, `Keep a s t`: what an operation acting on *other* addresses (or only removing
    entries) does to address `a`: no new ranking / index entry for `a`, recorded set and parameters
    unchanged (`Env`), the record of `a` unchanged (`Keep`).
  * `OutRec s a v`: `a` has record `v`, is neither Active nor Pending, has power 0, is not ranked and
    not indexed.  `Later v v'`: how the record of such a validator can move (jail time kept, status
    only further "out": downgrade → inactive → tombstoned).
  * one lemma per writer of the model: `…_other` (acting on `b ≠ a`: `Keep`), `…_out` (an `OutRec`
    stays an `OutRec`), for `lockOne` with the one escape `Rejoin`.
  * `QFrame` / `…_qf`: every writer but `unlockOne`, `dequeueMature`, `dequeue` leaves the unlock queues
    and the parameters alone (`step_params`: the parameters never change).
  * `Quiet`, `VoteRel`, `ERel` / `…_quiet`, `…_rel`: what each writer does to the window counters and
    the status of one record.
  * `Link`, `Linked`, `LA` / `…_la`: ranking and index entries of an address are the ones its record
    accounts for (none when out); kept by every writer; `reachable_linked`: at every state reachable from
    the empty state.
-/
import GoatModel.Locking
import GoatProofs.Lemmas.Locking
import GoatProofs.Lemmas.LockingConserve
import GoatProofs.C11H
import GoatProofs.C14
namespace Goat.Locking
open Goat.C11H (Op)

/-! ## histories: the state component of `C11H.apply` -/

/-- one entry point; a failing operation leaves the state unchanged -/
def step (s : State) : Op → State
  | .process hash160 hasAccount height now r =>
    match processRequests hash160 hasAccount s height now r with
    | .ok (s', _) => s'
    | _ => s
  | .beginBlock height now votes maxAge evs =>
    match beginBlock s height now votes maxAge evs with
    | .ok s' => s'
    | _ => s
  | .endBlocker =>
    match endBlocker s with
    | .ok (s', _) => s'
    | _ => s
  | .dequeue => (dequeue s).1

def runS (s : State) (ops : List Op) : State := ops.foldl step s

@[simp] theorem runS_nil (s : State) : runS s [] = s := rfl
@[simp] theorem runS_cons (s : State) (op : Op) (ops : List Op) : runS s (op :: ops) = runS (step s op) ops := rfl
theorem runS_append (s : State) (xs ys : List Op) : runS s (xs ++ ys) = runS (runS s xs) ys := by
  unfold runS; rw [List.foldl_append]

theorem step_eq_apply (denomOf : Bytes → String) (s : State) (op : Op) : (C11H.apply denomOf s op).1 = step s op := by
  cases op with
  | process hash160 hasAccount height now r =>
    simp only [C11H.apply, C11H.applyProcess, step]
    cases processRequests hash160 hasAccount s height now r with
    | ok p => obtain ⟨s', accs⟩ := p; rfl
    | err e => rfl
    | panic e => rfl
  | beginBlock height now votes maxAge evs =>
    simp only [C11H.apply, C11H.applyBeginBlock, step]
    cases beginBlock s height now votes maxAge evs <;> rfl
  | endBlocker =>
    simp only [C11H.apply, C11H.applyEndBlocker, step]
    cases endBlocker s with
    | ok p => obtain ⟨s', ups⟩ := p; rfl
    | err e => rfl
    | panic e => rfl
  | dequeue => rfl

theorem runS_eq_run (denomOf : Bytes → String) (ops : List Op) : ∀ (s : State) (L : C11H.Ledger),
    (C11H.run denomOf (s, L) ops).1 = runS s ops := by
  induction ops with
  | nil => intro s L; rfl
  | cons op ops ih =>
    intro s L
    rw [C11H.run_cons, ih, runS_cons, step_eq_apply]

/-- the block time carried by an operation (end block and hand-over carry none) -/
def opTime : Op → Option Int
  | .process _ _ _ now _ => some now
  | .beginBlock _ now _ _ _ => some now
  | _ => none

/-! ## footprint of an operation at one address -/

def Unranked (s : State) (a : Bytes) : Prop := ∀ p, (p, a) ∉ s.ranking
def Unindexed (s : State) (a : Bytes) : Prop := ∀ d x, ((d, a), x) ∉ s.lockingIdx

/-- `t` has no ranking / index entry for `a` that `s` has not; recorded set and parameters equal -/
structure Env (a : Bytes) (s t : State) : Prop where
  rank : ∀ p, (p, a) ∈ t.ranking → (p, a) ∈ s.ranking
  idx : ∀ d x, ((d, a), x) ∈ t.lockingIdx → ((d, a), x) ∈ s.lockingIdx
  valset : t.valset = s.valset
  params : t.params = s.params

/-- `Env` and the record of `a` is the same -/
structure Keep (a : Bytes) (s t : State) : Prop where
  env : Env a s t
  vrec : vget t a = vget s a

theorem Env.refl (a : Bytes) (s : State) : Env a s s := ⟨fun _ h => h, fun _ _ h => h, rfl, rfl⟩
theorem Env.trans {a : Bytes} {s t u : State} (h1 : Env a s t) (h2 : Env a t u) : Env a s u :=
  ⟨fun p h => h1.rank p (h2.rank p h), fun d x h => h1.idx d x (h2.idx d x h), h2.valset.trans h1.valset,
   h2.params.trans h1.params⟩
theorem Keep.refl (a : Bytes) (s : State) : Keep a s s := ⟨Env.refl a s, rfl⟩
theorem Keep.trans {a : Bytes} {s t u : State} (h1 : Keep a s t) (h2 : Keep a t u) : Keep a s u :=
  ⟨h1.env.trans h2.env, h2.vrec.trans h1.vrec⟩

theorem env_of_eq {a : Bytes} {s t : State} (h1 : t.ranking = s.ranking) (h2 : t.lockingIdx = s.lockingIdx)
    (h3 : t.valset = s.valset) (h4 : t.params = s.params) : Env a s t :=
  ⟨fun _ h => h1 ▸ h, fun _ _ h => h2 ▸ h, h3, h4⟩

theorem keep_of_eq {a : Bytes} {s t : State} (h0 : t.validators = s.validators) (h1 : t.ranking = s.ranking)
    (h2 : t.lockingIdx = s.lockingIdx) (h3 : t.valset = s.valset) (h4 : t.params = s.params) : Keep a s t :=
  ⟨env_of_eq h1 h2 h3 h4, vget_congr t s h0 a⟩

theorem env_rankRemove (a : Bytes) (s : State) (p : Nat) (b : Bytes) : Env a s (rankRemove s p b) :=
  ⟨fun _ h => mem_rankRemove s p b _ h, fun _ _ h => h, rfl, rfl⟩
theorem keep_rankRemove (a : Bytes) (s : State) (p : Nat) (b : Bytes) : Keep a s (rankRemove s p b) :=
  ⟨env_rankRemove a s p b, rfl⟩

theorem env_rankSet (a : Bytes) (s : State) (p : Nat) (b : Bytes) (hab : b ≠ a) : Env a s (rankSet s p b) := by
  unfold rankSet
  split
  · exact Env.refl a s
  · refine ⟨?_, fun _ _ h => h, rfl, rfl⟩
    intro q h
    rcases List.mem_append.mp h with h | h
    · exact h
    · simp only [List.mem_singleton, Prod.mk.injEq] at h
      exact absurd h.2.symm hab
theorem keep_rankSet (a : Bytes) (s : State) (p : Nat) (b : Bytes) (hab : b ≠ a) : Keep a s (rankSet s p b) :=
  ⟨env_rankSet a s p b hab, vget_congr _ _ (rankSet_validators s p b) a⟩

theorem keep_rank_ite (a : Bytes) (s : State) (p : Nat) (b : Bytes) (hab : b ≠ a) :
    Keep a s (if p > 0 then rankSet s p b else s) := by
  split
  · exact keep_rankSet a s p b hab
  · exact Keep.refl a s

theorem env_idxSet (a : Bytes) (s : State) (d : String) (b : Bytes) (x : Int) (hab : b ≠ a) : Env a s (idxSet s d b x) := by
  refine ⟨fun _ h => h, ?_, rfl, rfl⟩
  intro d' x' h
  unfold idxSet at h
  rcases List.mem_append.mp h with h | h
  · exact (List.mem_filter.mp h).1
  · simp only [List.mem_singleton, Prod.mk.injEq] at h
    exact absurd h.1.2.symm hab
theorem keep_idxSet (a : Bytes) (s : State) (d : String) (b : Bytes) (x : Int) (hab : b ≠ a) : Keep a s (idxSet s d b x) :=
  ⟨env_idxSet a s d b x hab, rfl⟩

theorem env_idxRemove (a : Bytes) (s : State) (d : String) (b : Bytes) : Env a s (idxRemove s d b) :=
  ⟨fun _ h => h, fun _ _ h => (List.mem_filter.mp h).1, rfl, rfl⟩
theorem keep_idxRemove (a : Bytes) (s : State) (d : String) (b : Bytes) : Keep a s (idxRemove s d b) :=
  ⟨env_idxRemove a s d b, rfl⟩

theorem keep_slashedAdd (a : Bytes) (s : State) (d : String) (x : Int) : Keep a s (slashedAdd s d x) :=
  keep_of_eq rfl rfl rfl rfl rfl

theorem env_vset (a : Bytes) (s : State) (b : Bytes) (w : Validator) : Env a s (vset s b w) :=
  env_of_eq (vset_ranking s b w) (by unfold vset; rfl) (vset_valset s b w) (vset_params s b w)
theorem keep_vset_other (a : Bytes) (s : State) (b : Bytes) (w : Validator) (hab : b ≠ a) : Keep a s (vset s b w) :=
  ⟨env_vset a s b w, vget_vset_other s b a w hab⟩

theorem keep_tset (a : Bytes) (s : State) (d : String) (t : Token) : Keep a s (tset s d t) :=
  keep_of_eq rfl rfl rfl rfl rfl

theorem keep_foldl_idxRemove (a b : Bytes) (cs : Coins) (st : State) :
    Keep a st (cs.foldl (fun s c => idxRemove s c.1 b) st) := by
  induction cs generalizing st with
  | nil => exact Keep.refl a st
  | cons c cs ih => rw [List.foldl_cons]; exact (keep_idxRemove a st c.1 b).trans (ih _)

theorem keep_slashStep (a addr : Bytes) (frac : Nat) (acc : State × Coins) (c : String × Int) :
    Keep a acc.1 (slashStep addr frac acc c).1 := by
  simp only [slashStep]
  generalize slashAmount c.2.toNat frac = a0
  by_cases hz : (a0 : Int) = 0
  · rw [if_pos hz]
    exact (keep_idxRemove a acc.1 c.1 addr).trans (keep_slashedAdd a _ _ _)
  · rw [if_neg hz]
    exact (keep_idxRemove a acc.1 c.1 addr).trans (keep_slashedAdd a _ _ _)

theorem keep_slashAll (a : Bytes) (s : State) (addr : Bytes) (v : Validator) (frac : Nat) :
    Keep a s (slashAll s addr v frac).1 := by
  unfold slashAll
  generalize v.locking = cs
  have key : ∀ (cs : Coins) (acc : State × Coins), Keep a acc.1 (cs.foldl (slashStep addr frac) acc).1 := by
    intro cs
    induction cs with
    | nil => intro acc; exact Keep.refl a _
    | cons c cs ih => intro acc; rw [List.foldl_cons]; exact (keep_slashStep a addr frac acc c).trans (ih _)
  exact key cs (s, [])

/-! ## writers acting on another address -/

theorem lockOne_other (s s' : State) (now : Int) (a b : Bytes) (coins : Coins) (hab : b ≠ a)
    (h : lockOne s now b coins = .ok s') : Keep a s s' := by
  unfold lockOne at h
  cases hv : vget s b with
  | none => rw [hv] at h; cases h
  | some v =>
    rw [hv] at h
    dsimp only at h
    split at h
    · cases h
    · split at h
      · -- pending
        split at h
        · cases h
        · cases h
        · rename_i s2 pw heq
          cases h
          have hs2 : Keep a s s2 := by
            refine foldlM_inv (fun (acc : State × Nat) => Keep a s acc.1) _ ?_ _ _ _ (keep_rankRemove a s _ b) heq
            intro acc c acc' hacc hstep
            obtain ⟨b0, pw0⟩ := acc
            dsimp only at hstep hacc
            split at hstep
            · cases hstep
            · split at hstep
              · cases hstep; exact hacc.trans (keep_idxSet a _ _ b _ hab)
              · cases hstep
              · cases hstep
          exact (hs2.trans (keep_rank_ite a s2 pw b hab)).trans (keep_vset_other a _ b _ hab)
      · -- active
        split at h
        · cases h
        · cases h
        · rename_i s2 pw heq
          cases h
          have hs2 : Keep a s s2 := by
            refine foldlM_inv (fun (acc : State × Nat) => Keep a s acc.1) _ ?_ _ _ _ (keep_rankRemove a s _ b) heq
            intro acc c acc' hacc hstep
            obtain ⟨b0, pw0⟩ := acc
            dsimp only at hstep hacc
            split at hstep
            · cases hstep
            · split at hstep
              · cases hstep; exact hacc.trans (keep_idxSet a _ _ b _ hab)
              · cases hstep
              · cases hstep
          exact (hs2.trans (keep_rank_ite a s2 pw b hab)).trans (keep_vset_other a _ b _ hab)
      · -- downgrade
        split at h
        · split at h
          · cases h
          · cases h
          · rename_i s2 pw heq
            cases h
            have hs2 : Keep a s s2 := by
              refine foldlM_inv (fun (acc : State × Nat) => Keep a s acc.1) _ ?_ _ _ _ (Keep.refl a s) heq
              intro acc c acc' hacc hstep
              obtain ⟨b0, pw0⟩ := acc
              dsimp only at hstep hacc
              have hk := hacc.trans (keep_idxSet a b0 c.1 b c.2 hab)
              split at hstep
              · cases hstep
              · split at hstep
                · split at hstep
                  · cases hstep
                  · cases hstep
                  · cases hstep
                  · cases hstep; exact hk
                · cases hstep; exact hk
            exact (hs2.trans (keep_rank_ite a s2 pw b hab)).trans (keep_vset_other a _ b _ hab)
        · cases h; exact keep_vset_other a _ b _ hab
      · cases h; exact keep_vset_other a _ b _ hab
      · cases h; exact keep_vset_other a _ b _ hab

theorem unlockCore_other (s s3 : State) (r : UnlockReq) (ex : Bool) (amt : Int) (a : Bytes) (hab : r.validator ≠ a)
    (h : unlockCore s r = .ok (s3, ex, amt)) : Keep a s s3 := by
  unfold unlockCore at h
  cases hv : vget s r.validator with
  | none => rw [hv] at h; cases h
  | some v =>
    rw [hv] at h
    dsimp only at h
    split at h
    · cases h
    · split at h
      · cases h
      · split at h
        · cases h
        · cases h
        · simp only [Outcome.ok.injEq, Prod.mk.injEq] at h
          obtain ⟨h1, _, _⟩ := h
          rw [← h1]
          have k1 := keep_rankRemove a s v.power r.validator
          split
          · dsimp only
            exact (k1.trans (keep_foldl_idxRemove a r.validator v.locking _)).trans (keep_vset_other a _ _ _ hab)
          · split
            · dsimp only
              refine (k1.trans ?_).trans (keep_vset_other a _ _ _ hab)
              refine Keep.trans ?_ (keep_rank_ite a _ _ r.validator hab)
              split
              · exact keep_idxRemove a _ _ _
              · exact keep_idxSet a _ _ _ _ hab
            · dsimp only
              exact k1.trans (keep_vset_other a _ _ _ hab)

theorem keep_enqueueUnlock (a : Bytes) (s : State) (t : Int) (u : Unlock) : Keep a s (enqueueUnlock s t u) :=
  keep_of_eq rfl rfl rfl rfl rfl

theorem unlockOne_other (s s' : State) (now : Int) (r : UnlockReq) (a : Bytes) (hab : r.validator ≠ a)
    (h : unlockOne s now r = .ok s') : Keep a s s' := by
  unfold unlockOne at h
  split at h
  · cases h
  · cases h
  · rename_i s3 ex amt hcore
    cases h
    exact (unlockCore_other s s3 r ex amt a hab hcore).trans (keep_enqueueUnlock a _ _ _)

theorem handleVote_other (s s' : State) (now : Int) (vi : VoteInfo) (a : Bytes) (hab : vi.address ≠ a)
    (h : handleVote s now vi = .ok s') : Keep a s s' := by
  unfold handleVote at h
  cases hv : vget s vi.address with
  | none => rw [hv] at h; cases h
  | some v =>
    rw [hv] at h
    dsimp only at h
    split at h
    · cases h; exact Keep.refl a s
    · generalize (if vi.absent = true then v.missed + 1 else v.missed) = ms at h
      generalize (if ((v.offset + 1 : Nat) : Int) ≥ s.params.signedBlocksWindow then ((0 : Nat), (0 : Nat))
          else (ms, v.offset + 1)) = mo at h
      split at h
      · cases h
        exact ((keep_rankRemove a s v.power vi.address).trans (keep_slashAll a _ _ _ _)).trans
          (keep_vset_other a _ _ _ hab)
      · cases h
        exact keep_vset_other a _ _ _ hab

theorem handleEvidence_other (s s' : State) (now height : Int) (maxAge : Option (Int × Int)) (e : Evidence) (a : Bytes)
    (hab : e.address ≠ a) (h : handleEvidence s now height maxAge e = .ok s') : Keep a s s' := by
  unfold handleEvidence at h
  split at h
  · cases h; exact Keep.refl a s
  · split at h
    · cases h; exact Keep.refl a s
    · cases hv : vget s e.address with
      | none => rw [hv] at h; cases h
      | some v =>
        rw [hv] at h
        dsimp only at h
        split at h
        · cases h; exact Keep.refl a s
        · cases h
          exact ((keep_rankRemove a s v.power e.address).trans (keep_slashAll a _ _ _ _)).trans
            (keep_vset_other a _ _ _ hab)

/-- one step of the `onWeightChanged` loop, at an index entry of another validator -/
theorem weightStep_other (a : Bytes) (prev cur : Nat) (b b' : State) (e : (String × Bytes) × Int) (hab : e.1.2 ≠ a)
    (hstep : (match vget b e.1.2 with
      | none => Outcome.err "not-found"
      | some v =>
        let s1 := rankRemove b v.power e.1.2
        if cur > prev then
          match powerOf (cur - prev) e.2 with
          | .panic p => .panic p
          | .err x => .err x
          | .ok none => .err "power-too-large"
          | .ok (some d) =>
            let v' := { v with power := (v.power + d) % two64 }
            let s2 := vset s1 e.1.2 v'
            .ok (if v'.power > 0 then rankSet s2 v'.power e.1.2 else s2)
        else
          match powerOf (prev - cur) e.2 with
          | .panic p => .panic p
          | .err x => .err x
          | .ok none => .panic "uint64"
          | .ok (some d) =>
            let v' := { v with power := if v.power > d then v.power - d else 0 }
            let s2 := vset s1 e.1.2 v'
            .ok (if v'.power > 0 then rankSet s2 v'.power e.1.2 else s2)) = Outcome.ok b') : Keep a b b' := by
  cases hv : vget b e.1.2 with
  | none => rw [hv] at hstep; cases hstep
  | some v =>
    rw [hv] at hstep
    dsimp only at hstep
    have k1 := keep_rankRemove a b v.power e.1.2
    split at hstep
    · split at hstep
      · cases hstep
      · cases hstep
      · cases hstep
      · cases hstep
        exact (k1.trans (keep_vset_other a _ _ _ hab)).trans (keep_rank_ite a _ _ _ hab)
    · split at hstep
      · cases hstep
      · cases hstep
      · cases hstep
      · cases hstep
        exact (k1.trans (keep_vset_other a _ _ _ hab)).trans (keep_rank_ite a _ _ _ hab)

/-- `onWeightChanged` walks the index entries of the token: a validator without index entries is not
    touched -/
theorem onWeightChanged_unindexed (s s' : State) (token : String) (prev cur : Nat) (a : Bytes) (hu : Unindexed s a)
    (h : onWeightChanged s token prev cur = .ok s') : Keep a s s' := by
  unfold onWeightChanged at h
  split at h
  · cases h; exact Keep.refl a s
  · dsimp only at h
    refine foldlM_inv_mem (fun b => Keep a s b) _ _ ?_ _ _ (Keep.refl a s) h
    intro b e b' he hb hstep
    have he' : e ∈ s.lockingIdx := (List.mem_filter.mp ((List.mergeSort_perm _ _).mem_iff.mp he)).1
    have hab : e.1.2 ≠ a := by
      intro heq
      apply hu e.1.1 e.2
      rw [← heq]
      exact he'
    exact hb.trans (weightStep_other a prev cur b b' e hab hstep)

/-! ## validators that are out: neither Active nor Pending, no power, not ranked, not indexed -/

/-- how far out a status is: Active / Pending are in; a jailed validator can become inactive, any
    validator can be tombstoned; nothing leads back except `lockOne` on a jailed validator -/
def outLevel : Status → Nat
  | .pending => 0 | .active => 0 | .downgrade => 1 | .inactive => 2 | .tombstoned => 3

structure OutRec (s : State) (a : Bytes) (v : Validator) : Prop where
  vrec : vget s a = some v
  out : 0 < outLevel v.status
  power : v.power = 0
  unranked : Unranked s a
  unindexed : Unindexed s a

/-- the record of an out validator later on: same jail time, status the same or further out -/
structure Later (v v' : Validator) : Prop where
  jail : v'.jailedUntil = v.jailedUntil
  level : outLevel v.status ≤ outLevel v'.status
  pubkey : v'.pubkey = v.pubkey

theorem Later.refl (v : Validator) : Later v v := ⟨rfl, Nat.le_refl _, rfl⟩
theorem Later.trans {u v w : Validator} (h1 : Later u v) (h2 : Later v w) : Later u w :=
  ⟨h2.jail.trans h1.jail, Nat.le_trans h1.level h2.level, h2.pubkey.trans h1.pubkey⟩

theorem Later.tombstoned {v v' : Validator} (h : Later v v') (hs : v.status = .tombstoned) : v'.status = .tombstoned := by
  have := h.level
  rw [hs] at this
  cases hs' : v'.status <;> rw [hs'] at this <;> simp [outLevel] at this

theorem Later.inactive {v v' : Validator} (h : Later v v') (hs : v.status = .inactive) :
    v'.status = .inactive ∨ v'.status = .tombstoned := by
  have := h.level
  rw [hs] at this
  cases hs' : v'.status <;> rw [hs'] at this <;> simp [outLevel] at this
  · exact Or.inr rfl
  · exact Or.inl rfl

theorem out_not_ap {st : Status} (h : 0 < outLevel st) : (st == .active || st == .pending) = false := by
  cases st <;> simp_all [outLevel]

theorem out_ne_active {st : Status} (h : 0 < outLevel st) : st ≠ .active := by
  cases st <;> simp_all [outLevel]

theorem out_ne_pending {st : Status} (h : 0 < outLevel st) : st ≠ .pending := by
  cases st <;> simp_all [outLevel]

theorem Env.unranked {a : Bytes} {s t : State} (h : Env a s t) (hu : Unranked s a) : Unranked t a :=
  fun p hp => hu p (h.rank p hp)
theorem Env.unindexed {a : Bytes} {s t : State} (h : Env a s t) (hu : Unindexed s a) : Unindexed t a :=
  fun d x hp => hu d x (h.idx d x hp)

theorem OutRec.keep {s t : State} {a : Bytes} {v : Validator} (h : OutRec s a v) (k : Keep a s t) : OutRec t a v :=
  ⟨k.vrec.trans h.vrec, h.out, h.power, k.env.unranked h.unranked, k.env.unindexed h.unindexed⟩

/-- the out validator `a` (record `v` in `s`) is still out in `s'`; recorded set and parameters are the same -/
def Stays (a : Bytes) (v : Validator) (s s' : State) : Prop :=
  ∃ v', OutRec s' a v' ∧ Later v v' ∧ s'.valset = s.valset ∧ s'.params = s.params

theorem Stays.refl {s : State} {a : Bytes} {v : Validator} (h : OutRec s a v) : Stays a v s s :=
  ⟨v, h, Later.refl v, rfl, rfl⟩

theorem Stays.of_keep {s t : State} {a : Bytes} {v : Validator} (h : OutRec s a v) (k : Keep a s t) : Stays a v s t :=
  ⟨v, h.keep k, Later.refl v, k.env.valset, k.env.params⟩

theorem Stays.trans {s t u : State} {a : Bytes} {v : Validator} (h1 : Stays a v s t)
    (h2 : ∀ v', OutRec t a v' → Stays a v' t u) : Stays a v s u := by
  obtain ⟨v', o1, l1, e1, p1⟩ := h1
  obtain ⟨v'', o2, l2, e2, p2⟩ := h2 v' o1
  exact ⟨v'', o2, l1.trans l2, e2.trans e1, p2.trans p1⟩

theorem Stays.then_keep {s t u : State} {a : Bytes} {v : Validator} (h1 : Stays a v s t) (k : Keep a t u) : Stays a v s u :=
  h1.trans (fun _ o => Stays.of_keep o k)

/-- rewriting the record of the out validator itself -/
theorem Stays.mk_self {s t : State} {a : Bytes} {v : Validator} (ho : OutRec s a v) (he : Env a s t) (w : Validator)
    (hw1 : outLevel v.status ≤ outLevel w.status) (hw2 : w.power = 0) (hw3 : w.jailedUntil = v.jailedUntil)
    (hw4 : w.pubkey = v.pubkey) : Stays a v s (vset t a w) := by
  have he' : Env a s (vset t a w) := he.trans (env_vset a t a w)
  exact ⟨w, ⟨vget_vset_same t a w, Nat.lt_of_lt_of_le ho.out hw1, hw2, he'.unranked ho.unranked,
    he'.unindexed ho.unindexed⟩, ⟨hw3, hw1, hw4⟩, he'.valset, he'.params⟩

/-- a successful fold of steps that keep the validator out keeps it out -/
theorem stays_foldlM {α : Type} (a : Bytes) (v : Validator) (s : State) (f : State → α → Outcome State)
    (hf : ∀ b x b' w, OutRec b a w → f b x = .ok b' → Stays a w b b') :
    ∀ (l : List α) (b b' : State), Stays a v s b → l.foldlM f b = .ok b' → Stays a v s b' := by
  intro l
  refine foldlM_inv (fun b => Stays a v s b) f ?_ l
  intro b x b' hb hstep
  exact hb.trans (fun w ow => hf b x b' w ow hstep)

/-- the one way back: `lockOne` on a jailed (Downgrade) validator after its jail time, with holdings
    that meet every token threshold -/
def RejoinAt (now : Int) (a : Bytes) (v : Validator) : Prop :=
  v.status = .downgrade ∧ now > v.jailedUntil ∧
  ∃ si coins sj vj, lockOne si now a coins = .ok sj ∧ vget sj a = some vj ∧ vj.status = .pending ∧
    isAllGTE vj.locking si.threshold = true

theorem RejoinAt.of_later {now : Int} {a : Bytes} {v w : Validator} (hv : 0 < outLevel v.status) (hl : Later v w)
    (h : RejoinAt now a w) : RejoinAt now a v := by
  obtain ⟨h1, h2, h3⟩ := h
  refine ⟨?_, by rw [← hl.jail]; exact h2, h3⟩
  have := hl.level
  rw [h1] at this
  cases hs : v.status <;> rw [hs] at this hv <;> simp [outLevel] at this hv

theorem lockOne_self (s s' : State) (now : Int) (a : Bytes) (coins : Coins) (v : Validator) (ho : OutRec s a v)
    (h : lockOne s now a coins = .ok s') : Stays a v s s' ∨ RejoinAt now a v := by
  have h0 := h
  unfold lockOne at h
  rw [ho.vrec] at h
  dsimp only at h
  split at h
  · cases h
  · cases hst : v.status with
    | pending => exact absurd hst (out_ne_pending ho.out)
    | active => exact absurd hst (out_ne_active ho.out)
    | downgrade =>
      simp only [hst] at h
      split at h
      · rename_i hcond
        right
        split at h
        · cases h
        · cases h
        · cases h
          exact ⟨hst, hcond.1, s, coins, _, _, h0, vget_vset_same _ _ _, rfl, hcond.2⟩
      · cases h
        left
        exact Stays.mk_self ho (Env.refl a s) _ (by rw [hst]; exact Nat.le_refl _) ho.power rfl rfl
    | tombstoned =>
      simp only [hst] at h
      cases h
      left
      exact Stays.mk_self ho (Env.refl a s) _ (by rw [hst]; exact Nat.le_refl _) ho.power rfl rfl
    | inactive =>
      simp only [hst] at h
      cases h
      left
      exact Stays.mk_self ho (Env.refl a s) _ (by rw [hst]; exact Nat.le_refl _) ho.power rfl rfl

theorem lockOne_out (s s' : State) (now : Int) (a b : Bytes) (coins : Coins) (v : Validator) (ho : OutRec s a v)
    (h : lockOne s now b coins = .ok s') : Stays a v s s' ∨ RejoinAt now a v := by
  by_cases hab : b = a
  · subst hab; exact lockOne_self s s' now b coins v ho h
  · exact Or.inl (Stays.of_keep ho (lockOne_other s s' now a b coins hab h))

theorem unlockCore_self (s s3 : State) (r : UnlockReq) (ex : Bool) (amt : Int) (v : Validator) (ho : OutRec s r.validator v)
    (h : unlockCore s r = .ok (s3, ex, amt)) : Stays r.validator v s s3 := by
  unfold unlockCore at h
  rw [ho.vrec] at h
  dsimp only at h
  have hnap := out_not_ap ho.out
  split at h
  · cases h
  · split at h
    · cases h
    · split at h
      · cases h
      · cases h
      · rename_i pw hpw
        simp only [Outcome.ok.injEq, Prod.mk.injEq] at h
        obtain ⟨h1, _, _⟩ := h
        rw [← h1]
        have e1 := env_rankRemove r.validator s v.power r.validator
        rw [hnap] at hpw
        simp only [Bool.false_eq_true, and_false, if_false, Outcome.ok.injEq] at hpw
        split
        · dsimp only
          refine Stays.mk_self ho (e1.trans (keep_foldl_idxRemove _ r.validator v.locking _).env) _ ?_ rfl rfl rfl
          dsimp only
          have := ho.out
          cases hs : v.status <;> rw [hs] at this <;> simp [outLevel] at this ⊢
        · rw [hnap]
          simp only [Bool.false_eq_true, if_false]
          exact Stays.mk_self ho e1 _ (Nat.le_refl _) (by dsimp only; rw [← hpw]; exact ho.power) rfl rfl

theorem unlockOne_out (s s' : State) (now : Int) (r : UnlockReq) (a : Bytes) (v : Validator) (ho : OutRec s a v)
    (h : unlockOne s now r = .ok s') : Stays a v s s' := by
  by_cases hab : r.validator = a
  · subst hab
    unfold unlockOne at h
    split at h
    · cases h
    · cases h
    · rename_i s3 ex amt hcore
      cases h
      exact (unlockCore_self s s3 r ex amt v ho hcore).then_keep (keep_enqueueUnlock _ _ _ _)
  · exact Stays.of_keep ho (unlockOne_other s s' now r a hab h)

theorem unlock_out (s s' : State) (now : Int) (reqs : List UnlockReq) (a : Bytes) (v : Validator) (ho : OutRec s a v)
    (h : unlock s now reqs = .ok s') : Stays a v s s' := by
  unfold unlock at h
  exact stays_foldlM a v s _ (fun b r b' w ow hstep => unlockOne_out b b' now r a w ow hstep) reqs s s' (Stays.refl ho) h

theorem handleVote_out (s s' : State) (now : Int) (vi : VoteInfo) (a : Bytes) (v : Validator) (ho : OutRec s a v)
    (h : handleVote s now vi = .ok s') : Stays a v s s' := by
  by_cases hab : vi.address = a
  · subst hab
    unfold handleVote at h
    rw [ho.vrec] at h
    dsimp only at h
    rw [if_pos (out_ne_active ho.out)] at h
    cases h
    exact Stays.refl ho
  · exact Stays.of_keep ho (handleVote_other s s' now vi a hab h)

theorem handleVotes_out (s s' : State) (now : Int) (votes : List VoteInfo) (a : Bytes) (v : Validator) (ho : OutRec s a v)
    (h : handleVotes s now votes = .ok s') : Stays a v s s' := by
  unfold handleVotes at h
  exact stays_foldlM a v s _ (fun b x b' w ow hstep => handleVote_out b b' now x a w ow hstep) votes s s' (Stays.refl ho) h

theorem handleEvidence_out (s s' : State) (now height : Int) (maxAge : Option (Int × Int)) (e : Evidence) (a : Bytes)
    (v : Validator) (ho : OutRec s a v) (h : handleEvidence s now height maxAge e = .ok s') : Stays a v s s' := by
  by_cases hab : e.address = a
  · subst hab
    unfold handleEvidence at h
    split at h
    · cases h; exact Stays.refl ho
    · split at h
      · cases h; exact Stays.refl ho
      · rw [ho.vrec] at h
        dsimp only at h
        split at h
        · cases h; exact Stays.refl ho
        · cases h
          refine Stays.mk_self ho ((env_rankRemove _ s v.power e.address).trans (keep_slashAll _ _ _ _ _).env) _ ?_ rfl rfl rfl
          dsimp only
          cases hs : v.status <;> simp [outLevel]
  · exact Stays.of_keep ho (handleEvidence_other s s' now height maxAge e a hab h)

theorem claim_out (s s' : State) (reqs : List ClaimReq) (a : Bytes) (v : Validator) (ho : OutRec s a v)
    (h : claim s reqs = .ok s') : Stays a v s s' := by
  unfold claim at h
  refine stays_foldlM a v s _ ?_ reqs s s' (Stays.refl ho) h
  intro b r b' w ow hstep
  dsimp only at hstep
  cases hv : vget b r.validator with
  | none => rw [hv] at hstep; cases hstep
  | some u =>
    rw [hv] at hstep
    cases hstep
    by_cases hab : r.validator = a
    · subst hab
      have : u = w := by rw [ow.vrec] at hv; cases hv; rfl
      subst this
      refine Stays.mk_self ow ?_ _ ?_ ?_ ?_ ?_
      · exact env_of_eq rfl rfl rfl rfl
      · exact Nat.le_refl _
      · exact ow.power
      · rfl
      · rfl
    · refine Stays.of_keep ow (Keep.trans ?_ (keep_vset_other a _ _ _ hab))
      exact keep_of_eq rfl rfl rfl rfl rfl

theorem distributeReward_go_out (total : Int) (a : Bytes) (v : Validator) (s0 : State) :
    ∀ (votes : List VoteInfo) (s : State) (rg rr : Int) (s' : State) (rg' rr' : Int),
      Stays a v s0 s → distributeReward.go total votes s rg rr = .ok (s', rg', rr') → Stays a v s0 s' := by
  intro votes
  induction votes with
  | nil =>
    intro s rg rr s' rg' rr' hs h
    unfold distributeReward.go at h
    cases h; exact hs
  | cons x rest ih =>
    intro s rg rr s' rg' rr' hs h
    unfold distributeReward.go at h
    cases hv : vget s x.address with
    | none => rw [hv] at h; cases h
    | some val =>
      rw [hv] at h
      dsimp only at h
      refine ih _ _ _ s' rg' rr' ?_ h
      refine hs.trans ?_
      intro w ow
      by_cases hab : x.address = a
      · subst hab
        have : val = w := by rw [ow.vrec] at hv; cases hv; rfl
        subst this
        exact Stays.mk_self ow (Env.refl _ s) _ (Nat.le_refl _) ow.power rfl rfl
      · exact Stays.of_keep ow (keep_vset_other a _ _ _ hab)

theorem distributeReward_out (s s' : State) (height : Int) (votes : List VoteInfo) (a : Bytes) (v : Validator)
    (ho : OutRec s a v) (h : distributeReward s height votes = .ok s') : Stays a v s s' := by
  unfold distributeReward at h
  split at h
  · cases h; exact Stays.refl ho
  · split at h
    · cases h; exact Stays.refl ho
    · dsimp only at h
      split at h
      · cases h
      · split at h
        · cases h
        · cases h
        · rename_i s2 rg rr heq
          cases h
          exact (distributeReward_go_out _ a v s votes s _ _ s2 rg rr (Stays.refl ho) heq).then_keep
            (keep_of_eq rfl rfl rfl rfl rfl)

theorem create_out (hash160 : Bytes → Bytes) (hasAccount : Bytes → Bool) (s s' : State) (reqs : List CreateReq)
    (accs : List Bytes) (a : Bytes) (v : Validator) (ho : OutRec s a v)
    (h : create hash160 hasAccount s reqs = .ok (s', accs)) : Stays a v s s' := by
  unfold create at h
  refine foldlM_inv (fun (acc : State × List Bytes) => Stays a v s acc.1) _ ?_ _ _ _ (Stays.refl ho) h
  intro acc r acc' hacc hstep
  obtain ⟨b, newAccs⟩ := acc
  dsimp only at hstep hacc
  split at hstep
  · cases hstep
  · split at hstep
    · cases hstep; exact hacc
    · rename_i hnone
      cases hstep
      refine hacc.trans ?_
      intro w ow
      have hab : hash160 r.compressed ≠ a := by
        intro heq
        rw [heq, ow.vrec] at hnone
        simp at hnone
      exact Stays.of_keep ow (keep_vset_other a _ _ _ hab)

theorem updateRewardPool_keep (s s' : State) (height : Int) (gas grants : List Int) (a : Bytes)
    (h : updateRewardPool s height gas grants = .ok s') : Keep a s s' := by
  unfold updateRewardPool at h
  split at h
  · cases h
  · split at h
    · cases h
    · dsimp only at h
      split at h
      · cases h
      · cases h; exact keep_of_eq rfl rfl rfl rfl rfl

theorem updateTokens_out (s s' : State) (weights : List (String × Nat)) (thresholds : List (String × Int)) (a : Bytes)
    (v : Validator) (ho : OutRec s a v) (h : updateTokens s weights thresholds = .ok s') : Stays a v s s' := by
  unfold updateTokens at h
  obtain ⟨s1, h1, h2⟩ := (bind_eq_ok _ _ _).mp h
  have hs1 : Stays a v s s1 := by
    refine stays_foldlM a v s _ ?_ weights s s1 (Stays.refl ho) h1
    intro b u b' w ow hstep
    dsimp only at hstep
    split at hstep
    · rename_i b2 heq
      cases hstep
      exact Stays.of_keep ow ((onWeightChanged_unindexed b b2 _ _ _ a ow.unindexed heq).trans (keep_tset a _ _ _))
    · cases hstep
    · cases hstep
  split at h2
  · cases h2; exact hs1
  · refine stays_foldlM a v s _ ?_ thresholds s1 s' hs1 h2
    intro b u b' w ow hstep
    dsimp only at hstep
    split at hstep
    · cases hstep
    · split at hstep
      · cases hstep; exact Stays.refl ow
      · split at hstep
        · cases hstep
        · cases hstep
          refine Stays.of_keep ow (Keep.trans ?_ (keep_tset a _ _ _))
          exact keep_of_eq rfl rfl rfl rfl rfl

theorem dequeueMature_keep (s : State) (now : Int) (a : Bytes) : Keep a s (dequeueMature s now) := by
  unfold dequeueMature
  split
  · exact Keep.refl a s
  · exact keep_of_eq rfl rfl rfl rfl rfl

theorem dequeue_keep (s : State) (a : Bytes) : Keep a s (dequeue s).1 := by
  unfold dequeue
  split
  · exact Keep.refl a s
  · exact keep_of_eq rfl rfl rfl rfl rfl

/-- `lock`: the validator stays out, or it re-joins through a `lockOne` after its jail time -/
theorem lock_out (s s' : State) (now : Int) (reqs : List LockReq) (a : Bytes) (v : Validator) (ho : OutRec s a v)
    (h : lock s now reqs = .ok s') : Stays a v s s' ∨ RejoinAt now a v := by
  unfold lock at h
  split at h
  · cases h; exact Or.inl (Stays.refl ho)
  · split at h
    · cases h
    · split at h
      · cases h
      · cases h
      · rename_i agg hagg
        refine foldlM_inv (fun b => Stays a v s b ∨ RejoinAt now a v) _ ?_ agg s s' (Or.inl (Stays.refl ho)) h
        intro b e b' hb hstep
        rcases hb with hb | hb
        · obtain ⟨w, ow, lw, ew, pw⟩ := hb
          rcases lockOne_out b b' now a e.1 e.2 w ow hstep with h1 | h1
          · exact Or.inl (Stays.trans ⟨w, ow, lw, ew, pw⟩ (fun w' ow' => by
              have : w' = w := by have := ow'.vrec; rw [ow.vrec] at this; cases this; rfl
              subst this; exact h1))
          · exact Or.inr (RejoinAt.of_later ho.out lw h1)
        · exact Or.inr hb

theorem processRequests_out (hash160 : Bytes → Bytes) (hasAccount : Bytes → Bool) (s s' : State) (height now : Int)
    (R : Reqs) (accs : List Bytes) (a : Bytes) (v : Validator) (ho : OutRec s a v)
    (h : processRequests hash160 hasAccount s height now R = .ok (s', accs)) : Stays a v s s' ∨ RejoinAt now a v := by
  unfold processRequests at h
  obtain ⟨s1, h1, h⟩ := (bind_eq_ok _ _ _).mp h
  obtain ⟨s2, h2, h⟩ := (bind_eq_ok _ _ _).mp h
  obtain ⟨⟨s3, accs3⟩, h3, h⟩ := (bind_eq_ok _ _ _).mp h
  dsimp only at h
  obtain ⟨s4, h4, h⟩ := (bind_eq_ok _ _ _).mp h
  obtain ⟨s5, h5, h⟩ := (bind_eq_ok _ _ _).mp h
  obtain ⟨s6, h6, h⟩ := (bind_eq_ok _ _ _).mp h
  have h : (Outcome.ok (s6, accs3) : Outcome (State × List Bytes)) = .ok (s', accs) := h
  simp only [Outcome.ok.injEq, Prod.mk.injEq] at h
  obtain ⟨rfl, _⟩ := h
  have k1 : Stays a v s s1 := Stays.of_keep ho (updateRewardPool_keep s s1 height R.gas R.grants a h1)
  have k2 : Stays a v s s2 := k1.trans (fun w ow => updateTokens_out s1 s2 R.weights R.thresholds a w ow h2)
  have k3 : Stays a v s s3 := k2.trans (fun w ow => create_out hash160 hasAccount s2 s3 R.creates accs3 a w ow h3)
  obtain ⟨w, ow, lw, ew, pw⟩ := k3
  rcases lock_out s3 s4 now R.locks a w ow h4 with k4 | k4
  · left
    have k4' : Stays a v s s4 := Stays.trans ⟨w, ow, lw, ew, pw⟩ (fun w' ow' => by
      have : w' = w := by have := ow'.vrec; rw [ow.vrec] at this; cases this; rfl
      subst this; exact k4)
    have k5 : Stays a v s s5 := k4'.trans (fun w ow => unlock_out s4 s5 now R.unlocks a w ow h5)
    exact k5.trans (fun w ow => claim_out s5 s6 R.claims a w ow h6)
  · exact Or.inr (RejoinAt.of_later ho.out lw k4)

theorem beginBlock_out (s s' : State) (height now : Int) (votes : List VoteInfo) (maxAge : Option (Int × Int))
    (evs : List Evidence) (a : Bytes) (v : Validator) (ho : OutRec s a v)
    (h : beginBlock s height now votes maxAge evs = .ok s') : Stays a v s s' := by
  unfold beginBlock at h
  obtain ⟨s1, h1, h⟩ := (bind_eq_ok _ _ _).mp h
  obtain ⟨s3, h3, h⟩ := (bind_eq_ok _ _ _).mp h
  have k1 : Stays a v s s1 := distributeReward_out s s1 height votes a v ho h1
  have k2 : Stays a v s (dequeueMature s1 now) := k1.then_keep (dequeueMature_keep s1 now a)
  have k3 : Stays a v s s3 := k2.trans (fun w ow => handleVotes_out _ s3 now votes a w ow h3)
  exact stays_foldlM a v s _ (fun b x b' w ow hstep => handleEvidence_out b b' now height maxAge x a w ow hstep) evs s3 s' k3 h

/-! ## EndBlocker and an out validator -/

theorem mem_keys_filter_ne {β : Type} (l : List (Bytes × β)) (a k : Bytes) (hak : a ≠ k) :
    a ∈ (l.filter (·.1 != k)).map (·.1) ↔ a ∈ l.map (·.1) := by
  simp only [List.mem_map, List.mem_filter]
  constructor
  · rintro ⟨y, ⟨hy, _⟩, rfl⟩; exact ⟨y, hy, rfl⟩
  · rintro ⟨y, hy, rfl⟩; exact ⟨y, ⟨hy, by simpa using hak⟩, rfl⟩

/-- what EndBlocker keeps (everything about `a` but the recorded set) -/
structure EKeep (a : Bytes) (s t : State) : Prop where
  vrec : vget t a = vget s a
  ranking : t.ranking = s.ranking
  lockingIdx : t.lockingIdx = s.lockingIdx
  params : t.params = s.params

theorem EKeep.refl (a : Bytes) (s : State) : EKeep a s s := ⟨rfl, rfl, rfl, rfl⟩
theorem EKeep.trans {a : Bytes} {s t u : State} (h1 : EKeep a s t) (h2 : EKeep a t u) : EKeep a s u :=
  ⟨h2.vrec.trans h1.vrec, h2.ranking.trans h1.ranking, h2.lockingIdx.trans h1.lockingIdx, h2.params.trans h1.params⟩

theorem ekeep_vset_other (a : Bytes) (s : State) (b : Bytes) (w : Validator) (hab : b ≠ a) : EKeep a s (vset s b w) :=
  ⟨vget_vset_other s b a w hab, vset_ranking s b w, by unfold vset; rfl, vset_params s b w⟩

theorem ekeep_valset (a : Bytes) (s : State) (x : List (Bytes × Nat)) : EKeep a s { s with valset := x } :=
  ⟨rfl, rfl, rfl, rfl⟩

/-- the removal loop of EndBlocker: every leftover address is removed from the recorded set -/
theorem endBlocker_loop2 (a : Bytes) (v : Validator) (hout : v.status ≠ .active) (s0 : State) :
    ∀ (l : List (Bytes × Nat)) (st : State) (ups : List Update) (st' : State) (ups' : List Update),
      EKeep a s0 st → vget s0 a = some v → (a ∈ st.valset.map (·.1) → a ∈ l.map (·.1)) →
      l.foldlM (fun (acc : State × List Update) (e : Bytes × Nat) =>
        match vget acc.1 e.1 with
        | none => (Outcome.err "not-found" : Outcome (State × List Update))
        | some v =>
          .ok ({ (if v.status == Status.active then vset acc.1 e.1 ({ v with status := Status.pending } : Validator) else acc.1) with
                  valset := (if v.status == Status.active then vset acc.1 e.1 ({ v with status := Status.pending } : Validator)
                              else acc.1).valset.filter (·.1 != e.1) },
               acc.2 ++ [({ pubkey := v.pubkey, power := 0 } : Update)])) (st, ups) = .ok (st', ups') →
      EKeep a s0 st' ∧ a ∉ st'.valset.map (·.1) := by
  intro l
  induction l with
  | nil =>
    intro st ups st' ups' hk _ hmem h
    have h' := foldlM_nil_ok _ _ _ h
    cases h'
    exact ⟨hk, fun hm => by simpa using hmem hm⟩
  | cons e l ih =>
    intro st ups st' ups' hk hv hmem h
    obtain ⟨⟨st1, ups1⟩, h1, h2⟩ := foldlM_cons_ok _ e l _ _ h
    dsimp only at h1
    cases hu : vget st e.1 with
    | none => rw [hu] at h1; cases h1
    | some u =>
      rw [hu] at h1
      simp only [Outcome.ok.injEq, Prod.mk.injEq] at h1
      obtain ⟨h1, _⟩ := h1
      have hk1 : EKeep a st st1 ∧ (a ∈ st1.valset.map (·.1) → a ∈ st.valset.map (·.1) ∧ a ≠ e.1) := by
        rw [← h1]
        by_cases hae : e.1 = a
        · have hua : u = v := by rw [hae, hk.vrec, hv] at hu; cases hu; rfl
          have hna : (u.status == Status.active) = false := by rw [hua]; simpa using hout
          rw [hna]
          simp only [Bool.false_eq_true, if_false]
          refine ⟨ekeep_valset a st _, ?_⟩
          intro hm
          simp only [List.mem_map, List.mem_filter] at hm
          obtain ⟨y, ⟨_, hy2⟩, hy3⟩ := hm
          rw [hy3, hae] at hy2
          simp at hy2
        · refine ⟨?_, ?_⟩
          · split
            · exact (ekeep_vset_other a st e.1 _ hae).trans (ekeep_valset a _ _)
            · exact ekeep_valset a st _
          · intro hm
            have hvs : (if (u.status == Status.active) = true then vset st e.1 { u with status := .pending } else st).valset
                = st.valset := by split <;> simp
            dsimp only at hm
            rw [hvs] at hm
            simp only [List.mem_map, List.mem_filter] at hm
            obtain ⟨y, ⟨hy1, hy2⟩, hy3⟩ := hm
            refine ⟨List.mem_map.mpr ⟨y, hy1, hy3⟩, ?_⟩
            rw [← hy3]; simpa using hy2
      refine ih st1 ups1 st' ups' (hk.trans hk1.1) hv ?_ h2
      intro hm
      obtain ⟨hm1, hne⟩ := hk1.2 hm
      have := hmem hm1
      rw [List.map_cons, List.mem_cons] at this
      rcases this with h3 | h3
      · exact absurd h3 hne
      · exact h3

/-- **EndBlocker and an out validator**: its record, (non-)ranking and (non-)indexing are untouched,
    and after a successful EndBlocker it is not in the recorded set. -/
theorem endBlocker_out (s s' : State) (ups : List Update) (a : Bytes) (v : Validator) (ho : OutRec s a v)
    (h : endBlocker s = .ok (s', ups)) : OutRec s' a v ∧ a ∉ s'.valset.map (·.1) ∧ s'.params = s.params := by
  unfold endBlocker at h
  dsimp only at h
  split at h
  · cases h
  · cases h
  · rename_i s1 leftovers ups1 heq
    have h1 : EKeep a s s1 ∧ (a ∈ s1.valset.map (·.1) → a ∈ leftovers.map (·.1)) := by
      refine foldlM_inv (fun (acc : State × List (Bytes × Nat) × List Update) =>
        EKeep a s acc.1 ∧ (a ∈ acc.1.valset.map (·.1) → a ∈ acc.2.1.map (·.1))) _ ?_ _ _ _ ⟨EKeep.refl a s, id⟩ heq
      intro acc e acc' hacc hstep
      obtain ⟨b, last, ups0⟩ := acc
      dsimp only at hstep hacc
      obtain ⟨hk, hm⟩ := hacc
      cases hu : vget b e.2 with
      | none => rw [hu] at hstep; cases hstep
      | some u =>
        rw [hu] at hstep
        dsimp only at hstep
        have hne : (u.status = .active ∨ u.status = .pending) → e.2 ≠ a := by
          intro hst heq
          have hua : u = v := by rw [heq, hk.vrec, ho.vrec] at hu; cases hu; rfl
          rw [hua] at hst
          rcases hst with hst | hst
          · exact out_ne_active ho.out hst
          · exact out_ne_pending ho.out hst
        split at hstep
        · rename_i hst
          have hae := hne (Or.inl hst)
          have hfil : a ∈ last.map (·.1) → a ∈ (last.filter (·.1 != e.2)).map (·.1) :=
            (mem_keys_filter_ne last a e.2 (fun x => hae x.symm)).mpr
          split at hstep
          · cases hstep
            refine ⟨hk.trans (ekeep_valset a b _), ?_⟩
            intro hmem
            dsimp only at hmem ⊢
            rw [List.map_append, List.mem_append] at hmem
            rcases hmem with h3 | h3
            · exact hfil (hm ((mem_keys_filter_ne b.valset a e.2 (fun x => hae x.symm)).mp h3))
            · simp only [List.map_cons, List.map_nil, List.mem_singleton] at h3
              exact absurd h3.symm hae
          · cases hstep
            exact ⟨hk, fun hmem => hfil (hm hmem)⟩
        · rename_i hst
          have hae := hne (Or.inr hst)
          split at hstep
          · cases hstep
          · cases hstep
            refine ⟨(hk.trans (ekeep_vset_other a b e.2 _ hae)).trans (ekeep_valset a _ _), ?_⟩
            intro hmem
            dsimp only at hmem ⊢
            rw [vset_valset, List.map_append, List.mem_append] at hmem
            rcases hmem with h3 | h3
            · exact hm h3
            · simp only [List.map_cons, List.map_nil, List.mem_singleton] at h3
              exact absurd h3.symm hae
        · cases hstep
    have hperm : a ∈ leftovers.map (·.1) → a ∈ (leftovers.mergeSort (fun a b => !bytesLt b.1 a.1)).map (·.1) := by
      intro hm
      exact ((List.mergeSort_perm leftovers _).map (·.1)).mem_iff.mpr hm
    obtain ⟨k2, hout⟩ := endBlocker_loop2 a v (out_ne_active ho.out) s _ s1 ups1 s' ups h1.1 ho.vrec
      (fun hm => hperm (h1.2 hm)) h
    refine ⟨⟨k2.vrec.trans ho.vrec, ho.out, ho.power, ?_, ?_⟩, hout, k2.params⟩
    · intro p hp; rw [k2.ranking] at hp; exact ho.unranked p hp
    · intro d x hp; rw [k2.lockingIdx] at hp; exact ho.unindexed d x hp

/-! ## one entry point and an out validator -/

/-- the out validator is still out after the operation -/
def StillOut (a : Bytes) (v : Validator) (s : State) (op : Op) : Prop :=
  ∃ v', OutRec (step s op) a v' ∧ Later v v' ∧ (step s op).params = s.params ∧
    (a ∉ s.valset.map (·.1) → a ∉ (step s op).valset.map (·.1)) ∧
    (∀ s' ups, op = .endBlocker → endBlocker s = .ok (s', ups) → a ∉ (step s op).valset.map (·.1))

theorem StillOut.of_stays {a : Bytes} {v : Validator} {s : State} {op : Op} (hne : op ≠ .endBlocker)
    (h : Stays a v s (step s op)) : StillOut a v s op := by
  obtain ⟨v', o, l, e, p⟩ := h
  exact ⟨v', o, l, p, fun hn => by rw [e]; exact hn, fun _ _ he => absurd he hne⟩

theorem StillOut.same {a : Bytes} {v : Validator} {s : State} {op : Op} (ho : OutRec s a v) (hs : step s op = s)
    (hf : ∀ s' ups, op = .endBlocker → endBlocker s = .ok (s', ups) → False) : StillOut a v s op := by
  refine ⟨v, by rw [hs]; exact ho, Later.refl v, by rw [hs], fun hn => by rw [hs]; exact hn, ?_⟩
  intro s' ups he hok
  exact (hf s' ups he hok).elim

/-- **One operation and an out validator**: it stays out (record only moves further out, jail time
    kept; it does not enter the recorded set and a successful EndBlocker removes it from the recorded
    set), unless the operation is a request batch whose `lock` lets a jailed validator back in after its
    jail time (`RejoinAt`). -/
theorem step_out (s : State) (op : Op) (a : Bytes) (v : Validator) (ho : OutRec s a v) :
    StillOut a v s op ∨ ∃ now, opTime op = some now ∧ RejoinAt now a v := by
  cases op with
  | process hash160 hasAccount height now r =>
    cases hp : processRequests hash160 hasAccount s height now r with
    | ok p =>
      obtain ⟨s', accs⟩ := p
      have hs : step s (.process hash160 hasAccount height now r) = s' := by simp only [step, hp]
      rcases processRequests_out hash160 hasAccount s s' height now r accs a v ho hp with h | h
      · left; exact StillOut.of_stays (by intro h; cases h) (by rw [hs]; exact h)
      · right; exact ⟨now, rfl, h⟩
    | err e =>
      left; exact StillOut.same ho (by simp only [step, hp]) (fun _ _ he _ => by cases he)
    | panic e =>
      left; exact StillOut.same ho (by simp only [step, hp]) (fun _ _ he _ => by cases he)
  | beginBlock height now votes maxAge evs =>
    left
    cases hp : beginBlock s height now votes maxAge evs with
    | ok s' =>
      have hs : step s (.beginBlock height now votes maxAge evs) = s' := by simp only [step, hp]
      exact StillOut.of_stays (by intro h; cases h) (by rw [hs]; exact beginBlock_out s s' height now votes maxAge evs a v ho hp)
    | err e => exact StillOut.same ho (by simp only [step, hp]) (fun _ _ he _ => by cases he)
    | panic e => exact StillOut.same ho (by simp only [step, hp]) (fun _ _ he _ => by cases he)
  | endBlocker =>
    left
    cases hp : endBlocker s with
    | ok p =>
      obtain ⟨s', ups⟩ := p
      have hs : step s .endBlocker = s' := by simp only [step, hp]
      obtain ⟨o, hn, hpar⟩ := endBlocker_out s s' ups a v ho hp
      exact ⟨v, by rw [hs]; exact o, Later.refl v, by rw [hs]; exact hpar, fun _ => by rw [hs]; exact hn,
        fun _ _ _ _ => by rw [hs]; exact hn⟩
    | err e => exact StillOut.same ho (by simp only [step, hp]) (fun _ _ _ hok => by rw [hp] at hok; cases hok)
    | panic e => exact StillOut.same ho (by simp only [step, hp]) (fun _ _ _ hok => by rw [hp] at hok; cases hok)
  | dequeue =>
    left
    exact StillOut.of_stays (by intro h; cases h) (Stays.of_keep ho (dequeue_keep s a))

/-! ## becoming out: double-sign evidence and downtime -/

/-- the ranking and index entries of `a` are the ones its record accounts for: ranked (if at all)
    with its current power, indexed (if at all) for denominations it holds.  Part of `C18.Derived`
    (see `C14H.link_of_derived`) and an invariant of the model (`reachable_linked` below). -/
structure Link (s : State) (a : Bytes) (v : Validator) : Prop where
  rank : ∀ p, (p, a) ∈ s.ranking → p = v.power
  idx : ∀ d x, ((d, a), x) ∈ s.lockingIdx → d ∈ v.locking.map (·.1)

theorem slashStep_idx (addr : Bytes) (frac : Nat) (acc : State × Coins) (c : String × Int) :
    (slashStep addr frac acc c).1.lockingIdx = acc.1.lockingIdx.filter (fun e => !(e.1.1 == c.1 && e.1.2 == addr)) := by
  simp only [slashStep]
  generalize slashAmount c.2.toNat frac = a0
  by_cases hz : (a0 : Int) = 0
  · rw [if_pos hz]; rfl
  · rw [if_neg hz]; rfl

/-- slashing removes the index entries of every denomination held -/
theorem slashAll_idx_mem (s : State) (a : Bytes) (v : Validator) (frac : Nat) (d : String) (x : Int)
    (h : ((d, a), x) ∈ (slashAll s a v frac).1.lockingIdx) : ((d, a), x) ∈ s.lockingIdx ∧ d ∉ v.locking.map (·.1) := by
  unfold slashAll at h
  generalize v.locking = cs at h ⊢
  have key : ∀ (cs : Coins) (acc : State × Coins), ((d, a), x) ∈ (cs.foldl (slashStep a frac) acc).1.lockingIdx →
      ((d, a), x) ∈ acc.1.lockingIdx ∧ d ∉ cs.map (·.1) := by
    intro cs
    induction cs with
    | nil => intro acc h; exact ⟨h, by simp⟩
    | cons c cs ih =>
      intro acc h
      rw [List.foldl_cons] at h
      obtain ⟨h1, h2⟩ := ih _ h
      rw [slashStep_idx, List.mem_filter] at h1
      refine ⟨h1.1, ?_⟩
      rw [List.map_cons, List.mem_cons]
      rintro (h3 | h3)
      · have := h1.2
        simp [h3] at this
      · exact h2 h3
  exact key cs (s, []) h

/-- **Double-sign evidence puts the validator out for good**: fresh evidence against a validator that
    is not yet tombstoned (ranking and index entries as its record accounts for, `Link`) leaves it
    tombstoned, with power 0, not ranked and not indexed; its holding is what the slash left. -/
theorem handleEvidence_establishes (s s' : State) (now height : Int) (maxAge : Option (Int × Int)) (e : Evidence)
    (v : Validator) (hk : e.kind = 1 ∨ e.kind = 2) (hfresh : isStale now height maxAge e = false)
    (hv : vget s e.address = some v) (hs : v.status ≠ .tombstoned) (hl : Link s e.address v)
    (hok : handleEvidence s now height maxAge e = .ok s') :
    ∃ v', OutRec s' e.address v' ∧ v'.status = .tombstoned ∧ v'.pubkey = v.pubkey ∧
      v'.locking = (slashAll (rankRemove s v.power e.address) e.address v s.params.slashDoubleSign).2 ∧
      s'.valset = s.valset ∧ s'.params = s.params := by
  unfold handleEvidence at hok
  have hk' : ¬ (e.kind ≠ 1 ∧ e.kind ≠ 2) := by omega
  have hs' : (v.status == Status.tombstoned) = false := by
    cases hvs : v.status <;> simp_all
  simp only [hk', if_false, hfresh, Bool.false_eq_true, hv, hs'] at hok
  cases hok
  have k := (keep_rankRemove e.address s v.power e.address).trans (keep_slashAll e.address _ e.address v s.params.slashDoubleSign)
  refine ⟨_, ⟨vget_vset_same _ _ _, by simp [outLevel], rfl, ?_, ?_⟩, rfl, rfl, rfl, ?_, ?_⟩
  · intro p hp
    rw [vset_ranking, (slashAll_frame _ _ _ _).2.1] at hp
    have := hl.rank p (mem_rankRemove _ _ _ _ hp)
    subst this
    exact rankRemove_not_mem s v.power e.address hp
  · intro d x hp
    have hp' : ((d, e.address), x) ∈ (slashAll (rankRemove s v.power e.address) e.address v s.params.slashDoubleSign).1.lockingIdx := hp
    obtain ⟨h1, h2⟩ := slashAll_idx_mem _ _ _ _ _ _ hp'
    exact h2 (hl.idx d x h1)
  · rw [vset_valset]; exact k.env.valset
  · rw [vset_params]; exact k.env.params

/-- **Downtime puts the validator out**: the vote record that brings an active validator's absences
    to the maximum leaves it Downgrade, jailed until `now + downtimeJail`, with power 0, not ranked, not
    indexed, its holding slashed by the downtime fraction, its window counters as the model sets them. -/
theorem handleVote_establishes (s s' : State) (now : Int) (vi : VoteInfo) (v : Validator)
    (hv : vget s vi.address = some v) (hs : v.status = .active) (hl : Link s vi.address v)
    (hdown : ((if vi.absent then v.missed + 1 else v.missed : Nat) : Int) ≥ s.params.maxMissed)
    (hok : handleVote s now vi = .ok s') :
    ∃ v', OutRec s' vi.address v' ∧ v'.status = .downgrade ∧ v'.jailedUntil = now + s.params.downtimeJail ∧
      v'.pubkey = v.pubkey ∧ s'.valset = s.valset ∧ s'.params = s.params ∧
      (v'.missed, v'.offset) = (if ((v.offset + 1 : Nat) : Int) ≥ s.params.signedBlocksWindow then (0, 0)
                                 else ((if vi.absent then v.missed + 1 else v.missed), v.offset + 1)) ∧
      ∃ v1 : Validator, v1.locking = v.locking ∧
        v'.locking = (slashAll (rankRemove s v.power vi.address) vi.address v1 s.params.slashDowntime).2 := by
  unfold handleVote at hok
  simp only [hv, hs, ne_eq, not_true_eq_false, if_false] at hok
  simp only [hdown, if_true] at hok
  cases hok
  have k := (keep_rankRemove vi.address s v.power vi.address)
  refine ⟨_, ⟨vget_vset_same _ _ _, by simp [outLevel], rfl, ?_, ?_⟩, rfl, rfl, rfl, ?_, ?_, ?_, ⟨_, rfl, rfl⟩⟩
  · intro p hp
    rw [vset_ranking, (slashAll_frame _ _ _ _).2.1] at hp
    have := hl.rank p (mem_rankRemove _ _ _ _ hp)
    subst this
    exact rankRemove_not_mem s v.power vi.address hp
  · intro d x hp
    rw [show (vset _ vi.address _).lockingIdx = _ from by unfold vset; rfl] at hp
    obtain ⟨h1, h2⟩ := slashAll_idx_mem _ _ _ _ _ _ hp
    exact h2 (hl.idx d x h1)
  · rw [vset_valset, (slashAll_frame _ _ _ _).2.2]; rfl
  · rw [vset_params]; exact (keep_slashAll vi.address _ vi.address _ s.params.slashDowntime).env.params
  · dsimp only

/-! ## histories and an out validator -/

/-- no operation of the history can let `v` back in: it is not jailed (inactive / tombstoned), or every
    block time of the history is within its jail time -/
def NoRejoin (v : Validator) (ops : List Op) : Prop :=
  v.status ≠ .downgrade ∨ ∀ op ∈ ops, ∀ now, opTime op = some now → now ≤ v.jailedUntil

theorem NoRejoin.later {v v' : Validator} {op : Op} {ops : List Op} (hv : 0 < outLevel v.status) (hl : Later v v')
    (h : NoRejoin v (op :: ops)) : NoRejoin v' ops := by
  rcases h with h | h
  · left
    have := hl.level
    intro hd
    rw [hd] at this
    cases hs : v.status <;> rw [hs] at this hv h <;> simp [outLevel] at this hv h
  · right
    intro o ho now hn
    rw [hl.jail]
    exact h o (List.mem_cons_of_mem _ ho) now hn

theorem NoRejoin.head {v : Validator} {op : Op} {ops : List Op} (h : NoRejoin v (op :: ops)) (a : Bytes) :
    ¬ ∃ now, opTime op = some now ∧ RejoinAt now a v := by
  rintro ⟨now, hn, hr⟩
  rcases h with h | h
  · exact h hr.1
  · have := h op List.mem_cons_self now hn
    have := hr.2.1
    omega

/-- **History theorem for an out validator.**  Over any list of operations none of which can bring it
    back, an out validator stays out: its record only moves further out (jail time and key kept), it has
    power 0, is neither ranked nor indexed, the parameters are unchanged and it does not enter the
    recorded set. -/
theorem runS_out (a : Bytes) (ops : List Op) : ∀ (s : State) (v : Validator), OutRec s a v → NoRejoin v ops →
    ∃ v', OutRec (runS s ops) a v' ∧ Later v v' ∧ (runS s ops).params = s.params ∧
      (a ∉ s.valset.map (·.1) → a ∉ (runS s ops).valset.map (·.1)) := by
  induction ops with
  | nil => intro s v ho _; exact ⟨v, ho, Later.refl v, rfl, id⟩
  | cons op ops ih =>
    intro s v ho hn
    rcases step_out s op a v ho with h | h
    · obtain ⟨v1, o1, l1, p1, m1, _⟩ := h
      obtain ⟨v2, o2, l2, p2, m2⟩ := ih (step s op) v1 o1 (hn.later ho.out l1)
      exact ⟨v2, o2, l1.trans l2, p2.trans p1, fun hm => m2 (m1 hm)⟩
    · exact absurd h (hn.head a)

/-- … and once an EndBlocker has succeeded it is out of the recorded set, for the rest of the history -/
theorem runS_out_valset (a : Bytes) (xs ys : List Op) (s : State) (v : Validator) (ho : OutRec s a v)
    (hn : NoRejoin v (xs ++ .endBlocker :: ys)) (s1 : State) (ups : List Update)
    (hend : endBlocker (runS s xs) = .ok (s1, ups)) :
    a ∉ (runS s (xs ++ .endBlocker :: ys)).valset.map (·.1) := by
  have hn1 : NoRejoin v xs := by
    rcases hn with h | h
    · exact Or.inl h
    · exact Or.inr (fun o ho => h o (List.mem_append_left _ ho))
  obtain ⟨v1, o1, l1, _, _⟩ := runS_out a xs s v ho hn1
  have hn2 : NoRejoin v1 (.endBlocker :: ys) := by
    rcases hn with h | h
    · left
      have := l1.level
      intro hd
      rw [hd] at this
      have hv := ho.out
      cases hs : v.status <;> rw [hs] at this hv h <;> simp [outLevel] at this hv h
    · right
      intro o ho' now hnow
      rw [l1.jail]
      exact h o (List.mem_append_right _ ho') now hnow
  rw [runS_append, runS_cons]
  rcases step_out (runS s xs) .endBlocker a v1 o1 with h | h
  · obtain ⟨v2, o2, l2, _, _, m2⟩ := h
    obtain ⟨_, _, _, _, m3⟩ := runS_out a ys _ v2 o2 (hn2.later o1.out l2)
    exact m3 (m2 s1 ups rfl hend)
  · exact absurd h (hn2.head a)

/-! ## frames for the unlock queues: everything but `unlockOne`, `dequeueMature`, `dequeue` leaves them alone -/

/-- time queue, matured queue and parameters are the same -/
structure QFrame (s t : State) : Prop where
  unlockQueue : t.unlockQueue = s.unlockQueue
  qUnlocks : t.qUnlocks = s.qUnlocks
  params : t.params = s.params

theorem QFrame.refl (s : State) : QFrame s s := ⟨rfl, rfl, rfl⟩
theorem QFrame.trans {s t u : State} (h1 : QFrame s t) (h2 : QFrame t u) : QFrame s u :=
  ⟨h2.unlockQueue.trans h1.unlockQueue, h2.qUnlocks.trans h1.qUnlocks, h2.params.trans h1.params⟩

theorem qf_vset (s : State) (a : Bytes) (v : Validator) : QFrame s (vset s a v) :=
  ⟨vset_unlockQueue s a v, vset_qUnlocks s a v, vset_params s a v⟩
theorem qf_rankRemove (s : State) (p : Nat) (a : Bytes) : QFrame s (rankRemove s p a) := ⟨rfl, rfl, rfl⟩
theorem qf_rankSet (s : State) (p : Nat) (a : Bytes) : QFrame s (rankSet s p a) := by
  unfold rankSet; split <;> exact ⟨rfl, rfl, rfl⟩
theorem qf_rank_ite (s : State) (p : Nat) (a : Bytes) : QFrame s (if p > 0 then rankSet s p a else s) := by
  split
  · exact qf_rankSet s p a
  · exact QFrame.refl s
theorem qf_idxSet (s : State) (d : String) (a : Bytes) (x : Int) : QFrame s (idxSet s d a x) := ⟨rfl, rfl, rfl⟩
theorem qf_idxRemove (s : State) (d : String) (a : Bytes) : QFrame s (idxRemove s d a) := ⟨rfl, rfl, rfl⟩
theorem qf_tset (s : State) (d : String) (t : Token) : QFrame s (tset s d t) := ⟨rfl, rfl, rfl⟩
theorem qf_foldl_idxRemove (b : Bytes) (cs : Coins) (st : State) :
    QFrame st (cs.foldl (fun s c => idxRemove s c.1 b) st) := by
  induction cs generalizing st with
  | nil => exact QFrame.refl st
  | cons c cs ih => rw [List.foldl_cons]; exact (qf_idxRemove st c.1 b).trans (ih _)
theorem qf_slashAll (s : State) (addr : Bytes) (v : Validator) (frac : Nat) : QFrame s (slashAll s addr v frac).1 := by
  obtain ⟨h1, _, h3, h4, _⟩ := C11H.slashAll_spec s addr v frac
  exact ⟨h3, h4, h1⟩

theorem lockOne_qf (s s' : State) (now : Int) (b : Bytes) (coins : Coins) (h : lockOne s now b coins = .ok s') : QFrame s s' := by
  unfold lockOne at h
  cases hv : vget s b with
  | none => rw [hv] at h; cases h
  | some v =>
    rw [hv] at h
    dsimp only at h
    split at h
    · cases h
    · split at h
      · split at h
        · cases h
        · cases h
        · rename_i s2 pw heq
          cases h
          have hs2 : QFrame s s2 := by
            refine foldlM_inv (fun (acc : State × Nat) => QFrame s acc.1) _ ?_ _ _ _ (qf_rankRemove s _ b) heq
            intro acc c acc' hacc hstep
            obtain ⟨b0, pw0⟩ := acc
            dsimp only at hstep hacc
            split at hstep
            · cases hstep
            · split at hstep
              · cases hstep; exact hacc.trans (qf_idxSet _ _ b _)
              · cases hstep
              · cases hstep
          exact (hs2.trans (qf_rank_ite s2 pw b)).trans (qf_vset _ b _)
      · split at h
        · cases h
        · cases h
        · rename_i s2 pw heq
          cases h
          have hs2 : QFrame s s2 := by
            refine foldlM_inv (fun (acc : State × Nat) => QFrame s acc.1) _ ?_ _ _ _ (qf_rankRemove s _ b) heq
            intro acc c acc' hacc hstep
            obtain ⟨b0, pw0⟩ := acc
            dsimp only at hstep hacc
            split at hstep
            · cases hstep
            · split at hstep
              · cases hstep; exact hacc.trans (qf_idxSet _ _ b _)
              · cases hstep
              · cases hstep
          exact (hs2.trans (qf_rank_ite s2 pw b)).trans (qf_vset _ b _)
      · split at h
        · split at h
          · cases h
          · cases h
          · rename_i s2 pw heq
            cases h
            have hs2 : QFrame s s2 := by
              refine foldlM_inv (fun (acc : State × Nat) => QFrame s acc.1) _ ?_ _ _ _ (QFrame.refl s) heq
              intro acc c acc' hacc hstep
              obtain ⟨b0, pw0⟩ := acc
              dsimp only at hstep hacc
              have hk := hacc.trans (qf_idxSet b0 c.1 b c.2)
              split at hstep
              · cases hstep
              · split at hstep
                · split at hstep
                  · cases hstep
                  · cases hstep
                  · cases hstep
                  · cases hstep; exact hk
                · cases hstep; exact hk
            exact (hs2.trans (qf_rank_ite s2 pw b)).trans (qf_vset _ b _)
        · cases h; exact qf_vset _ b _
      · cases h; exact qf_vset _ b _
      · cases h; exact qf_vset _ b _

theorem lock_qf (s s' : State) (now : Int) (reqs : List LockReq) (h : lock s now reqs = .ok s') : QFrame s s' := by
  unfold lock at h
  split at h
  · cases h; exact QFrame.refl s
  · split at h
    · cases h
    · split at h
      · cases h
      · cases h
      · exact foldlM_inv (fun b => QFrame s b) _ (fun b e b' hb hstep => hb.trans (lockOne_qf b b' now e.1 e.2 hstep)) _ _ _
          (QFrame.refl s) h

theorem unlockCore_qf (s s3 : State) (r : UnlockReq) (ex : Bool) (amt : Int) (h : unlockCore s r = .ok (s3, ex, amt)) :
    QFrame s s3 := by
  unfold unlockCore at h
  cases hv : vget s r.validator with
  | none => rw [hv] at h; cases h
  | some v =>
    rw [hv] at h
    dsimp only at h
    split at h
    · cases h
    · split at h
      · cases h
      · split at h
        · cases h
        · cases h
        · simp only [Outcome.ok.injEq, Prod.mk.injEq] at h
          obtain ⟨h1, _, _⟩ := h
          rw [← h1]
          have k1 := qf_rankRemove s v.power r.validator
          split
          · dsimp only
            exact (k1.trans (qf_foldl_idxRemove r.validator v.locking _)).trans (qf_vset _ _ _)
          · split
            · dsimp only
              refine (k1.trans ?_).trans (qf_vset _ _ _)
              refine QFrame.trans ?_ (qf_rank_ite _ _ r.validator)
              split
              · exact qf_idxRemove _ _ _
              · exact qf_idxSet _ _ _ _
            · dsimp only
              exact k1.trans (qf_vset _ _ _)

theorem handleVote_qf (s s' : State) (now : Int) (vi : VoteInfo) (h : handleVote s now vi = .ok s') : QFrame s s' := by
  unfold handleVote at h
  cases hv : vget s vi.address with
  | none => rw [hv] at h; cases h
  | some v =>
    rw [hv] at h
    dsimp only at h
    split at h
    · cases h; exact QFrame.refl s
    · generalize (if vi.absent = true then v.missed + 1 else v.missed) = ms at h
      generalize (if ((v.offset + 1 : Nat) : Int) ≥ s.params.signedBlocksWindow then ((0 : Nat), (0 : Nat))
          else (ms, v.offset + 1)) = mo at h
      split at h
      · cases h
        exact ((qf_rankRemove s v.power vi.address).trans (qf_slashAll _ _ _ _)).trans (qf_vset _ _ _)
      · cases h
        exact qf_vset _ _ _

theorem handleVotes_qf (s s' : State) (now : Int) (votes : List VoteInfo) (h : handleVotes s now votes = .ok s') : QFrame s s' := by
  unfold handleVotes at h
  exact foldlM_inv (fun b => QFrame s b) _ (fun b x b' hb hstep => hb.trans (handleVote_qf b b' now x hstep)) _ _ _
    (QFrame.refl s) h

theorem handleEvidence_qf (s s' : State) (now height : Int) (maxAge : Option (Int × Int)) (e : Evidence)
    (h : handleEvidence s now height maxAge e = .ok s') : QFrame s s' := by
  unfold handleEvidence at h
  split at h
  · cases h; exact QFrame.refl s
  · split at h
    · cases h; exact QFrame.refl s
    · cases hv : vget s e.address with
      | none => rw [hv] at h; cases h
      | some v =>
        rw [hv] at h
        dsimp only at h
        split at h
        · cases h; exact QFrame.refl s
        · cases h
          exact ((qf_rankRemove s v.power e.address).trans (qf_slashAll _ _ _ _)).trans (qf_vset _ _ _)

theorem onWeightChanged_qf (s s' : State) (token : String) (prev cur : Nat) (h : onWeightChanged s token prev cur = .ok s') :
    QFrame s s' := by
  unfold onWeightChanged at h
  split at h
  · cases h; exact QFrame.refl s
  · dsimp only at h
    refine foldlM_inv (fun b => QFrame s b) _ ?_ _ _ _ (QFrame.refl s) h
    intro b e b' hb hstep
    cases hv : vget b e.1.2 with
    | none => rw [hv] at hstep; cases hstep
    | some v =>
      rw [hv] at hstep
      dsimp only at hstep
      have k1 := qf_rankRemove b v.power e.1.2
      split at hstep
      · split at hstep
        · cases hstep
        · cases hstep
        · cases hstep
        · cases hstep
          exact hb.trans ((k1.trans (qf_vset _ _ _)).trans (qf_rank_ite _ _ _))
      · split at hstep
        · cases hstep
        · cases hstep
        · cases hstep
        · cases hstep
          exact hb.trans ((k1.trans (qf_vset _ _ _)).trans (qf_rank_ite _ _ _))

theorem updateTokens_qf (s s' : State) (weights : List (String × Nat)) (thresholds : List (String × Int))
    (h : updateTokens s weights thresholds = .ok s') : QFrame s s' := by
  unfold updateTokens at h
  obtain ⟨s1, h1, h2⟩ := (bind_eq_ok _ _ _).mp h
  have hs1 : QFrame s s1 := by
    refine foldlM_inv (fun b => QFrame s b) _ ?_ _ _ _ (QFrame.refl s) h1
    intro b u b' hb hstep
    dsimp only at hstep
    split at hstep
    · rename_i b2 heq
      cases hstep
      exact hb.trans ((onWeightChanged_qf b b2 _ _ _ heq).trans (qf_tset _ _ _))
    · cases hstep
    · cases hstep
  split at h2
  · cases h2; exact hs1
  · refine foldlM_inv (fun b => QFrame s b) _ ?_ _ _ _ hs1 h2
    intro b u b' hb hstep
    dsimp only at hstep
    split at hstep
    · cases hstep
    · split at hstep
      · cases hstep; exact hb
      · split at hstep
        · cases hstep
        · cases hstep
          refine hb.trans (QFrame.trans ?_ (qf_tset _ _ _))
          exact ⟨rfl, rfl, rfl⟩

theorem create_qf (hash160 : Bytes → Bytes) (hasAccount : Bytes → Bool) (s s' : State) (reqs : List CreateReq)
    (accs : List Bytes) (h : create hash160 hasAccount s reqs = .ok (s', accs)) : QFrame s s' := by
  unfold create at h
  refine foldlM_inv (fun (acc : State × List Bytes) => QFrame s acc.1) _ ?_ _ _ _ (QFrame.refl s) h
  intro acc r acc' hacc hstep
  obtain ⟨b, newAccs⟩ := acc
  dsimp only at hstep hacc
  split at hstep
  · cases hstep
  · split at hstep
    · cases hstep; exact hacc
    · cases hstep; exact hacc.trans (qf_vset _ _ _)

theorem claim_qf (s s' : State) (reqs : List ClaimReq) (h : claim s reqs = .ok s') : QFrame s s' := by
  unfold claim at h
  refine foldlM_inv (fun b => QFrame s b) _ ?_ reqs s s' (QFrame.refl s) h
  intro b r b' hb hstep
  dsimp only at hstep
  cases hv : vget b r.validator with
  | none => rw [hv] at hstep; cases hstep
  | some u =>
    rw [hv] at hstep
    cases hstep
    refine hb.trans (QFrame.trans ?_ (qf_vset _ _ _))
    exact ⟨rfl, rfl, rfl⟩

theorem distributeReward_go_qf (total : Int) (s0 : State) :
    ∀ (votes : List VoteInfo) (s : State) (rg rr : Int) (s' : State) (rg' rr' : Int),
      QFrame s0 s → distributeReward.go total votes s rg rr = .ok (s', rg', rr') → QFrame s0 s' := by
  intro votes
  induction votes with
  | nil =>
    intro s rg rr s' rg' rr' hs h
    unfold distributeReward.go at h
    cases h; exact hs
  | cons x rest ih =>
    intro s rg rr s' rg' rr' hs h
    unfold distributeReward.go at h
    cases hv : vget s x.address with
    | none => rw [hv] at h; cases h
    | some val =>
      rw [hv] at h
      dsimp only at h
      exact ih _ _ _ s' rg' rr' (hs.trans (qf_vset _ _ _)) h

theorem distributeReward_qf (s s' : State) (height : Int) (votes : List VoteInfo)
    (h : distributeReward s height votes = .ok s') : QFrame s s' := by
  unfold distributeReward at h
  split at h
  · cases h; exact QFrame.refl s
  · split at h
    · cases h; exact QFrame.refl s
    · dsimp only at h
      split at h
      · cases h
      · split at h
        · cases h
        · cases h
        · rename_i s2 rg rr heq
          cases h
          exact (distributeReward_go_qf _ s votes s _ _ s2 rg rr (QFrame.refl s) heq).trans ⟨rfl, rfl, rfl⟩

theorem updateRewardPool_qf (s s' : State) (height : Int) (gas grants : List Int)
    (h : updateRewardPool s height gas grants = .ok s') : QFrame s s' := by
  unfold updateRewardPool at h
  split at h
  · cases h
  · split at h
    · cases h
    · dsimp only at h
      split at h
      · cases h
      · cases h; exact ⟨rfl, rfl, rfl⟩

theorem endBlocker_qf (s s' : State) (ups : List Update) (h : endBlocker s = .ok (s', ups)) : QFrame s s' := by
  unfold endBlocker at h
  dsimp only at h
  split at h
  · cases h
  · cases h
  · rename_i s1 leftovers ups1 heq
    have h1 : QFrame s s1 := by
      refine foldlM_inv (fun (acc : State × List (Bytes × Nat) × List Update) => QFrame s acc.1) _ ?_ _ _ _ (QFrame.refl s) heq
      intro acc e acc' hacc hstep
      obtain ⟨b, last, ups0⟩ := acc
      dsimp only at hstep hacc
      cases hu : vget b e.2 with
      | none => rw [hu] at hstep; cases hstep
      | some u =>
        rw [hu] at hstep
        dsimp only at hstep
        split at hstep
        · split at hstep
          · cases hstep; exact hacc.trans ⟨rfl, rfl, rfl⟩
          · cases hstep; exact hacc
        · split at hstep
          · cases hstep
          · cases hstep
            refine hacc.trans ?_
            constructor <;> (dsimp only; first | exact vset_unlockQueue _ _ _ | exact vset_qUnlocks _ _ _ | exact vset_params _ _ _)
        · cases hstep
    refine foldlM_inv (fun (acc : State × List Update) => QFrame s acc.1) _ ?_ _ _ _ h1 h
    intro acc e acc' hacc hstep
    obtain ⟨b, ups0⟩ := acc
    dsimp only at hstep hacc
    cases hu : vget b e.1 with
    | none => rw [hu] at hstep; cases hstep
    | some u =>
      rw [hu] at hstep
      dsimp only at hstep
      cases hstep
      refine hacc.trans ?_
      split
      · constructor <;> (dsimp only; first | exact vset_unlockQueue _ _ _ | exact vset_qUnlocks _ _ _ | exact vset_params _ _ _)
      · exact ⟨rfl, rfl, rfl⟩

/-! ## record-level transitions: window counters and status of one validator -/

/-- what every writer except `handleVote` and EndBlocker does to a record: the window counters are
    kept, the validator does not become Active and does not become Downgrade -/
structure Quiet (v v' : Validator) : Prop where
  missed : v'.missed = v.missed
  offset : v'.offset = v.offset
  active : v'.status = .active → v.status = .active
  downgrade : v'.status = .downgrade → v.status = .downgrade

theorem Quiet.refl (v : Validator) : Quiet v v := ⟨rfl, rfl, id, id⟩
theorem Quiet.trans {u v w : Validator} (h1 : Quiet u v) (h2 : Quiet v w) : Quiet u w :=
  ⟨h2.missed.trans h1.missed, h2.offset.trans h1.offset, fun h => h1.active (h2.active h), fun h => h1.downgrade (h2.downgrade h)⟩

theorem quiet_of {v v' : Validator} (hm : v'.missed = v.missed) (ho : v'.offset = v.offset)
    (hs : v'.status = v.status ∨ v'.status = .pending ∨ v'.status = .inactive ∨ v'.status = .tombstoned) : Quiet v v' := by
  refine ⟨hm, ho, ?_, ?_⟩
  · intro h
    rcases hs with h1 | h1 | h1 | h1
    · rw [← h1]; exact h
    · rw [h1] at h; cases h
    · rw [h1] at h; cases h
    · rw [h1] at h; cases h
  · intro h
    rcases hs with h1 | h1 | h1 | h1
    · rw [← h1]; exact h
    · rw [h1] at h; cases h
    · rw [h1] at h; cases h
    · rw [h1] at h; cases h

/-- the record of `a` exists after the step and is related to the one before -/
def RecStep (R : Validator → Validator → Prop) (a : Bytes) (s s' : State) : Prop :=
  ∀ v, vget s a = some v → ∃ v', vget s' a = some v' ∧ R v v'

theorem RecStep.of_keep {R : Validator → Validator → Prop} (hR : ∀ v, R v v) {a : Bytes} {s s' : State} (k : Keep a s s') :
    RecStep R a s s' := fun v hv => ⟨v, k.vrec.trans hv, hR v⟩

theorem RecStep.trans {R : Validator → Validator → Prop} (hR : ∀ u v w, R u v → R v w → R u w) {a : Bytes} {s t u : State}
    (h1 : RecStep R a s t) (h2 : RecStep R a t u) : RecStep R a s u := by
  intro v hv
  obtain ⟨v1, hv1, r1⟩ := h1 v hv
  obtain ⟨v2, hv2, r2⟩ := h2 v1 hv1
  exact ⟨v2, hv2, hR _ _ _ r1 r2⟩

theorem quiet_refl_step (a : Bytes) (s : State) : RecStep Quiet a s s := fun v hv => ⟨v, hv, Quiet.refl v⟩

theorem quiet_trans {a : Bytes} {s t u : State} (h1 : RecStep Quiet a s t) (h2 : RecStep Quiet a t u) : RecStep Quiet a s u :=
  RecStep.trans (R := Quiet) (fun _ _ _ q1 q2 => q1.trans q2) h1 h2

theorem quiet_keep {a : Bytes} {s t : State} (k : Keep a s t) : RecStep Quiet a s t := RecStep.of_keep Quiet.refl k

theorem quiet_foldlM {α : Type} (a : Bytes) (s : State) (f : State → α → Outcome State)
    (hf : ∀ b x b', f b x = .ok b' → RecStep Quiet a b b') :
    ∀ (l : List α) (b b' : State), RecStep Quiet a s b → l.foldlM f b = .ok b' → RecStep Quiet a s b' := by
  intro l
  refine foldlM_inv (fun b => RecStep Quiet a s b) f ?_ l
  intro b x b' hb hstep
  exact quiet_trans hb (hf b x b' hstep)

/-- the record after `vset` on the validator itself -/
theorem quiet_vset_self {a : Bytes} {s t : State} {v w : Validator} (hv : vget s a = some v) (q : Quiet v w) :
    ∀ u, vget s a = some u → ∃ v', vget (vset t a w) a = some v' ∧ Quiet u v' := by
  intro u hu
  rw [hv] at hu; cases hu
  exact ⟨w, vget_vset_same t a w, q⟩

theorem lockOne_quiet (s s' : State) (now : Int) (a b : Bytes) (coins : Coins) (h : lockOne s now b coins = .ok s') :
    RecStep Quiet a s s' := by
  by_cases hab : b = a
  · subst hab
    unfold lockOne at h
    cases hv : vget s b with
    | none => rw [hv] at h; cases h
    | some v =>
      rw [hv] at h
      dsimp only at h
      split at h
      · cases h
      · split at h
        · split at h
          · cases h
          · cases h
          · cases h; exact quiet_vset_self hv (quiet_of rfl rfl (Or.inl rfl))
        · split at h
          · cases h
          · cases h
          · cases h; exact quiet_vset_self hv (quiet_of rfl rfl (Or.inl rfl))
        · split at h
          · split at h
            · cases h
            · cases h
            · cases h; exact quiet_vset_self hv (quiet_of rfl rfl (Or.inr (Or.inl rfl)))
          · cases h; exact quiet_vset_self hv (quiet_of rfl rfl (Or.inl rfl))
        · cases h; exact quiet_vset_self hv (quiet_of rfl rfl (Or.inl rfl))
        · cases h; exact quiet_vset_self hv (quiet_of rfl rfl (Or.inl rfl))
  · exact quiet_keep (lockOne_other s s' now a b coins hab h)

theorem lock_quiet (s s' : State) (now : Int) (reqs : List LockReq) (a : Bytes) (h : lock s now reqs = .ok s') :
    RecStep Quiet a s s' := by
  unfold lock at h
  split at h
  · cases h; exact quiet_refl_step a s
  · split at h
    · cases h
    · split at h
      · cases h
      · cases h
      · exact quiet_foldlM a s _ (fun b e b' hstep => lockOne_quiet b b' now a e.1 e.2 hstep) _ s s' (quiet_refl_step a s) h

theorem unlockCore_quiet (s s3 : State) (r : UnlockReq) (ex : Bool) (amt : Int) (a : Bytes)
    (h : unlockCore s r = .ok (s3, ex, amt)) : RecStep Quiet a s s3 := by
  by_cases hab : r.validator = a
  · subst hab
    unfold unlockCore at h
    cases hv : vget s r.validator with
    | none => rw [hv] at h; cases h
    | some v =>
      rw [hv] at h
      dsimp only at h
      split at h
      · cases h
      · split at h
        · cases h
        · split at h
          · cases h
          · cases h
          · simp only [Outcome.ok.injEq, Prod.mk.injEq] at h
            obtain ⟨h1, _, _⟩ := h
            rw [← h1]
            split
            · dsimp only
              refine quiet_vset_self hv (quiet_of rfl rfl ?_)
              dsimp only
              cases hs : v.status <;> simp
            · split
              · dsimp only
                exact quiet_vset_self hv (quiet_of rfl rfl (Or.inl rfl))
              · dsimp only
                exact quiet_vset_self hv (quiet_of rfl rfl (Or.inl rfl))
  · exact quiet_keep (unlockCore_other s s3 r ex amt a hab h)

theorem unlock_quiet (s s' : State) (now : Int) (reqs : List UnlockReq) (a : Bytes) (h : unlock s now reqs = .ok s') :
    RecStep Quiet a s s' := by
  unfold unlock at h
  refine quiet_foldlM a s _ ?_ reqs s s' (quiet_refl_step a s) h
  intro b r b' hstep
  unfold unlockOne at hstep
  split at hstep
  · cases hstep
  · cases hstep
  · rename_i s3 ex amt hcore
    cases hstep
    exact quiet_trans (unlockCore_quiet b s3 r ex amt a hcore) (quiet_keep (keep_enqueueUnlock a _ _ _))

theorem handleEvidence_quiet (s s' : State) (now height : Int) (maxAge : Option (Int × Int)) (e : Evidence) (a : Bytes)
    (h : handleEvidence s now height maxAge e = .ok s') : RecStep Quiet a s s' := by
  by_cases hab : e.address = a
  · subst hab
    unfold handleEvidence at h
    split at h
    · cases h; exact quiet_refl_step _ s
    · split at h
      · cases h; exact quiet_refl_step _ s
      · cases hv : vget s e.address with
        | none => rw [hv] at h; cases h
        | some v =>
          rw [hv] at h
          dsimp only at h
          split at h
          · cases h; exact quiet_refl_step _ s
          · cases h
            exact quiet_vset_self hv (quiet_of rfl rfl (Or.inr (Or.inr (Or.inr rfl))))
  · exact quiet_keep (handleEvidence_other s s' now height maxAge e a hab h)

theorem claim_quiet (s s' : State) (reqs : List ClaimReq) (a : Bytes) (h : claim s reqs = .ok s') : RecStep Quiet a s s' := by
  unfold claim at h
  refine quiet_foldlM a s _ ?_ reqs s s' (quiet_refl_step a s) h
  intro b r b' hstep
  dsimp only at hstep
  cases hv : vget b r.validator with
  | none => rw [hv] at hstep; cases hstep
  | some u =>
    rw [hv] at hstep
    cases hstep
    by_cases hab : r.validator = a
    · subst hab
      have hv' : vget { b with qRewards := b.qRewards ++ [{ id := r.id, recipient := r.recipient, goat := u.reward, gas := u.gasReward }] }
          r.validator = some u := hv
      intro w hw
      rw [hv] at hw; cases hw
      exact ⟨_, vget_vset_same _ _ _, quiet_of rfl rfl (Or.inl rfl)⟩
    · refine quiet_keep (Keep.trans ?_ (keep_vset_other a _ _ _ hab))
      exact keep_of_eq rfl rfl rfl rfl rfl

theorem distributeReward_go_quiet (total : Int) (a : Bytes) (s0 : State) :
    ∀ (votes : List VoteInfo) (s : State) (rg rr : Int) (s' : State) (rg' rr' : Int),
      RecStep Quiet a s0 s → distributeReward.go total votes s rg rr = .ok (s', rg', rr') → RecStep Quiet a s0 s' := by
  intro votes
  induction votes with
  | nil =>
    intro s rg rr s' rg' rr' hs h
    unfold distributeReward.go at h
    cases h; exact hs
  | cons x rest ih =>
    intro s rg rr s' rg' rr' hs h
    unfold distributeReward.go at h
    cases hv : vget s x.address with
    | none => rw [hv] at h; cases h
    | some val =>
      rw [hv] at h
      dsimp only at h
      refine ih _ _ _ s' rg' rr' ?_ h
      refine quiet_trans hs ?_
      by_cases hab : x.address = a
      · subst hab
        exact quiet_vset_self hv (quiet_of rfl rfl (Or.inl rfl))
      · exact quiet_keep (keep_vset_other a _ _ _ hab)

theorem distributeReward_quiet (s s' : State) (height : Int) (votes : List VoteInfo) (a : Bytes)
    (h : distributeReward s height votes = .ok s') : RecStep Quiet a s s' := by
  unfold distributeReward at h
  split at h
  · cases h; exact quiet_refl_step a s
  · split at h
    · cases h; exact quiet_refl_step a s
    · dsimp only at h
      split at h
      · cases h
      · split at h
        · cases h
        · cases h
        · rename_i s2 rg rr heq
          cases h
          exact quiet_trans (distributeReward_go_quiet _ a s votes s _ _ s2 rg rr (quiet_refl_step a s) heq)
            (quiet_keep (keep_of_eq rfl rfl rfl rfl rfl))

theorem create_quiet (hash160 : Bytes → Bytes) (hasAccount : Bytes → Bool) (s s' : State) (reqs : List CreateReq)
    (accs : List Bytes) (a : Bytes) (h : create hash160 hasAccount s reqs = .ok (s', accs)) : RecStep Quiet a s s' := by
  unfold create at h
  refine foldlM_inv (fun (acc : State × List Bytes) => RecStep Quiet a s acc.1) _ ?_ _ _ _ (quiet_refl_step a s) h
  intro acc r acc' hacc hstep
  obtain ⟨b, newAccs⟩ := acc
  dsimp only at hstep hacc
  split at hstep
  · cases hstep
  · split at hstep
    · cases hstep; exact hacc
    · rename_i hnone
      cases hstep
      refine quiet_trans hacc ?_
      intro w hw
      have hab : hash160 r.compressed ≠ a := by
        intro heq
        rw [heq, hw] at hnone
        simp at hnone
      exact ⟨w, (vget_vset_other b _ a _ hab).trans hw, Quiet.refl w⟩

theorem onWeightChanged_quiet (s s' : State) (token : String) (prev cur : Nat) (a : Bytes)
    (h : onWeightChanged s token prev cur = .ok s') : RecStep Quiet a s s' := by
  unfold onWeightChanged at h
  split at h
  · cases h; exact quiet_refl_step a s
  · dsimp only at h
    refine quiet_foldlM a s _ ?_ _ s s' (quiet_refl_step a s) h
    intro b e b' hstep
    by_cases hab : e.1.2 = a
    · cases hv : vget b e.1.2 with
      | none => rw [hv] at hstep; cases hstep
      | some v =>
        rw [hv] at hstep
        dsimp only at hstep
        have hq : ∀ (w : Validator) (t : State) (p : Nat), Quiet v w →
            RecStep Quiet a b (if p > 0 then rankSet (vset t e.1.2 w) p e.1.2 else vset t e.1.2 w) := by
          intro w t p q u hu
          rw [← hab, hv] at hu; cases hu
          refine ⟨w, ?_, q⟩
          rw [← hab]
          split
          · rw [vget_congr _ _ (rankSet_validators _ _ _)]; exact vget_vset_same _ _ _
          · exact vget_vset_same _ _ _
        split at hstep
        · split at hstep
          · cases hstep
          · cases hstep
          · cases hstep
          · cases hstep
            refine hq _ _ _ ?_
            exact quiet_of rfl rfl (Or.inl rfl)
        · split at hstep
          · cases hstep
          · cases hstep
          · cases hstep
          · cases hstep
            refine hq _ _ _ ?_
            exact quiet_of rfl rfl (Or.inl rfl)
    · exact quiet_keep (weightStep_other a prev cur b b' e hab hstep)

theorem updateTokens_quiet (s s' : State) (weights : List (String × Nat)) (thresholds : List (String × Int)) (a : Bytes)
    (h : updateTokens s weights thresholds = .ok s') : RecStep Quiet a s s' := by
  unfold updateTokens at h
  obtain ⟨s1, h1, h2⟩ := (bind_eq_ok _ _ _).mp h
  have hs1 : RecStep Quiet a s s1 := by
    refine quiet_foldlM a s _ ?_ weights s s1 (quiet_refl_step a s) h1
    intro b u b' hstep
    dsimp only at hstep
    split at hstep
    · rename_i b2 heq
      cases hstep
      exact quiet_trans (onWeightChanged_quiet b b2 _ _ _ a heq) (quiet_keep (keep_tset a _ _ _))
    · cases hstep
    · cases hstep
  split at h2
  · cases h2; exact hs1
  · refine quiet_foldlM a s _ ?_ thresholds s1 s' hs1 h2
    intro b u b' hstep
    dsimp only at hstep
    split at hstep
    · cases hstep
    · split at hstep
      · cases hstep; exact quiet_refl_step a b
      · split at hstep
        · cases hstep
        · cases hstep
          refine quiet_keep (Keep.trans ?_ (keep_tset a _ _ _))
          exact keep_of_eq rfl rfl rfl rfl rfl

/-- **Request batches never touch the window counters, never activate and never demote** -/
theorem processRequests_quiet (hash160 : Bytes → Bytes) (hasAccount : Bytes → Bool) (s s' : State) (height now : Int)
    (R : Reqs) (accs : List Bytes) (a : Bytes)
    (h : processRequests hash160 hasAccount s height now R = .ok (s', accs)) : RecStep Quiet a s s' := by
  unfold processRequests at h
  obtain ⟨s1, h1, h⟩ := (bind_eq_ok _ _ _).mp h
  obtain ⟨s2, h2, h⟩ := (bind_eq_ok _ _ _).mp h
  obtain ⟨⟨s3, accs3⟩, h3, h⟩ := (bind_eq_ok _ _ _).mp h
  dsimp only at h
  obtain ⟨s4, h4, h⟩ := (bind_eq_ok _ _ _).mp h
  obtain ⟨s5, h5, h⟩ := (bind_eq_ok _ _ _).mp h
  obtain ⟨s6, h6, h⟩ := (bind_eq_ok _ _ _).mp h
  have h : (Outcome.ok (s6, accs3) : Outcome (State × List Bytes)) = .ok (s', accs) := h
  simp only [Outcome.ok.injEq, Prod.mk.injEq] at h
  obtain ⟨rfl, _⟩ := h
  exact quiet_trans (quiet_trans (quiet_trans (quiet_trans (quiet_trans
    (quiet_keep (updateRewardPool_keep s s1 height R.gas R.grants a h1))
    (updateTokens_quiet s1 s2 _ _ a h2)) (create_quiet hash160 hasAccount s2 s3 _ accs3 a h3))
    (lock_quiet s3 s4 now _ a h4)) (unlock_quiet s4 s5 now _ a h5)) (claim_quiet s5 s6 _ a h6)

/-! ## votes and EndBlocker: the window counters -/

/-- the vote records of a commit that report `a` absent -/
def absCount (a : Bytes) (votes : List VoteInfo) : Nat := (votes.filter (fun vi => vi.address == a && vi.absent)).length

theorem absCount_cons (a : Bytes) (vi : VoteInfo) (votes : List VoteInfo) :
    absCount a (vi :: votes) = absCount a [vi] + absCount a votes := by
  unfold absCount
  rw [List.filter_cons, List.filter_cons]
  split <;> simp <;> omega

/-- what vote handling does to a record, `n` absences of the validator being reported meanwhile: it
    stays Active only with at most `n` more missed blocks on its counter; it becomes Downgrade only from
    Active and only if the counter plus those absences reach the maximum `M` -/
structure VoteRel (M : Int) (n : Nat) (v v' : Validator) : Prop where
  active : v'.status = .active → v.status = .active ∧ v'.missed ≤ v.missed + n
  downgrade : v'.status = .downgrade → v.status = .downgrade ∨ (v.status = .active ∧ M ≤ ((v.missed + n : Nat) : Int))

theorem VoteRel.of_quiet {M : Int} {v v' : Validator} (q : Quiet v v') : VoteRel M 0 v v' :=
  ⟨fun h => ⟨q.active h, by rw [q.missed]; omega⟩, fun h => Or.inl (q.downgrade h)⟩

theorem VoteRel.same (M : Int) (n : Nat) (v : Validator) : VoteRel M n v v :=
  ⟨fun h => ⟨h, by omega⟩, fun h => Or.inl h⟩

theorem VoteRel.trans {M : Int} {n1 n2 : Nat} {u v w : Validator} (h1 : VoteRel M n1 u v) (h2 : VoteRel M n2 v w) :
    VoteRel M (n1 + n2) u w := by
  constructor
  · intro h
    obtain ⟨a1, a2⟩ := h2.active h
    obtain ⟨b1, b2⟩ := h1.active a1
    exact ⟨b1, by omega⟩
  · intro h
    rcases h2.downgrade h with d | ⟨d1, d2⟩
    · rcases h1.downgrade d with e | ⟨e1, e2⟩
      · exact Or.inl e
      · exact Or.inr ⟨e1, by push_cast at e2 ⊢; omega⟩
    · obtain ⟨b1, b2⟩ := h1.active d1
      exact Or.inr ⟨b1, by push_cast at d2 ⊢; omega⟩

theorem handleVote_rel (s s' : State) (now : Int) (vi : VoteInfo) (a : Bytes) (h : handleVote s now vi = .ok s') :
    RecStep (VoteRel s.params.maxMissed (absCount a [vi])) a s s' := by
  by_cases hab : vi.address = a
  · subst hab
    intro v hv
    have hn : (if vi.absent = true then v.missed + 1 else v.missed) = v.missed + absCount vi.address [vi] := by
      unfold absCount
      rw [List.filter_cons]
      cases hb : vi.absent <;> simp
    unfold handleVote at h
    rw [hv] at h
    dsimp only at h
    by_cases hs : v.status = .active
    · simp only [hs, ne_eq, not_true_eq_false, if_false] at h
      by_cases hd : ((if vi.absent = true then v.missed + 1 else v.missed : Nat) : Int) ≥ s.params.maxMissed
      · simp only [hd, if_true] at h
        cases h
        refine ⟨_, vget_vset_same _ _ _, ⟨(fun h => by cases h), fun _ => Or.inr ⟨hs, ?_⟩⟩⟩
        rw [← hn]; exact hd
      · simp only [hd, if_false] at h
        cases h
        refine ⟨_, vget_vset_same _ _ _, ⟨fun _ => ⟨hs, ?_⟩, fun h => ?_⟩⟩
        · dsimp only
          rw [← hn]
          split
          · exact Nat.zero_le _
          · exact Nat.le_refl _
        · dsimp only at h
          first | cases h | (rw [hs] at h; cases h)
    · rw [if_pos hs] at h
      cases h
      exact ⟨v, hv, VoteRel.same _ _ v⟩
  · have hz : absCount a [vi] = 0 := by
      unfold absCount
      have : (vi.address == a) = false := by simpa using hab
      simp [this]
    rw [hz]
    exact RecStep.of_keep (fun v => VoteRel.same _ 0 v) (handleVote_other s s' now vi a hab h)

theorem handleVotes_rel (a : Bytes) (now : Int) (votes : List VoteInfo) : ∀ (s s' : State),
    handleVotes s now votes = .ok s' → RecStep (VoteRel s.params.maxMissed (absCount a votes)) a s s' := by
  induction votes with
  | nil =>
    intro s s' h
    unfold handleVotes at h
    have := foldlM_nil_ok _ _ _ h
    subst this
    exact fun v hv => ⟨v, hv, VoteRel.same _ _ v⟩
  | cons vi rest ih =>
    intro s s' h
    unfold handleVotes at h
    obtain ⟨s1, h1, h2⟩ := foldlM_cons_ok _ vi rest s s' h
    have r1 := handleVote_rel s s1 now vi a h1
    have r2 := ih s1 s' h2
    rw [(handleVote_qf s s1 now vi h1).params] at r2
    intro v hv
    obtain ⟨v1, hv1, q1⟩ := r1 v hv
    obtain ⟨v2, hv2, q2⟩ := r2 v1 hv1
    rw [absCount_cons]
    exact ⟨v2, hv2, q1.trans q2⟩

/-- **BeginBlock and the window counters of `a`** -/
theorem beginBlock_rel (s s' : State) (height now : Int) (votes : List VoteInfo) (maxAge : Option (Int × Int))
    (evs : List Evidence) (a : Bytes) (h : beginBlock s height now votes maxAge evs = .ok s') :
    RecStep (VoteRel s.params.maxMissed (absCount a votes)) a s s' := by
  unfold beginBlock at h
  obtain ⟨s1, h1, h⟩ := (bind_eq_ok _ _ _).mp h
  obtain ⟨s3, h3, h⟩ := (bind_eq_ok _ _ _).mp h
  have q1 := distributeReward_quiet s s1 height votes a h1
  have k2 := dequeueMature_keep s1 now a
  have r3 := handleVotes_rel a now votes _ s3 h3
  rw [k2.env.params, (distributeReward_qf s s1 height votes h1).params] at r3
  have q4 : RecStep Quiet a s3 s' :=
    quiet_foldlM a s3 _ (fun b e b' hstep => handleEvidence_quiet b b' now height maxAge e a hstep) evs s3 s' (quiet_refl_step a s3) h
  intro v hv
  obtain ⟨v1, hv1, x1⟩ := q1 v hv
  obtain ⟨v3, hv3, x3⟩ := r3 v1 (k2.vrec.trans hv1)
  obtain ⟨v4, hv4, x4⟩ := q4 v3 hv3
  have := ((VoteRel.of_quiet (M := s.params.maxMissed) x1).trans x3).trans (VoteRel.of_quiet x4)
  simp only [Nat.zero_add, Nat.add_zero] at this
  exact ⟨v4, hv4, this⟩

/-- what EndBlocker does to a record: the counters do not grow, it never demotes, and a validator that
    becomes Active starts with both window counters at zero -/
structure ERel (v v' : Validator) : Prop where
  missed : v'.missed ≤ v.missed
  offset : v'.offset ≤ v.offset
  downgrade : v'.status = .downgrade → v.status = .downgrade
  active : v'.status = .active → v.status = .active ∨ (v'.missed = 0 ∧ v'.offset = 0)

theorem ERel.refl (v : Validator) : ERel v v := ⟨Nat.le_refl _, Nat.le_refl _, id, Or.inl⟩
theorem ERel.trans {u v w : Validator} (h1 : ERel u v) (h2 : ERel v w) : ERel u w := by
  refine ⟨Nat.le_trans h2.missed h1.missed, Nat.le_trans h2.offset h1.offset, fun h => h1.downgrade (h2.downgrade h), ?_⟩
  intro h
  rcases h2.active h with a | ⟨a1, a2⟩
  · rcases h1.active a with b | ⟨b1, b2⟩
    · exact Or.inl b
    · have := h2.missed; have := h2.offset
      exact Or.inr ⟨by omega, by omega⟩
  · exact Or.inr ⟨a1, a2⟩

theorem endBlocker_rel (s s' : State) (ups : List Update) (a : Bytes) (h : endBlocker s = .ok (s', ups)) :
    RecStep ERel a s s' := by
  have tr : ∀ {x y z : State}, RecStep ERel a x y → RecStep ERel a y z → RecStep ERel a x z :=
    fun h1 h2 => RecStep.trans (R := ERel) (fun _ _ _ q1 q2 => q1.trans q2) h1 h2
  have same : ∀ (x y : State), y.validators = x.validators → RecStep ERel a x y :=
    fun x y hxy v hv => ⟨v, (vget_congr y x hxy a).trans hv, ERel.refl v⟩
  unfold endBlocker at h
  dsimp only at h
  split at h
  · cases h
  · cases h
  · rename_i s1 leftovers ups1 heq
    have h1 : RecStep ERel a s s1 := by
      refine foldlM_inv (fun (acc : State × List (Bytes × Nat) × List Update) => RecStep ERel a s acc.1) _ ?_ _ _ _
        (same s s rfl) heq
      intro acc e acc' hacc hstep
      obtain ⟨b, last, ups0⟩ := acc
      dsimp only at hstep hacc
      cases hu : vget b e.2 with
      | none => rw [hu] at hstep; cases hstep
      | some u =>
        rw [hu] at hstep
        dsimp only at hstep
        split at hstep
        · split at hstep
          · cases hstep; exact tr hacc (same b _ rfl)
          · cases hstep; exact hacc
        · split at hstep
          · cases hstep
          · cases hstep
            refine tr hacc ?_
            intro w hw
            by_cases hae : e.2 = a
            · subst hae
              rw [hu] at hw; cases hw
              refine ⟨{ u with status := .active, offset := 0, missed := 0 }, ?_,
                ⟨Nat.zero_le _, Nat.zero_le _, (fun h => by cases h), fun _ => Or.inr ⟨rfl, rfl⟩⟩⟩
              exact (vget_congr _ (vset b e.2 _) rfl e.2).trans (vget_vset_same b e.2 _)
            · exact ⟨w, (vget_congr _ (vset b e.2 _) rfl a).trans ((vget_vset_other b e.2 a _ hae).trans hw), ERel.refl w⟩
        · cases hstep
    refine foldlM_inv (fun (acc : State × List Update) => RecStep ERel a s acc.1) _ ?_ _ _ _ h1 h
    intro acc e acc' hacc hstep
    obtain ⟨b, ups0⟩ := acc
    dsimp only at hstep hacc
    cases hu : vget b e.1 with
    | none => rw [hu] at hstep; cases hstep
    | some u =>
      rw [hu] at hstep
      dsimp only at hstep
      cases hstep
      refine tr hacc ?_
      intro w hw
      split
      · by_cases hae : e.1 = a
        · subst hae
          rw [hu] at hw; cases hw
          refine ⟨{ u with status := .pending }, ?_,
            ⟨Nat.le_refl _, Nat.le_refl _, (fun h => by cases h), (fun h => by cases h)⟩⟩
          exact (vget_congr _ (vset b e.1 _) rfl e.1).trans (vget_vset_same b e.1 _)
        · exact ⟨w, (vget_congr _ (vset b e.1 _) rfl a).trans ((vget_vset_other b e.1 a _ hae).trans hw), ERel.refl w⟩
      · exact ⟨w, hw, ERel.refl w⟩

/-! ## `Link` through BeginBlock: establishing "out" at the level of the entry point -/

theorem Link.keep {a : Bytes} {s t : State} {v : Validator} (h : Link s a v) (k : Keep a s t) : Link t a v :=
  ⟨fun p hp => h.rank p (k.env.rank p hp), fun d x hp => h.idx d x (k.env.idx d x hp)⟩

theorem Link.of_out {a : Bytes} {s : State} {v : Validator} (h : OutRec s a v) : Link s a v :=
  ⟨fun p hp => absurd hp (h.unranked p), fun d x hp => absurd hp (h.unindexed d x)⟩

/-- rewriting the record of `a` itself without touching power and holding -/
theorem Link.vset_self {a : Bytes} {s t : State} {v w : Validator} (h : Link s a v) (he : Env a s t)
    (hp : w.power = v.power) (hl : w.locking = v.locking) : Link (vset t a w) a w := by
  have he' := he.trans (env_vset a t a w)
  exact ⟨fun p hq => by rw [hp]; exact h.rank p (he'.rank p hq), fun d x hq => by rw [hl]; exact h.idx d x (he'.idx d x hq)⟩

/-- `a` has a record that is linked and in status class `C`, or it is out with a record satisfying `O` -/
def LinkedOr (C O : Validator → Prop) (a : Bytes) (s : State) : Prop :=
  (∃ w, vget s a = some w ∧ C w ∧ Link s a w) ∨ (∃ w, OutRec s a w ∧ O w)

theorem LinkedOr.keep {C O : Validator → Prop} {a : Bytes} {s t : State} (h : LinkedOr C O a s) (k : Keep a s t) :
    LinkedOr C O a t := by
  rcases h with ⟨w, h1, h2, h3⟩ | ⟨w, h1, h2⟩
  · exact Or.inl ⟨w, k.vrec.trans h1, h2, h3.keep k⟩
  · exact Or.inr ⟨w, h1.keep k, h2⟩

/-- reward distribution keeps `LinkedOr` (status, power, holding, jail time untouched) -/
theorem distributeReward_go_linked (C O : Validator → Prop)
    (hC : ∀ v w : Validator, w.status = v.status → w.jailedUntil = v.jailedUntil → C v → C w)
    (hO : ∀ v w : Validator, Later v w → 0 < outLevel v.status → O v → O w) (total : Int) (a : Bytes) :
    ∀ (votes : List VoteInfo) (s : State) (rg rr : Int) (s' : State) (rg' rr' : Int),
      LinkedOr C O a s → distributeReward.go total votes s rg rr = .ok (s', rg', rr') → LinkedOr C O a s' := by
  intro votes
  induction votes with
  | nil =>
    intro s rg rr s' rg' rr' hs h
    unfold distributeReward.go at h
    cases h; exact hs
  | cons x rest ih =>
    intro s rg rr s' rg' rr' hs h
    unfold distributeReward.go at h
    cases hv : vget s x.address with
    | none => rw [hv] at h; cases h
    | some val =>
      rw [hv] at h
      dsimp only at h
      refine ih _ _ _ s' rg' rr' ?_ h
      by_cases hab : x.address = a
      · subst hab
        rcases hs with ⟨w, h1, h2, h3⟩ | ⟨w, h1, h2⟩
        · rw [hv] at h1; cases h1
          exact Or.inl ⟨_, vget_vset_same _ _ _, hC val _ rfl rfl h2, h3.vset_self (Env.refl _ s) rfl rfl⟩
        · have : val = w := by rw [h1.vrec] at hv; cases hv; rfl
          subst this
          refine Or.inr ⟨_, ⟨vget_vset_same _ _ _, h1.out, h1.power, (env_vset x.address s x.address _).unranked h1.unranked,
            (env_vset x.address s x.address _).unindexed h1.unindexed⟩, ?_⟩
          exact hO val _ ⟨rfl, Nat.le_refl _, rfl⟩ h1.out h2
      · exact hs.keep (keep_vset_other a _ _ _ hab)

/-- side conditions on the two classes of `LinkedOr` under which BeginBlock keeps it -/
structure LinkedOK (C O : Validator → Prop) (J : Int) : Prop where
  /-- `C` only depends on status and jail time -/
  cong : ∀ v w : Validator, w.status = v.status → w.jailedUntil = v.jailedUntil → C v → C w
  /-- `O` is kept when an out record moves further out -/
  later : ∀ v w : Validator, Later v w → 0 < outLevel v.status → O v → O w
  /-- a validator demoted now (jailed until `J`) is in one of the classes -/
  down : ∀ v' : Validator, v'.status = .downgrade → v'.jailedUntil = J → C v' ∨ O v'
  /-- a validator tombstoned now is in `O` -/
  tomb : ∀ v' : Validator, v'.status = .tombstoned → O v'

theorem handleVote_linked {C O : Validator → Prop} {J : Int} (ok : LinkedOK C O J) (s s' : State) (now : Int) (vi : VoteInfo)
    (a : Bytes) (hJ : J = now + s.params.downtimeJail) (hl : LinkedOr C O a s) (h : handleVote s now vi = .ok s') :
    LinkedOr C O a s' := by
  by_cases hab : vi.address = a
  · subst hab
    rcases hl with ⟨w, h1, h2, h3⟩ | ⟨w, h1, h2⟩
    · by_cases hs : w.status = .active
      · by_cases hd : ((if vi.absent then w.missed + 1 else w.missed : Nat) : Int) ≥ s.params.maxMissed
        · obtain ⟨v', o, e1, e2, _⟩ := handleVote_establishes s s' now vi w h1 hs h3 hd h
          rcases ok.down v' e1 (by rw [e2, hJ]) with c | c
          · exact Or.inl ⟨v', o.vrec, c, Link.of_out o⟩
          · exact Or.inr ⟨v', o, c⟩
        · unfold handleVote at h
          simp only [h1, hs, ne_eq, not_true_eq_false, if_false] at h
          simp only [hd, if_false] at h
          cases h
          exact Or.inl ⟨_, vget_vset_same _ _ _, ok.cong w _ hs.symm rfl h2, h3.vset_self (Env.refl _ s) rfl rfl⟩
      · rw [C14.non_active_not_counted s now vi w h1 hs] at h
        cases h
        exact Or.inl ⟨w, h1, h2, h3⟩
    · obtain ⟨w', o, l, _⟩ := handleVote_out s s' now vi vi.address w h1 h
      exact Or.inr ⟨w', o, ok.later w w' l h1.out h2⟩
  · exact hl.keep (handleVote_other s s' now vi a hab h)

theorem handleEvidence_linked {C O : Validator → Prop} {J : Int} (ok : LinkedOK C O J) (s s' : State) (now height : Int)
    (maxAge : Option (Int × Int)) (e : Evidence) (a : Bytes) (hl : LinkedOr C O a s)
    (h : handleEvidence s now height maxAge e = .ok s') : LinkedOr C O a s' := by
  by_cases hab : e.address = a
  · subst hab
    rcases hl with ⟨w, h1, h2, h3⟩ | ⟨w, h1, h2⟩
    · by_cases hk : e.kind = 1 ∨ e.kind = 2
      · cases hfresh : isStale now height maxAge e with
        | true =>
          rw [C14.stale_evidence_ignored s now height maxAge e hfresh] at h
          cases h
          exact Or.inl ⟨w, h1, h2, h3⟩
        | false =>
          by_cases hs : w.status = .tombstoned
          · rw [C14.tombstoned_not_slashed_again s now height maxAge e w h1 hs] at h
            cases h
            exact Or.inl ⟨w, h1, h2, h3⟩
          · obtain ⟨v', o, e1, _⟩ := handleEvidence_establishes s s' now height maxAge e w hk hfresh h1 hs h3 h
            exact Or.inr ⟨v', o, ok.tomb v' e1⟩
      · have hk' : e.kind ≠ 1 ∧ e.kind ≠ 2 := by omega
        unfold handleEvidence at h
        rw [if_pos hk'] at h
        cases h
        exact Or.inl ⟨w, h1, h2, h3⟩
    · obtain ⟨w', o, l, _⟩ := handleEvidence_out s s' now height maxAge e e.address w h1 h
      exact Or.inr ⟨w', o, ok.later w w' l h1.out h2⟩
  · exact hl.keep (handleEvidence_other s s' now height maxAge e a hab h)

theorem evidences_linked {C O : Validator → Prop} {J : Int} (ok : LinkedOK C O J) (now height : Int)
    (maxAge : Option (Int × Int)) (a : Bytes) (evs : List Evidence) (s s' : State) (hl : LinkedOr C O a s)
    (h : evs.foldlM (fun s e => handleEvidence s now height maxAge e) s = .ok s') : LinkedOr C O a s' :=
  foldlM_inv (fun b => LinkedOr C O a b) _ (fun b e b' hb hstep => handleEvidence_linked ok b b' now height maxAge e a hb hstep)
    evs s s' hl h

/-- BeginBlock up to (and including) the vote handling keeps `LinkedOr` -/
theorem beginBlock_votes_linked {C O : Validator → Prop} {J : Int} (ok : LinkedOK C O J) (s s1 s3 : State) (height now : Int)
    (votes : List VoteInfo) (a : Bytes) (hJ : J = now + s.params.downtimeJail) (hl : LinkedOr C O a s)
    (h1 : distributeReward s height votes = .ok s1) (h3 : handleVotes (dequeueMature s1 now) now votes = .ok s3) :
    LinkedOr C O a s3 ∧ s3.params = s.params := by
  have q1 := distributeReward_qf s s1 height votes h1
  have l1 : LinkedOr C O a s1 := by
    unfold distributeReward at h1
    split at h1
    · cases h1; exact hl
    · split at h1
      · cases h1; exact hl
      · dsimp only at h1
        split at h1
        · cases h1
        · split at h1
          · cases h1
          · cases h1
          · rename_i s2 rg rr heq
            cases h1
            exact (distributeReward_go_linked C O ok.cong ok.later _ a votes s _ _ s2 rg rr hl heq).keep
              (keep_of_eq rfl rfl rfl rfl rfl)
  have l2 : LinkedOr C O a (dequeueMature s1 now) := l1.keep (dequeueMature_keep s1 now a)
  have p2 : (dequeueMature s1 now).params = s.params := (dequeueMature_keep s1 now a).env.params.trans q1.params
  unfold handleVotes at h3
  have key := foldlM_inv (fun b => LinkedOr C O a b ∧ b.params = s.params) _ ?_ votes _ s3 ⟨l2, p2⟩ h3
  · exact key
  · intro b x b' hb hstep
    exact ⟨handleVote_linked ok b b' now x a (by rw [hb.2]; exact hJ) hb.1 hstep, (handleVote_qf b b' now x hstep).params.trans hb.2⟩

/-! ## `Link` at every reachable state

  `LA s a`: the record of `a` (if any) has a holding with positive entries only (a proper `sdk.Coins`),
  its ranking / index entries are the ones the record accounts for (`Link`), a validator that is neither
  Active nor Pending has no entries at all, and an address without record has none.  Every writer keeps
  `LA` (given slash fractions ≤ 1); it holds trivially in the empty state. -/

def Pos (c : Coins) : Prop := ∀ e ∈ c, 0 < e.2

theorem Pos.nonneg {c : Coins} (h : Pos c) : CoinsNonneg c := fun e he => Int.le_of_lt (h e he)

theorem pos_nil : Pos [] := fun e he => by cases he

theorem amountOf_pos_of_mem (c : Coins) (h : Pos c) (d : String) (hd : d ∈ c.map (·.1)) : 0 < amountOf c d := by
  induction c with
  | nil => simp at hd
  | cons e c ih =>
    rw [amountOf_cons]
    by_cases he : e.1 = d
    · rw [if_pos he]; exact h e List.mem_cons_self
    · rw [if_neg he]
      rw [List.map_cons, List.mem_cons] at hd
      rcases hd with hd | hd
      · exact absurd hd.symm he
      · exact ih (fun x hx => h x (List.mem_cons_of_mem _ hx)) hd

theorem mem_of_amountOf_ne (c : Coins) (d : String) (h : amountOf c d ≠ 0) : d ∈ c.map (·.1) := by
  induction c with
  | nil => simp at h
  | cons e c ih =>
    rw [amountOf_cons] at h
    rw [List.map_cons, List.mem_cons]
    by_cases he : e.1 = d
    · exact Or.inl he.symm
    · rw [if_neg he] at h; exact Or.inr (ih h)

theorem mem_setAmount' (c : Coins) (d : String) (a : Int) (e : String × Int) (he : e ∈ setAmount c d a) :
    (e = (d, a) ∧ a ≠ 0) ∨ e ∈ c := by
  unfold setAmount at he
  by_cases ha : a = 0
  · simp only [ha, if_true] at he; exact Or.inr (List.mem_filter.mp he).1
  · simp only [ha, if_false] at he
    rcases (mem_ins d a _ e).mp he with h | h
    · exact Or.inl ⟨h, ha⟩
    · exact Or.inr (List.mem_filter.mp h).1

theorem pos_setAmount (c : Coins) (d : String) (a : Int) (h : Pos c) (ha : 0 ≤ a) : Pos (setAmount c d a) := by
  intro e he
  rcases mem_setAmount' c d a e he with ⟨rfl, h0⟩ | h'
  · show 0 < a; omega
  · exact h e h'

theorem pos_addCoin (c : Coins) (d : String) (a : Int) (h : Pos c) (ha : 0 ≤ a) : Pos (addCoin c d a) := by
  have := amountOf_nonneg c h.nonneg d
  exact pos_setAmount c d _ h (by omega)

theorem pos_addCoins (c cs : Coins) (h : Pos c) (hs : CoinsNonneg cs) : Pos (addCoins c cs) := by
  unfold addCoins
  induction cs generalizing c with
  | nil => exact h
  | cons e es ih =>
    rw [List.foldl_cons]
    exact ih _ (pos_addCoin c e.1 e.2 h (hs e List.mem_cons_self)) (fun x hx => hs x (List.mem_cons_of_mem _ hx))

theorem coinsSum_ge_mem (cs : Coins) (h : CoinsNonneg cs) (c : String × Int) (hc : c ∈ cs) : c.2 ≤ coinsSum cs c.1 := by
  induction cs with
  | nil => cases hc
  | cons e es ih =>
    rw [coinsSum_cons]
    have hes : CoinsNonneg es := fun x hx => h x (List.mem_cons_of_mem _ hx)
    rcases List.mem_cons.mp hc with rfl | hc'
    · rw [if_pos rfl]
      have := coinsSum_nonneg es hes c.1
      omega
    · have := ih hes hc'
      have := h e List.mem_cons_self
      split <;> omega

/-- the keys of `holding + coins` contain the keys of both -/
theorem keys_addCoins (c cs : Coins) (hc : Pos c) (hs : Pos cs) (d : String)
    (hd : d ∈ c.map (·.1) ∨ d ∈ cs.map (·.1)) : d ∈ (addCoins c cs).map (·.1) := by
  apply mem_of_amountOf_ne
  rw [amountOf_addCoins]
  have h1 := amountOf_nonneg c hc.nonneg d
  have h2 := coinsSum_nonneg cs hs.nonneg d
  rcases hd with hd | hd
  · have := amountOf_pos_of_mem c hc d hd
    omega
  · obtain ⟨e, he, rfl⟩ := List.mem_map.mp hd
    have := coinsSum_ge_mem cs hs.nonneg e he
    have := hs e he
    omega

theorem keys_setAmount (c : Coins) (hc : Pos c) (d : String) (a : Int) (ha : 0 ≤ a) (d' : String) :
    d' ∈ (setAmount c d a).map (·.1) ↔ (d' = d ∧ a ≠ 0) ∨ (d' ≠ d ∧ d' ∈ c.map (·.1)) := by
  have hp := pos_setAmount c d a hc ha
  constructor
  · intro h
    have := amountOf_pos_of_mem _ hp d' h
    by_cases hd : d' = d
    · subst hd; rw [amountOf_setAmount_same] at this; exact Or.inl ⟨rfl, by omega⟩
    · rw [amountOf_setAmount_other c d a d' hd] at this
      exact Or.inr ⟨hd, mem_of_amountOf_ne c d' (by omega)⟩
  · rintro (⟨rfl, h⟩ | ⟨h1, h2⟩)
    · apply mem_of_amountOf_ne; rw [amountOf_setAmount_same]; exact h
    · apply mem_of_amountOf_ne; rw [amountOf_setAmount_other c d a d' h1]
      have := amountOf_pos_of_mem c hc d' h2; omega

/-- `Link`, positive holding, and no entries when out -/
structure Linked (s : State) (a : Bytes) (v : Validator) : Prop where
  pos : Pos v.locking
  link : Link s a v
  out : 0 < outLevel v.status → Unranked s a ∧ Unindexed s a

def LA (s : State) (a : Bytes) : Prop :=
  (∀ v, vget s a = some v → Linked s a v) ∧ (vget s a = none → Unranked s a ∧ Unindexed s a)

theorem Linked.keep {a : Bytes} {s t : State} {v : Validator} (h : Linked s a v) (k : Keep a s t) : Linked t a v :=
  ⟨h.pos, h.link.keep k, fun ho => ⟨k.env.unranked (h.out ho).1, k.env.unindexed (h.out ho).2⟩⟩

theorem LA.keep {a : Bytes} {s t : State} (h : LA s a) (k : Keep a s t) : LA t a := by
  refine ⟨fun v hv => (h.1 v (k.vrec.symm.trans hv)).keep k, fun hn => ?_⟩
  obtain ⟨h1, h2⟩ := h.2 (k.vrec.symm.trans hn)
  exact ⟨k.env.unranked h1, k.env.unindexed h2⟩

/-- after `vset` on `a` itself: `LA` from `Linked` of the new record -/
theorem LA.of_vset {a : Bytes} {t : State} {w : Validator} (h : Linked (vset t a w) a w) : LA (vset t a w) a := by
  refine ⟨fun v hv => ?_, fun hn => ?_⟩
  · rw [vget_vset_same] at hv; cases hv; exact h
  · rw [vget_vset_same] at hn; cases hn

theorem linked_foldlM {α : Type} (a : Bytes) (f : State → α → Outcome State) (hf : ∀ b x b', LA b a → f b x = .ok b' → LA b' a) :
    ∀ (l : List α) (b b' : State), LA b a → l.foldlM f b = .ok b' → LA b' a :=
  foldlM_inv (fun b => LA b a) f (fun b x b' hb hstep => hf b x b' hb hstep)

theorem mem_rank_ite (S : State) (pw : Nat) (a : Bytes) (p : Nat)
    (h : (p, a) ∈ (if pw > 0 then rankSet S pw a else S).ranking) : p = pw ∨ (p, a) ∈ S.ranking := by
  split at h
  · unfold rankSet at h
    split at h
    · exact Or.inr h
    · rcases List.mem_append.mp h with h | h
      · exact Or.inr h
      · simp only [List.mem_singleton, Prod.mk.injEq] at h; exact Or.inl h.1
  · exact Or.inr h

theorem rank_ite_idx (S : State) (pw : Nat) (a : Bytes) : (if pw > 0 then rankSet S pw a else S).lockingIdx = S.lockingIdx := by
  split
  · unfold rankSet; split <;> rfl
  · rfl

theorem mem_idxSet (S : State) (d : String) (a : Bytes) (x : Int) (e : (String × Bytes) × Int)
    (h : e ∈ (idxSet S d a x).lockingIdx) : e = ((d, a), x) ∨ e ∈ S.lockingIdx := by
  unfold idxSet at h
  rcases List.mem_append.mp h with h | h
  · exact Or.inr (List.mem_filter.mp h).1
  · simp only [List.mem_singleton] at h; exact Or.inl h

/-- the index entries of `a` after a loop that only does `idxSet · c.1 a ·` for `c ∈ cs` -/
def IdxGrow (a : Bytes) (ks : List String) (s0 b : State) : Prop :=
  b.ranking = s0.ranking ∧ ∀ d x, ((d, a), x) ∈ b.lockingIdx → ((d, a), x) ∈ s0.lockingIdx ∨ d ∈ ks

theorem IdxGrow.idxSet {a : Bytes} {ks : List String} {s0 b : State} (h : IdxGrow a ks s0 b) (d : String) (x : Int)
    (hd : d ∈ ks) : IdxGrow a ks s0 (idxSet b d a x) := by
  refine ⟨h.1, ?_⟩
  intro d' x' hm
  rcases mem_idxSet b d a x _ hm with h1 | h1
  · simp only [Prod.mk.injEq] at h1
    exact Or.inr (h1.1.1 ▸ hd)
  · exact h.2 d' x' h1

theorem lockOne_la (s s' : State) (now : Int) (a b : Bytes) (coins : Coins) (hc : Pos coins) (h : LA s a)
    (hok : lockOne s now b coins = .ok s') : LA s' a := by
  by_cases hab : b = a
  · subst hab
    unfold lockOne at hok
    cases hv : vget s b with
    | none => rw [hv] at hok; cases hok
    | some v =>
      rw [hv] at hok
      dsimp only at hok
      have hl := h.1 v hv
      have hpos : Pos (addCoins v.locking coins) := pos_addCoins _ _ hl.pos hc.nonneg
      -- the branches that only credit the coins
      have credit : LA (vset s b { v with locking := addCoins v.locking coins }) b := by
        refine LA.of_vset ⟨hpos, ⟨?_, ?_⟩, ?_⟩
        · intro p hp; rw [vset_ranking] at hp; exact hl.link.rank p hp
        · intro d x hp
          exact keys_addCoins _ _ hl.pos hc d (Or.inl (hl.link.idx d x ((env_vset b s b _).idx d x hp)))
        · intro ho
          obtain ⟨h1, h2⟩ := hl.out ho
          exact ⟨(env_vset b s b _).unranked h1, (env_vset b s b _).unindexed h2⟩
      -- the Active / Pending branch
      have ap : ∀ (s2 : State) (pw : Nat), ¬ 0 < outLevel v.status →
          IdxGrow b (coins.map (·.1)) (rankRemove s v.power b) s2 →
          LA (vset (if pw > 0 then rankSet s2 pw b else s2) b { v with locking := addCoins v.locking coins, power := pw }) b := by
        intro s2 pw hst hg
        refine LA.of_vset ⟨hpos, ⟨?_, ?_⟩, fun ho => absurd ho hst⟩
        · intro p hp
          rw [vset_ranking] at hp
          rcases mem_rank_ite s2 pw b p hp with h1 | h1
          · exact h1
          · rw [hg.1] at h1
            have := hl.link.rank p (mem_rankRemove _ _ _ _ h1)
            subst this
            exact absurd h1 (rankRemove_not_mem s v.power b)
        · intro d x hp
          have hp' : ((d, b), x) ∈ s2.lockingIdx := by
            have := (env_vset b _ b _).idx d x hp
            rw [rank_ite_idx] at this; exact this
          rcases hg.2 d x hp' with h1 | h1
          · exact keys_addCoins _ _ hl.pos hc d (Or.inl (hl.link.idx d x h1))
          · exact keys_addCoins _ _ hl.pos hc d (Or.inr h1)
      split at hok
      · cases hok
      · split at hok
        · -- pending
          rename_i hst
          split at hok
          · cases hok
          · cases hok
          · rename_i s2 pw heq
            cases hok
            refine ap s2 pw (by rw [hst]; decide) ?_
            refine foldlM_inv_mem (fun (acc : State × Nat) => IdxGrow b (coins.map (·.1)) (rankRemove s v.power b) acc.1) _ coins ?_ _ _
              ⟨rfl, fun _ _ hm => Or.inl hm⟩ heq
            intro acc c acc' hcm hacc hstep
            obtain ⟨b0, pw0⟩ := acc
            dsimp only at hstep hacc
            split at hstep
            · cases hstep
            · split at hstep
              · cases hstep; exact hacc.idxSet _ _ (List.mem_map.mpr ⟨c, hcm, rfl⟩)
              · cases hstep
              · cases hstep
        · -- active
          rename_i hst
          split at hok
          · cases hok
          · cases hok
          · rename_i s2 pw heq
            cases hok
            refine ap s2 pw (by rw [hst]; decide) ?_
            refine foldlM_inv_mem (fun (acc : State × Nat) => IdxGrow b (coins.map (·.1)) (rankRemove s v.power b) acc.1) _ coins ?_ _ _
              ⟨rfl, fun _ _ hm => Or.inl hm⟩ heq
            intro acc c acc' hcm hacc hstep
            obtain ⟨b0, pw0⟩ := acc
            dsimp only at hstep hacc
            split at hstep
            · cases hstep
            · split at hstep
              · cases hstep; exact hacc.idxSet _ _ (List.mem_map.mpr ⟨c, hcm, rfl⟩)
              · cases hstep
              · cases hstep
        · -- downgrade
          rename_i hst
          split at hok
          · split at hok
            · cases hok
            · cases hok
            · rename_i s2 pw heq
              cases hok
              obtain ⟨hu1, hu2⟩ := hl.out (by rw [hst]; decide)
              have hg : IdxGrow b ((addCoins v.locking coins).map (·.1)) s s2 := by
                refine foldlM_inv_mem (fun (acc : State × Nat) => IdxGrow b ((addCoins v.locking coins).map (·.1)) s acc.1) _ _ ?_ _ _
                  ⟨rfl, fun _ _ hm => Or.inl hm⟩ heq
                intro acc c acc' hcm hacc hstep
                obtain ⟨b0, pw0⟩ := acc
                dsimp only at hstep hacc
                have hk := hacc.idxSet c.1 c.2 (List.mem_map.mpr ⟨c, hcm, rfl⟩)
                split at hstep
                · cases hstep
                · split at hstep
                  · split at hstep
                    · cases hstep
                    · cases hstep
                    · cases hstep
                    · cases hstep; exact hk
                  · cases hstep; exact hk
              refine LA.of_vset ⟨hpos, ⟨?_, ?_⟩, fun ho => by simp [outLevel] at ho⟩
              · intro p hp
                rw [vset_ranking] at hp
                rcases mem_rank_ite s2 pw b p hp with h1 | h1
                · exact h1
                · rw [hg.1] at h1; exact absurd h1 (hu1 p)
              · intro d x hp
                have hp' : ((d, b), x) ∈ s2.lockingIdx := by
                  have := (env_vset b _ b _).idx d x hp
                  rw [rank_ite_idx] at this; exact this
                rcases hg.2 d x hp' with h1 | h1
                · exact absurd h1 (hu2 d x)
                · exact h1
          · cases hok; exact credit
        · cases hok; exact credit
        · cases hok; exact credit
  · exact h.keep (lockOne_other s s' now a b coins hab hok)

theorem agg_fold_pos (reqs : List LockReq) (acc : List (Bytes × Coins)) (hp : LAll Pos acc) (hr : ∀ r ∈ reqs, 0 ≤ r.amount) :
    LAll Pos (reqs.foldl aggStep acc) := by
  induction reqs generalizing acc with
  | nil => exact hp
  | cons r rs ih =>
    rw [List.foldl_cons]
    refine ih _ ?_ (fun x hx => hr x (List.mem_cons_of_mem _ hx))
    rw [aggStep_eq]
    apply lall_locksSet Pos _ _ _ hp
    apply pos_addCoin _ _ _ _ (hr r List.mem_cons_self)
    cases hg : locksGet acc r.validator with
    | none => exact pos_nil
    | some c => exact lall_get Pos acc _ c hp hg

theorem lock_la (s s' : State) (now : Int) (reqs : List LockReq) (a : Bytes) (h : LA s a)
    (hok : lock s now reqs = .ok s') : LA s' a := by
  unfold lock at hok
  split at hok
  · cases hok; exact h
  · split at hok
    · cases hok
    · rename_i hneg
      have hpos : ∀ r ∈ reqs, 0 ≤ r.amount := by
        intro r hr
        by_cases hlt : r.amount < 0
        · exact absurd (List.any_eq_true.mpr ⟨r, hr, by simpa using hlt⟩) hneg
        · omega
      split at hok
      · cases hok
      · cases hok
      · rename_i agg hagg
        have hap : LAll Pos agg := by
          rw [aggregateLocks_ok reqs agg hagg]
          exact agg_fold_pos reqs [] (fun e he => by cases he) hpos
        refine foldlM_inv_mem (fun b => LA b a) _ agg ?_ s s' h hok
        intro b e b' he hb hstep
        exact lockOne_la b b' now a e.1 e.2 (hap e he) hb hstep

theorem unlockCore_la (s s3 : State) (r : UnlockReq) (ex : Bool) (amt : Int) (a : Bytes) (h : LA s a)
    (hok : unlockCore s r = .ok (s3, ex, amt)) : LA s3 a := by
  by_cases hab : r.validator = a
  · subst hab
    unfold unlockCore at hok
    cases hv : vget s r.validator with
    | none => rw [hv] at hok; cases hok
    | some v =>
      rw [hv] at hok
      dsimp only at hok
      have hl := h.1 v hv
      split at hok
      · cases hok
      · split at hok
        · cases hok
        · rename_i hnn
          have hle : 0 ≤ amountOf v.locking r.token - unlockAmount (amountOf v.locking r.token) r.amount := by
            unfold unlockAmount; split <;> omega
          have hpos := pos_setAmount v.locking r.token _ hl.pos hle
          have hkeys := keys_setAmount v.locking hl.pos r.token _ hle
          -- no ranking entry of the validator survives `rankRemove`
          have hrank : ∀ p, (p, r.validator) ∉ (rankRemove s v.power r.validator).ranking := by
            intro p hp
            have := hl.link.rank p (mem_rankRemove _ _ _ _ hp)
            subst this
            exact rankRemove_not_mem s v.power r.validator hp
          split at hok
          · cases hok
          · cases hok
          · rename_i pw hpw
            simp only [Outcome.ok.injEq, Prod.mk.injEq] at hok
            obtain ⟨h1, _, _⟩ := hok
            rw [← h1]
            split
            · -- exiting: everything removed
              dsimp only
              have hk := keep_foldl_idxRemove r.validator r.validator v.locking (rankRemove s v.power r.validator)
              have hidx : Unindexed (v.locking.foldl (fun s c => idxRemove s c.1 r.validator) (rankRemove s v.power r.validator)) r.validator := by
                intro d x hp
                have hmem : ∀ (cs : Coins) (st : State), ((d, r.validator), x) ∈ (cs.foldl (fun s c => idxRemove s c.1 r.validator) st).lockingIdx →
                    ((d, r.validator), x) ∈ st.lockingIdx ∧ d ∉ cs.map (·.1) := by
                  intro cs
                  induction cs with
                  | nil => intro st hm; exact ⟨hm, by simp⟩
                  | cons c cs ih =>
                    intro st hm
                    rw [List.foldl_cons] at hm
                    obtain ⟨m1, m2⟩ := ih _ hm
                    unfold idxRemove at m1
                    rw [List.mem_filter] at m1
                    refine ⟨m1.1, ?_⟩
                    rw [List.map_cons, List.mem_cons]
                    rintro (m3 | m3)
                    · have := m1.2; simp [m3] at this
                    · exact m2 m3
                obtain ⟨m1, m2⟩ := hmem _ _ hp
                exact m2 (hl.link.idx d x m1)
              have hur : Unranked (v.locking.foldl (fun s c => idxRemove s c.1 r.validator) (rankRemove s v.power r.validator)) r.validator :=
                fun p hp => hrank p (hk.env.rank p hp)
              refine LA.of_vset ⟨hpos, ⟨?_, ?_⟩, fun _ => ⟨?_, ?_⟩⟩
              · intro p hp; rw [vset_ranking] at hp; exact absurd hp (hur p)
              · intro d x hp; exact absurd ((env_vset _ _ _ _).idx d x hp) (hidx d x)
              · exact (env_vset _ _ _ _).unranked hur
              · exact (env_vset _ _ _ _).unindexed hidx
            · split
              · -- Active / Pending, not exiting
                rename_i hnex hap
                dsimp only
                have hst : ¬ 0 < outLevel v.status := by
                  cases hs : v.status <;> simp [hs, outLevel] at hap ⊢
                refine LA.of_vset ⟨hpos, ⟨?_, ?_⟩, fun ho => absurd ho hst⟩
                · intro p hp
                  rw [vset_ranking] at hp
                  rcases mem_rank_ite _ pw r.validator p hp with h2 | h2
                  · exact h2
                  · have : (p, r.validator) ∈ (rankRemove s v.power r.validator).ranking := by
                      split at h2
                      · exact h2
                      · exact h2
                    exact absurd this (hrank p)
                · intro d x hp
                  have hp' := (env_vset _ _ _ _).idx d x hp
                  rw [rank_ite_idx] at hp'
                  dsimp only
                  rw [hkeys]
                  split at hp'
                  · rename_i hz
                    unfold idxRemove at hp'
                    rw [List.mem_filter] at hp'
                    have hne : d ≠ r.token := by
                      intro heq
                      have := hp'.2
                      simp [heq] at this
                    exact Or.inr ⟨hne, hl.link.idx d x hp'.1⟩
                  · rename_i hz
                    rcases mem_idxSet _ _ _ _ _ hp' with h2 | h2
                    · simp only [Prod.mk.injEq] at h2
                      exact Or.inl ⟨h2.1.1, hz⟩
                    · by_cases hd : d = r.token
                      · exact Or.inl ⟨hd, hz⟩
                      · exact Or.inr ⟨hd, hl.link.idx d x h2⟩
              · -- jailed, not exiting
                rename_i hnex hap
                dsimp only
                have hst : 0 < outLevel v.status := by
                  cases hs : v.status <;> simp [hs, outLevel] at hap ⊢
                obtain ⟨hu1, hu2⟩ := hl.out hst
                have hk := keep_rankRemove r.validator s v.power r.validator
                refine LA.of_vset ⟨hpos, ⟨?_, ?_⟩, fun _ => ⟨?_, ?_⟩⟩
                · intro p hp; rw [vset_ranking] at hp; exact absurd (hk.env.rank p hp) (hu1 p)
                · intro d x hp; exact absurd (hk.env.idx d x ((env_vset _ _ _ _).idx d x hp)) (hu2 d x)
                · exact (env_vset _ _ _ _).unranked (hk.env.unranked hu1)
                · exact (env_vset _ _ _ _).unindexed (hk.env.unindexed hu2)
  · exact h.keep (unlockCore_other s s3 r ex amt a hab hok)

theorem slashAll_pos (s : State) (addr : Bytes) (v : Validator) (frac : Nat) (hp : Pos v.locking) (hf : frac ≤ e18) :
    Pos (slashAll s addr v frac).2 := by
  unfold slashAll
  generalize v.locking = cs at hp
  have key : ∀ (cs : Coins) (acc : State × Coins), Pos cs → Pos acc.2 → Pos (cs.foldl (slashStep addr frac) acc).2 := by
    intro cs
    induction cs with
    | nil => intro acc _ h; exact h
    | cons c cs ih =>
      intro acc hcs hacc
      rw [List.foldl_cons]
      refine ih _ (fun x hx => hcs x (List.mem_cons_of_mem _ hx)) ?_
      have hc := hcs c List.mem_cons_self
      have hb := slashAmount_le c.2.toNat frac hf
      simp only [slashStep]
      generalize slashAmount c.2.toNat frac = a0 at hb ⊢
      by_cases hz : (a0 : Int) = 0
      · rw [if_pos hz]; exact hacc
      · rw [if_neg hz]
        exact pos_addCoin _ _ _ hacc (by omega)
  exact key cs (s, []) hp pos_nil

theorem Linked.of_out {s : State} {a : Bytes} {v : Validator} (ho : OutRec s a v) (hp : Pos v.locking) : Linked s a v :=
  ⟨hp, Link.of_out ho, fun _ => ⟨ho.unranked, ho.unindexed⟩⟩

theorem LA.of_linked {s : State} {a : Bytes} {v : Validator} (hv : vget s a = some v) (hl : Linked s a v) : LA s a :=
  ⟨fun w hw => by rw [hv] at hw; cases hw; exact hl, fun hn => by rw [hv] at hn; cases hn⟩

/-- rewriting the record of `a` itself, power / holding / status class untouched -/
theorem LA.vset_same {s : State} {a : Bytes} {v w : Validator} (h : LA s a) (hv : vget s a = some v) (hp : w.power = v.power)
    (hl : w.locking = v.locking) (hs : 0 < outLevel w.status → 0 < outLevel v.status) : LA (vset s a w) a := by
  have l := h.1 v hv
  refine LA.of_vset ⟨hl ▸ l.pos, l.link.vset_self (Env.refl a s) hp hl, fun ho => ?_⟩
  obtain ⟨h1, h2⟩ := l.out (hs ho)
  exact ⟨(env_vset a s a w).unranked h1, (env_vset a s a w).unindexed h2⟩

theorem handleVote_la (s s' : State) (now : Int) (vi : VoteInfo) (a : Bytes) (hf : s.params.slashDowntime ≤ e18) (h : LA s a)
    (hok : handleVote s now vi = .ok s') : LA s' a := by
  by_cases hab : vi.address = a
  · subst hab
    cases hv : vget s vi.address with
    | none => unfold handleVote at hok; rw [hv] at hok; cases hok
    | some v =>
      have hl := h.1 v hv
      by_cases hs : v.status = .active
      · by_cases hd : ((if vi.absent then v.missed + 1 else v.missed : Nat) : Int) ≥ s.params.maxMissed
        · obtain ⟨v', o, _, _, _, _, _, _, v1, e1, e2⟩ := handleVote_establishes s s' now vi v hv hs hl.link hd hok
          refine LA.of_linked o.vrec (Linked.of_out o ?_)
          rw [e2]
          exact slashAll_pos _ _ v1 _ (e1 ▸ hl.pos) hf
        · unfold handleVote at hok
          simp only [hv, hs, ne_eq, not_true_eq_false, if_false] at hok
          simp only [hd, if_false] at hok
          cases hok
          exact h.vset_same hv rfl rfl (fun ho => by simp [outLevel] at ho)
      · rw [C14.non_active_not_counted s now vi v hv hs] at hok
        cases hok; exact h
  · exact h.keep (handleVote_other s s' now vi a hab hok)

theorem handleEvidence_la (s s' : State) (now height : Int) (maxAge : Option (Int × Int)) (e : Evidence) (a : Bytes)
    (hf : s.params.slashDoubleSign ≤ e18) (h : LA s a) (hok : handleEvidence s now height maxAge e = .ok s') : LA s' a := by
  by_cases hab : e.address = a
  · subst hab
    by_cases hk : e.kind = 1 ∨ e.kind = 2
    · cases hfresh : isStale now height maxAge e with
      | true => rw [C14.stale_evidence_ignored s now height maxAge e hfresh] at hok; cases hok; exact h
      | false =>
        cases hv : vget s e.address with
        | none =>
          unfold handleEvidence at hok
          have hk' : ¬ (e.kind ≠ 1 ∧ e.kind ≠ 2) := by omega
          simp only [hk', if_false, hfresh, Bool.false_eq_true, hv] at hok
          cases hok
        | some v =>
          have hl := h.1 v hv
          by_cases hs : v.status = .tombstoned
          · rw [C14.tombstoned_not_slashed_again s now height maxAge e v hv hs] at hok; cases hok; exact h
          · obtain ⟨v', o, _, _, e3, _⟩ := handleEvidence_establishes s s' now height maxAge e v hk hfresh hv hs hl.link hok
            refine LA.of_linked o.vrec (Linked.of_out o ?_)
            rw [e3]
            exact slashAll_pos _ _ v _ hl.pos hf
    · have hk' : e.kind ≠ 1 ∧ e.kind ≠ 2 := by omega
      unfold handleEvidence at hok
      rw [if_pos hk'] at hok
      cases hok; exact h
  · exact h.keep (handleEvidence_other s s' now height maxAge e a hab hok)

theorem onWeightChanged_la (s s' : State) (token : String) (prev cur : Nat) (a : Bytes) (h : LA s a)
    (hok : onWeightChanged s token prev cur = .ok s') : LA s' a := by
  unfold onWeightChanged at hok
  split at hok
  · cases hok; exact h
  · dsimp only at hok
    have key := foldlM_inv_mem (fun b => LA b a ∧ b.lockingIdx = s.lockingIdx) _ _ ?_ s s' ⟨h, rfl⟩ hok
    · exact key.1
    · intro b e b' he hb hstep
      have he' : e ∈ s.lockingIdx := (List.mem_filter.mp ((List.mergeSort_perm _ _).mem_iff.mp he)).1
      by_cases hab : e.1.2 = a
      · cases hv : vget b e.1.2 with
        | none => rw [hv] at hstep; cases hstep
        | some v =>
          rw [hv] at hstep
          dsimp only at hstep
          have hl := hb.1.1 v (hab ▸ hv)
          have hin : ¬ 0 < outLevel v.status := by
            intro ho
            have := (hl.out ho).2 e.1.1 e.2
            rw [hb.2, ← hab] at this
            exact this he'
          -- the result for any new power
          have hq : ∀ (p' : Nat), LA (if p' > 0 then rankSet (vset (rankRemove b v.power e.1.2) e.1.2 { v with power := p' }) p' e.1.2
                else vset (rankRemove b v.power e.1.2) e.1.2 { v with power := p' }) a ∧
              (if p' > 0 then rankSet (vset (rankRemove b v.power e.1.2) e.1.2 { v with power := p' }) p' e.1.2
                else vset (rankRemove b v.power e.1.2) e.1.2 { v with power := p' }).lockingIdx = s.lockingIdx := by
            intro p'
            have hidx : (if p' > 0 then rankSet (vset (rankRemove b v.power e.1.2) e.1.2 { v with power := p' }) p' e.1.2
                else vset (rankRemove b v.power e.1.2) e.1.2 { v with power := p' }).lockingIdx = b.lockingIdx := by
              rw [rank_ite_idx]; unfold vset; rfl
            refine ⟨?_, hidx.trans hb.2⟩
            subst hab
            have hv' : vget (if p' > 0 then rankSet (vset (rankRemove b v.power e.1.2) e.1.2 { v with power := p' }) p' e.1.2
                else vset (rankRemove b v.power e.1.2) e.1.2 { v with power := p' }) e.1.2 = some { v with power := p' } := by
              split
              · rw [vget_congr _ _ (rankSet_validators _ _ _)]; exact vget_vset_same _ _ _
              · exact vget_vset_same _ _ _
            refine LA.of_linked hv' ⟨hl.pos, ⟨?_, ?_⟩, fun ho => absurd ho hin⟩
            · intro p hp
              rcases mem_rank_ite _ p' e.1.2 p hp with h1 | h1
              · exact h1
              · rw [vset_ranking] at h1
                have := hl.link.rank p (mem_rankRemove _ _ _ _ h1)
                subst this
                exact absurd h1 (rankRemove_not_mem b v.power e.1.2)
            · intro d x hp
              rw [hidx] at hp
              exact hl.link.idx d x hp
          split at hstep
          · split at hstep
            · cases hstep
            · cases hstep
            · cases hstep
            · cases hstep; exact hq _
          · split at hstep
            · cases hstep
            · cases hstep
            · cases hstep
            · cases hstep; exact hq _
      · have k := weightStep_other a prev cur b b' e hab hstep
        refine ⟨hb.1.keep k, ?_⟩
        -- the index is untouched by the step
        cases hv : vget b e.1.2 with
        | none => rw [hv] at hstep; cases hstep
        | some v =>
          rw [hv] at hstep
          dsimp only at hstep
          have hidx : ∀ (w : Validator) (p' : Nat), (if p' > 0 then rankSet (vset (rankRemove b v.power e.1.2) e.1.2 w) p' e.1.2
                else vset (rankRemove b v.power e.1.2) e.1.2 w).lockingIdx = b.lockingIdx := by
            intro w p'; rw [rank_ite_idx]; unfold vset; rfl
          split at hstep
          · split at hstep
            · cases hstep
            · cases hstep
            · cases hstep
            · cases hstep; exact (hidx _ _).trans hb.2
          · split at hstep
            · cases hstep
            · cases hstep
            · cases hstep
            · cases hstep; exact (hidx _ _).trans hb.2

theorem updateTokens_la (s s' : State) (weights : List (String × Nat)) (thresholds : List (String × Int)) (a : Bytes)
    (h : LA s a) (hok : updateTokens s weights thresholds = .ok s') : LA s' a := by
  unfold updateTokens at hok
  obtain ⟨s1, h1, h2⟩ := (bind_eq_ok _ _ _).mp hok
  have hs1 : LA s1 a := by
    refine linked_foldlM a _ ?_ weights s s1 h h1
    intro b u b' hb hstep
    dsimp only at hstep
    split at hstep
    · rename_i b2 heq
      cases hstep
      exact (onWeightChanged_la b b2 _ _ _ a hb heq).keep (keep_tset a _ _ _)
    · cases hstep
    · cases hstep
  split at h2
  · cases h2; exact hs1
  · refine linked_foldlM a _ ?_ thresholds s1 s' hs1 h2
    intro b u b' hb hstep
    dsimp only at hstep
    split at hstep
    · cases hstep
    · split at hstep
      · cases hstep; exact hb
      · split at hstep
        · cases hstep
        · cases hstep
          refine hb.keep (Keep.trans ?_ (keep_tset a _ _ _))
          exact keep_of_eq rfl rfl rfl rfl rfl

theorem claim_la (s s' : State) (reqs : List ClaimReq) (a : Bytes) (h : LA s a) (hok : claim s reqs = .ok s') : LA s' a := by
  unfold claim at hok
  refine linked_foldlM a _ ?_ reqs s s' h hok
  intro b r b' hb hstep
  dsimp only at hstep
  cases hv : vget b r.validator with
  | none => rw [hv] at hstep; cases hstep
  | some u =>
    rw [hv] at hstep
    cases hstep
    have hb1 : LA { b with qRewards := b.qRewards ++ [{ id := r.id, recipient := r.recipient, goat := u.reward, gas := u.gasReward }] } a :=
      hb.keep (keep_of_eq rfl rfl rfl rfl rfl)
    by_cases hab : r.validator = a
    · subst hab
      exact hb1.vset_same hv rfl rfl id
    · exact hb1.keep (keep_vset_other a _ _ _ hab)

theorem distributeReward_go_la (total : Int) (a : Bytes) :
    ∀ (votes : List VoteInfo) (s : State) (rg rr : Int) (s' : State) (rg' rr' : Int),
      LA s a → distributeReward.go total votes s rg rr = .ok (s', rg', rr') → LA s' a := by
  intro votes
  induction votes with
  | nil =>
    intro s rg rr s' rg' rr' hs h
    unfold distributeReward.go at h
    cases h; exact hs
  | cons x rest ih =>
    intro s rg rr s' rg' rr' hs h
    unfold distributeReward.go at h
    cases hv : vget s x.address with
    | none => rw [hv] at h; cases h
    | some val =>
      rw [hv] at h
      dsimp only at h
      refine ih _ _ _ s' rg' rr' ?_ h
      by_cases hab : x.address = a
      · subst hab
        exact hs.vset_same hv rfl rfl id
      · exact hs.keep (keep_vset_other a _ _ _ hab)

theorem distributeReward_la (s s' : State) (height : Int) (votes : List VoteInfo) (a : Bytes) (h : LA s a)
    (hok : distributeReward s height votes = .ok s') : LA s' a := by
  unfold distributeReward at hok
  split at hok
  · cases hok; exact h
  · split at hok
    · cases hok; exact h
    · dsimp only at hok
      split at hok
      · cases hok
      · split at hok
        · cases hok
        · cases hok
        · rename_i s2 rg rr heq
          cases hok
          exact (distributeReward_go_la _ a votes s _ _ s2 rg rr h heq).keep (keep_of_eq rfl rfl rfl rfl rfl)

theorem create_la (hash160 : Bytes → Bytes) (hasAccount : Bytes → Bool) (s s' : State) (reqs : List CreateReq)
    (accs : List Bytes) (a : Bytes) (h : LA s a) (hok : create hash160 hasAccount s reqs = .ok (s', accs)) : LA s' a := by
  unfold create at hok
  refine foldlM_inv (fun (acc : State × List Bytes) => LA acc.1 a) _ ?_ _ _ _ h hok
  intro acc r acc' hacc hstep
  obtain ⟨b, newAccs⟩ := acc
  dsimp only at hstep hacc
  split at hstep
  · cases hstep
  · split at hstep
    · cases hstep; exact hacc
    · rename_i hnone
      cases hstep
      by_cases hab : hash160 r.compressed = a
      · subst hab
        have hn : vget b (hash160 r.compressed) = none := by
          cases hx : vget b (hash160 r.compressed) with
          | none => rfl
          | some v => rw [hx] at hnone; simp at hnone
        obtain ⟨h1, h2⟩ := hacc.2 hn
        have e := env_vset (hash160 r.compressed) b (hash160 r.compressed)
        refine LA.of_vset ⟨pos_nil, ⟨?_, ?_⟩, fun _ => ⟨(e _).unranked h1, (e _).unindexed h2⟩⟩
        · intro p hp; exact absurd ((e _).rank p hp) (h1 p)
        · intro d x hp; exact absurd ((e _).idx d x hp) (h2 d x)
      · exact hacc.keep (keep_vset_other a _ _ _ hab)

/-- what EndBlocker keeps of a record: power, holding, and whether it is Active/Pending or out -/
structure SamePL (v v' : Validator) : Prop where
  power : v'.power = v.power
  locking : v'.locking = v.locking
  cls : 0 < outLevel v'.status ↔ 0 < outLevel v.status

theorem SamePL.refl (v : Validator) : SamePL v v := ⟨rfl, rfl, Iff.rfl⟩
theorem SamePL.trans {u v w : Validator} (h1 : SamePL u v) (h2 : SamePL v w) : SamePL u w :=
  ⟨h2.power.trans h1.power, h2.locking.trans h1.locking, h2.cls.trans h1.cls⟩

/-- ranking and index unchanged; the record of `a` (if any) changed within `SamePL` -/
structure EB (a : Bytes) (s b : State) : Prop where
  ranking : b.ranking = s.ranking
  lockingIdx : b.lockingIdx = s.lockingIdx
  absent : vget s a = none → vget b a = none
  present : ∀ v, vget s a = some v → ∃ v', vget b a = some v' ∧ SamePL v v'

theorem EB.refl (a : Bytes) (s : State) : EB a s s := ⟨rfl, rfl, id, fun v hv => ⟨v, hv, SamePL.refl v⟩⟩

theorem EB.valset {a : Bytes} {s b : State} (h : EB a s b) (x : List (Bytes × Nat)) : EB a s { b with valset := x } :=
  ⟨h.ranking, h.lockingIdx, h.absent, h.present⟩

theorem EB.vset {a : Bytes} {s b : State} (h : EB a s b) (addr : Bytes) (u w : Validator) (hu : vget b addr = some u)
    (hw : SamePL u w) : EB a s (vset b addr w) := by
  refine ⟨(vset_ranking b addr w).trans h.ranking, (by unfold Locking.vset; rfl : (Locking.vset b addr w).lockingIdx = b.lockingIdx).trans h.lockingIdx, ?_, ?_⟩
  · intro hn
    by_cases hab : addr = a
    · subst hab; rw [h.absent hn] at hu; cases hu
    · rw [vget_vset_other b addr a w hab]; exact h.absent hn
  · intro v hv
    obtain ⟨v', hv', hs⟩ := h.present v hv
    by_cases hab : addr = a
    · subst hab
      rw [hu] at hv'; cases hv'
      exact ⟨w, vget_vset_same b addr w, hs.trans hw⟩
    · exact ⟨v', (vget_vset_other b addr a w hab).trans hv', hs⟩

theorem LA.of_eb {a : Bytes} {s s' : State} (h : LA s a) (e : EB a s s') : LA s' a := by
  constructor
  · intro v' hv'
    cases hv : vget s a with
    | none => rw [e.absent hv] at hv'; cases hv'
    | some v =>
      obtain ⟨w, hw, hs⟩ := e.present v hv
      rw [hv'] at hw; cases hw
      have l := h.1 v hv
      refine ⟨hs.locking ▸ l.pos, ⟨?_, ?_⟩, fun ho => ?_⟩
      · intro p hp; rw [e.ranking] at hp; rw [hs.power]; exact l.link.rank p hp
      · intro d x hp; rw [e.lockingIdx] at hp; rw [hs.locking]; exact l.link.idx d x hp
      · obtain ⟨h1, h2⟩ := l.out (hs.cls.mp ho)
        exact ⟨fun p hp => h1 p (e.ranking ▸ hp), fun d x hp => h2 d x (e.lockingIdx ▸ hp)⟩
  · intro hn'
    cases hv : vget s a with
    | none =>
      obtain ⟨h1, h2⟩ := h.2 hv
      exact ⟨fun p hp => h1 p (e.ranking ▸ hp), fun d x hp => h2 d x (e.lockingIdx ▸ hp)⟩
    | some v =>
      obtain ⟨w, hw, _⟩ := e.present v hv
      rw [hn'] at hw; cases hw

theorem endBlocker_eb (s s' : State) (ups : List Update) (a : Bytes) (h : endBlocker s = .ok (s', ups)) : EB a s s' := by
  unfold endBlocker at h
  dsimp only at h
  split at h
  · cases h
  · cases h
  · rename_i s1 leftovers ups1 heq
    have h1 : EB a s s1 := by
      refine foldlM_inv (fun (acc : State × List (Bytes × Nat) × List Update) => EB a s acc.1) _ ?_ _ _ _ (EB.refl a s) heq
      intro acc e acc' hacc hstep
      obtain ⟨b, last, ups0⟩ := acc
      dsimp only at hstep hacc
      cases hu : vget b e.2 with
      | none => rw [hu] at hstep; cases hstep
      | some u =>
        rw [hu] at hstep
        dsimp only at hstep
        split at hstep
        · split at hstep
          · cases hstep; exact hacc.valset _
          · cases hstep; exact hacc
        · rename_i hst
          split at hstep
          · cases hstep
          · cases hstep
            refine (hacc.vset e.2 u { u with status := .active, offset := 0, missed := 0 } hu ⟨rfl, rfl, ?_⟩).valset _
            rw [hst]; simp [outLevel]
        · cases hstep
    refine foldlM_inv (fun (acc : State × List Update) => EB a s acc.1) _ ?_ _ _ _ h1 h
    intro acc e acc' hacc hstep
    obtain ⟨b, ups0⟩ := acc
    dsimp only at hstep hacc
    cases hu : vget b e.1 with
    | none => rw [hu] at hstep; cases hstep
    | some u =>
      rw [hu] at hstep
      dsimp only at hstep
      cases hstep
      split
      · rename_i hst
        refine (hacc.vset e.1 u { u with status := .pending } hu ⟨rfl, rfl, ?_⟩).valset _
        have : u.status = .active := by simpa using hst
        rw [this]; simp [outLevel]
      · exact hacc.valset _

theorem endBlocker_la (s s' : State) (ups : List Update) (a : Bytes) (h : LA s a) (hok : endBlocker s = .ok (s', ups)) :
    LA s' a := h.of_eb (endBlocker_eb s s' ups a hok)

theorem unlock_la (s s' : State) (now : Int) (reqs : List UnlockReq) (a : Bytes) (h : LA s a)
    (hok : unlock s now reqs = .ok s') : LA s' a := by
  unfold unlock at hok
  refine linked_foldlM a _ ?_ reqs s s' h hok
  intro b r b' hb hstep
  unfold unlockOne at hstep
  split at hstep
  · cases hstep
  · cases hstep
  · rename_i s3 ex amt hcore
    cases hstep
    exact (unlockCore_la b s3 r ex amt a hb hcore).keep (keep_enqueueUnlock a _ _ _)

/-- slash fractions at most one (validated parameters) -/
def FracOK (s : State) : Prop := s.params.slashDowntime ≤ e18 ∧ s.params.slashDoubleSign ≤ e18

theorem processRequests_la (hash160 : Bytes → Bytes) (hasAccount : Bytes → Bool) (s s' : State) (height now : Int)
    (R : Reqs) (accs : List Bytes) (a : Bytes) (h : LA s a)
    (hok : processRequests hash160 hasAccount s height now R = .ok (s', accs)) : LA s' a := by
  unfold processRequests at hok
  obtain ⟨s1, h1, hok⟩ := (bind_eq_ok _ _ _).mp hok
  obtain ⟨s2, h2, hok⟩ := (bind_eq_ok _ _ _).mp hok
  obtain ⟨⟨s3, accs3⟩, h3, hok⟩ := (bind_eq_ok _ _ _).mp hok
  dsimp only at hok
  obtain ⟨s4, h4, hok⟩ := (bind_eq_ok _ _ _).mp hok
  obtain ⟨s5, h5, hok⟩ := (bind_eq_ok _ _ _).mp hok
  obtain ⟨s6, h6, hok⟩ := (bind_eq_ok _ _ _).mp hok
  have hok : (Outcome.ok (s6, accs3) : Outcome (State × List Bytes)) = .ok (s', accs) := hok
  simp only [Outcome.ok.injEq, Prod.mk.injEq] at hok
  obtain ⟨rfl, _⟩ := hok
  have l1 := h.keep (updateRewardPool_keep s s1 height R.gas R.grants a h1)
  have l2 := updateTokens_la s1 s2 _ _ a l1 h2
  have l3 := create_la hash160 hasAccount s2 s3 _ accs3 a l2 h3
  have l4 := lock_la s3 s4 now _ a l3 h4
  have l5 := unlock_la s4 s5 now _ a l4 h5
  exact claim_la s5 s6 _ a l5 h6

theorem beginBlock_la (s s' : State) (height now : Int) (votes : List VoteInfo) (maxAge : Option (Int × Int))
    (evs : List Evidence) (a : Bytes) (hf : FracOK s) (h : LA s a)
    (hok : beginBlock s height now votes maxAge evs = .ok s') : LA s' a := by
  unfold beginBlock at hok
  obtain ⟨s1, h1, hok⟩ := (bind_eq_ok _ _ _).mp hok
  obtain ⟨s3, h3, hok⟩ := (bind_eq_ok _ _ _).mp hok
  have q1 := distributeReward_qf s s1 height votes h1
  have l1 := distributeReward_la s s1 height votes a h h1
  have l2 := l1.keep (dequeueMature_keep s1 now a)
  have p2 : (dequeueMature s1 now).params = s.params := (dequeueMature_keep s1 now a).env.params.trans q1.params
  unfold handleVotes at h3
  have l3 := foldlM_inv (fun b => LA b a ∧ b.params = s.params) _ ?_ votes _ s3 ⟨l2, p2⟩ h3
  · have l4 := foldlM_inv (fun b => LA b a ∧ b.params = s.params) _ ?_ evs s3 s' l3 hok
    · exact l4.1
    · intro b e b' hb hstep
      exact ⟨handleEvidence_la b b' now height maxAge e a (by rw [hb.2]; exact hf.2) hb.1 hstep,
        (handleEvidence_qf b b' now height maxAge e hstep).params.trans hb.2⟩
  · intro b x b' hb hstep
    exact ⟨handleVote_la b b' now x a (by rw [hb.2]; exact hf.1) hb.1 hstep, (handleVote_qf b b' now x hstep).params.trans hb.2⟩

theorem unlock_qf (s s' : State) (now : Int) (reqs : List UnlockReq) (h : unlock s now reqs = .ok s') : s'.params = s.params := by
  unfold unlock at h
  refine foldlM_inv (fun b => b.params = s.params) _ ?_ reqs s s' rfl h
  intro b r b' hb hstep
  unfold unlockOne at hstep
  split at hstep
  · cases hstep
  · cases hstep
  · rename_i s3 ex amt hcore
    cases hstep
    exact (unlockCore_qf b s3 r ex amt hcore).params.trans hb

theorem processRequests_params (hash160 : Bytes → Bytes) (hasAccount : Bytes → Bool) (s s' : State) (height now : Int)
    (R : Reqs) (accs : List Bytes) (hok : processRequests hash160 hasAccount s height now R = .ok (s', accs)) :
    s'.params = s.params := by
  unfold processRequests at hok
  obtain ⟨s1, h1, hok⟩ := (bind_eq_ok _ _ _).mp hok
  obtain ⟨s2, h2, hok⟩ := (bind_eq_ok _ _ _).mp hok
  obtain ⟨⟨s3, accs3⟩, h3, hok⟩ := (bind_eq_ok _ _ _).mp hok
  dsimp only at hok
  obtain ⟨s4, h4, hok⟩ := (bind_eq_ok _ _ _).mp hok
  obtain ⟨s5, h5, hok⟩ := (bind_eq_ok _ _ _).mp hok
  obtain ⟨s6, h6, hok⟩ := (bind_eq_ok _ _ _).mp hok
  have hok : (Outcome.ok (s6, accs3) : Outcome (State × List Bytes)) = .ok (s', accs) := hok
  simp only [Outcome.ok.injEq, Prod.mk.injEq] at hok
  obtain ⟨rfl, _⟩ := hok
  rw [(claim_qf s5 s6 _ h6).params, unlock_qf s4 s5 now _ h5, (lock_qf s3 s4 now _ h4).params,
    (create_qf hash160 hasAccount s2 s3 _ accs3 h3).params, (updateTokens_qf s1 s2 _ _ h2).params,
    (updateRewardPool_qf s s1 height _ _ h1).params]

theorem beginBlock_params (s s' : State) (height now : Int) (votes : List VoteInfo) (maxAge : Option (Int × Int))
    (evs : List Evidence) (hok : beginBlock s height now votes maxAge evs = .ok s') : s'.params = s.params := by
  unfold beginBlock at hok
  obtain ⟨s1, h1, hok⟩ := (bind_eq_ok _ _ _).mp hok
  obtain ⟨s3, h3, hok⟩ := (bind_eq_ok _ _ _).mp hok
  have q4 : QFrame s3 s' := foldlM_inv (fun b => QFrame s3 b) _
    (fun b e b' hq hstep => hq.trans (handleEvidence_qf b b' now height maxAge e hstep)) evs s3 s' (QFrame.refl s3) hok
  rw [q4.params, (handleVotes_qf _ s3 now votes h3).params, (dequeueMature_keep s1 now []).env.params,
    (distributeReward_qf s s1 height votes h1).params]

/-- **the parameters never change** -/
theorem step_params (s : State) (op : Op) : (step s op).params = s.params := by
  cases op with
  | process hash160 hasAccount height now r =>
    cases hp : processRequests hash160 hasAccount s height now r with
    | ok p => obtain ⟨s', accs⟩ := p; simp only [step, hp]; exact processRequests_params hash160 hasAccount s s' height now r accs hp
    | err e => simp only [step, hp]
    | panic e => simp only [step, hp]
  | beginBlock height now votes maxAge evs =>
    cases hp : beginBlock s height now votes maxAge evs with
    | ok s' => simp only [step, hp]; exact beginBlock_params s s' height now votes maxAge evs hp
    | err e => simp only [step, hp]
    | panic e => simp only [step, hp]
  | endBlocker =>
    cases hp : endBlocker s with
    | ok p => obtain ⟨s', ups⟩ := p; simp only [step, hp]; exact (endBlocker_qf s s' ups hp).params
    | err e => simp only [step, hp]
    | panic e => simp only [step, hp]
  | dequeue => exact (dequeue_keep s []).env.params

theorem runS_params (ops : List Op) : ∀ s : State, (runS s ops).params = s.params := by
  induction ops with
  | nil => intro s; rfl
  | cons op ops ih => intro s; rw [runS_cons, ih, step_params]

/-- **every operation keeps `LA`** (slash fractions ≤ 1) -/
theorem step_la (s : State) (op : Op) (a : Bytes) (hf : FracOK s) (h : LA s a) : LA (step s op) a := by
  cases op with
  | process hash160 hasAccount height now r =>
    cases hp : processRequests hash160 hasAccount s height now r with
    | ok p => obtain ⟨s', accs⟩ := p; simp only [step, hp]; exact processRequests_la hash160 hasAccount s s' height now r accs a h hp
    | err e => simp only [step, hp]; exact h
    | panic e => simp only [step, hp]; exact h
  | beginBlock height now votes maxAge evs =>
    cases hp : beginBlock s height now votes maxAge evs with
    | ok s' => simp only [step, hp]; exact beginBlock_la s s' height now votes maxAge evs a hf h hp
    | err e => simp only [step, hp]; exact h
    | panic e => simp only [step, hp]; exact h
  | endBlocker =>
    cases hp : endBlocker s with
    | ok p => obtain ⟨s', ups⟩ := p; simp only [step, hp]; exact endBlocker_la s s' ups a h hp
    | err e => simp only [step, hp]; exact h
    | panic e => simp only [step, hp]; exact h
  | dequeue => exact h.keep (dequeue_keep s a)

/-- **`LA` along every history** -/
theorem runS_la (ops : List Op) : ∀ (s : State), FracOK s → (∀ a, LA s a) → ∀ a, LA (runS s ops) a := by
  induction ops with
  | nil => intro s _ h; exact h
  | cons op ops ih =>
    intro s hf h
    rw [runS_cons]
    refine ih (step s op) ?_ (fun a => step_la s op a hf (h a))
    unfold FracOK; rw [step_params]; exact hf

/-- the empty state (no validators, nothing ranked or indexed) satisfies `LA` -/
theorem genesis_la (p : Params) (a : Bytes) : LA (C11H.genesis p) a :=
  ⟨(fun v hv => by cases hv), fun _ => ⟨(fun _ hp => by cases hp), (fun _ _ hp => by cases hp)⟩⟩

/-- **`Link` at every reachable state**: from the empty state with slash fractions ≤ 1, after any history
    every validator record is linked (entries as the record accounts for, none when out). -/
theorem reachable_linked (p : Params) (hp : p.slashDowntime ≤ e18 ∧ p.slashDoubleSign ≤ e18) (ops : List Op) (a : Bytes)
    (v : Validator) (hv : vget (runS (C11H.genesis p) ops) a = some v) : Linked (runS (C11H.genesis p) ops) a v :=
  (runS_la ops (C11H.genesis p) hp (genesis_la p) a).1 v hv

end Goat.Locking
