import GoatModel.Locking
namespace Goat.Locking

theorem e18_pos : 0 < e18 := by unfold e18; omega

theorem decQuoTruncate_eq (p t : Nat) (ht : 0 < t) : decQuoTruncate p t = p * e18 / t := by
  unfold decQuoTruncate
  rw [Nat.mul_comm t e18, ← Nat.div_div_eq_div_mul, Nat.mul_div_cancel _ e18_pos]

theorem mulTruncInt_eq (x frac : Nat) : mulTruncInt x frac = x * frac / e18 := by
  unfold mulTruncInt
  have : x * e18 * frac = x * frac * e18 := by
    rw [Nat.mul_assoc, Nat.mul_comm e18 frac, ← Nat.mul_assoc]
  rw [this, Nat.mul_div_cancel _ e18_pos]

theorem add_div_le (a b c : Nat) : a / c + b / c ≤ (a + b) / c := by
  by_cases hc : c = 0
  · subst hc; simp
  · have hc : 0 < c := Nat.pos_of_ne_zero hc
    rw [Nat.le_div_iff_mul_le hc, Nat.add_mul]
    exact Nat.add_le_add (Nat.div_mul_le_self a c) (Nat.div_mul_le_self b c)

/-- sum of floors ≤ floor of sum -/
theorem sum_div_le (l : List Nat) (c : Nat) : (l.map (· / c)).sum ≤ l.sum / c := by
  induction l with
  | nil => simp
  | cons a as ih =>
    simp only [List.map_cons, List.sum_cons]
    calc a / c + (as.map (· / c)).sum ≤ a / c + as.sum / c := Nat.add_le_add_left ih _
      _ ≤ (a + as.sum) / c := add_div_le a as.sum c

theorem sum_map_mul_left (l : List Nat) (k : Nat) : (l.map (k * ·)).sum = k * l.sum := by
  induction l with
  | nil => simp
  | cons a as ih => simp [List.sum_cons, ih, Nat.mul_add]

theorem sum_map_mul_right (l : List Nat) (k : Nat) : (l.map (· * k)).sum = l.sum * k := by
  induction l with
  | nil => simp
  | cons a as ih => simp [List.sum_cons, ih, Nat.add_mul]

/-- truncated fractions of the powers add up to at most one (scaled by 10^18) -/
theorem fractions_le_one (ps : List Nat) (ht : 0 < ps.sum) :
    (ps.map (fun p => decQuoTruncate p ps.sum)).sum ≤ e18 := by
  have h1 : (ps.map (fun p => decQuoTruncate p ps.sum)) = (ps.map (· * e18)).map (· / ps.sum) := by
    rw [List.map_map]
    apply List.map_congr_left
    intro p _
    simp [decQuoTruncate_eq p ps.sum ht]
  rw [h1]
  calc ((ps.map (· * e18)).map (· / ps.sum)).sum ≤ (ps.map (· * e18)).sum / ps.sum := sum_div_le _ _
    _ = ps.sum * e18 / ps.sum := by rw [sum_map_mul_right]
    _ = e18 := Nat.mul_div_cancel_left e18 ht

/-- each share is at most the exact proportional amount -/
theorem share_le_proportional (pool p t : Nat) (ht : 0 < t) :
    mulTruncInt pool (decQuoTruncate p t) * t ≤ pool * p := by
  rw [mulTruncInt_eq, decQuoTruncate_eq p t ht]
  -- (pool·f / e18)·t·e18 ≤ pool·f·t ≤ pool·p·e18
  have hf : p * e18 / t * t ≤ p * e18 := Nat.div_mul_le_self _ _
  have h1 : pool * (p * e18 / t) / e18 * e18 ≤ pool * (p * e18 / t) := Nat.div_mul_le_self _ _
  have h2 : pool * (p * e18 / t) / e18 * t * e18 ≤ pool * p * e18 := by
    calc pool * (p * e18 / t) / e18 * t * e18 = pool * (p * e18 / t) / e18 * e18 * t := by
          rw [Nat.mul_assoc, Nat.mul_comm t e18, ← Nat.mul_assoc]
      _ ≤ pool * (p * e18 / t) * t := Nat.mul_le_mul_right _ h1
      _ = pool * (p * e18 / t * t) := Nat.mul_assoc _ _ _
      _ ≤ pool * (p * e18) := Nat.mul_le_mul_left _ hf
      _ = pool * p * e18 := (Nat.mul_assoc _ _ _).symm
  exact Nat.le_of_mul_le_mul_right h2 e18_pos

end Goat.Locking

namespace Goat.Locking
theorem shares_le_aux (pool t : Nat) (l : List Nat) :
    (l.map (fun p => mulTruncInt pool (decQuoTruncate p t))).sum ≤ pool * (l.map (fun p => decQuoTruncate p t)).sum / e18 := by
  induction l with
  | nil => simp
  | cons a as ih =>
    simp only [List.map_cons, List.sum_cons]
    rw [mulTruncInt_eq]
    calc pool * decQuoTruncate a t / e18 + (as.map (fun p => mulTruncInt pool (decQuoTruncate p t))).sum
        ≤ pool * decQuoTruncate a t / e18 + pool * (as.map (fun p => decQuoTruncate p t)).sum / e18 := Nat.add_le_add_left ih _
      _ ≤ (pool * decQuoTruncate a t + pool * (as.map (fun p => decQuoTruncate p t)).sum) / e18 := add_div_le _ _ _
      _ = pool * (decQuoTruncate a t + (as.map (fun p => decQuoTruncate p t)).sum) / e18 := by rw [Nat.mul_add]

/-- **the shares never exceed the pool** (truncating fraction) -/
theorem shares_le_pool (pool : Nat) (ps : List Nat) (ht : 0 < ps.sum) :
    (ps.map (fun p => mulTruncInt pool (decQuoTruncate p ps.sum))).sum ≤ pool := by
  calc _ ≤ pool * (ps.map (fun p => decQuoTruncate p ps.sum)).sum / e18 := shares_le_aux pool ps.sum ps
    _ ≤ pool * e18 / e18 := Nat.div_le_div_right (Nat.mul_le_mul_left _ (fractions_le_one ps ht))
    _ = pool := Nat.mul_div_cancel _ e18_pos
end Goat.Locking

namespace Goat.Locking
theorem chopRound_mul (k : Nat) : chopRound (k * e18) = k := by
  unfold chopRound
  have h1 : k * e18 / e18 = k := Nat.mul_div_cancel _ e18_pos
  have h2 : k * e18 % e18 = 0 := Nat.mul_mod_left _ _
  simp [h1, h2]

/-- the slashed amount is `⌊a·f/10¹⁸⌋` and never exceeds the holding for a fraction below one -/
theorem slashAmount_eq (a frac : Nat) : slashAmount a frac = a * frac / e18 := by
  unfold slashAmount
  have : a * e18 * frac = a * frac * e18 := by
    rw [Nat.mul_assoc, Nat.mul_comm e18 frac, ← Nat.mul_assoc]
  rw [this, chopRound_mul]

theorem slashAmount_le (a frac : Nat) (hf : frac ≤ e18) : slashAmount a frac ≤ a := by
  rw [slashAmount_eq]
  calc a * frac / e18 ≤ a * e18 / e18 := Nat.div_le_div_right (Nat.mul_le_mul_left _ hf)
    _ = a := Nat.mul_div_cancel _ e18_pos
end Goat.Locking
