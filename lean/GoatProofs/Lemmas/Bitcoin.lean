import GoatModel.Bitcoin
namespace Goat.Bitcoin

theorem nlookup_ninsert_same {α} (m : List (Nat × α)) (k : Nat) (v : α) : nlookup (ninsert m k v) k = some v := by
  unfold nlookup ninsert
  by_cases h : m.any (·.1 == k) = true
  · simp only [h, if_true]
    induction m with
    | nil => simp at h
    | cons e es ih =>
      rw [List.map_cons, List.find?_cons]
      by_cases he : (e.1 == k) = true
      · simp [he]
      · have he' : (e.1 == k) = false := by simpa using he
        simp only [he', Bool.false_eq_true, if_false]
        simp only [List.any_cons, he', Bool.false_or] at h
        exact ih h
  · simp only [h, Bool.false_eq_true, if_false]
    rw [List.find?_append]
    have : m.find? (fun e => e.1 == k) = none := by
      rw [List.find?_eq_none]
      intro e he hc
      exact h (List.any_eq_true.mpr ⟨e, he, hc⟩)
    simp [this]

theorem find_map_other {α} (m : List (Nat × α)) (k j : Nat) (v : α) (hkj : k ≠ j) :
    (m.map (fun e => if (e.1 == k) = true then (k, v) else e)).find? (fun e => e.1 == j) = m.find? (fun e => e.1 == j) := by
  induction m with
  | nil => rfl
  | cons e es ih =>
    rw [List.map_cons, List.find?_cons, List.find?_cons]
    by_cases he : (e.1 == k) = true
    · have hek : e.1 = k := by simpa using he
      have h1 : ((if (e.1 == k) = true then (k, v) else e).1 == j) = false := by
        rw [if_pos he]; simp [hkj]
      have h2 : (e.1 == j) = false := by rw [hek]; simp [hkj]
      rw [h1, h2]; exact ih
    · have h1 : (if (e.1 == k) = true then (k, v) else e) = e := if_neg he
      rw [h1]
      cases hb : (e.1 == j)
      · exact ih
      · rfl

theorem nlookup_ninsert_other {α} (m : List (Nat × α)) (k j : Nat) (v : α) (hkj : k ≠ j) :
    nlookup (ninsert m k v) j = nlookup m j := by
  unfold nlookup ninsert
  by_cases h : m.any (·.1 == k) = true
  · simp only [h, if_true]
    rw [find_map_other m k j v hkj]
  · simp only [h, Bool.false_eq_true, if_false]
    rw [List.find?_append]
    have hkj' : (k == j) = false := by simp [hkj]
    cases hf : List.find? (fun e => e.1 == j) m <;> simp [hkj']

theorem nlookup_ninsert {α} (m : List (Nat × α)) (k j : Nat) (v : α) :
    nlookup (ninsert m k v) j = if k = j then some v else nlookup m j := by
  by_cases h : k = j
  · subst h; simp [nlookup_ninsert_same]
  · simp [h, nlookup_ninsert_other m k j v h]

end Goat.Bitcoin
