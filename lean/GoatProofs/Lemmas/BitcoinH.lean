/-
  Helper layer for C05H (withdrawal life cycle over histories): the transition summary `Trans`
  (edge-respecting step together with the ids that newly become paid / cancelled), its
  composition, the one-point update lemmas, and small list facts.
-/
import GoatModel.Bitcoin
import GoatProofs.Lemmas.Bitcoin
import GoatProofs.C05
namespace Goat.C05H
open Goat.Bitcoin Goat.C05

/-- not (yet) in a terminal status; unknown ids count as non-terminal -/
def NonTerminal (o : Option WStatus) : Prop := o ≠ some .paid ∧ o ≠ some .canceled

/-- Summary of what a step did to the withdrawal table: it respects the edges, `P` are exactly the
    ids that newly became paid, `R` exactly those that newly became cancelled (each listed once),
    and no other id entered a terminal status. -/
def Trans (s s' : State) (P R : List Nat) : Prop :=
  Respects s s' ∧ P.Nodup ∧ R.Nodup ∧ (∀ id ∈ P, id ∉ R) ∧
  (∀ id ∈ P, NonTerminal (statusOf s id) ∧ statusOf s' id = some .paid) ∧
  (∀ id ∈ R, NonTerminal (statusOf s id) ∧ statusOf s' id = some .canceled) ∧
  (∀ id, id ∉ P → id ∉ R → (statusOf s' id = some .paid → statusOf s id = some .paid) ∧
                             (statusOf s' id = some .canceled → statusOf s id = some .canceled))

theorem Trans.respects {s s' : State} {P R : List Nat} (h : Trans s s' P R) : Respects s s' := h.1

theorem statusOf_congr {s t : State} (h : s.withdrawals = t.withdrawals) (id : Nat) : statusOf s id = statusOf t id := by
  unfold statusOf; rw [h]

/-- `Trans` only looks at the withdrawal tables -/
theorem Trans.congr {a b s s' : State} {P R : List Nat} (h : Trans a b P R)
    (h1 : s.withdrawals = a.withdrawals) (h2 : s'.withdrawals = b.withdrawals) : Trans s s' P R := by
  unfold Trans Respects at *
  simp only [statusOf_congr h1, statusOf_congr h2]
  exact h

theorem Trans.refl (s : State) : Trans s s [] [] := by
  refine ⟨Respects.refl s, List.nodup_nil, List.nodup_nil, ?_, ?_, ?_, ?_⟩
  · intro id h; cases h
  · intro id h; cases h
  · intro id h; cases h
  · intro id _ _; exact ⟨fun h => h, fun h => h⟩

theorem Trans.of_eq {s s' : State} (h : s'.withdrawals = s.withdrawals) : Trans s s' [] [] :=
  (Trans.refl s).congr rfl h

/-- a terminal status stays what it is along a respected step -/
theorem respects_paid {a b : State} (h : Respects a b) (id : Nat) (hp : statusOf a id = some .paid) :
    statusOf b id = some .paid := by
  obtain ⟨st', e, g⟩ := h id _ hp
  rw [e, terminal_absorbing _ _ g (Or.inl rfl)]

theorem respects_canceled {a b : State} (h : Respects a b) (id : Nat) (hp : statusOf a id = some .canceled) :
    statusOf b id = some .canceled := by
  obtain ⟨st', e, g⟩ := h id _ hp
  rw [e, terminal_absorbing _ _ g (Or.inr rfl)]

theorem nonTerminal_back {a b : State} (h : Respects a b) (id : Nat) (hn : NonTerminal (statusOf b id)) :
    NonTerminal (statusOf a id) :=
  ⟨fun hp => hn.1 (respects_paid h id hp), fun hc => hn.2 (respects_canceled h id hc)⟩

/-- sequential composition -/
theorem Trans.comp {a b c : State} {P1 R1 P2 R2 : List Nat} (h1 : Trans a b P1 R1) (h2 : Trans b c P2 R2) :
    Trans a c (P1 ++ P2) (R1 ++ R2) := by
  obtain ⟨r1, np1, nr1, d1, p1, c1, o1⟩ := h1
  obtain ⟨r2, np2, nr2, d2, p2, c2, o2⟩ := h2
  refine ⟨r1.trans r2, ?_, ?_, ?_, ?_, ?_, ?_⟩
  · rw [List.nodup_append]
    refine ⟨np1, np2, ?_⟩
    intro x hx y hy hxy
    subst hxy
    exact (p2 x hy).1.1 (p1 x hx).2
  · rw [List.nodup_append]
    refine ⟨nr1, nr2, ?_⟩
    intro x hx y hy hxy
    subst hxy
    exact (c2 x hy).1.2 (c1 x hx).2
  · intro id hp hr
    rw [List.mem_append] at hp hr
    rcases hp with hp | hp <;> rcases hr with hr | hr
    · exact d1 id hp hr
    · exact (c2 id hr).1.1 (p1 id hp).2
    · exact (p2 id hp).1.2 (c1 id hr).2
    · exact d2 id hp hr
  · intro id hp
    rw [List.mem_append] at hp
    rcases hp with hp | hp
    · exact ⟨(p1 id hp).1, respects_paid r2 id (p1 id hp).2⟩
    · exact ⟨nonTerminal_back r1 id (p2 id hp).1, (p2 id hp).2⟩
  · intro id hr
    rw [List.mem_append] at hr
    rcases hr with hr | hr
    · exact ⟨(c1 id hr).1, respects_canceled r2 id (c1 id hr).2⟩
    · exact ⟨nonTerminal_back r1 id (c2 id hr).1, (c2 id hr).2⟩
  · intro id hp hr
    rw [List.mem_append] at hp hr
    have hp1 : id ∉ P1 := fun h => hp (Or.inl h)
    have hp2 : id ∉ P2 := fun h => hp (Or.inr h)
    have hr1 : id ∉ R1 := fun h => hr (Or.inl h)
    have hr2 : id ∉ R2 := fun h => hr (Or.inr h)
    exact ⟨fun h => (o1 id hp1 hr1).1 ((o2 id hp2 hr2).1 h), fun h => (o1 id hp1 hr1).2 ((o2 id hp2 hr2).2 h)⟩

theorem Trans.comp_nil {a b c : State} {P R : List Nat} (h1 : Trans a b [] []) (h2 : Trans b c P R) : Trans a c P R := by
  simpa using h1.comp h2

theorem Trans.comp_nil_right {a b c : State} {P R : List Nat} (h1 : Trans a b P R) (h2 : Trans b c [] []) : Trans a c P R := by
  simpa using h1.comp h2

/-- status after a one-point update of the table -/
theorem statusOf_insert (s s1 : State) (id : Nat) (w' : Withdrawal) (hs1 : s1.withdrawals = ninsert s.withdrawals id w') (j : Nat) :
    statusOf s1 j = if id = j then some w'.status else statusOf s j := by
  unfold statusOf
  rw [hs1, nlookup_ninsert]
  by_cases h : id = j <;> simp [h]

/-- core one-point lemma: the table changes at `id` only, from `old` to `new` along an edge -/
theorem trans_point (s s1 : State) (id : Nat) (new : WStatus) (P R : List Nat)
    (hpt : ∀ j, statusOf s1 j = if id = j then some new else statusOf s j)
    (hedge : ∀ st, statusOf s id = some st → Edge st new)
    (hcls : (P = [id] ∧ R = [] ∧ new = .paid ∧ NonTerminal (statusOf s id)) ∨
            (P = [] ∧ R = [id] ∧ new = .canceled ∧ NonTerminal (statusOf s id)) ∨
            (P = [] ∧ R = [] ∧ (new = .paid → statusOf s id = some .paid) ∧ (new = .canceled → statusOf s id = some .canceled))) :
    Trans s s1 P R := by
  have hresp : Respects s s1 := by
    intro j st hj
    rw [hpt j]
    by_cases h : id = j
    · subst h
      simp only [if_true]
      exact ⟨new, rfl, hedge st hj⟩
    · simp only [h, if_false]
      exact ⟨st, hj, Or.inl rfl⟩
  have hother : ∀ j, j ≠ id → statusOf s1 j = statusOf s j := by
    intro j hj
    rw [hpt j]
    have : ¬ id = j := fun h => hj h.symm
    simp [this]
  have hself : statusOf s1 id = some new := by rw [hpt id]; simp
  rcases hcls with ⟨rfl, rfl, rfl, hn⟩ | ⟨rfl, rfl, rfl, hn⟩ | ⟨rfl, rfl, hp, hc⟩
  · refine ⟨hresp, by simp, by simp, by simp, ?_, by simp, ?_⟩
    · intro j hj
      simp only [List.mem_singleton] at hj
      subst hj
      exact ⟨hn, hself⟩
    · intro j hj _
      simp only [List.mem_singleton] at hj
      rw [hother j hj]
      exact ⟨fun h => h, fun h => h⟩
  · refine ⟨hresp, by simp, by simp, by simp, by simp, ?_, ?_⟩
    · intro j hj
      simp only [List.mem_singleton] at hj
      subst hj
      exact ⟨hn, hself⟩
    · intro j _ hj
      simp only [List.mem_singleton] at hj
      rw [hother j hj]
      exact ⟨fun h => h, fun h => h⟩
  · refine ⟨hresp, by simp, by simp, by simp, by simp, by simp, ?_⟩
    intro j _ _
    by_cases h : j = id
    · subst h
      rw [hself]
      constructor
      · intro e; exact hp (by simpa using e)
      · intro e; exact hc (by simpa using e)
    · rw [hother j h]
      exact ⟨fun h => h, fun h => h⟩

/-- an existing withdrawal is rewritten without entering a terminal status (or keeping its status) -/
theorem trans_update_same (s s1 : State) (id : Nat) (w w' : Withdrawal)
    (hw : nlookup s.withdrawals id = some w) (hs1 : s1.withdrawals = ninsert s.withdrawals id w')
    (he : Edge w.status w'.status)
    (hnt : w'.status = w.status ∨ (w'.status ≠ .paid ∧ w'.status ≠ .canceled)) : Trans s s1 [] [] := by
  have hst : statusOf s id = some w.status := by unfold statusOf; rw [hw]; rfl
  refine trans_point s s1 id w'.status [] [] (statusOf_insert s s1 id w' hs1) ?_ (Or.inr (Or.inr ⟨rfl, rfl, ?_, ?_⟩))
  · intro st h; rw [hst] at h; cases h; exact he
  · intro h
    rcases hnt with e | ⟨n, _⟩
    · rw [hst, ← e, h]
    · exact absurd h n
  · intro h
    rcases hnt with e | ⟨_, n⟩
    · rw [hst, ← e, h]
    · exact absurd h n

/-- an existing non-terminal withdrawal becomes paid -/
theorem trans_update_paid (s s1 : State) (id : Nat) (w w' : Withdrawal)
    (hw : nlookup s.withdrawals id = some w) (hs1 : s1.withdrawals = ninsert s.withdrawals id w')
    (he : Edge w.status w'.status) (hp : w'.status = .paid) (hn : w.status ≠ .paid ∧ w.status ≠ .canceled) :
    Trans s s1 [id] [] := by
  have hst : statusOf s id = some w.status := by unfold statusOf; rw [hw]; rfl
  refine trans_point s s1 id w'.status [id] [] (statusOf_insert s s1 id w' hs1) ?_ (Or.inl ⟨rfl, rfl, hp, ?_⟩)
  · intro st h; rw [hst] at h; cases h; exact he
  · rw [hst]; exact ⟨by simpa using hn.1, by simpa using hn.2⟩

/-- an existing non-terminal withdrawal becomes cancelled -/
theorem trans_update_canceled (s s1 : State) (id : Nat) (w w' : Withdrawal)
    (hw : nlookup s.withdrawals id = some w) (hs1 : s1.withdrawals = ninsert s.withdrawals id w')
    (he : Edge w.status w'.status) (hp : w'.status = .canceled) (hn : w.status ≠ .paid ∧ w.status ≠ .canceled) :
    Trans s s1 [] [id] := by
  have hst : statusOf s id = some w.status := by unfold statusOf; rw [hw]; rfl
  refine trans_point s s1 id w'.status [] [id] (statusOf_insert s s1 id w' hs1) ?_ (Or.inr (Or.inl ⟨rfl, rfl, hp, ?_⟩))
  · intro st h; rw [hst] at h; cases h; exact he
  · rw [hst]; exact ⟨by simpa using hn.1, by simpa using hn.2⟩

/-- a fresh id is created pending -/
theorem trans_create_pending (s s1 : State) (id : Nat) (w' : Withdrawal)
    (hw : nlookup s.withdrawals id = none) (hs1 : s1.withdrawals = ninsert s.withdrawals id w')
    (hp : w'.status = .pending) : Trans s s1 [] [] := by
  have hst : statusOf s id = none := by unfold statusOf; rw [hw]; rfl
  refine trans_point s s1 id w'.status [] [] (statusOf_insert s s1 id w' hs1) ?_ (Or.inr (Or.inr ⟨rfl, rfl, ?_, ?_⟩))
  · intro st h; rw [hst] at h; cases h
  · intro h; rw [hp] at h; cases h
  · intro h; rw [hp] at h; cases h

/-- a fresh id is created cancelled (refund at creation) -/
theorem trans_create_canceled (s s1 : State) (id : Nat) (w' : Withdrawal)
    (hw : nlookup s.withdrawals id = none) (hs1 : s1.withdrawals = ninsert s.withdrawals id w')
    (hp : w'.status = .canceled) : Trans s s1 [] [id] := by
  have hst : statusOf s id = none := by unfold statusOf; rw [hw]; rfl
  refine trans_point s s1 id w'.status [] [id] (statusOf_insert s s1 id w' hs1) ?_ (Or.inr (Or.inl ⟨rfl, rfl, hp, ?_⟩))
  · intro st h; rw [hst] at h; cases h
  · rw [hst]; exact ⟨by simp, by simp⟩

/-! ### edges used by the handlers -/
theorem edge_to_processing {a : WStatus} (h : a = .pending ∨ a = .canceling) : Edge a .processing := by
  unfold Edge
  rcases h with h | h
  · right; left; exact ⟨h, Or.inr (Or.inl rfl)⟩
  · right; right; left; exact ⟨h, Or.inl rfl⟩

theorem edge_processing_paid : Edge .processing .paid := by
  unfold Edge; right; right; right; exact ⟨rfl, rfl⟩

theorem edge_canceling_canceled : Edge .canceling .canceled := by
  unfold Edge; right; right; left; exact ⟨rfl, Or.inr (Or.inl rfl)⟩

theorem edge_pending_canceling : Edge .pending .canceling := by
  unfold Edge; right; left; exact ⟨rfl, Or.inl rfl⟩

theorem edge_refl (a : WStatus) : Edge a a := Or.inl rfl

/-! ### counting -/
theorem count_nodup_mem {l : List Nat} (h : l.Nodup) {a : Nat} (ha : a ∈ l) : l.count a = 1 := by
  have h1 := List.nodup_iff_count.mp h a
  have h2 := List.count_pos_iff.mpr ha
  omega

theorem count_not_mem {l : List Nat} {a : Nat} (ha : a ∉ l) : l.count a = 0 := List.count_eq_zero.mpr ha

end Goat.C05H
