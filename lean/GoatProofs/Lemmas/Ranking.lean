/-
  Lemmas for C13B (the operations between two EndBlockers re-establish `C13H.RankOk`):
    * `Inv now s`   the invariant of the locking state inside a block with time `now` (ranking = the
                    Active/Pending validators with positive power, recorded members not Pending and not
                    out of jail, sound locking index `IdxEntry`, `0 ≤ maxValidators`, `0 ≤ downtimeJail`)
    * two generic preservation principles: `Upd` / `inv_upd` (one validator record rewritten, its ranking
      entry re-filed) and `Equiv` / `inv_equiv` (nothing the invariant reads changes)
    * list-level facts about the ranking (`rankRemove`, `rankSet`), the locking index (`idxSet`,
      `idxRemove`, `slashAll`, the index loops of `lockOne`) and the keys of `Coins`
    * `Tr hash160 now s t`   what a successful operation guarantees (invariant again, recorded set and
      parameters untouched, consensus keys kept, addresses = hashes of keys), and `…_tr` for every
      operation: `lockOne`, `lock`, `unlockCore`, `unlockOne`, `unlock`, `onWeightChanged`, `updateTokens`,
      `handleVote`, `handleVotes`, `handleEvidence`, `create`, `processRequests`, `beginBlock`; `…_equiv`
      for `updateRewardPool`, `claim`, `distributeReward`, `dequeueMature`, `dequeue`, `enqueueUnlock`.
-/
import GoatModel.Locking
import GoatProofs.Lemmas.Locking
import GoatProofs.Lemmas.LockingConserve
namespace Goat.Ranking
open Goat Goat.Locking

/-- eligible for the validator set: Active or Pending -/
def Elig (v : Validator) : Prop := v.status = .active ∨ v.status = .pending

instance (v : Validator) : Decidable (Elig v) := by unfold Elig; exact inferInstance

theorem elig_of_status_eq {v w : Validator} (h : w.status = v.status) : Elig w ↔ Elig v := by
  unfold Elig; rw [h]

/-- what an entry `(d, ·) ↦ x` of the locking index must satisfy for its validator `v`: an Active/Pending
    validator holds the token when the entry is not zero; for any other validator the entry is a stale
    zero (slashing and exit remove the entries of all held tokens) and the validator has no power -/
def IdxEntry (v : Validator) (d : String) (x : Int) : Prop :=
  (Elig v ∧ (x ≠ 0 → d ∈ v.locking.map (·.1))) ∨ (¬ Elig v ∧ x = 0 ∧ v.power = 0)

theorem IdxEntry.key_of_elig {v : Validator} {d : String} {x : Int} (h : IdxEntry v d x) (he : Elig v) (hx : x ≠ 0) :
    d ∈ v.locking.map (·.1) := by
  rcases h with ⟨_, hk⟩ | ⟨hne, _⟩
  · exact hk hx
  · exact absurd he hne

theorem IdxEntry.zero_of_inelig {v : Validator} {d : String} {x : Int} (h : IdxEntry v d x) (hne : ¬ Elig v) :
    x = 0 ∧ v.power = 0 := by
  rcases h with ⟨he, _⟩ | ⟨_, hz⟩
  · exact absurd he hne
  · exact hz

/-- **The invariant of the locking state between two EndBlockers** of a block with time `now`.
    The first three fields are `rank_nodup`, `rank_rec`, `rank_complete` of `C13H.RankOk`; then the
    recorded set (written by EndBlocker only); `member_status` is the in-block form of `pending_out`
    (a member jailed in this block's BeginBlock is still recorded and must not be re-locked to Pending
    before EndBlocker removes it); `idx_ok` is what `onWeightChanged` relies on (it re-ranks every
    holder of the token *without looking at the status*). -/
structure Inv (now : Int) (s : State) : Prop where
  rank_nodup : (s.ranking.map (·.2)).Nodup
  rank_rec : ∀ p a, (p, a) ∈ s.ranking → ∃ v, vget s a = some v ∧ v.power = p ∧ 0 < p ∧ Elig v
  rank_complete : ∀ a v, vget s a = some v → Elig v → 0 < v.power → (v.power, a) ∈ s.ranking
  valset_nodup : (s.valset.map (·.1)).Nodup
  valset_rec : ∀ a, a ∈ s.valset.map (·.1) → ∃ v, vget s a = some v
  /-- a recorded member is not Pending, and when it is jailed (Downgrade) the jail has not ended -/
  member_status : ∀ a v, a ∈ s.valset.map (·.1) → vget s a = some v →
    v.status ≠ .pending ∧ (v.status = .downgrade → now ≤ v.jailedUntil)
  /-- every entry of the locking index belongs to a validator record and is sound for it (`IdxEntry`) -/
  idx_ok : ∀ d a x, ((d, a), x) ∈ s.lockingIdx → ∃ v, vget s a = some v ∧ IdxEntry v d x
  max_nonneg : 0 ≤ s.params.maxValidators
  /-- the jail period is not negative (the Go parameter validation demands at least a minute) -/
  jail_nonneg : 0 ≤ s.params.downtimeJail

/-! ### ranking as a list -/

theorem mem_rankSet_iff (s : State) (p : Nat) (a : Bytes) (e : Nat × Bytes) :
    e ∈ (rankSet s p a).ranking ↔ e ∈ s.ranking ∨ e = (p, a) := by
  unfold rankSet
  split
  · rename_i h
    constructor
    · exact Or.inl
    · rintro (h1 | h1)
      · exact h1
      · obtain ⟨x, hx, hxe⟩ := List.any_eq_true.mp h
        have : x = (p, a) := by
          obtain ⟨x1, x2⟩ := x
          simp only [Bool.and_eq_true, beq_iff_eq] at hxe
          rw [hxe.1, hxe.2]
        rw [h1, ← this]; exact hx
  · simp

/-- un-ranking an address whose only possible entry carries power `p` -/
theorem rankRemove_eq_filter (s : State) (p : Nat) (a : Bytes) (h : ∀ q, (q, a) ∈ s.ranking → q = p) :
    (rankRemove s p a).ranking = s.ranking.filter (fun e => e.2 != a) := by
  unfold rankRemove
  apply List.filter_congr
  intro e he
  obtain ⟨q, b⟩ := e
  by_cases hb : b = a
  · subst hb
    have := h q he
    subst this
    simp
  · have h1 : (b == a) = false := by simpa using hb
    have h2 : (b != a) = true := by simpa using hb
    simp only [h1, h2, Bool.and_false, Bool.not_false]

theorem rankSet_fresh (s : State) (p : Nat) (a : Bytes) (h : ∀ e ∈ s.ranking, e.2 ≠ a) :
    (rankSet s p a).ranking = s.ranking ++ [(p, a)] := by
  unfold rankSet
  have : s.ranking.any (fun e => e.1 == p && e.2 == a) = false := by
    rw [List.any_eq_false]
    intro e he
    have := h e he
    simp [this]
  rw [this]
  rfl

@[simp] theorem rankSet_valset (s : State) (p : Nat) (a : Bytes) : (rankSet s p a).valset = s.valset := by
  unfold rankSet; split <;> rfl
@[simp] theorem rankSet_params (s : State) (p : Nat) (a : Bytes) : (rankSet s p a).params = s.params := by
  unfold rankSet; split <;> rfl
@[simp] theorem rankSet_lockingIdx (s : State) (p : Nat) (a : Bytes) : (rankSet s p a).lockingIdx = s.lockingIdx := by
  unfold rankSet; split <;> rfl
@[simp] theorem vset_lockingIdx (s : State) (a : Bytes) (v : Validator) : (vset s a v).lockingIdx = s.lockingIdx := by
  unfold vset; rfl

theorem filter_ne_addr (l : List (Nat × Bytes)) (a : Bytes) : ∀ e ∈ l.filter (fun e => e.2 != a), e.2 ≠ a := by
  intro e he
  simpa using (List.mem_filter.mp he).2

/-! ### the state up to what the invariant reads -/

/-- `t` is `s` with the address `a` un-ranked; the fields the invariant does not read are arbitrary -/
structure Base (s t : State) (a : Bytes) : Prop where
  validators : t.validators = s.validators
  valset : t.valset = s.valset
  params : t.params = s.params
  ranking : t.ranking = s.ranking.filter (fun e => e.2 != a)

/-- same validators, ranking, recorded set and parameters -/
structure Same (s t : State) : Prop where
  validators : t.validators = s.validators
  valset : t.valset = s.valset
  params : t.params = s.params
  ranking : t.ranking = s.ranking

theorem Same.refl (s : State) : Same s s := ⟨rfl, rfl, rfl, rfl⟩
theorem Same.trans {a b c : State} (h1 : Same a b) (h2 : Same b c) : Same a c :=
  ⟨h2.validators.trans h1.validators, h2.valset.trans h1.valset, h2.params.trans h1.params, h2.ranking.trans h1.ranking⟩
theorem Base.same {s t u : State} {a : Bytes} (h1 : Base s t a) (h2 : Same t u) : Base s u a :=
  ⟨h2.validators.trans h1.validators, h2.valset.trans h1.valset, h2.params.trans h1.params, h2.ranking.trans h1.ranking⟩

theorem same_idxSet (s : State) (d : String) (a : Bytes) (x : Int) : Same s (idxSet s d a x) := ⟨rfl, rfl, rfl, rfl⟩
theorem same_idxRemove (s : State) (d : String) (a : Bytes) : Same s (idxRemove s d a) := ⟨rfl, rfl, rfl, rfl⟩
theorem same_slashedAdd (s : State) (d : String) (x : Int) : Same s (slashedAdd s d x) := ⟨rfl, rfl, rfl, rfl⟩

section
variable {now : Int} {s : State}

theorem Inv.rank_power (h : Inv now s) {a : Bytes} {v : Validator} (hv : vget s a = some v) {q : Nat}
    (hq : (q, a) ∈ s.ranking) : q = v.power := by
  obtain ⟨w, hw, hp, _, _⟩ := h.rank_rec q a hq
  rw [hv] at hw
  cases hw
  exact hp.symm

theorem Inv.idx_entry (h : Inv now s) {a : Bytes} {v : Validator} (hv : vget s a = some v) {d : String} {x : Int}
    (hm : ((d, a), x) ∈ s.lockingIdx) : IdxEntry v d x := by
  obtain ⟨w, hw, r⟩ := h.idx_ok d a x hm
  rw [hv] at hw
  cases hw
  exact r

/-- un-ranking a validator with its current power removes every entry of its address -/
theorem Inv.base_rankRemove (h : Inv now s) {a : Bytes} {v : Validator} (hv : vget s a = some v) :
    Base s (rankRemove s v.power a) a :=
  ⟨rfl, rfl, rfl, rankRemove_eq_filter s v.power a (fun _ hq => h.rank_power hv hq)⟩

/-- an address that is not ranked -/
theorem base_self (hno : ∀ p, (p, a) ∉ s.ranking) : Base s s a := by
  refine ⟨rfl, rfl, rfl, ?_⟩
  symm
  rw [List.filter_eq_self]
  intro e he
  obtain ⟨q, b⟩ := e
  have : b ≠ a := fun hb => hno q (hb ▸ he)
  simp [this]

theorem Inv.not_ranked_of_inelig (h : Inv now s) {a : Bytes} {v : Validator} (hv : vget s a = some v)
    (hne : ¬ Elig v) : ∀ p, (p, a) ∉ s.ranking := by
  intro p hp
  obtain ⟨w, hw, _, _, he⟩ := h.rank_rec p a hp
  rw [hv] at hw
  cases hw
  exact hne he

theorem Inv.not_ranked_of_none (h : Inv now s) {a : Bytes} (hv : vget s a = none) : ∀ p, (p, a) ∉ s.ranking := by
  intro p hp
  obtain ⟨w, hw, _⟩ := h.rank_rec p a hp
  rw [hv] at hw
  cases hw

end

/-! ### one record rewritten -/

/-- `t` is `s` with the record of `a` replaced by `v'` and the ranking entry of `a` re-filed: removed,
    and appended again iff `v'` is Active/Pending with positive power -/
structure Upd (s t : State) (a : Bytes) (v' : Validator) : Prop where
  get_same : vget t a = some v'
  get_other : ∀ b, b ≠ a → vget t b = vget s b
  valset : t.valset = s.valset
  params : t.params = s.params
  ranking : t.ranking = s.ranking.filter (fun e => e.2 != a) ++
    (if 0 < v'.power ∧ Elig v' then [(v'.power, a)] else [])

theorem upd_vset {s s2 : State} {a : Bytes} {v' : Validator} (hb : Base s s2 a) (hne : ¬ (0 < v'.power ∧ Elig v')) :
    Upd s (vset s2 a v') a v' := by
  refine ⟨vget_vset_same _ _ _, ?_, by rw [vset_valset, hb.valset], by rw [vset_params, hb.params], ?_⟩
  · intro b hba
    rw [vget_vset_other _ _ _ _ (Ne.symm hba)]
    exact vget_congr _ _ hb.validators b
  · rw [vset_ranking, hb.ranking, if_neg hne, List.append_nil]

theorem upd_rank_vset {s s2 : State} {a : Bytes} {v' : Validator} (hb : Base s s2 a) (hp : 0 < v'.power) (he : Elig v') :
    Upd s (vset (rankSet s2 v'.power a) a v') a v' := by
  refine ⟨vget_vset_same _ _ _, ?_, by rw [vset_valset, rankSet_valset, hb.valset],
    by rw [vset_params, rankSet_params, hb.params], ?_⟩
  · intro b hba
    rw [vget_vset_other _ _ _ _ (Ne.symm hba)]
    exact vget_congr _ _ ((rankSet_validators _ _ _).trans hb.validators) b
  · rw [vset_ranking, rankSet_fresh _ _ _ (by rw [hb.ranking]; exact filter_ne_addr _ _), hb.ranking, if_pos ⟨hp, he⟩]

theorem upd_vset_rank {s s2 : State} {a : Bytes} {v' : Validator} (hb : Base s s2 a) (hp : 0 < v'.power) (he : Elig v') :
    Upd s (rankSet (vset s2 a v') v'.power a) a v' := by
  have hr : (vset s2 a v').ranking = s.ranking.filter (fun e => e.2 != a) := by rw [vset_ranking, hb.ranking]
  refine ⟨?_, ?_, by rw [rankSet_valset, vset_valset, hb.valset], by rw [rankSet_params, vset_params, hb.params], ?_⟩
  · rw [vget_congr _ _ (rankSet_validators _ _ _)]
    exact vget_vset_same _ _ _
  · intro b hba
    rw [vget_congr _ _ (rankSet_validators _ _ _), vget_vset_other _ _ _ _ (Ne.symm hba)]
    exact vget_congr _ _ hb.validators b
  · rw [rankSet_fresh _ _ _ (by rw [hr]; exact filter_ne_addr _ _), hr, if_pos ⟨hp, he⟩]

/-- the two shapes `if p > 0 then rankSet … else …` of the model, in one statement each -/
theorem upd_rank_ite_vset {s s2 : State} {a : Bytes} {v' : Validator} (hb : Base s s2 a) (he : Elig v') :
    Upd s (vset (if v'.power > 0 then rankSet s2 v'.power a else s2) a v') a v' := by
  by_cases hp : v'.power > 0
  · rw [if_pos hp]; exact upd_rank_vset hb hp he
  · rw [if_neg hp]; exact upd_vset hb (fun h => hp h.1)

theorem upd_vset_rank_ite {s s2 : State} {a : Bytes} {v' : Validator} (hb : Base s s2 a)
    (he : 0 < v'.power → Elig v') :
    Upd s (if v'.power > 0 then rankSet (vset s2 a v') v'.power a else vset s2 a v') a v' := by
  by_cases hp : v'.power > 0
  · rw [if_pos hp]; exact upd_vset_rank hb hp (he hp)
  · rw [if_neg hp]; exact upd_vset hb (fun h => hp h.1)

/-- **preservation by a single-record update** -/
theorem inv_upd {now : Int} {s t : State} {a : Bytes} {v' : Validator} (h : Inv now s) (hu : Upd s t a v')
    (hm : a ∈ s.valset.map (·.1) → v'.status ≠ .pending ∧ (v'.status = .downgrade → now ≤ v'.jailedUntil))
    (hidx_other : ∀ d b x, b ≠ a → ((d, b), x) ∈ t.lockingIdx → ((d, b), x) ∈ s.lockingIdx)
    (hidx_same : ∀ d x, ((d, a), x) ∈ t.lockingIdx → IdxEntry v' d x) :
    Inv now t := by
  have hmemF : ∀ p b, (p, b) ∈ s.ranking.filter (fun e => e.2 != a) ↔ (p, b) ∈ s.ranking ∧ b ≠ a := by
    intro p b
    rw [List.mem_filter]
    simp
  refine ⟨?_, ?_, ?_, by rw [hu.valset]; exact h.valset_nodup, ?_, ?_, ?_, by rw [hu.params]; exact h.max_nonneg,
    by rw [hu.params]; exact h.jail_nonneg⟩
  · rw [hu.ranking, List.map_append, List.nodup_append]
    refine ⟨List.Nodup.sublist (List.filter_sublist.map _) h.rank_nodup, ?_, ?_⟩
    · split <;> simp
    · intro x hx y hy hxy
      obtain ⟨e, he, rfl⟩ := List.mem_map.mp hx
      have hne := filter_ne_addr _ _ e he
      split at hy
      · simp only [List.map_cons, List.map_nil, List.mem_singleton] at hy
        exact hne (hxy.trans hy)
      · simp at hy
  · intro p b hm'
    rw [hu.ranking, List.mem_append] at hm'
    rcases hm' with hm' | hm'
    · obtain ⟨h1, h2⟩ := (hmemF p b).mp hm'
      obtain ⟨v, hv, r⟩ := h.rank_rec p b h1
      exact ⟨v, by rw [hu.get_other b h2]; exact hv, r⟩
    · split at hm'
      · rename_i hc
        simp only [List.mem_singleton, Prod.mk.injEq] at hm'
        obtain ⟨rfl, rfl⟩ := hm'
        exact ⟨v', hu.get_same, rfl, hc.1, hc.2⟩
      · simp at hm'
  · intro b w hw he hpos
    rw [hu.ranking, List.mem_append]
    by_cases hb : b = a
    · subst hb
      rw [hu.get_same] at hw
      cases hw
      right
      rw [if_pos ⟨hpos, he⟩]
      simp
    · left
      rw [hu.get_other b hb] at hw
      exact (hmemF _ _).mpr ⟨h.rank_complete b w hw he hpos, hb⟩
  · intro b hb
    rw [hu.valset] at hb
    by_cases hba : b = a
    · subst hba; exact ⟨v', hu.get_same⟩
    · rw [hu.get_other b hba]; exact h.valset_rec b hb
  · intro b w hb hw
    rw [hu.valset] at hb
    by_cases hba : b = a
    · subst hba
      rw [hu.get_same] at hw
      cases hw
      exact hm hb
    · rw [hu.get_other b hba] at hw
      exact h.member_status b w hb hw
  · intro d b x hmem
    by_cases hba : b = a
    · subst hba
      exact ⟨v', hu.get_same, hidx_same d x hmem⟩
    · obtain ⟨v, hv, r⟩ := h.idx_ok d b x (hidx_other d b x hba hmem)
      exact ⟨v, by rw [hu.get_other b hba]; exact hv, r⟩

/-! ### nothing the invariant reads changes -/

/-- the fields of a record the invariant (and the consensus key bookkeeping) reads -/
def SameCore (v w : Validator) : Prop :=
  w.pubkey = v.pubkey ∧ w.power = v.power ∧ w.status = v.status ∧ w.jailedUntil = v.jailedUntil ∧ w.locking = v.locking

theorem SameCore.refl (v : Validator) : SameCore v v := ⟨rfl, rfl, rfl, rfl, rfl⟩
theorem SameCore.trans {a b c : Validator} (h1 : SameCore a b) (h2 : SameCore b c) : SameCore a c :=
  ⟨h2.1.trans h1.1, h2.2.1.trans h1.2.1, h2.2.2.1.trans h1.2.2.1, h2.2.2.2.1.trans h1.2.2.2.1, h2.2.2.2.2.trans h1.2.2.2.2⟩
theorem SameCore.symm {a b : Validator} (h : SameCore a b) : SameCore b a :=
  ⟨h.1.symm, h.2.1.symm, h.2.2.1.symm, h.2.2.2.1.symm, h.2.2.2.2.symm⟩
theorem SameCore.elig {v w : Validator} (h : SameCore v w) : Elig w ↔ Elig v := elig_of_status_eq h.2.2.1

structure Equiv (s t : State) : Prop where
  fwd : ∀ b v, vget s b = some v → ∃ w, vget t b = some w ∧ SameCore v w
  bwd : ∀ b w, vget t b = some w → ∃ v, vget s b = some v ∧ SameCore v w
  valset : t.valset = s.valset
  params : t.params = s.params
  ranking : t.ranking = s.ranking
  lockingIdx : t.lockingIdx = s.lockingIdx

theorem Equiv.refl (s : State) : Equiv s s :=
  ⟨fun _ v hv => ⟨v, hv, SameCore.refl v⟩, fun _ w hw => ⟨w, hw, SameCore.refl w⟩, rfl, rfl, rfl, rfl⟩

theorem Equiv.trans {a b c : State} (h1 : Equiv a b) (h2 : Equiv b c) : Equiv a c := by
  refine ⟨?_, ?_, h2.valset.trans h1.valset, h2.params.trans h1.params, h2.ranking.trans h1.ranking,
    h2.lockingIdx.trans h1.lockingIdx⟩
  · intro x v hv
    obtain ⟨w, hw, c1⟩ := h1.fwd x v hv
    obtain ⟨u, hu, c2⟩ := h2.fwd x w hw
    exact ⟨u, hu, c1.trans c2⟩
  · intro x u hu
    obtain ⟨w, hw, c2⟩ := h2.bwd x u hu
    obtain ⟨v, hv, c1⟩ := h1.bwd x w hw
    exact ⟨v, hv, c1.trans c2⟩

/-- only fields outside validators / ranking / recorded set / parameters / locking index differ -/
theorem equiv_of_fields {s t : State} (h1 : t.validators = s.validators) (h2 : t.valset = s.valset)
    (h3 : t.params = s.params) (h4 : t.ranking = s.ranking) (h5 : t.lockingIdx = s.lockingIdx) : Equiv s t := by
  refine ⟨?_, ?_, h2, h3, h4, h5⟩
  · intro b v hv
    exact ⟨v, by rw [vget_congr _ _ h1 b]; exact hv, SameCore.refl v⟩
  · intro b w hw
    exact ⟨w, by rw [← vget_congr _ _ h1 b]; exact hw, SameCore.refl w⟩

/-- a record rewritten in fields the invariant does not read (rewards, counters) -/
theorem equiv_vset {s : State} {a : Bytes} {v w : Validator} (hv : vget s a = some v) (hc : SameCore v w) :
    Equiv s (vset s a w) := by
  refine ⟨?_, ?_, vset_valset _ _ _, vset_params _ _ _, vset_ranking _ _ _, vset_lockingIdx _ _ _⟩
  · intro b u hu
    by_cases hb : b = a
    · subst hb
      rw [hv] at hu
      cases hu
      exact ⟨w, vget_vset_same _ _ _, hc⟩
    · exact ⟨u, by rw [vget_vset_other _ _ _ _ (Ne.symm hb)]; exact hu, SameCore.refl u⟩
  · intro b u hu
    by_cases hb : b = a
    · subst hb
      rw [vget_vset_same] at hu
      cases hu
      exact ⟨v, hv, hc⟩
    · rw [vget_vset_other _ _ _ _ (Ne.symm hb)] at hu
      exact ⟨u, hu, SameCore.refl u⟩

/-- **preservation by an invisible change** -/
theorem inv_equiv {now : Int} {s t : State} (h : Inv now s) (he : Equiv s t) : Inv now t := by
  refine ⟨by rw [he.ranking]; exact h.rank_nodup, ?_, ?_, by rw [he.valset]; exact h.valset_nodup, ?_, ?_, ?_,
    by rw [he.params]; exact h.max_nonneg, by rw [he.params]; exact h.jail_nonneg⟩
  · intro p a hm
    rw [he.ranking] at hm
    obtain ⟨v, hv, hp, hpos, hel⟩ := h.rank_rec p a hm
    obtain ⟨w, hw, c⟩ := he.fwd a v hv
    exact ⟨w, hw, c.2.1.trans hp, hpos, c.elig.mpr hel⟩
  · intro a w hw hel hpos
    obtain ⟨v, hv, c⟩ := he.bwd a w hw
    rw [he.ranking, c.2.1]
    exact h.rank_complete a v hv (c.elig.mp hel) (c.2.1 ▸ hpos)
  · intro a ha
    rw [he.valset] at ha
    obtain ⟨v, hv⟩ := h.valset_rec a ha
    obtain ⟨w, hw, _⟩ := he.fwd a v hv
    exact ⟨w, hw⟩
  · intro a w ha hw
    rw [he.valset] at ha
    obtain ⟨v, hv, c⟩ := he.bwd a w hw
    have := h.member_status a v ha hv
    rw [c.2.2.1, c.2.2.2.1]
    exact this
  · intro d a x hm
    rw [he.lockingIdx] at hm
    obtain ⟨v, hv, r⟩ := h.idx_ok d a x hm
    obtain ⟨w, hw, c⟩ := he.fwd a v hv
    refine ⟨w, hw, ?_⟩
    rcases r with ⟨hel, hk⟩ | ⟨hne, hx, hp⟩
    · exact Or.inl ⟨c.elig.mpr hel, by rw [c.2.2.2.2]; exact hk⟩
    · exact Or.inr ⟨fun x => hne (c.elig.mp x), hx, by rw [c.2.1]; exact hp⟩

/-! ### the locking index as a list -/

theorem mem_idxSet_iff (s : State) (d : String) (a : Bytes) (x : Int) (e : (String × Bytes) × Int) :
    e ∈ (idxSet s d a x).lockingIdx ↔ (e ∈ s.lockingIdx ∧ ¬ (e.1.1 = d ∧ e.1.2 = a)) ∨ e = ((d, a), x) := by
  unfold idxSet
  simp only [List.mem_append, List.mem_filter, List.mem_singleton, Bool.not_eq_true', Bool.and_eq_false_imp,
    beq_iff_eq, beq_eq_false_iff_ne, ne_eq]
  constructor
  · rintro (⟨h1, h2⟩ | h1)
    · exact Or.inl ⟨h1, fun hc => h2 hc.1 hc.2⟩
    · exact Or.inr h1
  · rintro (⟨h1, h2⟩ | h1)
    · exact Or.inl ⟨h1, fun c1 c2 => h2 ⟨c1, c2⟩⟩
    · exact Or.inr h1

theorem mem_idxRemove_iff (s : State) (d : String) (a : Bytes) (e : (String × Bytes) × Int) :
    e ∈ (idxRemove s d a).lockingIdx ↔ e ∈ s.lockingIdx ∧ ¬ (e.1.1 = d ∧ e.1.2 = a) := by
  unfold idxRemove
  simp only [List.mem_filter, Bool.not_eq_true', Bool.and_eq_false_imp, beq_iff_eq, beq_eq_false_iff_ne, ne_eq]
  constructor
  · rintro ⟨h1, h2⟩
    exact ⟨h1, fun hc => h2 hc.1 hc.2⟩
  · rintro ⟨h1, h2⟩
    exact ⟨h1, fun c1 c2 => h2 ⟨c1, c2⟩⟩

theorem mem_foldl_idxRemove (a : Bytes) (cs : Coins) (st : State) (e : (String × Bytes) × Int) :
    e ∈ (cs.foldl (fun s c => idxRemove s c.1 a) st).lockingIdx ↔
      e ∈ st.lockingIdx ∧ ¬ (e.1.2 = a ∧ e.1.1 ∈ cs.map (·.1)) := by
  induction cs generalizing st with
  | nil => simp
  | cons c cs ih =>
    rw [List.foldl_cons, ih, mem_idxRemove_iff]
    simp only [List.map_cons, List.mem_cons]
    constructor
    · rintro ⟨⟨h1, h2⟩, h3⟩
      refine ⟨h1, ?_⟩
      rintro ⟨c1, c2 | c2⟩
      · exact h2 ⟨c2, c1⟩
      · exact h3 ⟨c1, c2⟩
    · rintro ⟨h1, h2⟩
      exact ⟨⟨h1, fun hc => h2 ⟨hc.2, Or.inl hc.1⟩⟩, fun hc => h2 ⟨hc.1, Or.inr hc.2⟩⟩

theorem same_foldl_idxRemove (a : Bytes) (cs : Coins) (st : State) :
    Same st (cs.foldl (fun s c => idxRemove s c.1 a) st) := by
  induction cs generalizing st with
  | nil => exact Same.refl _
  | cons c cs ih => rw [List.foldl_cons]; exact (same_idxRemove _ _ _).trans (ih _)

/-- slashing removes the index entries of every held coin and touches nothing else the invariant reads -/
theorem slashStep_same (addr : Bytes) (frac : Nat) (acc : State × Coins) (c : String × Int) :
    Same acc.1 (slashStep addr frac acc c).1 ∧
    (slashStep addr frac acc c).1.lockingIdx = (idxRemove acc.1 c.1 addr).lockingIdx := by
  unfold slashStep
  by_cases hz : ((slashAmount c.2.toNat frac : Nat) : Int) = 0
  · simp only [hz, if_true]
    exact ⟨(same_idxRemove _ _ _).trans (same_slashedAdd _ _ _), rfl⟩
  · simp only [hz, if_false]
    exact ⟨(same_idxRemove _ _ _).trans (same_slashedAdd _ _ _), rfl⟩

theorem slashFold_spec (addr : Bytes) (frac : Nat) (cs : Coins) (acc : State × Coins) :
    Same acc.1 (cs.foldl (slashStep addr frac) acc).1 ∧
    ∀ e, e ∈ (cs.foldl (slashStep addr frac) acc).1.lockingIdx ↔
      e ∈ acc.1.lockingIdx ∧ ¬ (e.1.2 = addr ∧ e.1.1 ∈ cs.map (·.1)) := by
  induction cs generalizing acc with
  | nil => exact ⟨Same.refl _, by simp⟩
  | cons c cs ih =>
    rw [List.foldl_cons]
    obtain ⟨h1, h2⟩ := ih (slashStep addr frac acc c)
    obtain ⟨k1, k2⟩ := slashStep_same addr frac acc c
    refine ⟨k1.trans h1, ?_⟩
    intro e
    rw [h2 e, k2, mem_idxRemove_iff]
    simp only [List.map_cons, List.mem_cons]
    constructor
    · rintro ⟨⟨h1, h2⟩, h3⟩
      refine ⟨h1, ?_⟩
      rintro ⟨c1, c2 | c2⟩
      · exact h2 ⟨c2, c1⟩
      · exact h3 ⟨c1, c2⟩
    · rintro ⟨h1, h2⟩
      exact ⟨⟨h1, fun hc => h2 ⟨hc.2, Or.inl hc.1⟩⟩, fun hc => h2 ⟨hc.1, Or.inr hc.2⟩⟩

theorem slashAll_spec (s : State) (addr : Bytes) (v : Validator) (frac : Nat) :
    Same s (slashAll s addr v frac).1 ∧
    ∀ e, e ∈ (slashAll s addr v frac).1.lockingIdx ↔
      e ∈ s.lockingIdx ∧ ¬ (e.1.2 = addr ∧ e.1.1 ∈ v.locking.map (·.1)) := by
  unfold slashAll
  exact slashFold_spec addr frac v.locking (s, [])

/-- a fold of index writes for one address (the loops of `lockOne`): the other fields are untouched,
    every final index entry is an old one that was not overwritten, or one of the writes -/
theorem idxSet_fold {f : State × Nat → String × Int → Outcome (State × Nat)} {addr : Bytes} {X : String × Int → Int}
    (hstep : ∀ acc c acc', f acc c = .ok acc' → acc'.1 = idxSet acc.1 c.1 addr (X c)) :
    ∀ (coins : Coins) (acc acc' : State × Nat), coins.foldlM f acc = .ok acc' →
      Same acc.1 acc'.1 ∧
      ∀ e ∈ acc'.1.lockingIdx,
        (e ∈ acc.1.lockingIdx ∧ ¬ (e.1.2 = addr ∧ e.1.1 ∈ coins.map (·.1))) ∨ ∃ c ∈ coins, e = ((c.1, addr), X c) := by
  intro coins
  induction coins with
  | nil =>
    intro acc acc' h
    rw [foldlM_nil_ok f acc acc' h]
    exact ⟨Same.refl _, fun e he => Or.inl ⟨he, by simp⟩⟩
  | cons c cs ih =>
    intro acc acc' h
    obtain ⟨acc1, h1, h2⟩ := foldlM_cons_ok f c cs acc acc' h
    obtain ⟨k1, k2⟩ := ih acc1 acc' h2
    have hs := hstep acc c acc1 h1
    refine ⟨?_, ?_⟩
    · have : Same acc.1 acc1.1 := by rw [hs]; exact same_idxSet _ _ _ _
      exact this.trans k1
    · intro e he
      rcases k2 e he with ⟨m1, m2⟩ | ⟨c', hc', rfl⟩
      · rw [hs, mem_idxSet_iff] at m1
        rcases m1 with ⟨m1, m3⟩ | rfl
        · left
          refine ⟨m1, ?_⟩
          simp only [List.map_cons, List.mem_cons]
          rintro ⟨c1, c2 | c2⟩
          · exact m3 ⟨c2, c1⟩
          · exact m2 ⟨c1, c2⟩
        · right
          exact ⟨c, List.mem_cons_self, rfl⟩
      · right
        exact ⟨c', List.mem_cons_of_mem _ hc', rfl⟩

/-! ### keys of `Coins` -/

theorem mem_keys_of_amountOf_ne_zero {c : Coins} {d : String} (h : amountOf c d ≠ 0) : d ∈ c.map (·.1) := by
  unfold amountOf at h
  cases hf : c.find? (·.1 == d) with
  | none => rw [hf] at h; simp at h
  | some e =>
    have hm := List.mem_of_find?_eq_some hf
    have hk : e.1 = d := by simpa using List.find?_some hf
    exact List.mem_map.mpr ⟨e, hm, hk⟩

theorem mem_keys_setAmount_other {c : Coins} {d d' : String} (a : Int) (hd : d' ≠ d) (h : d' ∈ c.map (·.1)) :
    d' ∈ (setAmount c d a).map (·.1) := by
  obtain ⟨e, he, hk⟩ := List.mem_map.mp h
  have hrest : e ∈ c.filter (·.1 != d) := by
    rw [List.mem_filter]
    refine ⟨he, ?_⟩
    have : e.1 ≠ d := by rw [hk]; exact hd
    simpa using this
  unfold setAmount
  by_cases ha : a = 0
  · simp only [ha, if_true]
    exact List.mem_map.mpr ⟨e, hrest, hk⟩
  · simp only [ha, if_false]
    exact List.mem_map.mpr ⟨e, (mem_ins d a _ e).mpr (Or.inr hrest), hk⟩

theorem mem_keys_addCoins {c cs : Coins} {d' : String} (hd : d' ∉ cs.map (·.1)) (h : d' ∈ c.map (·.1)) :
    d' ∈ (addCoins c cs).map (·.1) := by
  unfold addCoins
  induction cs generalizing c with
  | nil => exact h
  | cons x xs ih =>
    rw [List.foldl_cons]
    simp only [List.map_cons, List.mem_cons, not_or] at hd
    apply ih hd.2
    unfold addCoin
    exact mem_keys_setAmount_other _ hd.1 h

/-! ### transitions: what is carried through the composite operations -/

/-- the address of a validator is the hash of its consensus key (how `create` files it) -/
def KeyOk (hash160 : Bytes → Bytes) (s : State) : Prop := ∀ a v, vget s a = some v → hash160 v.pubkey = a

/-- summary of a successful operation from a state satisfying `Inv now`: the invariant holds again,
    the recorded set and the parameters are untouched, no record disappears or changes its consensus
    key, and addresses stay hashes of keys -/
structure Tr (hash160 : Bytes → Bytes) (now : Int) (s t : State) : Prop where
  inv : Inv now t
  valset : t.valset = s.valset
  params : t.params = s.params
  pk : ∀ b v, vget s b = some v → ∃ w, vget t b = some w ∧ w.pubkey = v.pubkey
  key : KeyOk hash160 s → KeyOk hash160 t

theorem Tr.refl (hash160 : Bytes → Bytes) {now : Int} {s : State} (h : Inv now s) : Tr hash160 now s s :=
  ⟨h, rfl, rfl, fun _ v hv => ⟨v, hv, rfl⟩, id⟩

theorem Tr.trans {hash160 : Bytes → Bytes} {now : Int} {a b c : State} (h1 : Tr hash160 now a b) (h2 : Tr hash160 now b c) :
    Tr hash160 now a c := by
  refine ⟨h2.inv, h2.valset.trans h1.valset, h2.params.trans h1.params, ?_, fun hk => h2.key (h1.key hk)⟩
  intro x v hv
  obtain ⟨w, hw, e1⟩ := h1.pk x v hv
  obtain ⟨u, hu, e2⟩ := h2.pk x w hw
  exact ⟨u, hu, e2.trans e1⟩

/-- a successful fold of operations each of which is a transition -/
theorem tr_foldlM {α : Type} (hash160 : Bytes → Bytes) (now : Int) (f : State → α → Outcome State)
    (hf : ∀ b x b', Inv now b → f b x = .ok b' → Tr hash160 now b b') (l : List α) (s t : State)
    (h : Inv now s) (he : l.foldlM f s = .ok t) : Tr hash160 now s t := by
  refine foldlM_inv (fun b => Tr hash160 now s b) f ?_ l s t (Tr.refl hash160 h) he
  intro b x b' hb hstep
  exact hb.trans (hf b x b' hb.inv hstep)

theorem tr_of_equiv (hash160 : Bytes → Bytes) {now : Int} {s t : State} (h : Inv now s) (he : Equiv s t) :
    Tr hash160 now s t := by
  refine ⟨inv_equiv h he, he.valset, he.params, ?_, ?_⟩
  · intro b v hv
    obtain ⟨w, hw, c⟩ := he.fwd b v hv
    exact ⟨w, hw, c.1⟩
  · intro hk a w hw
    obtain ⟨v, hv, c⟩ := he.bwd a w hw
    rw [c.1]
    exact hk a v hv

theorem tr_of_upd (hash160 : Bytes → Bytes) {now : Int} {s t : State} {a : Bytes} {v' : Validator} (h : Inv now s)
    (hu : Upd s t a v')
    (hm : a ∈ s.valset.map (·.1) → v'.status ≠ .pending ∧ (v'.status = .downgrade → now ≤ v'.jailedUntil))
    (hidx_other : ∀ d b x, b ≠ a → ((d, b), x) ∈ t.lockingIdx → ((d, b), x) ∈ s.lockingIdx)
    (hidx_same : ∀ d x, ((d, a), x) ∈ t.lockingIdx → IdxEntry v' d x)
    (hpk : ∀ v, vget s a = some v → v'.pubkey = v.pubkey)
    (hnew : vget s a = none → hash160 v'.pubkey = a) : Tr hash160 now s t := by
  refine ⟨inv_upd h hu hm hidx_other hidx_same, hu.valset, hu.params, ?_, ?_⟩
  · intro b v hv
    by_cases hb : b = a
    · subst hb
      exact ⟨v', hu.get_same, hpk v hv⟩
    · exact ⟨v, by rw [hu.get_other b hb]; exact hv, rfl⟩
  · intro hk b w hw
    by_cases hb : b = a
    · subst hb
      rw [hu.get_same] at hw
      cases hw
      cases hv : vget s b with
      | none => exact hnew hv
      | some v => rw [hpk v hv]; exact hk b v hv
    · rw [hu.get_other b hb] at hw
      exact hk b w hw

/-! ## the operations

### lockOne -/


theorem ite_rankSet_lockingIdx (s : State) (p : Nat) (a : Bytes) :
    (if p > 0 then rankSet s p a else s).lockingIdx = s.lockingIdx := by
  split
  · exact rankSet_lockingIdx _ _ _
  · rfl

/-- the Active / Pending branch of `lockOne` -/
theorem lock_elig_case (hash160 : Bytes → Bytes) {now : Int} {s : State} {a : Bytes} {v : Validator} {coins : Coins}
    (h : Inv now s) (hv : vget s a = some v) (hel : Elig v)
    {f : State × Nat → String × Int → Outcome (State × Nat)}
    (hstep : ∀ acc c acc', f acc c = .ok acc' → acc'.1 = idxSet acc.1 c.1 a (amountOf (addCoins v.locking coins) c.1))
    {s2 : State} {pw : Nat} (heq : coins.foldlM f (rankRemove s v.power a, v.power) = .ok (s2, pw)) :
    Tr hash160 now s (vset (if pw > 0 then rankSet s2 pw a else s2) a
      { v with locking := addCoins v.locking coins, power := pw }) := by
  obtain ⟨hsame, hidx⟩ := idxSet_fold (X := fun c => amountOf (addCoins v.locking coins) c.1) hstep coins _ _ heq
  have hb : Base s s2 a := (h.base_rankRemove hv).same hsame
  have hel' : Elig { v with locking := addCoins v.locking coins, power := pw } := hel
  have hu := upd_rank_ite_vset (v' := { v with locking := addCoins v.locking coins, power := pw }) hb hel'
  refine tr_of_upd hash160 h hu ?_ ?_ ?_ (fun w hw => ?_) (fun hn => ?_)
  · intro ha; exact h.member_status a v ha hv
  · intro d b x hba hm
    rw [vset_lockingIdx, ite_rankSet_lockingIdx] at hm
    rcases hidx _ hm with ⟨m1, _⟩ | ⟨c, _, hc⟩
    · exact m1
    · exact absurd (congrArg (·.1.2) hc) hba
  · intro d x hm
    rw [vset_lockingIdx, ite_rankSet_lockingIdx] at hm
    refine Or.inl ⟨hel', fun hx => ?_⟩
    rcases hidx _ hm with ⟨m1, m2⟩ | ⟨c, _, hc⟩
    · exact mem_keys_addCoins (fun hc => m2 ⟨rfl, hc⟩) ((h.idx_entry hv m1).key_of_elig hel hx)
    · cases hc
      exact mem_keys_of_amountOf_ne_zero hx
  · rw [hv] at hw; cases hw; rfl
  · rw [hv] at hn; cases hn

/-- the Downgrade → Pending branch of `lockOne` (jail over, thresholds met) -/
theorem lock_repending_case (hash160 : Bytes → Bytes) {now : Int} {s : State} {a : Bytes} {v : Validator} {nl : Coins}
    (h : Inv now s) (hv : vget s a = some v) (hst : v.status = .downgrade) (hjail : now > v.jailedUntil)
    {f : State × Nat → String × Int → Outcome (State × Nat)}
    (hstep : ∀ acc c acc', f acc c = .ok acc' → acc'.1 = idxSet acc.1 c.1 a c.2)
    {s2 : State} {pw : Nat} (heq : nl.foldlM f (s, v.power) = .ok (s2, pw)) :
    Tr hash160 now s (vset (if pw > 0 then rankSet s2 pw a else s2) a
      { v with locking := nl, power := pw, status := .pending }) := by
  obtain ⟨hsame, hidx⟩ := idxSet_fold (X := fun c => c.2) hstep nl _ _ heq
  have hne : ¬ Elig v := by unfold Elig; rw [hst]; simp
  have hb : Base s s2 a := (base_self (h.not_ranked_of_inelig hv hne)).same hsame
  have hel' : Elig { v with locking := nl, power := pw, status := .pending } := Or.inr rfl
  have hu := upd_rank_ite_vset (v' := { v with locking := nl, power := pw, status := .pending }) hb hel'
  refine tr_of_upd hash160 h hu ?_ ?_ ?_ (fun w hw => ?_) (fun hn => ?_)
  · intro ha
    have := (h.member_status a v ha hv).2 hst
    omega
  · intro d b x hba hm
    rw [vset_lockingIdx, ite_rankSet_lockingIdx] at hm
    rcases hidx _ hm with ⟨m1, _⟩ | ⟨c, _, hc⟩
    · exact m1
    · exact absurd (congrArg (·.1.2) hc) hba
  · intro d x hm
    rw [vset_lockingIdx, ite_rankSet_lockingIdx] at hm
    refine Or.inl ⟨hel', fun hx => ?_⟩
    rcases hidx _ hm with ⟨m1, _⟩ | ⟨c, hcm, hc⟩
    · exact absurd ((h.idx_entry hv m1).zero_of_inelig hne).1 hx
    · cases hc
      exact List.mem_map.mpr ⟨c, hcm, rfl⟩
  · rw [hv] at hw; cases hw; rfl
  · rw [hv] at hn; cases hn

/-- the branches of `lockOne` that only credit the coins (Tombstoned, Inactive, Downgrade still jailed or
    below the thresholds) -/
theorem lock_credit_case (hash160 : Bytes → Bytes) {now : Int} {s : State} {a : Bytes} {v : Validator} (nl : Coins)
    (h : Inv now s) (hv : vget s a = some v) (hne : ¬ Elig v) :
    Tr hash160 now s (vset s a { v with locking := nl }) := by
  have hb : Base s s a := base_self (h.not_ranked_of_inelig hv hne)
  have hne' : ¬ Elig { v with locking := nl } := hne
  have hu := upd_vset (v' := { v with locking := nl }) hb (fun hc => hne' hc.2)
  refine tr_of_upd hash160 h hu ?_ ?_ ?_ (fun w hw => ?_) (fun hn => ?_)
  · intro ha; exact h.member_status a v ha hv
  · intro d b x _ hm
    rw [vset_lockingIdx] at hm
    exact hm
  · intro d x hm
    rw [vset_lockingIdx] at hm
    obtain ⟨z1, z2⟩ := (h.idx_entry hv hm).zero_of_inelig hne
    exact Or.inr ⟨hne', z1, z2⟩
  · rw [hv] at hw; cases hw; rfl
  · rw [hv] at hn; cases hn

/-- **`lockOne` preserves the invariant** (every status branch) -/
theorem lockOne_tr (hash160 : Bytes → Bytes) {now : Int} {s t : State} {a : Bytes} {coins : Coins}
    (h : Inv now s) (he : lockOne s now a coins = .ok t) : Tr hash160 now s t := by
  unfold lockOne at he
  cases hv : vget s a with
  | none => rw [hv] at he; cases he
  | some v =>
    rw [hv] at he
    dsimp only at he
    split at he
    · cases he
    · split at he
      · -- pending
        rename_i hst
        split at he
        · cases he
        · cases he
        · rename_i s2 pw heq
          cases he
          refine lock_elig_case hash160 h hv (Or.inr hst) ?_ heq
          intro acc c acc' hstep
          obtain ⟨b, pw0⟩ := acc
          dsimp only at hstep
          split at hstep
          · cases hstep
          · split at hstep
            · cases hstep; rfl
            · cases hstep
            · cases hstep
      · -- active
        rename_i hst
        split at he
        · cases he
        · cases he
        · rename_i s2 pw heq
          cases he
          refine lock_elig_case hash160 h hv (Or.inl hst) ?_ heq
          intro acc c acc' hstep
          obtain ⟨b, pw0⟩ := acc
          dsimp only at hstep
          split at hstep
          · cases hstep
          · split at hstep
            · cases hstep; rfl
            · cases hstep
            · cases hstep
      · -- downgrade
        rename_i hst
        split at he
        · rename_i hcond
          split at he
          · cases he
          · cases he
          · rename_i s2 pw heq
            cases he
            refine lock_repending_case hash160 h hv hst hcond.1 ?_ heq
            intro acc c acc' hstep
            obtain ⟨b, pw0⟩ := acc
            dsimp only at hstep
            split at hstep
            · cases hstep
            · split at hstep
              · split at hstep
                · cases hstep
                · cases hstep
                · cases hstep
                · cases hstep; rfl
              · cases hstep; rfl
        · cases he
          exact lock_credit_case hash160 _ h hv (by unfold Elig; rw [hst]; simp)
      · rename_i hst
        cases he
        exact lock_credit_case hash160 _ h hv (by unfold Elig; rw [hst]; simp)
      · rename_i hst
        cases he
        exact lock_credit_case hash160 _ h hv (by unfold Elig; rw [hst]; simp)


/-! ### unlockCore -/


/-- `unlockCore`, exit: the validator becomes Inactive (or stays Tombstoned / Inactive), loses its power,
    its ranking entry and all its index entries -/
theorem unlock_exit_case (hash160 : Bytes → Bytes) {now : Int} {s : State} {a : Bytes} {v : Validator}
    (h : Inv now s) (hv : vget s a = some v) (upd : Coins) (st' : Status)
    (hst' : st' ≠ .active ∧ st' ≠ .pending ∧ st' ≠ .downgrade) :
    Tr hash160 now s (vset (v.locking.foldl (fun s c => idxRemove s c.1 a) (rankRemove s v.power a)) a
      { v with power := 0, status := st', locking := upd }) := by
  have hb : Base s (v.locking.foldl (fun s c => idxRemove s c.1 a) (rankRemove s v.power a)) a :=
    (h.base_rankRemove hv).same (same_foldl_idxRemove _ _ _)
  have hne' : ¬ Elig { v with power := 0, status := st', locking := upd } := by
    rintro (hc | hc)
    · exact hst'.1 hc
    · exact hst'.2.1 hc
  have hu := upd_vset (v' := { v with power := 0, status := st', locking := upd }) hb (fun hc => hne' hc.2)
  refine tr_of_upd hash160 h hu ?_ ?_ ?_ (fun w hw => ?_) (fun hn => ?_)
  · intro _
    exact ⟨hst'.2.1, fun hc => absurd hc hst'.2.2⟩
  · intro d b x _ hm
    rw [vset_lockingIdx, mem_foldl_idxRemove] at hm
    exact hm.1
  · intro d x hm
    rw [vset_lockingIdx, mem_foldl_idxRemove] at hm
    refine Or.inr ⟨hne', ?_, rfl⟩
    apply Classical.byContradiction
    intro hx
    rcases h.idx_entry hv hm.1 with ⟨_, hk⟩ | ⟨_, hz, _⟩
    · exact hm.2 ⟨rfl, hk hx⟩
    · exact hx hz
  · rw [hv] at hw; cases hw; rfl
  · rw [hv] at hn; cases hn

/-- `unlockCore`, Active / Pending validator staying: new power, ranking entry re-filed, index entry of
    the token rewritten -/
theorem unlock_stay_case (hash160 : Bytes → Bytes) {now : Int} {s : State} {a : Bytes} {v : Validator}
    (h : Inv now s) (hv : vget s a = some v) (hel : Elig v) (tokn : String) (left : Int) (pw : Nat) :
    Tr hash160 now s (vset
      (if pw > 0 then
        rankSet (if left = 0 then idxRemove (rankRemove s v.power a) tokn a else idxSet (rankRemove s v.power a) tokn a left) pw a
       else (if left = 0 then idxRemove (rankRemove s v.power a) tokn a else idxSet (rankRemove s v.power a) tokn a left)) a
      { v with power := pw, locking := setAmount v.locking tokn left }) := by
  generalize hs2 : (if left = 0 then idxRemove (rankRemove s v.power a) tokn a
    else idxSet (rankRemove s v.power a) tokn a left) = s2
  have hsame : Same (rankRemove s v.power a) s2 := by
    rw [← hs2]; split
    · exact same_idxRemove _ _ _
    · exact same_idxSet _ _ _ _
  have hb : Base s s2 a := (h.base_rankRemove hv).same hsame
  have hel' : Elig { v with power := pw, locking := setAmount v.locking tokn left } := hel
  have hu := upd_rank_ite_vset (v' := { v with power := pw, locking := setAmount v.locking tokn left }) hb hel'
  have hidx : ∀ e ∈ s2.lockingIdx, (e ∈ s.lockingIdx ∧ ¬ (e.1.1 = tokn ∧ e.1.2 = a)) ∨ (left ≠ 0 ∧ e = ((tokn, a), left)) := by
    intro e he
    rw [← hs2] at he
    split at he
    · exact Or.inl ((mem_idxRemove_iff _ _ _ _).mp he)
    · rename_i hl
      rcases (mem_idxSet_iff _ _ _ _ _).mp he with h1 | h1
      · exact Or.inl h1
      · exact Or.inr ⟨hl, h1⟩
  refine tr_of_upd hash160 h hu ?_ ?_ ?_ (fun w hw => ?_) (fun hn => ?_)
  · intro ha; exact h.member_status a v ha hv
  · intro d b x hba hm
    rw [vset_lockingIdx, ite_rankSet_lockingIdx] at hm
    rcases hidx _ hm with ⟨m1, _⟩ | ⟨_, hc⟩
    · exact m1
    · exact absurd (congrArg (·.1.2) hc) hba
  · intro d x hm
    rw [vset_lockingIdx, ite_rankSet_lockingIdx] at hm
    refine Or.inl ⟨hel', fun hx => ?_⟩
    rcases hidx _ hm with ⟨m1, m2⟩ | ⟨hl, hc⟩
    · exact mem_keys_setAmount_other _ (fun hd => m2 ⟨hd, rfl⟩) ((h.idx_entry hv m1).key_of_elig hel hx)
    · cases hc
      apply mem_keys_of_amountOf_ne_zero
      show amountOf (setAmount v.locking tokn left) tokn ≠ 0
      rw [amountOf_setAmount_same]
      exact hl
  · rw [hv] at hw; cases hw; rfl
  · rw [hv] at hn; cases hn

/-- `unlockCore`, a jailed validator staying above the threshold: only the holding changes -/
theorem unlock_other_case (hash160 : Bytes → Bytes) {now : Int} {s : State} {a : Bytes} {v : Validator}
    (h : Inv now s) (hv : vget s a = some v) (hne : ¬ Elig v) (upd : Coins) :
    Tr hash160 now s (vset (rankRemove s v.power a) a { v with power := v.power, locking := upd }) := by
  have hb : Base s (rankRemove s v.power a) a := h.base_rankRemove hv
  have hne' : ¬ Elig { v with power := v.power, locking := upd } := hne
  have hu := upd_vset (v' := { v with power := v.power, locking := upd }) hb (fun hc => hne' hc.2)
  refine tr_of_upd hash160 h hu ?_ ?_ ?_ (fun w hw => ?_) (fun hn => ?_)
  · intro ha; exact h.member_status a v ha hv
  · intro d b x _ hm
    rw [vset_lockingIdx] at hm
    exact hm
  · intro d x hm
    rw [vset_lockingIdx] at hm
    obtain ⟨z1, z2⟩ := (h.idx_entry hv hm).zero_of_inelig hne
    exact Or.inr ⟨hne', z1, z2⟩
  · rw [hv] at hw; cases hw; rfl
  · rw [hv] at hn; cases hn

theorem elig_iff_beq (v : Validator) : (v.status == Status.active || v.status == Status.pending) = true ↔ Elig v := by
  unfold Elig
  simp

/-- **`unlockCore` preserves the invariant** (power decrease, exit to Inactive, removal from the ranking) -/
theorem unlockCore_tr (hash160 : Bytes → Bytes) {now : Int} {s t : State} {r : UnlockReq} {ex : Bool} {amt : Int}
    (h : Inv now s) (he : unlockCore s r = .ok (t, ex, amt)) : Tr hash160 now s t := by
  unfold unlockCore at he
  cases hv : vget s r.validator with
  | none => rw [hv] at he; cases he
  | some v =>
    rw [hv] at he
    dsimp only at he
    split at he
    · cases he
    · split at he
      · cases he
      · rename_i hnn
        split at he
        · cases he
        · cases he
        · rename_i tok _ _ pw heq
          simp only [Outcome.ok.injEq, Prod.mk.injEq] at he
          obtain ⟨h1, _, _⟩ := he
          subst h1
          generalize hleft : amountOf v.locking r.token - unlockAmount (amountOf v.locking r.token) r.amount = left at *
          by_cases hex : exitingOf v.status left tok.threshold = true
          · simp only [hex, if_true]
            refine unlock_exit_case hash160 h hv _ _ ?_
            generalize v.status = x
            cases x <;> simp
          · simp only [hex, if_false, Bool.false_eq_true]
            by_cases hap : (v.status == Status.active || v.status == Status.pending) = true
            · simp only [hap, if_true]
              exact unlock_stay_case hash160 h hv ((elig_iff_beq v).mp hap) r.token left pw
            · simp only [hap, if_false, Bool.false_eq_true, and_false] at heq ⊢
              cases heq
              exact unlock_other_case hash160 h hv (fun hc => hap ((elig_iff_beq v).mpr hc)) _



/-! ### onWeightChanged -/

theorem powerOf_zero {w : Nat} {d : Nat} (h : powerOf w 0 = .ok (some d)) : d = 0 := by
  unfold powerOf at h
  simp only [Int.mul_zero, Int.zero_ediv] at h
  split at h
  · cases h
  · split at h
    · cases h
    · cases h; rfl

theorem weight_step_case (hash160 : Bytes → Bytes) {now : Int} {s : State} {a : Bytes} {v : Validator}
    (h : Inv now s) (hv : vget s a = some v) (p' : Nat) (hp' : ¬ Elig v → p' = 0) :
    Tr hash160 now s (if p' > 0 then rankSet (vset (rankRemove s v.power a) a { v with power := p' }) p' a
                       else vset (rankRemove s v.power a) a { v with power := p' }) := by
  have hb : Base s (rankRemove s v.power a) a := h.base_rankRemove hv
  have hel' : 0 < p' → Elig { v with power := p' } := by
    intro hpos
    apply Classical.byContradiction
    intro hc
    have := hp' hc
    omega
  have hu := upd_vset_rank_ite (v' := { v with power := p' }) hb hel'
  have hidx : (if p' > 0 then rankSet (vset (rankRemove s v.power a) a { v with power := p' }) p' a
                       else vset (rankRemove s v.power a) a { v with power := p' }).lockingIdx = s.lockingIdx := by
    split
    · rw [rankSet_lockingIdx, vset_lockingIdx]; rfl
    · rw [vset_lockingIdx]; rfl
  refine tr_of_upd hash160 h hu ?_ ?_ ?_ (fun w hw => ?_) (fun hn => ?_)
  · intro ha; exact h.member_status a v ha hv
  · intro d b x _ hm
    rw [hidx] at hm
    exact hm
  · intro d x hm
    rw [hidx] at hm
    rcases h.idx_entry hv hm with ⟨hel, hk⟩ | ⟨hne, hz, _⟩
    · exact Or.inl ⟨hel, hk⟩
    · exact Or.inr ⟨hne, hz, hp' hne⟩
  · rw [hv] at hw; cases hw; rfl
  · rw [hv] at hn; cases hn

theorem weight_step_lockingIdx (s : State) (a : Bytes) (p q : Nat) (v' : Validator) :
    (if q > 0 then rankSet (vset (rankRemove s p a) a v') q a else vset (rankRemove s p a) a v').lockingIdx
      = s.lockingIdx := by
  split
  · rw [rankSet_lockingIdx, vset_lockingIdx]; rfl
  · rw [vset_lockingIdx]; rfl

/-- **`onWeightChanged` preserves the invariant**: every holder of the token gets its new power and its
    ranking entry rewritten; a holder outside Active/Pending has no power and only zero index entries,
    so it stays at power 0 and unranked -/
theorem onWeightChanged_tr (hash160 : Bytes → Bytes) {now : Int} {s t : State} {token : String} {prev cur : Nat}
    (h : Inv now s) (he : onWeightChanged s token prev cur = .ok t) : Tr hash160 now s t := by
  unfold onWeightChanged at he
  split at he
  · cases he; exact Tr.refl hash160 h
  · dsimp only at he
    have key := foldlM_inv_mem (fun b => Tr hash160 now s b ∧ b.lockingIdx = s.lockingIdx) _ _ ?_ s t
      ⟨Tr.refl hash160 h, rfl⟩ he
    · exact key.1
    intro b e b' hmem hP hstep
    obtain ⟨hb, hidx⟩ := hP
    have hein : e ∈ b.lockingIdx := by
      rw [hidx]
      exact (List.mem_filter.mp ((List.mergeSort_perm _ _).mem_iff.mp hmem)).1
    cases hv : vget b e.1.2 with
    | none => rw [hv] at hstep; cases hstep
    | some v =>
      rw [hv] at hstep
      dsimp only at hstep
      have hzero : ¬ Elig v → e.2 = 0 ∧ v.power = 0 := fun hne =>
        (hb.inv.idx_entry (d := e.1.1) (x := e.2) hv hein).zero_of_inelig hne
      split at hstep
      · split at hstep
        · cases hstep
        · cases hstep
        · cases hstep
        · rename_i dlt hpo
          cases hstep
          refine ⟨hb.trans (weight_step_case hash160 hb.inv hv _ ?_), (weight_step_lockingIdx _ _ _ _ _).trans hidx⟩
          intro hne
          obtain ⟨z1, z2⟩ := hzero hne
          rw [z1] at hpo
          rw [powerOf_zero hpo, z2]
          rfl
      · split at hstep
        · cases hstep
        · cases hstep
        · cases hstep
        · rename_i dlt hpo
          cases hstep
          refine ⟨hb.trans (weight_step_case hash160 hb.inv hv _ ?_), (weight_step_lockingIdx _ _ _ _ _).trans hidx⟩
          intro hne
          obtain ⟨z1, z2⟩ := hzero hne
          rw [z1] at hpo
          rw [powerOf_zero hpo, z2]
          rfl

/-! ### slashing: handleVote, handleEvidence -/

/-- jailing (Downgrade, until `ju`) or tombstoning: power 0, out of the ranking, index entries removed -/
theorem slash_case (hash160 : Bytes → Bytes) {now : Int} {s : State} {a : Bytes} {v : Validator}
    (h : Inv now s) (hv : vget s a = some v) (v1 : Validator) (hl : v1.locking = v.locking) (hpk : v1.pubkey = v.pubkey)
    (frac : Nat) (st' : Status) (hst' : st' = .downgrade ∨ st' = .tombstoned) (ju : Int) (hju : st' = .downgrade → now ≤ ju) :
    Tr hash160 now s (vset (slashAll (rankRemove s v.power a) a v1 frac).1 a
      { v1 with locking := (slashAll (rankRemove s v.power a) a v1 frac).2, status := st', power := 0, jailedUntil := ju }) := by
  obtain ⟨hsame, hmem⟩ := slashAll_spec (rankRemove s v.power a) a v1 frac
  have hb : Base s (slashAll (rankRemove s v.power a) a v1 frac).1 a := (h.base_rankRemove hv).same hsame
  have hne' : ∀ l : Coins, ¬ Elig { v1 with locking := l, status := st', power := 0, jailedUntil := ju } := by
    intro l
    rintro (hc | hc) <;> rcases hst' with rfl | rfl <;> cases hc
  refine tr_of_upd hash160 h (upd_vset hb (fun hc => hne' _ hc.2)) ?_ ?_ ?_ (fun w hw => ?_) (fun hn => ?_)
  · intro _
    refine ⟨?_, hju⟩
    rcases hst' with rfl | rfl <;> simp
  · intro d b x _ hm
    rw [vset_lockingIdx, hmem] at hm
    exact hm.1
  · intro d x hm
    rw [vset_lockingIdx, hmem] at hm
    refine Or.inr ⟨hne' _, ?_, rfl⟩
    apply Classical.byContradiction
    intro hx
    rcases h.idx_entry hv hm.1 with ⟨_, hk⟩ | ⟨_, hz, _⟩
    · exact hm.2 ⟨rfl, by rw [hl]; exact hk hx⟩
    · exact hx hz
  · rw [hv] at hw; cases hw; exact hpk
  · rw [hv] at hn; cases hn

/-- **`handleVote` preserves the invariant** (downtime: Active → Downgrade, power 0, out of the ranking;
    jailed until `now + downtimeJail ≥ now`) -/
theorem handleVote_tr (hash160 : Bytes → Bytes) {now : Int} {s t : State} {vi : VoteInfo}
    (h : Inv now s) (he : handleVote s now vi = .ok t) : Tr hash160 now s t := by
  unfold handleVote at he
  cases hv : vget s vi.address with
  | none => rw [hv] at he; cases he
  | some v =>
    rw [hv] at he
    dsimp only at he
    split at he
    · cases he; exact Tr.refl hash160 h
    · generalize (if vi.absent = true then v.missed + 1 else v.missed) = ms at he
      generalize (if ((v.offset + 1 : Nat) : Int) ≥ s.params.signedBlocksWindow then ((0 : Nat), (0 : Nat))
          else (ms, v.offset + 1)) = mo at he
      split at he
      · cases he
        refine slash_case hash160 h hv { v with missed := mo.1, offset := mo.2 } rfl rfl _ .downgrade (Or.inl rfl) _ ?_
        intro _
        have := h.jail_nonneg
        omega
      · cases he
        exact tr_of_equiv hash160 h (equiv_vset hv ⟨rfl, rfl, rfl, rfl, rfl⟩)

/-- **`handleEvidence` preserves the invariant** (→ Tombstoned, power 0, out of the ranking) -/
theorem handleEvidence_tr (hash160 : Bytes → Bytes) {now height : Int} {s t : State} {maxAge : Option (Int × Int)}
    {e : Evidence} (h : Inv now s) (he : handleEvidence s now height maxAge e = .ok t) : Tr hash160 now s t := by
  unfold handleEvidence at he
  split at he
  · cases he; exact Tr.refl hash160 h
  · split at he
    · cases he; exact Tr.refl hash160 h
    · cases hv : vget s e.address with
      | none => rw [hv] at he; cases he
      | some v =>
        rw [hv] at he
        dsimp only at he
        split at he
        · cases he; exact Tr.refl hash160 h
        · cases he
          exact slash_case hash160 h hv v rfl rfl _ .tombstoned (Or.inr rfl) v.jailedUntil (fun hc => by cases hc)

/-! ### create -/

theorem create_new_case (hash160 : Bytes → Bytes) {now : Int} {s : State} {a : Bytes} (h : Inv now s) (hv : vget s a = none)
    (v' : Validator) (hp : v'.power = 0) (hk : hash160 v'.pubkey = a) :
    Tr hash160 now s (vset s a v') := by
  have hb : Base s s a := base_self (h.not_ranked_of_none hv)
  have hu := upd_vset (v' := v') hb (fun hc => by rw [hp] at hc; exact absurd hc.1 (by omega))
  refine tr_of_upd hash160 h hu ?_ ?_ ?_ (fun w hw => ?_) (fun _ => hk)
  · intro ha
    obtain ⟨w, hw⟩ := h.valset_rec a ha
    rw [hv] at hw; cases hw
  · intro d b x _ hm
    rw [vset_lockingIdx] at hm
    exact hm
  · intro d x hm
    rw [vset_lockingIdx] at hm
    obtain ⟨w, hw, _⟩ := h.idx_ok d a x hm
    rw [hv] at hw; cases hw
  · rw [hv] at hw; cases hw

/-- **`create` preserves the invariant**: a new record (Pending or Inactive, power 0, empty holding)
    under a fresh address that is the hash of its key -/
theorem create_tr (hash160 : Bytes → Bytes) (hasAccount : Bytes → Bool) {now : Int} {s t : State} {reqs : List CreateReq}
    {accs : List Bytes} (h : Inv now s) (he : create hash160 hasAccount s reqs = .ok (t, accs)) : Tr hash160 now s t := by
  unfold create at he
  refine foldlM_inv (fun (acc : State × List Bytes) => Tr hash160 now s acc.1) _ ?_ _ _ _ (Tr.refl hash160 h) he
  intro acc r acc' hacc hstep
  obtain ⟨b, newAccs⟩ := acc
  dsimp only at hstep hacc
  split at hstep
  · cases hstep
  · split at hstep
    · cases hstep; exact hacc
    · rename_i hnone
      cases hstep
      have hv : vget b (hash160 r.compressed) = none := by
        cases hx : vget b (hash160 r.compressed) with
        | none => rfl
        | some v => rw [hx] at hnone; simp at hnone
      exact hacc.trans (create_new_case hash160 hacc.inv hv _ rfl rfl)

/-! ### operations the invariant does not see -/

theorem updateRewardPool_equiv {s t : State} {height : Int} {gas grants : List Int}
    (he : updateRewardPool s height gas grants = .ok t) : Equiv s t := by
  unfold updateRewardPool at he
  split at he
  · cases he
  · split at he
    · cases he
    · dsimp only at he
      split at he
      · cases he
      · cases he
        exact equiv_of_fields rfl rfl rfl rfl rfl

theorem claim_equiv {s t : State} {reqs : List ClaimReq} (he : claim s reqs = .ok t) : Equiv s t := by
  unfold claim at he
  refine foldlM_inv (fun b => Equiv s b) _ ?_ _ _ _ (Equiv.refl s) he
  intro b r b' hb hstep
  cases hv : vget b r.validator with
  | none => rw [hv] at hstep; cases hstep
  | some v =>
    rw [hv] at hstep
    dsimp only at hstep
    cases hstep
    refine hb.trans ((equiv_of_fields (s := b) (t := { b with qRewards := b.qRewards ++
      [{ id := r.id, recipient := r.recipient, goat := v.reward, gas := v.gasReward }] }) rfl rfl rfl rfl rfl).trans ?_)
    exact equiv_vset (v := v) hv ⟨rfl, rfl, rfl, rfl, rfl⟩

theorem distributeReward_go_equiv (total : Int) (s0 : State) :
    ∀ (votes : List VoteInfo) (s : State) (rg rr : Int) (s' : State) (rg' rr' : Int),
      Equiv s0 s → distributeReward.go total votes s rg rr = .ok (s', rg', rr') → Equiv s0 s' := by
  intro votes
  induction votes with
  | nil =>
    intro s rg rr s' rg' rr' hs h
    unfold distributeReward.go at h
    cases h; exact hs
  | cons v rest ih =>
    intro s rg rr s' rg' rr' hs h
    unfold distributeReward.go at h
    cases hv : vget s v.address with
    | none => rw [hv] at h; cases h
    | some val =>
      rw [hv] at h
      dsimp only at h
      refine ih _ _ _ s' rg' rr' ?_ h
      exact hs.trans (equiv_vset hv ⟨rfl, rfl, rfl, rfl, rfl⟩)

theorem distributeReward_equiv {s t : State} {height : Int} {votes : List VoteInfo}
    (he : distributeReward s height votes = .ok t) : Equiv s t := by
  unfold distributeReward at he
  split at he
  · cases he; exact Equiv.refl s
  · split at he
    · cases he; exact Equiv.refl s
    · dsimp only at he
      split at he
      · cases he
      · split at he
        · cases he
        · cases he
        · rename_i s2 rg rr heq
          cases he
          exact (distributeReward_go_equiv _ s votes s _ _ s2 rg rr (Equiv.refl s) heq).trans
            (equiv_of_fields rfl rfl rfl rfl rfl)

theorem dequeueMature_equiv (s : State) (now : Int) : Equiv s (dequeueMature s now) := by
  unfold dequeueMature
  split
  · exact Equiv.refl s
  · exact equiv_of_fields rfl rfl rfl rfl rfl

theorem dequeue_equiv (s : State) : Equiv s (dequeue s).1 := by
  unfold dequeue
  split
  · exact Equiv.refl s
  · exact equiv_of_fields rfl rfl rfl rfl rfl

theorem enqueueUnlock_equiv (s : State) (t : Int) (u : Unlock) : Equiv s (enqueueUnlock s t u) :=
  equiv_of_fields rfl rfl rfl rfl rfl

theorem tset_equiv (s : State) (d : String) (t : Token) : Equiv s (tset s d t) :=
  equiv_of_fields rfl rfl rfl rfl rfl


/-! ### composites -/

/-- **`lock` preserves the invariant** -/
theorem lock_tr (hash160 : Bytes → Bytes) {now : Int} {s t : State} {reqs : List LockReq}
    (h : Inv now s) (he : lock s now reqs = .ok t) : Tr hash160 now s t := by
  unfold lock at he
  split at he
  · cases he; exact Tr.refl hash160 h
  · split at he
    · cases he
    · split at he
      · cases he
      · cases he
      · exact tr_foldlM hash160 now _ (fun b e b' hb hstep => lockOne_tr hash160 hb hstep) _ s t h he

/-- **`unlockOne` preserves the invariant** -/
theorem unlockOne_tr (hash160 : Bytes → Bytes) {now : Int} {s t : State} {r : UnlockReq}
    (h : Inv now s) (he : unlockOne s now r = .ok t) : Tr hash160 now s t := by
  unfold unlockOne at he
  split at he
  · cases he
  · cases he
  · rename_i s3 exiting amount heq
    cases he
    have h3 := unlockCore_tr hash160 h heq
    exact h3.trans (tr_of_equiv hash160 h3.inv (enqueueUnlock_equiv _ _ _))

/-- **`unlock` preserves the invariant** -/
theorem unlock_tr (hash160 : Bytes → Bytes) {now : Int} {s t : State} {reqs : List UnlockReq}
    (h : Inv now s) (he : unlock s now reqs = .ok t) : Tr hash160 now s t := by
  unfold unlock at he
  exact tr_foldlM hash160 now _ (fun b e b' hb hstep => unlockOne_tr hash160 hb hstep) _ s t h he

/-- **`updateTokens` preserves the invariant** (weight changes re-rank every holder; threshold changes
    touch neither validators nor ranking) -/
theorem updateTokens_tr (hash160 : Bytes → Bytes) {now : Int} {s t : State} {weights : List (String × Nat)}
    {thresholds : List (String × Int)} (h : Inv now s) (he : updateTokens s weights thresholds = .ok t) :
    Tr hash160 now s t := by
  unfold updateTokens at he
  obtain ⟨s1, h1, h2⟩ := (bind_eq_ok _ _ _).mp he
  have t1 : Tr hash160 now s s1 := by
    refine tr_foldlM hash160 now _ ?_ _ s s1 h h1
    intro b u b' hb hstep
    dsimp only at hstep
    split at hstep
    · rename_i b2 heq
      cases hstep
      have hw := onWeightChanged_tr hash160 hb heq
      exact hw.trans (tr_of_equiv hash160 hw.inv (tset_equiv _ _ _))
    · cases hstep
    · cases hstep
  split at h2
  · cases h2; exact t1
  · refine t1.trans (tr_foldlM hash160 now _ ?_ _ s1 t t1.inv h2)
    intro b u b' hb hstep
    dsimp only at hstep
    split at hstep
    · cases hstep
    · split at hstep
      · cases hstep; exact Tr.refl hash160 hb
      · split at hstep
        · cases hstep
        · cases hstep
          exact tr_of_equiv hash160 hb (equiv_of_fields rfl rfl rfl rfl rfl)

/-- **`processRequests` preserves the invariant** -/
theorem processRequests_tr (hash160 : Bytes → Bytes) (hasAccount : Bytes → Bool) {now height : Int} {s t : State}
    {R : Reqs} {accs : List Bytes} (h : Inv now s)
    (he : processRequests hash160 hasAccount s height now R = .ok (t, accs)) : Tr hash160 now s t := by
  unfold processRequests at he
  obtain ⟨s1, h1, he⟩ := (bind_eq_ok _ _ _).mp he
  obtain ⟨s2, h2, he⟩ := (bind_eq_ok _ _ _).mp he
  obtain ⟨⟨s3, accs3⟩, h3, he⟩ := (bind_eq_ok _ _ _).mp he
  dsimp only at he
  obtain ⟨s4, h4, he⟩ := (bind_eq_ok _ _ _).mp he
  obtain ⟨s5, h5, he⟩ := (bind_eq_ok _ _ _).mp he
  obtain ⟨s6, h6, he⟩ := (bind_eq_ok _ _ _).mp he
  have he : (Outcome.ok (s6, accs3) : Outcome (State × List Bytes)) = .ok (t, accs) := he
  simp only [Outcome.ok.injEq, Prod.mk.injEq] at he
  obtain ⟨rfl, _⟩ := he
  have t1 := tr_of_equiv hash160 h (updateRewardPool_equiv h1)
  have t2 := updateTokens_tr hash160 t1.inv h2
  have t3 := create_tr hash160 hasAccount t2.inv h3
  have t4 := lock_tr hash160 t3.inv h4
  have t5 := unlock_tr hash160 t4.inv h5
  have t6 := tr_of_equiv hash160 t5.inv (claim_equiv h6)
  exact ((((t1.trans t2).trans t3).trans t4).trans t5).trans t6

/-- **`handleVotes` preserves the invariant** -/
theorem handleVotes_tr (hash160 : Bytes → Bytes) {now : Int} {s t : State} {votes : List VoteInfo}
    (h : Inv now s) (he : handleVotes s now votes = .ok t) : Tr hash160 now s t := by
  unfold handleVotes at he
  exact tr_foldlM hash160 now _ (fun b e b' hb hstep => handleVote_tr hash160 hb hstep) _ s t h he

/-- **`beginBlock` preserves the invariant** -/
theorem beginBlock_tr (hash160 : Bytes → Bytes) {now height : Int} {s t : State} {votes : List VoteInfo}
    {maxAge : Option (Int × Int)} {evs : List Evidence} (h : Inv now s)
    (he : beginBlock s height now votes maxAge evs = .ok t) : Tr hash160 now s t := by
  unfold beginBlock at he
  obtain ⟨s1, h1, he⟩ := (bind_eq_ok _ _ _).mp he
  obtain ⟨s3, h3, he⟩ := (bind_eq_ok _ _ _).mp he
  have t1 := tr_of_equiv hash160 h (distributeReward_equiv h1)
  have t2 := tr_of_equiv hash160 t1.inv (dequeueMature_equiv s1 now)
  have t3 := handleVotes_tr hash160 t2.inv h3
  have t4 : Tr hash160 now s3 t :=
    tr_foldlM hash160 now _ (fun b e b' hb hstep => handleEvidence_tr hash160 hb hstep) _ s3 t t3.inv he
  exact ((t1.trans t2).trans t3).trans t4

end Goat.Ranking
