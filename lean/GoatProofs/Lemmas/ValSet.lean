/-
  Lemmas for C13H (validator-set logic of x/locking):
    * association lists keyed by address (`lookup`, key filters),
    * the order of the power ranking (`rle`, `rankingDesc` is sorted and a permutation),
    * a functional specification of CometBFT's validator update (`comet_apply_spec`): when the update
      list has distinct keys, powers in range and removes members only, the result is the old set
      overridden by the updates.
-/
import GoatModel.Locking
import GoatModel.Comet
import GoatProofs.Lemmas.Locking
import GoatProofs.C07
import GoatProofs.C18
namespace Goat.ValSet
open Goat.Locking

/-! ## generic list facts -/

theorem nodup_of_map {α β} (f : α → β) {l : List α} (h : (l.map f).Nodup) : l.Nodup := by
  rw [List.Nodup, List.pairwise_map] at h
  exact h.imp (fun hne heq => hne (congrArg f heq))

theorem any_key_iff {β} (l : List (Bytes × β)) (k : Bytes) : l.any (·.1 == k) = true ↔ k ∈ l.map (·.1) := by
  simp only [List.any_eq_true, List.mem_map]
  constructor
  · rintro ⟨e, he, h⟩; exact ⟨e, he, by simpa using h⟩
  · rintro ⟨e, he, h⟩; exact ⟨e, he, by simpa using h⟩

theorem mem_keys_of_mem {α β} {l : List (α × β)} {k : α} {v : β} (h : (k, v) ∈ l) : k ∈ l.map (·.1) :=
  List.mem_map.mpr ⟨(k, v), h, rfl⟩

theorem exists_of_mem_keys {α β} {l : List (α × β)} {k : α} (h : k ∈ l.map (·.1)) : ∃ v, (k, v) ∈ l := by
  obtain ⟨e, he, rfl⟩ := List.mem_map.mp h
  exact ⟨e.2, he⟩

theorem le_sum_of_mem {l : List Nat} {x : Nat} (h : x ∈ l) : x ≤ l.sum := by
  induction l with
  | nil => cases h
  | cons y ys ih =>
    rw [List.sum_cons]
    rcases List.mem_cons.mp h with h | h
    · subst h; omega
    · have := ih h; omega

theorem find?_congr' {α} {p q : α → Bool} : ∀ {l : List α}, (∀ x ∈ l, p x = q x) → l.find? p = l.find? q
  | [], _ => rfl
  | x :: xs, h => by
    rw [List.find?_cons, List.find?_cons, h x List.mem_cons_self,
      find?_congr' (fun y hy => h y (List.mem_cons_of_mem _ hy))]

/-! ## `lastSet[addr]`: lookup with default 0 -/

/-- the Go map read `lastSet[addr]` (zero when absent) -/
def lookup (l : List (Bytes × Nat)) (a : Bytes) : Nat := ((l.find? (·.1 == a)).map (·.2)).getD 0

theorem lookup_of_not_mem {l : List (Bytes × Nat)} {a : Bytes} (h : a ∉ l.map (·.1)) : lookup l a = 0 := by
  unfold lookup
  have : l.find? (·.1 == a) = none := by
    rw [List.find?_eq_none]
    intro e he hc
    exact h (List.mem_map.mpr ⟨e, he, by simpa using hc⟩)
  rw [this]; rfl

theorem lookup_of_mem {l : List (Bytes × Nat)} (hn : (l.map (·.1)).Nodup) {a : Bytes} {p : Nat} (h : (a, p) ∈ l) :
    lookup l a = p := by
  unfold lookup
  cases hf : l.find? (·.1 == a) with
  | none =>
    rw [List.find?_eq_none] at hf
    exact absurd (by simp) (hf (a, p) h)
  | some e =>
    have he := List.mem_of_find?_eq_some hf
    have hk : e.1 = a := by simpa using List.find?_some hf
    obtain ⟨k, q⟩ := e
    simp only at hk
    subst hk
    exact C18.assoc_unique l hn k q p he h

theorem mem_of_lookup_pos {l : List (Bytes × Nat)} {a : Bytes} {p : Nat} (h : lookup l a = p) (hp : 0 < p) : (a, p) ∈ l := by
  unfold lookup at h
  cases hf : l.find? (·.1 == a) with
  | none => rw [hf] at h; simp at h; omega
  | some e =>
    rw [hf] at h
    have he := List.mem_of_find?_eq_some hf
    have hk : e.1 = a := by simpa using List.find?_some hf
    obtain ⟨k, q⟩ := e
    simp only [Option.map_some, Option.getD_some] at h hk
    subst hk; subst h
    exact he

/-- entries whose address is not in `d` -/
def dropKeys (d : List Bytes) (l : List (Bytes × Nat)) : List (Bytes × Nat) := l.filter (fun e => !(d.contains e.1))

theorem mem_dropKeys {d : List Bytes} {l : List (Bytes × Nat)} {e : Bytes × Nat} :
    e ∈ dropKeys d l ↔ e ∈ l ∧ e.1 ∉ d := by
  unfold dropKeys
  simp [List.mem_filter]

theorem dropKeys_nil (l : List (Bytes × Nat)) : dropKeys [] l = l := by
  unfold dropKeys
  rw [List.filter_eq_self]
  intro e _; rfl

theorem dropKeys_snoc_filter (d : List Bytes) (a : Bytes) (l : List (Bytes × Nat)) :
    (dropKeys d l).filter (·.1 != a) = dropKeys (d ++ [a]) l := by
  unfold dropKeys
  rw [List.filter_filter]
  apply List.filter_congr
  intro e _
  simp only [List.contains_append, List.contains_cons, List.contains_nil, Bool.or_false, Bool.not_or]
  rw [Bool.and_comm]
  rfl

theorem dropKeys_snoc_absent (d : List Bytes) (a : Bytes) (l : List (Bytes × Nat)) (h : a ∉ l.map (·.1)) :
    dropKeys (d ++ [a]) l = dropKeys d l := by
  rw [← dropKeys_snoc_filter, List.filter_eq_self]
  intro e he
  have : e.1 ≠ a := fun heq => h (List.mem_map.mpr ⟨e, (mem_dropKeys.mp he).1, heq⟩)
  simpa using this

theorem dropKeys_sublist (d : List Bytes) (l : List (Bytes × Nat)) : (dropKeys d l).Sublist l := List.filter_sublist

theorem lookup_dropKeys {d : List Bytes} {l : List (Bytes × Nat)} {a : Bytes} (h : a ∉ d) :
    lookup (dropKeys d l) a = lookup l a := by
  unfold lookup dropKeys
  rw [List.find?_filter]
  congr 2
  apply find?_congr'
  intro e _
  by_cases hk : e.1 = a
  · subst hk
    simp [h]
  · have : (e.1 == a) = false := by simpa using hk
    simp [this]

/-! ## the order of the power ranking -/

/-- the comparator of `rankingDesc`: descending power, ties in descending address order -/
def rle (a b : Nat × Bytes) : Bool := a.1 > b.1 || (a.1 == b.1 && !bytesLt a.2 b.2)

theorem rankingDesc_eq (s : State) : rankingDesc s = s.ranking.mergeSort rle := rfl

theorem rle_iff (a b : Nat × Bytes) : rle a b = true ↔ a.1 > b.1 ∨ (a.1 = b.1 ∧ bytesLt a.2 b.2 = false) := by
  unfold rle
  simp

theorem rle_trans (a b c : Nat × Bytes) (h1 : rle a b = true) (h2 : rle b c = true) : rle a c = true := by
  rw [rle_iff] at h1 h2 ⊢
  rcases h1 with h1 | ⟨h1, h1'⟩ <;> rcases h2 with h2 | ⟨h2, h2'⟩
  · left; omega
  · left; omega
  · left; omega
  · right
    refine ⟨by omega, ?_⟩
    have := C18.ble_trans c.2 b.2 a.2 (by simp [h2']) (by simp [h1'])
    simpa using this

theorem rle_total (a b : Nat × Bytes) : (rle a b || rle b a) = true := by
  rw [Bool.or_eq_true, rle_iff, rle_iff]
  by_cases h1 : a.1 > b.1
  · exact Or.inl (Or.inl h1)
  · by_cases h2 : b.1 > a.1
    · exact Or.inr (Or.inl h2)
    · have he : a.1 = b.1 := by omega
      have := C18.ble_total b.2 a.2
      simp only [Bool.or_eq_true, Bool.not_eq_true'] at this
      rcases this with h | h
      · exact Or.inl (Or.inr ⟨he, h⟩)
      · exact Or.inr (Or.inr ⟨he.symm, h⟩)

theorem rankingDesc_sorted (s : State) : (rankingDesc s).Pairwise (fun a b => rle a b = true) :=
  List.pairwise_mergeSort rle_trans rle_total s.ranking

theorem rankingDesc_perm (s : State) : (rankingDesc s).Perm s.ranking := List.mergeSort_perm _ _

/-- trichotomy of the key order -/
theorem bytesLt_trichotomy : ∀ a b : Bytes, a ≠ b → bytesLt a b = true ∨ bytesLt b a = true
  | [], [], h => absurd rfl h
  | [], _ :: _, _ => by simp [bytesLt]
  | _ :: _, [], _ => by simp [bytesLt]
  | x :: xs, y :: ys, h => by
    unfold bytesLt
    by_cases h1 : x < y
    · simp [h1]
    · by_cases h2 : y < x
      · simp [h2]
      · have e : x = y := UInt8.le_antisymm (UInt8.not_lt.1 h2) (UInt8.not_lt.1 h1)
        subst e
        have hne : xs ≠ ys := fun heq => h (by rw [heq])
        simp only [UInt8.lt_irrefl, if_false]
        exact bytesLt_trichotomy xs ys hne

/-! ## CometBFT's update as a function: old set overridden by the updates -/

section CometSpec
open Goat.Comet

theorem mem_dels {ups : List (Bytes × Int)} {x : Bytes × Int} : x ∈ C07.dels ups ↔ x ∈ ups ∧ x.2 = 0 := by
  unfold C07.dels; simp [List.mem_filter]

theorem mem_upds {ups : List (Bytes × Int)} {x : Bytes × Int} : x ∈ C07.upds ups ↔ x ∈ ups ∧ x.2 ≠ 0 := by
  unfold C07.upds; simp [List.mem_filter]

/-- the new power of a surviving member -/
def newPower (ups : List (Bytes × Int)) (e : Bytes × Nat) : Bytes × Nat :=
  match (C07.upds ups).find? (·.1 == e.1) with
  | some u => (e.1, u.2.toNat)
  | none => e

theorem base_eq (cs : VSet) (ups : List (Bytes × Int)) :
    C07.base cs ups = (cs.filter (fun e => !((C07.dels ups).any (·.1 == e.1)))).map (newPower ups) := rfl

theorem newPower_key (ups : List (Bytes × Int)) (e : Bytes × Nat) : (newPower ups e).1 = e.1 := by
  unfold newPower
  split <;> rfl

theorem newPower_some {ups : List (Bytes × Int)} (hnd : (ups.map (·.1)).Nodup) {k : Bytes} {u : Int} {q : Nat}
    (hu : (k, u) ∈ ups) (h0 : u ≠ 0) : newPower ups (k, q) = (k, u.toNat) := by
  unfold newPower
  cases hf : (C07.upds ups).find? (·.1 == k) with
  | none =>
    rw [List.find?_eq_none] at hf
    exact absurd (by simp) (hf (k, u) (mem_upds.mpr ⟨hu, h0⟩))
  | some x =>
    have hx := (mem_upds.mp (List.mem_of_find?_eq_some hf)).1
    have hk : x.1 = k := by simpa using List.find?_some hf
    obtain ⟨k', u'⟩ := x
    simp only at hk
    subst hk
    have := C18.assoc_unique ups hnd k' u' u hx hu
    subst this
    rfl

theorem newPower_none {ups : List (Bytes × Int)} {e : Bytes × Nat} (h : e.1 ∉ ups.map (·.1)) : newPower ups e = e := by
  unfold newPower
  have : (C07.upds ups).find? (·.1 == e.1) = none := by
    rw [List.find?_eq_none]
    intro x hx hc
    exact h (List.mem_map.mpr ⟨x, (mem_upds.mp hx).1, by simpa using hc⟩)
  rw [this]

/-- **membership in the result of the update**: an entry of the new set is either given by a
    non-zero update, or an old entry whose key no update mentions -/
theorem mem_base_news (cs : VSet) (ups : List (Bytes × Int)) (hnd : (ups.map (·.1)).Nodup) (k : Bytes) (p : Nat) :
    (k, p) ∈ C07.base cs ups ++ C07.news cs ups ↔
      (∃ u, (k, u) ∈ ups ∧ u ≠ 0 ∧ p = u.toNat) ∨ ((k, p) ∈ cs ∧ k ∉ ups.map (·.1)) := by
  rw [List.mem_append, base_eq]
  constructor
  · rintro (hb | hn)
    · obtain ⟨e, he, hge⟩ := List.mem_map.mp hb
      obtain ⟨hecs, hdel⟩ := List.mem_filter.mp he
      have hdel' : e.1 ∉ (C07.dels ups).map (·.1) := by
        intro hm
        rw [← any_key_iff] at hm
        simp [hm] at hdel
      by_cases hm : e.1 ∈ ups.map (·.1)
      · left
        obtain ⟨u, hu⟩ := exists_of_mem_keys hm
        have h0 : u ≠ 0 := fun h0 => hdel' (mem_keys_of_mem (mem_dels.mpr ⟨hu, h0⟩))
        obtain ⟨k', q⟩ := e
        rw [newPower_some hnd hu h0] at hge
        simp only [Prod.mk.injEq] at hge
        refine ⟨u, ?_, h0, hge.2.symm⟩
        rw [← hge.1]; exact hu
      · right
        rw [newPower_none hm] at hge
        subst hge
        exact ⟨hecs, hm⟩
    · unfold C07.news at hn
      obtain ⟨u, hu, hge⟩ := List.mem_map.mp hn
      obtain ⟨hupd, _⟩ := List.mem_filter.mp hu
      obtain ⟨hups, h0⟩ := mem_upds.mp hupd
      simp only [Prod.mk.injEq] at hge
      left
      refine ⟨u.2, ?_, h0, hge.2.symm⟩
      rw [← hge.1]; exact hups
  · rintro (⟨u, hu, h0, hp⟩ | ⟨hcs, hk⟩)
    · by_cases hm : k ∈ cs.map (·.1)
      · left
        obtain ⟨q, hq⟩ := exists_of_mem_keys hm
        refine List.mem_map.mpr ⟨(k, q), List.mem_filter.mpr ⟨hq, ?_⟩, ?_⟩
        · have : (C07.dels ups).any (·.1 == k) = false := by
            rw [List.any_eq_false]
            intro x hx hc
            have hxk : x.1 = k := by simpa using hc
            obtain ⟨hx1, hx2⟩ := mem_dels.mp hx
            obtain ⟨k', u'⟩ := x
            simp only at hxk hx2
            subst hxk; subst hx2
            exact h0 (C18.assoc_unique ups hnd k' u 0 hu hx1)
          simp [this]
        · rw [newPower_some hnd hu h0, hp]
      · right
        unfold C07.news
        refine List.mem_map.mpr ⟨(k, u), List.mem_filter.mpr ⟨mem_upds.mpr ⟨hu, h0⟩, ?_⟩, by rw [hp]⟩
        have : cs.any (·.1 == k) = false := by
          cases hc : cs.any (·.1 == k) with
          | false => rfl
          | true => exact absurd ((any_key_iff cs k).mp hc) hm
        simp [this]
    · left
      refine List.mem_map.mpr ⟨(k, p), List.mem_filter.mpr ⟨hcs, ?_⟩, newPower_none hk⟩
      have : (C07.dels ups).any (·.1 == k) = false := by
        rw [List.any_eq_false]
        intro x hx hc
        have hxk : x.1 = k := by simpa using hc
        exact hk (List.mem_map.mpr ⟨x, (mem_dels.mp hx).1, hxk⟩)
      simp [this]

/-- the keys of the result are distinct -/
theorem base_news_keys_nodup (cs : VSet) (ups : List (Bytes × Int)) (hcs : (cs.map (·.1)).Nodup)
    (hnd : (ups.map (·.1)).Nodup) : ((C07.base cs ups ++ C07.news cs ups).map (·.1)).Nodup := by
  rw [List.map_append, List.nodup_append]
  refine ⟨?_, ?_, ?_⟩
  · rw [base_eq, List.map_map]
    have : ((fun x : Bytes × Nat => x.1) ∘ newPower ups) = (fun x => x.1) := by
      funext e; exact newPower_key ups e
    rw [this]
    exact List.Nodup.sublist (List.filter_sublist.map _) hcs
  · unfold C07.news
    rw [List.map_map]
    have : ((fun x : Bytes × Nat => x.1) ∘ (fun u : Bytes × Int => (u.1, u.2.toNat))) = (fun u => u.1) := rfl
    rw [this]
    unfold C07.upds
    exact List.Nodup.sublist ((List.filter_sublist.trans List.filter_sublist).map _) hnd
  · intro a ha b hb hab
    subst hab
    rw [base_eq, List.map_map] at ha
    obtain ⟨e, he, hea⟩ := List.mem_map.mp ha
    simp only [Function.comp, newPower_key] at hea
    have hacs : a ∈ cs.map (·.1) := List.mem_map.mpr ⟨e, (List.mem_filter.mp he).1, hea⟩
    unfold C07.news at hb
    rw [List.map_map] at hb
    obtain ⟨u, hu, hua⟩ := List.mem_map.mp hb
    simp only [Function.comp] at hua
    have := (List.mem_filter.mp hu).2
    rw [← hua, ← any_key_iff] at hacs
    simp [hacs] at this

theorem base_news_nil (cs : VSet) : C07.base cs [] ++ C07.news cs [] = cs := by
  have h1 : C07.news cs [] = [] := rfl
  have h2 : C07.base cs [] = cs := by
    rw [base_eq]
    have hf : cs.filter (fun e => !((C07.dels []).any (·.1 == e.1))) = cs := by
      rw [List.filter_eq_self]; intro e _; rfl
    rw [hf]
    have : newPower [] = (fun e : Bytes × Nat => e) := by funext e; rfl
    rw [this, List.map_id']
  rw [h1, h2, List.append_nil]

/-- **Functional specification of `Comet.apply`.**  If the update list has pairwise distinct keys,
    every power is within `[0, maxTotal]`, every removal (power 0) names a member, and `target` is the
    old set overridden by the updates (with distinct keys), then CometBFT accepts the list — unless
    `target` is empty or its total power exceeds `maxTotal` — and its new set is `target` up to order. -/
theorem comet_apply_spec (cs : VSet) (ups : List (Bytes × Int)) (target : VSet)
    (hcs : (cs.map (·.1)).Nodup) (hnd : (ups.map (·.1)).Nodup)
    (hrange : ∀ u ∈ ups, 0 ≤ u.2 ∧ u.2 ≤ (maxTotal : Int))
    (hdel : ∀ u ∈ ups, u.2 = 0 → u.1 ∈ cs.map (·.1))
    (htn : (target.map (·.1)).Nodup)
    (hspec : ∀ k p, (k, p) ∈ target ↔
      (∃ u, (k, u) ∈ ups ∧ u ≠ 0 ∧ p = u.toNat) ∨ ((k, p) ∈ cs ∧ k ∉ ups.map (·.1)))
    (htot : total target ≤ maxTotal) (hne : target ≠ []) :
    ∃ cs', Comet.apply cs ups = .ok cs' ∧ cs'.Perm target := by
  have hperm : (C07.base cs ups ++ C07.news cs ups).Perm target := by
    rw [List.perm_ext_iff_of_nodup (nodup_of_map _ (base_news_keys_nodup cs ups hcs hnd)) (nodup_of_map _ htn)]
    rintro ⟨k, p⟩
    exact (mem_base_news cs ups hnd k p).trans (hspec k p).symm
  rw [C07.apply_eq]
  by_cases c1 : ups.isEmpty = true
  · rw [if_pos c1]
    have : ups = [] := by simpa using c1
    subst this
    rw [base_news_nil] at hperm
    exact ⟨cs, rfl, hperm⟩
  rw [if_neg c1]
  have c2 : ¬ hasDup (ups.map (·.1)) = true := by
    rw [(C07.hasDup_false_iff_nodup _).mpr hnd]; simp
  rw [if_neg c2]
  have c3 : ¬ ups.any (fun u => u.2 < 0) = true := by
    simp only [List.any_eq_true, decide_eq_true_eq, not_exists, not_and]
    intro u hu
    have := (hrange u hu).1
    omega
  rw [if_neg c3]
  have c4 : ¬ ups.any (fun u => u.2 > (maxTotal : Int)) = true := by
    simp only [List.any_eq_true, decide_eq_true_eq, not_exists, not_and]
    intro u hu
    have := (hrange u hu).2
    omega
  rw [if_neg c4]
  have c5 : ¬ ((C07.news cs ups).length == 0 && cs.length == (C07.dels ups).length) = true := by
    intro h
    simp only [Bool.and_eq_true, beq_iff_eq] at h
    obtain ⟨hnews, hlen⟩ := h
    have hnews' : C07.news cs ups = [] := List.eq_nil_of_length_eq_zero hnews
    -- some key of the target is a member that is not removed
    obtain ⟨⟨k, p⟩, hkp⟩ := List.exists_mem_of_ne_nil _ hne
    have hk : k ∈ cs.map (·.1) ∧ k ∉ (C07.dels ups).map (·.1) := by
      rcases (hspec k p).mp hkp with ⟨u, hu, h0, hp⟩ | ⟨hcsm, hk⟩
      · constructor
        · -- otherwise (k,u) would be a new member
          cases hc : cs.any (·.1 == k) with
          | true => exact (any_key_iff cs k).mp hc
          | false =>
            have : (k, u.toNat) ∈ C07.news cs ups := by
              unfold C07.news
              exact List.mem_map.mpr ⟨(k, u), List.mem_filter.mpr ⟨mem_upds.mpr ⟨hu, h0⟩, by simp [hc]⟩, rfl⟩
            rw [hnews'] at this; cases this
        · intro hm
          obtain ⟨z, hz⟩ := exists_of_mem_keys hm
          obtain ⟨hz1, hz2⟩ := mem_dels.mp hz
          have hz2' : z = 0 := hz2
          subst hz2'
          exact h0 (C18.assoc_unique ups hnd k u 0 hu hz1)
      · exact ⟨mem_keys_of_mem hcsm, fun hm => hk (by
          obtain ⟨z, hz⟩ := exists_of_mem_keys hm
          exact mem_keys_of_mem (mem_dels.mp hz).1)⟩
    -- pigeonhole
    have hdn : ((C07.dels ups).map (·.1)).Nodup := by
      unfold C07.dels
      exact List.Nodup.sublist (List.filter_sublist.map _) hnd
    have hsub : (C07.dels ups).map (·.1) ⊆ (cs.map (·.1)).erase k := by
      intro x hx
      have hxk : x ≠ k := fun heq => hk.2 (heq ▸ hx)
      rw [List.mem_erase_of_ne hxk]
      obtain ⟨z, hz⟩ := exists_of_mem_keys hx
      obtain ⟨hz1, hz2⟩ := mem_dels.mp hz
      exact hdel (x, z) hz1 hz2
    have h1 := hdn.length_le_of_subset hsub
    rw [List.length_erase_of_mem hk.1, List.length_map, List.length_map] at h1
    have h2 : 0 < cs.length := by
      cases cs with
      | nil => simp at hk
      | cons _ _ => simp
    omega
  rw [if_neg c5]
  have c6 : ¬ (C07.dels ups).any (fun d => !(cs.any (·.1 == d.1))) = true := by
    simp only [List.any_eq_true, not_exists, not_and]
    intro d hd
    obtain ⟨hd1, hd2⟩ := mem_dels.mp hd
    have := (any_key_iff cs d.1).mpr (hdel d hd1 hd2)
    simp [this]
  rw [if_neg c6]
  have c7 : ¬ total (C07.base cs ups ++ C07.news cs ups) > maxTotal := by
    have : total (C07.base cs ups ++ C07.news cs ups) = total target := by
      unfold total
      exact (hperm.map _).sum_nat
    omega
  rw [if_neg c7]
  exact ⟨_, rfl, hperm⟩

end CometSpec

end Goat.ValSet
