/-
  Helper lemmas for C12H (history-level reward accounting):
  association lists keyed by validator address, the projection of a locking state to the part the
  reward measures read (`rview`), sums of natural-number shares, and the arithmetic of the rounding
  dust of `distributeReward`.
-/
import GoatModel.Locking
import GoatProofs.Lemmas.Locking
import GoatProofs.Lemmas.Arith
import GoatProofs.Lemmas.LockingConserve
namespace Goat.Locking

theorem isum_eq_sum (l : List Int) : isum l = l.sum := by
  induction l with
  | nil => rfl
  | cons x xs ih => simp [ih]

theorem isum_map_natCast {α : Type} (f : α → Nat) (l : List α) :
    isum (l.map (fun x => ((f x : Nat) : Int))) = (((l.map f).sum : Nat) : Int) := by
  induction l with
  | nil => rfl
  | cons x xs ih => simp [ih]

theorem isum_map_zero {α : Type} (l : List α) : isum (l.map (fun _ => (0 : Int))) = 0 := by
  induction l with
  | nil => rfl
  | cons x xs ih => simp [ih]

theorem isum_map_add {α : Type} (f g : α → Int) (l : List α) :
    isum (l.map (fun x => f x + g x)) = isum (l.map f) + isum (l.map g) := by
  induction l with
  | nil => rfl
  | cons x xs ih => simp [ih]; omega

/-! ### association lists keyed by address (the model's maps) -/
section assoc
variable {β : Type}

def aget (l : List (Bytes × β)) (a : Bytes) : Option β := (l.find? (·.1 == a)).map (·.2)

def aset (l : List (Bytes × β)) (a : Bytes) (c : β) : List (Bytes × β) :=
  if l.any (·.1 == a) then l.map (fun e => if e.1 == a then (a, c) else e) else l ++ [(a, c)]

/-- distinct keys (true of every store of the Go code) -/
def AKeys (l : List (Bytes × β)) : Prop := (l.map (·.1)).Nodup

theorem aget_cons (e : Bytes × β) (l : List (Bytes × β)) (a : Bytes) :
    aget (e :: l) a = if e.1 = a then some e.2 else aget l a := by
  unfold aget
  rw [List.find?_cons]
  by_cases h : e.1 = a
  · simp [h]
  · have : (e.1 == a) = false := by simpa using h
    simp [this, h]

theorem aget_some_any (l : List (Bytes × β)) (a : Bytes) (c : β) (h : aget l a = some c) :
    l.any (·.1 == a) = true := by
  induction l with
  | nil => cases h
  | cons e es ih =>
    rw [aget_cons] at h
    by_cases he : e.1 = a
    · rw [List.any_cons]; simp [he]
    · rw [if_neg he] at h
      rw [List.any_cons, ih h]; simp

theorem aget_none_any (l : List (Bytes × β)) (a : Bytes) (h : aget l a = none) :
    l.any (·.1 == a) = false := by
  induction l with
  | nil => rfl
  | cons e es ih =>
    rw [aget_cons] at h
    by_cases he : e.1 = a
    · rw [if_pos he] at h; cases h
    · rw [if_neg he] at h
      rw [List.any_cons, ih h]; simpa using he

theorem aget_none_not_mem (l : List (Bytes × β)) (a : Bytes) (h : aget l a = none) : a ∉ l.map (·.1) := by
  induction l with
  | nil => simp
  | cons e es ih =>
    rw [aget_cons] at h
    by_cases he : e.1 = a
    · rw [if_pos he] at h; cases h
    · rw [if_neg he] at h
      rw [List.map_cons, List.mem_cons]
      rintro (h1 | h1)
      · exact he h1.symm
      · exact ih h h1

theorem aget_mem (l : List (Bytes × β)) (a : Bytes) (c : β) (h : aget l a = some c) : (a, c) ∈ l := by
  induction l with
  | nil => cases h
  | cons e es ih =>
    rw [aget_cons] at h
    by_cases he : e.1 = a
    · rw [if_pos he] at h; cases h; subst he; exact List.mem_cons_self
    · rw [if_neg he] at h; exact List.mem_cons_of_mem _ (ih h)

theorem amap_noop (l : List (Bytes × β)) (a : Bytes) (c : β) (h : a ∉ l.map (·.1)) :
    l.map (fun e => if e.1 == a then (a, c) else e) = l := by
  induction l with
  | nil => rfl
  | cons e es ih =>
    rw [List.map_cons, List.mem_cons] at h
    have h1 : ¬ a = e.1 := fun x => h (Or.inl x)
    have h2 : (e.1 == a) = false := by simpa using fun x => h1 (Eq.symm x)
    rw [List.map_cons, h2, ih (fun x => h (Or.inr x))]; rfl

/-- with distinct keys, the entry of `a` occurs once and `aset` rewrites exactly that entry -/
theorem amap_split (l : List (Bytes × β)) (a : Bytes) (c c' : β) (hn : AKeys l) (hg : aget l a = some c) :
    ∃ l1 l2, l = l1 ++ (a, c) :: l2 ∧ l.map (fun e => if e.1 == a then (a, c') else e) = l1 ++ (a, c') :: l2 := by
  induction l with
  | nil => cases hg
  | cons e es ih =>
    have hn' : e.1 ∉ es.map (·.1) ∧ AKeys es := by
      unfold AKeys at hn; rw [List.map_cons, List.nodup_cons] at hn; exact hn
    rw [aget_cons] at hg
    by_cases he : e.1 = a
    · rw [if_pos he] at hg
      have hc : e.2 = c := by cases hg; rfl
      have h2 : (e.1 == a) = true := by simpa using he
      refine ⟨[], es, ?_, ?_⟩
      · rw [← he, ← hc]; rfl
      · rw [List.map_cons, h2, if_pos rfl, amap_noop es a c' (he ▸ hn'.1)]; rfl
    · rw [if_neg he] at hg
      obtain ⟨l1, l2, h1, h2⟩ := ih hn'.2 hg
      have h3 : (e.1 == a) = false := by simpa using he
      refine ⟨e :: l1, l2, ?_, ?_⟩
      · rw [h1]; rfl
      · rw [List.map_cons, h3, h2]; rfl

theorem aset_split (l : List (Bytes × β)) (a : Bytes) (c c' : β) (hn : AKeys l) (hg : aget l a = some c) :
    ∃ l1 l2, l = l1 ++ (a, c) :: l2 ∧ aset l a c' = l1 ++ (a, c') :: l2 := by
  unfold aset
  rw [if_pos (aget_some_any l a c hg)]
  exact amap_split l a c c' hn hg

theorem aset_none (l : List (Bytes × β)) (a : Bytes) (c' : β) (hg : aget l a = none) :
    aset l a c' = l ++ [(a, c')] := by
  unfold aset
  rw [aget_none_any l a hg]
  rfl

theorem akeys_aset (l : List (Bytes × β)) (a : Bytes) (c' : β) (hn : AKeys l) : AKeys (aset l a c') := by
  cases hg : aget l a with
  | none =>
    rw [aset_none l a c' hg]
    unfold AKeys
    rw [List.map_append]
    refine List.nodup_append.mpr ⟨hn, by simp, ?_⟩
    intro x hx y hy
    simp only [List.map_cons, List.map_nil, List.mem_singleton] at hy
    intro hxy
    have hxa : x = a := hxy.trans hy
    exact aget_none_not_mem l a hg (hxa ▸ hx)
  | some c =>
    obtain ⟨l1, l2, h1, h2⟩ := aset_split l a c c' hn hg
    rw [h2]
    unfold AKeys at hn ⊢
    rw [h1] at hn
    simpa using hn

theorem aset_same (l : List (Bytes × β)) (a : Bytes) (c : β) (hn : AKeys l) (hg : aget l a = some c) :
    aset l a c = l := by
  obtain ⟨l1, l2, h1, h2⟩ := aset_split l a c c hn hg
  rw [h2, ← h1]

theorem aget_aset_same (l : List (Bytes × β)) (a : Bytes) (c : β) : aget (aset l a c) a = some c := by
  unfold aset
  by_cases h : l.any (·.1 == a) = true
  · rw [if_pos h]
    induction l with
    | nil => simp at h
    | cons e es ih =>
      rw [List.map_cons, aget_cons]
      by_cases he : e.1 = a
      · have : (e.1 == a) = true := by simpa using he
        rw [this, if_pos rfl, if_pos rfl]
      · have h2 : (e.1 == a) = false := by simpa using he
        rw [List.any_cons, h2, Bool.false_or] at h
        rw [h2]
        simp only [Bool.false_eq_true, if_false]
        rw [if_neg he]
        exact ih h
  · rw [if_neg h]
    induction l with
    | nil => simp [aget]
    | cons e es ih =>
      have he : ¬ e.1 = a := by
        intro he
        apply h
        rw [List.any_cons]; simp [he]
      have h2 : (e.1 == a) = false := by simpa using he
      rw [List.any_cons, h2, Bool.false_or] at h
      rw [List.cons_append, aget_cons, if_neg he]
      exact ih h

theorem aget_aset_other (l : List (Bytes × β)) (a b : Bytes) (c : β) (hab : a ≠ b) :
    aget (aset l a c) b = aget l b := by
  unfold aset
  by_cases h : l.any (·.1 == a) = true
  · rw [if_pos h]
    clear h
    induction l with
    | nil => rfl
    | cons e es ih =>
      rw [List.map_cons, aget_cons, aget_cons, ih]
      by_cases he : e.1 = a
      · have : (e.1 == a) = true := by simpa using he
        rw [this, if_pos rfl]
        have h1 : ¬ a = b := hab
        have h2 : ¬ e.1 = b := by rw [he]; exact hab
        rw [if_neg h1, if_neg h2]
      · have : (e.1 == a) = false := by simpa using he
        rw [this]; rfl
  · rw [if_neg h]
    clear h
    induction l with
    | nil => simp [aget, hab]
    | cons e es ih => rw [List.cons_append, aget_cons, aget_cons, ih]

/-- sum of a measure of the entries -/
def asum (f : β → Int) (l : List (Bytes × β)) : Int := isum (l.map (fun e => f e.2))

theorem asum_append (f : β → Int) (a b : List (Bytes × β)) : asum f (a ++ b) = asum f a + asum f b := by
  unfold asum; rw [List.map_append, isum_append]

theorem asum_cons (f : β → Int) (e : Bytes × β) (l : List (Bytes × β)) : asum f (e :: l) = f e.2 + asum f l := rfl

theorem asum_aset_some (f : β → Int) (l : List (Bytes × β)) (a : Bytes) (c c' : β) (hn : AKeys l)
    (hg : aget l a = some c) : asum f (aset l a c') = asum f l - f c + f c' := by
  obtain ⟨l1, l2, h1, h2⟩ := aset_split l a c c' hn hg
  rw [h2, h1, asum_append, asum_append, asum_cons, asum_cons]
  simp only; omega

theorem asum_aset_none (f : β → Int) (l : List (Bytes × β)) (a : Bytes) (c' : β) (hg : aget l a = none) :
    asum f (aset l a c') = asum f l + f c' := by
  rw [aset_none l a c' hg, asum_append, asum_cons]; simp [asum]

theorem mem_aset (l : List (Bytes × β)) (a : Bytes) (c : β) (e : Bytes × β) (he : e ∈ aset l a c) :
    e = (a, c) ∨ e ∈ l := by
  unfold aset at he
  split at he
  · obtain ⟨x, hx, rfl⟩ := List.mem_map.mp he
    split
    · exact Or.inl rfl
    · exact Or.inr hx
  · rcases List.mem_append.mp he with h | h
    · exact Or.inr h
    · simp only [List.mem_singleton] at h; exact Or.inl h

theorem asum_nonneg (f : β → Int) (l : List (Bytes × β)) (h : ∀ e ∈ l, 0 ≤ f e.2) : 0 ≤ asum f l := by
  unfold asum
  apply isum_nonneg
  intro x hx
  obtain ⟨e, he, rfl⟩ := List.mem_map.mp hx
  exact h e he

end assoc

/-! ### the part of a state the reward measures read -/

/-- parameters, the three pools, the queue of claimed rewards, and every validator's accrued
    (reward, gasReward) by address -/
structure RView where
  params : Params
  pool : Pool
  qRewards : List Reward
  rewards : List (Bytes × Int × Int)

def rw3 (e : Bytes × Validator) : Bytes × Int × Int := (e.1, e.2.reward, e.2.gasReward)

def rview (s : State) : RView :=
  { params := s.params, pool := s.pool, qRewards := s.qRewards, rewards := s.validators.map rw3 }

@[simp] theorem rview_rankRemove (s : State) (p : Nat) (a : Bytes) : rview (rankRemove s p a) = rview s := rfl
@[simp] theorem rview_rankSet (s : State) (p : Nat) (a : Bytes) : rview (rankSet s p a) = rview s := by
  unfold rankSet; split <;> rfl
@[simp] theorem rview_idxSet (s : State) (d : String) (a : Bytes) (x : Int) : rview (idxSet s d a x) = rview s := rfl
@[simp] theorem rview_idxRemove (s : State) (d : String) (a : Bytes) : rview (idxRemove s d a) = rview s := rfl
@[simp] theorem rview_tset (s : State) (d : String) (t : Token) : rview (tset s d t) = rview s := rfl
@[simp] theorem rview_slashedAdd (s : State) (d : String) (x : Int) : rview (slashedAdd s d x) = rview s := rfl
@[simp] theorem rview_enqueueUnlock (s : State) (t : Int) (u : Unlock) : rview (enqueueUnlock s t u) = rview s := rfl

theorem rview_rank_ite (s : State) (p : Nat) (a : Bytes) : rview (if p > 0 then rankSet s p a else s) = rview s := by
  split
  · exact rview_rankSet _ _ _
  · rfl

theorem vget_eq_aget (s : State) (a : Bytes) : vget s a = aget s.validators a := rfl

theorem vset_validators (s : State) (a : Bytes) (v : Validator) : (vset s a v).validators = aset s.validators a v := rfl

theorem aget_map_rw3 (l : List (Bytes × Validator)) (a : Bytes) :
    aget (l.map rw3) a = (aget l a).map (fun v => (v.reward, v.gasReward)) := by
  induction l with
  | nil => rfl
  | cons e es ih =>
    rw [List.map_cons, aget_cons, aget_cons, ih]
    by_cases he : e.1 = a
    · have : (rw3 e).1 = a := he
      rw [if_pos he, if_pos this]; rfl
    · have : ¬ (rw3 e).1 = a := he
      rw [if_neg he, if_neg this]

theorem aset_map_rw3 (l : List (Bytes × Validator)) (a : Bytes) (v : Validator) :
    (aset l a v).map rw3 = aset (l.map rw3) a (v.reward, v.gasReward) := by
  unfold aset
  have hany : (l.map rw3).any (·.1 == a) = l.any (·.1 == a) := by
    rw [List.any_map]; rfl
  rw [hany]
  split
  · rw [List.map_map, List.map_map]
    apply List.map_congr_left
    intro e _
    by_cases he : (e.1 == a) = true
    · have : ((rw3 e).1 == a) = true := he
      simp only [Function.comp, he, this, if_true]; rfl
    · have : ¬ ((rw3 e).1 == a) = true := he
      simp only [Function.comp, he, this, Bool.false_eq_true, if_false]
  · rw [List.map_append]; rfl

theorem rget_rview (s : State) (a : Bytes) :
    aget (rview s).rewards a = (vget s a).map (fun v => (v.reward, v.gasReward)) :=
  aget_map_rw3 s.validators a

theorem rview_vset (s : State) (a : Bytes) (v : Validator) :
    rview (vset s a v) = { rview s with rewards := aset (rview s).rewards a (v.reward, v.gasReward) } := by
  unfold rview
  rw [vset_params, vset_pool, vset_qRewards, vset_validators, aset_map_rw3]

/-- rewriting a validator record without touching its accrued rewards keeps the view -/
theorem rview_vset_same (s : State) (a : Bytes) (v v' : Validator) (hk : AKeys (rview s).rewards)
    (hv : vget s a = some v) (h1 : v'.reward = v.reward) (h2 : v'.gasReward = v.gasReward) :
    rview (vset s a v') = rview s := by
  rw [rview_vset, h1, h2, aset_same _ _ _ hk (by rw [rget_rview, hv]; rfl)]

/-! ### powers and shares -/

theorem foldl_add_eq (l : List VoteInfo) (acc : Int) :
    l.foldl (fun acc v => acc + v.power) acc = acc + isum (l.map (·.power)) := by
  induction l generalizing acc with
  | nil => simp
  | cons v vs ih => rw [List.foldl_cons, ih]; simp; omega

theorem toNat_isum (l : List Int) (h : ∀ x ∈ l, 0 ≤ x) : (isum l).toNat = (l.map Int.toNat).sum := by
  induction l with
  | nil => rfl
  | cons x xs ih =>
    have h1 := h x List.mem_cons_self
    have h2 : ∀ y ∈ xs, 0 ≤ y := fun y hy => h y (List.mem_cons_of_mem _ hy)
    have h3 := isum_nonneg xs h2
    rw [isum_cons, List.map_cons, List.sum_cons, ← ih h2]
    omega

/-! ### rounding dust of a distribution -/

/-- each share misses the exact proportional amount `P·p/t` by less than `1 + P/10¹⁸`:
    `P·p·10¹⁸ < (share + 1)·10¹⁸·t + P·t` -/
theorem share_lower (P p t : Nat) (ht : 0 < t) :
    P * p * e18 < (mulTruncInt P (decQuoTruncate p t) + 1) * e18 * t + P * t := by
  rw [mulTruncInt_eq, decQuoTruncate_eq p t ht]
  have hE := e18_pos
  generalize e18 = E at hE ⊢
  have h1 : p * E < p * E / t * t + t := Nat.lt_div_mul_add ht
  have h2 : P * (p * E / t) < P * (p * E / t) / E * E + E := Nat.lt_div_mul_add hE
  generalize p * E / t = f at h1 h2 ⊢
  generalize P * f / E = s at h2 ⊢
  have a1 : P * (p * E) ≤ P * (f * t + t) := Nat.mul_le_mul_left _ (Nat.le_of_lt h1)
  have a2 : (P * f) * t < (s * E + E) * t := Nat.mul_lt_mul_of_pos_right h2 ht
  grind

theorem shares_lower_aux (P t : Nat) (ht : 0 < t) (l : List Nat) :
    P * l.sum * e18 + l.length
      ≤ ((l.map (fun p => mulTruncInt P (decQuoTruncate p t))).sum + l.length) * e18 * t + l.length * (P * t) := by
  induction l with
  | nil => simp
  | cons a as ih =>
    have h := share_lower P a t ht
    simp only [List.sum_cons, List.map_cons, List.length_cons]
    generalize mulTruncInt P (decQuoTruncate a t) = s at h ⊢
    generalize (as.map (fun p => mulTruncInt P (decQuoTruncate p t))).sum = S at ih ⊢
    generalize e18 = E at h ih ⊢
    grind

/-- **rounding dust**: what a distribution among `n` validators leaves in a pool `P` is less than
    `n·(1 + P/10¹⁸)`: `P·10¹⁸ < (Σ shares)·10¹⁸ + n·(10¹⁸ + P)` -/
theorem dust_lt (P : Nat) (ps : List Nat) (ht : 0 < ps.sum) :
    P * e18 < (ps.map (fun p => mulTruncInt P (decQuoTruncate p ps.sum))).sum * e18 + ps.length * (e18 + P) := by
  have h := shares_lower_aux P ps.sum ht ps
  have hn : 0 < ps.length := by
    cases ps with
    | nil => simp at ht
    | cons a as => simp
  generalize (ps.map (fun p => mulTruncInt P (decQuoTruncate p ps.sum))).sum = S at h ⊢
  generalize ps.length = n at h hn ⊢
  generalize ps.sum = T at h ht ⊢
  generalize e18 = E at h ⊢
  have h' : (P * E) * T < (S * E + n * (E + P)) * T := by grind
  exact Nat.lt_of_mul_lt_mul_right h'

end Goat.Locking
