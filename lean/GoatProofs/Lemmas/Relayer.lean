import GoatModel.Relayer
namespace Goat.Relayer

/-! ### bitmap lemmas -/

/-- the bits of a byte, counted -/
theorem popByte_eq (x : Nat) (hx : x < 256) :
    popByte x = ((List.range 8).filter (fun i => (x / 2 ^ i) % 2 == 1)).length := by
  have : ∀ y : Fin 256, popByte y.val = ((List.range 8).filter (fun i => (y.val / 2 ^ i) % 2 == 1)).length := by
    decide +kernel
  exact this ⟨x, hx⟩

theorem bitmapContains_cons (x : UInt8) (xs : Bytes) (i : Nat) :
    bitmapContains (x :: xs) i = if i < 8 then ((x.toNat / 2 ^ i) % 2 == 1) else bitmapContains xs (i - 8) := by
  unfold bitmapContains
  by_cases h : i < 8
  · have h0 : i / 8 = 0 := Nat.div_eq_of_lt h
    have h1 : i % 8 = i := Nat.mod_eq_of_lt h
    simp [h, h0, h1]
  · have h2 : i / 8 = (i - 8) / 8 + 1 := by omega
    have h3 : i % 8 = (i - 8) % 8 := by omega
    simp [h, h2, h3]

/-- `Count()` is the number of positions below `8·len` that are contained -/
theorem bitmapCount_eq (b : Bytes) :
    bitmapCount b = ((List.range (8 * b.length)).filter (bitmapContains b)).length := by
  induction b with
  | nil => simp [bitmapCount]
  | cons x xs ih =>
    have hsplit : List.range (8 * (x :: xs).length) = List.range 8 ++ (List.range (8 * xs.length)).map (· + 8) := by
      have : 8 * (x :: xs).length = 8 + 8 * xs.length := by simp [Nat.mul_succ, Nat.add_comm]
      rw [this, List.range_add]
      congr 1
      apply List.map_congr_left
      intro a _; omega
    rw [hsplit, List.filter_append, List.length_append]
    unfold bitmapCount at ih ⊢
    simp only [List.map_cons, List.sum_cons]
    rw [ih, popByte_eq x.toNat (UInt8.toNat_lt x)]
    have e1 : (List.range 8).filter (fun i => (x.toNat / 2 ^ i) % 2 == 1) = (List.range 8).filter (bitmapContains (x :: xs)) := by
      apply List.filter_congr
      intro i hi
      have : i < 8 := List.mem_range.mp hi
      rw [bitmapContains_cons]; simp [this]
    have e2 : ((List.range (8 * xs.length)).filter (bitmapContains xs)).length
        = (((List.range (8 * xs.length)).map (· + 8)).filter (bitmapContains (x :: xs))).length := by
      rw [List.filter_map, List.length_map]
      apply congrArg
      apply List.filter_congr
      intro i _
      simp only [Function.comp]
      rw [bitmapContains_cons]
      have : ¬ (i + 8 < 8) := by omega
      simp [this]
    rw [e1, e2]

theorem bitmapContains_lt (b : Bytes) (i : Nat) (h : bitmapContains b i = true) : i < 8 * b.length := by
  unfold bitmapContains at h
  cases hb : b[i / 8]? with
  | none => simp [hb] at h
  | some x =>
    have := (List.getElem?_eq_some_iff.mp hb).1
    omega

/-- if the marks below `n` are all the marks, every mark is below `n` -/
theorem marks_below (b : Bytes) (n : Nat) (h : bitmapMarksBelow b n = bitmapCount b) :
    ∀ i, bitmapContains b i = true → i < n := by
  intro i hi
  rw [bitmapCount_eq] at h
  unfold bitmapMarksBelow at h
  have hlt := bitmapContains_lt b i hi
  apply Classical.byContradiction
  intro hn
  have hn : n ≤ i := Nat.le_of_not_lt hn
  -- the filter over range (max n (8·len)) has at least one more element (i) than the filter over range n
  have key : ∀ (m n : Nat), n ≤ i → i < m →
      ((List.range n).filter (bitmapContains b)).length < ((List.range m).filter (bitmapContains b)).length := by
    intro m n hni him
    have hsub : List.range m = List.range n ++ (List.range (m - n)).map (· + n) := by
      have : m = n + (m - n) := by omega
      conv => lhs; rw [this]
      rw [List.range_add]
      congr 1; apply List.map_congr_left; intro a _; omega
    rw [hsub, List.filter_append, List.length_append]
    have : 0 < (List.filter (bitmapContains b) (List.map (fun x => x + n) (List.range (m - n)))).length := by
      apply List.length_pos_of_mem (a := i)
      rw [List.mem_filter]
      refine ⟨?_, hi⟩
      rw [List.mem_map]
      exact ⟨i - n, List.mem_range.mpr (by omega), by omega⟩
    omega
  have := key (8 * b.length) n hn hlt
  omega

/-! ### key collection -/

/-- the marked voters, in list order -/
def markedFrom (bitmap : Bytes) : List String → Nat → List String
  | [], _ => []
  | v :: rest, i => if bitmapContains bitmap i then v :: markedFrom bitmap rest (i + 1) else markedFrom bitmap rest (i + 1)

def markedVoters (s : State) (bitmap : Bytes) : List String := markedFrom bitmap s.voters 0

theorem collectKeys_go_spec (s : State) (bitmap : Bytes) (vs : List String) (i : Nat) (acc : List Bytes) (ks : List Bytes)
    (h : collectKeys.go s bitmap vs i acc = some ks) :
    ∃ ks', ks = acc.reverse ++ ks' ∧
      (markedFrom bitmap vs i).mapM (fun v => (lookup s.recs v).map (·.voteKey)) = some ks' := by
  induction vs generalizing i acc ks with
  | nil =>
    simp [collectKeys.go] at h
    exact ⟨[], by simp [h], by simp [markedFrom]⟩
  | cons v rest ih =>
    unfold collectKeys.go at h
    by_cases hb : bitmapContains bitmap i = true
    · simp only [hb, if_true] at h
      cases hl : lookup s.recs v with
      | none => simp [hl] at h
      | some r =>
        simp only [hl] at h
        obtain ⟨ks', h1, h2⟩ := ih (i + 1) (r.voteKey :: acc) ks h
        refine ⟨r.voteKey :: ks', by simp [h1], ?_⟩
        simp [markedFrom, hb, hl, h2]
    · simp only [hb] at h
      obtain ⟨ks', h1, h2⟩ := ih (i + 1) acc ks h
      refine ⟨ks', h1, ?_⟩
      simp [markedFrom, hb, h2]

theorem markedFrom_length (bitmap : Bytes) (vs : List String) (i : Nat) :
    (markedFrom bitmap vs i).length = ((List.range vs.length).filter (fun j => bitmapContains bitmap (i + j))).length := by
  induction vs generalizing i with
  | nil => simp [markedFrom]
  | cons v rest ih =>
    have hr : List.range (v :: rest).length = 0 :: (List.range rest.length).map (· + 1) := by
      simp [List.range_succ_eq_map]
    rw [hr, List.filter_cons]
    unfold markedFrom
    have hshift : (List.filter (fun j => bitmapContains bitmap (i + j)) (List.map (fun x => x + 1) (List.range rest.length))).length
        = (List.filter (fun j => bitmapContains bitmap (i + 1 + j)) (List.range rest.length)).length := by
      rw [List.filter_map, List.length_map]
      apply congrArg; apply List.filter_congr; intro a _
      simp only [Function.comp]; congr 1; omega
    by_cases hb : bitmapContains bitmap i = true
    · simp [hb, ih, hshift]
    · simp [hb, ih, hshift]

theorem markedVoters_length (s : State) (bitmap : Bytes) :
    (markedVoters s bitmap).length = bitmapMarksBelow bitmap s.voters.length := by
  unfold markedVoters bitmapMarksBelow
  rw [markedFrom_length]
  simp

theorem mapM_option_length {α β} (f : α → Option β) (l : List α) (r : List β) (h : l.mapM f = some r) :
    r.length = l.length := by
  induction l generalizing r with
  | nil => simp at h; subst h; rfl
  | cons a as ih =>
    rw [List.mapM_cons] at h
    cases hf : f a with
    | none => simp [hf] at h
    | some b =>
      cases hm : as.mapM f with
      | none => simp [hf, hm] at h
      | some bs =>
        simp [hf, hm] at h
        subst h
        simp [ih bs hm]

theorem threshold_spec (n : Nat) : 3 * threshold n ≥ 2 * (n + 1) ∧ 3 * (threshold n - 1) < 2 * (n + 1) := by
  unfold threshold; omega

end Goat.Relayer
