/-
  C09H — history-level statements of C09: along ARBITRARY finite operation lists run through
  `Driver.step` the recorded execution head only ever moves along parent → child links, a block that
  is not committed moves it back to a head recorded before, the committed head's number never
  decreases, and the beacon root never changes without the head.

  (The two `Std.Data.String` imports — part of the Lean toolchain, not Mathlib — are used only in the
  non-vacuity section 6, for `"1".toNat? = some 1` and the like: `String.toNat?` / `toInt?` do not
  reduce in the kernel.)
-/
import GoatModel.Driver
import GoatProofs.C09
import Std.Data.String.ToNat
import Std.Data.String.ToInt
namespace Goat.C09H
open Goat Goat.App Goat.Wire Goat.Driver

/-! ### 1. child links and chains -/

/-- `b` is a direct child of `a`: its parent hash is `a`'s hash and its number is `a`'s number + 1 -/
def Child (a b : Head) : Prop := b.parentHash = a.blockHash ∧ b.blockNumber = a.blockNumber + 1

instance (a b : Head) : Decidable (Child a b) := by unfold Child; exact inferInstance

/-- reflexive-transitive closure of a relation -/
inductive RTC {α : Type} (r : α → α → Prop) : α → α → Prop where
  | refl (a : α) : RTC r a a
  | tail {a b c : α} : RTC r a b → r b c → RTC r a c

theorem RTC.single {α : Type} {r : α → α → Prop} {a b : α} (h : r a b) : RTC r a b := .tail (.refl a) h

theorem RTC.trans {α : Type} {r : α → α → Prop} {a b c : α} (h1 : RTC r a b) (h2 : RTC r b c) : RTC r a c := by
  induction h2 with
  | refl => exact h1
  | tail _ hr ih => exact .tail ih hr

theorem RTC.map {α β : Type} {r : α → α → Prop} {s : β → β → Prop} (f : α → β)
    (hf : ∀ x y, r x y → s (f x) (f y)) {a b : α} (h : RTC r a b) : RTC s (f a) (f b) := by
  induction h with
  | refl => exact .refl _
  | tail _ hr ih => exact .tail ih (hf _ _ hr)

/-- `b` is reachable from `a` by zero or more parent → child links -/
def Chain : Head → Head → Prop := RTC Child

/-- the same on the goat module's whole state (head + beacon root): one link is a child link of the
    heads; the beacon root of the new state is free (it is the hash of the finalising consensus block) -/
def GChild (a b : GState) : Prop := Child a.head b.head
def GChain : GState → GState → Prop := RTC GChild

theorem Chain.refl (a : Head) : Chain a a := RTC.refl a
theorem Chain.trans {a b c : Head} (h1 : Chain a b) (h2 : Chain b c) : Chain a c := RTC.trans h1 h2
theorem Chain.step {a b c : Head} (h1 : Chain a b) (h2 : Child b c) : Chain a c := RTC.tail h1 h2
theorem GChain.heads {a b : GState} (h : GChain a b) : Chain a.head b.head :=
  RTC.map (fun g : GState => g.head) (fun _ _ h => h) h

/-- chains with their number of links -/
inductive ChainN : Nat → Head → Head → Prop where
  | zero (a : Head) : ChainN 0 a a
  | succ {n : Nat} {a b c : Head} : ChainN n a b → Child b c → ChainN (n + 1) a c

theorem chain_iff_chainN (a b : Head) : Chain a b ↔ ∃ n, ChainN n a b := by
  constructor
  · intro h
    induction h with
    | refl => exact ⟨0, .zero _⟩
    | tail _ hr ih => obtain ⟨n, hn⟩ := ih; exact ⟨n + 1, .succ hn hr⟩
  · rintro ⟨n, hn⟩
    induction hn with
    | zero => exact Chain.refl _
    | succ _ hr ih => exact Chain.step ih hr

/-! ### 3a. along a chain the number counts the links -/

/-- a chain of `n` links raises the block number by exactly `n` -/
theorem chainN_number {n : Nat} {a b : Head} (h : ChainN n a b) : b.blockNumber = a.blockNumber + n := by
  induction h with
  | zero => rfl
  | succ _ hr ih => rw [hr.2, ih]; omega

/-- the number is equal at both ends iff the chain has no link -/
theorem chainN_number_eq_iff {n : Nat} {a b : Head} (h : ChainN n a b) : a.blockNumber = b.blockNumber ↔ n = 0 := by
  rw [chainN_number h]; omega

theorem chainN_zero {a b : Head} (h : ChainN 0 a b) : a = b := by cases h; rfl

/-- along a chain the block number never decreases -/
theorem chain_number_le {a b : Head} (h : Chain a b) : a.blockNumber ≤ b.blockNumber := by
  obtain ⟨n, hn⟩ := (chain_iff_chainN a b).1 h; rw [chainN_number hn]; omega

/-- a chain either has no link (same head) or strictly raises the number -/
theorem chain_eq_or_lt {a b : Head} (h : Chain a b) : a = b ∨ a.blockNumber < b.blockNumber := by
  obtain ⟨n, hn⟩ := (chain_iff_chainN a b).1 h
  cases n with
  | zero => exact Or.inl (chainN_zero hn)
  | succ n => right; rw [chainN_number hn]; omega

/-- **Monotone, with equality iff no step was taken.** -/
theorem head_number_monotone {a b : Head} (h : Chain a b) :
    a.blockNumber ≤ b.blockNumber ∧ (a.blockNumber = b.blockNumber ↔ a = b) := by
  refine ⟨chain_number_le h, ?_, fun e => by rw [e]⟩
  intro e
  rcases chain_eq_or_lt h with h | h
  · exact h
  · omega

/-- a head is never replaced by a different head of the same height (a sibling), … -/
theorem no_sibling {a b : Head} (h : Chain a b) (hn : b.blockNumber = a.blockNumber) : b = a :=
  ((head_number_monotone h).2.1 hn.symm).symm

/-- … nor by a head of a smaller height (an ancestor, or anything else below) -/
theorem no_ancestor {a b : Head} (h : Chain a b) : ¬ b.blockNumber < a.blockNumber := by
  have := chain_number_le h; omega

/-- the same for whole goat states: one link strictly raises the number, so a chain that ends at the
    same height has no link — head AND beacon root are the ones it started from -/
theorem gchain_eq_or_lt {a b : GState} (h : GChain a b) : a = b ∨ a.head.blockNumber < b.head.blockNumber := by
  induction h with
  | refl => exact Or.inl rfl
  | tail _ hr ih =>
    right
    have := hr.2
    rcases ih with ih | ih
    · rw [← ih] at this; omega
    · omega

/-! ### 4. single steps: which operations touch the goat module's state -/

/-- state-loading operations: the harness's way of installing an arbitrary initial state -/
def isLoad (k : String) : Bool := k == "reset" || k == "init.goat" || k.startsWith "load."

/-- the two of them that write the goat module's state or the saved pre-state (the `load.*` kinds
    write other modules only) -/
def isInstall (k : String) : Bool := k == "reset" || k == "init.goat"

theorem not_install_of_not_load {k : String} (h : isLoad k = false) : isInstall k = false := by
  unfold isLoad at h; unfold isInstall
  cases h1 : (k == "reset") <;> cases h2 : (k == "init.goat") <;> simp_all

/-- none of the operations is a state-loading one -/
def NoLoad (ops : List Op) : Prop := ∀ o ∈ ops, isLoad o.kind = false
def NoInstall (ops : List Op) : Prop := ∀ o ∈ ops, isInstall o.kind = false

instance (ops : List Op) : Decidable (NoLoad ops) := by unfold NoLoad; exact inferInstance
instance (ops : List Op) : Decidable (NoInstall ops) := by unfold NoInstall; exact inferInstance

theorem NoLoad.noInstall {ops : List Op} (h : NoLoad ops) : NoInstall ops :=
  fun o ho => not_install_of_not_load (h o ho)

/-- one transaction: the goat state stays, or the operation is the execution-block message and the
    new head is a direct child of the old one -/
theorem runTx_goat (d : D) (o : Op) :
    (runTx d o).1.goat = d.goat ∨ (o.kind = "tx.ethblock" ∧ GChild d.goat (runTx d o).1.goat) := by
  unfold runTx
  split
  · exact Or.inl rfl
  · exact Or.inl rfl
  · split
    · exact Or.inl rfl
    · split
      · rename_i hk
        split
        · rename_i d' hd
          obtain ⟨p, _, _, _, h3, h4, _, _, h7, _⟩ := C09.head_becomes_payload d d' o hd
          right
          refine ⟨by simpa using hk, ?_⟩
          show Child _ _
          rw [h7]; exact ⟨h3, h4⟩
        · exact Or.inl rfl
        · exact Or.inl rfl
      · split <;> exact Or.inl rfl

private theorem ite_pair_fst' {α β : Type} (c : Bool) (r : α × β) (x : β) :
    (if c = true then (r.1, x) else r).1 = r.1 := by split <;> rfl

/-- what one operation can do to (goat state, saved pre-state) -/
def Shape (d d' : D) (k : String) : Prop :=
  (d'.goat = d.goat ∧ d'.snap = d.snap) ∨
  (k = "a.blockstart" ∧ d'.goat = d.goat ∧ d'.snap = some (d.w, d.goat)) ∨
  (k = "tx.ethblock" ∧ GChild d.goat d'.goat ∧ d'.snap = d.snap) ∨
  (k = "a.end" ∧ d'.goat = d.goat ∧ d'.snap = none) ∨
  (k = "a.end" ∧ ∃ w g, d.snap = some (w, g) ∧ d'.w = w ∧ d'.goat = g ∧ d'.snap = none)

theorem failBlock_shape (d : D) (eng : List String) (cls : String) :
    ((failBlock d eng cls).1.goat = d.goat ∧ (failBlock d eng cls).1.snap = none) ∨
    (∃ w g, d.snap = some (w, g) ∧ (failBlock d eng cls).1.w = w ∧ (failBlock d eng cls).1.goat = g ∧
      (failBlock d eng cls).1.snap = none) := by
  unfold failBlock
  cases hs : d.snap with
  | none => exact Or.inl ⟨rfl, rfl⟩
  | some p => obtain ⟨w0, g0⟩ := p; exact Or.inr ⟨w0, g0, rfl, rfl, rfl, rfl⟩

theorem endBlock_shape (d : D) (time : Int) (ns fs : String) :
    ((endBlock d time ns fs).1.goat = d.goat ∧ (endBlock d time ns fs).1.snap = none) ∨
    (∃ w g, d.snap = some (w, g) ∧ (endBlock d time ns fs).1.w = w ∧ (endBlock d time ns fs).1.goat = g ∧
      (endBlock d time ns fs).1.snap = none) := by
  unfold endBlock
  dsimp only
  split
  · exact failBlock_shape ..
  split
  · exact failBlock_shape ..
  · exact failBlock_shape ..
  split
  · exact failBlock_shape ..
  · exact failBlock_shape ..
  split
  · exact failBlock_shape ..
  · exact failBlock_shape ..
  · exact Or.inl ⟨rfl, rfl⟩

/-- **Every operation that is not `reset` / `init.goat` has one of five effects** on (goat state, saved
    pre-state): nothing; a block start saving the current state; an execution-block message moving the
    head to a direct child; an end of block dropping the saved state; an end of block restoring it. -/
theorem step_shape (d : D) (o : Op) (hk : isInstall o.kind = false) : Shape d (step d o).1 o.kind := by
  unfold isInstall at hk
  unfold step
  split
  · rename_i h; simp [h] at hk
  · exact Or.inl ⟨rfl, rfl⟩
  · exact Or.inl ⟨rfl, rfl⟩
  · exact Or.inl ⟨rfl, rfl⟩
  · exact Or.inl ⟨rfl, rfl⟩
  · exact Or.inl ⟨rfl, rfl⟩
  · rename_i h; simp [h] at hk
  · exact Or.inl ⟨rfl, rfl⟩
  · rename_i h; exact Or.inr (Or.inl ⟨h, rfl, rfl⟩)
  · exact Or.inl ⟨rfl, rfl⟩
  · exact Or.inl ⟨rfl, rfl⟩
  · exact Or.inl ⟨rfl, rfl⟩
  · exact Or.inl ⟨rfl, rfl⟩
  · exact Or.inl ⟨rfl, rfl⟩
  · exact Or.inl ⟨rfl, rfl⟩
  · exact Or.inl ⟨rfl, rfl⟩
  · rename_i h
    dsimp only
    rcases endBlock_shape d (o.int "time") (o.str "newstatus") (o.str "fcustatus") with h1 | h1
    · exact Or.inr (Or.inr (Or.inr (Or.inl ⟨h, h1⟩)))
    · exact Or.inr (Or.inr (Or.inr (Or.inr ⟨h, h1⟩)))
  · exact Or.inl ⟨rfl, rfl⟩
  · split
    · rw [ite_pair_fst']
      rcases runTx_goat d o with h1 | ⟨h1, h2⟩
      · exact Or.inl ⟨h1, C09.runTx_keeps_snap d o⟩
      · exact Or.inr (Or.inr (Or.inl ⟨h1, h2, C09.runTx_keeps_snap d o⟩))
    · split
      · generalize World.step d.w o = q
        obtain ⟨w', r⟩ := q
        dsimp only
        refine Or.inl ?_
        split <;> split <;> exact ⟨rfl, rfl⟩
      · exact Or.inl ⟨rfl, rfl⟩

/-- the execution-block message is run as a transaction -/
theorem step_ethblock_eq_runTx (d : D) (o : Op) (hk : o.kind = "tx.ethblock") : (step d o).1 = (runTx d o).1 := by
  unfold step
  split <;> try (rename_i h; rw [hk] at h; simp at h)
  rw [if_pos (by rw [hk]; simp)]
  exact ite_pair_fst' _ _ _

theorem step_end_eq_endBlock (d : D) (o : Op) (hk : o.kind = "a.end") :
    (step d o).1 = (endBlock d (o.int "time") (o.str "newstatus") (o.str "fcustatus")).1 := by
  unfold step; simp only [hk]

/-- **Only the execution-block message moves the head**: an operation that is neither that message,
    nor a state-loading operation, nor the end of a block leaves the goat module's state (head and
    beacon root) exactly as it was. -/
theorem only_ethblock_ops_move_head (d : D) (o : Op) (h1 : o.kind ≠ "tx.ethblock")
    (h2 : isLoad o.kind = false) (h3 : o.kind ≠ "a.end") : (step d o).1.goat = d.goat := by
  rcases step_shape d o (not_install_of_not_load h2) with h | ⟨_, h, _⟩ | ⟨h, _⟩ | ⟨h, _⟩ | ⟨h, _⟩
  · exact h.1
  · exact h
  · exact absurd h h1
  · exact absurd h h3
  · exact absurd h h3

/-- … and the saved pre-state too, except that a block start saves the current state -/
theorem other_ops_keep_snap (d : D) (o : Op) (h1 : o.kind ≠ "a.blockstart")
    (h2 : isLoad o.kind = false) (h3 : o.kind ≠ "a.end") : (step d o).1.snap = d.snap := by
  rcases step_shape d o (not_install_of_not_load h2) with h | ⟨h, _⟩ | ⟨_, _, h⟩ | ⟨h, _⟩ | ⟨h, _⟩
  · exact h.2
  · exact absurd h h1
  · exact h
  · exact absurd h h3
  · exact absurd h h3

theorem blockstart_op_saves (d : D) (o : Op) (hk : o.kind = "a.blockstart") :
    (step d o).1.goat = d.goat ∧ (step d o).1.snap = some (d.w, d.goat) := by
  unfold step; simp only [hk]; exact ⟨rfl, rfl⟩

/-- **The end of a block keeps the goat state or restores the saved one** (and drops the saved state) -/
theorem end_op_keeps_or_restores (d : D) (o : Op) (hk : o.kind = "a.end") :
    ((step d o).1.goat = d.goat ∨ ∃ w g, d.snap = some (w, g) ∧ (step d o).1.w = w ∧ (step d o).1.goat = g) ∧
    (step d o).1.snap = none := by
  rw [step_end_eq_endBlock d o hk]
  rcases endBlock_shape d (o.int "time") (o.str "newstatus") (o.str "fcustatus") with h | ⟨w, g, h1, h2, h3, h4⟩
  · exact ⟨Or.inl h.1, h.2⟩
  · exact ⟨Or.inr ⟨w, g, h1, h2, h3⟩, h4⟩

/-- a block that ends without being committed (in particular: on an engine error / INVALID,
    `C09.engine_fault_not_committed`) inside a started block restores exactly the saved state -/
theorem end_op_uncommitted_restores (d : D) (o : Op) (hk : o.kind = "a.end") (w0 : World.W) (g0 : GState)
    (hs : d.snap = some (w0, g0))
    (hnc : (endBlock d (o.int "time") (o.str "newstatus") (o.str "fcustatus")).2.1 = false) :
    (step d o).1.w = w0 ∧ (step d o).1.goat = g0 ∧ (step d o).1.snap = none := by
  rw [step_end_eq_endBlock d o hk]
  exact C09.uncommitted_block_restores_prestate d _ _ _ w0 g0 hs hnc

/-- **The execution-block message**: either nothing of the goat state changes, or its payload is a
    direct child of the recorded head naming the recorded beacon root, the new head is that payload and
    the new beacon root is the operation's `headerhash`. -/
theorem ethblock_op_moves_to_child (d : D) (o : Op) (hk : o.kind = "tx.ethblock") :
    (step d o).1.goat = d.goat ∨
    ∃ p, payloadOf o = some p ∧ p.parentHash = d.goat.head.blockHash ∧
      p.blockNumber = d.goat.head.blockNumber + 1 ∧ p.beaconRoot = d.goat.beaconRoot ∧
      (step d o).1.goat = { head := { blockHash := p.blockHash, blockNumber := p.blockNumber, parentHash := p.parentHash },
                            beaconRoot := o.bytes "headerhash" } := by
  rw [step_ethblock_eq_runTx d o hk]
  unfold runTx
  split
  · exact Or.inl rfl
  · exact Or.inl rfl
  · split
    · exact Or.inl rfl
    · split
      · split
        · rename_i d' hd
          obtain ⟨p, hp, _, _, h3, h4, _, h6, h7, h8⟩ := C09.head_becomes_payload d d' o hd
          refine Or.inr ⟨p, hp, h3, h4, h6, ?_⟩
          show d'.goat = _
          have : d'.goat = ⟨d'.goat.head, d'.goat.beaconRoot⟩ := rfl
          rw [this, h7, h8]
        · exact Or.inl rfl
        · exact Or.inl rfl
      · split <;> exact Or.inl rfl

/-- **One step, the beacon root**: an operation that is not a state-loading one leaves the beacon root,
    or it is a successful execution-block message (the root becomes its `headerhash` and the head moves
    to a direct child), or it is the end of a block that is not committed (the saved state is back). -/
theorem beacon_root_step (d : D) (o : Op) (hl : isLoad o.kind = false) :
    (step d o).1.goat = d.goat ∨
    (o.kind = "tx.ethblock" ∧ (step d o).1.goat.beaconRoot = o.bytes "headerhash" ∧
      Child d.goat.head (step d o).1.goat.head) ∨
    (o.kind = "a.end" ∧ ∃ w g, d.snap = some (w, g) ∧ (step d o).1.goat = g) := by
  by_cases h1 : o.kind = "tx.ethblock"
  · rcases ethblock_op_moves_to_child d o h1 with h | ⟨p, _, h3, h4, _, h⟩
    · exact Or.inl h
    · refine Or.inr (Or.inl ⟨h1, ?_, ?_⟩)
      · rw [h]
      · rw [h]; exact ⟨h3, h4⟩
  · by_cases h3 : o.kind = "a.end"
    · rcases (end_op_keeps_or_restores d o h3).1 with h | ⟨w, g, h, _, h'⟩
      · exact Or.inl h
      · exact Or.inr (Or.inr ⟨h3, w, g, h, h'⟩)
    · exact Or.inl (only_ethblock_ops_move_head d o h1 hl h3)

/-! ### 2. histories

  Remarks on the model.  (i) The head moves when the execution-block message is *executed* inside the
  block and persists only if the block's `a.end` commits; `committed` below is the state that
  persists.  (ii) The harness may send the message outside any started block (no saved state): the
  model then applies it directly — still only to a direct child.  (iii) A second `a.blockstart` inside
  a running block overwrites the saved state with the current one; an abort then restores that one —
  still a head that had been recorded before.  The theorems below cover all of these. -/

/-- an arbitrary finite list of operations run through the driver's step function -/
def run : D → List Op → D := List.foldl (fun d o => (step d o).1)

@[simp] theorem run_nil (d : D) : run d [] = d := rfl
@[simp] theorem run_cons (d : D) (o : Op) (ops : List Op) : run d (o :: ops) = run (step d o).1 ops := rfl
theorem run_append (d : D) (ops1 ops2 : List Op) : run d (ops1 ++ ops2) = run (run d ops1) ops2 := by
  unfold run; rw [List.foldl_append]

/-- the goat state that is in force once the current block is over without a commit: the state saved
    at the block start if a block is running, else the current one.  Outside blocks this is the
    current state. -/
def committed (d : D) : GState :=
  match d.snap with
  | some (_, g) => g
  | none => d.goat

/-- the invariant: inside a block the current state is chain-reachable from the saved one -/
def WF (d : D) : Prop := ∀ w g, d.snap = some (w, g) → GChain g d.goat

theorem WF_of_snap_none {d : D} (h : d.snap = none) : WF d := by
  intro w g hs; rw [h] at hs; cases hs

theorem committed_of_snap_none {d : D} (h : d.snap = none) : committed d = d.goat := by
  unfold committed; rw [h]

theorem committed_of_snap_some {d : D} {w : World.W} {g : GState} (h : d.snap = some (w, g)) : committed d = g := by
  unfold committed; rw [h]

theorem committed_chain_goat {d : D} (hw : WF d) : GChain (committed d) d.goat := by
  cases hs : d.snap with
  | none => rw [committed_of_snap_none hs]; exact RTC.refl _
  | some p => obtain ⟨w, g⟩ := p; rw [committed_of_snap_some hs]; exact hw w g hs

/-- each of the five effects keeps the invariant and moves the committed state along a chain -/
theorem shape_preserves {d d' : D} {k : String} (hs : Shape d d' k) (hw : WF d) :
    WF d' ∧ GChain (committed d) (committed d') := by
  rcases hs with ⟨h1, h2⟩ | ⟨_, h1, h2⟩ | ⟨_, h1, h2⟩ | ⟨_, h1, h2⟩ | ⟨_, w, g, h0, _, h1, h2⟩
  · constructor
    · intro w g h; rw [h1]; exact hw w g (h2 ▸ h)
    · have : committed d' = committed d := by unfold committed; rw [h1, h2]
      rw [this]; exact RTC.refl _
  · constructor
    · intro w g h; rw [h2] at h; cases h; rw [h1]; exact RTC.refl _
    · rw [committed_of_snap_some h2]; exact committed_chain_goat hw
  · constructor
    · intro w g h; rw [h2] at h; exact RTC.tail (hw w g h) h1
    · cases hs : d.snap with
      | none =>
        rw [committed_of_snap_none hs, committed_of_snap_none (h2.trans hs)]; exact RTC.single h1
      | some p =>
        obtain ⟨w, g⟩ := p
        rw [committed_of_snap_some hs, committed_of_snap_some (h2.trans hs)]; exact RTC.refl _
  · constructor
    · exact WF_of_snap_none h2
    · rw [committed_of_snap_none h2, h1]; exact committed_chain_goat hw
  · constructor
    · exact WF_of_snap_none h2
    · rw [committed_of_snap_none h2, h1, committed_of_snap_some h0]; exact RTC.refl _

/-- one operation -/
theorem step_preserves (d : D) (o : Op) (hk : isInstall o.kind = false) (hw : WF d) :
    WF (step d o).1 ∧ GChain (committed d) (committed (step d o).1) :=
  shape_preserves (step_shape d o hk) hw

/-- any history -/
theorem run_preserves (ops : List Op) : ∀ (d : D), NoInstall ops → WF d →
    WF (run d ops) ∧ GChain (committed d) (committed (run d ops)) := by
  induction ops with
  | nil => intro d _ hw; exact ⟨hw, RTC.refl _⟩
  | cons o os ih =>
    intro d hn hw
    obtain ⟨h1, h2⟩ := step_preserves d o (hn o List.mem_cons_self) hw
    obtain ⟨h3, h4⟩ := ih (step d o).1 (fun x hx => hn x (List.mem_cons_of_mem _ hx)) h1
    exact ⟨h3, RTC.trans h2 h4⟩

/-- **History theorem, general form** (whole goat state; start possibly inside a block; `load.*`
    operations allowed — only `reset` and `init.goat` are excluded).  Between any two points of a
    history the committed state moves along a chain, and at every point the current state is
    chain-reachable from the committed one. -/
theorem history_chain (d0 : D) (ops1 ops2 : List Op) (hw : WF d0) (hn : NoInstall (ops1 ++ ops2)) :
    GChain (committed d0) (committed (run d0 ops1)) ∧
    GChain (committed (run d0 ops1)) (committed (run d0 (ops1 ++ ops2))) ∧
    GChain (committed (run d0 (ops1 ++ ops2))) (run d0 (ops1 ++ ops2)).goat := by
  have hn1 : NoInstall ops1 := fun o ho => hn o (List.mem_append_left _ ho)
  have hn2 : NoInstall ops2 := fun o ho => hn o (List.mem_append_right _ ho)
  obtain ⟨h1, h2⟩ := run_preserves ops1 d0 hn1 hw
  obtain ⟨h3, h4⟩ := run_preserves ops2 (run d0 ops1) hn2 h1
  rw [run_append]
  exact ⟨h2, h4, committed_chain_goat h3⟩

/-- **The recorded head only ever moves along parent → child links, and an aborted block moves it
    back to a head recorded before**: for every list of operations none of which is a state-loading
    one, run from a state outside any block, the head after the run and the head saved for the
    running block (if any) are both chain-reachable from the initial head. -/
theorem head_chain (d0 : D) (h0 : d0.snap = none) (ops : List Op) (hn : NoLoad ops) :
    Chain d0.goat.head (run d0 ops).goat.head ∧
    (∀ w g, (run d0 ops).snap = some (w, g) → Chain d0.goat.head g.head) := by
  obtain ⟨h1, h2⟩ := run_preserves ops d0 hn.noInstall (WF_of_snap_none h0)
  rw [committed_of_snap_none h0] at h2
  refine ⟨GChain.heads (RTC.trans h2 (committed_chain_goat h1)), ?_⟩
  intro w g hs
  rw [committed_of_snap_some hs] at h2
  exact h2.heads

/-- the same with the extra fact that the current head descends from the saved one -/
theorem head_chain_strong (d0 : D) (h0 : d0.snap = none) (ops : List Op) (hn : NoLoad ops) :
    ∀ w g, (run d0 ops).snap = some (w, g) →
      Chain d0.goat.head g.head ∧ Chain g.head (run d0 ops).goat.head := by
  obtain ⟨h1, h2⟩ := run_preserves ops d0 hn.noInstall (WF_of_snap_none h0)
  intro w g hs
  exact ⟨(head_chain d0 h0 ops hn).2 w g hs, (h1 w g hs).heads⟩

/-! ### 3b. the committed head never goes back

  The *current* head's number is not monotone along a history: a block that is not committed moves the
  head back to the saved one.  The right statement is about the committed state (`committed`): the
  state saved at the start of the running block, or the current state outside blocks. -/

/-- **Between any two points of a history the committed head moves along a chain**: its number never
    decreases, and if the number is the same the committed head (indeed the whole committed goat
    state) is the same — a committed head is never replaced by a sibling or an ancestor. -/
theorem head_number_monotone_committed (d0 : D) (h0 : d0.snap = none) (ops1 ops2 : List Op)
    (hn : NoLoad (ops1 ++ ops2)) :
    Chain (committed (run d0 ops1)).head (committed (run d0 (ops1 ++ ops2))).head ∧
    (committed (run d0 ops1)).head.blockNumber ≤ (committed (run d0 (ops1 ++ ops2))).head.blockNumber ∧
    ((committed (run d0 ops1)).head.blockNumber = (committed (run d0 (ops1 ++ ops2))).head.blockNumber →
      committed (run d0 (ops1 ++ ops2)) = committed (run d0 ops1)) := by
  obtain ⟨_, h, _⟩ := history_chain d0 ops1 ops2 (WF_of_snap_none h0) hn.noInstall
  refine ⟨h.heads, chain_number_le h.heads, fun e => ?_⟩
  rcases gchain_eq_or_lt h with h | h
  · exact h.symm
  · omega

/-- the current head is never below the committed one, and never below the initial one -/
theorem head_number_ge (d0 : D) (h0 : d0.snap = none) (ops : List Op) (hn : NoLoad ops) :
    d0.goat.head.blockNumber ≤ (committed (run d0 ops)).head.blockNumber ∧
    (committed (run d0 ops)).head.blockNumber ≤ (run d0 ops).goat.head.blockNumber := by
  have h := history_chain d0 ops [] (WF_of_snap_none h0) (by rw [List.append_nil]; exact hn.noInstall)
  rw [List.append_nil, committed_of_snap_none h0] at h
  exact ⟨chain_number_le h.1.heads, chain_number_le h.2.2.heads⟩

/-! ### 5. the beacon root moves only with the head -/

/-- **The beacon root tracks the head**: in a history without state-loading operations, whenever the
    head after the run has the number of the initial head, the whole goat state — head and beacon
    root — is the initial one; and the same between the committed states at any two points. -/
theorem beacon_root_tracks (d0 : D) (h0 : d0.snap = none) (ops : List Op) (hn : NoLoad ops)
    (he : (run d0 ops).goat.head.blockNumber = d0.goat.head.blockNumber) :
    (run d0 ops).goat.head = d0.goat.head ∧ (run d0 ops).goat.beaconRoot = d0.goat.beaconRoot := by
  obtain ⟨h1, h2⟩ := run_preserves ops d0 hn.noInstall (WF_of_snap_none h0)
  rw [committed_of_snap_none h0] at h2
  rcases gchain_eq_or_lt (RTC.trans h2 (committed_chain_goat h1)) with h | h
  · rw [← h]; exact ⟨rfl, rfl⟩
  · omega

theorem beacon_root_tracks_committed (d0 : D) (h0 : d0.snap = none) (ops1 ops2 : List Op)
    (hn : NoLoad (ops1 ++ ops2))
    (he : (committed (run d0 (ops1 ++ ops2))).head = (committed (run d0 ops1)).head) :
    (committed (run d0 (ops1 ++ ops2))).beaconRoot = (committed (run d0 ops1)).beaconRoot := by
  rw [(head_number_monotone_committed d0 h0 ops1 ops2 hn).2.2 (by rw [he])]

/-! ### 6. non-vacuity: a concrete two-block history -/

section Example
open Goat.World

/-- `newEthBlock` with the two parsed inputs whose parsers (`String.toNat?`, `String.splitOn`,
    `String.toInt?`) do not reduce in the kernel taken as parameters; `newEthBlock_eq_P` is `rfl` -/
def newEthBlockP (d : D) (o : Op) (pl : Option App.Payload) (lr : Locking.Reqs) : Outcome D :=
  let rc := relCrypto d.w.o
  let bc := btcCrypto d.w.o
  let proposer := o.bytes "proposer"
  let comet := o.bytes "comet"
  match pl with
  | none => if proposer ≠ comet then .err "proposer" else .panic "nil-payload"
  | some p =>
  match App.newEthBlockChecks d.goat proposer comet (some p) with
  | .err e => .err e
  | .panic e => .panic e
  | .ok p =>
    match dueTxs d.w with
    | .err e => .err e
    | .panic e => .panic e
    | .ok (btc1, lk1, dueB, dueL) =>
      match App.verifyDequeue p.extraData p.txs dueB dueL with
      | .err _ => .err "dequeue-mismatch"
      | .panic e => .panic e
      | .ok () =>
        if o.str "reqdecode" == "err" then .err "requests-decode"
        else
          let w1 := { d.w with btc := btc1, lock := lk1 }
          match Locking.processRequests rc.hash160 (fun a => w1.accounts.contains a) w1.lock (o.int "height") (o.int "time") lr with
          | .err e => .err e
          | .panic e => .panic e
          | .ok (lk2, accs) =>
            match Bitcoin.processBridgeRequest bc w1.btc (bridgeReqs o) with
            | .err e => .err e
            | .panic e => .panic e
            | .ok btc2 =>
              let adds := (o.list "adds").map (fun x => let f := flds x; ({ voter := fitLeft 20 (bytesOf f[0]!), keyHash := fitLeft 32 (bytesOf f[1]!) } : Relayer.AddReq))
              let removes := (o.list "removes").map (fun x => fitLeft 20 (bytesOf x))
              let rel2 := Relayer.processRequest rc w1.rel (o.nat "height") adds removes
              .ok { d with w := { w1 with lock := lk2, btc := btc2, rel := rel2, accounts := w1.accounts ++ accs },
                           goat := { head := { blockHash := p.blockHash, blockNumber := p.blockNumber, parentHash := p.parentHash },
                                     beaconRoot := o.bytes "headerhash" } }

theorem newEthBlock_eq_P (d : D) (o : Op) : newEthBlock d o = newEthBlockP d o (payloadOf o) (lockReqs o) := rfl

/-- a step with the execution-block message, through the twin -/
theorem step_eth_twin (d : D) (o : Op) (pl : Option App.Payload) (lr : Locking.Reqs)
    (hk : o.kind = "tx.ethblock") (ha : ante d o = .ok ()) (hg : (o.str "oog" == "1") = false)
    (hp : payloadOf o = pl) (hl : lockReqs o = lr) :
    (step d o).1 = (match newEthBlockP d o pl lr with | .ok d' => d' | _ => d) := by
  rw [step_ethblock_eq_runTx d o hk]
  subst hp hl
  unfold runTx
  rw [ha]
  simp only [hg, hk, BEq.rfl, if_true, Bool.false_eq_true, if_false]
  rw [newEthBlock_eq_P]
  cases newEthBlockP d o (payloadOf o) (lockReqs o) <;> rfl

theorem toNat_1 : "1".toNat? = some 1 := by
  rw [String.toNat?_eq_some_ofDigitChars (String.isNat_of_isDigit (by decide) (by decide))]; decide
theorem toNat_2 : "2".toNat? = some 2 := by
  rw [String.toNat?_eq_some_ofDigitChars (String.isNat_of_isDigit (by decide) (by decide))]; decide

theorem toNat_0 : "0".toNat? = some 0 := by
  rw [String.toNat?_eq_some_ofDigitChars (String.isNat_of_isDigit (by decide) (by decide))]; decide
theorem toInt_0 : "0".toInt? = some 0 := String.toInt?_eq_some_iff.2 (Or.inl ⟨0, toNat_0, rfl⟩)
theorem splitOn_0 : "0".splitOn "," = ["0"] := by
  unfold String.splitOn
  rw [if_neg (by decide), String.splitOnAux, if_neg (by decide +kernel), if_neg (by decide +kernel),
    String.splitOnAux, if_pos (by decide +kernel)]
  decide +kernel

/-- 33 zero bytes: no transaction root, no system transaction -/
def extra0 : String := "000000000000000000000000000000000000000000000000000000000000000000"
def oStart : Op := { kind := "a.blockstart", args := [] }
/-- block 1: child of the initial head (hash [], number 0), consensus block hash c1 -/
def oEth1 : Op := { kind := "tx.ethblock", args := [("number", "1"), ("hash", "aa"), ("extra", extra0), ("gas", "0"), ("headerhash", "c1")] }
def oEndOk : Op := { kind := "a.end", args := [("newstatus", "VALID"), ("fcustatus", "VALID")] }
/-- block 2: child of block 1, naming the recorded beacon root c1 -/
def oEth2 : Op := { kind := "tx.ethblock", args := [("number", "2"), ("parent", "aa"), ("hash", "bb"), ("beacon", "c1"), ("extra", extra0), ("gas", "0"), ("headerhash", "c2")] }
/-- the engine's forkchoice call errors -/
def oEndErr : Op := { kind := "a.end", args := [("newstatus", "VALID"), ("fcustatus", "ERROR")] }
def hist : List Op := [oStart, oEth1, oEndOk, oStart, oEth2, oEndErr]
def d0 : D := {}

theorem hist_noLoad : NoLoad hist := by decide +kernel

def pay (o : Op) (n : Nat) : App.Payload :=
  { parentHash := o.bytes "parent", feeRecipient := o.bytes "feerecip", blockNumber := n,
    blockHash := o.bytes "hash", blobGasUsed := o.nat "blob", beaconRoot := o.bytes "beacon",
    extraData := o.bytes "extra", txs := o.list "txs", timestampInFuture := o.bool "tsfuture" }
def lr0 (o : Op) : Locking.Reqs := { lockReqs o with gas := [0] }

theorem payloadOf_oEth1 : payloadOf oEth1 = some (pay oEth1 1) := by
  have hn : Op.nat oEth1 "number" = 1 := by
    show (Option.bind (some "1") String.toNat?).getD 0 = 1
    rw [Option.bind_some, toNat_1]; rfl
  unfold payloadOf
  rw [if_neg (by decide +kernel), hn]; rfl

theorem payloadOf_oEth2 : payloadOf oEth2 = some (pay oEth2 2) := by
  have hn : Op.nat oEth2 "number" = 2 := by
    show (Option.bind (some "2") String.toNat?).getD 0 = 2
    rw [Option.bind_some, toNat_2]; rfl
  unfold payloadOf
  rw [if_neg (by decide +kernel), hn]; rfl

theorem lockReqs_gas0 (o : Op) (h : o.str "gas" = "0") : lockReqs o = lr0 o := by
  have hg : (lockReqs o).gas = [0] := by
    show (listOf (o.str "gas")).map intOf = [0]
    rw [h]; unfold listOf
    rw [if_neg (by decide), splitOn_0]
    show [("0".toInt?).getD 0] = [0]
    rw [toInt_0]; rfl
  show (⟨(lockReqs o).gas, _, _, _, _, _, _, _⟩ : Locking.Reqs) = _
  rw [hg]; rfl

/-- the six states of the history, in kernel-evaluable form -/
def e1 : D := (step d0 oStart).1
def e2 : D := match newEthBlockP e1 oEth1 (some (pay oEth1 1)) (lr0 oEth1) with | .ok d' => d' | _ => e1
def e3 : D := (step e2 oEndOk).1
def e4 : D := (step e3 oStart).1
def e5 : D := match newEthBlockP e4 oEth2 (some (pay oEth2 2)) (lr0 oEth2) with | .ok d' => d' | _ => e4
def e6 : D := (step e5 oEndErr).1

theorem step_e1 : (step e1 oEth1).1 = e2 :=
  step_eth_twin e1 oEth1 _ _ rfl (by decide +kernel) (by decide +kernel) payloadOf_oEth1 (lockReqs_gas0 oEth1 (by decide +kernel))
theorem step_e4 : (step e4 oEth2).1 = e5 :=
  step_eth_twin e4 oEth2 _ _ rfl (by decide +kernel) (by decide +kernel) payloadOf_oEth2 (lockReqs_gas0 oEth2 (by decide +kernel))

theorem run_hist_3 : run d0 [oStart, oEth1, oEndOk] = e3 := by
  show (step (step e1 oEth1).1 oEndOk).1 = e3
  rw [step_e1]; rfl
theorem run_hist_5 : run d0 [oStart, oEth1, oEndOk, oStart, oEth2] = e5 := by
  rw [show [oStart, oEth1, oEndOk, oStart, oEth2] = [oStart, oEth1, oEndOk] ++ [oStart, oEth2] from rfl, run_append, run_hist_3]
  show (step e4 oEth2).1 = e5
  exact step_e4
theorem run_hist : run d0 hist = e6 := by
  rw [show hist = [oStart, oEth1, oEndOk, oStart, oEth2] ++ [oEndErr] from rfl, run_append, run_hist_5]; rfl

def head1 : Head := { blockHash := [0xaa], blockNumber := 1, parentHash := [] }
def head2 : Head := { blockHash := [0xbb], blockNumber := 2, parentHash := [0xaa] }

theorem e3_goat : e3.goat = { head := head1, beaconRoot := [0xc1] } ∧ e3.snap.isNone = true := by decide +kernel

theorem e5_goat : e5.goat = { head := head2, beaconRoot := [0xc2] } ∧ e5.snap.isSome = true := by decide +kernel
theorem e6_goat : e6.goat = { head := head1, beaconRoot := [0xc1] } ∧ e6.snap.isNone = true := by decide +kernel

/-- **The concrete history**: from the empty state (head: hash [], number 0) block 1 — a valid child
    payload — is executed and committed (head = block 1, beacon root c1); block 2 — again a valid child —
    is executed (head = block 2, beacon root c2) but the engine's forkchoice call errors at the end of
    the block, so the block is not committed and head and beacon root are those of block 1 again. -/
theorem example_history :
    d0.goat.head = { blockHash := [], blockNumber := 0, parentHash := [] } ∧
    (run d0 [oStart, oEth1, oEndOk]).goat = { head := head1, beaconRoot := [0xc1] } ∧
    (run d0 [oStart, oEth1, oEndOk, oStart, oEth2]).goat = { head := head2, beaconRoot := [0xc2] } ∧
    (run d0 hist).goat = { head := head1, beaconRoot := [0xc1] } ∧ (run d0 hist).snap.isNone = true := by
  rw [run_hist_3, run_hist_5, run_hist]; exact ⟨rfl, e3_goat.1, e5_goat.1, e6_goat⟩

example : (run d0 hist).goat.head = head1 := by rw [example_history.2.2.2.1]
example : Child d0.goat.head head1 ∧ Child head1 head2 ∧ ¬ Child head2 head1 := by decide
/-- the first end of block commits, the second does not -/
example : (endBlock e2 (oEndOk.int "time") (oEndOk.str "newstatus") (oEndOk.str "fcustatus")).2.1 = true ∧
    (endBlock e5 (oEndErr.int "time") (oEndErr.str "newstatus") (oEndErr.str "fcustatus")).2.1 = false := by
  decide +kernel
/-- the history theorems apply to it (their hypotheses hold) … -/
example : Chain d0.goat.head (run d0 hist).goat.head := (head_chain d0 rfl hist hist_noLoad).1
/-- … and while block 2 is running the saved head is block 1 and the current head its child -/
example : ∀ w g, (run d0 [oStart, oEth1, oEndOk, oStart, oEth2]).snap = some (w, g) →
    Chain d0.goat.head g.head ∧ Chain g.head head2 := by
  intro w g h
  have := head_chain_strong d0 rfl _ (by decide +kernel) w g h
  rw [example_history.2.2.1] at this
  exact this

end Example

end Goat.C09H

/-
  Summary (every theorem of this file, one line each)

  Chains
  * `RTC.single`, `RTC.trans`, `RTC.map`, `Chain.refl`, `Chain.trans`, `Chain.step`, `GChain.heads` —
    reflexive-transitive closure: one link is a chain, chains compose, chains of goat states project to
    chains of heads.
  * `chain_iff_chainN` — a chain is a chain of some number `n` of links.
  * `chainN_number` — `n` links raise the block number by exactly `n`.
  * `chainN_number_eq_iff` — the numbers at both ends are equal iff `n = 0`;  `chainN_zero` — then the heads are equal.
  * `chain_number_le` — along a chain the block number never decreases.
  * `chain_eq_or_lt` — a chain is trivial or strictly raises the number.
  * `head_number_monotone` — number monotone along a chain, equal iff the two heads are the same head.
  * `no_sibling`, `no_ancestor` — a chain never ends at a different head of the same height, nor below.
  * `gchain_eq_or_lt` — the same for (head, beacon root): same height ⇒ same head and same beacon root.

  Single steps
  * `not_install_of_not_load`, `NoLoad.noInstall` — excluding all state-loading kinds excludes `reset` / `init.goat`.
  * `runTx_goat` — a transaction leaves the goat state or is the execution-block message moving the head to a direct child.
  * `failBlock_shape`, `endBlock_shape` — the end of a block keeps the goat state or restores the saved one; the saved state is dropped.
  * `step_shape` — every operation but `reset` / `init.goat` has one of five effects on (goat state, saved state).
  * `step_ethblock_eq_runTx`, `step_end_eq_endBlock` — how `step` dispatches these two kinds.
  * `only_ethblock_ops_move_head` — kind ≠ tx.ethblock, not a load, not a.end ⇒ goat state unchanged.
  * `other_ops_keep_snap` — kind ≠ a.blockstart, not a load, not a.end ⇒ saved state unchanged.
  * `blockstart_op_saves` — a.blockstart keeps the goat state and saves (world, goat state).
  * `end_op_keeps_or_restores` — a.end keeps the goat state or restores the saved one, and drops the saved state.
  * `end_op_uncommitted_restores` — an a.end that does not commit inside a block restores exactly the saved world and goat state.
  * `ethblock_op_moves_to_child` — tx.ethblock changes nothing or makes the head its payload, a direct child naming the recorded
    beacon root, and the beacon root its `headerhash`.
  * `beacon_root_step` — one non-load step: goat state unchanged, or successful tx.ethblock (root = headerhash, head = child),
    or a.end restoring the saved state.

  Histories (`run` = fold of `step` over any list)
  * `run_nil`, `run_cons`, `run_append` — unfolding `run`.
  * `WF_of_snap_none`, `committed_of_snap_none`, `committed_of_snap_some`, `committed_chain_goat` — the invariant and the
    committed state; under the invariant the current state is chain-reachable from the committed one.
  * `shape_preserves`, `step_preserves`, `run_preserves` — the invariant is kept and the committed state moves along a chain:
    by each effect, by one operation, by any history.
  * `history_chain` — general form (start possibly inside a block, `load.*` allowed): between any two points the committed
    state moves along a chain and the current state is chain-reachable from it.
  * `head_chain` — from a state outside blocks, after any load-free history the head and the saved head are chain-reachable
    from the initial head.
  * `head_chain_strong` — and the current head is chain-reachable from the saved head.
  * `head_number_monotone_committed` — between any two points the committed head moves along a chain, its number never
    decreases, and equal numbers mean the same committed state (no sibling, no ancestor).
  * `head_number_ge` — initial number ≤ committed number ≤ current number.
  * `beacon_root_tracks` — if after a history the head has the initial number then head and beacon root are the initial ones.
  * `beacon_root_tracks_committed` — between two points: same committed head ⇒ same committed beacon root.

  Non-vacuity
  * `newEthBlock_eq_P`, `step_eth_twin` — `newEthBlock` through a twin taking the parsed payload / locking requests.
  * `toNat_0/1/2`, `toInt_0`, `splitOn_0`, `payloadOf_oEth1/2`, `lockReqs_gas0`, `hist_noLoad`, `step_e1`, `step_e4`,
    `run_hist_3`, `run_hist_5`, `run_hist`, `e3_goat`, `e5_goat`, `e6_goat` — evaluation of the concrete history.
  * `example_history` — block 1 (valid child) committed: head = block 1; block 2 (valid child) executed: head = block 2;
    engine error at its end: head and beacon root are block 1's again.

  Nothing is partial: every wished statement holds of the model as stated, with one reformulation — the number of
  the *current* head is not monotone along a history (an aborted block moves it back), so the monotonicity theorem
  is about the committed state.
-/
