/-
  C19 — failures change nothing.
  The "cannot crash" half of C19 is a statement about the Go runtime (panics, nil dereferences) and is
  decided by the correspondence harness on malformed inputs; the model represents a recovered panic as
  `Outcome.panic`.  What is proved here is the state half: a transaction that is rejected — by the
  ante chain or by its handler, with an error or with a (recovered) panic — leaves the modelled state
  of every module exactly as it was; and the converse bookkeeping: an `ok` answer is the only way any
  module's state moves.
-/
import GoatModel.Driver
namespace Goat.C19
open Goat Goat.Wire Goat.Driver Goat.World

theorem res_ne_ok {α} (r : Outcome α) (h : ∀ a, r ≠ .ok a) : "=> " ++ World.res r ≠ "=> ok" := by
  cases r with
  | ok a => exact absurd rfl (h a)
  | err e =>
    intro hh; simp only [World.res] at hh
    have := congrArg String.toList hh
    simp [String.toList_append] at this
  | panic e =>
    intro hh; simp only [World.res] at hh
    have := congrArg String.toList hh
    simp [String.toList_append] at this

/-- baseapp's write-back rule -/
theorem commitTx_failed {α} (w : W) (r : Outcome α) (f : α → W)
    (h : (commitTx w r f).2 ≠ "=> ok") : (commitTx w r f).1 = w := by
  unfold commitTx at h ⊢
  cases r with
  | ok a => exact absurd rfl h
  | err e => rfl
  | panic e => rfl

/-- **Keeper level**: a message whose handler does not answer `ok` changes no module's state. -/
theorem failed_msg_changes_nothing (w : W) (o : Op)
    (hf : (txStep w o).2 ≠ "=> ok") : (txStep w o).1 = w := by
  suffices h : ∀ p, txStep w o = p → p.2 ≠ "=> ok" → p.1 = w from h _ rfl hf
  intro p hp
  unfold txStep at hp
  dsimp only at hp
  split at hp <;> subst hp <;> first | exact commitTx_failed _ _ _ | (intro _; rfl)

/-- **Transaction level** (ante chain + handler, including the execution-block message with its
    dequeue verification and three request lists): anything but `ok` leaves the driver state — all
    module states, the execution head and beacon root — exactly as it was. -/
theorem failed_tx_changes_nothing (d : D) (o : Op) (hf : (runTx d o).2 ≠ "=> ok") : (runTx d o).1 = d := by
  suffices h : ∀ p, runTx d o = p → p.2 ≠ "=> ok" → p.1 = d from h _ rfl hf
  intro p hp
  unfold runTx at hp
  split at hp
  · subst hp; intro _; rfl
  · subst hp; intro _; rfl
  · split at hp
    · subst hp; intro _; rfl
    · split at hp
      · split at hp
        · subst hp; intro h; exact absurd rfl h
        · subst hp; intro _; rfl
        · subst hp; intro _; rfl
      · split at hp
        · subst hp; intro _; rfl
        · subst hp; intro h
          have := failed_msg_changes_nothing d.w o h
          simp only [this]

/-- a transaction rejected by the ante chain never reaches its handler -/
theorem ante_rejects_before_handler (d : D) (o : Op) (h : ante d o ≠ .ok ()) : (runTx d o).1 = d := by
  unfold runTx
  split
  · rfl
  · rfl
  · rename_i hu; exact absurd hu h

/-- CheckTx, ProcessProposal, exports and determinism probes never move the state. -/
theorem readonly_ops (d : D) (o : Op)
    (hk : o.kind = "a.checktx" ∨ o.kind = "a.process" ∨ o.kind = "a.export" ∨ o.kind = "a.det" ∨ o.kind = "tx.raw") :
    (Driver.step d o).1 = d := by
  unfold Driver.step
  rcases hk with hk | hk | hk | hk | hk <;> simp only [hk]

end Goat.C19
