/-
  C19 — failures change nothing.
  The "cannot crash" half of C19 is a statement about the Go runtime (panics, nil dereferences) and is
  decided by the correspondence harness on malformed inputs; the model represents a recovered panic as
  `Outcome.panic`.  What is proved here is the state half: a transaction that is rejected — by the
  ante chain or by its handler, with an error or with a (recovered) panic — leaves the modelled state
  of every module exactly as it was; and the converse bookkeeping: an `ok` answer is the only way any
  module's state moves.
-/
import GoatModel.Driver
namespace Goat.C19
open Goat Goat.Wire Goat.Driver Goat.World

theorem res_ne_ok {α} (r : Outcome α) (h : ∀ a, r ≠ .ok a) : "=> " ++ World.res r ≠ "=> ok" := by
  cases r with
  | ok a => exact absurd rfl (h a)
  | err e =>
    intro hh; simp only [World.res] at hh
    have := congrArg String.toList hh
    simp [String.toList_append] at this
  | panic e =>
    intro hh; simp only [World.res] at hh
    have := congrArg String.toList hh
    simp [String.toList_append] at this

/-- baseapp's write-back rule -/
theorem commitTx_failed {α} (w : W) (r : Outcome α) (f : α → W)
    (h : (commitTx w r f).2 ≠ "=> ok") : (commitTx w r f).1 = w := by
  unfold commitTx at h ⊢
  cases r with
  | ok a => exact absurd rfl h
  | err e => rfl
  | panic e => rfl

/-- **Keeper level**: a message whose handler does not answer `ok` changes no module's state. -/
theorem failed_msg_changes_nothing (w : W) (o : Op)
    (hf : (txStep w o).2 ≠ "=> ok") : (txStep w o).1 = w := by
  suffices h : ∀ p, txStep w o = p → p.2 ≠ "=> ok" → p.1 = w from h _ rfl hf
  intro p hp
  unfold txStep at hp
  dsimp only at hp
  split at hp <;> subst hp <;> first | exact commitTx_failed _ _ _ | (intro _; rfl)

/-- **Transaction level** (ante chain + handler, including the execution-block message with its
    dequeue verification and three request lists): anything but `ok` leaves the driver state — all
    module states, the execution head and beacon root — exactly as it was. -/
theorem failed_tx_changes_nothing (d : D) (o : Op) (hf : (runTx d o).2 ≠ "=> ok") : (runTx d o).1 = d := by
  suffices h : ∀ p, runTx d o = p → p.2 ≠ "=> ok" → p.1 = d from h _ rfl hf
  intro p hp
  unfold runTx at hp
  split at hp
  · subst hp; intro _; rfl
  · subst hp; intro _; rfl
  · split at hp
    · subst hp; intro _; rfl
    · split at hp
      · split at hp
        · subst hp; intro h; exact absurd rfl h
        · subst hp; intro _; rfl
        · subst hp; intro _; rfl
      · split at hp
        · subst hp; intro _; rfl
        · subst hp; intro h
          have := failed_msg_changes_nothing d.w o h
          simp only [this]

/-- a transaction rejected by the ante chain never reaches its handler -/
theorem ante_rejects_before_handler (d : D) (o : Op) (h : ante d o ≠ .ok ()) : (runTx d o).1 = d := by
  unfold runTx
  split
  · rfl
  · rfl
  · rename_i hu; exact absurd hu h

/-- CheckTx, ProcessProposal, exports and determinism probes never move the state. -/
theorem readonly_ops (d : D) (o : Op)
    (hk : o.kind = "a.checktx" ∨ o.kind = "a.process" ∨ o.kind = "a.export" ∨ o.kind = "a.det" ∨ o.kind = "tx.raw") :
    (Driver.step d o).1 = d := by
  unfold Driver.step
  rcases hk with hk | hk | hk | hk | hk <;> simp only [hk]

/-- the transactions of a block, one after the other -/
def runTxs (d : D) (ops : List Op) : D := ops.foldl (fun d o => (runTx d o).1) d

/-- **A failed transaction in isolation** (what the `a.failiso` runs observe on the real application): if the last
    transaction of a block fails, the block ends in the state it would have ended in without that transaction.  Ante-chain
    bookkeeping outside the four modules (the signer's account sequence) is not part of `D`. -/
theorem failed_last_tx_block_same (d : D) (ops : List Op) (o : Op)
    (hf : (runTx (runTxs d ops) o).2 ≠ "=> ok") : runTxs d (ops ++ [o]) = runTxs d ops := by
  unfold runTxs at *
  rw [List.foldl_append]
  simp only [List.foldl_cons, List.foldl_nil]
  exact failed_tx_changes_nothing _ o hf

/-- … and anywhere in the block: removing every failing transaction changes nothing -/
theorem failed_txs_can_be_dropped (d : D) : ∀ (ops : List Op),
    runTxs d ops = runTxs d (ops.foldl (fun (acc : List Op × D) o =>
      if (runTx acc.2 o).2 = "=> ok" then (acc.1 ++ [o], (runTx acc.2 o).1) else acc) ([], d)).1 := by
  intro ops
  suffices h : ∀ (ops : List Op) (pre : List Op) (dd : D), runTxs d pre = dd →
      runTxs dd ops = runTxs d (ops.foldl (fun (acc : List Op × D) o =>
        if (runTx acc.2 o).2 = "=> ok" then (acc.1 ++ [o], (runTx acc.2 o).1) else acc) (pre, dd)).1 from
    h ops [] d rfl
  intro ops
  induction ops with
  | nil => intro pre dd h; simp [runTxs] at *; exact h.symm
  | cons o os ih =>
    intro pre dd h
    simp only [List.foldl_cons]
    by_cases hok : (runTx dd o).2 = "=> ok"
    · rw [if_pos hok]
      have : runTxs d (pre ++ [o]) = (runTx dd o).1 := by
        unfold runTxs at *; rw [List.foldl_append, h]; rfl
      rw [← ih (pre ++ [o]) (runTx dd o).1 this]
      rfl
    · rw [if_neg hok]
      rw [← ih pre dd h]
      show runTxs (runTx dd o).1 os = runTxs dd os
      rw [failed_tx_changes_nothing dd o hok]

end Goat.C19
