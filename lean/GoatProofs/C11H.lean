/-
  C11H — history-level conservation of locked funds.

  "For every token, the total ever locked equals what validators currently hold locked plus what has
   been slashed plus what has been released through unlocks (queued or delivered).  A single unlock
   never releases more than was requested nor more than the validator still holds, and no held,
   slashed or released amount is ever negative.  This holds across any interleaving of validator
   creation, lock, unlock, token weight/threshold changes, downtime slashing and double-sign slashing."

  Formulation.  Holdings and slashed totals are keyed by the denomination string, unlock records by the
  token *address* (`Unlock.token`).  In the Go code the denomination is a function of the address
  (`types.TokenDenom(req.Token)`), the model's `UnlockReq` carries both (`token`, `tokenAddr`).  All
  measures are therefore taken per denomination `d` relative to an arbitrary but fixed map
  `denomOf : Bytes → String`; an unlock record counts for `d` iff `denomOf u.token = d`.  The only
  hypothesis connecting the two is stated on the requests: `denomOf r.tokenAddr = r.token`
  (`ReqOK`), which is what the Go code computes.  The exact step theorems (`unlockOne_exact`) do not
  need it: the holding of `r.token` falls and the queue of `denomOf r.tokenAddr` grows by the same
  amount.

  Well-formedness (`WF`).  The model keeps maps as association lists; the measures are sums over those
  lists, the model's updates replace *every* entry of a key.  Conservation needs what is true of the
  stores of the Go code: validator addresses are distinct, every holding is a proper `sdk.Coins`
  (one entry per denomination, `Canon`), the time keys of the unlock queue are distinct.  `WF` is
  preserved by every operation (proved below), so it is a hypothesis on the start state only.
  (`Example`: with a duplicated validator key one lock is counted twice — a model artefact.)

  Guards found in the model / Go code.  `lock` panics on a negative amount and `unlockCore` panics when
  `min(holding, requested) < 0` (`sdk.NewCoin`), so accepted amounts are ≥ 0 without any hypothesis on
  the requests.  Non-negativity after slashing needs the slash fractions to be ≤ 1 (`ParamsOK`, enforced
  by `Params.Validate` in the Go code); the parameters never change.  When the slash amount truncates
  to zero the *whole* coin is booked as slashed (Go: `if amount.IsZero() { amount = locking.Amount }`):
  conservation is unaffected.

  Main results: step theorems `lockOne_spec`, `lockOne_validator`, `lock_spec`, `unlockCore_spec`,
  `unlockOne_exact`, `unlockOne_spec`, `unlock_spec`, `slashAll_spec`, `handleVote_spec`,
  `handleVotes_spec`, `handleEvidence_spec`, `dequeueMature_spec`, `beginBlock_spec`, `dequeue_spec`,
  `processRequests_spec`, frames `create_frame`, `updateTokens_frame`, `onWeightChanged_frame`,
  `claim_frame`, `distributeReward_frame`, `updateRewardPool_frame`, `endBlocker_frame`; histories
  `apply_spec`, `history`, `conservation`, `nonnegativity`, `conservation_from_genesis`.
-/
import GoatModel.Locking
import GoatProofs.Lemmas.Locking
import GoatProofs.Lemmas.Arith
import GoatProofs.Lemmas.LockingConserve
namespace Goat.C11H
open Goat Goat.Locking

/-! ## measures -/

/-- what validators currently hold locked, per denomination -/
def held (s : State) (d : String) : Int := isum (s.validators.map (fun e => amountOf e.2.locking d))

/-- what has been slashed, per denomination -/
def slashedOf (s : State) (d : String) : Int := amountOf s.slashed d

/-- released but not yet handed over: time queue plus matured queue -/
def queued (denomOf : Bytes → String) (s : State) (d : String) : Int :=
  queueSum denomOf s.unlockQueue d + unlockSum denomOf s.qUnlocks d

theorem held_view (s : State) (d : String) : held s d = heldL (view s).locks d := by
  unfold held heldL view
  simp only [List.map_map]
  rfl

structure WF (s : State) : Prop where
  keys : KeysNodup (view s).locks
  canon : LAll Canon (view s).locks
  times : (s.unlockQueue.map (·.1)).Nodup

/-- no held, slashed or released amount is negative -/
structure NonNeg (s : State) : Prop where
  holdings : LAll CoinsNonneg (view s).locks
  slashed : ∀ d, 0 ≤ slashedOf s d
  queue : ∀ e ∈ s.unlockQueue, ∀ u ∈ e.2, 0 ≤ u.amount
  matured : ∀ u ∈ s.qUnlocks, 0 ≤ u.amount

/-- slash fractions are at most one (validated parameters) -/
def ParamsOK (s : State) : Prop := s.params.slashDowntime ≤ e18 ∧ s.params.slashDoubleSign ≤ e18

theorem NonNeg.held_nonneg {s : State} (h : NonNeg s) (d : String) : 0 ≤ held s d := by
  rw [held_view]; exact heldL_nonneg _ d h.holdings

theorem NonNeg.validator_nonneg {s : State} (h : NonNeg s) (a : Bytes) (v : Validator) (hv : vget s a = some v)
    (d : String) : 0 ≤ amountOf v.locking d := by
  have hg : locksGet (view s).locks a = some v.locking := by rw [locksGet_view, hv]; rfl
  exact amountOf_nonneg _ (lall_get CoinsNonneg _ a _ h.holdings hg) d

theorem NonNeg.queued_nonneg (denomOf : Bytes → String) {s : State} (h : NonNeg s) (d : String) :
    0 ≤ queued denomOf s d := by
  unfold queued queueSum unlockSum
  have h1 : ∀ (us : List Unlock), (∀ u ∈ us, 0 ≤ u.amount) → 0 ≤ isum (us.map (unlockAmt denomOf d)) := by
    intro us hus
    apply isum_nonneg
    intro x hx
    obtain ⟨u, hu, rfl⟩ := List.mem_map.mp hx
    unfold unlockAmt
    split
    · exact hus u hu
    · omega
  have h2 : 0 ≤ isum (s.unlockQueue.map (fun e => isum (e.2.map (unlockAmt denomOf d)))) := by
    apply isum_nonneg
    intro x hx
    obtain ⟨e, he, rfl⟩ := List.mem_map.mp hx
    exact h1 e.2 (h.queue e he)
  have h3 := h1 s.qUnlocks h.matured
  omega

/-! ## frame relation: nothing the measures read changes (except new empty holdings) -/

/-- held / slashed / queued all unchanged -/
structure Ext (s s' : State) : Prop where
  wf : WF s'
  params : s'.params = s.params
  slashed : s'.slashed = s.slashed
  unlockQueue : s'.unlockQueue = s.unlockQueue
  qUnlocks : s'.qUnlocks = s.qUnlocks
  held : ∀ d, held s' d = held s d
  nonneg : NonNeg s → NonNeg s'

theorem Ext.refl {s : State} (h : WF s) : Ext s s := ⟨h, rfl, rfl, rfl, rfl, fun _ => rfl, id⟩

theorem Ext.trans {a b c : State} (h1 : Ext a b) (h2 : Ext b c) : Ext a c :=
  ⟨h2.wf, h2.params.trans h1.params, h2.slashed.trans h1.slashed, h2.unlockQueue.trans h1.unlockQueue,
   h2.qUnlocks.trans h1.qUnlocks, fun d => (h2.held d).trans (h1.held d), fun h => h2.nonneg (h1.nonneg h)⟩

theorem Ext.slashedOf {s s' : State} (h : Ext s s') (d : String) : slashedOf s' d = slashedOf s d := by
  unfold C11H.slashedOf; rw [h.slashed]

theorem Ext.queued (denomOf : Bytes → String) {s s' : State} (h : Ext s s') (d : String) :
    queued denomOf s' d = queued denomOf s d := by
  unfold C11H.queued; rw [h.unlockQueue, h.qUnlocks]

theorem Ext.paramsOK {s s' : State} (h : Ext s s') (hp : ParamsOK s) : ParamsOK s' := by
  unfold ParamsOK; rw [h.params]; exact hp

/-- equal views: everything is unchanged -/
theorem Ext.of_view {s s' : State} (hw : WF s) (h : view s' = view s) : Ext s s' := by
  have hl : (view s').locks = (view s).locks := congrArg View.locks h
  have hp : s'.params = s.params := congrArg View.params h
  have hs : s'.slashed = s.slashed := congrArg View.slashed h
  have hq : s'.unlockQueue = s.unlockQueue := congrArg View.unlockQueue h
  have hu : s'.qUnlocks = s.qUnlocks := congrArg View.qUnlocks h
  refine ⟨⟨hl ▸ hw.keys, hl ▸ hw.canon, hq ▸ hw.times⟩, hp, hs, hq, hu, fun d => by rw [held_view, held_view, hl], ?_⟩
  intro hn
  refine ⟨hl ▸ hn.holdings, ?_, hq ▸ hn.queue, hu ▸ hn.matured⟩
  intro d; unfold C11H.slashedOf; rw [hs]; exact hn.slashed d

/-- rewriting a validator record without touching its holding keeps the view -/
theorem view_vset_same (s : State) (a : Bytes) (v v' : Validator) (hw : KeysNodup (view s).locks)
    (hv : vget s a = some v) (hl : v'.locking = v.locking) : view (vset s a v') = view s := by
  rw [view_vset, hl, locksSet_same _ _ _ hw (by rw [locksGet_view, hv]; rfl)]

/-! ## operations that change none of the measures -/

theorem updateRewardPool_view (s s' : State) (height : Int) (gas grants : List Int)
    (h : updateRewardPool s height gas grants = .ok s') : view s' = view s := by
  unfold updateRewardPool at h
  split at h
  · cases h
  · split at h
    · cases h
    · dsimp only at h
      split at h
      · cases h
      · cases h; rfl

theorem updateRewardPool_frame (s s' : State) (height : Int) (gas grants : List Int) (hw : WF s)
    (h : updateRewardPool s height gas grants = .ok s') : Ext s s' :=
  Ext.of_view hw (updateRewardPool_view s s' height gas grants h)

theorem claim_view (s s' : State) (reqs : List ClaimReq) (hw : WF s) (h : claim s reqs = .ok s') : view s' = view s := by
  unfold claim at h
  refine foldlM_inv (fun b => view b = view s) _ ?_ reqs s s' rfl h
  intro b r b' hb hstep
  dsimp only at hstep
  cases hv : vget b r.validator with
  | none => rw [hv] at hstep; cases hstep
  | some v =>
    rw [hv] at hstep
    cases hstep
    have hk : KeysNodup (view b).locks := by rw [hb]; exact hw.keys
    refine Eq.trans (view_vset_same _ r.validator v _ ?_ ?_ rfl) hb
    · exact hk
    · exact hv

theorem claim_frame (s s' : State) (reqs : List ClaimReq) (hw : WF s) (h : claim s reqs = .ok s') : Ext s s' :=
  Ext.of_view hw (claim_view s s' reqs hw h)

theorem distributeReward_go_view (total : Int) (s0 : State) (hw : WF s0) :
    ∀ (votes : List VoteInfo) (s : State) (rg rr : Int) (s' : State) (rg' rr' : Int),
      view s = view s0 → distributeReward.go total votes s rg rr = .ok (s', rg', rr') → view s' = view s0 := by
  intro votes
  induction votes with
  | nil =>
    intro s rg rr s' rg' rr' hs h
    unfold distributeReward.go at h
    cases h; exact hs
  | cons v rest ih =>
    intro s rg rr s' rg' rr' hs h
    unfold distributeReward.go at h
    cases hv : vget s v.address with
    | none => rw [hv] at h; cases h
    | some val =>
      rw [hv] at h
      dsimp only at h
      refine ih _ _ _ s' rg' rr' ?_ h
      have hk : KeysNodup (view s).locks := by rw [hs]; exact hw.keys
      refine Eq.trans (view_vset_same s v.address val _ hk hv ?_) hs
      rfl

theorem distributeReward_view (s s' : State) (height : Int) (votes : List VoteInfo) (hw : WF s)
    (h : distributeReward s height votes = .ok s') : view s' = view s := by
  unfold distributeReward at h
  split at h
  · cases h; rfl
  · split at h
    · cases h; rfl
    · dsimp only at h
      split at h
      · cases h
      · split at h
        · cases h
        · cases h
        · rename_i s2 rg rr heq
          cases h
          exact distributeReward_go_view _ s hw votes s _ _ s2 rg rr rfl heq

theorem distributeReward_frame (s s' : State) (height : Int) (votes : List VoteInfo) (hw : WF s)
    (h : distributeReward s height votes = .ok s') : Ext s s' :=
  Ext.of_view hw (distributeReward_view s s' height votes hw h)

theorem endBlocker_view (s s' : State) (ups : List Update) (hw : WF s) (h : endBlocker s = .ok (s', ups)) :
    view s' = view s := by
  unfold endBlocker at h
  dsimp only at h
  split at h
  · cases h
  · cases h
  · rename_i s1 leftovers ups1 heq
    have h1 : view s1 = view s := by
      refine foldlM_inv (fun (acc : State × List (Bytes × Nat) × List Update) => view acc.1 = view s) _ ?_ _ _ _ rfl heq
      intro acc e acc' hacc hstep
      obtain ⟨b, last, ups0⟩ := acc
      dsimp only at hstep hacc
      have hk : KeysNodup (view b).locks := by rw [hacc]; exact hw.keys
      cases hv : vget b e.2 with
      | none => rw [hv] at hstep; cases hstep
      | some v =>
        rw [hv] at hstep
        dsimp only at hstep
        split at hstep
        · split at hstep
          · cases hstep; exact hacc
          · cases hstep; exact hacc
        · split at hstep
          · cases hstep
          · cases hstep
            refine Eq.trans ?_ hacc
            refine Eq.trans ?_ (view_vset_same b e.2 v { v with status := .active, offset := 0, missed := 0 } hk hv rfl)
            rfl
        · cases hstep
    refine foldlM_inv (fun (acc : State × List Update) => view acc.1 = view s) _ ?_ _ _ _ h1 h
    intro acc e acc' hacc hstep
    obtain ⟨b, ups0⟩ := acc
    dsimp only at hstep hacc
    have hk : KeysNodup (view b).locks := by rw [hacc]; exact hw.keys
    cases hv : vget b e.1 with
    | none => rw [hv] at hstep; cases hstep
    | some v =>
      rw [hv] at hstep
      dsimp only at hstep
      cases hstep
      refine Eq.trans ?_ hacc
      split
      · refine Eq.trans ?_ (view_vset_same b e.1 v { v with status := .pending } hk hv rfl)
        rfl
      · rfl

theorem endBlocker_frame (s s' : State) (ups : List Update) (hw : WF s) (h : endBlocker s = .ok (s', ups)) : Ext s s' :=
  Ext.of_view hw (endBlocker_view s s' ups hw h)

theorem view_rank_ite (s : State) (p : Nat) (a : Bytes) : view (if p > 0 then rankSet s p a else s) = view s := by
  split
  · exact view_rankSet _ _ _
  · rfl

theorem onWeightChanged_view (s s' : State) (token : String) (prev cur : Nat) (hw : WF s)
    (h : onWeightChanged s token prev cur = .ok s') : view s' = view s := by
  unfold onWeightChanged at h
  split at h
  · cases h; rfl
  · dsimp only at h
    refine foldlM_inv (fun b => view b = view s) _ ?_ _ _ _ rfl h
    intro b e b' hb hstep
    have hk : KeysNodup (view b).locks := by rw [hb]; exact hw.keys
    cases hv : vget b e.1.2 with
    | none => rw [hv] at hstep; cases hstep
    | some v =>
      rw [hv] at hstep
      dsimp only at hstep
      have hv' : ∀ p, vget (rankRemove b p e.1.2) e.1.2 = some v := fun p => hv
      split at hstep
      · split at hstep
        · cases hstep
        · cases hstep
        · cases hstep
        · rename_i dlt _
          cases hstep
          refine Eq.trans ?_ hb
          rw [view_rank_ite]
          exact view_vset_same (rankRemove b v.power e.1.2) e.1.2 v _ hk (hv' _) rfl
      · split at hstep
        · cases hstep
        · cases hstep
        · cases hstep
        · rename_i dlt _
          cases hstep
          refine Eq.trans ?_ hb
          rw [view_rank_ite]
          exact view_vset_same (rankRemove b v.power e.1.2) e.1.2 v _ hk (hv' _) rfl

theorem updateTokens_view (s s' : State) (weights : List (String × Nat)) (thresholds : List (String × Int)) (hw : WF s)
    (h : updateTokens s weights thresholds = .ok s') : view s' = view s := by
  unfold updateTokens at h
  obtain ⟨s1, h1, h2⟩ := (bind_eq_ok _ _ _).mp h
  have hs1 : view s1 = view s := by
    refine foldlM_inv (fun b => view b = view s) _ ?_ _ _ _ rfl h1
    intro b u b' hb hstep
    dsimp only at hstep
    split at hstep
    · rename_i b2 heq
      cases hstep
      rw [view_tset]
      have hwb : WF b := (Ext.of_view hw hb).wf
      exact (onWeightChanged_view b b2 _ _ _ hwb heq).trans hb
    · cases hstep
    · cases hstep
  split at h2
  · cases h2; exact hs1
  · refine foldlM_inv (fun b => view b = view s) _ ?_ _ _ _ hs1 h2
    intro b u b' hb hstep
    dsimp only at hstep
    split at hstep
    · cases hstep
    · split at hstep
      · cases hstep; exact hb
      · split at hstep
        · cases hstep
        · cases hstep; rw [view_tset]; exact hb

theorem updateTokens_frame (s s' : State) (weights : List (String × Nat)) (thresholds : List (String × Int)) (hw : WF s)
    (h : updateTokens s weights thresholds = .ok s') : Ext s s' :=
  Ext.of_view hw (updateTokens_view s s' weights thresholds hw h)

theorem onWeightChanged_frame (s s' : State) (token : String) (prev cur : Nat) (hw : WF s)
    (h : onWeightChanged s token prev cur = .ok s') : Ext s s' :=
  Ext.of_view hw (onWeightChanged_view s s' token prev cur hw h)

/-- a new validator starts with an empty holding -/
theorem vset_new_ext (s : State) (a : Bytes) (v : Validator) (hw : WF s) (hv : vget s a = none) (hl : v.locking = []) :
    Ext s (vset s a v) := by
  have hg : locksGet (view s).locks a = none := by rw [locksGet_view, hv]; rfl
  have hview := view_vset s a v
  have hl' : (view (vset s a v)).locks = locksSet (view s).locks a [] := by rw [hview, hl]
  refine ⟨⟨?_, ?_, ?_⟩, ?_, ?_, ?_, ?_, ?_, ?_⟩
  · rw [hl']; exact keysNodup_locksSet _ _ _ hw.keys
  · rw [hl']; exact lall_locksSet Canon _ _ _ hw.canon canon_nil
  · rw [vset_unlockQueue]; exact hw.times
  · exact vset_params _ _ _
  · exact vset_slashed _ _ _
  · exact vset_unlockQueue _ _ _
  · exact vset_qUnlocks _ _ _
  · intro d
    rw [held_view, held_view, hl', heldL_locksSet_none _ _ _ _ hg]; simp
  · intro hn
    refine ⟨?_, ?_, ?_, ?_⟩
    · rw [hl']; exact lall_locksSet CoinsNonneg _ _ _ hn.holdings (fun e he => by cases he)
    · intro d; unfold C11H.slashedOf; rw [vset_slashed]; exact hn.slashed d
    · rw [vset_unlockQueue]; exact hn.queue
    · rw [vset_qUnlocks]; exact hn.matured

theorem create_frame (hash160 : Bytes → Bytes) (hasAccount : Bytes → Bool) (s s' : State) (reqs : List CreateReq)
    (accs : List Bytes) (hw : WF s) (h : create hash160 hasAccount s reqs = .ok (s', accs)) : Ext s s' := by
  unfold create at h
  refine foldlM_inv (fun (acc : State × List Bytes) => Ext s acc.1) _ ?_ _ _ _ (Ext.refl hw) h
  intro acc r acc' hacc hstep
  obtain ⟨b, newAccs⟩ := acc
  dsimp only at hstep hacc
  split at hstep
  · cases hstep
  · split at hstep
    · cases hstep; exact hacc
    · rename_i hnone
      cases hstep
      have hv : vget b (hash160 r.compressed) = none := by
        cases hx : vget b (hash160 r.compressed) with
        | none => rfl
        | some v => rw [hx] at hnone; simp at hnone
      exact hacc.trans (vset_new_ext b _ _ hacc.wf hv rfl)

/-! ## lock -/

/-- **lockOne, effect on the view**: the validator's holding becomes `holding + coins`, whatever its
    status (also for tombstoned / inactive / jailed validators the coins are credited); nothing else
    the measures read changes. -/
theorem lockOne_view (s s' : State) (now : Int) (a : Bytes) (coins : Coins) (h : lockOne s now a coins = .ok s') :
    ∃ v, vget s a = some v ∧
      view s' = { view s with locks := locksSet (view s).locks a (addCoins v.locking coins) } := by
  unfold lockOne at h
  cases hv : vget s a with
  | none => rw [hv] at h; cases h
  | some v =>
    rw [hv] at h
    dsimp only at h
    refine ⟨v, rfl, ?_⟩
    split at h
    · cases h
    · split at h
      · -- pending
        split at h
        · cases h
        · cases h
        · rename_i s2 pw heq
          cases h
          have hs2 : view s2 = view s := by
            refine foldlM_inv (fun (acc : State × Nat) => view acc.1 = view s) _ ?_ _ _ _ (view_rankRemove _ _ _) heq
            intro acc c acc' hacc hstep
            obtain ⟨b, pw0⟩ := acc
            dsimp only at hstep hacc
            split at hstep
            · cases hstep
            · split at hstep
              · cases hstep; exact hacc
              · cases hstep
              · cases hstep
          rw [view_vset, view_rank_ite, hs2]
      · -- active
        split at h
        · cases h
        · cases h
        · rename_i s2 pw heq
          cases h
          have hs2 : view s2 = view s := by
            refine foldlM_inv (fun (acc : State × Nat) => view acc.1 = view s) _ ?_ _ _ _ (view_rankRemove _ _ _) heq
            intro acc c acc' hacc hstep
            obtain ⟨b, pw0⟩ := acc
            dsimp only at hstep hacc
            split at hstep
            · cases hstep
            · split at hstep
              · cases hstep; exact hacc
              · cases hstep
              · cases hstep
          rw [view_vset, view_rank_ite, hs2]
      · -- downgrade
        split at h
        · split at h
          · cases h
          · cases h
          · rename_i s2 pw heq
            cases h
            have hs2 : view s2 = view s := by
              refine foldlM_inv (fun (acc : State × Nat) => view acc.1 = view s) _ ?_ _ _ _ rfl heq
              intro acc c acc' hacc hstep
              obtain ⟨b, pw0⟩ := acc
              dsimp only at hstep hacc
              split at hstep
              · cases hstep
              · split at hstep
                · split at hstep
                  · cases hstep
                  · cases hstep
                  · cases hstep
                  · cases hstep; exact hacc
                · cases hstep; exact hacc
            rw [view_vset, view_rank_ite, hs2]
        · cases h; rw [view_vset]
      · cases h; rw [view_vset]
      · cases h; rw [view_vset]

/-- replacing one validator's holding `v.locking` by `c'` -/
theorem holding_set (s s' : State) (a : Bytes) (v : Validator) (c' : Coins) (hw : WF s) (hv : vget s a = some v)
    (hl : (view s').locks = locksSet (view s).locks a c') (hc : Canon c') :
    KeysNodup (view s').locks ∧ LAll Canon (view s').locks ∧
    (∀ d, held s' d = held s d - amountOf v.locking d + amountOf c' d) ∧
    (LAll CoinsNonneg (view s).locks → CoinsNonneg c' → LAll CoinsNonneg (view s').locks) := by
  have hg : locksGet (view s).locks a = some v.locking := by rw [locksGet_view, hv]; rfl
  refine ⟨?_, ?_, ?_, ?_⟩
  · rw [hl]; exact keysNodup_locksSet _ _ _ hw.keys
  · rw [hl]; exact lall_locksSet Canon _ _ _ hw.canon hc
  · intro d; rw [held_view, held_view, hl, heldL_locksSet_some _ _ _ _ _ hw.keys hg]
  · intro hn hc'; rw [hl]; exact lall_locksSet CoinsNonneg _ _ _ hn hc'

theorem vget_canon (s : State) (a : Bytes) (v : Validator) (hw : WF s) (hv : vget s a = some v) : Canon v.locking :=
  lall_get Canon _ a _ hw.canon (by rw [locksGet_view, hv]; rfl)

theorem vget_nonneg (s : State) (a : Bytes) (v : Validator) (hn : NonNeg s) (hv : vget s a = some v) :
    CoinsNonneg v.locking :=
  lall_get CoinsNonneg _ a _ hn.holdings (by rw [locksGet_view, hv]; rfl)

/-- only the holdings change, by `δ` per denomination -/
structure LockRel (s s' : State) (δ : String → Int) : Prop where
  wf : WF s'
  params : s'.params = s.params
  slashed : s'.slashed = s.slashed
  unlockQueue : s'.unlockQueue = s.unlockQueue
  qUnlocks : s'.qUnlocks = s.qUnlocks
  held : ∀ d, held s' d = held s d + δ d

theorem LockRel.slashedOf {s s' : State} {δ : String → Int} (h : LockRel s s' δ) (d : String) :
    slashedOf s' d = slashedOf s d := by
  unfold C11H.slashedOf; rw [h.slashed]

theorem LockRel.queued (denomOf : Bytes → String) {s s' : State} {δ : String → Int} (h : LockRel s s' δ) (d : String) :
    queued denomOf s' d = queued denomOf s d := by
  unfold C11H.queued; rw [h.unlockQueue, h.qUnlocks]

/-- **lockOne**: `held` grows by exactly the coins of the request (sum per denomination); slashed
    and queued are unchanged; non-negativity is kept when the coins are non-negative. -/
theorem lockOne_spec (s s' : State) (now : Int) (a : Bytes) (coins : Coins) (hw : WF s)
    (h : lockOne s now a coins = .ok s') :
    LockRel s s' (coinsSum coins) ∧ (NonNeg s → CoinsNonneg coins → NonNeg s') := by
  obtain ⟨v, hv, hview⟩ := lockOne_view s s' now a coins h
  have hl : (view s').locks = locksSet (view s).locks a (addCoins v.locking coins) := congrArg View.locks hview
  have hp : s'.params = s.params := congrArg View.params hview
  have hs : s'.slashed = s.slashed := congrArg View.slashed hview
  have hq : s'.unlockQueue = s.unlockQueue := congrArg View.unlockQueue hview
  have hu : s'.qUnlocks = s.qUnlocks := congrArg View.qUnlocks hview
  obtain ⟨h1, h2, h3, h4⟩ := holding_set s s' a v _ hw hv hl (canon_addCoins _ coins (vget_canon s a v hw hv))
  refine ⟨⟨⟨h1, h2, hq ▸ hw.times⟩, hp, hs, hq, hu, ?_⟩, ?_⟩
  · intro d; rw [h3, amountOf_addCoins]; omega
  · intro hn hc
    refine ⟨h4 hn.holdings (nonneg_addCoins _ _ (vget_nonneg s a v hn hv) hc), ?_, hq ▸ hn.queue, hu ▸ hn.matured⟩
    intro d; unfold C11H.slashedOf; rw [hs]; exact hn.slashed d

/-- **lock**: a successful `lock` accepts every request; `held` grows by exactly the requested
    amounts per denomination, slashed and queued are unchanged.  `lock` itself rejects negative amounts
    (`negative-coin` panic of `sdk.NewCoin`), so non-negativity needs no hypothesis on the requests. -/
theorem lock_spec (s s' : State) (now : Int) (reqs : List LockReq) (hw : WF s) (h : lock s now reqs = .ok s') :
    LockRel s s' (lockSum reqs) ∧ (NonNeg s → NonNeg s') ∧ (∀ r ∈ reqs, 0 ≤ r.amount) := by
  unfold lock at h
  split at h
  · rename_i hemp
    cases h
    have : reqs = [] := by simpa using hemp
    subst this
    exact ⟨⟨hw, rfl, rfl, rfl, rfl, fun d => by simp [lockSum]⟩, id, fun r hr => by cases hr⟩
  · split at h
    · cases h
    · rename_i hneg
      have hpos : ∀ r ∈ reqs, 0 ≤ r.amount := by
        intro r hr
        by_cases hlt : r.amount < 0
        · exact absurd (List.any_eq_true.mpr ⟨r, hr, by simpa using hlt⟩) hneg
        · omega
      split at h
      · cases h
      · cases h
      · rename_i agg hagg
        obtain ⟨_, ha2, ha3, ha4⟩ := aggregateLocks_spec reqs agg hagg
        have hnn := ha4 hpos
        refine ⟨?_, ?_, hpos⟩
        · have key : ∀ d, (WF s' ∧ s'.params = s.params ∧ s'.slashed = s.slashed ∧ s'.unlockQueue = s.unlockQueue ∧
              s'.qUnlocks = s.qUnlocks) ∧ held s' d = held s d + isum (agg.map (fun e => coinsSum e.2 d)) := by
            intro d
            refine foldlM_sum (fun b => WF b ∧ b.params = s.params ∧ b.slashed = s.slashed ∧
              b.unlockQueue = s.unlockQueue ∧ b.qUnlocks = s.qUnlocks) (fun b => held b d) (fun e => coinsSum e.2 d) _ ?_
              agg s s' ⟨hw, rfl, rfl, rfl, rfl⟩ h
            intro b e b' hb hstep
            obtain ⟨hr, _⟩ := lockOne_spec b b' now e.1 e.2 hb.1 hstep
            exact ⟨⟨hr.wf, hr.params.trans hb.2.1, hr.slashed.trans hb.2.2.1, hr.unlockQueue.trans hb.2.2.2.1,
              hr.qUnlocks.trans hb.2.2.2.2⟩, hr.held d⟩
          obtain ⟨⟨k1, k2, k3, k4, k5⟩, _⟩ := key ""
          refine ⟨k1, k2, k3, k4, k5, ?_⟩
          intro d
          rw [(key d).2, ← ha3 d]
          unfold heldL
          congr 2
          apply List.map_congr_left
          intro e he
          exact ha2 e he d
        · intro hn
          refine foldlM_inv_mem (fun b => WF b ∧ NonNeg b) _ agg ?_ s s' ⟨hw, hn⟩ h |>.2
          intro b e b' he hb hstep
          obtain ⟨hr, hnb⟩ := lockOne_spec b b' now e.1 e.2 hb.1 hstep
          exact ⟨hr.wf, hnb hb.2 (hnn e he)⟩

/-! ## unlock -/

theorem view_foldl_idxRemove (a : Bytes) (cs : Coins) (st : State) :
    view (cs.foldl (fun s c => idxRemove s c.1 a) st) = view st := by
  induction cs generalizing st with
  | nil => rfl
  | cons c cs ih => rw [List.foldl_cons, ih]; rfl

/-- **unlockCore, effect on the view**: the released amount is `unlockAmount holding requested`
    (the model, like `sdk.NewCoin`, panics when that is negative), the holding of `r.token` drops
    by it, nothing else the measures read changes. -/
theorem unlockCore_view (s s3 : State) (r : UnlockReq) (ex : Bool) (amt : Int)
    (h : unlockCore s r = .ok (s3, ex, amt)) :
    ∃ v, vget s r.validator = some v ∧ amt = unlockAmount (amountOf v.locking r.token) r.amount ∧ 0 ≤ amt ∧
      view s3 = { view s with locks := (locksSet (view s).locks r.validator
                    (setAmount v.locking r.token (amountOf v.locking r.token - amt))) } := by
  unfold unlockCore at h
  cases hv : vget s r.validator with
  | none => rw [hv] at h; cases h
  | some v =>
    rw [hv] at h
    dsimp only at h
    refine ⟨v, rfl, ?_⟩
    split at h
    · cases h
    · split at h
      · cases h
      · rename_i hnn
        split at h
        · cases h
        · cases h
        · simp only [Outcome.ok.injEq, Prod.mk.injEq] at h
          obtain ⟨h1, _, h3⟩ := h
          subst h3
          refine ⟨rfl, by omega, ?_⟩
          rw [← h1, view_vset]
          split
          · dsimp only
            rw [view_foldl_idxRemove]; rfl
          · split
            · dsimp only
              rw [view_rank_ite]
              split
              · rfl
              · rfl
            · rfl

/-- **unlockOne, exactly**: the released amount `amt = min(holding, requested)` is non-negative
    (otherwise the operation panics: a negative request is never accepted), at most the request and at
    most the holding; `held` of the request's denomination drops by `amt`, `queued` of the
    denomination of the request's token address grows by `amt`, slashed is unchanged. -/
theorem unlockOne_exact (denomOf : Bytes → String) (s s' : State) (now : Int) (r : UnlockReq) (hw : WF s)
    (h : unlockOne s now r = .ok s') :
    ∃ v amt, vget s r.validator = some v ∧ amt = unlockAmount (amountOf v.locking r.token) r.amount ∧
      0 ≤ amt ∧ amt ≤ r.amount ∧ amt ≤ amountOf v.locking r.token ∧
      WF s' ∧ s'.params = s.params ∧ s'.slashed = s.slashed ∧
      (∀ d, held s' d = held s d - (if r.token = d then amt else 0)) ∧
      (∀ d, queued denomOf s' d = queued denomOf s d + (if denomOf r.tokenAddr = d then amt else 0)) ∧
      (NonNeg s → NonNeg s') := by
  unfold unlockOne at h
  split at h
  · cases h
  · cases h
  · rename_i s3 ex amt hcore
    cases h
    obtain ⟨v, hv, hamt, hpos, hview⟩ := unlockCore_view s s3 r ex amt hcore
    have hle : amt ≤ r.amount ∧ amt ≤ amountOf v.locking r.token := by
      rw [hamt]; unfold unlockAmount; split <;> omega
    generalize hu : ({ id := r.id, token := r.tokenAddr, recipient := r.recipient, amount := amt } : Unlock) = u
    generalize unlockTime s.params now ex = t
    have hl3 : (view s3).locks = locksSet (view s).locks r.validator
        (setAmount v.locking r.token (amountOf v.locking r.token - amt)) := congrArg View.locks hview
    have hp3 : s3.params = s.params := congrArg View.params hview
    have hs3 : s3.slashed = s.slashed := congrArg View.slashed hview
    have hq3 : s3.unlockQueue = s.unlockQueue := congrArg View.unlockQueue hview
    have hu3 : s3.qUnlocks = s.qUnlocks := congrArg View.qUnlocks hview
    have hq' : (enqueueUnlock s3 t u).unlockQueue = enq s.unlockQueue t u := by rw [← hq3]; rfl
    have hl' : (view (enqueueUnlock s3 t u)).locks = locksSet (view s).locks r.validator
        (setAmount v.locking r.token (amountOf v.locking r.token - amt)) := hl3
    obtain ⟨k1, k2, k3, k4⟩ := holding_set s (enqueueUnlock s3 t u) r.validator v _ hw hv hl'
      (canon_setAmount _ _ _ (vget_canon s _ v hw hv))
    refine ⟨v, amt, hv, hamt, hpos, hle.1, hle.2, ⟨k1, k2, ?_⟩, hp3, hs3, ?_, ?_, ?_⟩
    · rw [hq']; exact enq_keys_nodup _ _ _ hw.times
    · intro d
      rw [k3]
      by_cases hd : r.token = d
      · subst hd; rw [amountOf_setAmount_same, if_pos rfl]; omega
      · rw [amountOf_setAmount_other _ _ _ d (fun x => hd x.symm), if_neg hd]; omega
    · intro d
      unfold queued
      rw [hq', queueSum_enq denomOf _ t u d hw.times]
      have : (enqueueUnlock s3 t u).qUnlocks = s.qUnlocks := hu3
      rw [this]
      have : unlockAmt denomOf d u = if denomOf r.tokenAddr = d then amt else 0 := by rw [← hu]; rfl
      omega
    · intro hn
      refine ⟨k4 hn.holdings ?_, ?_, ?_, ?_⟩
      · exact nonneg_setAmount _ _ _ (vget_nonneg s _ v hn hv) (by omega)
      · intro d; show 0 ≤ amountOf s3.slashed d; rw [hs3]; exact hn.slashed d
      · intro e he x hx
        rw [hq'] at he
        rcases mem_enq _ _ _ e x he hx with hxu | ⟨e', he', hx'⟩
        · rw [hxu, ← hu]; exact hpos
        · exact hn.queue e' he' x hx'
      · show ∀ x ∈ s3.qUnlocks, 0 ≤ x.amount
        rw [hu3]; exact hn.matured

/-- the request's token address belongs to the request's denomination (what `types.TokenDenom`
    computes in the Go code) -/
def ReqOK (denomOf : Bytes → String) (r : UnlockReq) : Prop := denomOf r.tokenAddr = r.token

/-- held + queued is unchanged, slashed is unchanged -/
structure UnlockRel (denomOf : Bytes → String) (s s' : State) : Prop where
  wf : WF s'
  params : s'.params = s.params
  slashed : s'.slashed = s.slashed
  moved : ∀ d, held s' d + queued denomOf s' d = held s d + queued denomOf s d
  nonneg : NonNeg s → NonNeg s'

/-- **unlockOne, per denomination** (request consistent): what leaves the holding enters the queue -/
theorem unlockOne_spec (denomOf : Bytes → String) (s s' : State) (now : Int) (r : UnlockReq) (hw : WF s)
    (hr : ReqOK denomOf r) (h : unlockOne s now r = .ok s') : UnlockRel denomOf s s' := by
  obtain ⟨v, amt, _, _, _, _, _, h1, h2, h3, h4, h5, h6⟩ := unlockOne_exact denomOf s s' now r hw h
  refine ⟨h1, h2, h3, ?_, h6⟩
  intro d
  rw [h4, h5, hr]; omega

/-- **unlock** (all requests consistent): `held + queued` and `slashed` are unchanged -/
theorem unlock_spec (denomOf : Bytes → String) (s s' : State) (now : Int) (reqs : List UnlockReq) (hw : WF s)
    (hr : ∀ r ∈ reqs, ReqOK denomOf r) (h : unlock s now reqs = .ok s') : UnlockRel denomOf s s' := by
  unfold unlock at h
  refine foldlM_inv_mem (fun b => UnlockRel denomOf s b) _ reqs ?_ s s' ⟨hw, rfl, rfl, fun _ => rfl, id⟩ h
  intro b r b' hmem hb hstep
  have := unlockOne_spec denomOf b b' now r hb.wf (hr r hmem) hstep
  exact ⟨this.wf, this.params.trans hb.params, this.slashed.trans hb.slashed,
    fun d => (this.moved d).trans (hb.moved d), fun hn => this.nonneg (hb.nonneg hn)⟩

/-! ## per-validator form of lock / unlock, and the parameter hypothesis -/

theorem locksGet_locksSet_same (l : List (Bytes × Coins)) (a : Bytes) (c : Coins) :
    locksGet (locksSet l a c) a = some c := by
  unfold locksSet
  by_cases h : l.any (·.1 == a) = true
  · rw [if_pos h]
    induction l with
    | nil => simp at h
    | cons e es ih =>
      rw [List.map_cons, locksGet_cons]
      by_cases he : e.1 = a
      · have : (e.1 == a) = true := by simpa using he
        rw [this, if_pos rfl, if_pos rfl]
      · have h2 : (e.1 == a) = false := by simpa using he
        rw [List.any_cons, h2, Bool.false_or] at h
        rw [h2]
        simp only [Bool.false_eq_true, if_false]
        rw [if_neg he]
        exact ih h
  · rw [if_neg h]
    have hn : locksGet l a = none := by
      cases hg : locksGet l a with
      | none => rfl
      | some c' => exact absurd (locksGet_some_any l a c' hg) h
    induction l with
    | nil => simp [locksGet]
    | cons e es ih =>
      rw [locksGet_cons] at hn
      by_cases he : e.1 = a
      · rw [if_pos he] at hn; cases hn
      · rw [if_neg he] at hn
        have h2 : (e.1 == a) = false := by simpa using he
        rw [List.any_cons, h2, Bool.false_or] at h
        rw [List.cons_append, locksGet_cons, if_neg he]
        exact ih h hn

/-- **lockOne, per validator and denomination**: the holding of the addressed validator grows by
    exactly the coins of the request — also when it is tombstoned, inactive or jailed. -/
theorem lockOne_validator (s s' : State) (now : Int) (a : Bytes) (coins : Coins) (h : lockOne s now a coins = .ok s') :
    ∃ v v', vget s a = some v ∧ vget s' a = some v' ∧
      ∀ d, amountOf v'.locking d = amountOf v.locking d + coinsSum coins d := by
  obtain ⟨v, hv, hview⟩ := lockOne_view s s' now a coins h
  have hl : (view s').locks = locksSet (view s).locks a (addCoins v.locking coins) := congrArg View.locks hview
  have hg : locksGet (view s').locks a = some (addCoins v.locking coins) := by rw [hl]; exact locksGet_locksSet_same _ _ _
  rw [locksGet_view] at hg
  cases hv' : vget s' a with
  | none => rw [hv'] at hg; cases hg
  | some v' =>
    rw [hv'] at hg
    simp only [Option.map_some, Option.some.injEq] at hg
    exact ⟨v, v', hv, rfl, fun d => by rw [hg, amountOf_addCoins]⟩

/-- **unlockCore in terms of the measures**: `held` of the request's denomination drops by exactly
    the released amount `unlockAmount holding requested ≥ 0`; slashed and both queues are unchanged
    (the enqueue is done by `unlockOne`). -/
theorem unlockCore_spec (s s3 : State) (r : UnlockReq) (ex : Bool) (amt : Int) (hw : WF s)
    (h : unlockCore s r = .ok (s3, ex, amt)) :
    ∃ v, vget s r.validator = some v ∧ amt = unlockAmount (amountOf v.locking r.token) r.amount ∧
      0 ≤ amt ∧ amt ≤ r.amount ∧ amt ≤ amountOf v.locking r.token ∧
      LockRel s s3 (fun d => - (if r.token = d then amt else 0)) := by
  obtain ⟨v, hv, hamt, hpos, hview⟩ := unlockCore_view s s3 r ex amt h
  have hle : amt ≤ r.amount ∧ amt ≤ amountOf v.locking r.token := by
    rw [hamt]; unfold unlockAmount; split <;> omega
  have hl3 : (view s3).locks = locksSet (view s).locks r.validator
      (setAmount v.locking r.token (amountOf v.locking r.token - amt)) := congrArg View.locks hview
  have hq3 : s3.unlockQueue = s.unlockQueue := congrArg View.unlockQueue hview
  obtain ⟨k1, k2, k3, _⟩ := holding_set s s3 r.validator v _ hw hv hl3 (canon_setAmount _ _ _ (vget_canon s _ v hw hv))
  refine ⟨v, hv, hamt, hpos, hle.1, hle.2, ⟨k1, k2, hq3 ▸ hw.times⟩, congrArg View.params hview,
    congrArg View.slashed hview, hq3, congrArg View.qUnlocks hview, ?_⟩
  intro d
  rw [k3]
  by_cases hd : r.token = d
  · subst hd; rw [amountOf_setAmount_same, if_pos rfl]; omega
  · rw [amountOf_setAmount_other _ _ _ d (fun x => hd x.symm), if_neg hd]; omega

/-! ## slashing -/

theorem slashStep_spec (addr : Bytes) (frac : Nat) (acc : State × Coins) (c : String × Int) :
    (slashStep addr frac acc c).1.params = acc.1.params ∧
    (view (slashStep addr frac acc c).1).locks = (view acc.1).locks ∧
    (slashStep addr frac acc c).1.unlockQueue = acc.1.unlockQueue ∧
    (slashStep addr frac acc c).1.qUnlocks = acc.1.qUnlocks ∧
    (∀ d, slashedOf (slashStep addr frac acc c).1 d + amountOf (slashStep addr frac acc c).2 d
            = slashedOf acc.1 d + amountOf acc.2 d + (if c.1 = d then c.2 else 0)) ∧
    (Canon acc.2 → Canon (slashStep addr frac acc c).2) ∧
    (0 ≤ c.2 → frac ≤ e18 → CoinsNonneg acc.2 →
      CoinsNonneg (slashStep addr frac acc c).2 ∧ ∀ d, slashedOf acc.1 d ≤ slashedOf (slashStep addr frac acc c).1 d) := by
  have hbound : frac ≤ e18 → slashAmount c.2.toNat frac ≤ c.2.toNat := slashAmount_le c.2.toNat frac
  simp only [slashStep]
  generalize slashAmount c.2.toNat frac = a0 at hbound ⊢
  have hsl : ∀ x d, slashedOf (slashedAdd (idxRemove acc.1 c.1 addr) c.1 x) d
      = slashedOf acc.1 d + (if c.1 = d then x else 0) := by
    intro x d
    exact slashed_slashedAdd (idxRemove acc.1 c.1 addr) c.1 x d
  by_cases hz : (a0 : Int) = 0
  · rw [if_pos hz]
    refine ⟨rfl, rfl, rfl, rfl, ?_, id, ?_⟩
    · intro d; dsimp only; rw [hsl]; omega
    · intro hc _ hn
      refine ⟨hn, ?_⟩
      intro d; dsimp only; rw [hsl]; split <;> omega
  · rw [if_neg hz]
    refine ⟨rfl, rfl, rfl, rfl, ?_, ?_, ?_⟩
    · intro d; dsimp only; rw [hsl, amountOf_addCoin]; split <;> omega
    · intro hc; exact canon_addCoin _ _ _ hc
    · intro hc hf hn
      have hb := hbound hf
      refine ⟨nonneg_addCoin _ _ _ hn (by omega), ?_⟩
      intro d; dsimp only; rw [hsl]; split <;> omega

/-- **slashAll**: every coin of the holding is split into a slashed part and a remaining part; per
    denomination `slashed + remaining` grows by exactly the holding; the validator map, parameters and
    queues are untouched.  With non-negative coins and a fraction ≤ 1 both parts are non-negative. -/
theorem slashAll_spec (s : State) (addr : Bytes) (v : Validator) (frac : Nat) :
    (slashAll s addr v frac).1.params = s.params ∧
    (view (slashAll s addr v frac).1).locks = (view s).locks ∧
    (slashAll s addr v frac).1.unlockQueue = s.unlockQueue ∧
    (slashAll s addr v frac).1.qUnlocks = s.qUnlocks ∧
    (∀ d, slashedOf (slashAll s addr v frac).1 d + amountOf (slashAll s addr v frac).2 d
            = slashedOf s d + coinsSum v.locking d) ∧
    Canon (slashAll s addr v frac).2 ∧
    (CoinsNonneg v.locking → frac ≤ e18 →
      CoinsNonneg (slashAll s addr v frac).2 ∧ ∀ d, slashedOf s d ≤ slashedOf (slashAll s addr v frac).1 d) := by
  unfold slashAll
  generalize v.locking = cs
  have key : ∀ (cs : Coins) (acc : State × Coins),
      (cs.foldl (slashStep addr frac) acc).1.params = acc.1.params ∧
      (view (cs.foldl (slashStep addr frac) acc).1).locks = (view acc.1).locks ∧
      (cs.foldl (slashStep addr frac) acc).1.unlockQueue = acc.1.unlockQueue ∧
      (cs.foldl (slashStep addr frac) acc).1.qUnlocks = acc.1.qUnlocks ∧
      (∀ d, slashedOf (cs.foldl (slashStep addr frac) acc).1 d + amountOf (cs.foldl (slashStep addr frac) acc).2 d
              = slashedOf acc.1 d + amountOf acc.2 d + coinsSum cs d) ∧
      (Canon acc.2 → Canon (cs.foldl (slashStep addr frac) acc).2) ∧
      (CoinsNonneg cs → frac ≤ e18 → CoinsNonneg acc.2 →
        CoinsNonneg (cs.foldl (slashStep addr frac) acc).2 ∧
        ∀ d, slashedOf acc.1 d ≤ slashedOf (cs.foldl (slashStep addr frac) acc).1 d) := by
    intro cs
    induction cs with
    | nil =>
      intro acc
      exact ⟨rfl, rfl, rfl, rfl, fun d => by simp, id, fun _ _ h => ⟨h, fun d => Int.le_refl _⟩⟩
    | cons c cs ih =>
      intro acc
      obtain ⟨a1, a2, a3, a4, a5, a6, a7⟩ := slashStep_spec addr frac acc c
      obtain ⟨b1, b2, b3, b4, b5, b6, b7⟩ := ih (slashStep addr frac acc c)
      rw [List.foldl_cons]
      refine ⟨b1.trans a1, b2.trans a2, b3.trans a3, b4.trans a4, ?_, fun h => b6 (a6 h), ?_⟩
      · intro d; rw [b5, a5, coinsSum_cons]; omega
      · intro hcs hf hacc
        obtain ⟨x1, x2⟩ := a7 (hcs c List.mem_cons_self) hf hacc
        obtain ⟨y1, y2⟩ := b7 (fun e he => hcs e (List.mem_cons_of_mem _ he)) hf x1
        exact ⟨y1, fun d => Int.le_trans (x2 d) (y2 d)⟩
  obtain ⟨k1, k2, k3, k4, k5, k6, k7⟩ := key cs (s, [])
  refine ⟨k1, k2, k3, k4, ?_, k6 canon_nil, ?_⟩
  · intro d; rw [k5]; simp
  · intro hc hf; exact k7 hc hf (fun e he => by cases he)

/-- what a slash does: `held + slashed` is preserved, slashed never decreases (for non-negative
    holdings and fractions ≤ 1), the queues are untouched -/
structure SlashRel (s s' : State) : Prop where
  wf : WF s'
  params : s'.params = s.params
  unlockQueue : s'.unlockQueue = s.unlockQueue
  qUnlocks : s'.qUnlocks = s.qUnlocks
  moved : ∀ d, held s' d + slashedOf s' d = held s d + slashedOf s d
  nonneg : NonNeg s → ParamsOK s → NonNeg s' ∧ ∀ d, slashedOf s d ≤ slashedOf s' d

theorem SlashRel.refl {s : State} (h : WF s) : SlashRel s s :=
  ⟨h, rfl, rfl, rfl, fun _ => rfl, fun hn _ => ⟨hn, fun _ => Int.le_refl _⟩⟩

theorem SlashRel.trans {a b c : State} (h1 : SlashRel a b) (h2 : SlashRel b c) : SlashRel a c := by
  refine ⟨h2.wf, h2.params.trans h1.params, h2.unlockQueue.trans h1.unlockQueue, h2.qUnlocks.trans h1.qUnlocks,
    fun d => (h2.moved d).trans (h1.moved d), ?_⟩
  intro hn hp
  obtain ⟨x1, x2⟩ := h1.nonneg hn hp
  have hp' : ParamsOK b := by unfold ParamsOK; rw [h1.params]; exact hp
  obtain ⟨y1, y2⟩ := h2.nonneg x1 hp'
  exact ⟨y1, fun d => Int.le_trans (x2 d) (y2 d)⟩

theorem SlashRel.queued (denomOf : Bytes → String) {s s' : State} (h : SlashRel s s') (d : String) :
    queued denomOf s' d = queued denomOf s d := by
  unfold C11H.queued; rw [h.unlockQueue, h.qUnlocks]

theorem Ext.toSlashRel {s s' : State} (h : Ext s s') : SlashRel s s' := by
  refine ⟨h.wf, h.params, h.unlockQueue, h.qUnlocks, fun d => by rw [h.held, h.slashedOf], ?_⟩
  intro hn _
  exact ⟨h.nonneg hn, fun d => by rw [h.slashedOf]; exact Int.le_refl _⟩

/-- slash the whole holding of validator `a` (record `v`, rewritten to `v'` with the remaining coins) -/
theorem slash_validator (s s2 : State) (a : Bytes) (v v1 v' : Validator) (frac : Nat) (p : Nat) (upd : Coins) (hw : WF s)
    (hv : vget s a = some v) (h1 : v1.locking = v.locking)
    (hres : slashAll (rankRemove s p a) a v1 frac = (s2, upd)) (hl : v'.locking = upd) :
    WF (vset s2 a v') ∧ (vset s2 a v').params = s.params ∧ (vset s2 a v').unlockQueue = s.unlockQueue ∧
    (vset s2 a v').qUnlocks = s.qUnlocks ∧
    (∀ d, held (vset s2 a v') d + slashedOf (vset s2 a v') d = held s d + slashedOf s d) ∧
    (NonNeg s → frac ≤ e18 → NonNeg (vset s2 a v') ∧ ∀ d, slashedOf s d ≤ slashedOf (vset s2 a v') d) := by
  have hspec := slashAll_spec (rankRemove s p a) a v1 frac
  rw [hres] at hspec
  obtain ⟨k1, k2, k3, k4, k5, k6, k7⟩ := hspec
  dsimp only at k1 k2 k3 k4 k5 k6 k7
  have hl' : (view (vset s2 a v')).locks = locksSet (view s).locks a upd := by
    rw [view_vset, hl]; dsimp only; rw [k2]; rfl
  obtain ⟨w1, w2, w3, w4⟩ := holding_set s (vset s2 a v') a v upd hw hv hl' k6
  have hsl : ∀ d, slashedOf (vset s2 a v') d = slashedOf s2 d := fun d => by unfold slashedOf; rw [vset_slashed]
  have hcan := vget_canon s a v hw hv
  refine ⟨⟨w1, w2, ?_⟩, ?_, ?_, ?_, ?_, ?_⟩
  · rw [vset_unlockQueue, k3]; exact hw.times
  · rw [vset_params, k1]; rfl
  · rw [vset_unlockQueue, k3]; rfl
  · rw [vset_qUnlocks, k4]; rfl
  · intro d
    have e5 := k5 d
    rw [h1, hcan d] at e5
    have : slashedOf (rankRemove s p a) d = slashedOf s d := rfl
    rw [w3, hsl]; omega
  · intro hn hf
    obtain ⟨n1, n2⟩ := k7 (h1 ▸ vget_nonneg s a v hn hv) hf
    have hmono : ∀ d, slashedOf s d ≤ slashedOf (vset s2 a v') d := fun d => by rw [hsl]; exact n2 d
    refine ⟨⟨w4 hn.holdings n1, ?_, ?_, ?_⟩, hmono⟩
    · intro d; exact Int.le_trans (hn.slashed d) (hmono d)
    · rw [vset_unlockQueue, k3]; exact hn.queue
    · rw [vset_qUnlocks, k4]; exact hn.matured

/-- **downtime slashing** (`handleVote`): `held` decreases by exactly what `slashed` grows; queues,
    parameters untouched; with valid parameters nothing becomes negative and slashed does not shrink. -/
theorem handleVote_spec (s s' : State) (now : Int) (vi : VoteInfo) (hw : WF s) (h : handleVote s now vi = .ok s') :
    SlashRel s s' := by
  unfold handleVote at h
  cases hv : vget s vi.address with
  | none => rw [hv] at h; cases h
  | some v =>
    rw [hv] at h
    dsimp only at h
    split at h
    · cases h; exact SlashRel.refl hw
    · generalize (if vi.absent = true then v.missed + 1 else v.missed) = ms at h
      generalize (if ((v.offset + 1 : Nat) : Int) ≥ s.params.signedBlocksWindow then ((0 : Nat), (0 : Nat))
          else (ms, v.offset + 1)) = mo at h
      split at h
      · cases h
        obtain ⟨r1, r2, r3, r4, r5, r6⟩ := slash_validator s _ vi.address v { v with missed := mo.1, offset := mo.2 }
          { v with missed := mo.1, offset := mo.2,
                   locking := (slashAll (rankRemove s v.power vi.address) vi.address
                                { v with missed := mo.1, offset := mo.2 } s.params.slashDowntime).2,
                   status := .downgrade, power := 0,
                   jailedUntil := now + s.params.downtimeJail } s.params.slashDowntime v.power _ hw hv rfl rfl rfl
        exact ⟨r1, r2, r3, r4, r5, fun hn hp => r6 hn hp.1⟩
      · cases h
        refine (Ext.of_view hw ?_).toSlashRel
        exact view_vset_same s vi.address v _ hw.keys hv rfl

theorem handleVotes_spec (s s' : State) (now : Int) (votes : List VoteInfo) (hw : WF s)
    (h : handleVotes s now votes = .ok s') : SlashRel s s' := by
  unfold handleVotes at h
  refine foldlM_inv (fun b => SlashRel s b) _ ?_ votes s s' (SlashRel.refl hw) h
  intro b v b' hb hstep
  exact hb.trans (handleVote_spec b b' now v hb.wf hstep)

/-- **double-sign slashing** (`handleEvidence`): as for downtime -/
theorem handleEvidence_spec (s s' : State) (now height : Int) (maxAge : Option (Int × Int)) (e : Evidence) (hw : WF s)
    (h : handleEvidence s now height maxAge e = .ok s') : SlashRel s s' := by
  unfold handleEvidence at h
  split at h
  · cases h; exact SlashRel.refl hw
  · split at h
    · cases h; exact SlashRel.refl hw
    · cases hv : vget s e.address with
      | none => rw [hv] at h; cases h
      | some v =>
        rw [hv] at h
        dsimp only at h
        split at h
        · cases h; exact SlashRel.refl hw
        · cases h
          obtain ⟨r1, r2, r3, r4, r5, r6⟩ := slash_validator s _ e.address v v
            { v with locking := (slashAll (rankRemove s v.power e.address) e.address v s.params.slashDoubleSign).2,
                     status := .tombstoned, power := 0 } s.params.slashDoubleSign v.power _ hw hv rfl rfl rfl
          exact ⟨r1, r2, r3, r4, r5, fun hn hp => r6 hn hp.2⟩

/-! ## begin block: maturing unlocks, votes, evidence -/

/-- what a begin-block step does: `held + slashed` preserved, `queued` preserved -/
structure BlockRel (denomOf : Bytes → String) (s s' : State) : Prop where
  wf : WF s'
  params : s'.params = s.params
  moved : ∀ d, held s' d + slashedOf s' d = held s d + slashedOf s d
  queued : ∀ d, queued denomOf s' d = queued denomOf s d
  nonneg : NonNeg s → ParamsOK s → NonNeg s' ∧ ∀ d, slashedOf s d ≤ slashedOf s' d

theorem BlockRel.trans {denomOf : Bytes → String} {a b c : State} (h1 : BlockRel denomOf a b) (h2 : BlockRel denomOf b c) :
    BlockRel denomOf a c := by
  refine ⟨h2.wf, h2.params.trans h1.params, fun d => (h2.moved d).trans (h1.moved d),
    fun d => (h2.queued d).trans (h1.queued d), ?_⟩
  intro hn hp
  obtain ⟨x1, x2⟩ := h1.nonneg hn hp
  have hp' : ParamsOK b := by unfold ParamsOK; rw [h1.params]; exact hp
  obtain ⟨y1, y2⟩ := h2.nonneg x1 hp'
  exact ⟨y1, fun d => Int.le_trans (x2 d) (y2 d)⟩

theorem SlashRel.toBlockRel (denomOf : Bytes → String) {s s' : State} (h : SlashRel s s') : BlockRel denomOf s s' :=
  ⟨h.wf, h.params, h.moved, h.queued denomOf, h.nonneg⟩

/-- **dequeueMature**: matured unlocks move from the time queue to the delivery queue; `queued`,
    `held`, `slashed` are all unchanged. -/
theorem dequeueMature_spec (denomOf : Bytes → String) (s : State) (now : Int) (hw : WF s) :
    (dequeueMature s now).params = s.params ∧ (dequeueMature s now).slashed = s.slashed ∧
    (∀ d, held (dequeueMature s now) d = held s d) ∧
    (∀ d, queued denomOf (dequeueMature s now) d = queued denomOf s d) ∧
    WF (dequeueMature s now) ∧ (NonNeg s → NonNeg (dequeueMature s now)) := by
  obtain ⟨v1, v2, v3⟩ := view_dequeueMature_fields s now
  have v1 : (dequeueMature s now).params = s.params := v1
  have v3 : (dequeueMature s now).slashed = s.slashed := v3
  have hq : ∀ e ∈ (dequeueMature s now).unlockQueue, e ∈ s.unlockQueue := by
    intro e he
    unfold dequeueMature at he
    split at he
    · exact he
    · exact (List.mem_filter.mp he).1
  have hm : ∀ u ∈ (dequeueMature s now).qUnlocks, u ∈ s.qUnlocks ∨ ∃ e ∈ s.unlockQueue, u ∈ e.2 := by
    intro u hu
    unfold dequeueMature at hu
    split at hu
    · exact Or.inl hu
    · simp only [List.mem_append, List.mem_flatten, List.mem_map] at hu
      rcases hu with hu | ⟨us, ⟨e, he, rfl⟩, hu⟩
      · exact Or.inl hu
      · right
        unfold dueUnlocks at he
        have he' := (List.mergeSort_perm _ _).mem_iff.mp he
        exact ⟨e, (List.mem_filter.mp he').1, hu⟩
  refine ⟨v1, v3, fun d => by rw [held_view, held_view, v2], fun d => queued_dequeueMature denomOf s now d,
    ⟨v2 ▸ hw.keys, v2 ▸ hw.canon, dequeueMature_keys_nodup s now hw.times⟩, ?_⟩
  intro hn
  refine ⟨v2 ▸ hn.holdings, ?_, ?_, ?_⟩
  · intro d; show 0 ≤ amountOf (dequeueMature s now).slashed d; rw [v3]; exact hn.slashed d
  · intro e he; exact hn.queue e (hq e he)
  · intro u hu
    rcases hm u hu with h | ⟨e, he, hue⟩
    · exact hn.matured u h
    · exact hn.queue e he u hue

theorem dequeueMature_rel (denomOf : Bytes → String) (s : State) (now : Int) (hw : WF s) :
    BlockRel denomOf s (dequeueMature s now) := by
  obtain ⟨h1, h2, h3, h4, h5, h6⟩ := dequeueMature_spec denomOf s now hw
  have hsl : ∀ d, slashedOf (dequeueMature s now) d = slashedOf s d := fun d => by unfold slashedOf; rw [h2]
  exact ⟨h5, h1, fun d => by rw [h3, hsl], h4, fun hn _ => ⟨h6 hn, fun d => by rw [hsl]; exact Int.le_refl _⟩⟩

/-- **beginBlock** (reward distribution, maturing unlocks, downtime and double-sign slashing): per
    denomination `held` decreases by exactly what `slashed` grows and `queued` is unchanged. -/
theorem beginBlock_spec (denomOf : Bytes → String) (s s' : State) (height now : Int) (votes : List VoteInfo)
    (maxAge : Option (Int × Int)) (evs : List Evidence) (hw : WF s)
    (h : beginBlock s height now votes maxAge evs = .ok s') : BlockRel denomOf s s' := by
  unfold beginBlock at h
  obtain ⟨s1, h1, h⟩ := (bind_eq_ok _ _ _).mp h
  obtain ⟨s3, h3, h⟩ := (bind_eq_ok _ _ _).mp h
  have r1 : BlockRel denomOf s s1 := (distributeReward_frame s s1 height votes hw h1).toSlashRel.toBlockRel denomOf
  have r2 : BlockRel denomOf s1 (dequeueMature s1 now) := dequeueMature_rel denomOf s1 now r1.wf
  have r3 : BlockRel denomOf (dequeueMature s1 now) s3 := (handleVotes_spec _ s3 now votes r2.wf h3).toBlockRel denomOf
  have r123 := (r1.trans r2).trans r3
  refine r123.trans (SlashRel.toBlockRel denomOf ?_)
  refine foldlM_inv (fun b => SlashRel s3 b) _ ?_ evs s3 s' (SlashRel.refl r123.wf) h
  intro b e b' hb hstep
  exact hb.trans (handleEvidence_spec b b' now height maxAge e hb.wf hstep)

/-! ## hand-over to the execution layer -/

/-- **dequeue**: `queued` decreases by exactly the amounts of the unlocks handed over; held and
    slashed unchanged. -/
theorem dequeue_spec (denomOf : Bytes → String) (s : State) (hw : WF s) :
    WF (dequeue s).1 ∧ (dequeue s).1.params = s.params ∧
    (∀ d, held (dequeue s).1 d = held s d) ∧ (∀ d, slashedOf (dequeue s).1 d = slashedOf s d) ∧
    (∀ d, queued denomOf (dequeue s).1 d + unlockSum denomOf (dequeue s).2.2.1 d = queued denomOf s d) ∧
    (NonNeg s → NonNeg (dequeue s).1 ∧ ∀ u ∈ (dequeue s).2.2.1, 0 ≤ u.amount) := by
  unfold dequeue
  split
  · refine ⟨hw, rfl, fun _ => rfl, fun _ => rfl, fun d => by simp [unlockSum], fun hn => ⟨hn, fun u hu => by cases hu⟩⟩
  · dsimp only
    refine ⟨⟨hw.keys, hw.canon, hw.times⟩, rfl, fun _ => rfl, fun _ => rfl, ?_, ?_⟩
    · intro d
      unfold queued
      dsimp only
      have := isum_map_take_drop (unlockAmt denomOf d) (min s.qUnlocks.length 16) s.qUnlocks
      unfold unlockSum
      omega
    · intro hn
      refine ⟨⟨hn.holdings, hn.slashed, hn.queue, ?_⟩, ?_⟩
      · intro u hu; exact hn.matured u (List.mem_of_mem_drop hu)
      · intro u hu; exact hn.matured u (List.mem_of_mem_take hu)

/-! ## processing the execution layer's requests -/

/-- **processRequests** (reward pool, token weights/thresholds, create, lock, unlock, claim), all
    unlock requests consistent: `slashed` unchanged, `held + queued` grows by exactly the accepted
    lock amounts. -/
theorem processRequests_spec (denomOf : Bytes → String) (hash160 : Bytes → Bytes) (hasAccount : Bytes → Bool)
    (s s' : State) (height now : Int) (R : Reqs) (accs : List Bytes) (hw : WF s)
    (hr : ∀ r ∈ R.unlocks, ReqOK denomOf r)
    (h : processRequests hash160 hasAccount s height now R = .ok (s', accs)) :
    WF s' ∧ s'.params = s.params ∧ (∀ d, slashedOf s' d = slashedOf s d) ∧
    (∀ d, held s' d + queued denomOf s' d = held s d + queued denomOf s d + lockSum R.locks d) ∧
    (NonNeg s → NonNeg s') ∧ (∀ r ∈ R.locks, 0 ≤ r.amount) := by
  unfold processRequests at h
  obtain ⟨s1, h1, h⟩ := (bind_eq_ok _ _ _).mp h
  obtain ⟨s2, h2, h⟩ := (bind_eq_ok _ _ _).mp h
  obtain ⟨⟨s3, accs3⟩, h3, h⟩ := (bind_eq_ok _ _ _).mp h
  dsimp only at h
  obtain ⟨s4, h4, h⟩ := (bind_eq_ok _ _ _).mp h
  obtain ⟨s5, h5, h⟩ := (bind_eq_ok _ _ _).mp h
  obtain ⟨s6, h6, h⟩ := (bind_eq_ok _ _ _).mp h
  have h : (Outcome.ok (s6, accs3) : Outcome (State × List Bytes)) = .ok (s', accs) := h
  simp only [Outcome.ok.injEq, Prod.mk.injEq] at h
  obtain ⟨rfl, _⟩ := h
  have e1 := updateRewardPool_frame s s1 height R.gas R.grants hw h1
  have e2 := updateTokens_frame s1 s2 R.weights R.thresholds e1.wf h2
  have e3 := create_frame hash160 hasAccount s2 s3 R.creates accs3 e2.wf h3
  have e123 := (e1.trans e2).trans e3
  obtain ⟨l4, n4, hpos⟩ := lock_spec s3 s4 now R.locks e123.wf h4
  have u5 := unlock_spec denomOf s4 s5 now R.unlocks l4.wf hr h5
  have e6 := claim_frame s5 s6 R.claims u5.wf h6
  refine ⟨e6.wf, ?_, ?_, ?_, ?_, hpos⟩
  · rw [e6.params, u5.params, l4.params, e123.params]
  · intro d
    rw [e6.slashedOf, ← e123.slashedOf d, ← l4.slashedOf d]
    unfold slashedOf; rw [u5.slashed]
  · intro d
    rw [e6.held, e6.queued denomOf, u5.moved, l4.held, l4.queued denomOf, e123.held, e123.queued denomOf]; omega
  · intro hn
    exact e6.nonneg (u5.nonneg (n4 (e123.nonneg hn)))

/-! ## histories -/

/-- ghost ledger: total ever locked (accepted lock requests) and total handed over to the execution
    layer ("delivered"), per denomination -/
structure Ledger where
  locked : String → Int
  delivered : String → Int

def Ledger.zero : Ledger := ⟨fun _ => 0, fun _ => 0⟩
def Ledger.add (a b : Ledger) : Ledger := ⟨fun d => a.locked d + b.locked d, fun d => a.delivered d + b.delivered d⟩

/-- the entry points of the module -/
inductive Op where
  | process (hash160 : Bytes → Bytes) (hasAccount : Bytes → Bool) (height now : Int) (r : Reqs)
  | beginBlock (height now : Int) (votes : List VoteInfo) (maxAge : Option (Int × Int)) (evs : List Evidence)
  | endBlocker
  | dequeue

def applyProcess (hash160 : Bytes → Bytes) (hasAccount : Bytes → Bool) (s : State) (height now : Int) (r : Reqs) :
    State × Ledger :=
  match processRequests hash160 hasAccount s height now r with
  | .ok (s', _) => (s', ⟨lockSum r.locks, fun _ => 0⟩)
  | _ => (s, Ledger.zero)

def applyBeginBlock (s : State) (height now : Int) (votes : List VoteInfo) (maxAge : Option (Int × Int))
    (evs : List Evidence) : State × Ledger :=
  match beginBlock s height now votes maxAge evs with
  | .ok s' => (s', Ledger.zero)
  | _ => (s, Ledger.zero)

def applyEndBlocker (s : State) : State × Ledger :=
  match endBlocker s with
  | .ok (s', _) => (s', Ledger.zero)
  | _ => (s, Ledger.zero)

def applyDequeue (denomOf : Bytes → String) (s : State) : State × Ledger :=
  ((dequeue s).1, ⟨fun _ => 0, unlockSum denomOf (dequeue s).2.2.1⟩)

/-- one entry point: new state and ledger increment; a failing operation (error or panic) leaves the
    state unchanged (the transaction / block is not committed) -/
def apply (denomOf : Bytes → String) (s : State) : Op → State × Ledger
  | .process hash160 hasAccount height now r => applyProcess hash160 hasAccount s height now r
  | .beginBlock height now votes maxAge evs => applyBeginBlock s height now votes maxAge evs
  | .endBlocker => applyEndBlocker s
  | .dequeue => applyDequeue denomOf s

def run (denomOf : Bytes → String) : State × Ledger → List Op → State × Ledger
  | sl, [] => sl
  | sl, op :: ops => run denomOf ((apply denomOf sl.1 op).1, sl.2.add (apply denomOf sl.1 op).2) ops

/-- unlock requests name the denomination of their token address -/
def OpOK (denomOf : Bytes → String) : Op → Prop
  | .process _ _ _ _ r => ∀ u ∈ r.unlocks, ReqOK denomOf u
  | _ => True

/-- held + slashed + queued -/
def total (denomOf : Bytes → String) (s : State) (d : String) : Int := held s d + slashedOf s d + queued denomOf s d

/-- the property of one step: `total + delivered` grows by exactly the amounts locked -/
def StepOK (denomOf : Bytes → String) (s : State) (r : State × Ledger) : Prop :=
  WF r.1 ∧ r.1.params = s.params ∧
  (∀ d, total denomOf r.1 d + r.2.delivered d = total denomOf s d + r.2.locked d) ∧
  (NonNeg s → ParamsOK s → NonNeg r.1 ∧ (∀ d, 0 ≤ r.2.delivered d) ∧ (∀ d, slashedOf s d ≤ slashedOf r.1 d)) ∧
  (∀ d, 0 ≤ r.2.locked d)

theorem stepOK_same (denomOf : Bytes → String) (s : State) (hw : WF s) : StepOK denomOf s (s, Ledger.zero) :=
  ⟨hw, rfl, fun d => by simp [Ledger.zero], fun hn _ => ⟨hn, fun _ => Int.le_refl _, fun _ => Int.le_refl _⟩,
   fun _ => Int.le_refl _⟩

theorem applyProcess_ok (denomOf : Bytes → String) (hash160 : Bytes → Bytes) (hasAccount : Bytes → Bool) (s : State)
    (height now : Int) (r : Reqs) (hw : WF s) (hop : ∀ u ∈ r.unlocks, ReqOK denomOf u) :
    StepOK denomOf s (applyProcess hash160 hasAccount s height now r) := by
  unfold applyProcess
  split
  · rename_i s' accs heq
    obtain ⟨k1, k2, k3, k4, k5, k6⟩ := processRequests_spec denomOf hash160 hasAccount s s' height now r accs hw hop heq
    refine ⟨k1, k2, ?_, ?_, ?_⟩
    · intro d; unfold total; dsimp only; rw [k3]; have := k4 d; omega
    · intro hn _
      exact ⟨k5 hn, fun _ => Int.le_refl _, fun d => by rw [k3]; exact Int.le_refl _⟩
    · intro d
      dsimp only
      unfold lockSum
      apply isum_nonneg
      intro x hx
      obtain ⟨q, hq, rfl⟩ := List.mem_map.mp hx
      split
      · exact k6 q hq
      · omega
  · exact stepOK_same denomOf s hw

theorem applyBeginBlock_ok (denomOf : Bytes → String) (s : State) (height now : Int) (votes : List VoteInfo)
    (maxAge : Option (Int × Int)) (evs : List Evidence) (hw : WF s) :
    StepOK denomOf s (applyBeginBlock s height now votes maxAge evs) := by
  unfold applyBeginBlock
  split
  · rename_i s' heq
    have k := beginBlock_spec denomOf s s' height now votes maxAge evs hw heq
    refine ⟨k.wf, k.params, ?_, ?_, fun _ => Int.le_refl _⟩
    · intro d; unfold total; simp only [Ledger.zero]; rw [k.queued]; have := k.moved d; omega
    · intro hn hp
      obtain ⟨x1, x2⟩ := k.nonneg hn hp
      exact ⟨x1, fun _ => Int.le_refl _, x2⟩
  · exact stepOK_same denomOf s hw

theorem applyEndBlocker_ok (denomOf : Bytes → String) (s : State) (hw : WF s) : StepOK denomOf s (applyEndBlocker s) := by
  unfold applyEndBlocker
  split
  · rename_i s' ups heq
    have k := endBlocker_frame s s' ups hw heq
    refine ⟨k.wf, k.params, ?_, ?_, fun _ => Int.le_refl _⟩
    · intro d; unfold total; simp only [Ledger.zero]; rw [k.held, k.slashedOf, k.queued denomOf]
    · intro hn _
      exact ⟨k.nonneg hn, fun _ => Int.le_refl _, fun d => by rw [k.slashedOf]; exact Int.le_refl _⟩
  · exact stepOK_same denomOf s hw

theorem applyDequeue_ok (denomOf : Bytes → String) (s : State) (hw : WF s) : StepOK denomOf s (applyDequeue denomOf s) := by
  unfold applyDequeue
  obtain ⟨k1, k2, k3, k4, k5, k6⟩ := dequeue_spec denomOf s hw
  refine ⟨k1, k2, ?_, ?_, fun _ => Int.le_refl _⟩
  · intro d; unfold total; dsimp only; rw [k3, k4]; have := k5 d; omega
  · intro hn _
    obtain ⟨x1, x2⟩ := k6 hn
    refine ⟨x1, ?_, fun d => by rw [k4]; exact Int.le_refl _⟩
    intro d
    dsimp only
    unfold unlockSum
    apply isum_nonneg
    intro x hx
    obtain ⟨u, hu, rfl⟩ := List.mem_map.mp hx
    unfold unlockAmt
    split
    · exact x2 u hu
    · omega

/-- **one step of a history** -/
theorem apply_spec (denomOf : Bytes → String) (s : State) (op : Op) (hw : WF s) (hop : OpOK denomOf op) :
    StepOK denomOf s (apply denomOf s op) := by
  cases op with
  | process hash160 hasAccount height now r => exact applyProcess_ok denomOf hash160 hasAccount s height now r hw hop
  | beginBlock height now votes maxAge evs => exact applyBeginBlock_ok denomOf s height now votes maxAge evs hw
  | endBlocker => exact applyEndBlocker_ok denomOf s hw
  | dequeue => exact applyDequeue_ok denomOf s hw

theorem run_nil (denomOf : Bytes → String) (sl : State × Ledger) : run denomOf sl [] = sl := rfl
theorem run_cons (denomOf : Bytes → String) (sl : State × Ledger) (op : Op) (ops : List Op) :
    run denomOf sl (op :: ops) = run denomOf ((apply denomOf sl.1 op).1, sl.2.add (apply denomOf sl.1 op).2) ops := rfl

/-- **History theorem (relative form).**  For every list of operations from every well-formed start
    state and every start ledger: well-formedness is kept; per denomination the difference
    `held + slashed + queued + delivered − locked` is preserved; the ledger only grows; and if the
    start state has no negative component and valid slash fractions, neither has the final state,
    the delivered amounts are non-negative and `slashed` never shrinks. -/
theorem history (denomOf : Bytes → String) (ops : List Op) :
    ∀ (s0 : State) (L0 : Ledger), WF s0 → (∀ op ∈ ops, OpOK denomOf op) →
      WF (run denomOf (s0, L0) ops).1 ∧
      (∀ d, total denomOf (run denomOf (s0, L0) ops).1 d + (run denomOf (s0, L0) ops).2.delivered d
              - (run denomOf (s0, L0) ops).2.locked d
            = total denomOf s0 d + L0.delivered d - L0.locked d) ∧
      (∀ d, L0.locked d ≤ (run denomOf (s0, L0) ops).2.locked d) ∧
      (NonNeg s0 → ParamsOK s0 →
        NonNeg (run denomOf (s0, L0) ops).1 ∧ ParamsOK (run denomOf (s0, L0) ops).1 ∧
        (∀ d, L0.delivered d ≤ (run denomOf (s0, L0) ops).2.delivered d) ∧
        (∀ d, slashedOf s0 d ≤ slashedOf (run denomOf (s0, L0) ops).1 d)) := by
  induction ops with
  | nil =>
    intro s0 L0 hw _
    exact ⟨hw, fun _ => rfl, fun _ => Int.le_refl _, fun hn hp => ⟨hn, hp, fun _ => Int.le_refl _, fun _ => Int.le_refl _⟩⟩
  | cons op ops ih =>
    intro s0 L0 hw hops
    obtain ⟨a1, a2, a3, a4, a5⟩ := apply_spec denomOf s0 op hw (hops op List.mem_cons_self)
    obtain ⟨b1, b2, b3, b4⟩ := ih (apply denomOf s0 op).1 (L0.add (apply denomOf s0 op).2) a1
      (fun o ho => hops o (List.mem_cons_of_mem _ ho))
    rw [run_cons]
    refine ⟨b1, ?_, ?_, ?_⟩
    · intro d
      rw [b2 d]
      have := a3 d
      simp only [Ledger.add]; omega
    · intro d
      have := b3 d
      have := a5 d
      simp only [Ledger.add] at *; omega
    · intro hn hp
      obtain ⟨x1, x2, x3⟩ := a4 hn hp
      have hp' : ParamsOK (apply denomOf s0 op).1 := by unfold ParamsOK; rw [a2]; exact hp
      obtain ⟨y1, y2, y3, y4⟩ := b4 x1 hp'
      refine ⟨y1, y2, ?_, fun d => Int.le_trans (x3 d) (y4 d)⟩
      intro d
      have := y3 d
      have := x2 d
      simp only [Ledger.add] at *; omega

/-- **Conservation across histories (C11).**  If at the start, for every token,
    `locked = held + slashed + queued + delivered`, then after any interleaving of operations the same
    holds: the total ever locked equals what validators hold plus what has been slashed plus what has
    been released through unlocks (still queued or delivered). -/
theorem conservation (denomOf : Bytes → String) (ops : List Op) (s0 : State) (L0 : Ledger) (hw : WF s0)
    (hops : ∀ op ∈ ops, OpOK denomOf op)
    (h0 : ∀ d, L0.locked d = held s0 d + slashedOf s0 d + queued denomOf s0 d + L0.delivered d) (d : String) :
    (run denomOf (s0, L0) ops).2.locked d
      = held (run denomOf (s0, L0) ops).1 d + slashedOf (run denomOf (s0, L0) ops).1 d
        + queued denomOf (run denomOf (s0, L0) ops).1 d + (run denomOf (s0, L0) ops).2.delivered d := by
  have h := (history denomOf ops s0 L0 hw hops).2.1 d
  have := h0 d
  unfold total at h
  omega

/-- **No negative component, ever**: from a start state without negative components and with slash
    fractions ≤ 1, every validator's holding of every token, the slashed total, every queued unlock,
    hence `held`, `slashed`, `queued`, and the delivered total stay non-negative. -/
theorem nonnegativity (denomOf : Bytes → String) (ops : List Op) (s0 : State) (L0 : Ledger) (hw : WF s0)
    (hops : ∀ op ∈ ops, OpOK denomOf op) (hn : NonNeg s0) (hp : ParamsOK s0) (hd : ∀ d, 0 ≤ L0.delivered d) (d : String) :
    NonNeg (run denomOf (s0, L0) ops).1 ∧
    0 ≤ held (run denomOf (s0, L0) ops).1 d ∧ 0 ≤ slashedOf (run denomOf (s0, L0) ops).1 d ∧
    0 ≤ queued denomOf (run denomOf (s0, L0) ops).1 d ∧ 0 ≤ (run denomOf (s0, L0) ops).2.delivered d ∧
    (∀ a v, vget (run denomOf (s0, L0) ops).1 a = some v → 0 ≤ amountOf v.locking d) := by
  obtain ⟨x1, _, x3, _⟩ := (history denomOf ops s0 L0 hw hops).2.2.2 hn hp
  refine ⟨x1, x1.held_nonneg d, x1.slashed d, x1.queued_nonneg denomOf d, Int.le_trans (hd d) (x3 d), ?_⟩
  intro a v hv
  exact x1.validator_nonneg a v hv d

/-- the state before anything happened: no validators, nothing slashed, nothing queued -/
def genesis (p : Params) : State :=
  { params := p, validators := [], lockingIdx := [], ranking := [], valset := [], tokens := [], threshold := [],
    slashed := [], nonce := 0, pool := ⟨0, 0, 0⟩, qRewards := [], qUnlocks := [], unlockQueue := [] }

theorem genesis_wf (p : Params) : WF (genesis p) :=
  ⟨List.nodup_nil, fun e he => (by cases he), List.nodup_nil⟩

theorem genesis_nonneg (p : Params) : NonNeg (genesis p) :=
  ⟨fun e he => (by cases he), fun _ => Int.le_refl _, fun e he => (by cases he), fun u hu => (by cases hu)⟩

/-- **C11 from genesis**: starting with nothing and an empty ledger, after any history
    `locked = held + slashed + queued + delivered` for every token, all five non-negative. -/
theorem conservation_from_genesis (denomOf : Bytes → String) (p : Params) (hp : p.slashDowntime ≤ e18 ∧ p.slashDoubleSign ≤ e18)
    (ops : List Op) (hops : ∀ op ∈ ops, OpOK denomOf op) (d : String) :
    let r := run denomOf (genesis p, Ledger.zero) ops
    r.2.locked d = held r.1 d + slashedOf r.1 d + queued denomOf r.1 d + r.2.delivered d ∧
    0 ≤ held r.1 d ∧ 0 ≤ slashedOf r.1 d ∧ 0 ≤ queued denomOf r.1 d ∧ 0 ≤ r.2.delivered d ∧ 0 ≤ r.2.locked d := by
  intro r
  have h1 := conservation denomOf ops (genesis p) Ledger.zero (genesis_wf p) hops (fun _ => rfl) d
  obtain ⟨_, h2, h3, h4, h5, _⟩ := nonnegativity denomOf ops (genesis p) Ledger.zero (genesis_wf p) hops
    (genesis_nonneg p) hp (fun _ => Int.le_refl _) d
  have h6 := (history denomOf ops (genesis p) Ledger.zero (genesis_wf p) hops).2.2.1 d
  exact ⟨h1, h2, h3, h4, h5, h6⟩

/-! ## non-vacuity: a concrete history -/

namespace Example

def params : Params :=
  { unlockDuration := 10, exitingDuration := 20, downtimeJail := 5, maxValidators := 10, signedBlocksWindow := 100,
    maxMissed := 50, slashDoubleSign := 50000000000000000, slashDowntime := 10000000000000000,
    halvingInterval := 1000, initialReward := 0 }

/-- the zero address is "btc" (as in `types.TokenDenom`) -/
def denomOf (a : Bytes) : String := if a = [] then "btc" else "other"

/-- block 1: register the token, create validator `[1]`, lock 1000 btc;
    block 2: unlock 300 btc; begin block at time 100 with double-sign evidence (5 % slash);
    end block; hand-over of the matured unlock -/
def ops : List Op :=
  [ .process id (fun _ => false) 1 50
      { gas := [0], weights := [("btc", 1)], creates := [{ validator := [1], compressed := [1] }],
        locks := [{ validator := [1], token := "btc", amount := 1000 }] },
    .process id (fun _ => false) 2 60
      { gas := [0], unlocks := [{ id := 7, validator := [1], recipient := [9], token := "btc", tokenAddr := [], amount := 300 }] },
    .beginBlock 3 100 [] none [{ kind := 1, address := [1], height := 2, time := 60 }],
    .endBlocker,
    .dequeue ]

def final : State × Ledger := run denomOf (genesis params, Ledger.zero) ops

end Example

namespace Example

/-- the history runs through (no step fails) and ends with 1000 locked = 665 held + 35 slashed +
    0 queued + 300 delivered -/
example : final.2.locked "btc" = 1000 ∧ final.2.delivered "btc" = 300 ∧ held final.1 "btc" = 665 ∧
    slashedOf final.1 "btc" = 35 ∧ queued denomOf final.1 "btc" = 0 := by decide +kernel

/-- after the second block the unlock sits in the time queue; after begin-block it is matured, still queued -/
example : queued denomOf (run denomOf (genesis params, Ledger.zero) (ops.take 2)).1 "btc" = 300 ∧
    held (run denomOf (genesis params, Ledger.zero) (ops.take 2)).1 "btc" = 700 ∧
    (run denomOf (genesis params, Ledger.zero) (ops.take 3)).1.qUnlocks.map (·.amount) = [300] ∧
    queued denomOf (run denomOf (genesis params, Ledger.zero) (ops.take 3)).1 "btc" = 300 := by decide +kernel

theorem ops_ok : ∀ op ∈ ops, OpOK denomOf op := by
  intro op hop
  simp only [ops, List.mem_cons, List.mem_nil_iff, or_false] at hop
  rcases hop with rfl | rfl | rfl | rfl | rfl
  · intro u hu; cases hu
  · intro u hu
    simp only [List.mem_singleton] at hu
    subst hu
    rfl
  · trivial
  · trivial
  · trivial

/-- the hypotheses of the history theorems hold for this history: the theorems apply to it -/
example : final.2.locked "btc" = held final.1 "btc" + slashedOf final.1 "btc" + queued denomOf final.1 "btc"
    + final.2.delivered "btc" :=
  (conservation_from_genesis denomOf params (by decide) ops ops_ok "btc").1

/-- a request above the holding is clipped to the holding (here: 665 left after the slash) and the
    validator, already tombstoned, keeps its record; a further lock to the tombstoned validator is
    still credited to its holding -/
example :
    (match unlockOne final.1 200 { id := 8, validator := [1], recipient := [9], token := "btc", tokenAddr := [], amount := 5000 } with
      | .ok s' => (held s' "btc", queued denomOf s' "btc")
      | _ => (-1, -1)) = (0, 665) ∧
    (match lock final.1 200 [{ validator := [1], token := "btc", amount := 50 }] with
      | .ok s' => (held s' "btc", slashedOf s' "btc")
      | _ => (-1, -1)) = (715, 35) := by decide +kernel

/-- negative amounts are rejected: a negative unlock request and a negative lock request panic
    (`sdk.NewCoin` with a negative amount) -/
example :
    (unlockOne final.1 200 { id := 8, validator := [1], recipient := [9], token := "btc", tokenAddr := [], amount := -5 }).cls
      = "panic:negative-coin" ∧
    (lock final.1 200 [{ validator := [1], token := "btc", amount := -5 }]).cls = "panic:negative-coin" := by decide +kernel

/-- `ReqOK` is needed: an unlock record whose token address belongs to another denomination than the
    one debited breaks the per-denomination equation (1000 locked, 700 held, nothing queued for "btc") -/
example :
    let bad : List Op :=
      [ ops[0], .process id (fun _ => false) 2 60
          { gas := [0], unlocks := [{ id := 7, validator := [1], recipient := [9], token := "btc", tokenAddr := [5], amount := 300 }] } ]
    let r := run denomOf (genesis params, Ledger.zero) bad
    r.2.locked "btc" = 1000 ∧ held r.1 "btc" + slashedOf r.1 "btc" + queued denomOf r.1 "btc" + r.2.delivered "btc" = 700 ∧
    queued denomOf r.1 "other" = 300 := by decide +kernel

/-- `WF` is needed (model artefact: association lists): with a duplicated validator key, `vset`
    rewrites both entries and one lock of 5 is counted twice -/
example :
    let v : Validator := { pubkey := [1], power := 0, locking := [], reward := 0, gasReward := 0, status := .inactive,
                           offset := 0, missed := 0, jailedUntil := 0 }
    let s : State := { genesis params with validators := [([1], v), ([1], v)] }
    (match lockOne s 0 [1] [("btc", 5)] with
      | .ok s' => held s' "btc"
      | _ => -1) = 10 := by decide +kernel

/-- `ParamsOK` is needed (the Go code validates both fractions to be below one): with a slash
    fraction of 2 the remaining holding becomes negative -/
example :
    let r := run denomOf (genesis { params with slashDoubleSign := 2000000000000000000 }, Ledger.zero) ops
    held r.1 "btc" = -700 ∧ slashedOf r.1 "btc" = 1400 ∧ r.2.locked "btc" = 1000 ∧ r.2.delivered "btc" = 300 := by
  decide +kernel

end Example

end Goat.C11H
