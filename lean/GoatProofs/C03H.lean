import GoatModel.Bitcoin
import GoatProofs.C03
import GoatProofs.C05H
import GoatProofs.C06H
namespace Goat.C03H
open Goat.Bitcoin Goat.C03
open Goat.C05H (Env G Op apply run withRes)

/-! ## 0. vocabulary -/

/-- the key under which a receipt is credited -/
def key (r : DepositReceipt) : Bytes × Nat := (r.txid, r.txout)

/-- the entry `NewDeposits` writes into the credited table for a receipt -/
def entry (r : DepositReceipt) : (Bytes × Nat) × Nat := ((r.txid, r.txout), (r.amount + r.tax) % two64)

/-- the state after crediting `rs` (only the credited table grows) -/
def credit (s : State) (rs : List DepositReceipt) : State := { s with deposited := s.deposited ++ rs.map entry }

theorem credit_nil (s : State) : credit s [] = s := by
  cases s; simp [credit]

theorem credit_cons (s : State) (r : DepositReceipt) (rs : List DepositReceipt) :
    credit { s with deposited := s.deposited ++ [((r.txid, r.txout), (r.amount + r.tax) % two64)] } rs = credit s (r :: rs) := by
  simp [credit, entry]

theorem depositedKeys_credit (s : State) (rs : List DepositReceipt) :
    depositedKeys (credit s rs) = depositedKeys s ++ rs.map key := by
  simp [depositedKeys, credit, List.map_append, List.map_map]
  intro a _; rfl

/-! ## 1. `verifyDeposit` reads little of the state -/

theorem verifyDeposit_congr (c : Crypto) (rel rel' : Relayer.State) (s s' : State) (headers : List (Nat × Bytes)) (d : Deposit)
    (hr : rel'.pubkeys = rel.pubkeys) (h1 : s'.hashes = s.hashes) (h2 : s'.tip = s.tip) (h3 : s'.params = s.params)
    (h4 : hasDeposited s' (c.dsha256 d.noWitnessTx) d.outputIndex = hasDeposited s (c.dsha256 d.noWitnessTx) d.outputIndex) :
    verifyDeposit c rel' s' headers d = verifyDeposit c rel s headers d := by
  unfold verifyDeposit
  simp only [hr, h1, h2, h3, h4]

theorem verifyDeposit_credited_err (c : Crypto) (rel : Relayer.State) (s : State) (headers : List (Nat × Bytes)) (d : Deposit)
    (h : hasDeposited s (c.dsha256 d.noWitnessTx) d.outputIndex = true) :
    ∃ msg, verifyDeposit c rel s headers d = .err msg := by
  unfold verifyDeposit
  simp only [h, if_true]
  repeat (first | exact ⟨_, rfl⟩ | split)

/-- a deposit accepted on a state with *more* credited keys is accepted, with the same receipt, on
    the state with fewer: acceptance only reads `hashes`, `tip`, `params` and the absence of the
    key from the credited table -/
theorem verifyDeposit_uncredit (c : Crypto) (rel : Relayer.State) (s : State) (pre : List DepositReceipt)
    (headers : List (Nat × Bytes)) (d : Deposit) (r : DepositReceipt)
    (h : verifyDeposit c rel (credit s pre) headers d = .ok r) : verifyDeposit c rel s headers d = .ok r := by
  obtain ⟨_, _, _, _, _, _, _, _, _, _, _, hnd, _⟩ := C03_accept_implies c rel _ headers d r h
  rw [← h]
  refine (verifyDeposit_congr c rel rel (credit s pre) s headers d rfl rfl rfl rfl ?_)
  rw [hnd]
  cases hh : hasDeposited s (c.dsha256 d.noWitnessTx) d.outputIndex with
  | false => rfl
  | true =>
    have h1 := (hasDeposited_iff _ _ _).mp hh
    have h2 : (c.dsha256 d.noWitnessTx, d.outputIndex) ∈ depositedKeys (credit s pre) := by
      rw [depositedKeys_credit]; exact List.mem_append_left _ h1
    rw [(hasDeposited_iff _ _ _).mpr h2] at hnd
    cases hnd

/-! ## 2. the trace of a successful batch -/

/-- **the batch loop, item by item**: on success it returns one receipt per item; item `k` is
    well-formed and `verifyDeposit` accepted it, with exactly receipt `k`, on the state in which the
    first `k` receipts of this very batch are already credited; the final state is the initial one
    with all receipts credited (nothing else changes) -/
theorem go_trace (c : Crypto) (rel : Relayer.State) (headers : List (Nat × Bytes)) :
    ∀ (ds : List Deposit) (s : State) (acc : List DepositReceipt) (s' : State) (rs : List DepositReceipt),
      newDeposits.go c headers rel ds s acc = .ok (s', rs) →
      ∃ new : List DepositReceipt, rs = acc.reverse ++ new ∧ new.length = ds.length ∧ s' = credit s new ∧
        ∀ k, (h1 : k < ds.length) → (h2 : k < new.length) →
          ds[k].validate = true ∧ verifyDeposit c rel (credit s (new.take k)) headers ds[k] = .ok new[k] := by
  intro ds
  induction ds with
  | nil =>
    intro s acc s' rs h
    simp only [newDeposits.go, Outcome.ok.injEq, Prod.mk.injEq] at h
    obtain ⟨rfl, rfl⟩ := h
    exact ⟨[], by simp, rfl, (credit_nil _).symm, fun k h1 => absurd h1 (by simp)⟩
  | cons d ds ih =>
    intro s acc s' rs h
    simp only [newDeposits.go] at h
    split at h; · cases h
    rename_i hval
    split at h
    · cases h
    · cases h
    · rename_i r hr
      obtain ⟨new, e1, e2, e3, e4⟩ := ih _ (r :: acc) s' rs h
      refine ⟨r :: new, by simp [e1], by simp [e2], by rw [e3, credit_cons], ?_⟩
      intro k h1 h2
      cases k with
      | zero =>
        simp only [List.getElem_cons_zero, List.take_zero, credit_nil]
        exact ⟨by simpa using hval, hr⟩
      | succ k' =>
        have := e4 k' (by simp at h1; omega) (by simp at h2; omega)
        rw [credit_cons] at this
        simpa using this

/-- **the trace of a successful `NewDeposits`**: the header map was well-formed, the sender is the
    current proposer (`verifyNonProposal`; the relayer keys are untouched), one receipt per item, each
    accepted by `verifyDeposit` under the relayer state of the call on the intermediate state of the
    loop; the new state is the old one with the receipts credited and appended to the deposit queue,
    and nothing else changed -/
theorem newDeposits_trace (c : Crypto) (rel rel' : Relayer.State) (s s' : State) (m : NewDepositsMsg)
    (h : newDeposits c rel s m = .ok (rel', s')) :
    ∃ (headers : List (Nat × Bytes)) (new : List DepositReceipt),
      blockHeadersMap m.headers = some headers ∧ Relayer.verifyNonProposal rel m.proposer = .ok rel' ∧
      new.length = m.deposits.length ∧
      s' = { s with deposited := s.deposited ++ new.map entry, queue := { s.queue with deposits := s.queue.deposits ++ new } } ∧
      ∀ k, (h1 : k < m.deposits.length) → (h2 : k < new.length) →
        (m.deposits[k]).validate = true ∧
        verifyDeposit c rel (credit s (new.take k)) headers m.deposits[k] = .ok new[k] := by
  unfold newDeposits at h
  split at h; · cases h
  split at h; · cases h
  split at h
  · cases h
  rename_i headers hh
  split at h
  · cases h
  · cases h
  rename_i rel1 hrel
  simp only at h
  split at h
  · cases h
  · cases h
  rename_i s1 rs hgo
  simp only [Outcome.ok.injEq, Prod.mk.injEq] at h
  obtain ⟨rfl, rfl⟩ := h
  obtain ⟨new, e1, e2, e3, e4⟩ := go_trace c rel1 headers m.deposits s [] s1 rs hgo
  simp only [List.reverse_nil, List.nil_append] at e1
  subst e1
  have hpk : rel1.pubkeys = rel.pubkeys := by
    unfold Relayer.verifyNonProposal at hrel
    split at hrel
    · cases hrel
    · cases hrel; rfl
  refine ⟨headers, rs, hh, hrel, e2, by rw [e3]; rfl, fun k h1 h2 => ?_⟩
  obtain ⟨v1, v2⟩ := e4 k h1 h2
  refine ⟨v1, ?_⟩
  rw [← v2]
  exact (verifyDeposit_congr c rel1 rel _ _ headers _ hpk.symm rfl rfl rfl rfl)

/-! ## 3. frames: no other entry point writes the credited table -/

theorem onlyWithdrawals_deposited {a b : State} (h : C05H.OnlyWithdrawals a b) : b.deposited = a.deposited := by
  unfold C05H.OnlyWithdrawals at h; rw [h]

theorem processWithdrawal_deposited (c : Crypto) (rc : Relayer.Crypto) (chainId : String) (rel : Relayer.State) (s : State)
    (vote : Relayer.VoteMsg) (hv : Bool) (ids : List Nat) (tx : Bytes) (fee : Nat) (r : Relayer.State × State)
    (h : processWithdrawal c rc chainId rel s vote hv ids tx fee = .ok r) : r.2.deposited = s.deposited := by
  unfold processWithdrawal at h
  split at h; · cases h
  split at h; · cases h
  split at h; · cases h
  split at h; · cases h
  split at h
  · cases h
  rename_i outs hparse
  split at h; · cases h
  dsimp only at h
  split at h
  · cases h
  · cases h
  rename_i rel' seq hvp
  split at h
  · cases h
  · cases h
  rename_i s1 vals hgo
  split at h; · cases h
  cases h
  obtain ⟨g1, _⟩ := C05H.process_go_full c tx fee outs (c.dsha256 tx) ids 0 s [] s1 vals hgo
  show s1.deposited = _
  exact onlyWithdrawals_deposited g1

theorem replaceWithdrawal_deposited (c : Crypto) (rc : Relayer.Crypto) (chainId : String) (rel : Relayer.State) (s : State)
    (vote : Relayer.VoteMsg) (hv : Bool) (pid : Nat) (tx : Bytes) (fee : Nat) (r : Relayer.State × State)
    (h : replaceWithdrawal c rc chainId rel s vote hv pid tx fee = .ok r) : r.2.deposited = s.deposited := by
  unfold replaceWithdrawal at h
  split at h; · cases h
  split at h; · cases h
  split at h; · cases h
  split at h
  · cases h
  rename_i outs hparse
  dsimp only at h
  split at h
  · cases h
  rename_i p hp
  split at h; · cases h
  split at h; · cases h
  split at h; · cases h
  split at h
  · cases h
  · cases h
  rename_i rel' seq hvp
  split at h
  · cases h
  · cases h
  rename_i s1 vals hgo
  split at h; · cases h
  cases h
  obtain ⟨g1, _⟩ := C05H.replace_go_spec c tx fee outs (c.dsha256 tx) p.withdrawals 0 s [] s1 vals hgo
  show s1.deposited = _
  exact onlyWithdrawals_deposited g1

theorem finalizeWithdrawal_deposited (c : Crypto) (rel : Relayer.State) (s : State) (m : FinalizeMsg) (r : Relayer.State × State)
    (h : finalizeWithdrawal c rel s m = .ok r) : r.2.deposited = s.deposited := by
  unfold finalizeWithdrawal at h
  split at h; · cases h
  split at h; · cases h
  split at h; · cases h
  split at h
  · cases h
  · cases h
  split at h
  · cases h
  rename_i p hp
  split at h; · cases h
  split at h
  · cases h
  rename_i idx hidx
  simp only at h
  split at h; · cases h
  split at h
  · cases h
  split at h; · cases h
  split at h; · cases h
  split at h
  · cases h
  · cases h
  rename_i s1 hgo
  cases h
  obtain ⟨g1, _⟩ := C05H.finalize_go_spec m _ _ _ _ _ hgo
  unfold C05H.OnlyWP at g1
  show s1.deposited = _
  rw [g1]

theorem approveCancellation_deposited (rel : Relayer.State) (s : State) (proposer : String) (ids : List Nat)
    (r : Relayer.State × State) (h : approveCancellation rel s proposer ids = .ok r) : r.2.deposited = s.deposited := by
  unfold approveCancellation at h
  split at h; · cases h
  split at h
  · cases h
  · cases h
  split at h
  · cases h
  · cases h
  rename_i s1 hgo
  cases h
  obtain ⟨g1, _⟩ := C05H.approve_go_spec _ _ _ hgo
  show s1.deposited = _
  exact onlyWithdrawals_deposited g1

theorem processBridgeRequest_deposited (c : Crypto) (s s' : State) (r : BridgeReqs)
    (h : processBridgeRequest c s r = .ok s') : s'.deposited = s.deposited := by
  rw [C05H.bridge_unfold] at h
  split at h
  · cases h; rfl
  · dsimp only at h
    split at h
    · cases h
    · cases h
    rename_i s2 hrbf
    split at h
    · cases h
    · cases h
    rename_i s3 hcan
    cases h
    obtain ⟨r1, _⟩ := C05H.rbf_go_spec _ _ _ hrbf
    obtain ⟨k1, _⟩ := C05H.cancel_go_spec _ _ _ hcan
    show s3.deposited = _
    rw [onlyWithdrawals_deposited k1, onlyWithdrawals_deposited r1]

theorem newBlockHashes_deposited (rc : Relayer.Crypto) (chainId : String) (rel : Relayer.State) (s : State)
    (vote : Relayer.VoteMsg) (hv : Bool) (start : Nat) (hashes : List Bytes) (r : Relayer.State × State)
    (h : newBlockHashes rc chainId rel s vote hv start hashes = .ok r) : r.2.deposited = s.deposited := by
  unfold newBlockHashes at h
  repeat (first | (split at h <;> try cases h) | dsimp only at h)
  all_goals rfl

theorem newPubkey_deposited (rc : Relayer.Crypto) (chainId : String) (rel : Relayer.State) (s : State)
    (vote : Relayer.VoteMsg) (hv : Bool) (pk : PubKey) (r : Relayer.State × State)
    (h : newPubkey rc chainId rel s vote hv pk = .ok r) : r.2.deposited = s.deposited := by
  unfold newPubkey at h
  repeat (first | (split at h <;> try cases h) | dsimp only at h)
  all_goals rfl

theorem newConsolidation_deposited (c : Crypto) (rc : Relayer.Crypto) (chainId : String) (rel : Relayer.State) (s : State)
    (vote : Relayer.VoteMsg) (hv : Bool) (tx : Bytes) (r : Relayer.State × State)
    (h : newConsolidation c rc chainId rel s vote hv tx = .ok r) : r.2.deposited = s.deposited := by
  unfold newConsolidation at h
  repeat (first | (split at h <;> try cases h) | dsimp only at h)
  all_goals rfl

theorem dequeue_deposited (s s' : State) (txs : List SysTx) (h : dequeue s = .ok (s', txs)) : s'.deposited = s.deposited := by
  unfold dequeue at h
  dsimp only at h
  split at h
  · cases h
  · cases h
  split at h
  · cases h; rfl
  · cases h; rfl

/-! ## 4. what one operation hands over and what it queues -/

/-- the batch of system transactions a (successful) dequeue operation hands to the execution layer -/
def stepBatch (g : G) : Op → List (List SysTx)
  | .dequeue =>
    match dequeue g.st with
    | .ok (_, txs) => [txs]
    | _ => []
  | _ => []

/-- the deposit receipts a (successful) `NewDeposits` operation appends to the deposit queue
    (read off the queue: what stands behind the old queue; see `stepNew_ok` / `newDeposits_trace`) -/
def stepNew (e : Env) (g : G) : Op → List DepositReceipt
  | .deposits m =>
    match newDeposits e.c g.rel g.st m with
    | .ok r => r.2.queue.deposits.drop g.st.queue.deposits.length
    | _ => []
  | _ => []

/-- all batches handed over along a run, in order -/
def batches (e : Env) : G → List Op → List (List SysTx)
  | _, [] => []
  | g, op :: ops => stepBatch g op ++ batches e (apply e g op) ops

/-- all deposit receipts queued by the `NewDeposits` operations of a run, in order -/
def queuedBy (e : Env) : G → List Op → List DepositReceipt
  | _, [] => []
  | g, op :: ops => stepNew e g op ++ queuedBy e (apply e g op) ops

/-- deposit receipts handed to the execution layer (there credited as native coins) along a run -/
def handedDeposits (e : Env) (g : G) (ops : List Op) : List DepositReceipt :=
  C06H.depositsOf (C06H.handed (batches e g ops))

/-- **every deposit receipt ever queued** along a run, seen from its end: those already handed over
    by the run's dequeues followed by those still waiting in the queue -/
def everQueued (e : Env) (g : G) (ops : List Op) : List DepositReceipt :=
  handedDeposits e g ops ++ (run e g ops).st.queue.deposits

theorem stepNew_ok (e : Env) (g : G) (m : NewDepositsMsg) (rel' : Relayer.State) (s' : State)
    (h : newDeposits e.c g.rel g.st m = .ok (rel', s')) :
    ∃ (headers : List (Nat × Bytes)),
      blockHeadersMap m.headers = some headers ∧ Relayer.verifyNonProposal g.rel m.proposer = .ok rel' ∧
      (stepNew e g (.deposits m)).length = m.deposits.length ∧
      s' = { g.st with deposited := g.st.deposited ++ (stepNew e g (.deposits m)).map entry,
                       queue := { g.st.queue with deposits := g.st.queue.deposits ++ stepNew e g (.deposits m) } } ∧
      ∀ k, (h1 : k < m.deposits.length) → (h2 : k < (stepNew e g (.deposits m)).length) →
        (m.deposits[k]).validate = true ∧
        verifyDeposit e.c g.rel (credit g.st ((stepNew e g (.deposits m)).take k)) headers m.deposits[k]
          = .ok (stepNew e g (.deposits m))[k] := by
  obtain ⟨headers, new, t1, t2, t3, t4, t5⟩ := newDeposits_trace e.c g.rel rel' g.st s' m h
  have hs : stepNew e g (.deposits m) = new := by
    simp only [stepNew, h]
    rw [t4]
    simp
  rw [hs]
  exact ⟨headers, t1, t2, t3, t4, t5⟩

theorem stepNew_fail (e : Env) (g : G) (m : NewDepositsMsg) (h : ∀ r, newDeposits e.c g.rel g.st m ≠ .ok r) :
    stepNew e g (.deposits m) = [] := by
  cases hnd : newDeposits e.c g.rel g.st m with
  | ok r => exact absurd hnd (h r)
  | err x => simp only [stepNew, hnd]
  | panic x => simp only [stepNew, hnd]

theorem wr_hist (g : G) (o : Outcome (Relayer.State × State))
    (h : ∀ r, o = .ok r → ∃ p r', C06H.Appends g.st r.2 [] p r') :
    ∃ p r, C06H.Hist g.st (withRes g o).st [] [] p r := by
  cases o with
  | ok r => obtain ⟨p, r', ha⟩ := h r rfl; exact ⟨p, r', C06H.Hist.single_app ha⟩
  | err x => exact ⟨[], [], C06H.Hist.nil⟩
  | panic x => exact ⟨[], [], C06H.Hist.nil⟩

theorem wr_deposited (g : G) (o : Outcome (Relayer.State × State))
    (h : ∀ r, o = .ok r → r.2.deposited = g.st.deposited) : (withRes g o).st.deposited = g.st.deposited := by
  cases o with
  | ok r => exact h r rfl
  | err x => rfl
  | panic x => rfl

/-- **one operation**: it is a one-step C06H history whose batches are `stepBatch` and whose
    appended deposits are `stepNew`; and the credited table grows by exactly the entries of
    `stepNew` — so only a successful `NewDeposits` writes it, every other operation (and every
    failed one) leaves it as it is -/
theorem apply_step (e : Env) (g : G) (op : Op) :
    (∃ p r, C06H.Hist g.st (apply e g op).st (stepBatch g op) (stepNew e g op) p r) ∧
    (apply e g op).st.deposited = g.st.deposited ++ (stepNew e g op).map entry := by
  cases op with
  | process v hv ids tx fee =>
    exact ⟨wr_hist g _ (fun r h => ⟨[], [], (C06H.processWithdrawal_unchanged _ _ _ _ _ _ _ _ _ _ r h).appends⟩),
      by simpa [stepNew, apply] using wr_deposited g _ (fun r h => processWithdrawal_deposited _ _ _ _ _ _ _ _ _ _ r h)⟩
  | replace v hv pid tx fee =>
    exact ⟨wr_hist g _ (fun r h => ⟨[], [], (C06H.replaceWithdrawal_unchanged _ _ _ _ _ _ _ _ _ _ r h).appends⟩),
      by simpa [stepNew, apply] using wr_deposited g _ (fun r h => replaceWithdrawal_deposited _ _ _ _ _ _ _ _ _ _ r h)⟩
  | finalize m =>
    refine ⟨wr_hist g _ (fun r h => ?_),
      by simpa [stepNew, apply] using wr_deposited g _ (fun r h => finalizeWithdrawal_deposited _ _ _ _ r h)⟩
    obtain ⟨_, extra, _, _, ha⟩ := C06H.finalizeWithdrawal_appends _ _ _ _ r h
    exact ⟨extra, [], ha⟩
  | approve pr ids =>
    exact ⟨wr_hist g _ (fun r h => ⟨[], ids, C06H.approveCancellation_appends _ _ _ _ r h⟩),
      by simpa [stepNew, apply] using wr_deposited g _ (fun r h => approveCancellation_deposited _ _ _ _ r h)⟩
  | bridge rq =>
    show (∃ p r, C06H.Hist g.st (match processBridgeRequest e.c g.st rq with | .ok s' => { g with st := s' } | _ => g).st [] [] p r) ∧
      (match processBridgeRequest e.c g.st rq with | .ok s' => { g with st := s' } | _ => g).st.deposited = g.st.deposited ++ [].map entry
    cases hb : processBridgeRequest e.c g.st rq with
    | ok s' =>
      exact ⟨⟨[], _, C06H.Hist.single_app (C06H.processBridgeRequest_appends _ _ _ _ hb)⟩,
        by simpa using processBridgeRequest_deposited _ _ _ _ hb⟩
    | err x => exact ⟨⟨[], [], C06H.Hist.nil⟩, by simp⟩
    | panic x => exact ⟨⟨[], [], C06H.Hist.nil⟩, by simp⟩
  | deposits m =>
    show (∃ p r, C06H.Hist g.st (withRes g (newDeposits e.c g.rel g.st m)).st [] (stepNew e g (.deposits m)) p r) ∧
      (withRes g (newDeposits e.c g.rel g.st m)).st.deposited = g.st.deposited ++ (stepNew e g (.deposits m)).map entry
    cases hnd : newDeposits e.c g.rel g.st m with
    | ok r =>
      obtain ⟨rel', s'⟩ := r
      obtain ⟨_, _, _, _, hs, _⟩ := stepNew_ok e g m rel' s' hnd
      refine ⟨⟨[], [], ?_⟩, ?_⟩
      · refine C06H.Hist.single_app ⟨?_, ?_, ?_, ?_, ?_⟩
        · show s'.queue.deposits = _; rw [hs]
        · show s'.queue.paid = _; rw [hs, List.append_nil]
        · show s'.queue.rejected = _; rw [hs, List.append_nil]
        · show s'.queue.blockNumber = _; rw [hs]
        · show s'.nonce = _; rw [hs]
      · show s'.deposited = _; rw [hs]
    | err x =>
      rw [stepNew_fail e g m (by intro r h; rw [hnd] at h; cases h)]
      exact ⟨⟨[], [], C06H.Hist.nil⟩, by simp [withRes]⟩
    | panic x =>
      rw [stepNew_fail e g m (by intro r h; rw [hnd] at h; cases h)]
      exact ⟨⟨[], [], C06H.Hist.nil⟩, by simp [withRes]⟩
  | blockHashes v hv start hashes =>
    exact ⟨wr_hist g _ (fun r h => ⟨[], [], (C06H.newBlockHashes_unchanged _ _ _ _ _ _ _ _ r h).appends⟩),
      by simpa [stepNew, apply] using wr_deposited g _ (fun r h => newBlockHashes_deposited _ _ _ _ _ _ _ _ r h)⟩
  | pubkey v hv pk =>
    exact ⟨wr_hist g _ (fun r h => ⟨[], [], (C06H.newPubkey_unchanged _ _ _ _ _ _ _ r h).appends⟩),
      by simpa [stepNew, apply] using wr_deposited g _ (fun r h => newPubkey_deposited _ _ _ _ _ _ _ r h)⟩
  | consolidation v hv tx =>
    exact ⟨wr_hist g _ (fun r h => ⟨[], [], (C06H.newConsolidation_unchanged _ _ _ _ _ _ _ _ r h).appends⟩),
      by simpa [stepNew, apply] using wr_deposited g _ (fun r h => newConsolidation_deposited _ _ _ _ _ _ _ _ r h)⟩
  | dequeue =>
    show (∃ p r, C06H.Hist g.st (match dequeue g.st with
        | .ok (s', txs) => { g with st := s', dPaid := g.dPaid ++ C05H.paidIds txs, dRefund := g.dRefund ++ C05H.refundIds txs }
        | _ => g).st (match dequeue g.st with | .ok (_, txs) => [txs] | _ => []) [] p r) ∧
      (match dequeue g.st with
        | .ok (s', txs) => { g with st := s', dPaid := g.dPaid ++ C05H.paidIds txs, dRefund := g.dRefund ++ C05H.refundIds txs }
        | _ => g).st.deposited = g.st.deposited ++ [].map entry
    cases hd : dequeue g.st with
    | ok r =>
      obtain ⟨s', txs⟩ := r
      exact ⟨⟨[], [], C06H.Hist.single_deq hd⟩, by simpa using dequeue_deposited _ _ _ hd⟩
    | err x => exact ⟨⟨[], [], C06H.Hist.nil⟩, by simp⟩
    | panic x => exact ⟨⟨[], [], C06H.Hist.nil⟩, by simp⟩
  | relayer rel' => exact ⟨⟨[], [], C06H.Hist.nil⟩, by simp [stepNew, apply]⟩

end Goat.C03H
