/-
  C03H — deposits over whole histories (the history half of C03).

  C03 (single step, GoatProofs/C03.lean) says what ONE successful `verifyDeposit` / `NewDeposits`
  implies.  This file lifts it to arbitrary finite runs of the C05H operation language (all nine
  message handlers with arbitrary arguments, execution-layer requests, dequeues, arbitrary changes of
  the relayer group; failed operations roll back):

    1. `deposited_nodup_invariant`   the credited keys stay pairwise distinct (only `NewDeposits`
                                     writes the credited table: `apply_frame`, `apply_step`)
    2. `deposited_monotone`, `credited_rejected_forever`
                                     nothing is ever un-credited; a credited (txid, output) is refused
                                     by `verifyDeposit` in every later state
    3. `credited_at_most_once`, `credited_recorded`, `credited_exactly`
                                     the receipts ever queued (handed over ++ still queued, C06H) have
                                     pairwise distinct (txid, output), all recorded in the credited set
    4. `credited_only_if_verified`, `credited_only_if_accepted`
                                     every receipt ever queued is the result of a successful
                                     `verifyDeposit` on the state of that moment
    5. non-vacuity (`Example`)

  Nothing had to be weakened: there is no `…_partial` theorem in this file.  One precision with
  respect to the informal wish "verifyDeposit (state after ops1) = ok receipt": the handler calls
  `verifyDeposit` on the *intermediate* state of its batch loop (the state after `ops1` with the
  earlier receipts of the same batch already credited — this is what rejects duplicates inside one
  batch).  `VerifiedBy` states both: acceptance on that intermediate state (the call really made) and,
  as a consequence (`verifyDeposit_uncredit`), acceptance with the same receipt on the state after
  `ops1` itself.
-/
import GoatModel.Bitcoin
import GoatProofs.C03
import GoatProofs.C05H
import GoatProofs.C06H
namespace Goat.C03H
open Goat.Bitcoin Goat.C03
open Goat.C05H (Env G Op apply run withRes)

/-! ## 0. vocabulary -/

/-- the key under which a receipt is credited -/
def key (r : DepositReceipt) : Bytes × Nat := (r.txid, r.txout)

/-- the entry `NewDeposits` writes into the credited table for a receipt -/
def entry (r : DepositReceipt) : (Bytes × Nat) × Nat := ((r.txid, r.txout), (r.amount + r.tax) % two64)

/-- the state after crediting `rs` (only the credited table grows) -/
def credit (s : State) (rs : List DepositReceipt) : State := { s with deposited := s.deposited ++ rs.map entry }

theorem credit_nil (s : State) : credit s [] = s := by
  cases s; simp [credit]

theorem credit_cons (s : State) (r : DepositReceipt) (rs : List DepositReceipt) :
    credit { s with deposited := s.deposited ++ [((r.txid, r.txout), (r.amount + r.tax) % two64)] } rs = credit s (r :: rs) := by
  simp [credit, entry]

theorem depositedKeys_credit (s : State) (rs : List DepositReceipt) :
    depositedKeys (credit s rs) = depositedKeys s ++ rs.map key := by
  simp [depositedKeys, credit, List.map_append, List.map_map]
  intro a _; rfl

/-! ## 1. `verifyDeposit` reads little of the state -/

theorem verifyDeposit_congr (c : Crypto) (rel rel' : Relayer.State) (s s' : State) (headers : List (Nat × Bytes)) (d : Deposit)
    (hr : rel'.pubkeys = rel.pubkeys) (h1 : s'.hashes = s.hashes) (h2 : s'.tip = s.tip) (h3 : s'.params = s.params)
    (h4 : hasDeposited s' (c.dsha256 d.noWitnessTx) d.outputIndex = hasDeposited s (c.dsha256 d.noWitnessTx) d.outputIndex) :
    verifyDeposit c rel' s' headers d = verifyDeposit c rel s headers d := by
  unfold verifyDeposit
  simp only [hr, h1, h2, h3, h4]

theorem verifyDeposit_credited_err (c : Crypto) (rel : Relayer.State) (s : State) (headers : List (Nat × Bytes)) (d : Deposit)
    (h : hasDeposited s (c.dsha256 d.noWitnessTx) d.outputIndex = true) :
    ∃ msg, verifyDeposit c rel s headers d = .err msg := by
  unfold verifyDeposit
  simp only [h, if_true]
  repeat (first | exact ⟨_, rfl⟩ | split)

/-- a deposit accepted on a state with *more* credited keys is accepted, with the same receipt, on
    the state with fewer: acceptance only reads `hashes`, `tip`, `params` and the absence of the
    key from the credited table -/
theorem verifyDeposit_uncredit (c : Crypto) (rel : Relayer.State) (s : State) (pre : List DepositReceipt)
    (headers : List (Nat × Bytes)) (d : Deposit) (r : DepositReceipt)
    (h : verifyDeposit c rel (credit s pre) headers d = .ok r) : verifyDeposit c rel s headers d = .ok r := by
  obtain ⟨_, _, _, _, _, _, _, _, _, _, _, hnd, _⟩ := C03_accept_implies c rel _ headers d r h
  rw [← h]
  refine (verifyDeposit_congr c rel rel (credit s pre) s headers d rfl rfl rfl rfl ?_)
  rw [hnd]
  cases hh : hasDeposited s (c.dsha256 d.noWitnessTx) d.outputIndex with
  | false => rfl
  | true =>
    have h1 := (hasDeposited_iff _ _ _).mp hh
    have h2 : (c.dsha256 d.noWitnessTx, d.outputIndex) ∈ depositedKeys (credit s pre) := by
      rw [depositedKeys_credit]; exact List.mem_append_left _ h1
    rw [(hasDeposited_iff _ _ _).mpr h2] at hnd
    cases hnd

/-! ## 2. the trace of a successful batch -/

/-- **the batch loop, item by item**: on success it returns one receipt per item; item `k` is
    well-formed and `verifyDeposit` accepted it, with exactly receipt `k`, on the state in which the
    first `k` receipts of this very batch are already credited; the final state is the initial one
    with all receipts credited (nothing else changes) -/
theorem go_trace (c : Crypto) (rel : Relayer.State) (headers : List (Nat × Bytes)) :
    ∀ (ds : List Deposit) (s : State) (acc : List DepositReceipt) (s' : State) (rs : List DepositReceipt),
      newDeposits.go c headers rel ds s acc = .ok (s', rs) →
      ∃ new : List DepositReceipt, rs = acc.reverse ++ new ∧ new.length = ds.length ∧ s' = credit s new ∧
        ∀ k, (h1 : k < ds.length) → (h2 : k < new.length) →
          ds[k].validate = true ∧ verifyDeposit c rel (credit s (new.take k)) headers ds[k] = .ok new[k] := by
  intro ds
  induction ds with
  | nil =>
    intro s acc s' rs h
    simp only [newDeposits.go, Outcome.ok.injEq, Prod.mk.injEq] at h
    obtain ⟨rfl, rfl⟩ := h
    exact ⟨[], by simp, rfl, (credit_nil _).symm, fun k h1 => absurd h1 (by simp)⟩
  | cons d ds ih =>
    intro s acc s' rs h
    simp only [newDeposits.go] at h
    split at h; · cases h
    rename_i hval
    split at h
    · cases h
    · cases h
    · rename_i r hr
      obtain ⟨new, e1, e2, e3, e4⟩ := ih _ (r :: acc) s' rs h
      refine ⟨r :: new, by simp [e1], by simp [e2], by rw [e3, credit_cons], ?_⟩
      intro k h1 h2
      cases k with
      | zero =>
        simp only [List.getElem_cons_zero, List.take_zero, credit_nil]
        exact ⟨by simpa using hval, hr⟩
      | succ k' =>
        have := e4 k' (by simp at h1; omega) (by simp at h2; omega)
        rw [credit_cons] at this
        simpa using this

/-- **the trace of a successful `NewDeposits`**: the header map was well-formed, the sender is the
    current proposer (`verifyNonProposal`; the relayer keys are untouched), one receipt per item, each
    accepted by `verifyDeposit` under the relayer state of the call on the intermediate state of the
    loop; the new state is the old one with the receipts credited and appended to the deposit queue,
    and nothing else changed -/
theorem newDeposits_trace (c : Crypto) (rel rel' : Relayer.State) (s s' : State) (m : NewDepositsMsg)
    (h : newDeposits c rel s m = .ok (rel', s')) :
    ∃ (headers : List (Nat × Bytes)) (new : List DepositReceipt),
      blockHeadersMap m.headers = some headers ∧ Relayer.verifyNonProposal rel m.proposer = .ok rel' ∧
      new.length = m.deposits.length ∧
      s' = { s with deposited := s.deposited ++ new.map entry, queue := { s.queue with deposits := s.queue.deposits ++ new } } ∧
      ∀ k, (h1 : k < m.deposits.length) → (h2 : k < new.length) →
        (m.deposits[k]).validate = true ∧
        verifyDeposit c rel (credit s (new.take k)) headers m.deposits[k] = .ok new[k] := by
  unfold newDeposits at h
  split at h; · cases h
  split at h; · cases h
  split at h
  · cases h
  rename_i headers hh
  split at h
  · cases h
  · cases h
  rename_i rel1 hrel
  simp only at h
  split at h
  · cases h
  · cases h
  rename_i s1 rs hgo
  simp only [Outcome.ok.injEq, Prod.mk.injEq] at h
  obtain ⟨rfl, rfl⟩ := h
  obtain ⟨new, e1, e2, e3, e4⟩ := go_trace c rel1 headers m.deposits s [] s1 rs hgo
  simp only [List.reverse_nil, List.nil_append] at e1
  subst e1
  have hpk : rel1.pubkeys = rel.pubkeys := by
    unfold Relayer.verifyNonProposal at hrel
    split at hrel
    · cases hrel
    · cases hrel; rfl
  refine ⟨headers, rs, hh, hrel, e2, by rw [e3]; rfl, fun k h1 h2 => ?_⟩
  obtain ⟨v1, v2⟩ := e4 k h1 h2
  refine ⟨v1, ?_⟩
  rw [← v2]
  exact (verifyDeposit_congr c rel1 rel _ _ headers _ hpk.symm rfl rfl rfl rfl)

/-! ## 3. frames: no other entry point writes the credited table -/

theorem onlyWithdrawals_deposited {a b : State} (h : C05H.OnlyWithdrawals a b) : b.deposited = a.deposited := by
  unfold C05H.OnlyWithdrawals at h; rw [h]

theorem processWithdrawal_deposited (c : Crypto) (rc : Relayer.Crypto) (chainId : String) (rel : Relayer.State) (s : State)
    (vote : Relayer.VoteMsg) (hv : Bool) (ids : List Nat) (tx : Bytes) (fee : Nat) (r : Relayer.State × State)
    (h : processWithdrawal c rc chainId rel s vote hv ids tx fee = .ok r) : r.2.deposited = s.deposited := by
  unfold processWithdrawal at h
  split at h; · cases h
  split at h; · cases h
  split at h; · cases h
  split at h; · cases h
  split at h
  · cases h
  rename_i outs hparse
  split at h; · cases h
  dsimp only at h
  split at h
  · cases h
  · cases h
  rename_i rel' seq hvp
  split at h
  · cases h
  · cases h
  rename_i s1 vals hgo
  split at h; · cases h
  cases h
  obtain ⟨g1, _⟩ := C05H.process_go_full c tx fee outs (c.dsha256 tx) ids 0 s [] s1 vals hgo
  show s1.deposited = _
  exact onlyWithdrawals_deposited g1

theorem replaceWithdrawal_deposited (c : Crypto) (rc : Relayer.Crypto) (chainId : String) (rel : Relayer.State) (s : State)
    (vote : Relayer.VoteMsg) (hv : Bool) (pid : Nat) (tx : Bytes) (fee : Nat) (r : Relayer.State × State)
    (h : replaceWithdrawal c rc chainId rel s vote hv pid tx fee = .ok r) : r.2.deposited = s.deposited := by
  unfold replaceWithdrawal at h
  split at h; · cases h
  split at h; · cases h
  split at h; · cases h
  split at h
  · cases h
  rename_i outs hparse
  dsimp only at h
  split at h
  · cases h
  rename_i p hp
  split at h; · cases h
  split at h; · cases h
  split at h; · cases h
  split at h
  · cases h
  · cases h
  rename_i rel' seq hvp
  split at h
  · cases h
  · cases h
  rename_i s1 vals hgo
  split at h; · cases h
  cases h
  obtain ⟨g1, _⟩ := C05H.replace_go_spec c tx fee outs (c.dsha256 tx) p.withdrawals 0 s [] s1 vals hgo
  show s1.deposited = _
  exact onlyWithdrawals_deposited g1

theorem finalizeWithdrawal_deposited (c : Crypto) (rel : Relayer.State) (s : State) (m : FinalizeMsg) (r : Relayer.State × State)
    (h : finalizeWithdrawal c rel s m = .ok r) : r.2.deposited = s.deposited := by
  unfold finalizeWithdrawal at h
  split at h; · cases h
  split at h; · cases h
  split at h; · cases h
  split at h
  · cases h
  · cases h
  split at h
  · cases h
  rename_i p hp
  split at h; · cases h
  split at h
  · cases h
  rename_i idx hidx
  simp only at h
  split at h; · cases h
  split at h
  · cases h
  split at h; · cases h
  split at h; · cases h
  split at h
  · cases h
  · cases h
  rename_i s1 hgo
  cases h
  obtain ⟨g1, _⟩ := C05H.finalize_go_spec m _ _ _ _ _ hgo
  unfold C05H.OnlyWP at g1
  show s1.deposited = _
  rw [g1]

theorem approveCancellation_deposited (rel : Relayer.State) (s : State) (proposer : String) (ids : List Nat)
    (r : Relayer.State × State) (h : approveCancellation rel s proposer ids = .ok r) : r.2.deposited = s.deposited := by
  unfold approveCancellation at h
  split at h; · cases h
  split at h
  · cases h
  · cases h
  split at h
  · cases h
  · cases h
  rename_i s1 hgo
  cases h
  obtain ⟨g1, _⟩ := C05H.approve_go_spec _ _ _ hgo
  show s1.deposited = _
  exact onlyWithdrawals_deposited g1

theorem processBridgeRequest_deposited (c : Crypto) (s s' : State) (r : BridgeReqs)
    (h : processBridgeRequest c s r = .ok s') : s'.deposited = s.deposited := by
  rw [C05H.bridge_unfold] at h
  split at h
  · cases h; rfl
  · dsimp only at h
    split at h
    · cases h
    · cases h
    rename_i s2 hrbf
    split at h
    · cases h
    · cases h
    rename_i s3 hcan
    cases h
    obtain ⟨r1, _⟩ := C05H.rbf_go_spec _ _ _ hrbf
    obtain ⟨k1, _⟩ := C05H.cancel_go_spec _ _ _ hcan
    show s3.deposited = _
    rw [onlyWithdrawals_deposited k1, onlyWithdrawals_deposited r1]

theorem newBlockHashes_deposited (rc : Relayer.Crypto) (chainId : String) (rel : Relayer.State) (s : State)
    (vote : Relayer.VoteMsg) (hv : Bool) (start : Nat) (hashes : List Bytes) (r : Relayer.State × State)
    (h : newBlockHashes rc chainId rel s vote hv start hashes = .ok r) : r.2.deposited = s.deposited := by
  unfold newBlockHashes at h
  repeat (first | (split at h <;> try cases h) | dsimp only at h)
  all_goals rfl

theorem newPubkey_deposited (rc : Relayer.Crypto) (chainId : String) (rel : Relayer.State) (s : State)
    (vote : Relayer.VoteMsg) (hv : Bool) (pk : PubKey) (r : Relayer.State × State)
    (h : newPubkey rc chainId rel s vote hv pk = .ok r) : r.2.deposited = s.deposited := by
  unfold newPubkey at h
  repeat (first | (split at h <;> try cases h) | dsimp only at h)
  all_goals rfl

theorem newConsolidation_deposited (c : Crypto) (rc : Relayer.Crypto) (chainId : String) (rel : Relayer.State) (s : State)
    (vote : Relayer.VoteMsg) (hv : Bool) (tx : Bytes) (r : Relayer.State × State)
    (h : newConsolidation c rc chainId rel s vote hv tx = .ok r) : r.2.deposited = s.deposited := by
  unfold newConsolidation at h
  repeat (first | (split at h <;> try cases h) | dsimp only at h)
  all_goals rfl

theorem dequeue_deposited (s s' : State) (txs : List SysTx) (h : dequeue s = .ok (s', txs)) : s'.deposited = s.deposited := by
  unfold dequeue at h
  dsimp only at h
  split at h
  · cases h
  · cases h
  split at h
  · cases h; rfl
  · cases h; rfl

/-! ## 4. what one operation hands over and what it queues -/

/-- the batch of system transactions a (successful) dequeue operation hands to the execution layer -/
def stepBatch (g : G) : Op → List (List SysTx)
  | .dequeue =>
    match dequeue g.st with
    | .ok (_, txs) => [txs]
    | _ => []
  | _ => []

/-- the deposit receipts a (successful) `NewDeposits` operation appends to the deposit queue
    (read off the queue: what stands behind the old queue; see `stepNew_ok` / `newDeposits_trace`) -/
def stepNew (e : Env) (g : G) : Op → List DepositReceipt
  | .deposits m =>
    match newDeposits e.c g.rel g.st m with
    | .ok r => r.2.queue.deposits.drop g.st.queue.deposits.length
    | _ => []
  | _ => []

/-- all batches handed over along a run, in order -/
def batches (e : Env) : G → List Op → List (List SysTx)
  | _, [] => []
  | g, op :: ops => stepBatch g op ++ batches e (apply e g op) ops

/-- all deposit receipts queued by the `NewDeposits` operations of a run, in order -/
def queuedBy (e : Env) : G → List Op → List DepositReceipt
  | _, [] => []
  | g, op :: ops => stepNew e g op ++ queuedBy e (apply e g op) ops

/-- deposit receipts handed to the execution layer (there credited as native coins) along a run -/
def handedDeposits (e : Env) (g : G) (ops : List Op) : List DepositReceipt :=
  C06H.depositsOf (C06H.handed (batches e g ops))

/-- **every deposit receipt ever queued** along a run, seen from its end: those already handed over
    by the run's dequeues followed by those still waiting in the queue -/
def everQueued (e : Env) (g : G) (ops : List Op) : List DepositReceipt :=
  handedDeposits e g ops ++ (run e g ops).st.queue.deposits

theorem stepNew_ok (e : Env) (g : G) (m : NewDepositsMsg) (rel' : Relayer.State) (s' : State)
    (h : newDeposits e.c g.rel g.st m = .ok (rel', s')) :
    ∃ (headers : List (Nat × Bytes)),
      blockHeadersMap m.headers = some headers ∧ Relayer.verifyNonProposal g.rel m.proposer = .ok rel' ∧
      (stepNew e g (.deposits m)).length = m.deposits.length ∧
      s' = { g.st with deposited := g.st.deposited ++ (stepNew e g (.deposits m)).map entry,
                       queue := { g.st.queue with deposits := g.st.queue.deposits ++ stepNew e g (.deposits m) } } ∧
      ∀ k, (h1 : k < m.deposits.length) → (h2 : k < (stepNew e g (.deposits m)).length) →
        (m.deposits[k]).validate = true ∧
        verifyDeposit e.c g.rel (credit g.st ((stepNew e g (.deposits m)).take k)) headers m.deposits[k]
          = .ok (stepNew e g (.deposits m))[k] := by
  obtain ⟨headers, new, t1, t2, t3, t4, t5⟩ := newDeposits_trace e.c g.rel rel' g.st s' m h
  have hs : stepNew e g (.deposits m) = new := by
    simp only [stepNew, h]
    rw [t4]
    simp
  rw [hs]
  exact ⟨headers, t1, t2, t3, t4, t5⟩

/-- link to `C03_deposit_once` / `C06H.newDeposits_appends`: the list they speak of is `stepNew` -/
theorem stepNew_unique (e : Env) (g : G) (m : NewDepositsMsg) (rel' : Relayer.State) (s' : State)
    (h : newDeposits e.c g.rel g.st m = .ok (rel', s')) (new : List DepositReceipt)
    (hq : s'.queue.deposits = g.st.queue.deposits ++ new) : new = stepNew e g (.deposits m) := by
  obtain ⟨_, _, _, _, hs, _⟩ := stepNew_ok e g m rel' s' h
  have : s'.queue.deposits = g.st.queue.deposits ++ stepNew e g (.deposits m) := by rw [hs]
  exact List.append_cancel_left (hq.symm.trans this)

theorem stepNew_fail (e : Env) (g : G) (m : NewDepositsMsg) (h : ∀ r, newDeposits e.c g.rel g.st m ≠ .ok r) :
    stepNew e g (.deposits m) = [] := by
  cases hnd : newDeposits e.c g.rel g.st m with
  | ok r => exact absurd hnd (h r)
  | err x => simp only [stepNew, hnd]
  | panic x => simp only [stepNew, hnd]

theorem wr_hist (g : G) (o : Outcome (Relayer.State × State))
    (h : ∀ r, o = .ok r → ∃ p r', C06H.Appends g.st r.2 [] p r') :
    ∃ p r, C06H.Hist g.st (withRes g o).st [] [] p r := by
  cases o with
  | ok r => obtain ⟨p, r', ha⟩ := h r rfl; exact ⟨p, r', C06H.Hist.single_app ha⟩
  | err x => exact ⟨[], [], C06H.Hist.nil⟩
  | panic x => exact ⟨[], [], C06H.Hist.nil⟩

theorem wr_deposited (g : G) (o : Outcome (Relayer.State × State))
    (h : ∀ r, o = .ok r → r.2.deposited = g.st.deposited) : (withRes g o).st.deposited = g.st.deposited := by
  cases o with
  | ok r => exact h r rfl
  | err x => rfl
  | panic x => rfl

/-- **one operation**: it is a one-step C06H history whose batches are `stepBatch` and whose
    appended deposits are `stepNew`; and the credited table grows by exactly the entries of
    `stepNew` — so only a successful `NewDeposits` writes it, every other operation (and every
    failed one) leaves it as it is -/
theorem apply_step (e : Env) (g : G) (op : Op) :
    (∃ p r, C06H.Hist g.st (apply e g op).st (stepBatch g op) (stepNew e g op) p r) ∧
    (apply e g op).st.deposited = g.st.deposited ++ (stepNew e g op).map entry := by
  cases op with
  | process v hv ids tx fee =>
    exact ⟨wr_hist g _ (fun r h => ⟨[], [], (C06H.processWithdrawal_unchanged _ _ _ _ _ _ _ _ _ _ r h).appends⟩),
      by simpa [stepNew, apply] using wr_deposited g _ (fun r h => processWithdrawal_deposited _ _ _ _ _ _ _ _ _ _ r h)⟩
  | replace v hv pid tx fee =>
    exact ⟨wr_hist g _ (fun r h => ⟨[], [], (C06H.replaceWithdrawal_unchanged _ _ _ _ _ _ _ _ _ _ r h).appends⟩),
      by simpa [stepNew, apply] using wr_deposited g _ (fun r h => replaceWithdrawal_deposited _ _ _ _ _ _ _ _ _ _ r h)⟩
  | finalize m =>
    refine ⟨wr_hist g _ (fun r h => ?_),
      by simpa [stepNew, apply] using wr_deposited g _ (fun r h => finalizeWithdrawal_deposited _ _ _ _ r h)⟩
    obtain ⟨_, extra, _, _, ha⟩ := C06H.finalizeWithdrawal_appends _ _ _ _ r h
    exact ⟨extra, [], ha⟩
  | approve pr ids =>
    exact ⟨wr_hist g _ (fun r h => ⟨[], ids, C06H.approveCancellation_appends _ _ _ _ r h⟩),
      by simpa [stepNew, apply] using wr_deposited g _ (fun r h => approveCancellation_deposited _ _ _ _ r h)⟩
  | bridge rq =>
    show (∃ p r, C06H.Hist g.st (match processBridgeRequest e.c g.st rq with | .ok s' => { g with st := s' } | _ => g).st [] [] p r) ∧
      (match processBridgeRequest e.c g.st rq with | .ok s' => { g with st := s' } | _ => g).st.deposited = g.st.deposited ++ [].map entry
    cases hb : processBridgeRequest e.c g.st rq with
    | ok s' =>
      exact ⟨⟨[], _, C06H.Hist.single_app (C06H.processBridgeRequest_appends _ _ _ _ hb)⟩,
        by simpa using processBridgeRequest_deposited _ _ _ _ hb⟩
    | err x => exact ⟨⟨[], [], C06H.Hist.nil⟩, by simp⟩
    | panic x => exact ⟨⟨[], [], C06H.Hist.nil⟩, by simp⟩
  | deposits m =>
    show (∃ p r, C06H.Hist g.st (withRes g (newDeposits e.c g.rel g.st m)).st [] (stepNew e g (.deposits m)) p r) ∧
      (withRes g (newDeposits e.c g.rel g.st m)).st.deposited = g.st.deposited ++ (stepNew e g (.deposits m)).map entry
    cases hnd : newDeposits e.c g.rel g.st m with
    | ok r =>
      obtain ⟨rel', s'⟩ := r
      obtain ⟨_, _, _, _, hs, _⟩ := stepNew_ok e g m rel' s' hnd
      refine ⟨⟨[], [], ?_⟩, ?_⟩
      · refine C06H.Hist.single_app ⟨?_, ?_, ?_, ?_, ?_⟩
        · show s'.queue.deposits = _; rw [hs]
        · show s'.queue.paid = _; rw [hs, List.append_nil]
        · show s'.queue.rejected = _; rw [hs, List.append_nil]
        · show s'.queue.blockNumber = _; rw [hs]
        · show s'.nonce = _; rw [hs]
      · show s'.deposited = _; rw [hs]
    | err x =>
      rw [stepNew_fail e g m (by intro r h; rw [hnd] at h; cases h)]
      exact ⟨⟨[], [], C06H.Hist.nil⟩, by simp [withRes]⟩
    | panic x =>
      rw [stepNew_fail e g m (by intro r h; rw [hnd] at h; cases h)]
      exact ⟨⟨[], [], C06H.Hist.nil⟩, by simp [withRes]⟩
  | blockHashes v hv start hashes =>
    exact ⟨wr_hist g _ (fun r h => ⟨[], [], (C06H.newBlockHashes_unchanged _ _ _ _ _ _ _ _ r h).appends⟩),
      by simpa [stepNew, apply] using wr_deposited g _ (fun r h => newBlockHashes_deposited _ _ _ _ _ _ _ _ r h)⟩
  | pubkey v hv pk =>
    exact ⟨wr_hist g _ (fun r h => ⟨[], [], (C06H.newPubkey_unchanged _ _ _ _ _ _ _ r h).appends⟩),
      by simpa [stepNew, apply] using wr_deposited g _ (fun r h => newPubkey_deposited _ _ _ _ _ _ _ r h)⟩
  | consolidation v hv tx =>
    exact ⟨wr_hist g _ (fun r h => ⟨[], [], (C06H.newConsolidation_unchanged _ _ _ _ _ _ _ _ r h).appends⟩),
      by simpa [stepNew, apply] using wr_deposited g _ (fun r h => newConsolidation_deposited _ _ _ _ _ _ _ _ r h)⟩
  | dequeue =>
    show (∃ p r, C06H.Hist g.st (match dequeue g.st with
        | .ok (s', txs) => { g with st := s', dPaid := g.dPaid ++ C05H.paidIds txs, dRefund := g.dRefund ++ C05H.refundIds txs }
        | _ => g).st (match dequeue g.st with | .ok (_, txs) => [txs] | _ => []) [] p r) ∧
      (match dequeue g.st with
        | .ok (s', txs) => { g with st := s', dPaid := g.dPaid ++ C05H.paidIds txs, dRefund := g.dRefund ++ C05H.refundIds txs }
        | _ => g).st.deposited = g.st.deposited ++ [].map entry
    cases hd : dequeue g.st with
    | ok r =>
      obtain ⟨s', txs⟩ := r
      exact ⟨⟨[], [], C06H.Hist.single_deq hd⟩, by simpa using dequeue_deposited _ _ _ hd⟩
    | err x => exact ⟨⟨[], [], C06H.Hist.nil⟩, by simp⟩
    | panic x => exact ⟨⟨[], [], C06H.Hist.nil⟩, by simp⟩
  | relayer rel' => exact ⟨⟨[], [], C06H.Hist.nil⟩, by simp [stepNew, apply]⟩

/-- every operation but `NewDeposits` leaves the credited table untouched -/
theorem apply_frame (e : Env) (g : G) (op : Op) (hop : ∀ m, op ≠ .deposits m) :
    (apply e g op).st.deposited = g.st.deposited := by
  have h := (apply_step e g op).2
  have hs : stepNew e g op = [] := by
    cases op <;> first | rfl | exact absurd rfl (hop _)
  rw [h, hs, List.map_nil, List.append_nil]

/-- a failed `NewDeposits` leaves the whole state untouched -/
theorem apply_deposits_failed (e : Env) (g : G) (m : NewDepositsMsg) (h : ∀ r, newDeposits e.c g.rel g.st m ≠ .ok r) :
    apply e g (.deposits m) = g := by
  show withRes g (newDeposits e.c g.rel g.st m) = g
  cases hnd : newDeposits e.c g.rel g.st m with
  | ok r => exact absurd hnd (h r)
  | err x => rfl
  | panic x => rfl

/-! ## 5. runs -/

/-- **every run is a C06H history** whose batches are `batches` and whose appended deposits are
    `queuedBy` (so all FIFO / nonce / cap theorems of C06H apply to these very lists) -/
theorem run_hist (e : Env) : ∀ (ops : List Op) (g : G),
    ∃ p r, C06H.Hist g.st (run e g ops).st (batches e g ops) (queuedBy e g ops) p r := by
  intro ops
  induction ops with
  | nil => intro g; exact ⟨[], [], C06H.Hist.nil⟩
  | cons op ops ih =>
    intro g
    obtain ⟨⟨p1, r1, h1⟩, _⟩ := apply_step e g op
    obtain ⟨p2, r2, h2⟩ := ih (apply e g op)
    exact ⟨p1 ++ p2, r1 ++ r2, h1.trans h2⟩

/-- **decomposition (C06H)**: handed over ++ still queued = initially queued ++ queued by the run -/
theorem everQueued_eq (e : Env) (ops : List Op) (g : G) :
    everQueued e g ops = g.st.queue.deposits ++ queuedBy e g ops := by
  obtain ⟨p, r, h⟩ := run_hist e ops g
  exact C06H.fifo_deposits h

/-- the credited table after a run is the initial table followed by the entries of the receipts the
    run queued, in order -/
theorem run_deposited (e : Env) : ∀ (ops : List Op) (g : G),
    (run e g ops).st.deposited = g.st.deposited ++ (queuedBy e g ops).map entry := by
  intro ops
  induction ops with
  | nil => intro g; simp [run, queuedBy]
  | cons op ops ih =>
    intro g
    show (run e (apply e g op) ops).st.deposited = _
    rw [ih, (apply_step e g op).2]
    simp [queuedBy]

theorem run_keys (e : Env) (ops : List Op) (g : G) :
    depositedKeys (run e g ops).st = depositedKeys g.st ++ (queuedBy e g ops).map key := by
  unfold depositedKeys
  rw [run_deposited, List.map_append, List.map_map]
  rfl

/-! ### 1. the invariant -/

/-- one operation preserves `Nodup` of the credited keys -/
theorem deposited_nodup_step (e : Env) (g : G) (op : Op) (h : (depositedKeys g.st).Nodup) :
    (depositedKeys (apply e g op).st).Nodup := by
  by_cases hop : ∃ m, op = .deposits m
  · obtain ⟨m, rfl⟩ := hop
    show (depositedKeys (withRes g (newDeposits e.c g.rel g.st m)).st).Nodup
    cases hnd : newDeposits e.c g.rel g.st m with
    | ok r =>
      obtain ⟨rel', s'⟩ := r
      obtain ⟨_, _, _, h3⟩ := C03_deposit_once e.c g.rel rel' g.st s' m hnd h
      exact h3
    | err x => exact h
    | panic x => exact h
  · have hf := apply_frame e g op (fun m hm => hop ⟨m, hm⟩)
    unfold depositedKeys at h ⊢
    rw [hf]; exact h

/-- **1. the credited keys stay pairwise distinct along every run** -/
theorem deposited_nodup_invariant (e : Env) : ∀ (ops : List Op) (g : G),
    (depositedKeys g.st).Nodup → (depositedKeys (run e g ops).st).Nodup := by
  intro ops
  induction ops with
  | nil => intro g h; exact h
  | cons op ops ih => intro g h; exact ih _ (deposited_nodup_step e g op h)

/-! ### 2. monotone, rejected forever -/

/-- **2a. nothing is ever un-credited** -/
theorem deposited_monotone (e : Env) (g : G) (ops : List Op) (k : Bytes × Nat)
    (h : k ∈ depositedKeys g.st) : k ∈ depositedKeys (run e g ops).st := by
  rw [run_keys]; exact List.mem_append_left _ h

/-- … in the strong form: the old table is a prefix of the new one (entries, hence also amounts,
    are never rewritten or reordered) -/
theorem deposited_prefix (e : Env) (g : G) (ops : List Op) :
    g.st.deposited <+: (run e g ops).st.deposited := ⟨_, (run_deposited e ops g).symm⟩

/-- … between any two points of a run -/
theorem deposited_monotone_between (e : Env) (g : G) (ops1 ops2 : List Op) (k : Bytes × Nat)
    (h : k ∈ depositedKeys (run e g ops1).st) : k ∈ depositedKeys (run e g (ops1 ++ ops2)).st := by
  rw [C05H.run_append]; exact deposited_monotone e _ ops2 k h

/-- **2b. once credited, rejected forever**: if the key (txid, output) is in the credited set at
    some point of a run, then in every later state of the run `verifyDeposit` answers with an error
    for every deposit with that transaction id and that output — whatever the rest of the deposit,
    the headers, the relayer state, even the crypto parameters -/
theorem credited_rejected_forever (e : Env) (g : G) (ops1 ops2 : List Op) (t : Bytes) (v : Nat)
    (hk : (t, v) ∈ depositedKeys (run e g ops1).st)
    (c : Crypto) (rel : Relayer.State) (headers : List (Nat × Bytes)) (d : Deposit)
    (ht : c.dsha256 d.noWitnessTx = t) (hv : d.outputIndex = v) :
    (∃ msg, verifyDeposit c rel (run e g (ops1 ++ ops2)).st headers d = .err msg) ∧
    ∀ r, verifyDeposit c rel (run e g (ops1 ++ ops2)).st headers d ≠ .ok r := by
  have hm := deposited_monotone_between e g ops1 ops2 (t, v) hk
  have hd : hasDeposited (run e g (ops1 ++ ops2)).st (c.dsha256 d.noWitnessTx) d.outputIndex = true := by
    rw [ht, hv]; exact (hasDeposited_iff _ _ _).mpr hm
  obtain ⟨msg, hmsg⟩ := verifyDeposit_credited_err c rel _ headers d hd
  exact ⟨⟨msg, hmsg⟩, fun r hr => by rw [hmsg] at hr; cases hr⟩

/-- … and a whole `NewDeposits` batch that contains such a deposit fails and changes nothing -/
theorem credited_batch_rejected (e : Env) (g : G) (m : NewDepositsMsg) (d : Deposit) (hd : d ∈ m.deposits)
    (hk : (e.c.dsha256 d.noWitnessTx, d.outputIndex) ∈ depositedKeys g.st) :
    apply e g (.deposits m) = g := by
  apply apply_deposits_failed
  intro out hout
  obtain ⟨rel', s'⟩ := out
  obtain ⟨headers, _, _, hlen, _, hv⟩ := stepNew_ok e g m rel' s' hout
  obtain ⟨k, hk1, rfl⟩ := List.getElem_of_mem hd
  obtain ⟨_, v2⟩ := hv k hk1 (by rw [hlen]; exact hk1)
  have v3 := verifyDeposit_uncredit _ _ _ _ _ _ _ v2
  have hh : hasDeposited g.st (e.c.dsha256 (m.deposits[k]).noWitnessTx) (m.deposits[k]).outputIndex = true :=
    (hasDeposited_iff _ _ _).mpr hk
  obtain ⟨msg, hmsg⟩ := verifyDeposit_credited_err e.c g.rel g.st headers _ hh
  rw [hmsg] at v3; cases v3

/-! ### 3. credited at most once -/

/-- general form (the initial queue may hold receipts, provided they are themselves credited and
    pairwise distinct): the keys of all receipts ever queued are pairwise distinct, each of them is
    in the final credited set, and the final credited set is the initial one plus the keys of the
    receipts queued by the run -/
theorem credited_at_most_once_general (e : Env) (g : G) (ops : List Op)
    (hn : (depositedKeys g.st).Nodup)
    (hq : (g.st.queue.deposits.map key).Nodup) (hqc : ∀ r ∈ g.st.queue.deposits, key r ∈ depositedKeys g.st) :
    ((everQueued e g ops).map key).Nodup ∧
    (∀ r ∈ everQueued e g ops, key r ∈ depositedKeys (run e g ops).st) ∧
    depositedKeys (run e g ops).st = depositedKeys g.st ++ (queuedBy e g ops).map key := by
  have hfin := deposited_nodup_invariant e ops g hn
  have hk := run_keys e ops g
  rw [hk, List.nodup_append] at hfin
  obtain ⟨_, hnew, hdis⟩ := hfin
  rw [everQueued_eq, List.map_append]
  refine ⟨?_, ?_, hk⟩
  · rw [List.nodup_append]
    refine ⟨hq, hnew, ?_⟩
    intro a ha b hb
    obtain ⟨r, hr, rfl⟩ := List.mem_map.mp ha
    exact hdis _ (hqc r hr) b hb
  · intro r hr
    rw [hk]
    rcases List.mem_append.mp hr with h | h
    · exact List.mem_append_left _ (hqc r h)
    · exact List.mem_append_right _ (List.mem_map_of_mem h)

/-- **3. each (txid, output) is credited at most once in the lifetime of the chain**: from a state
    with an empty deposit queue and pairwise distinct credited keys, along every run, the receipts
    ever queued (handed over ++ still queued) have pairwise distinct (txid, output) -/
theorem credited_at_most_once (e : Env) (g : G) (ops : List Op)
    (hn : (depositedKeys g.st).Nodup) (hq : g.st.queue.deposits = []) :
    ((everQueued e g ops).map (fun r => (r.txid, r.txout))).Nodup :=
  (credited_at_most_once_general e g ops hn (by rw [hq]; exact List.nodup_nil) (by rw [hq]; intro r hr; cases hr)).1

/-- the same, as a pairwise statement on the receipts -/
theorem credited_at_most_once_pairwise (e : Env) (g : G) (ops : List Op)
    (hn : (depositedKeys g.st).Nodup) (hq : g.st.queue.deposits = []) :
    (everQueued e g ops).Pairwise (fun a b => (a.txid, a.txout) ≠ (b.txid, b.txout)) := by
  have h := credited_at_most_once e g ops hn hq
  unfold List.Nodup at h
  rw [List.pairwise_map] at h
  exact h

/-- the same, counting: no (txid, output) occurs twice among the receipts ever queued -/
theorem credited_count_le_one (e : Env) (g : G) (ops : List Op)
    (hn : (depositedKeys g.st).Nodup) (hq : g.st.queue.deposits = []) (k : Bytes × Nat) :
    ((everQueued e g ops).map (fun r => (r.txid, r.txout))).count k ≤ 1 :=
  List.nodup_iff_count.mp (credited_at_most_once e g ops hn hq) k

/-- **3 (converse link)**: every receipt ever queued has its key in the final credited set -/
theorem credited_recorded (e : Env) (g : G) (ops : List Op)
    (hn : (depositedKeys g.st).Nodup) (hq : g.st.queue.deposits = []) (r : DepositReceipt)
    (hr : r ∈ everQueued e g ops) : (r.txid, r.txout) ∈ depositedKeys (run e g ops).st :=
  (credited_at_most_once_general e g ops hn (by rw [hq]; exact List.nodup_nil) (by rw [hq]; intro r hr; cases hr)).2.1 r hr

/-- … and exactly: the final credited set is the initial one followed by the keys of the receipts
    ever queued, in queueing order (no `Nodup` hypothesis needed) -/
theorem credited_exactly (e : Env) (g : G) (ops : List Op) (hq : g.st.queue.deposits = []) :
    depositedKeys (run e g ops).st = depositedKeys g.st ++ (everQueued e g ops).map (fun r => (r.txid, r.txout)) := by
  rw [everQueued_eq, hq, List.nil_append]
  exact run_keys e ops g

/-- … with the amounts: the table records for each receipt ever queued amount + tax (mod 2^64) -/
theorem credited_exactly_entries (e : Env) (g : G) (ops : List Op) (hq : g.st.queue.deposits = []) :
    (run e g ops).st.deposited = g.st.deposited ++ (everQueued e g ops).map entry := by
  rw [everQueued_eq, hq, List.nil_append]
  exact run_deposited e ops g

/-! ### 4. credited only if verified -/

/-- `r` is the receipt of item `k` of the batch `m`, which succeeded on `g`: the item was well-formed
    and `verifyDeposit` returned exactly `r` for it — on the intermediate state of the batch loop
    (`g.st` with the first `k` receipts of the batch already credited; this is the call the handler
    makes) and therefore also on `g.st` itself -/
def VerifiedBy (e : Env) (g : G) (m : NewDepositsMsg) (r : DepositReceipt) : Prop :=
  ∃ (out : Relayer.State × State) (headers : List (Nat × Bytes)) (k : Nat)
    (h1 : k < m.deposits.length) (h2 : k < (stepNew e g (.deposits m)).length),
    newDeposits e.c g.rel g.st m = .ok out ∧ blockHeadersMap m.headers = some headers ∧
    (stepNew e g (.deposits m))[k] = r ∧ (m.deposits[k]).validate = true ∧
    verifyDeposit e.c g.rel (credit g.st ((stepNew e g (.deposits m)).take k)) headers m.deposits[k] = .ok r ∧
    verifyDeposit e.c g.rel g.st headers m.deposits[k] = .ok r

theorem stepNew_verified (e : Env) (g : G) (op : Op) (r : DepositReceipt) (h : r ∈ stepNew e g op) :
    ∃ m, op = .deposits m ∧ VerifiedBy e g m r := by
  cases op with
  | deposits m =>
    refine ⟨m, rfl, ?_⟩
    cases hnd : newDeposits e.c g.rel g.st m with
    | ok out =>
      obtain ⟨rel', s'⟩ := out
      obtain ⟨headers, hh, _, hlen, _, hv⟩ := stepNew_ok e g m rel' s' hnd
      obtain ⟨k, hk, rfl⟩ := List.getElem_of_mem h
      have hk1 : k < m.deposits.length := by rw [← hlen]; exact hk
      obtain ⟨v1, v2⟩ := hv k hk1 hk
      exact ⟨(rel', s'), headers, k, hk1, hk, hnd, hh, rfl, v1, v2, verifyDeposit_uncredit _ _ _ _ _ _ _ v2⟩
    | err x => rw [stepNew_fail e g m (by intro r h; rw [hnd] at h; cases h)] at h; cases h
    | panic x => rw [stepNew_fail e g m (by intro r h; rw [hnd] at h; cases h)] at h; cases h
  | _ => cases h

theorem queuedBy_verified (e : Env) : ∀ (ops : List Op) (g : G) (r : DepositReceipt), r ∈ queuedBy e g ops →
    ∃ ops1 m ops2, ops = ops1 ++ .deposits m :: ops2 ∧ VerifiedBy e (run e g ops1) m r := by
  intro ops
  induction ops with
  | nil => intro g r h; cases h
  | cons op ops ih =>
    intro g r h
    rcases List.mem_append.mp h with h | h
    · obtain ⟨m, rfl, hv⟩ := stepNew_verified e g op r h
      exact ⟨[], m, ops, rfl, hv⟩
    · obtain ⟨ops1, m, ops2, rfl, hv⟩ := ih (apply e g op) r h
      exact ⟨op :: ops1, m, ops2, rfl, hv⟩

/-- general form: a receipt ever queued was either in the initial queue or was produced by a
    successful `verifyDeposit` at the point of the run where it was queued -/
theorem credited_only_if_verified_general (e : Env) (g : G) (ops : List Op) (r : DepositReceipt)
    (hr : r ∈ everQueued e g ops) :
    r ∈ g.st.queue.deposits ∨
    ∃ ops1 m ops2, ops = ops1 ++ .deposits m :: ops2 ∧ VerifiedBy e (run e g ops1) m r := by
  rw [everQueued_eq] at hr
  rcases List.mem_append.mp hr with h | h
  · exact Or.inl h
  · exact Or.inr (queuedBy_verified e ops g r h)

/-- **4. credited only if verified**: from an empty deposit queue, every receipt ever queued by a
    run was queued by one of its `NewDeposits` operations `m`, run on the state reached by the
    prefix `ops1`, as the receipt `verifyDeposit` returned for one of the items of `m` on that
    state (`VerifiedBy`) -/
theorem credited_only_if_verified (e : Env) (g : G) (ops : List Op) (hq : g.st.queue.deposits = [])
    (r : DepositReceipt) (hr : r ∈ everQueued e g ops) :
    ∃ ops1 m ops2, ops = ops1 ++ .deposits m :: ops2 ∧ VerifiedBy e (run e g ops1) m r := by
  rcases credited_only_if_verified_general e g ops r hr with h | h
  · rw [hq] at h; cases h
  · exact h

/-- what `VerifiedBy` means clause by clause (the conclusion of `C03_accept_implies` on the state
    `s` reached by the prefix, under the relayer keys `rel` of that moment) -/
def Accepted (c : Crypto) (rel : Relayer.State) (s : State) (headers : List (Nat × Bytes)) (d : Deposit) (r : DepositReceipt) : Prop :=
  rel.pubkeys.contains d.pubkey.encode = true ∧
  ∃ blockHash header outs,
    nlookup s.hashes d.blockNumber = some blockHash ∧
    (d.txIndex = 0 → d.blockNumber + 100 ≤ s.tip) ∧
    nlookup headers d.blockNumber = some header ∧ header.length = 80 ∧ blockHash = c.dsha256 header ∧
    BtcTx.parseNoWitness d.noWitnessTx = some outs ∧ d.outputIndex < outs.length ∧
    hasDeposited s (c.dsha256 d.noWitnessTx) d.outputIndex = false ∧
    s.params.minDeposit ≤ (outs[d.outputIndex]!).value ∧
    ScriptOk c s.params.magic d outs ∧
    Merkle.verify c.dsha256 (c.dsha256 d.noWitnessTx) ((header.drop 36).take 32) d.proof d.txIndex = true ∧
    r = { address := d.evm, txid := c.dsha256 d.noWitnessTx, txout := d.outputIndex,
          amount := (taxOf s.params (outs[d.outputIndex]!).value).1, tax := (taxOf s.params (outs[d.outputIndex]!).value).2 }

/-- **4 (spelled out)**: every receipt ever queued comes from a deposit `d` of a `NewDeposits`
    message of the run such that, on the state `s` and relayer keys of that moment: the key of `d` is
    a registered relayer key; the block hash of the claimed height is voted and is the double hash of
    the submitted 80-byte header; a claimed position 0 has 100 voted blocks above; the transaction
    parses, the output exists, was not yet credited, pays at least the minimum to the script bound to
    that key and EVM address; the transaction id is SPV-proven under the header's Merkle root at the
    claimed position; and the receipt is (address, txid, output, value − tax, tax). -/
theorem credited_only_if_accepted (e : Env) (g : G) (ops : List Op) (hq : g.st.queue.deposits = [])
    (r : DepositReceipt) (hr : r ∈ everQueued e g ops) :
    ∃ ops1 m ops2 headers d, ops = ops1 ++ .deposits m :: ops2 ∧ d ∈ m.deposits ∧ d.validate = true ∧
      blockHeadersMap m.headers = some headers ∧
      Accepted e.c (run e g ops1).rel (run e g ops1).st headers d r := by
  obtain ⟨ops1, m, ops2, ho, _, headers, k, h1, _, _, hh, _, hval, _, hv⟩ := credited_only_if_verified e g ops hq r hr
  exact ⟨ops1, m, ops2, headers, m.deposits[k], ho, List.getElem_mem h1, hval, hh,
    C03_accept_implies _ _ _ _ _ _ hv⟩

/-! ## 6. non-vacuity -/

namespace Example

/-- the toy crypto of C05H (double hash = 32 copies of the length) with a 32-byte `sha256` -/
def c1 : Crypto := { C05H.c0 with sha256 := fun _ => List.replicate 32 0 }
def pk1 : PubKey := { kind := 0, key := 2 :: List.replicate 32 0 }
/-- the relayer group of C05H with one registered Bitcoin key -/
def rel1 : Relayer.State := { C05H.rel0 with pubkeys := [pk1.encode] }
def evm1 : Bytes := List.replicate 20 0xaa
/-- a 94-byte transaction: one input, one output of 50000 to the P2WSH script of (evm1, pk1) -/
def dtx1 : Bytes :=
  [0,0,0,0] ++ [1] ++ List.replicate 36 0 ++ [0] ++ [0,0,0,0] ++ [1] ++ le64 50000 ++ [34] ++
    ([0x00, 0x20] ++ List.replicate 32 0) ++ [0,0,0,0]
/-- a 95-byte transaction (one byte of input script), output of 70000 to the same script -/
def dtx2 : Bytes :=
  [0,0,0,0] ++ [1] ++ List.replicate 36 0 ++ [1, 0] ++ [0,0,0,0] ++ [1] ++ le64 70000 ++ [34] ++
    ([0x00, 0x20] ++ List.replicate 32 0) ++ [0,0,0,0]
/-- an 80-byte header whose Merkle root field is the toy hash of a 64-byte node -/
def hdr : Bytes := List.replicate 36 0 ++ List.replicate 32 64 ++ List.replicate 12 0
def dep1 : Deposit :=
  { version := 0, blockNumber := 3, txIndex := 1, noWitnessTx := dtx1, outputIndex := 0, proof := List.replicate 32 1,
    evm := evm1, pubkey := pk1 }
def dep2 : Deposit := { dep1 with noWitnessTx := dtx2 }
def msg1 : NewDepositsMsg := { proposer := "p", headers := [(3, hdr)], deposits := [dep1] }
def msg12 : NewDepositsMsg := { msg1 with deposits := [dep1, dep2] }
def msg11 : NewDepositsMsg := { msg1 with deposits := [dep1, dep1] }
def msg2 : NewDepositsMsg := { msg1 with deposits := [dep2] }
/-- the empty bridge of C05H with the hash of height 3 voted (and announced), minimum deposit 1000, tax 1 % capped at 300 -/
def s1 : State :=
  { C05H.s0 with params := { minDeposit := 1000, confirmations := 1, taxRate := 100, maxTax := 300, magic := [] },
                 hashes := [(3, List.replicate 32 80)], tip := 3, queue := { C05H.q0 with blockNumber := 3 } }
def e1 : Env := { c := c1, rc := C05H.rc0, chainId := "x" }
def g1 : G := { rel := rel1, st := s1, dPaid := [], dRefund := [] }
def rcp1 : DepositReceipt := { address := evm1, txid := List.replicate 32 94, txout := 0, amount := 49700, tax := 300 }
def rcp2 : DepositReceipt := { address := evm1, txid := List.replicate 32 95, txout := 0, amount := 69700, tax := 300 }

/-- `verifyDeposit` accepts: the hypotheses of `C03_accept_implies` / `VerifiedBy` are satisfiable -/
example : verifyDeposit c1 rel1 s1 [(3, hdr)] dep1 = .ok rcp1 := by decide

/-- a batch of two distinct deposits succeeds, queues both receipts and credits both keys -/
example : ∃ r, newDeposits c1 rel1 s1 msg12 = .ok r ∧ r.2.queue.deposits = [rcp1, rcp2] ∧
    depositedKeys r.2 = [(List.replicate 32 94, 0), (List.replicate 32 95, 0)] :=
  ⟨_, rfl, by decide, by decide⟩

/-- a batch that repeats a deposit is rejected as a whole (the loop credits item by item) -/
example : newDeposits c1 rel1 s1 msg11 = .err "duplicated" := rfl

/-- a run: credit 1; replay of 1 (rejected); hand-over; batch {1, 2} (rejected: 1 is credited);
    credit 2; replay of 2 (rejected) -/
def ops : List Op := [.deposits msg1, .deposits msg1, .dequeue, .deposits msg12, .deposits msg2, .deposits msg2]

example : (depositedKeys g1.st).Nodup ∧ g1.st.queue.deposits = [] := ⟨List.nodup_nil, rfl⟩

example : handedDeposits e1 g1 ops = [rcp1] ∧ (run e1 g1 ops).st.queue.deposits = [rcp2] ∧
    everQueued e1 g1 ops = [rcp1, rcp2] ∧ queuedBy e1 g1 ops = [rcp1, rcp2] ∧
    (run e1 g1 ops).st.deposited = [((List.replicate 32 94, 0), 50000), ((List.replicate 32 95, 0), 70000)] := by
  decide

/-- the theorems instantiated on this run -/
example : ((everQueued e1 g1 ops).map (fun r => (r.txid, r.txout))).Nodup :=
  credited_at_most_once e1 g1 ops List.nodup_nil rfl
example : ∃ ops1 m ops2, ops = ops1 ++ .deposits m :: ops2 ∧ VerifiedBy e1 (run e1 g1 ops1) m rcp2 :=
  credited_only_if_verified e1 g1 ops rfl rcp2 (by decide)
set_option maxRecDepth 8192 in
example : apply e1 (run e1 g1 ops) (.deposits msg12) = run e1 g1 ops :=
  credited_batch_rejected e1 _ msg12 dep1 (List.mem_cons_self ..) (by decide)

end Example

/-
  Theorems of this file, in English.

  vocabulary
    key r, entry r             the key (txid, output) and the table entry ((txid, output), amount+tax mod 2^64) of a receipt
    credit s rs                the state s with the receipts rs credited (only the credited table grows)
    stepBatch / stepNew        what one operation hands over (a dequeue) / queues (a NewDeposits)
    batches, queuedBy          … accumulated along a run
    handedDeposits, everQueued the deposit receipts handed over by a run; those ++ the ones still queued
    VerifiedBy, Accepted       "r is the receipt verifyDeposit returned for item k of batch m on g" / the clauses of C03_accept_implies

  state reading of verifyDeposit
    verifyDeposit_congr        verifyDeposit reads only the relayer keys, hashes, tip, params and whether the key is credited
    verifyDeposit_credited_err if the key (txid, output) is credited, verifyDeposit returns an error
    verifyDeposit_uncredit     acceptance on a state with more credited keys implies acceptance (same receipt) with fewer

  one batch
    go_trace                   the batch loop returns one receipt per item; item k was well-formed and accepted by
                               verifyDeposit on the state with the first k receipts credited; only the credited table grows
    newDeposits_trace          a successful NewDeposits: well-formed header map, sender is the proposer, the trace of
                               go_trace under the relayer keys of the call, and the exact new state
    stepNew_ok / stepNew_unique / stepNew_fail
                               the same with the list named `stepNew`; it is the list of C03_deposit_once; [] on failure

  frames (the credited table is written by nobody else)
    processWithdrawal_deposited, replaceWithdrawal_deposited, finalizeWithdrawal_deposited,
    approveCancellation_deposited, processBridgeRequest_deposited, newBlockHashes_deposited,
    newPubkey_deposited, newConsolidation_deposited, dequeue_deposited
                               each of these entry points leaves `deposited` unchanged
    apply_step                 one operation is a one-step C06H history (batches stepBatch, appended deposits stepNew)
                               and grows the credited table by exactly the entries of stepNew
    apply_frame                every operation other than NewDeposits leaves the credited table unchanged
    apply_deposits_failed      a failed NewDeposits leaves the whole state unchanged

  runs
    run_hist                   every run is a C06H history with batches `batches` and appended deposits `queuedBy`
    everQueued_eq              handed over ++ still queued = initially queued ++ queued by the run
    run_deposited / run_keys   final credited table (keys) = initial ++ entries (keys) of the receipts queued by the run
    deposited_nodup_step       one operation preserves pairwise distinctness of the credited keys
    deposited_nodup_invariant  (1) … hence every run does
    deposited_monotone         (2a) a credited key stays credited along every run
    deposited_prefix           … the old table is a prefix of the new one (entries never rewritten or reordered)
    deposited_monotone_between … between any two points of a run
    credited_rejected_forever  (2b) a key credited at some point makes verifyDeposit fail with an error, for every deposit
                               with that txid and output, in every later state of the run
    credited_batch_rejected    … and a NewDeposits batch containing such a deposit changes nothing
    credited_at_most_once_general
                               (3, initial queue allowed) keys of everQueued pairwise distinct, all in the final credited
                               set, final set = initial ++ keys queued by the run
    credited_at_most_once      (3) from an empty queue and distinct credited keys: the receipts ever queued have
                               pairwise distinct (txid, output)
    credited_at_most_once_pairwise, credited_count_le_one
                               the same as a Pairwise statement / as "count ≤ 1"
    credited_recorded          (3, converse) every receipt ever queued has its key in the final credited set
    credited_exactly           final credited keys = initial keys ++ keys of the receipts ever queued, in order
    credited_exactly_entries   … with the recorded amounts (amount + tax mod 2^64)
    stepNew_verified, queuedBy_verified
                               a receipt queued by an operation / a run is VerifiedBy a NewDeposits operation at that point
    credited_only_if_verified_general
                               a receipt ever queued was in the initial queue or is VerifiedBy … at its point of the run
    credited_only_if_verified  (4) from an empty queue: ops = ops1 ++ NewDeposits m :: ops2 and verifyDeposit returned
                               exactly this receipt for an item of m on the state after ops1
    credited_only_if_accepted  (4, spelled out) … so all clauses of C03_accept_implies held on that state

  Example                      a toy crypto, two deposits, a run with replays and a hand-over: hypotheses satisfiable,
                               conclusions evaluated
-/

end Goat.C03H
