/-
  C11 — locked funds are conserved: locked = held + slashed + released.
-/
import GoatModel.Locking
import GoatProofs.Lemmas.Arith
namespace Goat.C11
open Goat.Locking

/-- the amount taken by a slash is `⌊holding · fraction⌋` -/
theorem slash_amount (a frac : Nat) : slashAmount a frac = a * frac / e18 := slashAmount_eq a frac

/-- a slash never takes more than the holding (fractions are validated to be below one) -/
theorem slash_le_holding (a frac : Nat) (hf : frac ≤ e18) : slashAmount a frac ≤ a := slashAmount_le a frac hf

end Goat.C11
