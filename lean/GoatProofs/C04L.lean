/-
  C04L — a credited transaction can never be mistaken for an inner Merkle node.

  The Merkle check (C04) hashes 64-byte strings at inner nodes and the raw no-witness transaction at the leaf.
  The classic ambiguity (a 64-byte "transaction" that is really the concatenation of two child hashes) is
  excluded by the size bounds of the message validation: every deposit of an accepted batch carries between
  94 and 32768 bytes, so its leaf pre-image is not a 64-byte string.  Together with C04.RunCollision (which
  names the colliding pair among the hashed strings) this separates leaf pre-images from node pre-images.
-/
import GoatModel.Bitcoin
import GoatProofs.C03
namespace Goat.C04L
open Goat.Bitcoin

theorem go_sizes (c : Crypto) (rel : Relayer.State) (headers : List (Nat × Bytes)) :
    ∀ (ds : List Deposit) (s : State) (acc : List DepositReceipt) (s' : State) (rs : List DepositReceipt),
      newDeposits.go c headers rel ds s acc = .ok (s', rs) →
      ∀ d ∈ ds, 94 ≤ d.noWitnessTx.length ∧ d.noWitnessTx.length ≤ 32768 ∧ d.evm.length = 20 := by
  intro ds
  induction ds with
  | nil => intro s acc s' rs _ d hd; cases hd
  | cons d0 ds ih =>
    intro s acc s' rs h d hd
    simp only [newDeposits.go] at h
    split at h; · cases h
    rename_i hv
    split at h
    · cases h
    · cases h
    · rcases List.mem_cons.mp hd with hd | hd
      · subst hd
        simp [Deposit.validate] at hv
        exact ⟨hv.1.1.2, hv.1.2, hv.1.1.1⟩
      · exact ih _ _ s' rs h d hd

/-- **No credited transaction has the size of an inner node's pre-image.** -/
theorem credited_tx_not_node_sized (c : Crypto) (rel rel' : Relayer.State) (s s' : State) (m : NewDepositsMsg)
    (h : newDeposits c rel s m = .ok (rel', s')) :
    ∀ d ∈ m.deposits, d.noWitnessTx.length ≠ 64 ∧ 94 ≤ d.noWitnessTx.length ∧ d.noWitnessTx.length ≤ 32768 := by
  unfold newDeposits at h
  split at h; · cases h
  split at h; · cases h
  split at h
  · cases h
  · split at h
    · cases h
    · cases h
    · split at h
      · cases h
      · cases h
      · rename_i s1 rs hgo
        intro d hd
        have := go_sizes c _ _ _ _ _ _ _ hgo d hd
        omega

end Goat.C04L
#print axioms Goat.C04L.credited_tx_not_node_sized
