/-
  C12 across a restart from exported state: "all reward value is accounted for" does not stop at the export.
  The reward total of the locking module — undistributed pools + validators' unclaimed rewards + payouts queued for the
  execution layer — is the same after `initGenesis (exportGenesis s)`.  (Corollary of C18.import_export; this is what the
  `reward-total-differs` comparison of the export streams observes on the real application.)
-/
import GoatProofs.C18
namespace Goat.C12G
open Goat Goat.Locking Goat.Genesis

def accrued (vs : List (Bytes × Validator)) : Int := (vs.map (fun e => e.2.reward + e.2.gasReward)).sum
def queued (rs : List Reward) : Int := (rs.map (fun r => r.goat + r.gas)).sum

/-- undistributed pools + unclaimed rewards + queued payouts -/
def rewardTotal (s : State) : Int :=
  s.pool.goat + s.pool.gas + s.pool.remain + accrued s.validators + queued s.qRewards

theorem perm_sum {a b : List Int} (h : a.Perm b) : a.sum = b.sum := by
  induction h with
  | nil => rfl
  | cons x _ ih => simp only [List.sum_cons, ih]
  | swap x y l => simp only [List.sum_cons]; omega
  | trans _ _ ih1 ih2 => exact ih1.trans ih2

theorem accrued_perm {a b : List (Bytes × Validator)} (h : a.Perm b) : accrued a = accrued b :=
  perm_sum (h.map _)

/-- **reward value survives export → import**: for every store with well-formed primary data and consistent derived
    data, the chain started from its export holds exactly the same reward total -/
theorem reward_total_survives_restart (h : Bytes → Bytes) (s : State) (wf : C18.WfState h s) (hd : C18.Derived s) :
    ∃ s' ups, initGenesis h (exportGenesis s) = .ok (s', ups) ∧ rewardTotal s' = rewardTotal s := by
  obtain ⟨s', ups, hi, rep, _, _⟩ := C18.import_export h s wf hd
  refine ⟨s', ups, hi, ?_⟩
  unfold rewardTotal
  rw [rep.pool, rep.qRewards, rep.validators, accrued_perm (C18.sortVals_perm s.validators)]

/-- and dropping a validator record that still carries rewards (seeded change C12-r4) loses exactly that much -/
theorem dropped_record_loses_its_rewards (a : Bytes) (v : Validator) (vs : List (Bytes × Validator)) :
    accrued ((a, v) :: vs) = accrued vs + (v.reward + v.gasReward) := by
  unfold accrued; simp only [List.map_cons, List.sum_cons]; omega

end Goat.C12G
