/-
  C03T: the Bitcoin transaction parser model (GoatModel/BtcTx.lean) accepts exactly the canonical
  serializations: encode/parse round trips and canonicity (no malleability of accepted bytes).
-/
import GoatModel.BtcTx
import GoatProofs.C19R
namespace Goat.C03T
open Goat Goat.BtcTx Goat.C19R

/-! ## Stage 1: var-int -/

def encodeVarInt (n : Nat) : Bytes :=
  if n < 0xfd then [UInt8.ofNat n]
  else if n < 0x10000 then (0xfd : UInt8) :: leBytes 2 n
  else if n < 0x100000000 then (0xfe : UInt8) :: leBytes 4 n
  else (0xff : UInt8) :: leBytes 8 n

theorem fd_toNat : (0xfd : UInt8).toNat = 0xfd := by decide
theorem fe_toNat : (0xfe : UInt8).toNat = 0xfe := by decide
theorem ff_toNat : (0xff : UInt8).toNat = 0xff := by decide

theorem encodeVarInt_pos (n : Nat) : 1 ≤ (encodeVarInt n).length := by
  unfold encodeVarInt
  split
  · simp
  · split
    · simp
    · split <;> simp

theorem readVarInt_encode (n : Nat) (rest : Bytes) (h : n < 2 ^ 64) :
    readVarInt (encodeVarInt n ++ rest) = some (n, rest) := by
  unfold encodeVarInt
  split
  · rename_i h1
    have e : (UInt8.ofNat n).toNat = n := by
      rw [UInt8.toNat_ofNat']; omega
    simp only [List.cons_append, List.nil_append, readVarInt, e]
    rw [if_neg (by omega), if_neg (by omega), if_neg (by omega)]
  · split
    · have e : leToNat (leBytes 2 n) = n := by
        rw [leToNat_leBytes]; have : (256 : Nat) ^ 2 = 65536 := by decide
        omega
      simp only [List.cons_append, readVarInt, fd_toNat]
      rw [take_left (leBytes_length 2 n), drop_left (leBytes_length 2 n), e]
      simp [leBytes_length]
      try omega
    · split
      · have e : leToNat (leBytes 4 n) = n := by
          rw [leToNat_leBytes]; have : (256 : Nat) ^ 4 = 4294967296 := by decide
          omega
        simp only [List.cons_append, readVarInt, fe_toNat]
        rw [take_left (leBytes_length 4 n), drop_left (leBytes_length 4 n), e]
        simp [leBytes_length]
        try omega
      · have e : leToNat (leBytes 8 n) = n := by
          rw [leToNat_leBytes, p64]; omega
        simp only [List.cons_append, readVarInt, ff_toNat]
        rw [take_left (leBytes_length 8 n), drop_left (leBytes_length 8 n), e]
        simp [leBytes_length]
        try omega

theorem take_rebuild (k : Nat) (l : Bytes) (h : ¬ l.length < k) :
    leBytes k (leToNat (l.take k)) ++ l.drop k = l := by
  have hl : (l.take k).length = k := by simp; omega
  have := leBytes_leToNat (l.take k)
  rw [hl] at this
  rw [this, List.take_append_drop]

/-- an accepted var-int is THE canonical encoding (no malleability) -/
theorem readVarInt_canonical {bs : Bytes} {n : Nat} {rest : Bytes}
    (h : readVarInt bs = some (n, rest)) : n < 2 ^ 64 ∧ bs = encodeVarInt n ++ rest := by
  cases bs with
  | nil => simp [readVarInt] at h
  | cons d r =>
    have hd := UInt8.toNat_lt d
    simp only [readVarInt] at h
    split at h
    · rename_i hff
      split at h
      · exact absurd h (by simp)
      · rename_i hlen
        split at h
        · exact absurd h (by simp)
        · rename_i hv
          simp only [Option.some.injEq, Prod.mk.injEq] at h
          obtain ⟨hn, hr⟩ := h
          subst hn; subst hr
          have hlt := leToNat_lt (r.take 8)
          have hl : (r.take 8).length = 8 := by simp; omega
          rw [hl, p64] at hlt
          refine ⟨hlt, ?_⟩
          have hd' : d = 0xff := UInt8.toNat_inj.mp (by rw [hff]; rfl)
          unfold encodeVarInt
          rw [if_neg (by omega), if_neg (by omega), if_neg (by omega), hd', List.cons_append,
            take_rebuild 8 r hlen]
    · split at h
      · rename_i hff hfe
        split at h
        · exact absurd h (by simp)
        · rename_i hlen
          split at h
          · exact absurd h (by simp)
          · rename_i hv
            simp only [Option.some.injEq, Prod.mk.injEq] at h
            obtain ⟨hn, hr⟩ := h
            subst hn; subst hr
            have hlt := leToNat_lt (r.take 4)
            have hl : (r.take 4).length = 4 := by simp; omega
            have p4 : (256 : Nat) ^ 4 = 4294967296 := by decide
            rw [hl, p4] at hlt
            refine ⟨by omega, ?_⟩
            have hd' : d = 0xfe := UInt8.toNat_inj.mp (by rw [hfe]; rfl)
            unfold encodeVarInt
            rw [if_neg (by omega), if_neg (by omega), if_pos (by omega), hd', List.cons_append,
              take_rebuild 4 r hlen]
      · split at h
        · rename_i hff hfe hfd
          split at h
          · exact absurd h (by simp)
          · rename_i hlen
            split at h
            · exact absurd h (by simp)
            · rename_i hv
              simp only [Option.some.injEq, Prod.mk.injEq] at h
              obtain ⟨hn, hr⟩ := h
              subst hn; subst hr
              have hlt := leToNat_lt (r.take 2)
              have hl : (r.take 2).length = 2 := by simp; omega
              have p2 : (256 : Nat) ^ 2 = 65536 := by decide
              rw [hl, p2] at hlt
              refine ⟨by omega, ?_⟩
              have hd' : d = 0xfd := UInt8.toNat_inj.mp (by rw [hfd]; rfl)
              unfold encodeVarInt
              rw [if_neg (by omega), if_pos (by omega), hd', List.cons_append,
                take_rebuild 2 r hlen]
        · rename_i hff hfe hfd
          simp only [Option.some.injEq, Prod.mk.injEq] at h
          obtain ⟨hn, hr⟩ := h
          subst hn; subst hr
          refine ⟨by omega, ?_⟩
          unfold encodeVarInt
          rw [if_pos (by omega), UInt8.ofNat_toNat]
          rfl

theorem readVarInt_shorter {bs : Bytes} {n : Nat} {rest : Bytes}
    (h : readVarInt bs = some (n, rest)) : rest.length < bs.length := by
  obtain ⟨_, rfl⟩ := readVarInt_canonical h
  have := encodeVarInt_pos n
  simp only [List.length_append]; omega

/-! ## Stage 2: scripts and outputs -/

def encodeScript (s : Bytes) : Bytes := encodeVarInt s.length ++ s

theorem maxScript_lt : maxScript < 2 ^ 64 := by decide

theorem readScript_eq (bs : Bytes) : readScript bs =
    match readVarInt bs with
    | none => none
    | some (n, rest) =>
      if n > maxScript then none else if rest.length < n then none
      else some (rest.take n, rest.drop n) := by
  unfold readScript
  cases readVarInt bs with
  | none => rfl
  | some p => cases p; rfl

theorem readScript_encode {s rest : Bytes} (hs : s.length ≤ maxScript) :
    readScript (encodeScript s ++ rest) = some (s, rest) := by
  have h64 : s.length < 2 ^ 64 := Nat.lt_of_le_of_lt hs maxScript_lt
  rw [readScript_eq, encodeScript, List.append_assoc, readVarInt_encode _ _ h64]
  simp only
  rw [if_neg (by omega), if_neg (by simp), take_left rfl, drop_left rfl]

theorem readScript_canonical {bs s rest : Bytes} (h : readScript bs = some (s, rest)) :
    s.length ≤ maxScript ∧ bs = encodeScript s ++ rest := by
  rw [readScript_eq] at h
  cases hv : readVarInt bs with
  | none => rw [hv] at h; simp at h
  | some p =>
    obtain ⟨n, r⟩ := p
    rw [hv] at h
    simp only at h
    split at h
    · simp at h
    · split at h
      · simp at h
      · rename_i h1 h2
        simp only [Option.some.injEq, Prod.mk.injEq] at h
        obtain ⟨rfl, rfl⟩ := h
        obtain ⟨_, rfl⟩ := readVarInt_canonical hv
        have hl : (r.take n).length = n := by simp; omega
        refine ⟨by omega, ?_⟩
        rw [encodeScript, hl, List.append_assoc, List.take_append_drop]

theorem encodeScript_pos (s : Bytes) : 1 ≤ (encodeScript s).length := by
  have := encodeVarInt_pos s.length
  simp only [encodeScript, List.length_append]; omega

def encodeOut (o : TxOut) : Bytes := leBytes 8 o.value ++ encodeScript o.pkScript

def encodeOuts : List TxOut → Bytes
  | [] => []
  | o :: os => encodeOut o ++ encodeOuts os

def OutWF (o : TxOut) : Prop := o.value < 2 ^ 64 ∧ o.pkScript.length ≤ maxScript

theorem readOuts_encode (os : List TxOut) (rest : Bytes) (acc : List TxOut)
    (h : ∀ o ∈ os, OutWF o) :
    readOuts os.length (encodeOuts os ++ rest) acc = some (acc.reverse ++ os, rest) := by
  induction os generalizing acc with
  | nil => simp [encodeOuts, readOuts]
  | cons o os ih =>
    obtain ⟨hv, hs⟩ := h o (by simp)
    have hbs : encodeOuts (o :: os) ++ rest
        = leBytes 8 o.value ++ (encodeScript o.pkScript ++ (encodeOuts os ++ rest)) := by
      simp [encodeOuts, encodeOut, List.append_assoc]
    have e : leToNat (leBytes 8 o.value) = o.value := by
      rw [leToNat_leBytes, p64]; omega
    rw [hbs, List.length_cons]
    simp only [readOuts]
    rw [if_neg (by simp [leBytes_length]), drop_left (leBytes_length 8 _),
      take_left (leBytes_length 8 _), readScript_encode hs, e]
    simp only
    rw [ih _ (fun o' ho' => h o' (by simp [ho']))]
    simp

theorem readOuts_canonical {k : Nat} {bs : Bytes} {acc res : List TxOut} {rest : Bytes}
    (h : readOuts k bs acc = some (res, rest)) :
    ∃ os, os.length = k ∧ res = acc.reverse ++ os ∧ (∀ o ∈ os, OutWF o) ∧
      bs = encodeOuts os ++ rest := by
  induction k generalizing bs acc with
  | zero =>
    simp only [readOuts, Option.some.injEq, Prod.mk.injEq] at h
    obtain ⟨rfl, rfl⟩ := h
    exact ⟨[], rfl, by simp, by simp, by simp [encodeOuts]⟩
  | succ k ih =>
    simp only [readOuts] at h
    split at h
    · simp at h
    · rename_i hlen
      split at h
      · simp at h
      · rename_i sc r hsc
        obtain ⟨hscl, hdrop⟩ := readScript_canonical hsc
        obtain ⟨os, hk, hres, hwf, hr⟩ := ih h
        have hlt := leToNat_lt (bs.take 8)
        have hl : (bs.take 8).length = 8 := by simp; omega
        rw [hl, p64] at hlt
        refine ⟨{ value := leToNat (bs.take 8), pkScript := sc } :: os, by simp [hk], ?_, ?_, ?_⟩
        · rw [hres]; simp
        · intro o ho
          rcases List.mem_cons.mp ho with rfl | ho
          · exact ⟨hlt, hscl⟩
          · exact hwf o ho
        · have := take_rebuild 8 bs hlen
          rw [hdrop, hr] at this
          refine this.symm.trans ?_
          simp [encodeOuts, encodeOut, List.append_assoc]

end Goat.C03T
