/-
  C03T: the Bitcoin transaction parser model (GoatModel/BtcTx.lean) accepts exactly the canonical
  serializations: encode/parse round trips and canonicity (no malleability of accepted bytes).
-/
import GoatModel.BtcTx
import GoatProofs.C19R
namespace Goat.C03T
open Goat Goat.BtcTx Goat.C19R

/-! ## Stage 1: var-int -/

def encodeVarInt (n : Nat) : Bytes :=
  if n < 0xfd then [UInt8.ofNat n]
  else if n < 0x10000 then (0xfd : UInt8) :: leBytes 2 n
  else if n < 0x100000000 then (0xfe : UInt8) :: leBytes 4 n
  else (0xff : UInt8) :: leBytes 8 n

theorem fd_toNat : (0xfd : UInt8).toNat = 0xfd := by decide
theorem fe_toNat : (0xfe : UInt8).toNat = 0xfe := by decide
theorem ff_toNat : (0xff : UInt8).toNat = 0xff := by decide

theorem encodeVarInt_pos (n : Nat) : 1 ≤ (encodeVarInt n).length := by
  unfold encodeVarInt
  split
  · simp
  · split
    · simp
    · split <;> simp

theorem readVarInt_encode (n : Nat) (rest : Bytes) (h : n < 2 ^ 64) :
    readVarInt (encodeVarInt n ++ rest) = some (n, rest) := by
  unfold encodeVarInt
  split
  · rename_i h1
    have e : (UInt8.ofNat n).toNat = n := by
      rw [UInt8.toNat_ofNat']; omega
    simp only [List.cons_append, List.nil_append, readVarInt, e]
    rw [if_neg (by omega), if_neg (by omega), if_neg (by omega)]
  · split
    · have e : leToNat (leBytes 2 n) = n := by
        rw [leToNat_leBytes]; have : (256 : Nat) ^ 2 = 65536 := by decide
        omega
      simp only [List.cons_append, readVarInt, fd_toNat]
      rw [take_left (leBytes_length 2 n), drop_left (leBytes_length 2 n), e]
      simp [leBytes_length]
      try omega
    · split
      · have e : leToNat (leBytes 4 n) = n := by
          rw [leToNat_leBytes]; have : (256 : Nat) ^ 4 = 4294967296 := by decide
          omega
        simp only [List.cons_append, readVarInt, fe_toNat]
        rw [take_left (leBytes_length 4 n), drop_left (leBytes_length 4 n), e]
        simp [leBytes_length]
        try omega
      · have e : leToNat (leBytes 8 n) = n := by
          rw [leToNat_leBytes, p64]; omega
        simp only [List.cons_append, readVarInt, ff_toNat]
        rw [take_left (leBytes_length 8 n), drop_left (leBytes_length 8 n), e]
        simp [leBytes_length]
        try omega

theorem take_rebuild (k : Nat) (l : Bytes) (h : ¬ l.length < k) :
    leBytes k (leToNat (l.take k)) ++ l.drop k = l := by
  have hl : (l.take k).length = k := by simp; omega
  have := leBytes_leToNat (l.take k)
  rw [hl] at this
  rw [this, List.take_append_drop]

/-- an accepted var-int is THE canonical encoding (no malleability) -/
theorem readVarInt_canonical {bs : Bytes} {n : Nat} {rest : Bytes}
    (h : readVarInt bs = some (n, rest)) : n < 2 ^ 64 ∧ bs = encodeVarInt n ++ rest := by
  cases bs with
  | nil => simp [readVarInt] at h
  | cons d r =>
    have hd := UInt8.toNat_lt d
    simp only [readVarInt] at h
    split at h
    · rename_i hff
      split at h
      · exact absurd h (by simp)
      · rename_i hlen
        split at h
        · exact absurd h (by simp)
        · rename_i hv
          simp only [Option.some.injEq, Prod.mk.injEq] at h
          obtain ⟨hn, hr⟩ := h
          subst hn; subst hr
          have hlt := leToNat_lt (r.take 8)
          have hl : (r.take 8).length = 8 := by simp; omega
          rw [hl, p64] at hlt
          refine ⟨hlt, ?_⟩
          have hd' : d = 0xff := UInt8.toNat_inj.mp (by rw [hff]; rfl)
          unfold encodeVarInt
          rw [if_neg (by omega), if_neg (by omega), if_neg (by omega), hd', List.cons_append,
            take_rebuild 8 r hlen]
    · split at h
      · rename_i hff hfe
        split at h
        · exact absurd h (by simp)
        · rename_i hlen
          split at h
          · exact absurd h (by simp)
          · rename_i hv
            simp only [Option.some.injEq, Prod.mk.injEq] at h
            obtain ⟨hn, hr⟩ := h
            subst hn; subst hr
            have hlt := leToNat_lt (r.take 4)
            have hl : (r.take 4).length = 4 := by simp; omega
            have p4 : (256 : Nat) ^ 4 = 4294967296 := by decide
            rw [hl, p4] at hlt
            refine ⟨by omega, ?_⟩
            have hd' : d = 0xfe := UInt8.toNat_inj.mp (by rw [hfe]; rfl)
            unfold encodeVarInt
            rw [if_neg (by omega), if_neg (by omega), if_pos (by omega), hd', List.cons_append,
              take_rebuild 4 r hlen]
      · split at h
        · rename_i hff hfe hfd
          split at h
          · exact absurd h (by simp)
          · rename_i hlen
            split at h
            · exact absurd h (by simp)
            · rename_i hv
              simp only [Option.some.injEq, Prod.mk.injEq] at h
              obtain ⟨hn, hr⟩ := h
              subst hn; subst hr
              have hlt := leToNat_lt (r.take 2)
              have hl : (r.take 2).length = 2 := by simp; omega
              have p2 : (256 : Nat) ^ 2 = 65536 := by decide
              rw [hl, p2] at hlt
              refine ⟨by omega, ?_⟩
              have hd' : d = 0xfd := UInt8.toNat_inj.mp (by rw [hfd]; rfl)
              unfold encodeVarInt
              rw [if_neg (by omega), if_pos (by omega), hd', List.cons_append,
                take_rebuild 2 r hlen]
        · rename_i hff hfe hfd
          simp only [Option.some.injEq, Prod.mk.injEq] at h
          obtain ⟨hn, hr⟩ := h
          subst hn; subst hr
          refine ⟨by omega, ?_⟩
          unfold encodeVarInt
          rw [if_pos (by omega), UInt8.ofNat_toNat]
          rfl

theorem readVarInt_shorter {bs : Bytes} {n : Nat} {rest : Bytes}
    (h : readVarInt bs = some (n, rest)) : rest.length < bs.length := by
  obtain ⟨_, rfl⟩ := readVarInt_canonical h
  have := encodeVarInt_pos n
  simp only [List.length_append]; omega

/-! ## Stage 2: scripts and outputs -/

def encodeScript (s : Bytes) : Bytes := encodeVarInt s.length ++ s

theorem maxScript_lt : maxScript < 2 ^ 64 := by decide

theorem readScript_eq (bs : Bytes) : readScript bs =
    match readVarInt bs with
    | none => none
    | some (n, rest) =>
      if n > maxScript then none else if rest.length < n then none
      else some (rest.take n, rest.drop n) := by
  unfold readScript
  cases readVarInt bs with
  | none => rfl
  | some p => cases p; rfl

theorem readScript_encode {s rest : Bytes} (hs : s.length ≤ maxScript) :
    readScript (encodeScript s ++ rest) = some (s, rest) := by
  have h64 : s.length < 2 ^ 64 := Nat.lt_of_le_of_lt hs maxScript_lt
  rw [readScript_eq, encodeScript, List.append_assoc, readVarInt_encode _ _ h64]
  simp only
  rw [if_neg (by omega), if_neg (by simp), take_left rfl, drop_left rfl]

theorem readScript_canonical {bs s rest : Bytes} (h : readScript bs = some (s, rest)) :
    s.length ≤ maxScript ∧ bs = encodeScript s ++ rest := by
  rw [readScript_eq] at h
  cases hv : readVarInt bs with
  | none => rw [hv] at h; simp at h
  | some p =>
    obtain ⟨n, r⟩ := p
    rw [hv] at h
    simp only at h
    split at h
    · simp at h
    · split at h
      · simp at h
      · rename_i h1 h2
        simp only [Option.some.injEq, Prod.mk.injEq] at h
        obtain ⟨rfl, rfl⟩ := h
        obtain ⟨_, rfl⟩ := readVarInt_canonical hv
        have hl : (r.take n).length = n := by simp; omega
        refine ⟨by omega, ?_⟩
        rw [encodeScript, hl, List.append_assoc, List.take_append_drop]

theorem encodeScript_pos (s : Bytes) : 1 ≤ (encodeScript s).length := by
  have := encodeVarInt_pos s.length
  simp only [encodeScript, List.length_append]; omega

def encodeOut (o : TxOut) : Bytes := leBytes 8 o.value ++ encodeScript o.pkScript

def encodeOuts : List TxOut → Bytes
  | [] => []
  | o :: os => encodeOut o ++ encodeOuts os

def OutWF (o : TxOut) : Prop := o.value < 2 ^ 64 ∧ o.pkScript.length ≤ maxScript

theorem readOuts_encode (os : List TxOut) (rest : Bytes) (acc : List TxOut)
    (h : ∀ o ∈ os, OutWF o) :
    readOuts os.length (encodeOuts os ++ rest) acc = some (acc.reverse ++ os, rest) := by
  induction os generalizing acc with
  | nil => simp [encodeOuts, readOuts]
  | cons o os ih =>
    obtain ⟨hv, hs⟩ := h o (by simp)
    have hbs : encodeOuts (o :: os) ++ rest
        = leBytes 8 o.value ++ (encodeScript o.pkScript ++ (encodeOuts os ++ rest)) := by
      simp [encodeOuts, encodeOut, List.append_assoc]
    have e : leToNat (leBytes 8 o.value) = o.value := by
      rw [leToNat_leBytes, p64]; omega
    rw [hbs, List.length_cons]
    simp only [readOuts]
    rw [if_neg (by simp [leBytes_length]), drop_left (leBytes_length 8 _),
      take_left (leBytes_length 8 _), readScript_encode hs, e]
    simp only
    rw [ih _ (fun o' ho' => h o' (by simp [ho']))]
    simp

theorem readOuts_canonical {k : Nat} {bs : Bytes} {acc res : List TxOut} {rest : Bytes}
    (h : readOuts k bs acc = some (res, rest)) :
    ∃ os, os.length = k ∧ res = acc.reverse ++ os ∧ (∀ o ∈ os, OutWF o) ∧
      bs = encodeOuts os ++ rest := by
  induction k generalizing bs acc with
  | zero =>
    simp only [readOuts, Option.some.injEq, Prod.mk.injEq] at h
    obtain ⟨rfl, rfl⟩ := h
    exact ⟨[], rfl, by simp, by simp, by simp [encodeOuts]⟩
  | succ k ih =>
    simp only [readOuts] at h
    split at h
    · simp at h
    · rename_i hlen
      split at h
      · simp at h
      · rename_i sc r hsc
        obtain ⟨hscl, hdrop⟩ := readScript_canonical hsc
        obtain ⟨os, hk, hres, hwf, hr⟩ := ih h
        have hlt := leToNat_lt (bs.take 8)
        have hl : (bs.take 8).length = 8 := by simp; omega
        rw [hl, p64] at hlt
        refine ⟨{ value := leToNat (bs.take 8), pkScript := sc } :: os, by simp [hk], ?_, ?_, ?_⟩
        · rw [hres]; simp
        · intro o ho
          rcases List.mem_cons.mp ho with rfl | ho
          · exact ⟨hlt, hscl⟩
          · exact hwf o ho
        · have := take_rebuild 8 bs hlen
          rw [hdrop, hr] at this
          refine this.symm.trans ?_
          simp [encodeOuts, encodeOut, List.append_assoc]

/-! ## Stage 3: inputs and the whole transaction -/

structure TxIn where
  prev : Bytes
  script : Bytes
  seq : Bytes
  deriving DecidableEq, Repr

def InWF (i : TxIn) : Prop := i.prev.length = 36 ∧ i.script.length ≤ maxScript ∧ i.seq.length = 4

def encodeIn (i : TxIn) : Bytes := i.prev ++ (encodeScript i.script ++ i.seq)

def encodeIns : List TxIn → Bytes
  | [] => []
  | i :: is => encodeIn i ++ encodeIns is

theorem readIns_encode (ins : List TxIn) (rest : Bytes) (h : ∀ i ∈ ins, InWF i) :
    readIns ins.length (encodeIns ins ++ rest) = some rest := by
  induction ins with
  | nil => simp [encodeIns, readIns]
  | cons i is ih =>
    obtain ⟨hp, hs, hq⟩ := h i (by simp)
    have hbs : encodeIns (i :: is) ++ rest
        = i.prev ++ (encodeScript i.script ++ (i.seq ++ (encodeIns is ++ rest))) := by
      simp [encodeIns, encodeIn, List.append_assoc]
    rw [hbs, List.length_cons]
    simp only [readIns]
    rw [if_neg (by simp only [List.length_append, hp]; omega), drop_left hp, readScript_encode hs]
    simp only
    rw [if_neg (by simp only [List.length_append, hq]; omega), drop_left hq,
      ih (fun o' ho' => h o' (by simp [ho']))]

theorem readIns_canonical {k : Nat} {bs rest : Bytes} (h : readIns k bs = some rest) :
    ∃ ins : List TxIn, ins.length = k ∧ (∀ i ∈ ins, InWF i) ∧ bs = encodeIns ins ++ rest := by
  induction k generalizing bs with
  | zero =>
    simp only [readIns, Option.some.injEq] at h
    exact ⟨[], rfl, by simp, by simp [encodeIns, h]⟩
  | succ k ih =>
    simp only [readIns] at h
    split at h
    · simp at h
    · rename_i hlen
      split at h
      · simp at h
      · rename_i sc r hsc
        split at h
        · simp at h
        · rename_i hlen4
          obtain ⟨hscl, hdrop⟩ := readScript_canonical hsc
          obtain ⟨ins, hk, hwf, hr⟩ := ih h
          refine ⟨{ prev := bs.take 36, script := sc, seq := r.take 4 } :: ins, by simp [hk], ?_, ?_⟩
          · intro i hi
            rcases List.mem_cons.mp hi with rfl | hi
            · refine ⟨?_, hscl, ?_⟩
              · simp; omega
              · simp; omega
            · exact hwf i hi
          · have h1 := List.take_append_drop 36 bs
            have h2 := List.take_append_drop 4 r
            rw [hdrop, ← h2, hr] at h1
            refine h1.symm.trans ?_
            simp [encodeIns, encodeIn, List.append_assoc]

theorem encodeIns_length (ins : List TxIn) (h : ∀ i ∈ ins, InWF i) :
    ins.length * 41 ≤ (encodeIns ins).length := by
  induction ins with
  | nil => simp
  | cons i is ih =>
    obtain ⟨hp, _, hq⟩ := h i (by simp)
    have := ih (fun o' ho' => h o' (by simp [ho']))
    have := encodeScript_pos i.script
    simp only [encodeIns, encodeIn, List.length_append, List.length_cons, hp, hq]
    omega

theorem encodeOuts_length (os : List TxOut) : os.length * 9 ≤ (encodeOuts os).length := by
  induction os with
  | nil => simp
  | cons o os ih =>
    have := encodeScript_pos o.pkScript
    simp only [encodeOuts, encodeOut, List.length_append, List.length_cons, leBytes_length]
    omega

structure Tx where
  version : Bytes
  ins : List TxIn
  outs : List TxOut
  lock : Bytes

def Tx.WF (tx : Tx) : Prop :=
  tx.version.length = 4 ∧ tx.lock.length = 4 ∧ tx.ins.length ≤ maxTxIn ∧ tx.outs.length ≤ maxTxOut ∧
    (∀ i ∈ tx.ins, InWF i) ∧ (∀ o ∈ tx.outs, OutWF o)

def serialize (tx : Tx) : Bytes :=
  tx.version ++ (encodeVarInt tx.ins.length ++ (encodeIns tx.ins ++
    (encodeVarInt tx.outs.length ++ (encodeOuts tx.outs ++ tx.lock))))

theorem maxTxIn_lt : maxTxIn < 2 ^ 64 := by decide
theorem maxTxOut_lt : maxTxOut < 2 ^ 64 := by decide

theorem parse_serialize {tx : Tx} (h : tx.WF) : parseNoWitness (serialize tx) = some tx.outs := by
  obtain ⟨hv, hl, hni, hno, hi, ho⟩ := h
  have h1 := encodeIns_length tx.ins hi
  have h2 := encodeOuts_length tx.outs
  simp only [parseNoWitness, serialize, bind, Option.bind]
  rw [if_neg (by simp only [List.length_append, hv]; omega), drop_left hv,
    readVarInt_encode _ _ (Nat.lt_of_le_of_lt hni maxTxIn_lt)]
  simp only
  rw [if_neg (by omega), if_neg (by simp only [List.length_append]; omega),
    readIns_encode _ _ hi]
  simp only
  rw [readVarInt_encode _ _ (Nat.lt_of_le_of_lt hno maxTxOut_lt)]
  simp only
  rw [if_neg (by omega), if_neg (by simp only [List.length_append]; omega),
    readOuts_encode _ _ [] ho]
  simp [hl]

/-- every accepted raw transaction is the canonical serialization of exactly one well-formed
transaction: the byte string hashed into the txid is determined by the parsed structure -/
theorem parse_canonical {bs : Bytes} {outs : List TxOut} (h : parseNoWitness bs = some outs) :
    ∃ tx : Tx, tx.WF ∧ tx.outs = outs ∧ bs = serialize tx := by
  simp only [parseNoWitness, bind, Option.bind] at h
  split at h
  · simp at h
  · rename_i hlen
    cases hv1 : readVarInt (bs.drop 4) with
    | none => rw [hv1] at h; simp at h
    | some p1 =>
      obtain ⟨nin, r1⟩ := p1
      rw [hv1] at h; simp only at h
      split at h
      · simp at h
      split at h
      · simp at h
      rename_i hnin hg1
      cases hri : readIns nin r1 with
      | none => rw [hri] at h; simp at h
      | some r2 =>
        rw [hri] at h; simp only at h
        cases hv2 : readVarInt r2 with
        | none => rw [hv2] at h; simp at h
        | some p2 =>
          obtain ⟨nout, r3⟩ := p2
          rw [hv2] at h; simp only at h
          split at h
          · simp at h
          split at h
          · simp at h
          rename_i hnout hg2
          cases hro : readOuts nout r3 [] with
          | none => rw [hro] at h; simp at h
          | some p3 =>
            obtain ⟨os, r4⟩ := p3
            rw [hro] at h; simp only at h
            split at h
            · simp at h
            rename_i hr4
            simp only [Option.some.injEq] at h
            subst h
            obtain ⟨_, e1⟩ := readVarInt_canonical hv1
            obtain ⟨ins, hil, hiw, e2⟩ := readIns_canonical hri
            obtain ⟨_, e3⟩ := readVarInt_canonical hv2
            obtain ⟨os', hol, hos, how, e4⟩ := readOuts_canonical hro
            simp only [List.reverse_nil, List.nil_append] at hos
            subst hos
            refine ⟨{ version := bs.take 4, ins := ins, outs := os, lock := r4 }, ?_, rfl, ?_⟩
            · refine ⟨?_, Decidable.not_not.mp hr4, by simp only; omega, by simp only; omega, hiw, how⟩
              simp; omega
            · have h0 := List.take_append_drop 4 bs
              rw [e1, e2, e3, e4] at h0
              refine h0.symm.trans ?_
              simp only [serialize, hil, hol]

theorem parse_outs_bounded {bs : Bytes} {outs : List TxOut} (h : parseNoWitness bs = some outs) :
    ∀ o ∈ outs, o.value < 2 ^ 64 ∧ o.pkScript.length ≤ maxScript := by
  obtain ⟨tx, hwf, rfl, _⟩ := parse_canonical h
  exact hwf.2.2.2.2.2

/-! ## Non-vacuity -/

example : readVarInt (encodeVarInt 70000 ++ [7]) = some (70000, [7]) := by decide
example : readVarInt [0xfd, 0x10, 0x00] = none := by decide  -- non-canonical 16 as 3 bytes

def demoTx : Tx :=
  { version := [2, 0, 0, 0]
    ins := [{ prev := List.replicate 36 0xab, script := [0x51], seq := [0xff, 0xff, 0xff, 0xff] }]
    outs := [{ value := 5000000000, pkScript := [0x6a] }, { value := 1, pkScript := [0x00, 0x14] }]
    lock := [0, 0, 0, 0] }

example : parseNoWitness (serialize demoTx) = some demoTx.outs := by decide
example : (serialize demoTx).length = 4 + 1 + (36 + 2 + 4) + 1 + (8 + 2) + (8 + 3) + 4 := by decide
example : demoTx.WF := by
  refine ⟨rfl, rfl, by decide, by decide, ?_, ?_⟩
  · intro i hi
    simp only [demoTx, List.mem_singleton] at hi
    subst hi
    exact ⟨by decide, by decide, by decide⟩
  · intro o ho
    simp only [demoTx, List.mem_cons, List.not_mem_nil, or_false] at ho
    rcases ho with rfl | rfl <;> exact ⟨by decide, by decide⟩

#print axioms readVarInt_encode
#print axioms readVarInt_canonical
#print axioms readVarInt_shorter
#print axioms readScript_encode
#print axioms readScript_canonical
#print axioms readOuts_encode
#print axioms readOuts_canonical
#print axioms readIns_encode
#print axioms readIns_canonical
#print axioms parse_serialize
#print axioms parse_canonical
#print axioms parse_outs_bounded

end Goat.C03T
