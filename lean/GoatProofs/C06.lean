/-
  C06 — consensus-to-execution hand-over is exactly-once, ordered and gap-free.
-/
import GoatModel.Bitcoin
import GoatModel.Locking
import GoatProofs.Lemmas.Bitcoin
namespace Goat.C06
open Goat.Bitcoin

def SysTx.nonce : SysTx → Nat
  | .newBlock n _ => n | .deposit n _ => n | .paid n _ _ => n | .cancel2 n _ => n
  | .reward n _ _ _ _ => n | .unlock n _ _ _ _ => n

/-- nonces `n, n+1, n+2, …` -/
def Consecutive : Nat → List SysTx → Prop
  | _, [] => True
  | n, t :: ts => SysTx.nonce t = n ∧ Consecutive (n + 1) ts

theorem consecutive_append (n : Nat) (a b : List SysTx) (ha : Consecutive n a) (hb : Consecutive (n + a.length) b) :
    Consecutive n (a ++ b) := by
  induction a generalizing n with
  | nil => simpa using hb
  | cons t ts ih =>
    obtain ⟨h1, h2⟩ := ha
    refine ⟨h1, ih (n + 1) h2 ?_⟩
    have : n + 1 + ts.length = n + (t :: ts).length := by simp; omega
    rw [this]; exact hb

theorem take_drop_len {α} (k : Nat) (l : List α) : l = l.take k ++ l.drop (l.take k).length := by
  rw [List.length_take]
  by_cases h : k ≤ l.length
  · rw [Nat.min_eq_left h]; exact (List.take_append_drop k l).symm
  · have h' : l.length ≤ k := by omega
    rw [Nat.min_eq_right h', List.take_of_length_le h', List.drop_length, List.append_nil]

theorem consecutive_number (n : Nat) (fs : List (Nat → SysTx)) (hf : ∀ f ∈ fs, ∀ i, SysTx.nonce (f i) = i) :
    Consecutive n (number n fs) ∧ (number n fs).length = fs.length := by
  induction fs generalizing n with
  | nil => exact ⟨trivial, rfl⟩
  | cons f fs ih =>
    have := ih (n + 1) (fun g hg => hf g (List.mem_cons_of_mem _ hg))
    exact ⟨⟨hf f (by simp) n, this.1⟩, by simp [number, this.2]⟩

/-- **Bridge dequeue: caps, order, nonces, nothing lost.**  One call hands over at most one new
    block hash (the next height above the cursor), then the first ≤ 8 queued deposits, then the first
    ≤ 8 paid notices, then refunds up to the remaining part of those 8 — each kind first-in-first-out,
    what is handed over plus what stays queued is exactly what was queued, and the system
    transactions carry the consecutive nonces `nonce, nonce+1, …`; the stored nonce advances by
    exactly their number; an empty hand-over changes nothing. -/
theorem btc_dequeue_spec (s s' : State) (txs : List SysTx) (h : dequeue s = .ok (s', txs)) :
    ∃ (nb : Nat),
      let deps := s.queue.deposits.take 8
      let paid := s.queue.paid.take 8
      let rej := s.queue.rejected.take (8 - paid.length)
      nb ≤ 1 ∧ deps.length ≤ 8 ∧ paid.length + rej.length ≤ 8 ∧
      txs.length = nb + deps.length + paid.length + rej.length ∧
      Consecutive s.nonce txs ∧
      (txs = [] → s' = s) ∧
      (txs ≠ [] →
        s.queue.deposits = deps ++ s'.queue.deposits ∧ s.queue.paid = paid ++ s'.queue.paid ∧
        s.queue.rejected = rej ++ s'.queue.rejected ∧ s'.queue.blockNumber = s.queue.blockNumber + nb ∧
        s'.nonce = (s.nonce + txs.length) % two64) := by
  unfold dequeue at h
  dsimp only at h
  have hnonce : ∀ (hb : List (Nat → SysTx)), (∀ f ∈ hb, ∀ i, SysTx.nonce (f i) = i) →
      ∀ f ∈ hb ++ (s.queue.deposits.take 8).map (fun d n => SysTx.deposit n d) ++ (s.queue.paid.take 8).map (fun p n => SysTx.paid n p.1 p.2) ++
        (s.queue.rejected.take (8 - (s.queue.paid.take 8).length)).map (fun id n => SysTx.cancel2 n id), ∀ i, SysTx.nonce (f i) = i := by
    intro hb hhb f hf i
    simp only [List.mem_append, List.mem_map] at hf
    rcases hf with ((hf | ⟨d, _, rfl⟩) | ⟨p, _, rfl⟩) | ⟨id, _, rfl⟩
    · exact hhb f hf i
    · rfl
    · rfl
    · rfl
  have finish : ∀ (hb : List (Nat → SysTx)), hb.length ≤ 1 → (∀ f ∈ hb, ∀ i, SysTx.nonce (f i) = i) →
      (let deps := s.queue.deposits.take 8
       let paid := s.queue.paid.take 8
       let rej := s.queue.rejected.take (8 - paid.length)
       let items : List (Nat → SysTx) :=
         hb ++ deps.map (fun d n => SysTx.deposit n d) ++ paid.map (fun p n => SysTx.paid n p.1 p.2) ++ rej.map (fun id n => SysTx.cancel2 n id)
       (if items.isEmpty then Outcome.ok (s, [])
        else .ok ({ s with queue := { blockNumber := s.queue.blockNumber + hb.length, deposits := s.queue.deposits.drop deps.length,
                                      paid := s.queue.paid.drop paid.length, rejected := s.queue.rejected.drop rej.length },
                           nonce := (s.nonce + items.length) % two64 }, number s.nonce items)) = Outcome.ok (s', txs)) →
      ∃ (nb : Nat),
        let deps := s.queue.deposits.take 8
        let paid := s.queue.paid.take 8
        let rej := s.queue.rejected.take (8 - paid.length)
        nb ≤ 1 ∧ deps.length ≤ 8 ∧ paid.length + rej.length ≤ 8 ∧
        txs.length = nb + deps.length + paid.length + rej.length ∧
        Consecutive s.nonce txs ∧
        (txs = [] → s' = s) ∧
        (txs ≠ [] →
          s.queue.deposits = deps ++ s'.queue.deposits ∧ s.queue.paid = paid ++ s'.queue.paid ∧
          s.queue.rejected = rej ++ s'.queue.rejected ∧ s'.queue.blockNumber = s.queue.blockNumber + nb ∧
          s'.nonce = (s.nonce + txs.length) % two64) := by
    intro hb hlen hhb hres
    dsimp only at hres ⊢
    have hl1 : (s.queue.deposits.take 8).length ≤ 8 := by simp [List.length_take]; omega
    have hl2 : (s.queue.paid.take 8).length + (s.queue.rejected.take (8 - (s.queue.paid.take 8).length)).length ≤ 8 := by
      simp [List.length_take]; omega
    split at hres
    · rename_i hemp
      simp only [Outcome.ok.injEq, Prod.mk.injEq] at hres
      obtain ⟨rfl, rfl⟩ := hres
      simp only [List.isEmpty_iff, List.append_eq_nil_iff, List.map_eq_nil_iff] at hemp
      obtain ⟨⟨⟨e1, e2⟩, e3⟩, e4⟩ := hemp
      refine ⟨0, by omega, hl1, hl2, by rw [e4, e3, e2]; rfl, trivial, fun _ => rfl, fun hc => absurd rfl hc⟩
    · rename_i hne
      simp only [Outcome.ok.injEq, Prod.mk.injEq] at hres
      obtain ⟨rfl, rfl⟩ := hres
      obtain ⟨c1, c2⟩ := consecutive_number s.nonce _ (hnonce hb hhb)
      refine ⟨hb.length, hlen, hl1, hl2, ?_, c1, ?_, ?_⟩
      · rw [c2]; simp; omega
      · intro hc
        exfalso
        have : (number s.nonce (hb ++ (s.queue.deposits.take 8).map (fun d n => SysTx.deposit n d) ++ (s.queue.paid.take 8).map (fun p n => SysTx.paid n p.1 p.2) ++
          (s.queue.rejected.take (8 - (s.queue.paid.take 8).length)).map (fun id n => SysTx.cancel2 n id))).length = 0 := by rw [hc]; rfl
        rw [c2] at this
        apply hne
        rw [List.isEmpty_iff]
        exact List.eq_nil_of_length_eq_zero this
      · intro _
        refine ⟨take_drop_len _ _, take_drop_len _ _, take_drop_len _ _, rfl, ?_⟩
        simp only
        rw [c2]
  by_cases hlt : s.queue.blockNumber < s.tip
  · simp only [hlt, if_true] at h
    cases hh : nlookup s.hashes (s.queue.blockNumber + 1) with
    | none => simp [hh] at h
    | some bh =>
      simp only [hh] at h
      exact finish [fun n => SysTx.newBlock n bh] (by simp) (by intro f hf i; simp at hf; subst hf; rfl) h
  · simp only [hlt, if_false] at h
    exact finish [] (by simp) (by intro f hf; simp at hf) h

/-- **Voted block hashes are gap-free and append-only**: a successful batch starts right above the
    tip, stores its hashes at consecutive heights, moves the tip by their number, and never rewrites
    a height at or below the old tip. -/
theorem blockhashes_gapfree (rc : Relayer.Crypto) (chainId : String) (rel : Relayer.State) (s : State)
    (vote : Relayer.VoteMsg) (hv : Bool) (start : Nat) (hashes : List Bytes) (r : Relayer.State × State)
    (h : newBlockHashes rc chainId rel s vote hv start hashes = .ok r) :
    start = (s.tip + 1) % two64 ∧ r.2.tip = s.tip + hashes.length ∧
    (∀ k, (hk : k < hashes.length) → nlookup r.2.hashes (s.tip + 1 + k) = some hashes[k]) ∧
    (∀ j, j ≤ s.tip → nlookup r.2.hashes j = nlookup s.hashes j) ∧ r.2.queue = s.queue := by
  unfold newBlockHashes at h
  repeat (split at h; · cases h)
  rename_i hstart
  dsimp only at h
  split at h
  · cases h
  · cases h
  · cases h
    have key : ∀ (hs : List Bytes) (m : List (Nat × Bytes)) (t : Nat),
        let res := hs.foldl (fun (acc : List (Nat × Bytes) × Nat) h => (ninsert acc.1 (acc.2 + 1) h, acc.2 + 1)) (m, t)
        res.2 = t + hs.length ∧ (∀ k, (hk : k < hs.length) → nlookup res.1 (t + 1 + k) = some hs[k]) ∧
        (∀ j, j ≤ t → nlookup res.1 j = nlookup m j) := by
      intro hs
      induction hs with
      | nil => intro m t; simp
      | cons x xs ih =>
        intro m t
        simp only [List.foldl_cons]
        obtain ⟨i1, i2, i3⟩ := ih (ninsert m (t + 1) x) (t + 1)
        refine ⟨by rw [i1]; simp; omega, ?_, ?_⟩
        · intro k hk
          cases k with
          | zero =>
            have := i3 (t + 1) (Nat.le_refl _)
            simp only [Nat.add_zero, List.getElem_cons_zero]
            rw [this, nlookup_ninsert_same]
          | succ k' =>
            have := i2 k' (by simp at hk; omega)
            simp only [List.getElem_cons_succ]
            have e : t + 1 + (k' + 1) = t + 1 + 1 + k' := by omega
            rw [e]; exact this
        · intro j hj
          rw [i3 j (by omega)]
          exact nlookup_ninsert_other _ _ _ _ (by omega)
    obtain ⟨k1, k2, k3⟩ := key hashes s.hashes s.tip
    exact ⟨by omega, k1, k2, k3, rfl⟩

/-- **Locking dequeue: caps, order, nonces.**  At most 16 rewards then at most 16 unlocks, each kind
    first-in-first-out; nothing is dropped; the nonce advances by exactly the number handed over. -/
theorem locking_dequeue_spec (s : Locking.State) :
    let r := Locking.dequeue s
    r.2.1.length ≤ 16 ∧ r.2.2.1.length ≤ 16 ∧
    s.qRewards = r.2.1 ++ r.1.qRewards ∧ s.qUnlocks = r.2.2.1 ++ r.1.qUnlocks ∧
    r.2.2.2 = s.nonce ∧ r.1.nonce = (s.nonce + r.2.1.length + r.2.2.1.length) % two64 ∨
    (s.qRewards = [] ∧ s.qUnlocks = [] ∧ (Locking.dequeue s).1 = s) := by
  simp only
  unfold Locking.dequeue
  by_cases h : s.qRewards.isEmpty = true ∧ s.qUnlocks.isEmpty = true
  · right
    simp only [List.isEmpty_iff] at h
    simp [h.1, h.2]
  · left
    simp only [h, if_false]
    refine ⟨by simp [List.length_take]; omega, by simp [List.length_take]; omega, by simp, by simp, trivial, ?_⟩
    simp [List.length_take]

end Goat.C06
