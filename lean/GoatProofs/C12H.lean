/-
  C12H — history-level reward accounting.

  "All reward value is accounted for at every block: granted funds plus reported gas fees equal the
   undistributed pools plus validators' unclaimed rewards plus claimed payouts.  Each execution block
   moves min(remaining grant, initial reward halved once per elapsed halving interval) into
   distribution; the next block shares the pools among the previous block's validators in proportion
   to voting power, carrying over only rounding dust.  A claim pays out exactly the accrued amounts
   once and resets them, and no pool or accrued reward is ever negative."

  Formulation.  The model (like the Go code) keeps goat-denominated and gas-denominated value apart,
  so the accounting is two equations (`conservation`), the property's single equation is their sum
  (`conservation_combined`):

      granted  = pool.remain + pool.goat + Σ v.reward    + queued goat + paid goat
      gas fees = pool.gas                + Σ v.gasReward + queued gas  + paid gas

  `granted` (sum of accepted grant requests), `gas fees` (sum of accepted positive gas revenue) and
  `paid` (rewards handed to the execution layer by `dequeue`) are a ghost `Ledger`; "claimed payouts"
  are the `Reward` records queued by `claim` plus the ones already handed over.  Histories are lists of
  the module's entry points (`Op`, the same type as in C11H: `processRequests`, `beginBlock`,
  `endBlocker`, `dequeue`); an operation that fails (error, or panic such as the 256-bit overflow of a
  pool) leaves state and ledger unchanged.  `run_state`: the runs are the runs of C11H.

  Well-formedness.  The only hypothesis of conservation is `VKeys`: validator addresses are distinct
  (the model's validator map is an association list and `vset` rewrites every entry of a key; with a
  duplicated key one claim resets two entries and pays one — `Example`).  `VKeys` is preserved by every
  operation, so it is a hypothesis on the start state only; it follows from C11H's `WF` (`vkeys_of_wf`).

  Non-negativity needs what is true of the inputs of the Go code and is *not* checked by it:
  grants ≥ 0 (`uint256` on the execution layer; `pool.Remain.Add` accepts any sign), voting powers ≥ 0
  (CometBFT), `InitialBlockReward ≥ 0` (`Params.Validate` demands ≥ 1; parameters never change).
  Negative gas revenue is ignored by the code itself.  A zero total power is an error of
  `distributeReward`, so "positive total" needs no hypothesis.  `Example` shows each hypothesis is needed.

  Rounding dust.  "dust < number of validators" is false for pools above 10¹⁸ base units
  (`dust_not_below_count`: 10¹⁹ among 6 equal powers leaves 40): the share fraction is truncated to 18
  decimals before it is multiplied with the pool.  Proved instead: every share is at most the exact
  proportional amount and misses it by less than `1 + P/10¹⁸` (`share_le_proportional`,
  `share_ge_proportional`); the dust of a pool `P` shared among `n` vote infos is `≥ 0` and
  `< n·(1 + P/10¹⁸)` (`dust_bound`, `distributeReward_dust`).

  Main results.  Frames (pools, queue of claimed rewards, every validator's `reward`/`gasReward`
  unchanged; slashing touches holdings only): `updateTokens_frame`, `create_frame`, `lock_frame`,
  `unlock_frame`, `handleVote_rview`, `handleVotes_rview`, `handleEvidence_rview`, `slashAll_rview`,
  `dequeueMature_rview`, `endBlocker_frame`.  Steps: `updateRewardPool_exact`, `updateRewardPool_spec`,
  `emitted_eq_min`, `distributeReward_spec`, `distributeReward_no_votes`, `distributeReward_validator`,
  `distributeReward_single`, `shares_bound`, `dist_bounds`, `claimOne_exact`, `claimOne_spec`,
  `claim_spec`, `claim_exact`, `claim_resets`, `claim_second_pays_zero`, `dequeue_spec`,
  `processRequests_spec`, `beginBlock_spec`.  Histories: `apply_spec`, `apply_failed`, `history`,
  `conservation`, `conservation_combined`, `nonnegativity`, `conservation_from_initial`,
  `conservation_from_genesis`.
-/
import GoatModel.Locking
import GoatProofs.Lemmas.Locking
import GoatProofs.Lemmas.Arith
import GoatProofs.Lemmas.LockingConserve
import GoatProofs.Lemmas.RewardConserve
import GoatProofs.C12
import GoatProofs.C11H
namespace Goat.C12H
open Goat Goat.Locking

/-! ## measures -/

/-- validator addresses are distinct (true of the `Validators` store of the Go code) -/
def VKeys (s : State) : Prop := AKeys (rview s).rewards

/-- validators' unclaimed goat rewards -/
def accruedGoat (s : State) : Int := asum (·.1) (rview s).rewards
/-- validators' unclaimed gas-fee rewards -/
def accruedGas (s : State) : Int := asum (·.2) (rview s).rewards

def rewardsGoat (rs : List Reward) : Int := isum (rs.map (·.goat))
def rewardsGas (rs : List Reward) : Int := isum (rs.map (·.gas))

/-- claimed, not yet handed over to the execution layer -/
def queuedGoat (s : State) : Int := rewardsGoat s.qRewards
def queuedGas (s : State) : Int := rewardsGas s.qRewards

/-- the undistributed pools -/
def pools (s : State) : Int := s.pool.goat + s.pool.gas + s.pool.remain

theorem accruedGoat_eq (s : State) : accruedGoat s = isum (s.validators.map (fun e => e.2.reward)) := by
  unfold accruedGoat asum rview; simp only [List.map_map]; rfl

theorem accruedGas_eq (s : State) : accruedGas s = isum (s.validators.map (fun e => e.2.gasReward)) := by
  unfold accruedGas asum rview; simp only [List.map_map]; rfl

theorem vkeys_iff (s : State) : VKeys s ↔ (s.validators.map (·.1)).Nodup := by
  unfold VKeys AKeys rview; simp only [List.map_map]; rfl

/-- the well-formedness used for C11H implies distinct validator addresses -/
theorem vkeys_of_wf (s : State) (h : C11H.WF s) : VKeys s := by
  rw [vkeys_iff]
  have := h.keys
  unfold KeysNodup view at this
  simpa [List.map_map, Function.comp_def] using this

theorem vkeys_of_rview {s s' : State} (h : rview s' = rview s) (hk : VKeys s) : VKeys s' := by
  unfold VKeys; rw [h]; exact hk

/-- accrued rewards are non-negative -/
def ValNonNeg (s : State) : Prop := ∀ e ∈ (rview s).rewards, 0 ≤ e.2.1 ∧ 0 ≤ e.2.2

/-- no pool, accrued reward or queued payout is negative -/
structure RNonNeg (s : State) : Prop where
  goat : 0 ≤ s.pool.goat
  gas : 0 ≤ s.pool.gas
  remain : 0 ≤ s.pool.remain
  vals : ValNonNeg s
  queued : ∀ r ∈ s.qRewards, 0 ≤ r.goat ∧ 0 ≤ r.gas

theorem ValNonNeg.vget {s : State} (h : ValNonNeg s) (a : Bytes) (v : Validator) (hv : vget s a = some v) :
    0 ≤ v.reward ∧ 0 ≤ v.gasReward := by
  have hg : aget (rview s).rewards a = some (v.reward, v.gasReward) := by rw [rget_rview, hv]; rfl
  exact h _ (aget_mem _ _ _ hg)

theorem ValNonNeg.accruedGoat {s : State} (h : ValNonNeg s) : 0 ≤ accruedGoat s :=
  asum_nonneg _ _ (fun e he => (h e he).1)

theorem ValNonNeg.accruedGas {s : State} (h : ValNonNeg s) : 0 ≤ accruedGas s :=
  asum_nonneg _ _ (fun e he => (h e he).2)

theorem rewardsGoat_nonneg (rs : List Reward) (h : ∀ r ∈ rs, 0 ≤ r.goat ∧ 0 ≤ r.gas) : 0 ≤ rewardsGoat rs := by
  unfold rewardsGoat
  apply isum_nonneg
  intro x hx
  obtain ⟨r, hr, rfl⟩ := List.mem_map.mp hx
  exact (h r hr).1

theorem rewardsGas_nonneg (rs : List Reward) (h : ∀ r ∈ rs, 0 ≤ r.goat ∧ 0 ≤ r.gas) : 0 ≤ rewardsGas rs := by
  unfold rewardsGas
  apply isum_nonneg
  intro x hx
  obtain ⟨r, hr, rfl⟩ := List.mem_map.mp hx
  exact (h r hr).2

/-! ## frame relation: pools, queue of claimed rewards and every accrued reward unchanged
    (new validators start with zero rewards) -/

structure Keep (s s' : State) : Prop where
  keys : VKeys s'
  params : s'.params = s.params
  pool : s'.pool = s.pool
  qRewards : s'.qRewards = s.qRewards
  rewards : ∃ extra, (rview s').rewards = (rview s).rewards ++ extra ∧ ∀ e ∈ extra, e.2 = ((0 : Int), (0 : Int))

theorem Keep.refl {s : State} (h : VKeys s) : Keep s s := ⟨h, rfl, rfl, rfl, [], by simp, fun e he => by cases he⟩

theorem Keep.trans {a b c : State} (h1 : Keep a b) (h2 : Keep b c) : Keep a c := by
  obtain ⟨x1, e1, z1⟩ := h1.rewards
  obtain ⟨x2, e2, z2⟩ := h2.rewards
  refine ⟨h2.keys, h2.params.trans h1.params, h2.pool.trans h1.pool, h2.qRewards.trans h1.qRewards, x1 ++ x2, ?_, ?_⟩
  · rw [e2, e1, List.append_assoc]
  · intro e he
    rcases List.mem_append.mp he with h | h
    · exact z1 e h
    · exact z2 e h

theorem Keep.of_rview {s s' : State} (hk : VKeys s) (h : rview s' = rview s) : Keep s s' :=
  ⟨vkeys_of_rview h hk, congrArg RView.params h, congrArg RView.pool h, congrArg RView.qRewards h, [],
   by rw [h]; simp, fun e he => by cases he⟩

theorem asum_zero_extra (f : Int × Int → Int) (hf : f (0, 0) = 0) (extra : List (Bytes × Int × Int))
    (h : ∀ e ∈ extra, e.2 = ((0 : Int), (0 : Int))) : asum f extra = 0 := by
  induction extra with
  | nil => rfl
  | cons e es ih =>
    rw [asum_cons, h e List.mem_cons_self, hf, ih (fun x hx => h x (List.mem_cons_of_mem _ hx))]; rfl

theorem Keep.goat {s s' : State} (h : Keep s s') : accruedGoat s' = accruedGoat s := by
  obtain ⟨x, e, z⟩ := h.rewards
  unfold accruedGoat
  rw [e, asum_append, asum_zero_extra _ rfl x z]; omega

theorem Keep.gas {s s' : State} (h : Keep s s') : accruedGas s' = accruedGas s := by
  obtain ⟨x, e, z⟩ := h.rewards
  unfold accruedGas
  rw [e, asum_append, asum_zero_extra _ rfl x z]; omega

theorem Keep.queuedGoat {s s' : State} (h : Keep s s') : queuedGoat s' = queuedGoat s := by
  unfold C12H.queuedGoat; rw [h.qRewards]

theorem Keep.queuedGas {s s' : State} (h : Keep s s') : queuedGas s' = queuedGas s := by
  unfold C12H.queuedGas; rw [h.qRewards]

theorem Keep.valNonNeg {s s' : State} (h : Keep s s') (hn : ValNonNeg s) : ValNonNeg s' := by
  obtain ⟨x, e, z⟩ := h.rewards
  intro y hy
  rw [e] at hy
  rcases List.mem_append.mp hy with h1 | h1
  · exact hn y h1
  · rw [z y h1]; exact ⟨Int.le_refl _, Int.le_refl _⟩

theorem Keep.nonneg {s s' : State} (h : Keep s s') (hn : RNonNeg s) : RNonNeg s' := by
  refine ⟨?_, ?_, ?_, h.valNonNeg hn.vals, ?_⟩
  · rw [h.pool]; exact hn.goat
  · rw [h.pool]; exact hn.gas
  · rw [h.pool]; exact hn.remain
  · rw [h.qRewards]; exact hn.queued

/-- an existing validator keeps its accrued rewards -/
theorem Keep.vget {s s' : State} (h : Keep s s') (a : Bytes) (v : Validator) (hv : vget s a = some v) :
    ∃ v', Locking.vget s' a = some v' ∧ v'.reward = v.reward ∧ v'.gasReward = v.gasReward := by
  obtain ⟨x, e, _⟩ := h.rewards
  have hg : aget (rview s).rewards a = some (v.reward, v.gasReward) := by rw [rget_rview, hv]; rfl
  have hg' : aget (rview s').rewards a = some (v.reward, v.gasReward) := by
    rw [e]
    unfold aget at hg ⊢
    rw [List.find?_append]
    cases hf : List.find? (fun x => x.1 == a) (rview s).rewards with
    | none => rw [hf] at hg; cases hg
    | some y => rw [hf] at hg; exact hg
  rw [rget_rview] at hg'
  cases hv' : Locking.vget s' a with
  | none => rw [hv'] at hg'; cases hg'
  | some v' =>
    rw [hv'] at hg'
    simp only [Option.map_some, Option.some.injEq, Prod.mk.injEq] at hg'
    exact ⟨v', rfl, hg'.1, hg'.2⟩

theorem rview_set_same (s : State) (a : Bytes) (v : Validator) (x y : Int) (hk : VKeys s) (hv : vget s a = some v)
    (hx : x = v.reward) (hy : y = v.gasReward) :
    ({ rview s with rewards := aset (rview s).rewards a (x, y) } : RView) = rview s := by
  subst hx; subst hy
  rw [aset_same _ _ _ hk (by rw [rget_rview, hv]; rfl)]

/-! ## operations that change none of the measures -/

theorem onWeightChanged_rview (s s' : State) (token : String) (prev cur : Nat) (hk0 : VKeys s)
    (h : onWeightChanged s token prev cur = .ok s') : rview s' = rview s := by
  unfold onWeightChanged at h
  split at h
  · cases h; rfl
  · dsimp only at h
    refine foldlM_inv (fun b => rview b = rview s) _ ?_ _ _ _ rfl h
    intro b e b' hb hstep
    have hk : VKeys b := vkeys_of_rview hb hk0
    cases hv : vget b e.1.2 with
    | none => rw [hv] at hstep; cases hstep
    | some v =>
      rw [hv] at hstep
      dsimp only at hstep
      have hv' : ∀ p, vget (rankRemove b p e.1.2) e.1.2 = some v := fun p => hv
      split at hstep
      · split at hstep
        · cases hstep
        · cases hstep
        · cases hstep
        · rename_i dlt _
          cases hstep
          refine Eq.trans ?_ hb
          rw [rview_rank_ite]
          exact rview_vset_same (rankRemove b v.power e.1.2) e.1.2 v _ hk (hv' _) rfl rfl
      · split at hstep
        · cases hstep
        · cases hstep
        · cases hstep
        · rename_i dlt _
          cases hstep
          refine Eq.trans ?_ hb
          rw [rview_rank_ite]
          exact rview_vset_same (rankRemove b v.power e.1.2) e.1.2 v _ hk (hv' _) rfl rfl

theorem updateTokens_rview (s s' : State) (weights : List (String × Nat)) (thresholds : List (String × Int)) (hk0 : VKeys s)
    (h : updateTokens s weights thresholds = .ok s') : rview s' = rview s := by
  unfold updateTokens at h
  obtain ⟨s1, h1, h2⟩ := (bind_eq_ok _ _ _).mp h
  have hs1 : rview s1 = rview s := by
    refine foldlM_inv (fun b => rview b = rview s) _ ?_ _ _ _ rfl h1
    intro b u b' hb hstep
    dsimp only at hstep
    split at hstep
    · rename_i b2 heq
      cases hstep
      rw [rview_tset]
      exact (onWeightChanged_rview b b2 _ _ _ (vkeys_of_rview hb hk0) heq).trans hb
    · cases hstep
    · cases hstep
  split at h2
  · cases h2; exact hs1
  · refine foldlM_inv (fun b => rview b = rview s) _ ?_ _ _ _ hs1 h2
    intro b u b' hb hstep
    dsimp only at hstep
    split at hstep
    · cases hstep
    · split at hstep
      · cases hstep; exact hb
      · split at hstep
        · cases hstep
        · cases hstep; rw [rview_tset]; exact hb

/-- token weight / threshold updates change validators' powers only -/
theorem updateTokens_frame (s s' : State) (weights : List (String × Nat)) (thresholds : List (String × Int)) (hk : VKeys s)
    (h : updateTokens s weights thresholds = .ok s') : Keep s s' :=
  Keep.of_rview hk (updateTokens_rview s s' weights thresholds hk h)

/-- a new validator starts with zero rewards -/
theorem vset_new_keep (s : State) (a : Bytes) (v : Validator) (hk : VKeys s) (hv : vget s a = none)
    (h1 : v.reward = 0) (h2 : v.gasReward = 0) : Keep s (vset s a v) := by
  have hg : aget (rview s).rewards a = none := by rw [rget_rview, hv]; rfl
  have hr : (rview (vset s a v)).rewards = (rview s).rewards ++ [(a, (0, 0))] := by
    rw [rview_vset, h1, h2]
    exact aset_none _ _ _ hg
  refine ⟨?_, vset_params _ _ _, vset_pool _ _ _, vset_qRewards _ _ _, [(a, (0, 0))], hr, ?_⟩
  · unfold VKeys
    rw [rview_vset]
    exact akeys_aset _ _ _ hk
  · intro e he
    simp only [List.mem_singleton] at he
    rw [he]

/-- creating validators: the new records carry no rewards -/
theorem create_frame (hash160 : Bytes → Bytes) (hasAccount : Bytes → Bool) (s s' : State) (reqs : List CreateReq)
    (accs : List Bytes) (hk : VKeys s) (h : create hash160 hasAccount s reqs = .ok (s', accs)) : Keep s s' := by
  unfold create at h
  refine foldlM_inv (fun (acc : State × List Bytes) => Keep s acc.1) _ ?_ _ _ _ (Keep.refl hk) h
  intro acc r acc' hacc hstep
  obtain ⟨b, newAccs⟩ := acc
  dsimp only at hstep hacc
  split at hstep
  · cases hstep
  · split at hstep
    · cases hstep; exact hacc
    · rename_i hnone
      cases hstep
      have hv : vget b (hash160 r.compressed) = none := by
        cases hx : vget b (hash160 r.compressed) with
        | none => rfl
        | some v => rw [hx] at hnone; simp at hnone
      exact hacc.trans (vset_new_keep b _ _ hacc.keys hv rfl rfl)

/-! ## lock / unlock: holdings, power, status change — rewards do not -/

theorem lockOne_rview (s s' : State) (now : Int) (a : Bytes) (coins : Coins) (hk : VKeys s)
    (h : lockOne s now a coins = .ok s') : rview s' = rview s := by
  unfold lockOne at h
  cases hv : vget s a with
  | none => rw [hv] at h; cases h
  | some v =>
    rw [hv] at h
    dsimp only at h
    split at h
    · cases h
    · split at h
      · -- pending
        split at h
        · cases h
        · cases h
        · rename_i s2 pw heq
          cases h
          have hs2 : rview s2 = rview s := by
            refine foldlM_inv (fun (acc : State × Nat) => rview acc.1 = rview s) _ ?_ _ _ _ (rview_rankRemove _ _ _) heq
            intro acc c acc' hacc hstep
            obtain ⟨b, pw0⟩ := acc
            dsimp only at hstep hacc
            split at hstep
            · cases hstep
            · split at hstep
              · cases hstep; exact hacc
              · cases hstep
              · cases hstep
          rw [rview_vset, rview_rank_ite, hs2]
          exact rview_set_same s a v _ _ hk hv rfl rfl
      · -- active
        split at h
        · cases h
        · cases h
        · rename_i s2 pw heq
          cases h
          have hs2 : rview s2 = rview s := by
            refine foldlM_inv (fun (acc : State × Nat) => rview acc.1 = rview s) _ ?_ _ _ _ (rview_rankRemove _ _ _) heq
            intro acc c acc' hacc hstep
            obtain ⟨b, pw0⟩ := acc
            dsimp only at hstep hacc
            split at hstep
            · cases hstep
            · split at hstep
              · cases hstep; exact hacc
              · cases hstep
              · cases hstep
          rw [rview_vset, rview_rank_ite, hs2]
          exact rview_set_same s a v _ _ hk hv rfl rfl
      · -- downgrade
        split at h
        · split at h
          · cases h
          · cases h
          · rename_i s2 pw heq
            cases h
            have hs2 : rview s2 = rview s := by
              refine foldlM_inv (fun (acc : State × Nat) => rview acc.1 = rview s) _ ?_ _ _ _ rfl heq
              intro acc c acc' hacc hstep
              obtain ⟨b, pw0⟩ := acc
              dsimp only at hstep hacc
              split at hstep
              · cases hstep
              · split at hstep
                · split at hstep
                  · cases hstep
                  · cases hstep
                  · cases hstep
                  · cases hstep; exact hacc
                · cases hstep; exact hacc
            rw [rview_vset, rview_rank_ite, hs2]
            exact rview_set_same s a v _ _ hk hv rfl rfl
        · cases h; rw [rview_vset]; exact rview_set_same s a v _ _ hk hv rfl rfl
      · cases h; rw [rview_vset]; exact rview_set_same s a v _ _ hk hv rfl rfl
      · cases h; rw [rview_vset]; exact rview_set_same s a v _ _ hk hv rfl rfl

theorem lock_rview (s s' : State) (now : Int) (reqs : List LockReq) (hk : VKeys s) (h : lock s now reqs = .ok s') :
    rview s' = rview s := by
  unfold lock at h
  split at h
  · cases h; rfl
  · split at h
    · cases h
    · split at h
      · cases h
      · cases h
      · refine foldlM_inv (fun b => rview b = rview s) _ ?_ _ _ _ rfl h
        intro b e b' hb hstep
        exact (lockOne_rview b b' now e.1 e.2 (vkeys_of_rview hb hk) hstep).trans hb

theorem lock_frame (s s' : State) (now : Int) (reqs : List LockReq) (hk : VKeys s) (h : lock s now reqs = .ok s') :
    Keep s s' := Keep.of_rview hk (lock_rview s s' now reqs hk h)

theorem rview_foldl_idxRemove (a : Bytes) (cs : Coins) (st : State) :
    rview (cs.foldl (fun s c => idxRemove s c.1 a) st) = rview st := by
  induction cs generalizing st with
  | nil => rfl
  | cons c cs ih => rw [List.foldl_cons, ih]; rfl

theorem unlockCore_rview (s s3 : State) (r : UnlockReq) (ex : Bool) (amt : Int) (hk : VKeys s)
    (h : unlockCore s r = .ok (s3, ex, amt)) : rview s3 = rview s := by
  unfold unlockCore at h
  cases hv : vget s r.validator with
  | none => rw [hv] at h; cases h
  | some v =>
    rw [hv] at h
    dsimp only at h
    split at h
    · cases h
    · split at h
      · cases h
      · split at h
        · cases h
        · cases h
        · simp only [Outcome.ok.injEq, Prod.mk.injEq] at h
          obtain ⟨h1, _, _⟩ := h
          rw [← h1, rview_vset]
          split
          · dsimp only
            rw [rview_foldl_idxRemove, rview_rankRemove]
            exact rview_set_same s r.validator v _ _ hk hv rfl rfl
          · split
            · dsimp only
              rw [rview_rank_ite]
              split
              · rw [rview_idxRemove, rview_rankRemove]
                exact rview_set_same s r.validator v _ _ hk hv rfl rfl
              · rw [rview_idxSet, rview_rankRemove]
                exact rview_set_same s r.validator v _ _ hk hv rfl rfl
            · dsimp only
              rw [rview_rankRemove]
              exact rview_set_same s r.validator v _ _ hk hv rfl rfl

theorem unlockOne_rview (s s' : State) (now : Int) (r : UnlockReq) (hk : VKeys s) (h : unlockOne s now r = .ok s') :
    rview s' = rview s := by
  unfold unlockOne at h
  split at h
  · cases h
  · cases h
  · rename_i s3 ex amt hcore
    cases h
    rw [rview_enqueueUnlock]
    exact unlockCore_rview s s3 r ex amt hk hcore

theorem unlock_rview (s s' : State) (now : Int) (reqs : List UnlockReq) (hk : VKeys s) (h : unlock s now reqs = .ok s') :
    rview s' = rview s := by
  unfold unlock at h
  refine foldlM_inv (fun b => rview b = rview s) _ ?_ _ _ _ rfl h
  intro b r b' hb hstep
  exact (unlockOne_rview b b' now r (vkeys_of_rview hb hk) hstep).trans hb

theorem unlock_frame (s s' : State) (now : Int) (reqs : List UnlockReq) (hk : VKeys s) (h : unlock s now reqs = .ok s') :
    Keep s s' := Keep.of_rview hk (unlock_rview s s' now reqs hk h)

/-! ## slashing touches holdings only: `reward` / `gasReward` are kept -/

theorem slashStep_rview (addr : Bytes) (frac : Nat) (acc : State × Coins) (c : String × Int) :
    rview (slashStep addr frac acc c).1 = rview acc.1 := by
  unfold slashStep
  by_cases hz : ((slashAmount c.2.toNat frac : Nat) : Int) = 0
  · simp only [hz, if_true, rview_slashedAdd, rview_idxRemove]
  · simp only [hz, if_false, rview_slashedAdd, rview_idxRemove]

theorem slashAll_rview (s : State) (addr : Bytes) (v : Validator) (frac : Nat) :
    rview (slashAll s addr v frac).1 = rview s := by
  unfold slashAll
  generalize v.locking = cs
  have key : ∀ (cs : Coins) (acc : State × Coins), rview (cs.foldl (slashStep addr frac) acc).1 = rview acc.1 := by
    intro cs
    induction cs with
    | nil => intro acc; rfl
    | cons c cs ih => intro acc; rw [List.foldl_cons, ih, slashStep_rview]
  exact key cs (s, [])

theorem handleVote_rview (s s' : State) (now : Int) (vi : VoteInfo) (hk : VKeys s) (h : handleVote s now vi = .ok s') :
    rview s' = rview s := by
  unfold handleVote at h
  cases hv : vget s vi.address with
  | none => rw [hv] at h; cases h
  | some v =>
    rw [hv] at h
    dsimp only at h
    split at h
    · cases h; rfl
    · generalize (if vi.absent = true then v.missed + 1 else v.missed) = ms at h
      generalize (if ((v.offset + 1 : Nat) : Int) ≥ s.params.signedBlocksWindow then ((0 : Nat), (0 : Nat))
          else (ms, v.offset + 1)) = mo at h
      split at h
      · cases h
        rw [rview_vset, slashAll_rview, rview_rankRemove]
        exact rview_set_same s vi.address v _ _ hk hv rfl rfl
      · cases h
        exact rview_vset_same s vi.address v _ hk hv rfl rfl

theorem handleVotes_rview (s s' : State) (now : Int) (votes : List VoteInfo) (hk : VKeys s)
    (h : handleVotes s now votes = .ok s') : rview s' = rview s := by
  unfold handleVotes at h
  refine foldlM_inv (fun b => rview b = rview s) _ ?_ _ _ _ rfl h
  intro b v b' hb hstep
  exact (handleVote_rview b b' now v (vkeys_of_rview hb hk) hstep).trans hb

theorem handleEvidence_rview (s s' : State) (now height : Int) (maxAge : Option (Int × Int)) (e : Evidence) (hk : VKeys s)
    (h : handleEvidence s now height maxAge e = .ok s') : rview s' = rview s := by
  unfold handleEvidence at h
  split at h
  · cases h; rfl
  · split at h
    · cases h; rfl
    · cases hv : vget s e.address with
      | none => rw [hv] at h; cases h
      | some v =>
        rw [hv] at h
        dsimp only at h
        split at h
        · cases h; rfl
        · cases h
          rw [rview_vset, slashAll_rview, rview_rankRemove]
          exact rview_set_same s e.address v _ _ hk hv rfl rfl

theorem dequeueMature_rview (s : State) (now : Int) : rview (dequeueMature s now) = rview s := by
  unfold dequeueMature; split <;> rfl

theorem endBlocker_rview (s s' : State) (ups : List Update) (hk0 : VKeys s) (h : endBlocker s = .ok (s', ups)) :
    rview s' = rview s := by
  unfold endBlocker at h
  dsimp only at h
  split at h
  · cases h
  · cases h
  · rename_i s1 leftovers ups1 heq
    have h1 : rview s1 = rview s := by
      refine foldlM_inv (fun (acc : State × List (Bytes × Nat) × List Update) => rview acc.1 = rview s) _ ?_ _ _ _ rfl heq
      intro acc e acc' hacc hstep
      obtain ⟨b, last, ups0⟩ := acc
      dsimp only at hstep hacc
      have hk : VKeys b := vkeys_of_rview hacc hk0
      cases hv : vget b e.2 with
      | none => rw [hv] at hstep; cases hstep
      | some v =>
        rw [hv] at hstep
        dsimp only at hstep
        split at hstep
        · split at hstep
          · cases hstep; exact hacc
          · cases hstep; exact hacc
        · split at hstep
          · cases hstep
          · cases hstep
            refine Eq.trans ?_ hacc
            refine Eq.trans ?_ (rview_vset_same b e.2 v { v with status := .active, offset := 0, missed := 0 } hk hv rfl rfl)
            rfl
        · cases hstep
    refine foldlM_inv (fun (acc : State × List Update) => rview acc.1 = rview s) _ ?_ _ _ _ h1 h
    intro acc e acc' hacc hstep
    obtain ⟨b, ups0⟩ := acc
    dsimp only at hstep hacc
    have hk : VKeys b := vkeys_of_rview hacc hk0
    cases hv : vget b e.1 with
    | none => rw [hv] at hstep; cases hstep
    | some v =>
      rw [hv] at hstep
      dsimp only at hstep
      cases hstep
      refine Eq.trans ?_ hacc
      split
      · refine Eq.trans ?_ (rview_vset_same b e.1 v { v with status := .pending } hk hv rfl rfl)
        rfl
      · rfl

theorem endBlocker_frame (s s' : State) (ups : List Update) (hk : VKeys s) (h : endBlocker s = .ok (s', ups)) : Keep s s' :=
  Keep.of_rview hk (endBlocker_rview s s' ups hk h)

/-! ## the execution block's income and emission (`updateRewardPool`) -/

/-- gas revenue accepted from a request list: positive amounts only -/
def gasAccepted (gas : List Int) : Int := isum (gas.map (fun x => if x > 0 then x else 0))

/-- the amount moved from the grant into the distribution pool: min(remaining grant, scheduled) -/
def emitted (p : Params) (height : Int) (remain : Int) : Int :=
  if scheduledReward p height > remain then remain else scheduledReward p height

/-- validated parameters: `InitialBlockReward ≥ 1` in `Params.Validate`; only `≥ 0` is needed -/
def ParamsOK (s : State) : Prop := 0 ≤ s.params.initialReward

theorem scheduled_nonneg (p : Params) (h : Int) (hp : 0 ≤ p.initialReward) : 0 ≤ scheduledReward p h := by
  unfold scheduledReward
  dsimp only
  split
  · exact Int.ediv_nonneg hp (Int.natCast_nonneg _)
  · exact hp

theorem gasAccepted_nonneg (gas : List Int) : 0 ≤ gasAccepted gas := by
  unfold gasAccepted
  apply isum_nonneg
  intro x hx
  obtain ⟨g, _, rfl⟩ := List.mem_map.mp hx
  split <;> omega

/-- **updateRewardPool, exactly**: a successful call has exactly one gas request `g`; the gas pool grows
    by `g` when positive; the grant grows by the sum of the grant requests and then
    `min(remaining grant, scheduled reward)` moves from the grant into the goat pool.  Validators,
    queue and parameters are untouched. -/
theorem updateRewardPool_exact (s s' : State) (height : Int) (gas grants : List Int)
    (h : updateRewardPool s height gas grants = .ok s') :
    (∃ g, gas = [g]) ∧
    s'.pool.gas = s.pool.gas + gasAccepted gas ∧
    s'.pool.remain = s.pool.remain + isum grants - emitted s.params height (s.pool.remain + isum grants) ∧
    s'.pool.goat = s.pool.goat + emitted s.params height (s.pool.remain + isum grants) ∧
    s'.params = s.params ∧ s'.validators = s.validators ∧ s'.qRewards = s.qRewards := by
  unfold updateRewardPool at h
  split at h
  · cases h
  · rename_i hlen
    obtain ⟨g, rfl⟩ : ∃ g, gas = [g] := List.length_eq_one_iff.mp (by omega)
    split at h
    · cases h
    · rename_i p1 hp1
      dsimp only at h
      split at h
      · cases h
      · cases h
        obtain ⟨h1, h2, h3⟩ := C12.income s.pool p1 g grants hp1
        obtain ⟨e1, e2, e3, _⟩ := C12.emission p1 (scheduledReward s.params height)
        refine ⟨⟨g, rfl⟩, ?_, ?_, ?_, rfl, rfl, rfl⟩
        · show (emit p1 (scheduledReward s.params height)).gas = _
          rw [e3, h1]; simp [gasAccepted]
        · show (emit p1 (scheduledReward s.params height)).remain = _
          rw [e2, h2, isum_eq_sum]; rfl
        · show (emit p1 (scheduledReward s.params height)).goat = _
          rw [e1, h3, h2, isum_eq_sum]; rfl

theorem rview_of_fields {s s' : State} (h1 : s'.params = s.params) (h2 : s'.pool = s.pool)
    (h3 : s'.qRewards = s.qRewards) (h4 : s'.validators = s.validators) : rview s' = rview s := by
  unfold rview; rw [h1, h2, h3, h4]

theorem rewards_of_validators {s s' : State} (h : s'.validators = s.validators) :
    (rview s').rewards = (rview s).rewards := by
  unfold rview; rw [h]

/-- `updateRewardPool` in terms of the measures -/
theorem updateRewardPool_spec (s s' : State) (height : Int) (gas grants : List Int) (hk : VKeys s)
    (h : updateRewardPool s height gas grants = .ok s') :
    VKeys s' ∧ s'.params = s.params ∧ s'.qRewards = s.qRewards ∧
    accruedGoat s' = accruedGoat s ∧ accruedGas s' = accruedGas s ∧
    s'.pool.remain + s'.pool.goat = s.pool.remain + s.pool.goat + isum grants ∧
    s'.pool.gas = s.pool.gas + gasAccepted gas ∧
    (RNonNeg s → ParamsOK s → (∀ x ∈ grants, 0 ≤ x) → RNonNeg s') := by
  obtain ⟨_, h1, h2, h3, h4, h5, h6⟩ := updateRewardPool_exact s s' height gas grants h
  have hr := rewards_of_validators h5
  refine ⟨?_, h4, h6, ?_, ?_, ?_, h1, ?_⟩
  · unfold VKeys; rw [hr]; exact hk
  · unfold accruedGoat; rw [hr]
  · unfold accruedGas; rw [hr]
  · rw [h2, h3]; omega
  · intro hn hp hg
    have hs := scheduled_nonneg s.params height hp
    have hgr := isum_nonneg grants hg
    have hga := gasAccepted_nonneg gas
    have h0 := hn.remain
    have h00 := hn.goat
    have h000 := hn.gas
    refine ⟨?_, ?_, ?_, ?_, ?_⟩
    · rw [h3]; unfold emitted; split <;> omega
    · rw [h1]; omega
    · rw [h2]; unfold emitted; split <;> omega
    · unfold ValNonNeg; rw [hr]; exact hn.vals
    · rw [h6]; exact hn.queued

/-! ## distribution of the pools (`distributeReward`) -/

/-- sum of the previous block's voting powers (`totalPower`) -/
def totalPower (votes : List VoteInfo) : Int := votes.foldl (fun acc v => acc + v.power) 0

/-- share of a pool `P` for voting power `p` of `total`: `⌊P · ⌊p·10¹⁸/total⌋ / 10¹⁸⌋`, nothing of an empty pool -/
def share (P : Int) (total : Int) (p : Int) : Int :=
  if P ≠ 0 then ((mulTruncInt P.toNat (decQuoTruncate p.toNat total.toNat) : Nat) : Int) else 0

def gasShare (pool : Pool) (total : Int) (v : VoteInfo) : Int := share pool.gas total v.power
def goatShare (pool : Pool) (total : Int) (v : VoteInfo) : Int := share pool.goat total v.power

theorem share_nonneg (P total p : Int) : 0 ≤ share P total p := by
  unfold share; split
  · exact Int.natCast_nonneg _
  · exact Int.le_refl _

/-- setting the record of an existing validator: effect on the accrued totals -/
theorem accrued_vset (s : State) (a : Bytes) (v v' : Validator) (hk : VKeys s) (hv : vget s a = some v) :
    VKeys (vset s a v') ∧
    accruedGoat (vset s a v') = accruedGoat s - v.reward + v'.reward ∧
    accruedGas (vset s a v') = accruedGas s - v.gasReward + v'.gasReward ∧
    (ValNonNeg s → 0 ≤ v'.reward → 0 ≤ v'.gasReward → ValNonNeg (vset s a v')) := by
  have hg : aget (rview s).rewards a = some (v.reward, v.gasReward) := by rw [rget_rview, hv]; rfl
  have hr : (rview (vset s a v')).rewards = aset (rview s).rewards a (v'.reward, v'.gasReward) := by rw [rview_vset]
  refine ⟨?_, ?_, ?_, ?_⟩
  · unfold VKeys; rw [hr]; exact akeys_aset _ _ _ hk
  · unfold accruedGoat; rw [hr, asum_aset_some _ _ _ _ _ hk hg]
  · unfold accruedGas; rw [hr, asum_aset_some _ _ _ _ _ hk hg]
  · intro hn h1 h2 e he
    rw [hr] at he
    rcases mem_aset _ _ _ _ he with rfl | h'
    · exact ⟨h1, h2⟩
    · exact hn e h'

theorem distribute_go_spec (total : Int) :
    ∀ (votes : List VoteInfo) (s : State) (rg rr : Int) (s' : State) (rg' rr' : Int), VKeys s →
      distributeReward.go total votes s rg rr = .ok (s', rg', rr') →
      VKeys s' ∧ s'.params = s.params ∧ s'.pool = s.pool ∧ s'.qRewards = s.qRewards ∧
      rg' = rg - isum (votes.map (gasShare s.pool total)) ∧ rr' = rr - isum (votes.map (goatShare s.pool total)) ∧
      accruedGas s' = accruedGas s + isum (votes.map (gasShare s.pool total)) ∧
      accruedGoat s' = accruedGoat s + isum (votes.map (goatShare s.pool total)) ∧
      (ValNonNeg s → ValNonNeg s') := by
  intro votes
  induction votes with
  | nil =>
    intro s rg rr s' rg' rr' hk h
    unfold distributeReward.go at h
    cases h
    exact ⟨hk, rfl, rfl, rfl, by simp, by simp, by simp, by simp, id⟩
  | cons v rest ih =>
    intro s rg rr s' rg' rr' hk h
    unfold distributeReward.go at h
    cases hv : vget s v.address with
    | none => rw [hv] at h; cases h
    | some val =>
      rw [hv] at h
      dsimp only at h
      have hgs : (if s.pool.gas ≠ 0 then ((mulTruncInt s.pool.gas.toNat (decQuoTruncate v.power.toNat total.toNat) : Nat) : Int) else 0)
          = gasShare s.pool total v := rfl
      have hrs : (if s.pool.goat ≠ 0 then ((mulTruncInt s.pool.goat.toNat (decQuoTruncate v.power.toNat total.toNat) : Nat) : Int) else 0)
          = goatShare s.pool total v := rfl
      rw [hgs, hrs] at h
      obtain ⟨k1, k2, k3, k4⟩ := accrued_vset s v.address val
        { val with gasReward := val.gasReward + gasShare s.pool total v, reward := val.reward + goatShare s.pool total v } hk hv
      obtain ⟨i1, i2, i3, i4, i5, i6, i7, i8, i9⟩ := ih _ _ _ s' rg' rr' k1 h
      rw [vset_pool] at i3 i5 i6 i7 i8
      refine ⟨i1, i2.trans (vset_params _ _ _), i3, i4.trans (vset_qRewards _ _ _), ?_, ?_, ?_, ?_, ?_⟩
      · rw [i5]; simp only [List.map_cons, isum_cons]; omega
      · rw [i6]; simp only [List.map_cons, isum_cons]; omega
      · rw [i7, k3]; simp only [List.map_cons, isum_cons]; omega
      · rw [i8, k2]; simp only [List.map_cons, isum_cons]; omega
      · intro hn
        have hval := hn.vget v.address val hv
        have g1 := share_nonneg s.pool.gas total v.power
        have g2 := share_nonneg s.pool.goat total v.power
        refine i9 (k4 hn ?_ ?_)
        · show 0 ≤ val.reward + goatShare s.pool total v
          unfold goatShare; omega
        · show 0 ≤ val.gasReward + gasShare s.pool total v
          unfold gasShare; omega

/-- does this begin-block distribute?  (not at heights below 2, not without a last commit) -/
def distributes (height : Int) (votes : List VoteInfo) : Prop := ¬ height < 2 ∧ votes.isEmpty = false

instance (height : Int) (votes : List VoteInfo) : Decidable (distributes height votes) := by
  unfold distributes; exact inferInstance

/-- total moved out of the gas pool -/
def distGas (s : State) (height : Int) (votes : List VoteInfo) : Int :=
  if distributes height votes then isum (votes.map (gasShare s.pool (totalPower votes))) else 0
/-- total moved out of the goat pool -/
def distGoat (s : State) (height : Int) (votes : List VoteInfo) : Int :=
  if distributes height votes then isum (votes.map (goatShare s.pool (totalPower votes))) else 0

/-- **distributeReward, exactly**: the gas and goat pools decrease by exactly the sum of the shares
    and the accrued totals grow by the same sums; the remainder (rounding dust) stays in the pool; the
    grant, the queue, the parameters are untouched.  Without vote infos (or below height 2) nothing
    moves.  A zero total power is an error. -/
theorem distributeReward_spec (s s' : State) (height : Int) (votes : List VoteInfo) (hk : VKeys s)
    (h : distributeReward s height votes = .ok s') :
    VKeys s' ∧ s'.params = s.params ∧ s'.qRewards = s.qRewards ∧ s'.pool.remain = s.pool.remain ∧
    s'.pool.gas = s.pool.gas - distGas s height votes ∧ s'.pool.goat = s.pool.goat - distGoat s height votes ∧
    accruedGas s' = accruedGas s + distGas s height votes ∧ accruedGoat s' = accruedGoat s + distGoat s height votes ∧
    (ValNonNeg s → ValNonNeg s') ∧ (distributes height votes → totalPower votes ≠ 0) := by
  unfold distributeReward at h
  split at h
  · rename_i hlt
    cases h
    have : ¬ distributes height votes := fun hd => hd.1 hlt
    have hg0 : distGas s height votes = 0 := by unfold distGas; rw [if_neg this]
    have hr0 : distGoat s height votes = 0 := by unfold distGoat; rw [if_neg this]
    rw [hg0, hr0]
    exact ⟨hk, rfl, rfl, rfl, by omega, by omega, by omega, by omega, id, fun hd => absurd hd this⟩
  · rename_i hlt
    split at h
    · rename_i hemp
      cases h
      have : ¬ distributes height votes := fun hd => by rw [hd.2] at hemp; cases hemp
      have hg0 : distGas s height votes = 0 := by unfold distGas; rw [if_neg this]
      have hr0 : distGoat s height votes = 0 := by unfold distGoat; rw [if_neg this]
      rw [hg0, hr0]
      exact ⟨hk, rfl, rfl, rfl, by omega, by omega, by omega, by omega, id, fun hd => absurd hd this⟩
    · rename_i hemp
      have hd : distributes height votes := ⟨hlt, by simpa using hemp⟩
      dsimp only at h
      split at h
      · cases h
      · rename_i htot
        split at h
        · cases h
        · cases h
        · rename_i s2 rg rr heq
          cases h
          obtain ⟨i1, i2, i3, i4, i5, i6, i7, i8, i9⟩ := distribute_go_spec _ votes s _ _ s2 rg rr hk heq
          have hr : (rview { s2 with pool := { s2.pool with gas := rg, goat := rr } }).rewards = (rview s2).rewards := rfl
          have hg1 : distGas s height votes = isum (votes.map (gasShare s.pool (totalPower votes))) := by
            unfold distGas; rw [if_pos hd]
          have hr1 : distGoat s height votes = isum (votes.map (goatShare s.pool (totalPower votes))) := by
            unfold distGoat; rw [if_pos hd]
          rw [hg1, hr1]
          refine ⟨?_, i2, i4, ?_, i5, i6, ?_, ?_, ?_, fun _ => htot⟩
          · unfold VKeys; rw [hr]; exact i1
          · show s2.pool.remain = s.pool.remain
            rw [i3]
          · unfold accruedGas; rw [hr]; exact i7
          · unfold accruedGoat; rw [hr]; exact i8
          · intro hn; unfold ValNonNeg; rw [hr]; exact i9 hn

/-- **the shares never exceed the pool** (non-negative powers, non-zero total): `0 ≤ Σ shares ≤ P` -/
theorem shares_bound (P : Int) (hP : 0 ≤ P) (votes : List VoteInfo) (hpow : ∀ v ∈ votes, 0 ≤ v.power)
    (ht : totalPower votes ≠ 0) :
    0 ≤ isum (votes.map (fun v => share P (totalPower votes) v.power)) ∧
    isum (votes.map (fun v => share P (totalPower votes) v.power)) ≤ P := by
  constructor
  · apply isum_nonneg
    intro x hx
    obtain ⟨v, _, rfl⟩ := List.mem_map.mp hx
    exact share_nonneg _ _ _
  · by_cases hz : P = 0
    · have : ∀ v : VoteInfo, share P (totalPower votes) v.power = 0 := by
        intro v; unfold share; rw [if_neg (by simpa using hz)]
      simp only [this, isum_map_zero]; omega
    · have hT : totalPower votes = isum (votes.map (·.power)) := by
        unfold totalPower; rw [foldl_add_eq]; omega
      have hnn : ∀ x ∈ votes.map (·.power), 0 ≤ x := by
        intro x hx
        obtain ⟨v, hv, rfl⟩ := List.mem_map.mp hx
        exact hpow v hv
      have hTn : (totalPower votes).toNat = (votes.map (fun v => v.power.toNat)).sum := by
        rw [hT, toNat_isum _ hnn, List.map_map]; rfl
      have hTpos : 0 < (votes.map (fun v => v.power.toNat)).sum := by
        have := isum_nonneg _ hnn
        rw [← hTn]; omega
      have hsh : ∀ v : VoteInfo, share P (totalPower votes) v.power
          = ((mulTruncInt P.toNat (decQuoTruncate v.power.toNat (votes.map (fun v => v.power.toNat)).sum) : Nat) : Int) := by
        intro v; unfold share; rw [if_pos hz, hTn]
      simp only [hsh]
      rw [isum_map_natCast]
      have key := C12.shares_sum_le_pool P.toNat (votes.map (fun v => v.power.toNat)) hTpos
      rw [List.map_map] at key
      have : (Function.comp (fun p => mulTruncInt P.toNat (decQuoTruncate p (votes.map (fun v => v.power.toNat)).sum))
          (fun v : VoteInfo => v.power.toNat))
          = (fun v : VoteInfo => mulTruncInt P.toNat (decQuoTruncate v.power.toNat (votes.map (fun v => v.power.toNat)).sum)) := rfl
      rw [this] at key
      omega

/-- **no pool goes negative in a distribution**: with non-negative pools and non-negative voting
    powers, `0 ≤ distributed ≤ pool`. -/
theorem dist_bounds (s : State) (height : Int) (votes : List VoteInfo) (hpow : ∀ v ∈ votes, 0 ≤ v.power)
    (ht : distributes height votes → totalPower votes ≠ 0) (hgas : 0 ≤ s.pool.gas) (hgoat : 0 ≤ s.pool.goat) :
    0 ≤ distGas s height votes ∧ distGas s height votes ≤ s.pool.gas ∧
    0 ≤ distGoat s height votes ∧ distGoat s height votes ≤ s.pool.goat := by
  unfold distGas distGoat
  by_cases hd : distributes height votes
  · rw [if_pos hd, if_pos hd]
    obtain ⟨a1, a2⟩ := shares_bound s.pool.gas hgas votes hpow (ht hd)
    obtain ⟨b1, b2⟩ := shares_bound s.pool.goat hgoat votes hpow (ht hd)
    exact ⟨a1, a2, b1, b2⟩
  · rw [if_neg hd, if_neg hd]; omega

/-! ## claims -/

/-- one claim request -/
def claimOne (s : State) (r : ClaimReq) : Outcome State :=
  match vget s r.validator with
  | none => Outcome.err "not-found"
  | some v =>
    let s1 := { s with qRewards := s.qRewards ++ [{ id := r.id, recipient := r.recipient, goat := v.reward, gas := v.gasReward }] }
    .ok (vset s1 r.validator { v with reward := 0, gasReward := 0 })

theorem claim_eq (s : State) (reqs : List ClaimReq) : claim s reqs = reqs.foldlM claimOne s := rfl

/-- a validator record with the accrued amounts reset -/
def zeroed (v : Validator) : Validator := { v with reward := 0, gasReward := 0 }

/-- **one claim, exactly**: for an existing validator a `Reward` record carrying exactly the accrued
    `(reward, gasReward)` is appended to the queue and both accrued amounts are set to 0; every other
    validator, the pools and the parameters are untouched.  A claim for an unknown validator fails. -/
theorem claimOne_exact (s s' : State) (r : ClaimReq) (h : claimOne s r = .ok s') :
    ∃ v, vget s r.validator = some v ∧
      s'.qRewards = s.qRewards ++ [{ id := r.id, recipient := r.recipient, goat := v.reward, gas := v.gasReward }] ∧
      vget s' r.validator = some (zeroed v) ∧ (∀ a, a ≠ r.validator → vget s' a = vget s a) ∧
      s'.pool = s.pool ∧ s'.params = s.params := by
  unfold claimOne at h
  cases hv : vget s r.validator with
  | none => rw [hv] at h; cases h
  | some v =>
    rw [hv] at h
    dsimp only at h
    cases h
    refine ⟨v, rfl, ?_, ?_, ?_, ?_, ?_⟩
    · rw [vset_qRewards]
    · exact vget_vset_same _ _ _
    · intro a ha
      rw [vget_vset_other _ _ _ _ (fun x => ha x.symm)]
      rfl
    · rw [vset_pool]
    · rw [vset_params]

/-- one claim in terms of the measures: what leaves `accrued` enters `queued` -/
theorem claimOne_spec (s s' : State) (r : ClaimReq) (hk : VKeys s) (h : claimOne s r = .ok s') :
    VKeys s' ∧ s'.params = s.params ∧ s'.pool = s.pool ∧
    accruedGoat s' + queuedGoat s' = accruedGoat s + queuedGoat s ∧
    accruedGas s' + queuedGas s' = accruedGas s + queuedGas s ∧
    (ValNonNeg s → (∀ q ∈ s.qRewards, 0 ≤ q.goat ∧ 0 ≤ q.gas) →
      ValNonNeg s' ∧ ∀ q ∈ s'.qRewards, 0 ≤ q.goat ∧ 0 ≤ q.gas) := by
  unfold claimOne at h
  cases hv : vget s r.validator with
  | none => rw [hv] at h; cases h
  | some v =>
    rw [hv] at h
    dsimp only at h
    cases h
    generalize hs1 : ({ s with qRewards := s.qRewards ++ [{ id := r.id, recipient := r.recipient, goat := v.reward, gas := v.gasReward }] } : State) = s1
    have hr1 : rview s1 = { rview s with qRewards := s.qRewards ++ [{ id := r.id, recipient := r.recipient, goat := v.reward, gas := v.gasReward }] } := by
      rw [← hs1]; rfl
    have hk1 : VKeys s1 := by unfold VKeys; rw [hr1]; exact hk
    have hv1 : vget s1 r.validator = some v := by rw [← hs1]; exact hv
    have hq1 : s1.qRewards = s.qRewards ++ [{ id := r.id, recipient := r.recipient, goat := v.reward, gas := v.gasReward }] := by
      rw [← hs1]
    have ha1 : accruedGoat s1 = accruedGoat s := by unfold accruedGoat; rw [hr1]
    have ha2 : accruedGas s1 = accruedGas s := by unfold accruedGas; rw [hr1]
    obtain ⟨k1, k2, k3, k4⟩ := accrued_vset s1 r.validator v { v with reward := 0, gasReward := 0 } hk1 hv1
    refine ⟨k1, ?_, ?_, ?_, ?_, ?_⟩
    · rw [vset_params, ← hs1]
    · rw [vset_pool, ← hs1]
    · rw [k2, ha1]
      unfold queuedGoat rewardsGoat
      rw [vset_qRewards, hq1, List.map_append, isum_append]
      simp; omega
    · rw [k3, ha2]
      unfold queuedGas rewardsGas
      rw [vset_qRewards, hq1, List.map_append, isum_append]
      simp; omega
    · intro hn hq
      have hval := hn.vget r.validator v hv
      have hn1 : ValNonNeg s1 := by unfold ValNonNeg; rw [hr1]; exact hn
      refine ⟨k4 hn1 (Int.le_refl _) (Int.le_refl _), ?_⟩
      intro q hq'
      rw [vset_qRewards, hq1] at hq'
      rcases List.mem_append.mp hq' with h1 | h1
      · exact hq q h1
      · simp only [List.mem_singleton] at h1
        rw [h1]; exact hval

/-- **claim (a batch)**: `accrued + queued` is unchanged for goat and for gas; pools and parameters are
    untouched; nothing becomes negative. -/
theorem claim_spec (s s' : State) (reqs : List ClaimReq) (hk : VKeys s) (h : claim s reqs = .ok s') :
    VKeys s' ∧ s'.params = s.params ∧ s'.pool = s.pool ∧
    accruedGoat s' + queuedGoat s' = accruedGoat s + queuedGoat s ∧
    accruedGas s' + queuedGas s' = accruedGas s + queuedGas s ∧
    (RNonNeg s → RNonNeg s') := by
  rw [claim_eq] at h
  have key := foldlM_inv (fun b => VKeys b ∧ b.params = s.params ∧ b.pool = s.pool ∧
      accruedGoat b + queuedGoat b = accruedGoat s + queuedGoat s ∧
      accruedGas b + queuedGas b = accruedGas s + queuedGas s ∧
      (RNonNeg s → ValNonNeg b ∧ ∀ q ∈ b.qRewards, 0 ≤ q.goat ∧ 0 ≤ q.gas)) claimOne ?_ reqs s s'
      ⟨hk, rfl, rfl, rfl, rfl, fun hn => ⟨hn.vals, hn.queued⟩⟩ h
  · obtain ⟨k1, k2, k3, k4, k5, k6⟩ := key
    refine ⟨k1, k2, k3, k4, k5, ?_⟩
    intro hn
    obtain ⟨x1, x2⟩ := k6 hn
    exact ⟨k3 ▸ hn.goat, k3 ▸ hn.gas, k3 ▸ hn.remain, x1, x2⟩
  · intro b r b' hb hstep
    obtain ⟨b1, b2, b3, b4, b5, b6⟩ := hb
    obtain ⟨c1, c2, c3, c4, c5, c6⟩ := claimOne_spec b b' r b1 hstep
    refine ⟨c1, c2.trans b2, c3.trans b3, c4.trans b4, c5.trans b5, ?_⟩
    intro hn
    obtain ⟨x1, x2⟩ := b6 hn
    exact c6 x1 x2

/-- the records a batch of claims queues, computed from the state *before* the batch: the first claim
    of a validator pays its accrued amounts, every further claim of the same validator pays 0
    (`seen`: validators already claimed in this batch) -/
def payouts (s : State) : List Bytes → List ClaimReq → List Reward
  | _, [] => []
  | seen, r :: rs =>
    { id := r.id, recipient := r.recipient,
      goat := if r.validator ∈ seen then 0 else ((vget s r.validator).map (·.reward)).getD 0,
      gas := if r.validator ∈ seen then 0 else ((vget s r.validator).map (·.gasReward)).getD 0 }
      :: payouts s (r.validator :: seen) rs

theorem zeroed_zeroed (v : Validator) : zeroed (zeroed v) = zeroed v := rfl

theorem claim_exact_aux (s : State) : ∀ (reqs : List ClaimReq) (seen : List Bytes) (b s' : State),
    (∀ a, vget b a = if a ∈ seen then (vget s a).map zeroed else vget s a) →
    reqs.foldlM claimOne b = .ok s' →
    s'.qRewards = b.qRewards ++ payouts s seen reqs ∧
    (∀ a, vget s' a = if a ∈ reqs.map (·.validator) ∨ a ∈ seen then (vget s a).map zeroed else vget s a) ∧
    s'.pool = b.pool := by
  intro reqs
  induction reqs with
  | nil =>
    intro seen b s' hb h
    rw [foldlM_nil_ok _ _ _ h]
    refine ⟨by simp [payouts], ?_, rfl⟩
    intro a
    rw [hb a]
    simp
  | cons r rs ih =>
    intro seen b s' hb h
    obtain ⟨b1, h1, h2⟩ := foldlM_cons_ok _ _ _ _ _ h
    obtain ⟨v, hv, hq, hsame, hother, hpool, _⟩ := claimOne_exact b b1 r h1
    have hb1 : ∀ a, vget b1 a = if a ∈ r.validator :: seen then (vget s a).map zeroed else vget s a := by
      intro a
      by_cases ha : a = r.validator
      · subst ha
        rw [hsame, if_pos List.mem_cons_self]
        have := hb r.validator
        rw [hv] at this
        by_cases hs : r.validator ∈ seen
        · rw [if_pos hs] at this
          cases hx : vget s r.validator with
          | none => rw [hx] at this; cases this
          | some v0 =>
            rw [hx] at this
            simp only [Option.map_some, Option.some.injEq] at this
            rw [this]; rfl
        · rw [if_neg hs] at this
          rw [← this]; rfl
      · rw [hother a ha, hb a]
        have : a ∈ r.validator :: seen ↔ a ∈ seen := by
          rw [List.mem_cons]
          constructor
          · rintro (h | h)
            · exact absurd h ha
            · exact h
          · exact Or.inr
        simp only [this]
    obtain ⟨i1, i2, i3⟩ := ih (r.validator :: seen) b1 s' hb1 h2
    refine ⟨?_, ?_, i3.trans hpool⟩
    · rw [i1, hq, List.append_assoc]
      congr 1
      show _ = _ :: payouts s (r.validator :: seen) rs
      rw [List.singleton_append]
      congr 1
      have := hb r.validator
      rw [hv] at this
      by_cases hs : r.validator ∈ seen
      · rw [if_pos hs] at this
        rw [if_pos hs, if_pos hs]
        cases hx : vget s r.validator with
        | none => rw [hx] at this; cases this
        | some v0 =>
          rw [hx] at this
          simp only [Option.map_some, Option.some.injEq] at this
          rw [this]; rfl
      · rw [if_neg hs] at this
        rw [if_neg hs, if_neg hs, ← this]; rfl
    · intro a
      rw [i2 a]
      have : (a ∈ rs.map (·.validator) ∨ a ∈ r.validator :: seen) ↔ (a ∈ (r :: rs).map (·.validator) ∨ a ∈ seen) := by
        simp only [List.map_cons, List.mem_cons]
        constructor
        · rintro (h | h | h)
          · exact Or.inl (Or.inr h)
          · exact Or.inl (Or.inl h)
          · exact Or.inr h
        · rintro ((h | h) | h)
          · exact Or.inr (Or.inl h)
          · exact Or.inl h
          · exact Or.inr (Or.inr h)
      simp only [this]

/-- **claim, exactly once.**  A successful batch queues, in request order, one record per request:
    the first claim of a validator carries exactly its accrued `(reward, gasReward)` from before the
    batch, every repeated claim of the same validator carries `(0, 0)`; afterwards the accrued
    amounts of every claimed validator are 0 and all other validators are unchanged. -/
theorem claim_exact (s s' : State) (reqs : List ClaimReq) (h : claim s reqs = .ok s') :
    s'.qRewards = s.qRewards ++ payouts s [] reqs ∧
    (∀ a, vget s' a = if a ∈ reqs.map (·.validator) then (vget s a).map zeroed else vget s a) ∧
    s'.pool = s.pool := by
  rw [claim_eq] at h
  obtain ⟨k1, k2, k3⟩ := claim_exact_aux s reqs [] s s' (fun a => by simp) h
  refine ⟨k1, ?_, k3⟩
  intro a
  rw [k2 a]
  simp

/-- after a batch, every claimed validator has nothing accrued: a later claim (before the next
    distribution) pays `(0, 0)` -/
theorem claim_resets (s s' : State) (reqs : List ClaimReq) (h : claim s reqs = .ok s') (a : Bytes)
    (ha : a ∈ reqs.map (·.validator)) (v : Validator) (hv : vget s' a = some v) : v.reward = 0 ∧ v.gasReward = 0 := by
  have := (claim_exact s s' reqs h).2.1 a
  rw [if_pos ha, hv] at this
  cases hx : vget s a with
  | none => rw [hx] at this; cases this
  | some v0 =>
    rw [hx] at this
    simp only [Option.map_some, Option.some.injEq] at this
    rw [this]; exact ⟨rfl, rfl⟩

/-- a single claim right after a batch that already claimed the validator queues `(0, 0)` -/
theorem claim_second_pays_zero (s s1 s2 : State) (reqs : List ClaimReq) (r : ClaimReq)
    (h1 : claim s reqs = .ok s1) (hr : r.validator ∈ reqs.map (·.validator)) (h2 : claim s1 [r] = .ok s2) :
    s2.qRewards = s1.qRewards ++ [{ id := r.id, recipient := r.recipient, goat := 0, gas := 0 }] := by
  obtain ⟨k1, _, _⟩ := claim_exact s1 s2 [r] h2
  rw [k1]
  congr 1
  have hsome : ∃ v, vget s1 r.validator = some v := by
    rw [claim_eq] at h2
    obtain ⟨b1, hb1, _⟩ := foldlM_cons_ok _ _ _ _ _ h2
    obtain ⟨v, hv, _⟩ := claimOne_exact s1 b1 r hb1
    exact ⟨v, hv⟩
  obtain ⟨v, hv⟩ := hsome
  obtain ⟨z1, z2⟩ := claim_resets s s1 reqs h1 r.validator hr v hv
  simp [payouts, hv, z1, z2]

/-! ## hand-over to the execution layer -/

/-- **dequeue**: the first ≤ 16 queued rewards are handed over, in order; `queued` decreases by
    exactly their amounts; pools, validators and parameters are untouched. -/
theorem dequeue_spec (s : State) (hk : VKeys s) :
    VKeys (dequeue s).1 ∧ (dequeue s).1.params = s.params ∧ (dequeue s).1.pool = s.pool ∧
    accruedGoat (dequeue s).1 = accruedGoat s ∧ accruedGas (dequeue s).1 = accruedGas s ∧
    (dequeue s).2.1 ++ (dequeue s).1.qRewards = s.qRewards ∧ (dequeue s).2.1.length ≤ 16 ∧
    queuedGoat (dequeue s).1 + rewardsGoat (dequeue s).2.1 = queuedGoat s ∧
    queuedGas (dequeue s).1 + rewardsGas (dequeue s).2.1 = queuedGas s ∧
    (RNonNeg s → RNonNeg (dequeue s).1 ∧ ∀ r ∈ (dequeue s).2.1, 0 ≤ r.goat ∧ 0 ≤ r.gas) := by
  unfold dequeue
  split
  · refine ⟨hk, rfl, rfl, rfl, rfl, by simp, by simp, by simp [rewardsGoat], by simp [rewardsGas],
      fun hn => ⟨hn, fun r hr => by cases hr⟩⟩
  · dsimp only
    refine ⟨hk, rfl, rfl, rfl, rfl, List.take_append_drop _ _, ?_, ?_, ?_, ?_⟩
    · rw [List.length_take]; omega
    · unfold queuedGoat rewardsGoat
      dsimp only
      have := isum_map_take_drop (fun r : Reward => r.goat) (min s.qRewards.length 16) s.qRewards
      omega
    · unfold queuedGas rewardsGas
      dsimp only
      have := isum_map_take_drop (fun r : Reward => r.gas) (min s.qRewards.length 16) s.qRewards
      omega
    · intro hn
      refine ⟨⟨hn.goat, hn.gas, hn.remain, hn.vals, ?_⟩, ?_⟩
      · intro r hr; exact hn.queued r (List.mem_of_mem_drop hr)
      · intro r hr; exact hn.queued r (List.mem_of_mem_take hr)

/-! ## the two entry points that move reward value -/

/-- goat-denominated value inside the module: grant, distribution pool, accrued, claimed-and-queued -/
def goatTotal (s : State) : Int := s.pool.remain + s.pool.goat + accruedGoat s + queuedGoat s
/-- gas-fee value inside the module -/
def gasTotal (s : State) : Int := s.pool.gas + accruedGas s + queuedGas s

/-- **processRequests** (income + emission, token updates, create, lock, unlock, claim):
    the pools change exactly as `updateRewardPool` prescribes (grants and positive gas revenue come
    in, `min(remaining grant, scheduled)` moves from the grant to the goat pool); claims move value
    from `accrued` to `queued`; nothing else touches reward value.  Hence the goat total grows by
    exactly the grants, the gas total by exactly the accepted gas revenue. -/
theorem processRequests_spec (hash160 : Bytes → Bytes) (hasAccount : Bytes → Bool)
    (s s' : State) (height now : Int) (R : Reqs) (accs : List Bytes) (hk : VKeys s)
    (h : processRequests hash160 hasAccount s height now R = .ok (s', accs)) :
    VKeys s' ∧ s'.params = s.params ∧
    s'.pool.gas = s.pool.gas + gasAccepted R.gas ∧
    s'.pool.remain = s.pool.remain + isum R.grants - emitted s.params height (s.pool.remain + isum R.grants) ∧
    s'.pool.goat = s.pool.goat + emitted s.params height (s.pool.remain + isum R.grants) ∧
    accruedGoat s' + queuedGoat s' = accruedGoat s + queuedGoat s ∧
    accruedGas s' + queuedGas s' = accruedGas s + queuedGas s ∧
    goatTotal s' = goatTotal s + isum R.grants ∧
    gasTotal s' = gasTotal s + gasAccepted R.gas ∧
    (RNonNeg s → ParamsOK s → (∀ x ∈ R.grants, 0 ≤ x) → RNonNeg s') := by
  unfold processRequests at h
  obtain ⟨s1, h1, h⟩ := (bind_eq_ok _ _ _).mp h
  obtain ⟨s2, h2, h⟩ := (bind_eq_ok _ _ _).mp h
  obtain ⟨⟨s3, accs3⟩, h3, h⟩ := (bind_eq_ok _ _ _).mp h
  dsimp only at h
  obtain ⟨s4, h4, h⟩ := (bind_eq_ok _ _ _).mp h
  obtain ⟨s5, h5, h⟩ := (bind_eq_ok _ _ _).mp h
  obtain ⟨s6, h6, h⟩ := (bind_eq_ok _ _ _).mp h
  have h : (Outcome.ok (s6, accs3) : Outcome (State × List Bytes)) = .ok (s', accs) := h
  simp only [Outcome.ok.injEq, Prod.mk.injEq] at h
  obtain ⟨rfl, _⟩ := h
  obtain ⟨_, x1, x2, x3, x4, _, _⟩ := updateRewardPool_exact s s1 height R.gas R.grants h1
  obtain ⟨u1, u2, u3, u4, u5, u6, u7, u8⟩ := updateRewardPool_spec s s1 height R.gas R.grants hk h1
  have e2 := updateTokens_frame s1 s2 R.weights R.thresholds u1 h2
  have e3 := create_frame hash160 hasAccount s2 s3 R.creates accs3 e2.keys h3
  have e4 := lock_frame s3 s4 now R.locks e3.keys h4
  have e5 := unlock_frame s4 s5 now R.unlocks e4.keys h5
  have e := ((e2.trans e3).trans e4).trans e5
  obtain ⟨c1, c2, c3, c4, c5, c6⟩ := claim_spec s5 s6 R.claims e.keys h6
  have hp : s6.pool = s1.pool := c3.trans e.pool
  have hgo : accruedGoat s6 + queuedGoat s6 = accruedGoat s + queuedGoat s := by
    rw [c4, e.goat, e.queuedGoat, u4]; unfold queuedGoat; rw [u3]
  have hga : accruedGas s6 + queuedGas s6 = accruedGas s + queuedGas s := by
    rw [c5, e.gas, e.queuedGas, u5]; unfold queuedGas; rw [u3]
  refine ⟨c1, c2.trans (e.params.trans u2), ?_, ?_, ?_, hgo, hga, ?_, ?_, ?_⟩
  · rw [hp, x1]
  · rw [hp, x2]
  · rw [hp, x3]
  · unfold goatTotal; rw [hp]; omega
  · unfold gasTotal; rw [hp]; omega
  · intro hn hpar hg
    exact c6 (e.nonneg (u8 hn hpar hg))

/-- **beginBlock** (distribution, maturing unlocks, downtime and double-sign slashing): the gas and
    goat pools decrease by exactly the distributed sums and `accrued` grows by the same; the grant and
    the queue of claimed rewards are untouched; slashing touches no reward.  Both totals are unchanged. -/
theorem beginBlock_spec (s s' : State) (height now : Int) (votes : List VoteInfo)
    (maxAge : Option (Int × Int)) (evs : List Evidence) (hk : VKeys s)
    (h : beginBlock s height now votes maxAge evs = .ok s') :
    VKeys s' ∧ s'.params = s.params ∧ s'.qRewards = s.qRewards ∧ s'.pool.remain = s.pool.remain ∧
    s'.pool.gas = s.pool.gas - distGas s height votes ∧ s'.pool.goat = s.pool.goat - distGoat s height votes ∧
    accruedGas s' = accruedGas s + distGas s height votes ∧ accruedGoat s' = accruedGoat s + distGoat s height votes ∧
    goatTotal s' = goatTotal s ∧ gasTotal s' = gasTotal s ∧
    (RNonNeg s → (∀ v ∈ votes, 0 ≤ v.power) → RNonNeg s') := by
  unfold beginBlock at h
  obtain ⟨s1, h1, h⟩ := (bind_eq_ok _ _ _).mp h
  obtain ⟨s3, h3, h⟩ := (bind_eq_ok _ _ _).mp h
  obtain ⟨d1, d2, d3, d4, d5, d6, d7, d8, d9, d10⟩ := distributeReward_spec s s1 height votes hk h1
  have r2 : rview (dequeueMature s1 now) = rview s1 := dequeueMature_rview s1 now
  have k2 : VKeys (dequeueMature s1 now) := vkeys_of_rview r2 d1
  have r3 : rview s3 = rview (dequeueMature s1 now) := handleVotes_rview _ s3 now votes k2 h3
  have k3 : VKeys s3 := vkeys_of_rview r3 k2
  have r4 : rview s' = rview s3 := by
    refine foldlM_inv (fun b => rview b = rview s3) _ ?_ evs s3 s' rfl h
    intro b e b' hb hstep
    exact (handleEvidence_rview b b' now height maxAge e (vkeys_of_rview hb k3) hstep).trans hb
  have r : rview s' = rview s1 := r4.trans (r3.trans r2)
  have e := Keep.of_rview d1 r
  have hq : s'.qRewards = s.qRewards := e.qRewards.trans d3
  refine ⟨e.keys, e.params.trans d2, hq, ?_, ?_, ?_, ?_, ?_, ?_, ?_, ?_⟩
  · rw [e.pool, d4]
  · rw [e.pool, d5]
  · rw [e.pool, d6]
  · rw [e.gas, d7]
  · rw [e.goat, d8]
  · unfold goatTotal queuedGoat; rw [e.pool, e.goat, hq, d4, d6, d8]; omega
  · unfold gasTotal queuedGas; rw [e.pool, e.gas, hq, d5, d7]; omega
  · intro hn hpow
    obtain ⟨b1, b2, b3, b4⟩ := dist_bounds s height votes hpow d10 hn.gas hn.goat
    refine e.nonneg ⟨?_, ?_, ?_, d9 hn.vals, ?_⟩
    · rw [d6]; omega
    · rw [d5]; omega
    · rw [d4]; exact hn.remain
    · rw [d3]; exact hn.queued

/-! ## histories -/

/-- ghost ledger: grants accepted, gas revenue accepted, rewards handed over to the execution layer -/
structure Ledger where
  granted : Int
  gasIn : Int
  paidGoat : Int
  paidGas : Int
  deriving DecidableEq, Repr

def Ledger.zero : Ledger := ⟨0, 0, 0, 0⟩
def Ledger.add (a b : Ledger) : Ledger :=
  ⟨a.granted + b.granted, a.gasIn + b.gasIn, a.paidGoat + b.paidGoat, a.paidGas + b.paidGas⟩

theorem Ledger.add_granted (a b : Ledger) : (a.add b).granted = a.granted + b.granted := rfl
theorem Ledger.add_gasIn (a b : Ledger) : (a.add b).gasIn = a.gasIn + b.gasIn := rfl
theorem Ledger.add_paidGoat (a b : Ledger) : (a.add b).paidGoat = a.paidGoat + b.paidGoat := rfl
theorem Ledger.add_paidGas (a b : Ledger) : (a.add b).paidGas = a.paidGas + b.paidGas := rfl

/-- the entry points of the module (the same histories as in C11H) -/
abbrev Op := C11H.Op

def applyProcess (hash160 : Bytes → Bytes) (hasAccount : Bytes → Bool) (s : State) (height now : Int) (r : Reqs) :
    State × Ledger :=
  match processRequests hash160 hasAccount s height now r with
  | .ok (s', _) => (s', ⟨isum r.grants, gasAccepted r.gas, 0, 0⟩)
  | _ => (s, Ledger.zero)

def applyBeginBlock (s : State) (height now : Int) (votes : List VoteInfo) (maxAge : Option (Int × Int))
    (evs : List Evidence) : State × Ledger :=
  match beginBlock s height now votes maxAge evs with
  | .ok s' => (s', Ledger.zero)
  | _ => (s, Ledger.zero)

def applyEndBlocker (s : State) : State × Ledger :=
  match endBlocker s with
  | .ok (s', _) => (s', Ledger.zero)
  | _ => (s, Ledger.zero)

def applyDequeue (s : State) : State × Ledger :=
  ((dequeue s).1, ⟨0, 0, rewardsGoat (dequeue s).2.1, rewardsGas (dequeue s).2.1⟩)

/-- one entry point: new state and ledger increment; a failing operation (error or panic) leaves the
    state and the ledger unchanged (the transaction / block is not committed) -/
def apply (s : State) : Op → State × Ledger
  | .process hash160 hasAccount height now r => applyProcess hash160 hasAccount s height now r
  | .beginBlock height now votes maxAge evs => applyBeginBlock s height now votes maxAge evs
  | .endBlocker => applyEndBlocker s
  | .dequeue => applyDequeue s

def run : State × Ledger → List Op → State × Ledger
  | sl, [] => sl
  | sl, op :: ops => run ((apply sl.1 op).1, sl.2.add (apply sl.1 op).2) ops

/-- the state component is the one of the C11H histories -/
theorem apply_state (denomOf : Bytes → String) (s : State) (op : Op) : (apply s op).1 = (C11H.apply denomOf s op).1 := by
  cases op with
  | process hash160 hasAccount height now r =>
    show (applyProcess hash160 hasAccount s height now r).1 = (C11H.applyProcess hash160 hasAccount s height now r).1
    unfold applyProcess C11H.applyProcess
    generalize processRequests hash160 hasAccount s height now r = o
    cases o with
    | ok x => rfl
    | err e => rfl
    | panic e => rfl
  | beginBlock height now votes maxAge evs =>
    show (applyBeginBlock s height now votes maxAge evs).1 = (C11H.applyBeginBlock s height now votes maxAge evs).1
    unfold applyBeginBlock C11H.applyBeginBlock
    generalize beginBlock s height now votes maxAge evs = o
    cases o with
    | ok x => rfl
    | err e => rfl
    | panic e => rfl
  | endBlocker =>
    show (applyEndBlocker s).1 = (C11H.applyEndBlocker s).1
    unfold applyEndBlocker C11H.applyEndBlocker
    generalize endBlocker s = o
    cases o with
    | ok x => rfl
    | err e => rfl
    | panic e => rfl
  | dequeue => rfl

/-- inputs are unsigned: grants are `uint256` values of the execution layer, voting powers are
    CometBFT's non-negative `int64` powers (needed for non-negativity only, not for conservation) -/
def OpOK : Op → Prop
  | .process _ _ _ _ r => ∀ x ∈ r.grants, 0 ≤ x
  | .beginBlock _ _ votes _ _ => ∀ v ∈ votes, 0 ≤ v.power
  | _ => True

/-- the property of one step -/
def StepOK (s : State) (op : Op) (r : State × Ledger) : Prop :=
  VKeys r.1 ∧ r.1.params = s.params ∧
  goatTotal r.1 + r.2.paidGoat = goatTotal s + r.2.granted ∧
  gasTotal r.1 + r.2.paidGas = gasTotal s + r.2.gasIn ∧
  0 ≤ r.2.gasIn ∧
  (RNonNeg s → ParamsOK s → OpOK op → RNonNeg r.1 ∧ 0 ≤ r.2.paidGoat ∧ 0 ≤ r.2.paidGas ∧ 0 ≤ r.2.granted)

theorem stepOK_same (s : State) (op : Op) (hk : VKeys s) : StepOK s op (s, Ledger.zero) :=
  ⟨hk, rfl, by simp [Ledger.zero], by simp [Ledger.zero], Int.le_refl _,
   fun hn _ _ => ⟨hn, Int.le_refl _, Int.le_refl _, Int.le_refl _⟩⟩

/-- **one step of a history** -/
theorem apply_spec (s : State) (op : Op) (hk : VKeys s) : StepOK s op (apply s op) := by
  cases op with
  | process hash160 hasAccount height now r =>
    show StepOK s _ (applyProcess hash160 hasAccount s height now r)
    unfold applyProcess
    split
    · rename_i s' accs heq
      obtain ⟨k1, k2, _, _, _, _, _, k8, k9, k10⟩ := processRequests_spec hash160 hasAccount s s' height now r accs hk heq
      refine ⟨k1, k2, ?_, ?_, gasAccepted_nonneg _, ?_⟩
      · dsimp only; omega
      · dsimp only; omega
      · intro hn hp hop
        exact ⟨k10 hn hp hop, Int.le_refl _, Int.le_refl _, isum_nonneg _ hop⟩
    · exact stepOK_same s _ hk
  | beginBlock height now votes maxAge evs =>
    show StepOK s _ (applyBeginBlock s height now votes maxAge evs)
    unfold applyBeginBlock
    split
    · rename_i s' heq
      obtain ⟨k1, k2, _, _, _, _, _, _, k9, k10, k11⟩ := beginBlock_spec s s' height now votes maxAge evs hk heq
      refine ⟨k1, k2, ?_, ?_, Int.le_refl _, ?_⟩
      · simp only [Ledger.zero]; omega
      · simp only [Ledger.zero]; omega
      · intro hn _ hop
        exact ⟨k11 hn hop, Int.le_refl _, Int.le_refl _, Int.le_refl _⟩
    · exact stepOK_same s _ hk
  | endBlocker =>
    show StepOK s _ (applyEndBlocker s)
    unfold applyEndBlocker
    split
    · rename_i s' ups heq
      have k := endBlocker_frame s s' ups hk heq
      refine ⟨k.keys, k.params, ?_, ?_, Int.le_refl _, ?_⟩
      · unfold goatTotal; simp only [Ledger.zero]; rw [k.pool, k.goat, k.queuedGoat]
      · unfold gasTotal; simp only [Ledger.zero]; rw [k.pool, k.gas, k.queuedGas]
      · intro hn _ _
        exact ⟨k.nonneg hn, Int.le_refl _, Int.le_refl _, Int.le_refl _⟩
    · exact stepOK_same s _ hk
  | dequeue =>
    show StepOK s _ (applyDequeue s)
    unfold applyDequeue
    obtain ⟨k1, k2, k3, k4, k5, _, _, k8, k9, k10⟩ := dequeue_spec s hk
    refine ⟨k1, k2, ?_, ?_, Int.le_refl _, ?_⟩
    · unfold goatTotal; dsimp only; rw [k3, k4]; omega
    · unfold gasTotal; dsimp only; rw [k3, k5]; omega
    · intro hn _ _
      obtain ⟨x1, x2⟩ := k10 hn
      exact ⟨x1, rewardsGoat_nonneg _ x2, rewardsGas_nonneg _ x2, Int.le_refl _⟩

theorem run_nil (sl : State × Ledger) : run sl [] = sl := rfl
theorem run_cons (sl : State × Ledger) (op : Op) (ops : List Op) :
    run sl (op :: ops) = run ((apply sl.1 op).1, sl.2.add (apply sl.1 op).2) ops := rfl

/-- **History theorem (relative form).**  For every list of operations from every start state with
    distinct validator addresses and every start ledger: the differences
    `remain + goat + accruedGoat + queuedGoat + paidGoat − granted` and
    `gas + accruedGas + queuedGas + paidGas − gasIn` are preserved, the parameters never change, the
    accepted gas revenue only grows; and if the start state has no negative component, the initial
    reward is non-negative and all grants and voting powers of the history are non-negative, then no
    pool, accrued reward or queued payout of the final state is negative and the ledger only grows. -/
theorem history (ops : List Op) :
    ∀ (s0 : State) (L0 : Ledger), VKeys s0 →
      VKeys (run (s0, L0) ops).1 ∧ (run (s0, L0) ops).1.params = s0.params ∧
      goatTotal (run (s0, L0) ops).1 + (run (s0, L0) ops).2.paidGoat - (run (s0, L0) ops).2.granted
        = goatTotal s0 + L0.paidGoat - L0.granted ∧
      gasTotal (run (s0, L0) ops).1 + (run (s0, L0) ops).2.paidGas - (run (s0, L0) ops).2.gasIn
        = gasTotal s0 + L0.paidGas - L0.gasIn ∧
      L0.gasIn ≤ (run (s0, L0) ops).2.gasIn ∧
      (RNonNeg s0 → ParamsOK s0 → (∀ op ∈ ops, OpOK op) →
        RNonNeg (run (s0, L0) ops).1 ∧ L0.paidGoat ≤ (run (s0, L0) ops).2.paidGoat ∧
        L0.paidGas ≤ (run (s0, L0) ops).2.paidGas ∧ L0.granted ≤ (run (s0, L0) ops).2.granted) := by
  induction ops with
  | nil =>
    intro s0 L0 hk
    exact ⟨hk, rfl, rfl, rfl, Int.le_refl _, fun hn _ _ => ⟨hn, Int.le_refl _, Int.le_refl _, Int.le_refl _⟩⟩
  | cons op ops ih =>
    intro s0 L0 hk
    obtain ⟨a1, a2, a3, a4, a5, a6⟩ := apply_spec s0 op hk
    obtain ⟨b1, b2, b3, b4, b5, b6⟩ := ih (apply s0 op).1 (L0.add (apply s0 op).2) a1
    rw [run_cons]
    dsimp only
    rw [Ledger.add_paidGoat, Ledger.add_granted] at b3
    rw [Ledger.add_paidGas, Ledger.add_gasIn] at b4
    rw [Ledger.add_gasIn] at b5
    refine ⟨b1, b2.trans a2, ?_, ?_, ?_, ?_⟩
    · rw [b3]; omega
    · rw [b4]; omega
    · omega
    · intro hn hp hops
      obtain ⟨x1, x2, x3, x4⟩ := a6 hn hp (hops op List.mem_cons_self)
      have hp' : ParamsOK (apply s0 op).1 := by unfold ParamsOK; rw [a2]; exact hp
      obtain ⟨y1, y2, y3, y4⟩ := b6 x1 hp' (fun o ho => hops o (List.mem_cons_of_mem _ ho))
      rw [Ledger.add_paidGoat] at y2
      rw [Ledger.add_paidGas] at y3
      rw [Ledger.add_granted] at y4
      exact ⟨y1, by omega, by omega, by omega⟩

/-- **Reward accounting across histories (C12).**  If at the start
    `granted = remain + goat + Σ reward + claimed-queued goat + paid goat` and
    `gas fees = gas + Σ gasReward + claimed-queued gas + paid gas`, then after any interleaving of
    operations (failed ones included) both equations hold again: all reward value is accounted for. -/
theorem conservation (ops : List Op) (s0 : State) (L0 : Ledger) (hk : VKeys s0)
    (hgoat : L0.granted = s0.pool.remain + s0.pool.goat + accruedGoat s0 + queuedGoat s0 + L0.paidGoat)
    (hgas : L0.gasIn = s0.pool.gas + accruedGas s0 + queuedGas s0 + L0.paidGas) :
    let r := run (s0, L0) ops
    r.2.granted = r.1.pool.remain + r.1.pool.goat + accruedGoat r.1 + queuedGoat r.1 + r.2.paidGoat ∧
    r.2.gasIn = r.1.pool.gas + accruedGas r.1 + queuedGas r.1 + r.2.paidGas := by
  dsimp only
  obtain ⟨_, _, h3, h4, _, _⟩ := history ops s0 L0 hk
  unfold goatTotal at h3
  unfold gasTotal at h4
  constructor
  · omega
  · omega

/-- the combined form of the property text: granted funds plus reported gas fees equal the
    undistributed pools plus validators' unclaimed rewards plus claimed payouts (queued or paid) -/
theorem conservation_combined (ops : List Op) (s0 : State) (L0 : Ledger) (hk : VKeys s0)
    (hgoat : L0.granted = s0.pool.remain + s0.pool.goat + accruedGoat s0 + queuedGoat s0 + L0.paidGoat)
    (hgas : L0.gasIn = s0.pool.gas + accruedGas s0 + queuedGas s0 + L0.paidGas) :
    let r := run (s0, L0) ops
    r.2.granted + r.2.gasIn = pools r.1 + (accruedGoat r.1 + accruedGas r.1)
      + (queuedGoat r.1 + queuedGas r.1 + r.2.paidGoat + r.2.paidGas) := by
  obtain ⟨h1, h2⟩ := conservation ops s0 L0 hk hgoat hgas
  dsimp only at h1 h2 ⊢
  unfold pools
  omega

/-- **No pool or accrued reward is ever negative**: from a start state without negative components,
    with a non-negative initial reward, non-negative grants and voting powers. -/
theorem nonnegativity (ops : List Op) (s0 : State) (L0 : Ledger) (hk : VKeys s0) (hn : RNonNeg s0) (hp : ParamsOK s0)
    (hops : ∀ op ∈ ops, OpOK op) :
    let r := run (s0, L0) ops
    0 ≤ r.1.pool.goat ∧ 0 ≤ r.1.pool.gas ∧ 0 ≤ r.1.pool.remain ∧
    (∀ a v, vget r.1 a = some v → 0 ≤ v.reward ∧ 0 ≤ v.gasReward) ∧
    (∀ q ∈ r.1.qRewards, 0 ≤ q.goat ∧ 0 ≤ q.gas) ∧
    0 ≤ accruedGoat r.1 ∧ 0 ≤ accruedGas r.1 ∧ 0 ≤ queuedGoat r.1 ∧ 0 ≤ queuedGas r.1 ∧
    L0.paidGoat ≤ r.2.paidGoat ∧ L0.paidGas ≤ r.2.paidGas ∧ L0.granted ≤ r.2.granted ∧ L0.gasIn ≤ r.2.gasIn := by
  intro r
  obtain ⟨_, _, _, _, h5, h6⟩ := history ops s0 L0 hk
  obtain ⟨x1, x2, x3, x4⟩ := h6 hn hp hops
  exact ⟨x1.goat, x1.gas, x1.remain, fun a v hv => x1.vals.vget a v hv, x1.queued, x1.vals.accruedGoat, x1.vals.accruedGas,
    rewardsGoat_nonneg _ x1.queued, rewardsGas_nonneg _ x1.queued, x2, x3, x4, h5⟩

/-! ## distribution: per validator, proportionality, rounding dust -/

theorem distribute_go_pointwise (total : Int) :
    ∀ (votes : List VoteInfo) (s : State) (rg rr : Int) (s' : State) (rg' rr' : Int),
      distributeReward.go total votes s rg rr = .ok (s', rg', rr') →
      ∀ a val, vget s a = some val → ∃ val', vget s' a = some val' ∧
        val'.reward = val.reward + isum ((votes.filter (·.address == a)).map (goatShare s.pool total)) ∧
        val'.gasReward = val.gasReward + isum ((votes.filter (·.address == a)).map (gasShare s.pool total)) := by
  intro votes
  induction votes with
  | nil =>
    intro s rg rr s' rg' rr' h a val hv
    unfold distributeReward.go at h
    cases h
    exact ⟨val, hv, by simp, by simp⟩
  | cons v rest ih =>
    intro s rg rr s' rg' rr' h a val hv
    unfold distributeReward.go at h
    cases hv0 : vget s v.address with
    | none => rw [hv0] at h; cases h
    | some val0 =>
      rw [hv0] at h
      dsimp only at h
      have hgs : (if s.pool.gas ≠ 0 then ((mulTruncInt s.pool.gas.toNat (decQuoTruncate v.power.toNat total.toNat) : Nat) : Int) else 0)
          = gasShare s.pool total v := rfl
      have hrs : (if s.pool.goat ≠ 0 then ((mulTruncInt s.pool.goat.toNat (decQuoTruncate v.power.toNat total.toNat) : Nat) : Int) else 0)
          = goatShare s.pool total v := rfl
      rw [hgs, hrs] at h
      by_cases ha : v.address = a
      · subst ha
        rw [hv0] at hv
        cases hv
        obtain ⟨val', i1, i2, i3⟩ := ih _ _ _ s' rg' rr' h v.address _ (vget_vset_same _ _ _)
        rw [vset_pool] at i2 i3
        refine ⟨val', i1, ?_, ?_⟩
        · rw [i2]
          simp only [List.filter_cons, beq_self_eq_true, if_true, List.map_cons, isum_cons]
          omega
        · rw [i3]
          simp only [List.filter_cons, beq_self_eq_true, if_true, List.map_cons, isum_cons]
          omega
      · have hv1 : vget (vset s v.address
            { val0 with gasReward := val0.gasReward + gasShare s.pool total v, reward := val0.reward + goatShare s.pool total v }) a
            = some val := by rw [vget_vset_other _ _ _ _ ha]; exact hv
        obtain ⟨val', i1, i2, i3⟩ := ih _ _ _ s' rg' rr' h a val hv1
        rw [vset_pool] at i2 i3
        have hne : (v.address == a) = false := by simpa using ha
        refine ⟨val', i1, ?_, ?_⟩
        · rw [i2]; simp only [List.filter_cons, hne, Bool.false_eq_true, if_false]
        · rw [i3]; simp only [List.filter_cons, hne, Bool.false_eq_true, if_false]

/-- **distribution, per validator**: when a begin-block distributes, every validator's accrued
    amounts grow by exactly the shares of the vote infos carrying its address (validators without a
    vote info get nothing) -/
theorem distributeReward_validator (s s' : State) (height : Int) (votes : List VoteInfo)
    (h : distributeReward s height votes = .ok s') (hd : distributes height votes)
    (a : Bytes) (val : Validator) (hv : vget s a = some val) :
    ∃ val', vget s' a = some val' ∧
      val'.reward = val.reward + isum ((votes.filter (·.address == a)).map (goatShare s.pool (totalPower votes))) ∧
      val'.gasReward = val.gasReward + isum ((votes.filter (·.address == a)).map (gasShare s.pool (totalPower votes))) := by
  unfold distributeReward at h
  split at h
  · rename_i hlt; exact absurd hlt hd.1
  · split at h
    · rename_i hemp; rw [hd.2] at hemp; cases hemp
    · dsimp only at h
      split at h
      · cases h
      · split at h
        · cases h
        · cases h
        · rename_i s2 rg rr heq
          cases h
          exact distribute_go_pointwise _ votes s _ _ s2 rg rr heq a val hv

/-- one vote info per validator (as in a CometBFT commit): the validator of vote info `v` receives
    exactly `share pool total v.power` of each pool -/
theorem distributeReward_single (s s' : State) (height : Int) (votes : List VoteInfo)
    (h : distributeReward s height votes = .ok s') (hd : distributes height votes)
    (v : VoteInfo) (hone : votes.filter (·.address == v.address) = [v]) (val : Validator) (hv : vget s v.address = some val) :
    ∃ val', vget s' v.address = some val' ∧
      val'.reward = val.reward + share s.pool.goat (totalPower votes) v.power ∧
      val'.gasReward = val.gasReward + share s.pool.gas (totalPower votes) v.power := by
  obtain ⟨val', h1, h2, h3⟩ := distributeReward_validator s s' height votes h hd v.address val hv
  rw [hone] at h2 h3
  refine ⟨val', h1, ?_, ?_⟩
  · rw [h2]; simp [goatShare]
  · rw [h3]; simp [gasShare]

/-- **in proportion to voting power**: a share never exceeds the exact proportional amount
    `P·p/total` … -/
theorem share_le_proportional (P total p : Int) (hP : 0 ≤ P) (ht : 0 < total) (hp : 0 ≤ p) :
    share P total p * total ≤ P * p := by
  unfold share
  split
  · have h := C12.share_at_most_proportional P.toNat p.toNat total.toNat (by omega)
    have h' : ((mulTruncInt P.toNat (decQuoTruncate p.toNat total.toNat) * total.toNat : Nat) : Int) ≤ ((P.toNat * p.toNat : Nat) : Int) :=
      Int.ofNat_le.mpr h
    rw [Int.natCast_mul, Int.natCast_mul, Int.toNat_of_nonneg hP, Int.toNat_of_nonneg hp,
      Int.toNat_of_nonneg (Int.le_of_lt ht)] at h'
    exact h'
  · rw [Int.zero_mul]; exact Int.mul_nonneg hP hp

/-- … and misses it by less than `1 + P/10¹⁸`: `P·p·10¹⁸ < (share + 1)·10¹⁸·total + P·total` -/
theorem share_ge_proportional (P total p : Int) (hP : 0 < P) (ht : 0 < total) (hp : 0 ≤ p) :
    P * p * (e18 : Int) < (share P total p + 1) * (e18 : Int) * total + P * total := by
  unfold share
  rw [if_pos (by omega)]
  have h := share_lower P.toNat p.toNat total.toNat (by omega)
  have h' := Int.ofNat_lt.mpr h
  simp only [Int.natCast_add, Int.natCast_mul, Int.toNat_of_nonneg (Int.le_of_lt hP), Int.toNat_of_nonneg hp,
    Int.toNat_of_nonneg (Int.le_of_lt ht), Int.natCast_one] at h'
  exact h'

/-- **rounding dust**: what a distribution among `n` vote infos leaves of a pool `P` is less than
    `n·(1 + P/10¹⁸)`; in particular less than `n` base units per 10¹⁸ … (see the counterexample to
    "dust < n" below) -/
theorem dust_bound (P : Int) (hP : 0 ≤ P) (votes : List VoteInfo) (hpow : ∀ v ∈ votes, 0 ≤ v.power)
    (ht : totalPower votes ≠ 0) :
    (P - isum (votes.map (fun v => share P (totalPower votes) v.power))) * (e18 : Int)
      < (votes.length : Int) * ((e18 : Int) + P) := by
  have hT : totalPower votes = isum (votes.map (·.power)) := by
    unfold totalPower; rw [foldl_add_eq]; omega
  have hnn : ∀ x ∈ votes.map (·.power), 0 ≤ x := by
    intro x hx
    obtain ⟨v, hv, rfl⟩ := List.mem_map.mp hx
    exact hpow v hv
  have hTn : (totalPower votes).toNat = (votes.map (fun v => v.power.toNat)).sum := by
    rw [hT, toNat_isum _ hnn, List.map_map]; rfl
  have hTpos : 0 < (votes.map (fun v => v.power.toNat)).sum := by
    have := isum_nonneg _ hnn
    rw [← hTn]; omega
  have hlen : 0 < votes.length := by
    cases votes with
    | nil => simp at hTpos
    | cons a as => simp
  have hE : (0 : Int) < (e18 : Int) := Int.natCast_pos.mpr e18_pos
  by_cases hz : P = 0
  · subst hz
    have h0 : ∀ v : VoteInfo, share 0 (totalPower votes) v.power = 0 := by
      intro v; unfold share; rw [if_neg (by simp)]
    simp only [h0, isum_map_zero]
    have : (0 : Int) < (votes.length : Int) * ((e18 : Int) + 0) := by
      rw [Int.add_zero]; exact Int.mul_pos (by omega) hE
    simpa using this
  · have hsh : ∀ v : VoteInfo, share P (totalPower votes) v.power
        = ((mulTruncInt P.toNat (decQuoTruncate v.power.toNat (votes.map (fun v => v.power.toNat)).sum) : Nat) : Int) := by
      intro v; unfold share; rw [if_pos hz, hTn]
    simp only [hsh]
    rw [isum_map_natCast]
    have key := dust_lt P.toNat (votes.map (fun v => v.power.toNat)) hTpos
    rw [List.map_map, List.length_map] at key
    have hcomp : (Function.comp (fun p => mulTruncInt P.toNat (decQuoTruncate p (votes.map (fun v => v.power.toNat)).sum))
        (fun v : VoteInfo => v.power.toNat))
        = (fun v : VoteInfo => mulTruncInt P.toNat (decQuoTruncate v.power.toNat (votes.map (fun v => v.power.toNat)).sum)) := rfl
    rw [hcomp] at key
    generalize (votes.map (fun v : VoteInfo => mulTruncInt P.toNat (decQuoTruncate v.power.toNat (votes.map (fun v => v.power.toNat)).sum))).sum = S at key ⊢
    have key' := Int.ofNat_lt.mpr key
    simp only [Int.natCast_add, Int.natCast_mul, Int.toNat_of_nonneg hP] at key'
    generalize (e18 : Int) = E at key' ⊢
    rw [Int.sub_mul]
    omega

/-- the dust left in the pools by a successful distribution -/
theorem distributeReward_dust (s s' : State) (height : Int) (votes : List VoteInfo) (hk : VKeys s)
    (h : distributeReward s height votes = .ok s') (hd : distributes height votes)
    (hpow : ∀ v ∈ votes, 0 ≤ v.power) (hgas : 0 ≤ s.pool.gas) (hgoat : 0 ≤ s.pool.goat) :
    0 ≤ s'.pool.gas ∧ s'.pool.gas * (e18 : Int) < (votes.length : Int) * ((e18 : Int) + s.pool.gas) ∧
    0 ≤ s'.pool.goat ∧ s'.pool.goat * (e18 : Int) < (votes.length : Int) * ((e18 : Int) + s.pool.goat) := by
  obtain ⟨_, _, _, _, d5, d6, _, _, _, d10⟩ := distributeReward_spec s s' height votes hk h
  obtain ⟨b1, b2, b3, b4⟩ := dist_bounds s height votes hpow d10 hgas hgoat
  have g := dust_bound s.pool.gas hgas votes hpow (d10 hd)
  have r := dust_bound s.pool.goat hgoat votes hpow (d10 hd)
  have hg1 : distGas s height votes = isum (votes.map (fun v => share s.pool.gas (totalPower votes) v.power)) := by
    unfold distGas; rw [if_pos hd]; rfl
  have hr1 : distGoat s height votes = isum (votes.map (fun v => share s.pool.goat (totalPower votes) v.power)) := by
    unfold distGoat; rw [if_pos hd]; rfl
  rw [← hg1] at g
  rw [← hr1] at r
  rw [d5, d6]
  exact ⟨by omega, g, by omega, r⟩

/-- "the dust is less than the number of validators" is **false** for amounts above 10¹⁸ base
    units: a pool of 10¹⁹ shared among 6 equal powers leaves 40 -/
theorem dust_not_below_count :
    ∃ (P : Nat) (ps : List Nat), 0 < ps.sum ∧
      ¬ (P - (ps.map (fun p => mulTruncInt P (decQuoTruncate p ps.sum))).sum < ps.length) := by
  refine ⟨10000000000000000000, [100, 100, 100, 100, 100, 100], ?_⟩
  decide +kernel

/-! ## from an initial state -/

theorem isum_map_eq_zero {α : Type} (f : α → Int) (l : List α) (h : ∀ x ∈ l, f x = 0) : isum (l.map f) = 0 := by
  induction l with
  | nil => rfl
  | cons x xs ih =>
    rw [List.map_cons, isum_cons, h x List.mem_cons_self, ih (fun y hy => h y (List.mem_cons_of_mem _ hy))]; rfl

/-- **C12 from an initial state** with pools `(goat, gas, remain) = (0, 0, R)` (`R`: the genesis
    grant), nothing accrued and nothing queued, and an empty ledger: after any history

      granted + R = remain + goat + Σ reward    + queued goat + paid goat
      gas fees    = gas           + Σ gasReward + queued gas  + paid gas

    and — for `R ≥ 0`, a non-negative initial reward, non-negative grants and voting powers — every
    term is non-negative. -/
theorem conservation_from_initial (s0 : State) (R : Int) (hk : VKeys s0) (hpool : s0.pool = ⟨0, 0, R⟩)
    (hq : s0.qRewards = []) (hz : ∀ e ∈ s0.validators, e.2.reward = 0 ∧ e.2.gasReward = 0) (ops : List Op) :
    let r := run (s0, Ledger.zero) ops
    (r.2.granted + R = r.1.pool.remain + r.1.pool.goat + accruedGoat r.1 + queuedGoat r.1 + r.2.paidGoat ∧
     r.2.gasIn = r.1.pool.gas + accruedGas r.1 + queuedGas r.1 + r.2.paidGas) ∧
    (0 ≤ R → ParamsOK s0 → (∀ op ∈ ops, OpOK op) →
      0 ≤ r.1.pool.remain ∧ 0 ≤ r.1.pool.goat ∧ 0 ≤ r.1.pool.gas ∧
      (∀ a v, vget r.1 a = some v → 0 ≤ v.reward ∧ 0 ≤ v.gasReward) ∧
      0 ≤ accruedGoat r.1 ∧ 0 ≤ accruedGas r.1 ∧ 0 ≤ queuedGoat r.1 ∧ 0 ≤ queuedGas r.1 ∧
      0 ≤ r.2.paidGoat ∧ 0 ≤ r.2.paidGas ∧ 0 ≤ r.2.granted ∧ 0 ≤ r.2.gasIn) := by
  dsimp only
  have ha1 : accruedGoat s0 = 0 := by
    rw [accruedGoat_eq]; exact isum_map_eq_zero _ _ (fun e he => (hz e he).1)
  have ha2 : accruedGas s0 = 0 := by
    rw [accruedGas_eq]; exact isum_map_eq_zero _ _ (fun e he => (hz e he).2)
  have hq1 : queuedGoat s0 = 0 := by unfold queuedGoat; rw [hq]; rfl
  have hq2 : queuedGas s0 = 0 := by unfold queuedGas; rw [hq]; rfl
  obtain ⟨_, _, h3, h4, _, _⟩ := history ops s0 Ledger.zero hk
  unfold goatTotal at h3
  unfold gasTotal at h4
  rw [ha1, hq1, hpool] at h3
  rw [ha2, hq2, hpool] at h4
  have z1 : Ledger.zero.paidGoat = 0 := rfl
  have z2 : Ledger.zero.granted = 0 := rfl
  have z3 : Ledger.zero.paidGas = 0 := rfl
  have z4 : Ledger.zero.gasIn = 0 := rfl
  rw [z1, z2] at h3
  rw [z3, z4] at h4
  dsimp only at h3 h4
  refine ⟨⟨by omega, by omega⟩, ?_⟩
  intro hR hp hops
  have hn : RNonNeg s0 := by
    refine ⟨by rw [hpool]; exact Int.le_refl _, by rw [hpool]; exact Int.le_refl _, by rw [hpool]; exact hR, ?_, ?_⟩
    · intro e he
      obtain ⟨e0, he0, rfl⟩ := List.mem_map.mp he
      obtain ⟨z1, z2⟩ := hz e0 he0
      show 0 ≤ e0.2.reward ∧ 0 ≤ e0.2.gasReward
      rw [z1, z2]; exact ⟨Int.le_refl _, Int.le_refl _⟩
    · rw [hq]; intro r hr; cases hr
  obtain ⟨n1, n2, n3, n4, _, n6, n7, n8, n9, n10, n11, n12, n13⟩ := nonnegativity ops s0 Ledger.zero hk hn hp hops
  exact ⟨n3, n1, n2, n4, n6, n7, n8, n9, n10, n11, n12, n13⟩

/-- the state before anything happened: no validators, empty queues, the genesis grant `R` -/
def genesis (p : Params) (R : Int) : State := { C11H.genesis p with pool := ⟨0, 0, R⟩ }

theorem genesis_vkeys (p : Params) (R : Int) : VKeys (genesis p R) := by
  rw [vkeys_iff]; exact List.nodup_nil

/-- **C12 from genesis** -/
theorem conservation_from_genesis (p : Params) (R : Int) (ops : List Op) :
    let r := run (genesis p R, Ledger.zero) ops
    (r.2.granted + R = r.1.pool.remain + r.1.pool.goat + accruedGoat r.1 + queuedGoat r.1 + r.2.paidGoat ∧
     r.2.gasIn = r.1.pool.gas + accruedGas r.1 + queuedGas r.1 + r.2.paidGas) ∧
    (0 ≤ R → 0 ≤ p.initialReward → (∀ op ∈ ops, OpOK op) →
      0 ≤ r.1.pool.remain ∧ 0 ≤ r.1.pool.goat ∧ 0 ≤ r.1.pool.gas ∧
      (∀ a v, vget r.1 a = some v → 0 ≤ v.reward ∧ 0 ≤ v.gasReward) ∧
      0 ≤ accruedGoat r.1 ∧ 0 ≤ accruedGas r.1 ∧ 0 ≤ queuedGoat r.1 ∧ 0 ≤ queuedGas r.1 ∧
      0 ≤ r.2.paidGoat ∧ 0 ≤ r.2.paidGas ∧ 0 ≤ r.2.granted ∧ 0 ≤ r.2.gasIn) :=
  conservation_from_initial (genesis p R) R (genesis_vkeys p R) rfl rfl (fun e he => by cases he) ops

/-- the two histories coincide on the state: C11H and C12H speak about the same runs -/
theorem run_state (denomOf : Bytes → String) (ops : List Op) : ∀ (s : State) (L : Ledger) (L' : C11H.Ledger),
    (run (s, L) ops).1 = (C11H.run denomOf (s, L') ops).1 := by
  induction ops with
  | nil => intro s L L'; rfl
  | cons op ops ih =>
    intro s L L'
    rw [run_cons, C11H.run_cons]
    dsimp only
    rw [apply_state denomOf s op]
    exact ih _ _ _

/-! ## small corollaries -/

/-- the emission is `min(scheduled reward, remaining grant)`; with `C12.scheduled_eq` the scheduled
    reward is the initial reward floor-halved once per elapsed halving interval -/
theorem emitted_eq_min (p : Params) (height remain : Int) :
    emitted p height remain = min (scheduledReward p height) remain := by
  unfold emitted; split <;> omega

/-- with no vote infos nothing moves -/
theorem distributeReward_no_votes (s : State) (height : Int) : distributeReward s height [] = .ok s := by
  unfold distributeReward
  split
  · rfl
  · rfl

/-- a failed operation leaves state and ledger unchanged -/
theorem apply_failed (s : State) :
    (∀ hash160 hasAccount height now r, (∀ x, processRequests hash160 hasAccount s height now r ≠ .ok x) →
      apply s (.process hash160 hasAccount height now r) = (s, Ledger.zero)) ∧
    (∀ height now votes maxAge evs, (∀ x, beginBlock s height now votes maxAge evs ≠ .ok x) →
      apply s (.beginBlock height now votes maxAge evs) = (s, Ledger.zero)) ∧
    ((∀ x, endBlocker s ≠ .ok x) → apply s .endBlocker = (s, Ledger.zero)) := by
  refine ⟨?_, ?_, ?_⟩
  · intro hash160 hasAccount height now r h
    show applyProcess hash160 hasAccount s height now r = _
    unfold applyProcess
    split
    · rename_i s' a heq; exact absurd heq (h _)
    · rfl
  · intro height now votes maxAge evs h
    show applyBeginBlock s height now votes maxAge evs = _
    unfold applyBeginBlock
    split
    · rename_i s' heq; exact absurd heq (h _)
    · rfl
  · intro h
    show applyEndBlocker s = _
    unfold applyEndBlocker
    split
    · rename_i s' a heq; exact absurd heq (h _)
    · rfl

/-! ## non-vacuity: a concrete history -/

namespace Example

def params : Params :=
  { unlockDuration := 10, exitingDuration := 20, downtimeJail := 5, maxValidators := 10, signedBlocksWindow := 100,
    maxMissed := 50, slashDoubleSign := 50000000000000000, slashDowntime := 10000000000000000,
    halvingInterval := 1000, initialReward := 100 }

def votes3 : List VoteInfo := [⟨[1], 1, false⟩, ⟨[2], 1, false⟩, ⟨[3], 1, false⟩]

/-- block 1: gas revenue 10, a grant of 1000, three validators created (emission: 100 into the goat pool);
    begin of block 2: the pools (100 goat, 10 gas) are shared among three equal powers:
      33 / 3 each, rounding dust 1 / 1 stays;
    block 2: emission of another 100; validator `[1]` claims twice in the same batch;
    end block; hand-over of the queued rewards -/
def ops : List Op :=
  [ .process id (fun _ => false) 1 50
      { gas := [10], grants := [1000],
        creates := [{ validator := [1], compressed := [1] }, { validator := [2], compressed := [2] },
                    { validator := [3], compressed := [3] }] },
    .beginBlock 2 60 votes3 none [],
    .process id (fun _ => false) 2 60
      { gas := [0], claims := [{ id := 7, validator := [1], recipient := [9] }, { id := 8, validator := [1], recipient := [9] }] },
    .endBlocker,
    .dequeue ]

def start : State × Ledger := (genesis params 0, Ledger.zero)
def final : State × Ledger := run start ops

/-- after block 1: the grant is 900 after the emission of min(1000, 100) = 100 -/
example : (run start (ops.take 1)).1.pool = ⟨100, 10, 900⟩ ∧ (run start (ops.take 1)).2 = ⟨1000, 10, 0, 0⟩ := by
  decide +kernel

/-- after the distribution: 33 / 3 for each of the three validators, dust 1 / 1 in the pools -/
example : (run start (ops.take 2)).1.pool = ⟨1, 1, 900⟩ ∧
    (run start (ops.take 2)).1.validators.map (fun e => (e.1, e.2.reward, e.2.gasReward))
      = [([1], 33, 3), ([2], 33, 3), ([3], 33, 3)] ∧
    accruedGoat (run start (ops.take 2)).1 = 99 ∧ accruedGas (run start (ops.take 2)).1 = 9 := by
  decide +kernel

/-- after block 2: the first claim queues exactly the accrued (33, 3), the second claim of the same
    validator queues (0, 0); the validator's accrued amounts are reset -/
example : (run start (ops.take 3)).1.qRewards = [⟨7, [9], 33, 3⟩, ⟨8, [9], 0, 0⟩] ∧
    (run start (ops.take 3)).1.pool = ⟨101, 1, 800⟩ ∧
    (run start (ops.take 3)).1.validators.map (fun e => (e.1, e.2.reward, e.2.gasReward))
      = [([1], 0, 0), ([2], 33, 3), ([3], 33, 3)] := by
  decide +kernel

/-- the history runs through and ends with
    granted 1000 = remain 800 + goat 101 + accrued 66 + queued 0 + paid 33,
    gas fees 10 = gas 1 + accrued 6 + queued 0 + paid 3 -/
example : final.2 = ⟨1000, 10, 33, 3⟩ ∧ final.1.pool = ⟨101, 1, 800⟩ ∧ accruedGoat final.1 = 66 ∧
    accruedGas final.1 = 6 ∧ queuedGoat final.1 = 0 ∧ queuedGas final.1 = 0 ∧ final.1.qRewards = [] := by
  decide +kernel

theorem ops_ok : ∀ op ∈ ops, OpOK op := by
  intro op hop
  simp only [ops, List.mem_cons, List.mem_nil_iff, or_false] at hop
  rcases hop with rfl | rfl | rfl | rfl | rfl
  · intro x hx
    simp only [List.mem_singleton] at hx
    subst hx; decide
  · intro v hv
    simp only [votes3, List.mem_cons, List.mem_nil_iff, or_false] at hv
    rcases hv with rfl | rfl | rfl <;> decide
  · intro x hx; cases hx
  · trivial
  · trivial

/-- the hypotheses of the history theorems hold for this history: the theorems apply to it -/
example : final.2.granted + 0 = final.1.pool.remain + final.1.pool.goat + accruedGoat final.1 + queuedGoat final.1
    + final.2.paidGoat ∧ final.2.gasIn = final.1.pool.gas + accruedGas final.1 + queuedGas final.1 + final.2.paidGas :=
  (conservation_from_genesis params 0 ops).1

example : 0 ≤ final.1.pool.goat ∧ 0 ≤ accruedGoat final.1 :=
  let h := (conservation_from_genesis params 0 ops).2 (by decide) (by decide) ops_ok
  ⟨h.2.1, h.2.2.2.2.1⟩

/-- the schedule: the initial reward halved once per elapsed halving interval -/
example : scheduledReward params 999 = 100 ∧ scheduledReward params 1000 = 50 ∧ scheduledReward params 2500 = 25 ∧
    scheduledReward params 7000 = 0 := by decide +kernel

/-- the emission is capped by the remaining grant: a grant of 30 is emitted completely -/
example :
    (match updateRewardPool (genesis params 0) 1 [0] [30] with
      | .ok s' => (s'.pool.goat, s'.pool.gas, s'.pool.remain)
      | _ => (-1, -1, -1)) = (30, 0, 0) := by decide +kernel

/-- a claim in a later block (no distribution in between) pays (0, 0) again; a claim for an unknown
    validator fails and, as a failed operation, changes nothing -/
example :
    (match claim final.1 [{ id := 9, validator := [1], recipient := [9] }] with
      | .ok s' => s'.qRewards
      | _ => []) = [⟨9, [9], 0, 0⟩] ∧
    (claim final.1 [{ id := 9, validator := [4], recipient := [9] }]).cls = "err:not-found" ∧
    (apply final.1 (.process id (fun _ => false) 3 70 { gas := [5], claims := [{ id := 9, validator := [4], recipient := [9] }] })).2
      = Ledger.zero ∧
    (apply final.1 (.process id (fun _ => false) 3 70 { gas := [5], claims := [{ id := 9, validator := [4], recipient := [9] }] })).1.pool
      = final.1.pool := by decide +kernel

/-- negative gas revenue is ignored (`Sign() > 0`), exactly one gas request is required -/
example :
    (match updateRewardPool final.1 3 [-5] [] with
      | .ok s' => s'.pool.gas
      | _ => -1) = 1 ∧
    (updateRewardPool final.1 3 [] []).cls = "err:gas-length" ∧
    (updateRewardPool final.1 3 [1, 2] []).cls = "err:gas-length" := by decide +kernel

/-- `OpOK` (grants) is needed for non-negativity: the model — like `pool.Remain.Add` in the Go code —
    accepts a negative grant amount (grants are `uint256` on the execution layer, so this cannot
    be reached); conservation still holds -/
example :
    let r := run start [.process id (fun _ => false) 1 50 { gas := [0], grants := [-5] }]
    r.1.pool = ⟨-5, 0, 0⟩ ∧ r.2.granted = -5 := by decide +kernel

/-- `OpOK` (voting powers) is needed for non-negativity: a negative power with a positive total lets
    the shares exceed the pool (CometBFT powers are non-negative) -/
example :
    let r := run start [ops[0], .beginBlock 2 60 [⟨[1], 3, false⟩, ⟨[2], -1, false⟩] none []]
    r.1.pool = ⟨-50, -5, 900⟩ ∧ accruedGoat r.1 = 150 ∧ accruedGas r.1 = 15 := by decide +kernel

/-- `ParamsOK` is needed for non-negativity (`Params.Validate` demands `InitialBlockReward ≥ 1`): a
    negative initial reward drains the goat pool into the grant -/
example :
    let r := run (genesis { params with initialReward := -7 } 0, Ledger.zero)
      [.process id (fun _ => false) 1 50 { gas := [0], grants := [10] }]
    r.1.pool = ⟨-7, 0, 17⟩ := by decide +kernel

/-- `VKeys` is needed (model artefact: association lists): with a duplicated validator key one claim
    resets both entries but pays one -/
example :
    let v : Validator := { pubkey := [1], power := 0, locking := [], reward := 5, gasReward := 0, status := .inactive,
                           offset := 0, missed := 0, jailedUntil := 0 }
    let s : State := { genesis params 0 with validators := [([1], v), ([1], v)] }
    accruedGoat s = 10 ∧
    (match claim s [{ id := 1, validator := [1], recipient := [9] }] with
      | .ok s' => (accruedGoat s', queuedGoat s')
      | _ => (-1, -1)) = (0, 5) := by decide +kernel

end Example

end Goat.C12H
