/-
  C14 — downtime jails and slashes once; double-signing tombstones for good.
-/
import GoatModel.Locking
import GoatProofs.Lemmas.Locking
namespace Goat.C14
open Goat.Locking

/-- **Validators that are not active are not counted for downtime** (and are not slashed again):
    a vote record for a non-active validator changes nothing at all. -/
theorem non_active_not_counted (s : State) (now : Int) (vi : VoteInfo) (v : Validator)
    (hv : vget s vi.address = some v) (hs : v.status ≠ .active) : handleVote s now vi = .ok s := by
  unfold handleVote
  simp [hv, hs]

/-- **Downtime, exactly.** For an active validator a vote record demotes it iff the absences of the
    current window (including this one) reach the configured maximum; then its power is 0, its status
    is `downgrade`, it is jailed until now + jail duration and it is out of the ranking; otherwise only
    its counters move. -/
theorem downtime_exact (s s' : State) (now : Int) (vi : VoteInfo) (v : Validator)
    (hv : vget s vi.address = some v) (hs : v.status = .active) (hok : handleVote s now vi = .ok s') :
    let missed := if vi.absent then v.missed + 1 else v.missed
    ∃ v', vget s' vi.address = some v' ∧
      (if (missed : Int) ≥ s.params.maxMissed then
          v'.status = .downgrade ∧ v'.power = 0 ∧ v'.jailedUntil = now + s.params.downtimeJail ∧
          (v.power, vi.address) ∉ s'.ranking ∧ s'.valset = s.valset
       else v'.status = .active ∧ v'.power = v.power ∧ v'.locking = v.locking ∧ s'.ranking = s.ranking) := by
  unfold handleVote at hok
  simp only [hv, hs, ne_eq, not_true_eq_false, if_false] at hok
  by_cases hd : ((if vi.absent = true then v.missed + 1 else v.missed : Nat) : Int) ≥ s.params.maxMissed
  · simp only [hd, if_true] at hok
    cases hok
    refine ⟨_, vget_vset_same _ _ _, ?_⟩
    simp only [hd, if_true, vset_ranking, vset_valset, true_and]
    refine ⟨?_, ?_⟩
    · rw [(slashAll_frame _ _ _ _).2.1]; exact rankRemove_not_mem s v.power vi.address
    · rw [(slashAll_frame _ _ _ _).2.2]; rfl
  · simp only [hd, if_false] at hok
    cases hok
    refine ⟨_, vget_vset_same _ _ _, ?_⟩
    simp only [hd, if_false, vset_ranking, and_true]

/-- **Fresh evidence slashes and tombstones**: unexpired duplicate-vote / light-client-attack
    evidence against a validator that is not yet tombstoned leaves it tombstoned with power 0 and out
    of the ranking. -/
theorem evidence_tombstones (s s' : State) (now height : Int) (maxAge : Option (Int × Int)) (e : Evidence) (v : Validator)
    (hk : e.kind = 1 ∨ e.kind = 2) (hfresh : isStale now height maxAge e = false)
    (hv : vget s e.address = some v) (hs : v.status ≠ .tombstoned)
    (hok : handleEvidence s now height maxAge e = .ok s') :
    ∃ v', vget s' e.address = some v' ∧ v'.status = .tombstoned ∧ v'.power = 0 ∧ (v.power, e.address) ∉ s'.ranking := by
  unfold handleEvidence at hok
  have hk' : ¬ (e.kind ≠ 1 ∧ e.kind ≠ 2) := by omega
  have hs' : (v.status == Status.tombstoned) = false := by
    cases hvs : v.status <;> simp_all
  simp only [hk', if_false, hfresh, Bool.false_eq_true, hv, hs'] at hok
  cases hok
  refine ⟨_, vget_vset_same _ _ _, rfl, rfl, ?_⟩
  rw [vset_ranking, (slashAll_frame _ _ _ _).2.1]
  exact rankRemove_not_mem s v.power e.address

/-- "older than both age limits" spelled out -/
theorem isStale_iff (now height d b : Int) (e : Evidence) :
    isStale now height (some (d, b)) e = true ↔ (now - e.time > d ∧ height - e.height > b) := by
  unfold isStale; simp

/-- **Stale evidence is ignored**: evidence older than *both* age limits changes nothing. -/
theorem stale_evidence_ignored (s : State) (now height : Int) (maxAge : Option (Int × Int)) (e : Evidence)
    (h : isStale now height maxAge e = true) : handleEvidence s now height maxAge e = .ok s := by
  unfold handleEvidence
  by_cases hk : e.kind ≠ 1 ∧ e.kind ≠ 2
  · simp [hk]
  · simp [hk, h]

/-- evidence against an already tombstoned validator changes nothing (slashed exactly once) -/
theorem tombstoned_not_slashed_again (s : State) (now height : Int) (maxAge : Option (Int × Int)) (e : Evidence) (v : Validator)
    (hv : vget s e.address = some v) (hs : v.status = .tombstoned) : handleEvidence s now height maxAge e = .ok s := by
  unfold handleEvidence
  by_cases hk : e.kind ≠ 1 ∧ e.kind ≠ 2
  · simp [hk]
  · simp only [hk, if_false]
    split
    · rfl
    · simp [hv, hs]

/-- **Tombstoning is absorbing under locks**: whatever is locked to a tombstoned validator later, it
    stays tombstoned, gains no power and does not enter the ranking or the recorded set. -/
theorem tombstone_absorbing_lock (s s' : State) (now : Int) (a : Bytes) (coins : Coins) (v : Validator)
    (hv : vget s a = some v) (hs : v.status = .tombstoned) (hok : lockOne s now a coins = .ok s') :
    ∃ v', vget s' a = some v' ∧ v'.status = .tombstoned ∧ v'.power = v.power ∧ s'.ranking = s.ranking ∧ s'.valset = s.valset := by
  unfold lockOne at hok
  simp only [hv] at hok
  split at hok
  · cases hok
  · simp only [hs] at hok
    cases hok
    exact ⟨_, vget_vset_same _ _ _, rfl, rfl, by simp, by simp⟩

end Goat.C14
