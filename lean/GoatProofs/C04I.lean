/-
  C04 — why position binding is stated "… or a collision is exhibited".
  The idealisation "outputs are 32 bytes and the hash is injective on 64-byte inputs" is met by NO function
  (256^64 inputs, 256^32 outputs): a theorem assuming it would say nothing.  Proved here by the pigeonhole
  lemma of C01S, so that the choice of statement in GoatProofs/C04.lean is itself machine-checked.
-/
import GoatProofs.C04
import GoatProofs.C01S
namespace Goat.C04
open Goat.C01S

/-- **no function meets the idealisation**: every `H` with 32-byte outputs has a collision on 64-byte inputs -/
theorem collision64_exists (H : Bytes → Bytes) (hH : Out32 H) : Collision64 H := by
  apply Classical.byContradiction
  intro hno
  have hlt : 256 ^ 32 < 256 ^ 64 := by decide
  apply no_injection_succ (256 ^ 32) (fun k => leToNat (H (leBytes 64 k)))
  · intro i _
    have := leToNat_lt (H (leBytes 64 i))
    rwa [hH] at this
  · intro i j hi hj e
    have e2 : H (leBytes 64 i) = H (leBytes 64 j) := by
      have := congrArg (leBytes 32) e
      rw [← leBytes_leToNat (H (leBytes 64 i)), ← leBytes_leToNat (H (leBytes 64 j)), hH, hH]
      exact this
    apply Classical.byContradiction
    intro hne
    apply hno
    refine ⟨leBytes 64 i, leBytes 64 j, leBytes_length _ _, leBytes_length _ _, ?_, e2⟩
    intro he
    exact hne (leBytes_injective (k := 64) (by omega) (by omega) he)

theorem idealHash_unsatisfiable (H : Bytes → Bytes) : ¬ IdealHash H :=
  fun h => h.no_collision (collision64_exists H h.out32)

end Goat.C04
