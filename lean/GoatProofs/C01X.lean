/-
  C01 / C02 — the sign document binds its fields, with the collision made EXPLICIT.

  `C01S` states "equal documents ⇒ equal fields, or `Collision sha256`" (some two different inputs with the same
  hash).  For an abstract hash this is a genuine reduction, but for any hash with fixed-length outputs the second
  disjunct is true anyway (pigeonhole, `no_injective_fixed_length`), so a reader may ask what the disjunction says.
  Here the collision is named: it is the pair of the two documents' own pre-images (and, for the messages that embed a
  transaction digest, possibly the two transactions).  Whoever gets a vote for one message accepted for another has
  *these* two byte strings in hand, and they collide.
-/
import GoatProofs.C01S
namespace Goat.C01X
open Goat Goat.Relayer Goat.C01S

/-- `x` and `y` are a collision of `f` -/
def CollisionAt (f : Bytes → Bytes) (x y : Bytes) : Prop := x ≠ y ∧ f x = f y

theorem CollisionAt.collision {f x y} (h : CollisionAt f x y) : Collision f := ⟨x, y, h.1, h.2⟩

theorem eq_or_collisionAt (f : Bytes → Bytes) {x y : Bytes} (h : f x = f y) : x = y ∨ CollisionAt f x y :=
  if e : x = y then Or.inl e else Or.inr ⟨e, h⟩

/-- **the sign document binds sequence, epoch, action, proposer and payload — or the two pre-images collide** -/
theorem signDoc_binds_explicit (c : Crypto) {m m' : String} {d d' : Bytes}
    (hm : m ∈ methods) (hm' : m' ∈ methods)
    (hp : (strBytes p).length = (strBytes p').length)
    (hs : seq < two64) (hs' : seq' < two64) (he : epoch < two64) (he' : epoch' < two64)
    (h : voteSignDoc c m chain p seq epoch d = voteSignDoc c m' chain p' seq' epoch' d') :
    (seq = seq' ∧ epoch = epoch' ∧ m = m' ∧ p = p' ∧ d = d') ∨
      CollisionAt c.sha256 (preimage chain m p seq epoch d) (preimage chain m' p' seq' epoch' d') := by
  rcases eq_or_collisionAt c.sha256 (x := preimage chain m p seq epoch d)
      (y := preimage chain m' p' seq' epoch' d') h with e | col
  · exact Or.inl (preimage_injective hm hm' hp hs hs' he he' e)
  · exact Or.inr col

/-- the same over all six documents (bridge actions and the voter's proof of possession) -/
theorem signDoc_binds_all_explicit (c : Crypto) {m m' : String} {d d' : Bytes}
    (hm : m ∈ allMethods) (hm' : m' ∈ allMethods)
    (hp : (strBytes p).length = (strBytes p').length)
    (hs : seq < two64) (hs' : seq' < two64) (he : epoch < two64) (he' : epoch' < two64)
    (h : voteSignDoc c m chain p seq epoch d = voteSignDoc c m' chain p' seq' epoch' d') :
    (seq = seq' ∧ epoch = epoch' ∧ m = m' ∧ p = p' ∧ d = d') ∨
      CollisionAt c.sha256 (preimage chain m p seq epoch d) (preimage chain m' p' seq' epoch' d') := by
  rcases eq_or_collisionAt c.sha256 (x := preimage chain m p seq epoch d)
      (y := preimage chain m' p' seq' epoch' d') h with e | col
  · exact Or.inl (preimage_injective_all hm hm' hp hs hs' he he' e)
  · exact Or.inr col

/-- a vote signed for another chain id of the same length never verifies here — or the pre-images collide -/
theorem signDoc_binds_chain_explicit (c : Crypto) {m : String} {d : Bytes} {chain chain' : String}
    (hc : (strBytes chain).length = (strBytes chain').length)
    (h : voteSignDoc c m chain p seq epoch d = voteSignDoc c m chain' p seq epoch d) :
    strBytes chain = strBytes chain' ∨
      CollisionAt c.sha256 (preimage chain m p seq epoch d) (preimage chain' m p seq epoch d) := by
  rcases eq_or_collisionAt c.sha256 (x := preimage chain m p seq epoch d)
      (y := preimage chain' m p seq epoch d) h with e | col
  · left
    unfold preimage at e
    simp only [List.append_assoc] at e
    exact (List.append_inj e hc).1
  · exact Or.inr col

/-- ProcessWithdrawal: equal documents ⇒ the same ids in the same order, the same fee and the same transaction — or
    the two pre-images collide, or the two transactions do -/
theorem processWithdrawal_doc_binds_explicit (c : Crypto) (hlen : ∀ x, (c.sha256 x).length = 32)
    (hp : (strBytes p).length = (strBytes p').length)
    (hs : seq < two64) (hs' : seq' < two64) (he : epoch < two64) (he' : epoch' < two64)
    {ids ids' : List Nat} {tx tx' : Bytes} {fee fee' : Nat}
    (hi : ∀ i ∈ ids, i < two64) (hi' : ∀ i ∈ ids', i < two64) (hf : fee < two64) (hf' : fee' < two64)
    (h : voteSignDoc c "Bitcoin/ProcessWithdrawal" chain p seq epoch ((ids.map le64).flatten ++ c.sha256 tx ++ le64 fee)
       = voteSignDoc c "Bitcoin/ProcessWithdrawal" chain p' seq' epoch' ((ids'.map le64).flatten ++ c.sha256 tx' ++ le64 fee')) :
    (seq = seq' ∧ epoch = epoch' ∧ p = p' ∧ ids = ids' ∧ fee = fee' ∧ tx = tx') ∨
      CollisionAt c.sha256 (preimage chain "Bitcoin/ProcessWithdrawal" p seq epoch ((ids.map le64).flatten ++ c.sha256 tx ++ le64 fee))
        (preimage chain "Bitcoin/ProcessWithdrawal" p' seq' epoch' ((ids'.map le64).flatten ++ c.sha256 tx' ++ le64 fee')) ∨
      CollisionAt c.sha256 tx tx' := by
  rcases signDoc_binds_explicit c mem_ProcessWithdrawal mem_ProcessWithdrawal hp hs hs' he he' h
    with ⟨e1, e2, _, e4, e5⟩ | col
  · obtain ⟨a, b, f⟩ := processWithdrawal_data_injective hi hi' (hlen tx) (hlen tx') hf hf' e5
    rcases eq_or_collisionAt c.sha256 b with e | col
    · exact Or.inl ⟨e1, e2, e4, a, f, e⟩
    · exact Or.inr (Or.inr col)
  · exact Or.inr (Or.inl col)

/-- ReplaceWithdrawal: equal documents ⇒ the same process id, fee and transaction — or an explicit collision -/
theorem replaceWithdrawal_doc_binds_explicit (c : Crypto)
    (hp : (strBytes p).length = (strBytes p').length)
    (hs : seq < two64) (hs' : seq' < two64) (he : epoch < two64) (he' : epoch' < two64)
    {pid pid' fee fee' : Nat} {tx tx' : Bytes}
    (hpid : pid < two64) (hpid' : pid' < two64) (hf : fee < two64) (hf' : fee' < two64)
    (h : voteSignDoc c "Bitcoin/ReplaceWithdrawal" chain p seq epoch (le64 pid ++ le64 fee ++ c.sha256 tx)
       = voteSignDoc c "Bitcoin/ReplaceWithdrawal" chain p' seq' epoch' (le64 pid' ++ le64 fee' ++ c.sha256 tx')) :
    (seq = seq' ∧ epoch = epoch' ∧ p = p' ∧ pid = pid' ∧ fee = fee' ∧ tx = tx') ∨
      CollisionAt c.sha256 (preimage chain "Bitcoin/ReplaceWithdrawal" p seq epoch (le64 pid ++ le64 fee ++ c.sha256 tx))
        (preimage chain "Bitcoin/ReplaceWithdrawal" p' seq' epoch' (le64 pid' ++ le64 fee' ++ c.sha256 tx')) ∨
      CollisionAt c.sha256 tx tx' := by
  rcases signDoc_binds_explicit c mem_ReplaceWithdrawal mem_ReplaceWithdrawal hp hs hs' he he' h
    with ⟨e1, e2, _, e4, e5⟩ | col
  · obtain ⟨a, f, b⟩ := replaceWithdrawal_data_injective hpid hpid' hf hf' e5
    rcases eq_or_collisionAt c.sha256 b with e | col
    · exact Or.inl ⟨e1, e2, e4, a, f, e⟩
    · exact Or.inr (Or.inr col)
  · exact Or.inr (Or.inl col)

/-- non-vacuity: the padding hash of `C01S` (32-byte outputs, not injective) does collide on two different transactions —
    the third disjunct of `processWithdrawal_doc_binds_explicit` is where that shows, and it names them -/
example : CollisionAt padCrypto.sha256 (List.replicate 40 7 ++ [1]) (List.replicate 40 7 ++ [2]) :=
  ⟨by decide, by decide⟩

end Goat.C01X
