/-
  C01S — the signed document of a voted relayer proposal BINDS action and payload.

  `Goat.C01.C01_accept_sound` shows that an accepted proposal carries an aggregate signature that
  verifies over `voteSignDoc c method chainId proposer seq epoch sigDoc`.  This file shows that this
  document determines (method, proposer, seq, epoch, payload) and that each of the five payload
  encoders of x/bitcoin (`VoteSigDoc()`) determines the message fields it is built from.

  The hash is a parameter of the model.  Two idealisations appear below and are kept apart:

    * `∀ x, (c.sha256 x).length = 32`      (true of SHA-256; satisfiable)
    * `Function.Injective c.sha256`        (the usual idealisation of collision resistance)

  TOGETHER THEY ARE CONTRADICTORY (`ideal_hash_hyps_inconsistent`: pigeonhole, 256^32 + 1 inputs of
  33 bytes).  A theorem that assumes both is vacuous.  Therefore every binding theorem is stated
  first in the form

        equal documents  →  (the fields are equal)  ∨  Collision c.sha256

  (`…_or_collision`; `Collision f` exhibits two different inputs with the same hash), which is true
  of every hash function, needs only the satisfiable length hypothesis (and only where a digest is
  followed by more payload bytes), and is the faithful reading of "binding under collision
  resistance".  The versions under `Function.Injective c.sha256` are corollaries; those that need
  no length hypothesis are non-vacuous (e.g. `sha256 := id`); the single one that needs both
  (`processWithdrawal_doc_binds`) is kept as requested and flagged.

  Core Lean only.
-/
import GoatModel.Relayer
import GoatModel.Bitcoin
import GoatProofs.C01
namespace Goat.C01S
open Goat Goat.Relayer

/-! ## 0. bytes of strings -/

theorem byteArray_toList_loop (bs : ByteArray) (i : Nat) (r : List UInt8) :
    ByteArray.toList.loop bs i r = r.reverse ++ bs.data.toList.drop i := by
  have hsz : bs.size = bs.data.toList.length := by rw [Array.length_toList]; rfl
  fun_induction ByteArray.toList.loop bs i r with
  | case1 i r h ih =>
    rw [ih]
    have h' : i < bs.data.toList.length := by omega
    rw [List.drop_eq_getElem_cons h']
    have : bs.get! i = bs.data.toList[i] := by
      cases bs with | mk d =>
      show d[i]! = _
      simp at h'
      simp [h']
    simp [this]
  | case2 i r h =>
    have h' : bs.data.toList.length ≤ i := by omega
    simp [List.drop_eq_nil_of_le h']

theorem byteArray_toList (bs : ByteArray) : bs.toList = bs.data.toList := by
  simp [ByteArray.toList, byteArray_toList_loop]

/-- the bytes of a string given by its characters are the concatenated UTF-8 encodings -/
theorem strBytes_ofList (cs : List Char) :
    strBytes (String.ofList cs) = cs.flatMap String.utf8EncodeChar := by
  simp [strBytes, String.toUTF8, byteArray_toList, List.utf8Encode]

/-- a string is determined by its UTF-8 bytes -/
theorem strBytes_injective {p p' : String} (h : strBytes p = strBytes p') : p = p' := by
  unfold strBytes String.toUTF8 at h
  rw [byteArray_toList, byteArray_toList] at h
  apply String.toByteArray_inj.mp
  apply ByteArray.ext
  exact Array.toList_inj.mp h

/-! ## 0'. fixed-width little-endian integers -/

theorem two64_eq : two64 = 2 ^ 64 := by decide
theorem two64_eq' : two64 = 256 ^ 8 := by decide

theorem leBytes_length (k n : Nat) : (leBytes k n).length = k := by
  induction k generalizing n with
  | zero => simp [leBytes]
  | succ k ih => simp [leBytes, ih]

theorem le64_length (n : Nat) : (le64 n).length = 8 := leBytes_length 8 n

theorem leToNat_leBytes (k n : Nat) : leToNat (leBytes k n) = n % 256 ^ k := by
  induction k generalizing n with
  | zero => simp [leBytes, leToNat, Nat.mod_one]
  | succ k ih =>
    have hb : (UInt8.ofNat (n % 256)).toNat = n % 256 := by
      rw [UInt8.toNat_ofNat']; omega
    simp only [leBytes, leToNat, ih, hb]
    rw [Nat.pow_succ, Nat.mul_comm (256 ^ k) 256, Nat.mod_mul]

theorem leToNat_lt (l : Bytes) : leToNat l < 256 ^ l.length := by
  induction l with
  | nil => simp [leToNat]
  | cons b t ih =>
    have hb : b.toNat < 256 := b.toNat_lt
    simp only [leToNat, List.length_cons, Nat.pow_succ]
    omega

theorem leBytes_leToNat (l : Bytes) : leBytes l.length (leToNat l) = l := by
  induction l with
  | nil => simp [leBytes]
  | cons b t ih =>
    have hb : b.toNat < 256 := b.toNat_lt
    have h1 : (b.toNat + 256 * leToNat t) % 256 = b.toNat := by omega
    have h2 : (b.toNat + 256 * leToNat t) / 256 = leToNat t := by omega
    simp only [List.length_cons, leBytes, leToNat, h1, h2, ih]
    simp

theorem leBytes_injective {k a b : Nat} (ha : a < 256 ^ k) (hb : b < 256 ^ k)
    (h : leBytes k a = leBytes k b) : a = b := by
  have := congrArg leToNat h
  rwa [leToNat_leBytes, leToNat_leBytes, Nat.mod_eq_of_lt ha, Nat.mod_eq_of_lt hb] at this

/-- `le64` is injective on unsigned 64-bit values -/
theorem le64_injective {a b : Nat} (ha : a < two64) (hb : b < two64) (h : le64 a = le64 b) : a = b :=
  leBytes_injective (k := 8) (two64_eq' ▸ ha) (two64_eq' ▸ hb) h

/-- the bound is needed: the model's `le64` works on `Nat` (Go: `uint64`) and wraps -/
theorem le64_not_injective_unbounded : le64 0 = le64 two64 ∧ (0 : Nat) ≠ two64 := by decide

/-- split `le64 a ++ x = le64 b ++ y` -/
theorem le64_append_inj {a b : Nat} (ha : a < two64) (hb : b < two64) {x y : Bytes}
    (h : le64 a ++ x = le64 b ++ y) : a = b ∧ x = y := by
  obtain ⟨h1, h2⟩ := List.append_inj h (by rw [le64_length, le64_length])
  exact ⟨le64_injective ha hb h1, h2⟩

theorem map_le64_injective : ∀ (ids ids' : List Nat), (∀ i ∈ ids, i < two64) → (∀ i ∈ ids', i < two64) →
    ids.map le64 = ids'.map le64 → ids = ids'
  | [], [], _, _, _ => rfl
  | [], _ :: _, _, _, h => by simp at h
  | _ :: _, [], _, _, h => by simp at h
  | a :: t, b :: t', h1, h2, h => by
    simp only [List.map_cons, List.cons.injEq] at h
    rw [le64_injective (h1 a (by simp)) (h2 b (by simp)) h.1,
      map_le64_injective t t' (fun i hi => h1 i (by simp [hi])) (fun i hi => h2 i (by simp [hi])) h.2]

/-- a concatenation of chunks of one fixed positive length determines the chunks -/
theorem flatten_injective_of_length {n : Nat} (hn : 0 < n) : ∀ (l l' : List Bytes),
    (∀ h ∈ l, h.length = n) → (∀ h ∈ l', h.length = n) → l.flatten = l'.flatten → l = l'
  | [], [], _, _, _ => rfl
  | [], b :: t', _, h2, h => by
    have hb := h2 b (by simp)
    have := congrArg List.length h
    simp only [List.flatten_cons, List.flatten_nil, List.length_append, List.length_nil] at this
    omega
  | a :: t, [], h1, _, h => by
    have ha := h1 a (by simp)
    have := congrArg List.length h
    simp only [List.flatten_cons, List.flatten_nil, List.length_append, List.length_nil] at this
    omega
  | a :: t, b :: t', h1, h2, h => by
    have ha := h1 a (by simp)
    have hb := h2 b (by simp)
    simp only [List.flatten_cons] at h
    obtain ⟨e1, e2⟩ := List.append_inj h (by omega)
    rw [e1, flatten_injective_of_length hn t t' (fun i hi => h1 i (by simp [hi]))
      (fun i hi => h2 i (by simp [hi])) e2]

/-- the length condition is needed (the handler checks it: `hashes.any (·.length ≠ 32)`) -/
theorem flatten_not_injective_unvalidated :
    ([[1], [2]] : List Bytes).flatten = [[1, 2]].flatten ∧ ([[1], [2]] : List Bytes) ≠ [[1, 2]] := by decide

/-! ## 1. the method names -/

/-- the five voted bridge actions (`method` in the sign doc) -/
def methods : List String :=
  ["Bitcoin/NewBlocks", "Bitcoin/NewPubkey", "Bitcoin/ProcessWithdrawal",
   "Bitcoin/ReplaceWithdrawal", "Bitcoin/NewConsolidation"]

/-- every method string whose sign doc is built with `voteSignDoc` in the model: the five bridge
    actions and the relayer's own `"Relayer/NewVoter"` (a proof-of-possession by ONE voter key over
    the same document format) -/
def allMethods : List String := "Relayer/NewVoter" :: methods

/-- no name's UTF-8 bytes are a prefix of another name's -/
def PrefixFree (ms : List String) : Prop :=
  ∀ m ∈ ms, ∀ m' ∈ ms, strBytes m <+: strBytes m' → m = m'

/-- the UTF-8 bytes of the six method names -/
def allMethodBytes : List Bytes :=
  [ [82, 101, 108, 97, 121, 101, 114, 47, 78, 101, 119, 86, 111, 116, 101, 114],
    [66, 105, 116, 99, 111, 105, 110, 47, 78, 101, 119, 66, 108, 111, 99, 107, 115],
    [66, 105, 116, 99, 111, 105, 110, 47, 78, 101, 119, 80, 117, 98, 107, 101, 121],
    [66, 105, 116, 99, 111, 105, 110, 47, 80, 114, 111, 99, 101, 115, 115, 87, 105, 116, 104, 100, 114, 97, 119, 97, 108],
    [66, 105, 116, 99, 111, 105, 110, 47, 82, 101, 112, 108, 97, 99, 101, 87, 105, 116, 104, 100, 114, 97, 119, 97, 108],
    [66, 105, 116, 99, 111, 105, 110, 47, 78, 101, 119, 67, 111, 110, 115, 111, 108, 105, 100, 97, 116, 105, 111, 110] ]

theorem allMethods_bytes : allMethods.map strBytes = allMethodBytes := by
  simp only [allMethods, methods, List.map_cons, List.map_nil]
  rw [show "Relayer/NewVoter" = String.ofList _ from rfl,
      show "Bitcoin/NewBlocks" = String.ofList _ from rfl,
      show "Bitcoin/NewPubkey" = String.ofList _ from rfl,
      show "Bitcoin/ProcessWithdrawal" = String.ofList _ from rfl,
      show "Bitcoin/ReplaceWithdrawal" = String.ofList _ from rfl,
      show "Bitcoin/NewConsolidation" = String.ofList _ from rfl]
  simp only [strBytes_ofList]
  decide

theorem allMethodBytes_prefix_free :
    ∀ a ∈ allMethodBytes, ∀ b ∈ allMethodBytes, a <+: b → a = b := by decide

theorem allMethods_prefix_free : PrefixFree allMethods := by
  intro m hm m' hm' h
  apply strBytes_injective
  apply allMethodBytes_prefix_free _ _ _ _ h
  · rw [← allMethods_bytes]; exact List.mem_map_of_mem hm
  · rw [← allMethods_bytes]; exact List.mem_map_of_mem hm'

theorem PrefixFree.sub {ms ms' : List String} (h : PrefixFree ms) (hs : ∀ m ∈ ms', m ∈ ms) : PrefixFree ms' :=
  fun m hm m' hm' hp => h m (hs m hm) m' (hs m' hm') hp

/-- **1.** no bridge method name is a prefix of another one -/
theorem methods_prefix_free : PrefixFree methods :=
  allMethods_prefix_free.sub (fun _ hm => List.mem_cons_of_mem _ hm)

/-! ## 2. the hashed pre-image determines its parts -/

/-- what `voteSignDoc` hashes -/
def preimage (chain method proposer : String) (seq epoch : Nat) (data : Bytes) : Bytes :=
  strBytes chain ++ le64 seq ++ le64 epoch ++ strBytes method ++ strBytes proposer ++ data

theorem voteSignDoc_eq (c : Crypto) (m chain p : String) (seq epoch : Nat) (d : Bytes) :
    voteSignDoc c m chain p seq epoch d = c.sha256 (preimage chain m p seq epoch d) := rfl

/-- general form, for any prefix-free set of method names -/
theorem preimage_injective_of_prefixFree {ms : List String} (hpf : PrefixFree ms)
    {chain m m' p p' : String} {seq seq' epoch epoch' : Nat} {d d' : Bytes}
    (hm : m ∈ ms) (hm' : m' ∈ ms)
    (hp : (strBytes p).length = (strBytes p').length)
    (hs : seq < two64) (hs' : seq' < two64) (he : epoch < two64) (he' : epoch' < two64)
    (h : strBytes chain ++ le64 seq ++ le64 epoch ++ strBytes m ++ strBytes p ++ d
       = strBytes chain ++ le64 seq' ++ le64 epoch' ++ strBytes m' ++ strBytes p' ++ d') :
    seq = seq' ∧ epoch = epoch' ∧ m = m' ∧ p = p' ∧ d = d' := by
  simp only [List.append_assoc] at h
  have h := List.append_cancel_left h
  obtain ⟨e1, h⟩ := le64_append_inj hs hs' h
  obtain ⟨e2, h⟩ := le64_append_inj he he' h
  have e3 : m = m' := by
    rcases List.append_eq_append_iff.mp h with ⟨a, ha, _⟩ | ⟨a, ha, _⟩
    · exact hpf m hm m' hm' ⟨a, ha.symm⟩
    · exact (hpf m' hm' m hm ⟨a, ha.symm⟩).symm
  subst e3
  have h := List.append_cancel_left h
  obtain ⟨e4, e5⟩ := List.append_inj h hp
  exact ⟨e1, e2, rfl, strBytes_injective e4, e5⟩

/-- **2.** for the five bridge methods -/
theorem preimage_injective
    {chain m m' p p' : String} {seq seq' epoch epoch' : Nat} {d d' : Bytes}
    (hm : m ∈ methods) (hm' : m' ∈ methods)
    (hp : (strBytes p).length = (strBytes p').length)
    (hs : seq < two64) (hs' : seq' < two64) (he : epoch < two64) (he' : epoch' < two64)
    (h : strBytes chain ++ le64 seq ++ le64 epoch ++ strBytes m ++ strBytes p ++ d
       = strBytes chain ++ le64 seq' ++ le64 epoch' ++ strBytes m' ++ strBytes p' ++ d') :
    seq = seq' ∧ epoch = epoch' ∧ m = m' ∧ p = p' ∧ d = d' :=
  preimage_injective_of_prefixFree methods_prefix_free hm hm' hp hs hs' he he' h

/-- the same, also against the relayer's own `"Relayer/NewVoter"` document -/
theorem preimage_injective_all
    {chain m m' p p' : String} {seq seq' epoch epoch' : Nat} {d d' : Bytes}
    (hm : m ∈ allMethods) (hm' : m' ∈ allMethods)
    (hp : (strBytes p).length = (strBytes p').length)
    (hs : seq < two64) (hs' : seq' < two64) (he : epoch < two64) (he' : epoch' < two64)
    (h : strBytes chain ++ le64 seq ++ le64 epoch ++ strBytes m ++ strBytes p ++ d
       = strBytes chain ++ le64 seq' ++ le64 epoch' ++ strBytes m' ++ strBytes p' ++ d') :
    seq = seq' ∧ epoch = epoch' ∧ m = m' ∧ p = p' ∧ d = d' :=
  preimage_injective_of_prefixFree allMethods_prefix_free hm hm' hp hs hs' he he' h

/-- the equal-length hypothesis on the proposer strings is needed: the proposer is followed by the
    payload without a separator or a length prefix.  (In the real system both are bech32 renderings
    of 20-byte addresses under one prefix, hence of one length.) -/
theorem preimage_not_injective_without_proposer_length :
    ∃ (p p' : String) (d d' : Bytes),
      strBytes "c" ++ le64 0 ++ le64 0 ++ strBytes "Bitcoin/NewPubkey" ++ strBytes p ++ d
        = strBytes "c" ++ le64 0 ++ le64 0 ++ strBytes "Bitcoin/NewPubkey" ++ strBytes p' ++ d'
      ∧ p ≠ p' ∧ d ≠ d' := by
  refine ⟨"a", "ab", [98], [], ?_, by decide, by decide⟩
  have e1 : strBytes "a" = [97] := by
    rw [show "a" = String.ofList _ from rfl, strBytes_ofList]; decide
  have e2 : strBytes "ab" = [97, 98] := by
    rw [show "ab" = String.ofList _ from rfl, strBytes_ofList]; decide
  simp [e1, e2]

/-! ## 3. the payload encoders are injective on validated inputs -/

/-- NewBlocks: `8 zero bytes ‖ LE64(start) ‖ hashes` determines (start, hashes) -/
theorem newBlocks_data_injective {start start' : Nat} {hashes hashes' : List Bytes}
    (hs : start < two64) (hs' : start' < two64)
    (hh : ∀ h ∈ hashes, h.length = 32) (hh' : ∀ h ∈ hashes', h.length = 32)
    (h : List.replicate 8 (0 : UInt8) ++ le64 start ++ hashes.flatten
       = List.replicate 8 (0 : UInt8) ++ le64 start' ++ hashes'.flatten) :
    start = start' ∧ hashes = hashes' := by
  simp only [List.append_assoc] at h
  have h := List.append_cancel_left h
  obtain ⟨e1, h⟩ := le64_append_inj hs hs' h
  exact ⟨e1, flatten_injective_of_length (by decide) _ _ hh hh' h⟩

/-- ProcessWithdrawal: `LE64(id)… ‖ digest ‖ LE64(fee)` determines (ids in order, digest, fee);
    the id list has variable length but the tail has the fixed length 40 -/
theorem processWithdrawal_data_injective {ids ids' : List Nat} {dg dg' : Bytes} {fee fee' : Nat}
    (hi : ∀ i ∈ ids, i < two64) (hi' : ∀ i ∈ ids', i < two64)
    (hd : dg.length = 32) (hd' : dg'.length = 32) (hf : fee < two64) (hf' : fee' < two64)
    (h : (ids.map le64).flatten ++ dg ++ le64 fee = (ids'.map le64).flatten ++ dg' ++ le64 fee') :
    ids = ids' ∧ dg = dg' ∧ fee = fee' := by
  obtain ⟨h, e3⟩ := List.append_inj' h (by rw [le64_length, le64_length])
  obtain ⟨h, e2⟩ := List.append_inj' h (by rw [hd, hd'])
  have e1 := flatten_injective_of_length (n := 8) (by decide) _ _
    (by intro x hx; obtain ⟨i, _, rfl⟩ := List.mem_map.mp hx; exact le64_length i)
    (by intro x hx; obtain ⟨i, _, rfl⟩ := List.mem_map.mp hx; exact le64_length i) h
  exact ⟨map_le64_injective _ _ hi hi' e1, e2, le64_injective hf hf' e3⟩

/-- ReplaceWithdrawal: `LE64(pid) ‖ LE64(fee) ‖ digest` determines (pid, fee, digest) -/
theorem replaceWithdrawal_data_injective {pid pid' fee fee' : Nat} {dg dg' : Bytes}
    (hp : pid < two64) (hp' : pid' < two64) (hf : fee < two64) (hf' : fee' < two64)
    (h : le64 pid ++ le64 fee ++ dg = le64 pid' ++ le64 fee' ++ dg') :
    pid = pid' ∧ fee = fee' ∧ dg = dg' := by
  simp only [List.append_assoc] at h
  obtain ⟨e1, h⟩ := le64_append_inj hp hp' h
  obtain ⟨e2, h⟩ := le64_append_inj hf hf' h
  exact ⟨e1, e2, h⟩

theorem validate_kind {pk : Bitcoin.PubKey} (h : pk.validate = true) : pk.kind = 0 ∨ pk.kind = 1 := by
  unfold Bitcoin.PubKey.validate at h
  by_cases h0 : pk.kind = 0
  · exact Or.inl h0
  · by_cases h1 : pk.kind = 1
    · exact Or.inr h1
    · simp [h0, h1] at h

/-- NewPubkey: `tag ‖ key` determines the key, for keys that pass `Validate` -/
theorem newPubkey_data_injective {pk pk' : Bitcoin.PubKey}
    (hv : pk.validate = true) (hv' : pk'.validate = true) (h : pk.encode = pk'.encode) : pk = pk' := by
  cases pk with | mk k key =>
  cases pk' with | mk k' key' =>
  have hk := validate_kind hv
  have hk' := validate_kind hv'
  simp only at hk hk'
  unfold Bitcoin.PubKey.encode at h
  rcases hk with rfl | rfl <;> rcases hk' with rfl | rfl <;> simp at h <;> simp [h]

/-- validation is needed: every unknown key tag encodes to the empty payload -/
theorem newPubkey_data_not_injective_unvalidated :
    ∃ pk pk' : Bitcoin.PubKey, pk.encode = pk'.encode ∧ pk ≠ pk' :=
  ⟨⟨2, []⟩, ⟨3, [7]⟩, by decide, by decide⟩

/-- NewConsolidation: the payload IS the digest -/
theorem newConsolidation_data_injective {dg dg' : Bytes} (h : dg = dg') : dg = dg' := h

/-! ### the handlers establish the validity hypotheses used above -/

/-- an accepted NewBlocks message has `start < 2^64` and only 32-byte hashes -/
theorem newBlockHashes_ok_validated (rc : Crypto) (chainId : String) (rel : State) (s : Bitcoin.State)
    (vote : VoteMsg) (hv : Bool) (start : Nat) (hashes : List Bytes) (r : State × Bitcoin.State)
    (h : Bitcoin.newBlockHashes rc chainId rel s vote hv start hashes = .ok r) :
    start < two64 ∧ ∀ x ∈ hashes, x.length = 32 := by
  unfold Bitcoin.newBlockHashes at h
  split at h; · cases h
  split at h; · cases h
  split at h; · cases h
  split at h; · cases h
  rename_i hany
  split at h; · cases h
  split at h; · cases h
  rename_i hst
  refine ⟨?_, ?_⟩
  · have : start = (s.tip + 1) % two64 := by simpa using hst
    rw [this]; exact Nat.mod_lt _ (by decide)
  · intro x hx
    simp only [List.any_eq_true, not_exists, not_and] at hany
    have := hany x hx
    simpa using this

/-- an accepted NewPubkey message carries a key that passes `Validate` -/
theorem newPubkey_ok_validated (rc : Crypto) (chainId : String) (rel : State) (s : Bitcoin.State)
    (vote : VoteMsg) (hv : Bool) (pk : Bitcoin.PubKey) (r : State × Bitcoin.State)
    (h : Bitcoin.newPubkey rc chainId rel s vote hv pk = .ok r) : pk.validate = true := by
  unfold Bitcoin.newPubkey at h
  split at h; · cases h
  split at h; · cases h
  rename_i hval
  simpa using hval

/-! ## 4. the sign doc binds action and payload -/

/-- two different inputs with the same hash -/
def Collision (f : Bytes → Bytes) : Prop := ∃ x y, x ≠ y ∧ f x = f y

theorem not_collision_of_injective {f : Bytes → Bytes} (h : Function.Injective f) : ¬ Collision f :=
  fun ⟨_, _, hne, he⟩ => hne (h he)

/-- equal hashes: equal inputs or a collision -/
theorem eq_or_collision (f : Bytes → Bytes) {x y : Bytes} (h : f x = f y) : x = y ∨ Collision f :=
  if e : x = y then Or.inl e else Or.inr ⟨x, y, e, h⟩

/-! ### the two idealisations of the hash exclude each other -/

/-- pigeonhole: no injection of {0,…,n} into {0,…,n-1} -/
theorem no_injection_succ : ∀ (n : Nat) (f : Nat → Nat), (∀ i, i ≤ n → f i < n) →
    ¬ (∀ i j, i ≤ n → j ≤ n → f i = f j → i = j)
  | 0, f, hb, _ => by have := hb 0 (Nat.le_refl 0); omega
  | n + 1, f, hb, hinj => by
    let g : Nat → Nat := fun i => if f i < f (n + 1) then f i else f i - 1
    have hv : f (n + 1) < n + 1 := hb (n + 1) (Nat.le_refl _)
    have hne : ∀ i, i ≤ n → f i ≠ f (n + 1) := by
      intro i hi e
      have := hinj i (n + 1) (by omega) (Nat.le_refl _) e
      omega
    apply no_injection_succ n g
    · intro i hi
      have h1 := hb i (by omega)
      have h2 := hne i hi
      show (if f i < f (n + 1) then f i else f i - 1) < n
      split <;> omega
    · intro i j hi hj e
      have hi2 := hne i hi
      have hj2 := hne j hj
      apply hinj i j (by omega) (by omega)
      have e' : (if f i < f (n + 1) then f i else f i - 1) = (if f j < f (n + 1) then f j else f j - 1) := e
      split at e' <;> split at e' <;> omega

/-- no function from byte strings to byte strings of one fixed length is injective -/
theorem no_injective_fixed_length (n : Nat) (f : Bytes → Bytes) :
    ¬ (Function.Injective f ∧ ∀ x, (f x).length = n) := by
  intro ⟨hinj, hlen⟩
  have hpos : 0 < 256 ^ n := Nat.pow_pos (by decide)
  have hsucc : 256 ^ (n + 1) = 256 ^ n * 256 := by rw [Nat.pow_succ]
  apply no_injection_succ (256 ^ n) (fun k => leToNat (f (leBytes (n + 1) k)))
  · intro i _
    have := leToNat_lt (f (leBytes (n + 1) i))
    rwa [hlen] at this
  · intro i j hi hj e
    have e2 : f (leBytes (n + 1) i) = f (leBytes (n + 1) j) := by
      have := congrArg (leBytes n) e
      rw [← leBytes_leToNat (f (leBytes (n + 1) i)), ← leBytes_leToNat (f (leBytes (n + 1) j)), hlen, hlen]
      exact this
    exact leBytes_injective (k := n + 1) (by omega) (by omega) (hinj e2)

/-- **the requested pair of ideal-hash hypotheses is contradictory**; a theorem assuming both says
    nothing.  Hence the `…_or_collision` forms below. -/
theorem ideal_hash_hyps_inconsistent (c : Crypto) :
    ¬ (Function.Injective c.sha256 ∧ ∀ x, (c.sha256 x).length = 32) :=
  no_injective_fixed_length 32 c.sha256

/-! ### the document -/

section envelope
variable {chain p p' : String} {seq seq' epoch epoch' : Nat}

/-- **4.** equal sign docs: same sequence, epoch, action, proposer and payload — or the two hashed
    pre-images are a SHA-256 collision.  No hypothesis on the hash. -/
theorem signDoc_binds_or_collision (c : Crypto) {m m' : String} {d d' : Bytes}
    (hm : m ∈ methods) (hm' : m' ∈ methods)
    (hp : (strBytes p).length = (strBytes p').length)
    (hs : seq < two64) (hs' : seq' < two64) (he : epoch < two64) (he' : epoch' < two64)
    (h : voteSignDoc c m chain p seq epoch d = voteSignDoc c m' chain p' seq' epoch' d') :
    (seq = seq' ∧ epoch = epoch' ∧ m = m' ∧ p = p' ∧ d = d') ∨ Collision c.sha256 := by
  rcases eq_or_collision c.sha256 (x := preimage chain m p seq epoch d)
      (y := preimage chain m' p' seq' epoch' d') h with e | col
  · exact Or.inl (preimage_injective hm hm' hp hs hs' he he' e)
  · exact Or.inr col

/-- the same over all six documents of the model (bridge actions and `Relayer/NewVoter`): a voter's
    proof-of-possession can not be replayed as a vote share for a bridge action or vice versa -/
theorem signDoc_binds_all_or_collision (c : Crypto) {m m' : String} {d d' : Bytes}
    (hm : m ∈ allMethods) (hm' : m' ∈ allMethods)
    (hp : (strBytes p).length = (strBytes p').length)
    (hs : seq < two64) (hs' : seq' < two64) (he : epoch < two64) (he' : epoch' < two64)
    (h : voteSignDoc c m chain p seq epoch d = voteSignDoc c m' chain p' seq' epoch' d') :
    (seq = seq' ∧ epoch = epoch' ∧ m = m' ∧ p = p' ∧ d = d') ∨ Collision c.sha256 := by
  rcases eq_or_collision c.sha256 (x := preimage chain m p seq epoch d)
      (y := preimage chain m' p' seq' epoch' d') h with e | col
  · exact Or.inl (preimage_injective_all hm hm' hp hs hs' he he' e)
  · exact Or.inr col

/-- **4 (as requested).** under an injective hash.  (The length hypothesis is not needed here, and
    must not be added: see `ideal_hash_hyps_inconsistent`.) -/
theorem signDoc_binds (c : Crypto) (hinj : Function.Injective c.sha256) {m m' : String} {d d' : Bytes}
    (hm : m ∈ methods) (hm' : m' ∈ methods)
    (hp : (strBytes p).length = (strBytes p').length)
    (hs : seq < two64) (hs' : seq' < two64) (he : epoch < two64) (he' : epoch' < two64)
    (h : voteSignDoc c m chain p seq epoch d = voteSignDoc c m' chain p' seq' epoch' d') :
    seq = seq' ∧ epoch = epoch' ∧ m = m' ∧ p = p' ∧ d = d' :=
  (signDoc_binds_or_collision c hm hm' hp hs hs' he he' h).resolve_right (not_collision_of_injective hinj)

/-! ### per action -/

theorem mem_NewBlocks : "Bitcoin/NewBlocks" ∈ methods := by simp [methods]
theorem mem_NewPubkey : "Bitcoin/NewPubkey" ∈ methods := by simp [methods]
theorem mem_ProcessWithdrawal : "Bitcoin/ProcessWithdrawal" ∈ methods := by simp [methods]
theorem mem_ReplaceWithdrawal : "Bitcoin/ReplaceWithdrawal" ∈ methods := by simp [methods]
theorem mem_NewConsolidation : "Bitcoin/NewConsolidation" ∈ methods := by simp [methods]

/-- NewBlocks: equal documents ⇒ same start height and the same hashes in the same order -/
theorem newBlocks_doc_binds_or_collision (c : Crypto)
    (hp : (strBytes p).length = (strBytes p').length)
    (hs : seq < two64) (hs' : seq' < two64) (he : epoch < two64) (he' : epoch' < two64)
    {start start' : Nat} {hashes hashes' : List Bytes}
    (hst : start < two64) (hst' : start' < two64)
    (hh : ∀ x ∈ hashes, x.length = 32) (hh' : ∀ x ∈ hashes', x.length = 32)
    (h : voteSignDoc c "Bitcoin/NewBlocks" chain p seq epoch (List.replicate 8 0 ++ le64 start ++ hashes.flatten)
       = voteSignDoc c "Bitcoin/NewBlocks" chain p' seq' epoch' (List.replicate 8 0 ++ le64 start' ++ hashes'.flatten)) :
    (seq = seq' ∧ epoch = epoch' ∧ p = p' ∧ start = start' ∧ hashes = hashes') ∨ Collision c.sha256 := by
  rcases signDoc_binds_or_collision c mem_NewBlocks mem_NewBlocks hp hs hs' he he' h with ⟨e1, e2, _, e4, e5⟩ | col
  · obtain ⟨a, b⟩ := newBlocks_data_injective hst hst' hh hh' e5
    exact Or.inl ⟨e1, e2, e4, a, b⟩
  · exact Or.inr col

/-- NewPubkey: equal documents ⇒ the same key -/
theorem newPubkey_doc_binds_or_collision (c : Crypto)
    (hp : (strBytes p).length = (strBytes p').length)
    (hs : seq < two64) (hs' : seq' < two64) (he : epoch < two64) (he' : epoch' < two64)
    {pk pk' : Bitcoin.PubKey} (hv : pk.validate = true) (hv' : pk'.validate = true)
    (h : voteSignDoc c "Bitcoin/NewPubkey" chain p seq epoch pk.encode
       = voteSignDoc c "Bitcoin/NewPubkey" chain p' seq' epoch' pk'.encode) :
    (seq = seq' ∧ epoch = epoch' ∧ p = p' ∧ pk = pk') ∨ Collision c.sha256 := by
  rcases signDoc_binds_or_collision c mem_NewPubkey mem_NewPubkey hp hs hs' he he' h with ⟨e1, e2, _, e4, e5⟩ | col
  · exact Or.inl ⟨e1, e2, e4, newPubkey_data_injective hv hv' e5⟩
  · exact Or.inr col

/-- ProcessWithdrawal: equal documents ⇒ the same withdrawal ids IN THE SAME ORDER, the same fee and
    the same transaction — or a collision.  Needs the digest length (the digest is followed by the
    fee), which SHA-256 has. -/
theorem processWithdrawal_doc_binds_or_collision (c : Crypto) (hlen : ∀ x, (c.sha256 x).length = 32)
    (hp : (strBytes p).length = (strBytes p').length)
    (hs : seq < two64) (hs' : seq' < two64) (he : epoch < two64) (he' : epoch' < two64)
    {ids ids' : List Nat} {tx tx' : Bytes} {fee fee' : Nat}
    (hi : ∀ i ∈ ids, i < two64) (hi' : ∀ i ∈ ids', i < two64) (hf : fee < two64) (hf' : fee' < two64)
    (h : voteSignDoc c "Bitcoin/ProcessWithdrawal" chain p seq epoch ((ids.map le64).flatten ++ c.sha256 tx ++ le64 fee)
       = voteSignDoc c "Bitcoin/ProcessWithdrawal" chain p' seq' epoch' ((ids'.map le64).flatten ++ c.sha256 tx' ++ le64 fee')) :
    (seq = seq' ∧ epoch = epoch' ∧ p = p' ∧ ids = ids' ∧ fee = fee' ∧ tx = tx') ∨ Collision c.sha256 := by
  rcases signDoc_binds_or_collision c mem_ProcessWithdrawal mem_ProcessWithdrawal hp hs hs' he he' h
    with ⟨e1, e2, _, e4, e5⟩ | col
  · obtain ⟨a, b, f⟩ := processWithdrawal_data_injective hi hi' (hlen tx) (hlen tx') hf hf' e5
    rcases eq_or_collision c.sha256 b with e | col
    · exact Or.inl ⟨e1, e2, e4, a, f, e⟩
    · exact Or.inr col
  · exact Or.inr col

/-- ReplaceWithdrawal: equal documents ⇒ the same process id, fee and transaction -/
theorem replaceWithdrawal_doc_binds_or_collision (c : Crypto)
    (hp : (strBytes p).length = (strBytes p').length)
    (hs : seq < two64) (hs' : seq' < two64) (he : epoch < two64) (he' : epoch' < two64)
    {pid pid' fee fee' : Nat} {tx tx' : Bytes}
    (hpid : pid < two64) (hpid' : pid' < two64) (hf : fee < two64) (hf' : fee' < two64)
    (h : voteSignDoc c "Bitcoin/ReplaceWithdrawal" chain p seq epoch (le64 pid ++ le64 fee ++ c.sha256 tx)
       = voteSignDoc c "Bitcoin/ReplaceWithdrawal" chain p' seq' epoch' (le64 pid' ++ le64 fee' ++ c.sha256 tx')) :
    (seq = seq' ∧ epoch = epoch' ∧ p = p' ∧ pid = pid' ∧ fee = fee' ∧ tx = tx') ∨ Collision c.sha256 := by
  rcases signDoc_binds_or_collision c mem_ReplaceWithdrawal mem_ReplaceWithdrawal hp hs hs' he he' h
    with ⟨e1, e2, _, e4, e5⟩ | col
  · obtain ⟨a, f, b⟩ := replaceWithdrawal_data_injective hpid hpid' hf hf' e5
    rcases eq_or_collision c.sha256 b with e | col
    · exact Or.inl ⟨e1, e2, e4, a, f, e⟩
    · exact Or.inr col
  · exact Or.inr col

/-- NewConsolidation: equal documents ⇒ the same transaction -/
theorem newConsolidation_doc_binds_or_collision (c : Crypto)
    (hp : (strBytes p).length = (strBytes p').length)
    (hs : seq < two64) (hs' : seq' < two64) (he : epoch < two64) (he' : epoch' < two64)
    {tx tx' : Bytes}
    (h : voteSignDoc c "Bitcoin/NewConsolidation" chain p seq epoch (c.sha256 tx)
       = voteSignDoc c "Bitcoin/NewConsolidation" chain p' seq' epoch' (c.sha256 tx')) :
    (seq = seq' ∧ epoch = epoch' ∧ p = p' ∧ tx = tx') ∨ Collision c.sha256 := by
  rcases signDoc_binds_or_collision c mem_NewConsolidation mem_NewConsolidation hp hs hs' he he' h
    with ⟨e1, e2, _, e4, e5⟩ | col
  · rcases eq_or_collision c.sha256 e5 with e | col
    · exact Or.inl ⟨e1, e2, e4, e⟩
    · exact Or.inr col
  · exact Or.inr col

/-! ### the same under an injective hash -/

theorem newBlocks_doc_binds (c : Crypto) (hinj : Function.Injective c.sha256)
    (hp : (strBytes p).length = (strBytes p').length)
    (hs : seq < two64) (hs' : seq' < two64) (he : epoch < two64) (he' : epoch' < two64)
    {start start' : Nat} {hashes hashes' : List Bytes}
    (hst : start < two64) (hst' : start' < two64)
    (hh : ∀ x ∈ hashes, x.length = 32) (hh' : ∀ x ∈ hashes', x.length = 32)
    (h : voteSignDoc c "Bitcoin/NewBlocks" chain p seq epoch (List.replicate 8 0 ++ le64 start ++ hashes.flatten)
       = voteSignDoc c "Bitcoin/NewBlocks" chain p' seq' epoch' (List.replicate 8 0 ++ le64 start' ++ hashes'.flatten)) :
    seq = seq' ∧ epoch = epoch' ∧ p = p' ∧ start = start' ∧ hashes = hashes' :=
  (newBlocks_doc_binds_or_collision c hp hs hs' he he' hst hst' hh hh' h).resolve_right
    (not_collision_of_injective hinj)

theorem newPubkey_doc_binds (c : Crypto) (hinj : Function.Injective c.sha256)
    (hp : (strBytes p).length = (strBytes p').length)
    (hs : seq < two64) (hs' : seq' < two64) (he : epoch < two64) (he' : epoch' < two64)
    {pk pk' : Bitcoin.PubKey} (hv : pk.validate = true) (hv' : pk'.validate = true)
    (h : voteSignDoc c "Bitcoin/NewPubkey" chain p seq epoch pk.encode
       = voteSignDoc c "Bitcoin/NewPubkey" chain p' seq' epoch' pk'.encode) :
    seq = seq' ∧ epoch = epoch' ∧ p = p' ∧ pk = pk' :=
  (newPubkey_doc_binds_or_collision c hp hs hs' he he' hv hv' h).resolve_right
    (not_collision_of_injective hinj)

/-- as requested, under BOTH ideal-hash hypotheses.  VACUOUS (`ideal_hash_hyps_inconsistent`): the
    content is `processWithdrawal_doc_binds_or_collision`. -/
theorem processWithdrawal_doc_binds (c : Crypto) (hinj : Function.Injective c.sha256)
    (hlen : ∀ x, (c.sha256 x).length = 32)
    (hp : (strBytes p).length = (strBytes p').length)
    (hs : seq < two64) (hs' : seq' < two64) (he : epoch < two64) (he' : epoch' < two64)
    {ids ids' : List Nat} {tx tx' : Bytes} {fee fee' : Nat}
    (hi : ∀ i ∈ ids, i < two64) (hi' : ∀ i ∈ ids', i < two64) (hf : fee < two64) (hf' : fee' < two64)
    (h : voteSignDoc c "Bitcoin/ProcessWithdrawal" chain p seq epoch ((ids.map le64).flatten ++ c.sha256 tx ++ le64 fee)
       = voteSignDoc c "Bitcoin/ProcessWithdrawal" chain p' seq' epoch' ((ids'.map le64).flatten ++ c.sha256 tx' ++ le64 fee')) :
    seq = seq' ∧ epoch = epoch' ∧ p = p' ∧ ids = ids' ∧ fee = fee' ∧ tx = tx' :=
  (processWithdrawal_doc_binds_or_collision c hlen hp hs hs' he he' hi hi' hf hf' h).resolve_right
    (not_collision_of_injective hinj)

/-- non-vacuous replacement of the previous theorem: an injective hash whose digests for the two
    transactions at hand have one common length (any length) -/
theorem processWithdrawal_doc_binds' (c : Crypto) (hinj : Function.Injective c.sha256)
    (hp : (strBytes p).length = (strBytes p').length)
    (hs : seq < two64) (hs' : seq' < two64) (he : epoch < two64) (he' : epoch' < two64)
    {ids ids' : List Nat} {tx tx' : Bytes} {fee fee' : Nat}
    (hlen : (c.sha256 tx).length = (c.sha256 tx').length)
    (hi : ∀ i ∈ ids, i < two64) (hi' : ∀ i ∈ ids', i < two64) (hf : fee < two64) (hf' : fee' < two64)
    (h : voteSignDoc c "Bitcoin/ProcessWithdrawal" chain p seq epoch ((ids.map le64).flatten ++ c.sha256 tx ++ le64 fee)
       = voteSignDoc c "Bitcoin/ProcessWithdrawal" chain p' seq' epoch' ((ids'.map le64).flatten ++ c.sha256 tx' ++ le64 fee')) :
    seq = seq' ∧ epoch = epoch' ∧ p = p' ∧ ids = ids' ∧ fee = fee' ∧ tx = tx' := by
  obtain ⟨e1, e2, _, e4, e5⟩ := signDoc_binds c hinj mem_ProcessWithdrawal mem_ProcessWithdrawal hp hs hs' he he' h
  obtain ⟨h1, e8⟩ := List.append_inj' e5 (by rw [le64_length, le64_length])
  obtain ⟨h2, e7⟩ := List.append_inj' h1 hlen
  have e6 := flatten_injective_of_length (n := 8) (by decide) _ _
    (by intro x hx; obtain ⟨i, _, rfl⟩ := List.mem_map.mp hx; exact le64_length i)
    (by intro x hx; obtain ⟨i, _, rfl⟩ := List.mem_map.mp hx; exact le64_length i) h2
  exact ⟨e1, e2, e4, map_le64_injective _ _ hi hi' e6, le64_injective hf hf' e8, hinj e7⟩

theorem replaceWithdrawal_doc_binds (c : Crypto) (hinj : Function.Injective c.sha256)
    (hp : (strBytes p).length = (strBytes p').length)
    (hs : seq < two64) (hs' : seq' < two64) (he : epoch < two64) (he' : epoch' < two64)
    {pid pid' fee fee' : Nat} {tx tx' : Bytes}
    (hpid : pid < two64) (hpid' : pid' < two64) (hf : fee < two64) (hf' : fee' < two64)
    (h : voteSignDoc c "Bitcoin/ReplaceWithdrawal" chain p seq epoch (le64 pid ++ le64 fee ++ c.sha256 tx)
       = voteSignDoc c "Bitcoin/ReplaceWithdrawal" chain p' seq' epoch' (le64 pid' ++ le64 fee' ++ c.sha256 tx')) :
    seq = seq' ∧ epoch = epoch' ∧ p = p' ∧ pid = pid' ∧ fee = fee' ∧ tx = tx' :=
  (replaceWithdrawal_doc_binds_or_collision c hp hs hs' he he' hpid hpid' hf hf' h).resolve_right
    (not_collision_of_injective hinj)

theorem newConsolidation_doc_binds (c : Crypto) (hinj : Function.Injective c.sha256)
    (hp : (strBytes p).length = (strBytes p').length)
    (hs : seq < two64) (hs' : seq' < two64) (he : epoch < two64) (he' : epoch' < two64)
    {tx tx' : Bytes}
    (h : voteSignDoc c "Bitcoin/NewConsolidation" chain p seq epoch (c.sha256 tx)
       = voteSignDoc c "Bitcoin/NewConsolidation" chain p' seq' epoch' (c.sha256 tx')) :
    seq = seq' ∧ epoch = epoch' ∧ p = p' ∧ tx = tx' :=
  (newConsolidation_doc_binds_or_collision c hp hs hs' he he' h).resolve_right
    (not_collision_of_injective hinj)

end envelope

/-! ### link to C01: what an accepted ProcessWithdrawal was signed over -/

/-- An accepted ProcessWithdrawal carries an aggregate signature that verifies over the document of
    exactly its (ids, tx, fee) at the current proposer, sequence and epoch (by `C01`); and by
    `processWithdrawal_doc_binds_or_collision` that document is the document of no other
    (ids', tx', fee'), sequence, epoch or proposer — short of a SHA-256 collision. -/
theorem processWithdrawal_accepted_signed_over (bc : Bitcoin.Crypto) (rc : Crypto) (chainId : String)
    (rel : State) (s : Bitcoin.State) (vote : VoteMsg) (hv : Bool) (ids : List Nat) (tx : Bytes) (fee : Nat)
    (r : State × Bitcoin.State)
    (h : Bitcoin.processWithdrawal bc rc chainId rel s vote hv ids tx fee = .ok r) :
    ∃ keys, rc.aggVerify keys
      (voteSignDoc rc "Bitcoin/ProcessWithdrawal" chainId rel.proposer rel.seq rel.epoch
        ((ids.map le64).flatten ++ rc.sha256 tx ++ le64 fee)) vote.signature = true := by
  obtain ⟨_, _, _, _, pk, ks, _, _, hver, _⟩ := C01.processWithdrawal_needs_quorum bc rc chainId rel s vote hv ids tx fee r h
  exact ⟨_, hver⟩

/-! ## 5. non-vacuity -/

/-- a proposer string of the real shape: prefix "goat", separator "1", 32 data characters, 6 checksum
    characters = 43 bytes (the checksum here is not computed; only the length matters) -/
def proposerA : String := "goat1qqqqqqqqqqqqqqqqqqqqqqqqqqqqqqqqqqqqqq"
def proposerB : String := "goat1pzry9x8gf2tvdw0s3jn54khce6mua7lqqqqqqq"

example : (strBytes proposerA).length = 43 ∧ (strBytes proposerB).length = 43 ∧ proposerA ≠ proposerB := by
  refine ⟨?_, ?_, by decide⟩
  · rw [show proposerA = String.ofList _ from rfl, strBytes_ofList]; decide
  · rw [show proposerB = String.ofList _ from rfl, strBytes_ofList]; decide

/-- an injective "hash" (hypothesis of the `…_doc_binds` theorems) -/
def idCrypto : Crypto :=
  { sha256 := id, hash160 := id, aggVerify := fun _ _ _ => false, blsVerify := fun _ _ _ => false,
    ecdsaVerify := fun _ _ _ => false, addrOf := fun _ => "" }

example : Function.Injective idCrypto.sha256 := fun _ _ h => h

/-- a 32-byte "hash" (hypothesis of `processWithdrawal_doc_binds_or_collision`) -/
def padCrypto : Crypto :=
  { idCrypto with sha256 := fun x => (x ++ List.replicate 32 0).take 32 }

example : ∀ x, (padCrypto.sha256 x).length = 32 := by
  intro x; simp [padCrypto]

/-- the two payloads of ProcessWithdrawal for ids [1,2] and [2,1] (same digest, same fee) differ -/
example : ((([1, 2] : List Nat).map le64).flatten ++ List.replicate 32 (7 : UInt8) ++ le64 5)
        ≠ ((([2, 1] : List Nat).map le64).flatten ++ List.replicate 32 (7 : UInt8) ++ le64 5) := by decide

/-- with the injective toy hash: the documents of two ProcessWithdrawal messages that differ only in
    the ORDER of the ids differ (an instance of `signDoc_binds` with all hypotheses discharged) -/
example :
    voteSignDoc idCrypto "Bitcoin/ProcessWithdrawal" "goat-1" proposerA 3 1
        ((([1, 2] : List Nat).map le64).flatten ++ idCrypto.sha256 [9, 9] ++ le64 5)
    ≠ voteSignDoc idCrypto "Bitcoin/ProcessWithdrawal" "goat-1" proposerA 3 1
        ((([2, 1] : List Nat).map le64).flatten ++ idCrypto.sha256 [9, 9] ++ le64 5) := by
  intro h
  have := (signDoc_binds idCrypto (fun _ _ h => h) mem_ProcessWithdrawal mem_ProcessWithdrawal rfl
    (by decide) (by decide) (by decide) (by decide) h).2.2.2.2
  revert this
  decide

/-- and a document for one action is never a document for another action (same toy hash) -/
example (d d' : Bytes) :
    voteSignDoc idCrypto "Bitcoin/NewConsolidation" "goat-1" proposerA 3 1 d
    ≠ voteSignDoc idCrypto "Bitcoin/ReplaceWithdrawal" "goat-1" proposerA 3 1 d' := by
  intro h
  have := (signDoc_binds idCrypto (fun _ _ h => h) mem_NewConsolidation mem_ReplaceWithdrawal rfl
    (by decide) (by decide) (by decide) (by decide) h).2.2.1
  revert this
  decide

/-
  Readings.

  0.  strBytes_ofList            the bytes of a string literal are the concatenated UTF-8 encodings of its characters
      strBytes_injective         a string is determined by its UTF-8 bytes
      le64_length                LE64 is 8 bytes long
      le64_injective             LE64 is injective on values below 2^64
      le64_not_injective_unbounded   … and not beyond: LE64(0) = LE64(2^64) (model works on Nat; Go on uint64)
      map_le64_injective         a list of uint64 is determined by the list of its LE64 encodings
      flatten_injective_of_length    a concatenation of chunks of one fixed positive length determines the chunks
      flatten_not_injective_unvalidated   … and not without the length condition
  1.  methods / allMethods       the five bridge method names / with "Relayer/NewVoter"
      methods_prefix_free, allMethods_prefix_free   no method name is a byte prefix of another one
  2.  preimage_injective (…_all, …_of_prefixFree)   for one chain id, uint64 seq/epoch, listed methods and
                                 proposer strings of one length, the hashed byte string determines
                                 seq, epoch, method, proposer and payload
      preimage_not_injective_without_proposer_length   the length hypothesis on the proposer is needed
  3.  newBlocks_data_injective   payload ⇒ (start, hashes)       [start < 2^64, hashes 32 bytes each]
      processWithdrawal_data_injective   payload ⇒ (ids in order, digest, fee)   [uint64s, 32-byte digest]
      replaceWithdrawal_data_injective   payload ⇒ (pid, fee, digest)   [uint64s]
      newPubkey_data_injective   payload ⇒ key                   [keys passing Validate]
      newPubkey_data_not_injective_unvalidated   … and not for unknown key tags
      newConsolidation_data_injective    the payload is the digest
      newBlockHashes_ok_validated, newPubkey_ok_validated   the handlers enforce these validity conditions
  4.  ideal_hash_hyps_inconsistent   "sha256 injective" and "all digests 32 bytes" contradict each other
      (no_injection_succ, no_injective_fixed_length: the pigeonhole argument)
      signDoc_binds_or_collision (…_all_…)   equal documents ⇒ equal seq, epoch, method, proposer, payload, or a hash collision
      signDoc_binds              the same under an injective hash, no collision alternative
      newBlocks_/newPubkey_/processWithdrawal_/replaceWithdrawal_/newConsolidation_doc_binds_or_collision
                                 equal documents of two messages of that action ⇒ equal message fields
                                 (ids in the same order, fee, transaction, …) and equal seq/epoch/proposer, or a collision
      …_doc_binds                the same under an injective hash; processWithdrawal_doc_binds is the one
                                 that needs both ideal hypotheses and is therefore vacuous;
                                 processWithdrawal_doc_binds' is its non-vacuous form
      processWithdrawal_accepted_signed_over   an accepted ProcessWithdrawal has a verifying aggregate
                                 signature over the document of exactly its ids, tx and fee (from C01)
-/

end Goat.C01S
