/-
  C06H — hand-over exactly once, over histories.

  C06 (single step, GoatProofs/C06.lean) says what ONE call of `dequeue` does.  This file lifts it to
  whole histories: the bridge queue (and the locking queue) is a first-in-first-out log; along any
  interleaving of dequeues and of the operations that append to the queue, what has been handed to
  the execution layer followed by what is still queued is exactly what was queued at the start
  followed by everything appended since — nothing dropped, duplicated, invented or reordered within
  its kind; every dequeue respects the per-block caps; and the system transactions of the whole
  history carry the consecutive nonces `n, n+1, n+2, …` of the module.

  Sections
    1. what a batch of system transactions carries (`hashesOf`, `depositsOf`, `paidOf`, `rejectedOf`)
    2. the exact shape of one bridge dequeue (`dequeue_shape`)
    3. bridge histories `Hist` and the theorems `fifo_*`, `nonces_*`, `caps`, `block_cursor`
    4. every bridge entry point is an append-only step (`*_appends`, `*_unchanged`), and every run of
       the C05H operation language is a `Hist` (`run_hist`)
    5. locking histories `LHist` and `locking_*`
    6. every locking entry point is an append-only step
    7. non-vacuity
-/
import GoatModel.Bitcoin
import GoatModel.Locking
import GoatProofs.Lemmas.Bitcoin
import GoatProofs.Lemmas.BitcoinH
import GoatProofs.C03
import GoatProofs.C05H
import GoatProofs.C06
import GoatProofs.Lemmas.LockingConserve
import GoatProofs.C12H
import GoatProofs.Lemmas.LockingHist
namespace Goat.C06H
open Goat.Bitcoin Goat.C06

theorem two64_eq : two64 = 2 ^ 64 := by decide

/-! ## 1. what a batch of system transactions carries -/

def hashOf : SysTx → Option Bytes
  | .newBlock _ h => some h
  | _ => none
def depositOf : SysTx → Option DepositReceipt
  | .deposit _ r => some r
  | _ => none
def paidNoticeOf : SysTx → Option (Nat × Receipt)
  | .paid _ id r => some (id, r)
  | _ => none
def rejectedIdOf : SysTx → Option Nat
  | .cancel2 _ id => some id
  | _ => none

/-- block hashes announced by a batch, in order -/
def hashesOf (txs : List SysTx) : List Bytes := txs.filterMap hashOf
/-- deposit receipts credited by a batch, in order -/
def depositsOf (txs : List SysTx) : List DepositReceipt := txs.filterMap depositOf
/-- paid notices (id, receipt) of a batch, in order -/
def paidOf (txs : List SysTx) : List (Nat × Receipt) := txs.filterMap paidNoticeOf
/-- refund notices (ids) of a batch, in order -/
def rejectedOf (txs : List SysTx) : List Nat := txs.filterMap rejectedIdOf

theorem hashesOf_append (a b : List SysTx) : hashesOf (a ++ b) = hashesOf a ++ hashesOf b := by
  unfold hashesOf; rw [List.filterMap_append]
theorem depositsOf_append (a b : List SysTx) : depositsOf (a ++ b) = depositsOf a ++ depositsOf b := by
  unfold depositsOf; rw [List.filterMap_append]
theorem paidOf_append (a b : List SysTx) : paidOf (a ++ b) = paidOf a ++ paidOf b := by
  unfold paidOf; rw [List.filterMap_append]
theorem rejectedOf_append (a b : List SysTx) : rejectedOf (a ++ b) = rejectedOf a ++ rejectedOf b := by
  unfold rejectedOf; rw [List.filterMap_append]

/-- numbering does not change what the items carry -/
theorem filterMap_number {α β : Type} (f : SysTx → Option β) (g : α → Nat → SysTx) (k : α → Option β)
    (hfg : ∀ a n, f (g a n) = k a) : ∀ (l : List α) (n : Nat), (number n (l.map g)).filterMap f = l.filterMap k := by
  intro l
  induction l with
  | nil => intro n; rfl
  | cons a l ih =>
    intro n
    simp only [List.map_cons, number, List.filterMap_cons, hfg, ih]

theorem filterMap_none {α β : Type} (l : List α) : l.filterMap (fun _ => (none : Option β)) = [] := by
  induction l with
  | nil => rfl
  | cons a l ih => simp [ih]

theorem length_number : ∀ (fs : List (Nat → SysTx)) (n : Nat), (number n fs).length = fs.length := by
  intro fs
  induction fs with
  | nil => intro n; rfl
  | cons f fs ih => intro n; simp [number, ih]

/-- the four kinds of item of a bridge batch, awaiting their nonce -/
def items (hb : List Bytes) (ds : List DepositReceipt) (ps : List (Nat × Receipt)) (rs : List Nat) : List (Nat → SysTx) :=
  hb.map (fun h n => SysTx.newBlock n h) ++ ds.map (fun d n => SysTx.deposit n d) ++
    ps.map (fun p n => SysTx.paid n p.1 p.2) ++ rs.map (fun id n => SysTx.cancel2 n id)

theorem items_length (hb ds ps rs) : (items hb ds ps rs).length = hb.length + ds.length + ps.length + rs.length := by
  simp [items]; omega

/-- a numbered batch carries exactly its four lists, each in order -/
theorem carried_number_items (n : Nat) (hb : List Bytes) (ds : List DepositReceipt) (ps : List (Nat × Receipt)) (rs : List Nat) :
    hashesOf (number n (items hb ds ps rs)) = hb ∧ depositsOf (number n (items hb ds ps rs)) = ds ∧
    paidOf (number n (items hb ds ps rs)) = ps ∧ rejectedOf (number n (items hb ds ps rs)) = rs := by
  unfold items
  simp only [C05H.number_append]
  refine ⟨?_, ?_, ?_, ?_⟩
  · simp only [hashesOf_append]
    unfold hashesOf
    rw [filterMap_number hashOf (fun h n => SysTx.newBlock n h) (fun h => some h) (fun _ _ => rfl),
      filterMap_number hashOf (fun d n => SysTx.deposit n d) (fun _ => none) (fun _ _ => rfl),
      filterMap_number hashOf (fun (p : Nat × Receipt) n => SysTx.paid n p.1 p.2) (fun _ => none) (fun _ _ => rfl),
      filterMap_number hashOf (fun id n => SysTx.cancel2 n id) (fun _ => none) (fun _ _ => rfl)]
    simp [filterMap_none]
  · simp only [depositsOf_append]
    unfold depositsOf
    rw [filterMap_number depositOf (fun h n => SysTx.newBlock n h) (fun _ => none) (fun _ _ => rfl),
      filterMap_number depositOf (fun d n => SysTx.deposit n d) (fun d => some d) (fun _ _ => rfl),
      filterMap_number depositOf (fun (p : Nat × Receipt) n => SysTx.paid n p.1 p.2) (fun _ => none) (fun _ _ => rfl),
      filterMap_number depositOf (fun id n => SysTx.cancel2 n id) (fun _ => none) (fun _ _ => rfl)]
    simp [filterMap_none]
  · simp only [paidOf_append]
    unfold paidOf
    rw [filterMap_number paidNoticeOf (fun h n => SysTx.newBlock n h) (fun _ => none) (fun _ _ => rfl),
      filterMap_number paidNoticeOf (fun d n => SysTx.deposit n d) (fun _ => none) (fun _ _ => rfl),
      filterMap_number paidNoticeOf (fun (p : Nat × Receipt) n => SysTx.paid n p.1 p.2) (fun p => some p) (fun _ _ => rfl),
      filterMap_number paidNoticeOf (fun id n => SysTx.cancel2 n id) (fun _ => none) (fun _ _ => rfl)]
    simp [filterMap_none]
  · simp only [rejectedOf_append]
    unfold rejectedOf
    rw [filterMap_number rejectedIdOf (fun h n => SysTx.newBlock n h) (fun _ => none) (fun _ _ => rfl),
      filterMap_number rejectedIdOf (fun d n => SysTx.deposit n d) (fun _ => none) (fun _ _ => rfl),
      filterMap_number rejectedIdOf (fun (p : Nat × Receipt) n => SysTx.paid n p.1 p.2) (fun _ => none) (fun _ _ => rfl),
      filterMap_number rejectedIdOf (fun id n => SysTx.cancel2 n id) (fun id => some id) (fun _ _ => rfl)]
    simp [filterMap_none]

theorem items_nonce (hb ds ps rs) : ∀ f ∈ items hb ds ps rs, ∀ i, SysTx.nonce (f i) = i := by
  intro f hf i
  simp only [items, List.mem_append, List.mem_map] at hf
  rcases hf with ((⟨_, _, rfl⟩ | ⟨_, _, rfl⟩) | ⟨_, _, rfl⟩) | ⟨_, _, rfl⟩ <;> rfl

/-! ## 2. the exact shape of one bridge dequeue -/

theorem drop_take_length {α : Type} (l : List α) (k : Nat) : l.drop (l.take k).length = l.drop k := by
  rw [List.length_take]
  by_cases h : k ≤ l.length
  · rw [Nat.min_eq_left h]
  · have h' : l.length ≤ k := by omega
    rw [Nat.min_eq_right h', List.drop_length, List.drop_eq_nil_of_le h']

/-- **One dequeue, exactly.**  A successful `dequeue` hands over
    `number s.nonce (≤1 block hash ‖ first 8 deposits ‖ first 8 paid ‖ first (8 − #paid) refunds)`;
    the block hash, if any, is the voted hash of the height right above the cursor; exactly these
    prefixes leave the queue; the cursor advances by the number of hashes; and the nonce advances by
    the number of transactions (modulo 2^64) — an empty hand-over changes nothing. -/
theorem dequeue_shape (s s' : State) (txs : List SysTx) (h : dequeue s = .ok (s', txs)) :
    ∃ hb : List Bytes, hb.length ≤ 1 ∧
      (∀ x ∈ hb, s.queue.blockNumber < s.tip ∧ nlookup s.hashes (s.queue.blockNumber + 1) = some x) ∧
      txs = number s.nonce (items hb (s.queue.deposits.take 8) (s.queue.paid.take 8)
              (s.queue.rejected.take (8 - (s.queue.paid.take 8).length))) ∧
      s'.queue.deposits = s.queue.deposits.drop 8 ∧ s'.queue.paid = s.queue.paid.drop 8 ∧
      s'.queue.rejected = s.queue.rejected.drop (8 - (s.queue.paid.take 8).length) ∧
      s'.queue.blockNumber = s.queue.blockNumber + hb.length ∧
      (txs = [] → s' = s) ∧ (txs ≠ [] → s'.nonce = (s.nonce + txs.length) % two64) := by
  unfold dequeue at h
  dsimp only at h
  have finish : ∀ (hb : List Bytes), hb.length ≤ 1 →
      (∀ x ∈ hb, s.queue.blockNumber < s.tip ∧ nlookup s.hashes (s.queue.blockNumber + 1) = some x) →
      (let its := items hb (s.queue.deposits.take 8) (s.queue.paid.take 8)
              (s.queue.rejected.take (8 - (s.queue.paid.take 8).length))
       (if its.isEmpty then Outcome.ok (s, [])
        else .ok ({ s with queue := { blockNumber := s.queue.blockNumber + hb.length,
                                      deposits := s.queue.deposits.drop (s.queue.deposits.take 8).length,
                                      paid := s.queue.paid.drop (s.queue.paid.take 8).length,
                                      rejected := s.queue.rejected.drop (s.queue.rejected.take (8 - (s.queue.paid.take 8).length)).length },
                           nonce := (s.nonce + its.length) % two64 }, number s.nonce its)) = Outcome.ok (s', txs)) →
      ∃ hb : List Bytes, hb.length ≤ 1 ∧
        (∀ x ∈ hb, s.queue.blockNumber < s.tip ∧ nlookup s.hashes (s.queue.blockNumber + 1) = some x) ∧
        txs = number s.nonce (items hb (s.queue.deposits.take 8) (s.queue.paid.take 8)
                (s.queue.rejected.take (8 - (s.queue.paid.take 8).length))) ∧
        s'.queue.deposits = s.queue.deposits.drop 8 ∧ s'.queue.paid = s.queue.paid.drop 8 ∧
        s'.queue.rejected = s.queue.rejected.drop (8 - (s.queue.paid.take 8).length) ∧
        s'.queue.blockNumber = s.queue.blockNumber + hb.length ∧
        (txs = [] → s' = s) ∧ (txs ≠ [] → s'.nonce = (s.nonce + txs.length) % two64) := by
    intro hb hlen hhb hres
    dsimp only at hres
    split at hres
    · rename_i hemp
      simp only [Outcome.ok.injEq, Prod.mk.injEq] at hres
      obtain ⟨rfl, rfl⟩ := hres
      rw [List.isEmpty_iff] at hemp
      have hl := items_length hb (s.queue.deposits.take 8) (s.queue.paid.take 8)
        (s.queue.rejected.take (8 - (s.queue.paid.take 8).length))
      rw [hemp] at hl
      simp only [List.length_nil, List.length_take] at hl
      have hd : s.queue.deposits = [] := List.eq_nil_of_length_eq_zero (by omega)
      have hp : s.queue.paid = [] := List.eq_nil_of_length_eq_zero (by omega)
      have hr : s.queue.rejected = [] := by
        apply List.eq_nil_of_length_eq_zero
        rw [hp] at hl
        simp only [List.length_nil] at hl
        omega
      have hh : hb.length = 0 := by omega
      refine ⟨hb, hlen, hhb, by rw [hemp]; rfl, by rw [hd]; rfl, by rw [hp]; rfl, by rw [hr]; simp, by rw [hh]; rfl,
        fun _ => rfl, fun hc => absurd rfl hc⟩
    · rename_i hne
      simp only [Outcome.ok.injEq, Prod.mk.injEq] at hres
      obtain ⟨rfl, rfl⟩ := hres
      refine ⟨hb, hlen, hhb, rfl, ?_, ?_, ?_, rfl, ?_, ?_⟩
      · show s.queue.deposits.drop (s.queue.deposits.take 8).length = _
        exact drop_take_length _ _
      · show s.queue.paid.drop (s.queue.paid.take 8).length = _
        exact drop_take_length _ _
      · show s.queue.rejected.drop (s.queue.rejected.take (8 - (s.queue.paid.take 8).length)).length = _
        exact drop_take_length _ _
      · intro hc
        exfalso
        apply hne
        rw [List.isEmpty_iff]
        apply List.eq_nil_of_length_eq_zero
        rw [← length_number _ s.nonce, hc]; rfl
      · intro _
        show (s.nonce + _) % two64 = _
        rw [length_number]
  by_cases hlt : s.queue.blockNumber < s.tip
  · simp only [hlt, if_true] at h
    cases hh : nlookup s.hashes (s.queue.blockNumber + 1) with
    | none => simp [hh] at h
    | some bh =>
      simp only [hh] at h
      have := finish [bh] (by simp) (by intro x hx; simp at hx; subst hx; exact ⟨hlt, hh⟩) h
      rw [hh] at this
      exact this
  · simp only [hlt, if_false] at h
    exact finish [] (by simp) (by intro x hx; cases hx) h

/-- what one dequeue carries, read off the queue it started from -/
theorem dequeue_carries (s s' : State) (txs : List SysTx) (h : dequeue s = .ok (s', txs)) :
    depositsOf txs = s.queue.deposits.take 8 ∧ paidOf txs = s.queue.paid.take 8 ∧
    rejectedOf txs = s.queue.rejected.take (8 - (s.queue.paid.take 8).length) ∧
    (hashesOf txs).length ≤ 1 ∧ s'.queue.blockNumber = s.queue.blockNumber + (hashesOf txs).length ∧
    (∀ x ∈ hashesOf txs, s.queue.blockNumber < s.tip ∧ nlookup s.hashes (s.queue.blockNumber + 1) = some x) ∧
    txs = number s.nonce (items (hashesOf txs) (depositsOf txs) (paidOf txs) (rejectedOf txs)) := by
  obtain ⟨hb, h1, h2, h3, _, _, _, h7, _, _⟩ := dequeue_shape s s' txs h
  obtain ⟨c1, c2, c3, c4⟩ := carried_number_items s.nonce hb (s.queue.deposits.take 8) (s.queue.paid.take 8)
    (s.queue.rejected.take (8 - (s.queue.paid.take 8).length))
  rw [← h3] at c1 c2 c3 c4
  refine ⟨c2, c3, c4, by rw [c1]; exact h1, by rw [c1]; exact h7, by rw [c1]; exact h2, ?_⟩
  rw [c1, c2, c3, c4]; exact h3

/-- **one dequeue conserves each kind**: handed over ++ still queued = previously queued -/
theorem dequeue_conserves (s s' : State) (txs : List SysTx) (h : dequeue s = .ok (s', txs)) :
    depositsOf txs ++ s'.queue.deposits = s.queue.deposits ∧ paidOf txs ++ s'.queue.paid = s.queue.paid ∧
    rejectedOf txs ++ s'.queue.rejected = s.queue.rejected := by
  obtain ⟨c1, c2, c3, _⟩ := dequeue_carries s s' txs h
  obtain ⟨_, _, _, _, h4, h5, h6, _⟩ := dequeue_shape s s' txs h
  rw [c1, c2, c3, h4, h5, h6]
  exact ⟨List.take_append_drop .., List.take_append_drop .., List.take_append_drop ..⟩

/-- **caps of one dequeue**: ≤ 1 block hash, ≤ 8 deposits, ≤ 8 paid + refunds together, ≤ 17 in all -/
theorem dequeue_caps (s s' : State) (txs : List SysTx) (h : dequeue s = .ok (s', txs)) :
    (hashesOf txs).length ≤ 1 ∧ (depositsOf txs).length ≤ 8 ∧ (paidOf txs).length + (rejectedOf txs).length ≤ 8 ∧
    txs.length = (hashesOf txs).length + (depositsOf txs).length + (paidOf txs).length + (rejectedOf txs).length ∧
    txs.length ≤ 17 := by
  obtain ⟨c1, c2, c3, c4, _, _, c7⟩ := dequeue_carries s s' txs h
  have hl : txs.length = (hashesOf txs).length + (depositsOf txs).length + (paidOf txs).length + (rejectedOf txs).length := by
    have := congrArg List.length c7
    rw [length_number, items_length] at this
    exact this
  have l1 : (depositsOf txs).length ≤ 8 := by rw [c1, List.length_take]; omega
  have l2 : (paidOf txs).length + (rejectedOf txs).length ≤ 8 := by
    rw [c3, c2]; simp only [List.length_take]; omega
  exact ⟨c4, l1, l2, hl, by omega⟩

/-! ## 3. bridge histories -/

/-- **append-only step** (class ii): some deposits / paid notices / refund notices are appended at the
    back of their queue; the cursor and the nonce are untouched (everything else may change). -/
structure Appends (s s' : State) (d : List DepositReceipt) (p : List (Nat × Receipt)) (r : List Nat) : Prop where
  deposits : s'.queue.deposits = s.queue.deposits ++ d
  paid : s'.queue.paid = s.queue.paid ++ p
  rejected : s'.queue.rejected = s.queue.rejected ++ r
  blockNumber : s'.queue.blockNumber = s.queue.blockNumber
  nonce : s'.nonce = s.nonce

/-- a step that leaves the queue and the nonce alone (in particular: a failed operation, rolled back
    by the transaction wrapper; a proposed payload that is never finalised) -/
def Unchanged (s s' : State) : Prop := s'.queue = s.queue ∧ s'.nonce = s.nonce

theorem Unchanged.refl (s : State) : Unchanged s s := ⟨rfl, rfl⟩

theorem Unchanged.appends {s s' : State} (h : Unchanged s s') : Appends s s' [] [] [] :=
  ⟨by rw [h.1, List.append_nil], by rw [h.1, List.append_nil], by rw [h.1, List.append_nil], by rw [h.1], h.2⟩

theorem Appends.refl (s : State) : Appends s s [] [] [] := (Unchanged.refl s).appends

theorem Appends.trans {a b c : State} {d1 d2 p1 p2 r1 r2} (h1 : Appends a b d1 p1 r1) (h2 : Appends b c d2 p2 r2) :
    Appends a c (d1 ++ d2) (p1 ++ p2) (r1 ++ r2) :=
  ⟨by rw [h2.deposits, h1.deposits, List.append_assoc], by rw [h2.paid, h1.paid, List.append_assoc],
   by rw [h2.rejected, h1.rejected, List.append_assoc], h2.blockNumber.trans h1.blockNumber, h2.nonce.trans h1.nonce⟩

/-- **History** from `s`: a sequence of successful dequeues (class i; each contributes its batch of
    system transactions to `batches`) and append-only steps (class ii; each contributes what it
    appended to `d`, `p`, `r`), in any interleaving.  The execution layer has been handed
    `batches.flatten`. -/
inductive Hist (s : State) : State → List (List SysTx) → List DepositReceipt → List (Nat × Receipt) → List Nat → Prop
  | nil : Hist s s [] [] [] []
  | deq {s1 s2 : State} {bs d p r} {txs : List SysTx} :
      Hist s s1 bs d p r → dequeue s1 = .ok (s2, txs) → Hist s s2 (bs ++ [txs]) d p r
  | app {s1 s2 : State} {bs d p r d' p' r'} :
      Hist s s1 bs d p r → Appends s1 s2 d' p' r' → Hist s s2 bs (d ++ d') (p ++ p') (r ++ r')

/-- everything handed to the execution layer along a history, in order -/
abbrev handed (bs : List (List SysTx)) : List SysTx := bs.flatten

theorem Hist.single_deq {s s' : State} {txs : List SysTx} (h : dequeue s = .ok (s', txs)) : Hist s s' [txs] [] [] [] :=
  Hist.deq Hist.nil h

theorem Hist.single_app {s s' : State} {d p r} (h : Appends s s' d p r) : Hist s s' [] d p r := by
  have := Hist.app Hist.nil h
  simpa using this

/-- a step that changes neither queue nor nonce can be inserted anywhere -/
theorem Hist.unchanged {s s1 s2 : State} {bs d p r} (h : Hist s s1 bs d p r) (hu : Unchanged s1 s2) : Hist s s2 bs d p r := by
  have := Hist.app h hu.appends
  simpa using this

/-- histories compose -/
theorem Hist.trans {a b c : State} {bs1 d1 p1 r1 bs2 d2 p2 r2} (h1 : Hist a b bs1 d1 p1 r1) (h2 : Hist b c bs2 d2 p2 r2) :
    Hist a c (bs1 ++ bs2) (d1 ++ d2) (p1 ++ p2) (r1 ++ r2) := by
  induction h2 with
  | nil => simpa using h1
  | deq _ hd ih =>
    rw [← List.append_assoc]
    exact Hist.deq ih hd
  | app _ ha ih =>
    rw [← List.append_assoc, ← List.append_assoc, ← List.append_assoc]
    exact Hist.app ih ha

/-- **A1. FIFO, all three kinds at once.** -/
theorem fifo {s s' : State} {bs d p r} (h : Hist s s' bs d p r) :
    depositsOf (handed bs) ++ s'.queue.deposits = s.queue.deposits ++ d ∧
    paidOf (handed bs) ++ s'.queue.paid = s.queue.paid ++ p ∧
    rejectedOf (handed bs) ++ s'.queue.rejected = s.queue.rejected ++ r := by
  induction h with
  | nil => simp [handed, depositsOf, paidOf, rejectedOf]
  | deq _ hd ih =>
    obtain ⟨i1, i2, i3⟩ := ih
    obtain ⟨c1, c2, c3⟩ := dequeue_conserves _ _ _ hd
    simp only [handed, List.flatten_append, List.flatten_cons, List.flatten_nil, List.append_nil,
      depositsOf_append, paidOf_append, rejectedOf_append, List.append_assoc]
    rw [c1, c2, c3]
    exact ⟨i1, i2, i3⟩
  | app _ ha ih =>
    obtain ⟨i1, i2, i3⟩ := ih
    refine ⟨?_, ?_, ?_⟩
    · rw [ha.deposits, ← List.append_assoc, i1, List.append_assoc]
    · rw [ha.paid, ← List.append_assoc, i2, List.append_assoc]
    · rw [ha.rejected, ← List.append_assoc, i3, List.append_assoc]

/-- **A1 (deposits).**  The deposit receipts handed over (in hand-over order) followed by the
    deposits still queued are exactly the deposits queued at the start followed by all deposits
    appended since (in append order): no credited deposit is dropped, duplicated, invented or
    overtaken. -/
theorem fifo_deposits {s s' : State} {bs d p r} (h : Hist s s' bs d p r) :
    depositsOf (handed bs) ++ s'.queue.deposits = s.queue.deposits ++ d := (fifo h).1

/-- **A1 (paid).** the same for paid notices (id and receipt) -/
theorem fifo_paid {s s' : State} {bs d p r} (h : Hist s s' bs d p r) :
    paidOf (handed bs) ++ s'.queue.paid = s.queue.paid ++ p := (fifo h).2.1

/-- **A1 (refunds).** the same for refund notices -/
theorem fifo_rejected {s s' : State} {bs d p r} (h : Hist s s' bs d p r) :
    rejectedOf (handed bs) ++ s'.queue.rejected = s.queue.rejected ++ r := (fifo h).2.2

/-- corollary: what has been handed over is a prefix of (initially queued ++ appended) — nothing is
    handed over that was not owed, and never ahead of an older item of its kind -/
theorem handed_prefix {s s' : State} {bs d p r} (h : Hist s s' bs d p r) :
    depositsOf (handed bs) <+: s.queue.deposits ++ d ∧ paidOf (handed bs) <+: s.queue.paid ++ p ∧
    rejectedOf (handed bs) <+: s.queue.rejected ++ r := by
  obtain ⟨h1, h2, h3⟩ := fifo h
  exact ⟨⟨_, h1⟩, ⟨_, h2⟩, ⟨_, h3⟩⟩

/-- corollary: once the queue has drained, exactly everything owed has been handed over -/
theorem drained_all_handed {s s' : State} {bs d p r} (h : Hist s s' bs d p r)
    (hd : s'.queue.deposits = []) (hp : s'.queue.paid = []) (hr : s'.queue.rejected = []) :
    depositsOf (handed bs) = s.queue.deposits ++ d ∧ paidOf (handed bs) = s.queue.paid ++ p ∧
    rejectedOf (handed bs) = s.queue.rejected ++ r := by
  obtain ⟨h1, h2, h3⟩ := fifo h
  rw [hd, List.append_nil] at h1
  rw [hp, List.append_nil] at h2
  rw [hr, List.append_nil] at h3
  exact ⟨h1, h2, h3⟩

/-- **an unfinalised payload consumes nothing**: `dequeue` is a function of the committed state
    only and a history contains only the dequeues whose payload was finalised (a proposal that is
    dropped leaves the state where it was — the trivial step `Unchanged.refl`).  Building a payload
    again from the same committed state therefore hands over the very same transactions under the
    very same nonces. -/
theorem proposal_deterministic (s s1 s2 : State) (t1 t2 : List SysTx)
    (h1 : dequeue s = .ok (s1, t1)) (h2 : dequeue s = .ok (s2, t2)) : s1 = s2 ∧ t1 = t2 := by
  rw [h1] at h2
  simp only [Outcome.ok.injEq, Prod.mk.injEq] at h2
  exact h2

/-- the stored nonce along a history, wrap-around included -/
theorem nonce_mod {s s' : State} {bs d p r} (h : Hist s s' bs d p r) (h0 : s.nonce < two64) :
    s'.nonce = (s.nonce + (handed bs).length) % two64 := by
  induction h with
  | nil => simp only [handed, List.flatten_nil, List.length_nil, Nat.add_zero]; exact (Nat.mod_eq_of_lt h0).symm
  | @deq s1 s2 bs d p r txs _ hd ih =>
    obtain ⟨_, _, _, _, _, _, _, _, e1, e2⟩ := dequeue_shape _ _ _ hd
    simp only [handed, List.flatten_append, List.flatten_cons, List.flatten_nil, List.append_nil, List.length_append]
    by_cases ht : txs = []
    · rw [e1 ht, ht, List.length_nil, Nat.add_zero]; exact ih
    · rw [e2 ht, ih]
      simp only [handed, two64]
      omega
  | app _ ha ih => rw [ha.nonce]; exact ih

/-- **A2. Nonces.**  If the 64-bit nonce does not wrap during the history, the system transactions
    handed over along the *whole* history carry the consecutive nonces `s.nonce, s.nonce+1, …` — no
    gap, no reuse, across all dequeues — and the stored nonce has advanced by exactly their number. -/
theorem nonces_consecutive {s s' : State} {bs d p r} (h : Hist s s' bs d p r)
    (hw : s.nonce + (handed bs).length < two64) :
    Consecutive s.nonce (handed bs) ∧ s'.nonce = s.nonce + (handed bs).length := by
  induction h with
  | nil => exact ⟨trivial, rfl⟩
  | @deq s1 s2 bs d p r txs _ hd ih =>
    have hl : (handed (bs ++ [txs])).length = (handed bs).length + txs.length := by
      simp [handed]
    rw [hl] at hw
    obtain ⟨i1, i2⟩ := ih (by omega)
    obtain ⟨_, _, _, e0, _, _, _, _, e1, e2⟩ := dequeue_shape _ _ _ hd
    have hc : Consecutive s1.nonce txs := by
      rw [e0]; exact (consecutive_number _ _ (items_nonce _ _ _ _)).1
    have hh : handed (bs ++ [txs]) = handed bs ++ txs := by simp [handed]
    rw [hh]
    refine ⟨consecutive_append _ _ _ i1 (by rw [← i2]; exact hc), ?_⟩
    by_cases ht : txs = []
    · rw [e1 ht, ht, List.append_nil]; exact i2
    · rw [e2 ht, i2, List.length_append, Nat.mod_eq_of_lt (by omega)]; omega
  | app _ ha ih =>
    obtain ⟨i1, i2⟩ := ih hw
    exact ⟨i1, ha.nonce.trans i2⟩

theorem consecutive_getElem : ∀ (l : List SysTx) (n : Nat), Consecutive n l → ∀ i, (hi : i < l.length) → SysTx.nonce l[i] = n + i := by
  intro l
  induction l with
  | nil => intro n _ i hi; exact absurd hi (by simp)
  | cons t ts ih =>
    intro n hc i hi
    cases i with
    | zero => exact hc.1
    | succ k =>
      have := ih (n + 1) hc.2 k (by simp at hi; omega)
      simp only [List.getElem_cons_succ]
      omega

/-- **A2, pointwise**: the `i`-th system transaction ever handed over carries nonce `s.nonce + i` -/
theorem nonce_at {s s' : State} {bs d p r} (h : Hist s s' bs d p r) (hw : s.nonce + (handed bs).length < two64)
    (i : Nat) (hi : i < (handed bs).length) : SysTx.nonce (handed bs)[i] = s.nonce + i :=
  consecutive_getElem _ _ (nonces_consecutive h hw).1 i hi

/-- **A2, no reuse**: two different positions of the hand-over log never carry the same nonce -/
theorem nonce_injective {s s' : State} {bs d p r} (h : Hist s s' bs d p r) (hw : s.nonce + (handed bs).length < two64)
    (i j : Nat) (hi : i < (handed bs).length) (hj : j < (handed bs).length)
    (he : SysTx.nonce (handed bs)[i] = SysTx.nonce (handed bs)[j]) : i = j := by
  rw [nonce_at h hw i hi, nonce_at h hw j hj] at he
  omega

/-- **A3. Caps and shape of every batch of a history**: each single dequeue hands over at most one
    block hash, at most 8 deposits, at most 8 paid + refund notices together (at most 17
    transactions), in the order hash, deposits, paid, refunds. -/
theorem caps {s s' : State} {bs d p r} (h : Hist s s' bs d p r) :
    ∀ txs ∈ bs, (hashesOf txs).length ≤ 1 ∧ (depositsOf txs).length ≤ 8 ∧
      (paidOf txs).length + (rejectedOf txs).length ≤ 8 ∧ txs.length ≤ 17 ∧
      ∃ n, txs = number n (items (hashesOf txs) (depositsOf txs) (paidOf txs) (rejectedOf txs)) := by
  induction h with
  | nil => intro txs ht; cases ht
  | @deq s1 s2 bs d p r txs _ hd ih =>
    intro t ht
    rcases List.mem_append.mp ht with ht | ht
    · exact ih t ht
    · simp only [List.mem_singleton] at ht
      subst ht
      obtain ⟨k1, k2, k3, _, k5⟩ := dequeue_caps _ _ _ hd
      exact ⟨k1, k2, k3, k5, s1.nonce, (dequeue_carries _ _ _ hd).2.2.2.2.2.2⟩
  | app _ _ ih => exact ih

/-- the block-hash cursor advances by exactly the number of block hashes handed over: heights are
    announced one by one, each at most once, none skipped -/
theorem block_cursor {s s' : State} {bs d p r} (h : Hist s s' bs d p r) :
    s'.queue.blockNumber = s.queue.blockNumber + (hashesOf (handed bs)).length := by
  induction h with
  | nil => simp [handed, hashesOf]
  | deq _ hd ih =>
    obtain ⟨_, _, _, _, c5, _⟩ := dequeue_carries _ _ _ hd
    simp only [handed, List.flatten_append, List.flatten_cons, List.flatten_nil, List.append_nil, hashesOf_append,
      List.length_append]
    rw [c5, ih]
    simp only [handed]
    omega
  | app _ ha ih => rw [ha.blockNumber]; exact ih

/-! ## 4. every bridge entry point is an append-only step -/

theorem onlyWithdrawals_unchanged {a b : State} (h : C05H.OnlyWithdrawals a b) : Unchanged a b := by
  unfold C05H.OnlyWithdrawals at h
  exact ⟨by rw [h], by rw [h]⟩

theorem Unchanged.trans {a b c : State} (h1 : Unchanged a b) (h2 : Unchanged b c) : Unchanged a c :=
  ⟨h2.1.trans h1.1, h2.2.trans h1.2⟩

/-- the deposit loop never touches the queue or the nonce and yields one receipt per message item -/
theorem newDeposits_go_queue (c : Crypto) (headers : List (Nat × Bytes)) (rel' : Relayer.State) :
    ∀ (l : List Deposit) (a : State) (acc : List DepositReceipt) (b : State) (rs : List DepositReceipt),
      newDeposits.go c headers rel' l a acc = .ok (b, rs) →
      Unchanged a b ∧ ∃ new : List DepositReceipt, rs = acc.reverse ++ new ∧ new.length = l.length := by
  intro l
  induction l with
  | nil =>
    intro a acc b rs h
    simp only [newDeposits.go, Outcome.ok.injEq, Prod.mk.injEq] at h
    obtain ⟨rfl, rfl⟩ := h
    exact ⟨Unchanged.refl _, [], by simp, rfl⟩
  | cons d rest ih =>
    intro a acc b rs h
    simp only [newDeposits.go] at h
    split at h
    · cases h
    · split at h
      · cases h
      · cases h
      · rename_i r _
        obtain ⟨e1, new, e2, e3⟩ := ih _ _ _ _ h
        exact ⟨⟨e1.1, e1.2⟩, r :: new, by rw [e2]; simp, by simp [e3]⟩

/-- **B. NewDeposits appends** its receipts (one per deposit of the message, in message order) at
    the back of the deposit queue and touches nothing else of the queue, nor the nonce. -/
theorem newDeposits_appends (c : Crypto) (rel : Relayer.State) (s : State) (m : NewDepositsMsg) (r : Relayer.State × State)
    (h : newDeposits c rel s m = .ok r) :
    ∃ new : List DepositReceipt, Appends s r.2 new [] [] ∧ new.length = m.deposits.length := by
  unfold newDeposits at h
  split at h; · cases h
  split at h; · cases h
  split at h
  · cases h
  split at h
  · cases h
  · cases h
  split at h
  · cases h
  · cases h
  rename_i s1 rs hgo
  cases h
  obtain ⟨⟨e1, e2⟩, new, e3, e4⟩ := newDeposits_go_queue _ _ _ _ _ _ _ _ hgo
  simp only [List.reverse_nil, List.nil_append] at e3
  subst e3
  refine ⟨rs, ⟨?_, ?_, ?_, ?_, e2⟩, e4⟩
  · show s1.queue.deposits ++ rs = _; rw [e1]
  · show s1.queue.paid = _; rw [e1, List.append_nil]
  · show s1.queue.rejected = _; rw [e1, List.append_nil]
  · show s1.queue.blockNumber = _; rw [e1]

/-- the appended receipts are the ones C03 proves to be credited for the first time (link to
    `C03_deposit_once`: same list) -/
theorem newDeposits_appends_credited (c : Crypto) (rel rel' : Relayer.State) (s s' : State) (m : NewDepositsMsg)
    (h : newDeposits c rel s m = .ok (rel', s')) (hn : (C03.depositedKeys s).Nodup) :
    ∃ new : List DepositReceipt, Appends s s' new [] [] ∧
      C03.depositedKeys s' = C03.depositedKeys s ++ new.map (fun r => (r.txid, r.txout)) ∧ (C03.depositedKeys s').Nodup := by
  obtain ⟨new, ha, _⟩ := newDeposits_appends c rel s m _ h
  obtain ⟨new', e1, e2, e3⟩ := C03.C03_deposit_once c rel rel' s s' m h hn
  have : new = new' := List.append_cancel_left (ha.deposits.symm.trans e1)
  subst this
  exact ⟨new, ha, e2, e3⟩

/-- **B. FinalizeWithdrawal appends** one paid notice per withdrawal of the finalised processing
    record (in record order) at the back of the paid queue and touches nothing else of the queue,
    nor the nonce. -/
theorem finalizeWithdrawal_appends (c : Crypto) (rel : Relayer.State) (s : State) (m : FinalizeMsg) (r : Relayer.State × State)
    (h : finalizeWithdrawal c rel s m = .ok r) :
    ∃ (pr : Processing) (extra : List (Nat × Receipt)), nlookup s.processing m.pid = some pr ∧
      extra.map (·.1) = pr.withdrawals ∧ Appends s r.2 [] extra [] := by
  unfold finalizeWithdrawal at h
  split at h; · cases h
  split at h; · cases h
  split at h; · cases h
  split at h
  · cases h
  · cases h
  split at h
  · cases h
  rename_i p hp
  split at h; · cases h
  split at h
  · cases h
  rename_i idx hidx
  simp only at h
  split at h; · cases h
  split at h
  · cases h
  split at h; · cases h
  split at h; · cases h
  split at h
  · cases h
  · cases h
  rename_i s1 hgo
  cases h
  obtain ⟨g1, _, extra, g3, g4, _⟩ := C05H.finalize_go_spec m _ _ _ _ _ hgo
  unfold C05H.OnlyWP at g1
  refine ⟨p, extra, hp, g4, ⟨?_, g3, ?_, ?_, ?_⟩⟩
  · show s1.queue.deposits = _; rw [g1, List.append_nil]
  · show s1.queue.rejected = _; rw [g1, List.append_nil]
  · show s1.queue.blockNumber = _; rw [g1]
  · show s1.nonce = _; rw [g1]

/-- **B. ApproveCancellation appends** exactly the approved ids, in message order, at the back of
    the refund queue and touches nothing else of the queue, nor the nonce. -/
theorem approveCancellation_appends (rel : Relayer.State) (s : State) (proposer : String) (ids : List Nat)
    (r : Relayer.State × State) (h : approveCancellation rel s proposer ids = .ok r) : Appends s r.2 [] [] ids := by
  unfold approveCancellation at h
  split at h; · cases h
  split at h
  · cases h
  · cases h
  split at h
  · cases h
  · cases h
  rename_i s1 hgo
  cases h
  obtain ⟨g1, _⟩ := C05H.approve_go_spec _ _ _ hgo
  obtain ⟨q, n⟩ := onlyWithdrawals_unchanged g1
  refine ⟨?_, ?_, ?_, ?_, n⟩
  · show s1.queue.deposits = _; rw [q, List.append_nil]
  · show s1.queue.paid = _; rw [q, List.append_nil]
  · show s1.queue.rejected ++ ids = _; rw [q]
  · show s1.queue.blockNumber = _; rw [q]

/-- the refund list built by the creation fold: the ids with an undecodable address, in request
    order — no freshness hypothesis needed -/
theorem create_fold_rejecting (c : Crypto) : ∀ (ws : List WithdrawReq) (acc : List (Nat × Withdrawal) × List Nat),
    (ws.foldl (C05H.createStep c) acc).2 = acc.2 ++ C05H.badIds c ws := by
  intro ws
  induction ws with
  | nil => intro acc; simp [C05H.badIds]
  | cons v rest ih =>
    intro acc
    rw [List.foldl_cons, ih]
    cases hval : (c.decodeAddr v.address).isSome with
    | true => rw [C05H.badIds_cons_valid c v rest hval]; simp [C05H.createStep, hval]
    | false => rw [C05H.badIds_cons_invalid c v rest hval]; simp [C05H.createStep, hval]

/-- **B. ProcessBridgeRequest appends** exactly the ids of the creation requests whose address does
    not decode (refund at creation), in request order, at the back of the refund queue and touches
    nothing else of the queue, nor the nonce. -/
theorem processBridgeRequest_appends (c : Crypto) (s s' : State) (r : BridgeReqs)
    (h : processBridgeRequest c s r = .ok s') : Appends s s' [] [] (C05H.badIds c r.withdraws) := by
  rw [C05H.bridge_unfold] at h
  split at h
  · rename_i hc
    cases h
    have hw : r.withdraws = [] := by
      unfold BridgeReqs.count at hc
      exact List.eq_nil_of_length_eq_zero (by omega)
    rw [hw]
    exact Appends.refl _
  · dsimp only at h
    split at h
    · cases h
    · cases h
    rename_i s2 hrbf
    split at h
    · cases h
    · cases h
    rename_i s3 hcan
    cases h
    obtain ⟨r1, _⟩ := C05H.rbf_go_spec _ _ _ hrbf
    obtain ⟨k1, _⟩ := C05H.cancel_go_spec _ _ _ hcan
    obtain ⟨q, n⟩ := (onlyWithdrawals_unchanged r1).trans (onlyWithdrawals_unchanged k1)
    have c2 := create_fold_rejecting c r.withdraws (s.withdrawals, [])
    simp only [List.nil_append] at c2
    refine ⟨?_, ?_, ?_, ?_, n⟩
    · show s3.queue.deposits = _; rw [q, List.append_nil]
    · show s3.queue.paid = _; rw [q, List.append_nil]
    · show s3.queue.rejected = _; rw [q]; show s.queue.rejected ++ _ = _; rw [c2]
    · show s3.queue.blockNumber = _; rw [q]

/-- **B. NewBlockHashes** leaves the queue and the nonce unchanged (it only extends the voted chain) -/
theorem newBlockHashes_unchanged (rc : Relayer.Crypto) (chainId : String) (rel : Relayer.State) (s : State)
    (vote : Relayer.VoteMsg) (hv : Bool) (start : Nat) (hashes : List Bytes) (r : Relayer.State × State)
    (h : newBlockHashes rc chainId rel s vote hv start hashes = .ok r) : Unchanged s r.2 := by
  unfold newBlockHashes at h
  repeat (first | (split at h <;> try cases h) | dsimp only at h)
  all_goals exact ⟨rfl, rfl⟩

/-- **B. NewPubkey** leaves the queue and the nonce unchanged -/
theorem newPubkey_unchanged (rc : Relayer.Crypto) (chainId : String) (rel : Relayer.State) (s : State)
    (vote : Relayer.VoteMsg) (hv : Bool) (pk : PubKey) (r : Relayer.State × State)
    (h : newPubkey rc chainId rel s vote hv pk = .ok r) : Unchanged s r.2 := by
  unfold newPubkey at h
  repeat (first | (split at h <;> try cases h) | dsimp only at h)
  all_goals exact ⟨rfl, rfl⟩

/-- **B. NewConsolidation** leaves the queue and the nonce unchanged -/
theorem newConsolidation_unchanged (c : Crypto) (rc : Relayer.Crypto) (chainId : String) (rel : Relayer.State) (s : State)
    (vote : Relayer.VoteMsg) (hv : Bool) (tx : Bytes) (r : Relayer.State × State)
    (h : newConsolidation c rc chainId rel s vote hv tx = .ok r) : Unchanged s r.2 := by
  unfold newConsolidation at h
  repeat (first | (split at h <;> try cases h) | dsimp only at h)
  all_goals exact ⟨rfl, rfl⟩

/-- **B. ProcessWithdrawal** leaves the queue and the nonce unchanged (the notice is queued only when
    the payment is finalised) -/
theorem processWithdrawal_unchanged (c : Crypto) (rc : Relayer.Crypto) (chainId : String) (rel : Relayer.State) (s : State)
    (vote : Relayer.VoteMsg) (hv : Bool) (ids : List Nat) (tx : Bytes) (fee : Nat) (r : Relayer.State × State)
    (h : processWithdrawal c rc chainId rel s vote hv ids tx fee = .ok r) : Unchanged s r.2 := by
  unfold processWithdrawal at h
  split at h; · cases h
  split at h; · cases h
  split at h; · cases h
  split at h; · cases h
  split at h
  · cases h
  rename_i outs hparse
  split at h; · cases h
  dsimp only at h
  split at h
  · cases h
  · cases h
  rename_i rel' seq hvp
  split at h
  · cases h
  · cases h
  rename_i s1 vals hgo
  split at h; · cases h
  cases h
  obtain ⟨g1, _⟩ := C05H.process_go_full c tx fee outs (c.dsha256 tx) ids 0 s [] s1 vals hgo
  obtain ⟨q, n⟩ := onlyWithdrawals_unchanged g1
  exact ⟨q, n⟩

/-- **B. ReplaceWithdrawal** leaves the queue and the nonce unchanged -/
theorem replaceWithdrawal_unchanged (c : Crypto) (rc : Relayer.Crypto) (chainId : String) (rel : Relayer.State) (s : State)
    (vote : Relayer.VoteMsg) (hv : Bool) (pid : Nat) (tx : Bytes) (fee : Nat) (r : Relayer.State × State)
    (h : replaceWithdrawal c rc chainId rel s vote hv pid tx fee = .ok r) : Unchanged s r.2 := by
  unfold replaceWithdrawal at h
  split at h; · cases h
  split at h; · cases h
  split at h; · cases h
  split at h
  · cases h
  rename_i outs hparse
  dsimp only at h
  split at h
  · cases h
  rename_i p hp
  split at h; · cases h
  split at h; · cases h
  split at h; · cases h
  split at h
  · cases h
  · cases h
  rename_i rel' seq hvp
  split at h
  · cases h
  · cases h
  rename_i s1 vals hgo
  split at h; · cases h
  cases h
  obtain ⟨g1, _⟩ := C05H.replace_go_spec c tx fee outs (c.dsha256 tx) p.withdrawals 0 s [] s1 vals hgo
  obtain ⟨q, n⟩ := onlyWithdrawals_unchanged g1
  exact ⟨q, n⟩

/-! ### every run of the C05H operation language is a history -/

theorem paidIds_eq (txs : List SysTx) : C05H.paidIds txs = (paidOf txs).map (·.1) := by
  unfold C05H.paidIds paidOf
  rw [List.map_filterMap]
  congr 1
  funext t
  cases t <;> rfl

theorem refundIds_eq (txs : List SysTx) : C05H.refundIds txs = rejectedOf txs := by
  unfold C05H.refundIds rejectedOf
  congr 1

/-- one operation of the C05H language (any of the nine message handlers with arbitrary arguments,
    the execution-layer request processing, a dequeue, or an arbitrary change of the relayer group;
    failed operations leave the state unchanged) is a one-step history; the ghost logs of delivered
    notices grow by exactly what the batch carries -/
theorem apply_hist (e : C05H.Env) (g : C05H.G) (op : C05H.Op) :
    ∃ bs d p r, Hist g.st (C05H.apply e g op).st bs d p r ∧ bs.length ≤ 1 ∧
      (C05H.apply e g op).dPaid = g.dPaid ++ (paidOf (handed bs)).map (·.1) ∧
      (C05H.apply e g op).dRefund = g.dRefund ++ rejectedOf (handed bs) := by
  have wr : ∀ (o : Outcome (Relayer.State × State)),
      (∀ r, o = .ok r → ∃ d p r', Appends g.st r.2 d p r') →
      ∃ bs d p r, Hist g.st (C05H.withRes g o).st bs d p r ∧ bs.length ≤ 1 ∧
        (C05H.withRes g o).dPaid = g.dPaid ++ (paidOf (handed bs)).map (·.1) ∧
        (C05H.withRes g o).dRefund = g.dRefund ++ rejectedOf (handed bs) := by
    intro o ho
    cases o with
    | ok r =>
      obtain ⟨d, p, r', ha⟩ := ho r rfl
      exact ⟨[], d, p, r', Hist.single_app ha, by simp, by simp [C05H.withRes, handed, paidOf], by simp [C05H.withRes, handed, rejectedOf]⟩
    | err x => exact ⟨[], [], [], [], Hist.nil, by simp, by simp [C05H.withRes, handed, paidOf], by simp [C05H.withRes, handed, rejectedOf]⟩
    | panic x => exact ⟨[], [], [], [], Hist.nil, by simp, by simp [C05H.withRes, handed, paidOf], by simp [C05H.withRes, handed, rejectedOf]⟩
  cases op with
  | process v hv ids tx fee =>
    exact wr _ (fun r h => ⟨[], [], [], (processWithdrawal_unchanged _ _ _ _ _ _ _ _ _ _ r h).appends⟩)
  | replace v hv pid tx fee =>
    exact wr _ (fun r h => ⟨[], [], [], (replaceWithdrawal_unchanged _ _ _ _ _ _ _ _ _ _ r h).appends⟩)
  | finalize m =>
    refine wr _ (fun r h => ?_)
    obtain ⟨_, extra, _, _, ha⟩ := finalizeWithdrawal_appends _ _ _ _ r h
    exact ⟨[], extra, [], ha⟩
  | approve pr ids =>
    exact wr _ (fun r h => ⟨[], [], ids, approveCancellation_appends _ _ _ _ r h⟩)
  | bridge rq =>
    show ∃ bs d p r, Hist g.st (match processBridgeRequest e.c g.st rq with | .ok s' => { g with st := s' } | _ => g).st bs d p r ∧ _ ∧
      (match processBridgeRequest e.c g.st rq with | .ok s' => { g with st := s' } | _ => g).dPaid = _ ∧
      (match processBridgeRequest e.c g.st rq with | .ok s' => { g with st := s' } | _ => g).dRefund = _
    cases hb : processBridgeRequest e.c g.st rq with
    | ok s' =>
      exact ⟨[], [], [], _, Hist.single_app (processBridgeRequest_appends _ _ _ _ hb), by simp, by simp [handed, paidOf], by simp [handed, rejectedOf]⟩
    | err x => exact ⟨[], [], [], [], Hist.nil, by simp, by simp [handed, paidOf], by simp [handed, rejectedOf]⟩
    | panic x => exact ⟨[], [], [], [], Hist.nil, by simp, by simp [handed, paidOf], by simp [handed, rejectedOf]⟩
  | deposits m =>
    refine wr _ (fun r h => ?_)
    obtain ⟨new, ha, _⟩ := newDeposits_appends _ _ _ _ r h
    exact ⟨new, [], [], ha⟩
  | blockHashes v hv start hashes =>
    exact wr _ (fun r h => ⟨[], [], [], (newBlockHashes_unchanged _ _ _ _ _ _ _ _ r h).appends⟩)
  | pubkey v hv pk =>
    exact wr _ (fun r h => ⟨[], [], [], (newPubkey_unchanged _ _ _ _ _ _ _ r h).appends⟩)
  | consolidation v hv tx =>
    exact wr _ (fun r h => ⟨[], [], [], (newConsolidation_unchanged _ _ _ _ _ _ _ _ r h).appends⟩)
  | dequeue =>
    show ∃ bs d p r, Hist g.st (match dequeue g.st with
        | .ok (s', txs) => { g with st := s', dPaid := g.dPaid ++ C05H.paidIds txs, dRefund := g.dRefund ++ C05H.refundIds txs }
        | _ => g).st bs d p r ∧ _ ∧
      (match dequeue g.st with
        | .ok (s', txs) => { g with st := s', dPaid := g.dPaid ++ C05H.paidIds txs, dRefund := g.dRefund ++ C05H.refundIds txs }
        | _ => g).dPaid = _ ∧
      (match dequeue g.st with
        | .ok (s', txs) => { g with st := s', dPaid := g.dPaid ++ C05H.paidIds txs, dRefund := g.dRefund ++ C05H.refundIds txs }
        | _ => g).dRefund = _
    cases hd : dequeue g.st with
    | ok r =>
      obtain ⟨s', txs⟩ := r
      exact ⟨[txs], [], [], [], Hist.single_deq hd, by simp, by simp [handed, paidIds_eq], by simp [handed, refundIds_eq]⟩
    | err x => exact ⟨[], [], [], [], Hist.nil, by simp, by simp [handed, paidOf], by simp [handed, rejectedOf]⟩
    | panic x => exact ⟨[], [], [], [], Hist.nil, by simp, by simp [handed, paidOf], by simp [handed, rejectedOf]⟩
  | relayer rel' => exact ⟨[], [], [], [], Hist.nil, by simp, by simp [C05H.apply, handed, paidOf], by simp [C05H.apply, handed, rejectedOf]⟩

/-- **B (glue). Every run is a history.**  For any sequence of C05H operations (all nine message
    handlers with arbitrary arguments, execution-layer requests, dequeues; failures roll back) from
    any state, there is a `Hist` from the start state to the end state whose batches are exactly the
    successful dequeues; the ghost logs of delivered notices are what those batches carry.  No
    freshness or well-formedness hypothesis is needed. -/
theorem run_hist (e : C05H.Env) : ∀ (ops : List C05H.Op) (g : C05H.G),
    ∃ bs d p r, Hist g.st (C05H.run e g ops).st bs d p r ∧ bs.length ≤ ops.length ∧
      (C05H.run e g ops).dPaid = g.dPaid ++ (paidOf (handed bs)).map (·.1) ∧
      (C05H.run e g ops).dRefund = g.dRefund ++ rejectedOf (handed bs) := by
  intro ops
  induction ops with
  | nil => intro g; exact ⟨[], [], [], [], Hist.nil, by simp, by simp [C05H.run, handed, paidOf], by simp [C05H.run, handed, rejectedOf]⟩
  | cons op ops ih =>
    intro g
    obtain ⟨bs1, d1, p1, r1, h1, l1, a1, b1⟩ := apply_hist e g op
    obtain ⟨bs2, d2, p2, r2, h2, l2, a2, b2⟩ := ih (C05H.apply e g op)
    refine ⟨bs1 ++ bs2, d1 ++ d2, p1 ++ p2, r1 ++ r2, h1.trans h2, by simp; omega, ?_, ?_⟩
    · show (C05H.run e (C05H.apply e g op) ops).dPaid = _
      rw [a2, a1]
      simp [handed, paidOf_append]
    · show (C05H.run e (C05H.apply e g op) ops).dRefund = _
      rw [b2, b1]
      simp [handed, rejectedOf_append]

/-- **C06 over runs**: along any run, what the execution layer has been handed plus what is still
    queued is what was queued at the start plus what the handlers appended, kind by kind and in
    order; and if the nonce does not wrap, all system transactions of the run are numbered
    consecutively from the initial nonce. -/
theorem C06_run (e : C05H.Env) (ops : List C05H.Op) (g : C05H.G) :
    ∃ bs d p r,
      (depositsOf (handed bs) ++ (C05H.run e g ops).st.queue.deposits = g.st.queue.deposits ++ d ∧
       paidOf (handed bs) ++ (C05H.run e g ops).st.queue.paid = g.st.queue.paid ++ p ∧
       rejectedOf (handed bs) ++ (C05H.run e g ops).st.queue.rejected = g.st.queue.rejected ++ r) ∧
      (g.st.nonce + (handed bs).length < two64 →
        Consecutive g.st.nonce (handed bs) ∧ (C05H.run e g ops).st.nonce = g.st.nonce + (handed bs).length) ∧
      (∀ txs ∈ bs, (hashesOf txs).length ≤ 1 ∧ (depositsOf txs).length ≤ 8 ∧
        (paidOf txs).length + (rejectedOf txs).length ≤ 8) ∧
      (C05H.run e g ops).dPaid = g.dPaid ++ (paidOf (handed bs)).map (·.1) ∧
      (C05H.run e g ops).dRefund = g.dRefund ++ rejectedOf (handed bs) := by
  obtain ⟨bs, d, p, r, h, _, a, b⟩ := run_hist e ops g
  refine ⟨bs, d, p, r, fifo h, nonces_consecutive h, fun txs ht => ?_, a, b⟩
  obtain ⟨k1, k2, k3, _⟩ := caps h txs ht
  exact ⟨k1, k2, k3⟩

/-! ## 5. locking histories -/

section locking
open Goat.Locking (Reward Unlock)

/-- a locking batch as returned by `Locking.dequeue`: rewards, unlocks, first nonce -/
abbrev LBatch := List Reward × List Unlock × Nat

/-- the items of a locking batch awaiting their nonce: rewards first, then unlocks -/
def lockItems (rw : List Reward) (ul : List Unlock) : List (Nat → SysTx) :=
  rw.map (fun r n => SysTx.reward n r.id r.recipient r.goat r.gas) ++
    ul.map (fun u n => SysTx.unlock n u.id u.recipient u.token u.amount)

/-- the system transactions of a locking batch: rewards first, then unlocks, numbered from the
    nonce returned by `Locking.dequeue` (this is how the block builder numbers them:
    reward `i` gets `n0 + i`, unlock `i` gets `n0 + #rewards + i`) -/
def lockTxs (b : LBatch) : List SysTx := number b.2.2 (lockItems b.1 b.2.1)

def rewardOf : SysTx → Option Reward
  | .reward _ id rc g gs => some { id := id, recipient := rc, goat := g, gas := gs }
  | _ => none
def unlockOf : SysTx → Option Unlock
  | .unlock _ id rc tk a => some { id := id, token := tk, recipient := rc, amount := a }
  | _ => none

/-- claimed rewards carried by a list of system transactions, in order -/
def rewardsOf (txs : List SysTx) : List Reward := txs.filterMap rewardOf
/-- matured unlocks carried by a list of system transactions, in order -/
def unlocksOf (txs : List SysTx) : List Unlock := txs.filterMap unlockOf

theorem rewardsOf_append (a b : List SysTx) : rewardsOf (a ++ b) = rewardsOf a ++ rewardsOf b := by
  unfold rewardsOf; rw [List.filterMap_append]
theorem unlocksOf_append (a b : List SysTx) : unlocksOf (a ++ b) = unlocksOf a ++ unlocksOf b := by
  unfold unlocksOf; rw [List.filterMap_append]

theorem lockItems_length (rw : List Reward) (ul : List Unlock) : (lockItems rw ul).length = rw.length + ul.length := by
  simp [lockItems]

theorem lockTxs_length (b : LBatch) : (lockTxs b).length = b.1.length + b.2.1.length := by
  unfold lockTxs; rw [length_number, lockItems_length]

theorem lockItems_nonce (rw : List Reward) (ul : List Unlock) : ∀ f ∈ lockItems rw ul, ∀ i, SysTx.nonce (f i) = i := by
  intro f hf i
  simp only [lockItems, List.mem_append, List.mem_map] at hf
  rcases hf with ⟨_, _, rfl⟩ | ⟨_, _, rfl⟩ <;> rfl

/-- a locking batch carries exactly its rewards and its unlocks, and is numbered consecutively from
    its first nonce -/
theorem lockTxs_carries (b : LBatch) :
    rewardsOf (lockTxs b) = b.1 ∧ unlocksOf (lockTxs b) = b.2.1 ∧ Consecutive b.2.2 (lockTxs b) := by
  refine ⟨?_, ?_, (consecutive_number _ _ (lockItems_nonce _ _)).1⟩
  · unfold lockTxs lockItems rewardsOf
    rw [C05H.number_append, List.filterMap_append,
      filterMap_number rewardOf (fun (r : Reward) n => SysTx.reward n r.id r.recipient r.goat r.gas) (fun r => some r) (fun _ _ => rfl),
      filterMap_number rewardOf (fun (u : Unlock) n => SysTx.unlock n u.id u.recipient u.token u.amount) (fun _ => none) (fun _ _ => rfl)]
    simp [filterMap_none]
  · unfold lockTxs lockItems unlocksOf
    rw [C05H.number_append, List.filterMap_append,
      filterMap_number unlockOf (fun (r : Reward) n => SysTx.reward n r.id r.recipient r.goat r.gas) (fun _ => none) (fun _ _ => rfl),
      filterMap_number unlockOf (fun (u : Unlock) n => SysTx.unlock n u.id u.recipient u.token u.amount) (fun u => some u) (fun _ _ => rfl)]
    simp [filterMap_none]

/-- position by position: reward `i` of a batch carries nonce `n0 + i`, unlock `i` carries
    `n0 + #rewards + i` -/
theorem lockTxs_nonce_at (b : LBatch) (i : Nat) (hi : i < (lockTxs b).length) : SysTx.nonce (lockTxs b)[i] = b.2.2 + i :=
  consecutive_getElem _ _ (lockTxs_carries b).2.2 i hi

/-- **append-only step of the locking queue** -/
structure LAppends (s s' : Locking.State) (rw : List Reward) (ul : List Unlock) : Prop where
  qRewards : s'.qRewards = s.qRewards ++ rw
  qUnlocks : s'.qUnlocks = s.qUnlocks ++ ul
  nonce : s'.nonce = s.nonce

/-- neither queue nor the nonce is touched -/
def LUnchanged (s s' : Locking.State) : Prop :=
  s'.qRewards = s.qRewards ∧ s'.qUnlocks = s.qUnlocks ∧ s'.nonce = s.nonce

theorem LUnchanged.refl (s : Locking.State) : LUnchanged s s := ⟨rfl, rfl, rfl⟩
theorem LUnchanged.trans {a b c : Locking.State} (h1 : LUnchanged a b) (h2 : LUnchanged b c) : LUnchanged a c :=
  ⟨h2.1.trans h1.1, h2.2.1.trans h1.2.1, h2.2.2.trans h1.2.2⟩
theorem LUnchanged.appends {s s' : Locking.State} (h : LUnchanged s s') : LAppends s s' [] [] :=
  ⟨by rw [h.1, List.append_nil], by rw [h.2.1, List.append_nil], h.2.2⟩
theorem LAppends.refl (s : Locking.State) : LAppends s s [] [] := (LUnchanged.refl s).appends
theorem LAppends.trans {a b c : Locking.State} {r1 r2 u1 u2} (h1 : LAppends a b r1 u1) (h2 : LAppends b c r2 u2) :
    LAppends a c (r1 ++ r2) (u1 ++ u2) :=
  ⟨by rw [h2.qRewards, h1.qRewards, List.append_assoc], by rw [h2.qUnlocks, h1.qUnlocks, List.append_assoc],
   h2.nonce.trans h1.nonce⟩

/-- **Locking history** from `s`: `Locking.dequeue` steps (each contributes its batch) and
    append-only steps (claims appended to `rw`, matured unlocks appended to `ul`), interleaved. -/
inductive LHist (s : Locking.State) : Locking.State → List LBatch → List Reward → List Unlock → Prop
  | nil : LHist s s [] [] []
  | deq {s1 : Locking.State} {bs rw ul} :
      LHist s s1 bs rw ul → LHist s (Locking.dequeue s1).1 (bs ++ [(Locking.dequeue s1).2]) rw ul
  | app {s1 s2 : Locking.State} {bs rw ul rw' ul'} :
      LHist s s1 bs rw ul → LAppends s1 s2 rw' ul' → LHist s s2 bs (rw ++ rw') (ul ++ ul')

/-- all system transactions of the locking module handed over along a history, in order -/
def lhanded (bs : List LBatch) : List SysTx := (bs.map lockTxs).flatten

theorem lhanded_snoc (bs : List LBatch) (b : LBatch) : lhanded (bs ++ [b]) = lhanded bs ++ lockTxs b := by
  simp [lhanded]

theorem LHist.single_app {s s' : Locking.State} {rw ul} (h : LAppends s s' rw ul) : LHist s s' [] rw ul := by
  have := LHist.app LHist.nil h
  simpa using this

theorem LHist.trans {a b c : Locking.State} {bs1 r1 u1 bs2 r2 u2} (h1 : LHist a b bs1 r1 u1) (h2 : LHist b c bs2 r2 u2) :
    LHist a c (bs1 ++ bs2) (r1 ++ r2) (u1 ++ u2) := by
  induction h2 with
  | nil => simpa using h1
  | deq _ ih =>
    rw [← List.append_assoc]
    exact LHist.deq ih
  | app _ ha ih =>
    rw [← List.append_assoc, ← List.append_assoc]
    exact LHist.app ih ha

/-- one locking dequeue, exactly: the first ≤ 16 rewards and the first ≤ 16 unlocks leave their
    queues, the returned nonce is the stored nonce, and the stored nonce advances by the number handed
    over (modulo 2^64) — an empty hand-over changes nothing -/
theorem locking_dequeue_shape (s : Locking.State) :
    (Locking.dequeue s).2.1 = s.qRewards.take 16 ∧ (Locking.dequeue s).2.2.1 = s.qUnlocks.take 16 ∧
    (Locking.dequeue s).2.2.2 = s.nonce ∧
    (Locking.dequeue s).1.qRewards = s.qRewards.drop 16 ∧ (Locking.dequeue s).1.qUnlocks = s.qUnlocks.drop 16 ∧
    ((Locking.dequeue s).2.1 = [] ∧ (Locking.dequeue s).2.2.1 = [] → (Locking.dequeue s).1 = s) ∧
    (¬ ((Locking.dequeue s).2.1 = [] ∧ (Locking.dequeue s).2.2.1 = []) →
      (Locking.dequeue s).1.nonce = (s.nonce + (Locking.dequeue s).2.1.length + (Locking.dequeue s).2.2.1.length) % two64) := by
  unfold Locking.dequeue
  by_cases h : s.qRewards.isEmpty = true ∧ s.qUnlocks.isEmpty = true
  · simp only [List.isEmpty_iff] at h
    simp [h.1, h.2]
  · simp only [h, if_false]
    have e1 : ∀ {α : Type} (l : List α), l.take (min l.length 16) = l.take 16 := by
      intro α l
      by_cases hl : l.length ≤ 16
      · rw [Nat.min_eq_left hl, List.take_length, List.take_of_length_le hl]
      · rw [Nat.min_eq_right (by omega)]
    have e2 : ∀ {α : Type} (l : List α), l.drop (min l.length 16) = l.drop 16 := by
      intro α l
      by_cases hl : l.length ≤ 16
      · rw [Nat.min_eq_left hl, List.drop_length, List.drop_eq_nil_of_le hl]
      · rw [Nat.min_eq_right (by omega)]
    refine ⟨e1 _, e1 _, trivial, e2 _, e2 _, ?_, ?_⟩
    · intro hc
      exfalso
      apply h
      simp only [e1, List.take_eq_nil_iff] at hc
      simp only [List.isEmpty_iff]
      refine ⟨?_, ?_⟩
      · rcases hc.1 with h0 | h0
        · cases h0
        · exact h0
      · rcases hc.2 with h0 | h0
        · cases h0
        · exact h0
    · intro _
      simp only [List.length_take]
      have hm : ∀ a : Nat, min (min a 16) a = min a 16 := by intro a; omega
      rw [hm, hm]

/-- **caps of one locking dequeue** -/
theorem locking_dequeue_caps (s : Locking.State) :
    (Locking.dequeue s).2.1.length ≤ 16 ∧ (Locking.dequeue s).2.2.1.length ≤ 16 := by
  obtain ⟨h1, h2, _⟩ := locking_dequeue_shape s
  rw [h1, h2]
  simp only [List.length_take]
  omega

/-- **C1. FIFO for claimed rewards and matured unlocks.** -/
theorem locking_fifo {s s' : Locking.State} {bs rw ul} (h : LHist s s' bs rw ul) :
    (bs.map (·.1)).flatten ++ s'.qRewards = s.qRewards ++ rw ∧
    (bs.map (·.2.1)).flatten ++ s'.qUnlocks = s.qUnlocks ++ ul := by
  induction h with
  | nil => simp
  | @deq s1 bs rw ul _ ih =>
    obtain ⟨i1, i2⟩ := ih
    obtain ⟨h1, h2, _, h4, h5, _⟩ := locking_dequeue_shape s1
    simp only [List.map_append, List.map_cons, List.map_nil, List.flatten_append, List.flatten_cons, List.flatten_nil,
      List.append_nil, List.append_assoc]
    rw [h1, h2, h4, h5, List.take_append_drop, List.take_append_drop]
    exact ⟨i1, i2⟩
  | app _ ha ih =>
    obtain ⟨i1, i2⟩ := ih
    refine ⟨?_, ?_⟩
    · rw [ha.qRewards, ← List.append_assoc, i1, List.append_assoc]
    · rw [ha.qUnlocks, ← List.append_assoc, i2, List.append_assoc]

/-- **C1 (rewards).**  The rewards handed over (batch after batch, in order) followed by the rewards
    still queued are exactly the rewards queued at the start followed by all claims appended since. -/
theorem locking_fifo_rewards {s s' : Locking.State} {bs rw ul} (h : LHist s s' bs rw ul) :
    (bs.map (·.1)).flatten ++ s'.qRewards = s.qRewards ++ rw := (locking_fifo h).1

/-- **C1 (unlocks).**  The same for matured unlocks. -/
theorem locking_fifo_unlocks {s s' : Locking.State} {bs rw ul} (h : LHist s s' bs rw ul) :
    (bs.map (·.2.1)).flatten ++ s'.qUnlocks = s.qUnlocks ++ ul := (locking_fifo h).2

/-- the system transactions of the history carry exactly the batches' rewards and unlocks -/
theorem lhanded_carries (bs : List LBatch) :
    rewardsOf (lhanded bs) = (bs.map (·.1)).flatten ∧ unlocksOf (lhanded bs) = (bs.map (·.2.1)).flatten := by
  induction bs with
  | nil => simp [lhanded, rewardsOf, unlocksOf]
  | cons b bs ih =>
    obtain ⟨c1, c2, _⟩ := lockTxs_carries b
    have : lhanded (b :: bs) = lockTxs b ++ lhanded bs := by simp [lhanded]
    rw [this, rewardsOf_append, unlocksOf_append, ih.1, ih.2, c1, c2]
    simp

/-- **C1, in terms of the system transactions handed over** -/
theorem locking_fifo_txs {s s' : Locking.State} {bs rw ul} (h : LHist s s' bs rw ul) :
    rewardsOf (lhanded bs) ++ s'.qRewards = s.qRewards ++ rw ∧
    unlocksOf (lhanded bs) ++ s'.qUnlocks = s.qUnlocks ++ ul := by
  rw [(lhanded_carries bs).1, (lhanded_carries bs).2]
  exact locking_fifo h

/-- **C2. Locking nonces.**  If the 64-bit nonce does not wrap during the history, every batch
    starts at the nonce where the previous one stopped, so that all locking system transactions of
    the history (rewards first then unlocks inside a batch) carry the consecutive nonces
    `s.nonce, s.nonce+1, …`; the stored nonce has advanced by exactly their number. -/
theorem locking_nonces_consecutive {s s' : Locking.State} {bs rw ul} (h : LHist s s' bs rw ul)
    (hw : s.nonce + (lhanded bs).length < two64) :
    Consecutive s.nonce (lhanded bs) ∧ s'.nonce = s.nonce + (lhanded bs).length := by
  induction h with
  | nil => exact ⟨trivial, rfl⟩
  | @deq s1 bs rw ul _ ih =>
    rw [lhanded_snoc, List.length_append, lockTxs_length] at hw
    obtain ⟨i1, i2⟩ := ih (by omega)
    obtain ⟨_, _, h3, _, _, h6, h7⟩ := locking_dequeue_shape s1
    obtain ⟨_, _, c3⟩ := lockTxs_carries (Locking.dequeue s1).2
    rw [lhanded_snoc]
    refine ⟨consecutive_append _ _ _ i1 (by rw [← i2, ← h3]; exact c3), ?_⟩
    rw [List.length_append, lockTxs_length]
    by_cases he : (Locking.dequeue s1).2.1 = [] ∧ (Locking.dequeue s1).2.2.1 = []
    · rw [h6 he, he.1, he.2, i2]; simp
    · rw [h7 he, i2, Nat.mod_eq_of_lt (by omega)]; omega
  | app _ ha ih =>
    obtain ⟨i1, i2⟩ := ih hw
    exact ⟨i1, ha.nonce.trans i2⟩

/-- each batch of the history starts at the stored nonce of that moment: batch `k` starts at
    `s.nonce +` (number of system transactions of the batches before it) -/
theorem locking_batch_start {s s' : Locking.State} {bs rw ul} (h : LHist s s' bs rw ul)
    (hw : s.nonce + (lhanded bs).length < two64) (k : Nat) (hk : k < bs.length) :
    (bs[k]).2.2 = s.nonce + (lhanded (bs.take k)).length := by
  induction h with
  | nil => exact absurd hk (by simp)
  | @deq s1 bs rw ul h1 ih =>
    rw [lhanded_snoc, List.length_append, lockTxs_length] at hw
    by_cases hlt : k < bs.length
    · rw [List.getElem_append_left hlt, List.take_append_of_le_length (by omega)]
      exact ih (by omega) hlt
    · have hk' : k = bs.length := by simp at hk; omega
      subst hk'
      rw [List.getElem_append_right (by omega)]
      simp only [Nat.sub_self, List.getElem_cons_zero, List.take_left']
      rw [(locking_dequeue_shape s1).2.2.1]
      exact (locking_nonces_consecutive h1 (by omega)).2
  | app _ _ ih => exact ih hw hk

/-- **C3. Caps of every batch**: at most 16 rewards and at most 16 unlocks per dequeue -/
theorem locking_caps {s s' : Locking.State} {bs rw ul} (h : LHist s s' bs rw ul) :
    ∀ b ∈ bs, b.1.length ≤ 16 ∧ b.2.1.length ≤ 16 := by
  induction h with
  | nil => intro b hb; cases hb
  | @deq s1 bs rw ul _ ih =>
    intro b hb
    rcases List.mem_append.mp hb with hb | hb
    · exact ih b hb
    · simp only [List.mem_singleton] at hb
      subst hb
      exact locking_dequeue_caps s1
  | app _ _ ih => exact ih

end locking

end Goat.C06H

/-! ## 6. every locking entry point is an append-only step -/

namespace Goat.C06H
open Goat.Locking

theorem lu_vset (s : State) (a : Bytes) (v : Validator) : LUnchanged s (vset s a v) := by
  unfold vset; exact ⟨rfl, rfl, rfl⟩
theorem lu_rankRemove (s : State) (p : Nat) (a : Bytes) : LUnchanged s (rankRemove s p a) := ⟨rfl, rfl, rfl⟩
theorem lu_rankSet (s : State) (p : Nat) (a : Bytes) : LUnchanged s (rankSet s p a) := by
  unfold rankSet; split <;> exact ⟨rfl, rfl, rfl⟩
theorem lu_rank_ite (s : State) (p : Nat) (a : Bytes) : LUnchanged s (if p > 0 then rankSet s p a else s) := by
  split
  · exact lu_rankSet s p a
  · exact LUnchanged.refl s
theorem lu_idxSet (s : State) (d : String) (a : Bytes) (x : Int) : LUnchanged s (idxSet s d a x) := ⟨rfl, rfl, rfl⟩
theorem lu_idxRemove (s : State) (d : String) (a : Bytes) : LUnchanged s (idxRemove s d a) := ⟨rfl, rfl, rfl⟩
theorem lu_tset (s : State) (d : String) (t : Token) : LUnchanged s (tset s d t) := by
  unfold tset; exact ⟨rfl, rfl, rfl⟩
theorem lu_slashedAdd (s : State) (d : String) (x : Int) : LUnchanged s (slashedAdd s d x) := ⟨rfl, rfl, rfl⟩
theorem lu_enqueueUnlock (s : State) (t : Int) (u : Unlock) : LUnchanged s (enqueueUnlock s t u) := ⟨rfl, rfl, rfl⟩
theorem lu_foldl_idxRemove (b : Bytes) (cs : Coins) (st : State) :
    LUnchanged st (cs.foldl (fun s c => idxRemove s c.1 b) st) := by
  induction cs generalizing st with
  | nil => exact LUnchanged.refl st
  | cons c cs ih => rw [List.foldl_cons]; exact (lu_idxRemove st c.1 b).trans (ih _)

theorem lu_slashStep (addr : Bytes) (frac : Nat) (acc : State × Coins) (c : String × Int) :
    LUnchanged acc.1 (slashStep addr frac acc c).1 := by
  unfold slashStep
  by_cases hz : ((slashAmount c.2.toNat frac : Nat) : Int) = 0
  · simp only [hz, if_true]
    exact (lu_idxRemove _ _ _).trans (lu_slashedAdd _ _ _)
  · simp only [hz, if_false]
    exact (lu_idxRemove _ _ _).trans (lu_slashedAdd _ _ _)

theorem lu_slashAll (s : State) (addr : Bytes) (v : Validator) (frac : Nat) : LUnchanged s (slashAll s addr v frac).1 := by
  unfold slashAll
  generalize v.locking = cs
  have key : ∀ (cs : List (String × Int)) (acc : State × Coins), LUnchanged s acc.1 →
      LUnchanged s (cs.foldl (slashStep addr frac) acc).1 := by
    intro cs
    induction cs with
    | nil => intro acc h; exact h
    | cons c cs ih =>
      intro acc h
      rw [List.foldl_cons]
      exact ih _ (h.trans (lu_slashStep addr frac acc c))
  exact key cs (s, []) (LUnchanged.refl s)

theorem lockOne_lu (s s' : State) (now : Int) (b : Bytes) (coins : Coins) (h : lockOne s now b coins = .ok s') : LUnchanged s s' := by
  unfold lockOne at h
  cases hv : vget s b with
  | none => rw [hv] at h; cases h
  | some v =>
    rw [hv] at h
    dsimp only at h
    split at h
    · cases h
    · split at h
      · split at h
        · cases h
        · cases h
        · rename_i s2 pw heq
          cases h
          have hs2 : LUnchanged s s2 := by
            refine foldlM_inv (fun (acc : State × Nat) => LUnchanged s acc.1) _ ?_ _ _ _ (lu_rankRemove s _ b) heq
            intro acc c acc' hacc hstep
            obtain ⟨b0, pw0⟩ := acc
            dsimp only at hstep hacc
            split at hstep
            · cases hstep
            · split at hstep
              · cases hstep; exact hacc.trans (lu_idxSet _ _ b _)
              · cases hstep
              · cases hstep
          exact (hs2.trans (lu_rank_ite s2 pw b)).trans (lu_vset _ b _)
      · split at h
        · cases h
        · cases h
        · rename_i s2 pw heq
          cases h
          have hs2 : LUnchanged s s2 := by
            refine foldlM_inv (fun (acc : State × Nat) => LUnchanged s acc.1) _ ?_ _ _ _ (lu_rankRemove s _ b) heq
            intro acc c acc' hacc hstep
            obtain ⟨b0, pw0⟩ := acc
            dsimp only at hstep hacc
            split at hstep
            · cases hstep
            · split at hstep
              · cases hstep; exact hacc.trans (lu_idxSet _ _ b _)
              · cases hstep
              · cases hstep
          exact (hs2.trans (lu_rank_ite s2 pw b)).trans (lu_vset _ b _)
      · split at h
        · split at h
          · cases h
          · cases h
          · rename_i s2 pw heq
            cases h
            have hs2 : LUnchanged s s2 := by
              refine foldlM_inv (fun (acc : State × Nat) => LUnchanged s acc.1) _ ?_ _ _ _ (LUnchanged.refl s) heq
              intro acc c acc' hacc hstep
              obtain ⟨b0, pw0⟩ := acc
              dsimp only at hstep hacc
              have hk := hacc.trans (lu_idxSet b0 c.1 b c.2)
              split at hstep
              · cases hstep
              · split at hstep
                · split at hstep
                  · cases hstep
                  · cases hstep
                  · cases hstep
                  · cases hstep; exact hk
                · cases hstep; exact hk
            exact (hs2.trans (lu_rank_ite s2 pw b)).trans (lu_vset _ b _)
        · cases h; exact lu_vset _ b _
      · cases h; exact lu_vset _ b _
      · cases h; exact lu_vset _ b _

theorem lock_lu (s s' : State) (now : Int) (reqs : List LockReq) (h : lock s now reqs = .ok s') : LUnchanged s s' := by
  unfold lock at h
  split at h
  · cases h; exact LUnchanged.refl s
  · split at h
    · cases h
    · split at h
      · cases h
      · cases h
      · exact foldlM_inv (fun b => LUnchanged s b) _ (fun b e b' hb hstep => hb.trans (lockOne_lu b b' now e.1 e.2 hstep)) _ _ _
          (LUnchanged.refl s) h

theorem unlockCore_lu (s s3 : State) (r : UnlockReq) (ex : Bool) (amt : Int) (h : unlockCore s r = .ok (s3, ex, amt)) :
    LUnchanged s s3 := by
  unfold unlockCore at h
  cases hv : vget s r.validator with
  | none => rw [hv] at h; cases h
  | some v =>
    rw [hv] at h
    dsimp only at h
    split at h
    · cases h
    · split at h
      · cases h
      · split at h
        · cases h
        · cases h
        · simp only [Outcome.ok.injEq, Prod.mk.injEq] at h
          obtain ⟨h1, _, _⟩ := h
          rw [← h1]
          have k1 := lu_rankRemove s v.power r.validator
          split
          · dsimp only
            exact (k1.trans (lu_foldl_idxRemove r.validator v.locking _)).trans (lu_vset _ _ _)
          · split
            · dsimp only
              refine (k1.trans ?_).trans (lu_vset _ _ _)
              refine LUnchanged.trans ?_ (lu_rank_ite _ _ r.validator)
              split
              · exact lu_idxRemove _ _ _
              · exact lu_idxSet _ _ _ _
            · dsimp only
              exact k1.trans (lu_vset _ _ _)

theorem unlockOne_lu (s s' : State) (now : Int) (r : UnlockReq) (h : unlockOne s now r = .ok s') : LUnchanged s s' := by
  unfold unlockOne at h
  split at h
  · cases h
  · cases h
  · rename_i s3 ex amt heq
    cases h
    exact (unlockCore_lu s s3 r ex amt heq).trans (lu_enqueueUnlock _ _ _)

theorem unlock_lu (s s' : State) (now : Int) (reqs : List UnlockReq) (h : unlock s now reqs = .ok s') : LUnchanged s s' := by
  unfold unlock at h
  exact foldlM_inv (fun b => LUnchanged s b) _ (fun b x b' hb hstep => hb.trans (unlockOne_lu b b' now x hstep)) _ _ _
    (LUnchanged.refl s) h

theorem handleVote_lu (s s' : State) (now : Int) (vi : VoteInfo) (h : handleVote s now vi = .ok s') : LUnchanged s s' := by
  unfold handleVote at h
  cases hv : vget s vi.address with
  | none => rw [hv] at h; cases h
  | some v =>
    rw [hv] at h
    dsimp only at h
    split at h
    · cases h; exact LUnchanged.refl s
    · generalize (if vi.absent = true then v.missed + 1 else v.missed) = ms at h
      generalize (if ((v.offset + 1 : Nat) : Int) ≥ s.params.signedBlocksWindow then ((0 : Nat), (0 : Nat))
          else (ms, v.offset + 1)) = mo at h
      split at h
      · cases h
        exact ((lu_rankRemove s v.power vi.address).trans (lu_slashAll _ _ _ _)).trans (lu_vset _ _ _)
      · cases h
        exact lu_vset _ _ _

theorem handleVotes_lu (s s' : State) (now : Int) (votes : List VoteInfo) (h : handleVotes s now votes = .ok s') : LUnchanged s s' := by
  unfold handleVotes at h
  exact foldlM_inv (fun b => LUnchanged s b) _ (fun b x b' hb hstep => hb.trans (handleVote_lu b b' now x hstep)) _ _ _
    (LUnchanged.refl s) h

theorem handleEvidence_lu (s s' : State) (now height : Int) (maxAge : Option (Int × Int)) (e : Evidence)
    (h : handleEvidence s now height maxAge e = .ok s') : LUnchanged s s' := by
  unfold handleEvidence at h
  split at h
  · cases h; exact LUnchanged.refl s
  · split at h
    · cases h; exact LUnchanged.refl s
    · cases hv : vget s e.address with
      | none => rw [hv] at h; cases h
      | some v =>
        rw [hv] at h
        dsimp only at h
        split at h
        · cases h; exact LUnchanged.refl s
        · cases h
          exact ((lu_rankRemove s v.power e.address).trans (lu_slashAll _ _ _ _)).trans (lu_vset _ _ _)

theorem onWeightChanged_lu (s s' : State) (token : String) (prev cur : Nat) (h : onWeightChanged s token prev cur = .ok s') :
    LUnchanged s s' := by
  unfold onWeightChanged at h
  split at h
  · cases h; exact LUnchanged.refl s
  · dsimp only at h
    refine foldlM_inv (fun b => LUnchanged s b) _ ?_ _ _ _ (LUnchanged.refl s) h
    intro b e b' hb hstep
    cases hv : vget b e.1.2 with
    | none => rw [hv] at hstep; cases hstep
    | some v =>
      rw [hv] at hstep
      dsimp only at hstep
      have k1 := lu_rankRemove b v.power e.1.2
      split at hstep
      · split at hstep
        · cases hstep
        · cases hstep
        · cases hstep
        · cases hstep
          exact hb.trans ((k1.trans (lu_vset _ _ _)).trans (lu_rank_ite _ _ _))
      · split at hstep
        · cases hstep
        · cases hstep
        · cases hstep
        · cases hstep
          exact hb.trans ((k1.trans (lu_vset _ _ _)).trans (lu_rank_ite _ _ _))

theorem updateTokens_lu (s s' : State) (weights : List (String × Nat)) (thresholds : List (String × Int))
    (h : updateTokens s weights thresholds = .ok s') : LUnchanged s s' := by
  unfold updateTokens at h
  obtain ⟨s1, h1, h2⟩ := (bind_eq_ok _ _ _).mp h
  have hs1 : LUnchanged s s1 := by
    refine foldlM_inv (fun b => LUnchanged s b) _ ?_ _ _ _ (LUnchanged.refl s) h1
    intro b u b' hb hstep
    dsimp only at hstep
    split at hstep
    · rename_i b2 heq
      cases hstep
      exact hb.trans ((onWeightChanged_lu b b2 _ _ _ heq).trans (lu_tset _ _ _))
    · cases hstep
    · cases hstep
  split at h2
  · cases h2; exact hs1
  · refine foldlM_inv (fun b => LUnchanged s b) _ ?_ _ _ _ hs1 h2
    intro b u b' hb hstep
    dsimp only at hstep
    split at hstep
    · cases hstep
    · split at hstep
      · cases hstep; exact hb
      · split at hstep
        · cases hstep
        · cases hstep
          refine hb.trans (LUnchanged.trans ?_ (lu_tset _ _ _))
          exact ⟨rfl, rfl, rfl⟩

theorem create_lu (hash160 : Bytes → Bytes) (hasAccount : Bytes → Bool) (s s' : State) (reqs : List CreateReq)
    (accs : List Bytes) (h : create hash160 hasAccount s reqs = .ok (s', accs)) : LUnchanged s s' := by
  unfold create at h
  refine foldlM_inv (fun (acc : State × List Bytes) => LUnchanged s acc.1) _ ?_ _ _ _ (LUnchanged.refl s) h
  intro acc r acc' hacc hstep
  obtain ⟨b, newAccs⟩ := acc
  dsimp only at hstep hacc
  split at hstep
  · cases hstep
  · split at hstep
    · cases hstep; exact hacc
    · cases hstep; exact hacc.trans (lu_vset _ _ _)

/-- reward distribution leaves both hand-over queues, the nonce and the time queue of unlocks alone -/
theorem distributeReward_go_lu (total : Int) (s0 : State) :
    ∀ (votes : List VoteInfo) (s : State) (rg rr : Int) (s' : State) (rg' rr' : Int),
      (LUnchanged s0 s ∧ s.unlockQueue = s0.unlockQueue) → distributeReward.go total votes s rg rr = .ok (s', rg', rr') →
      (LUnchanged s0 s' ∧ s'.unlockQueue = s0.unlockQueue) := by
  intro votes
  induction votes with
  | nil =>
    intro s rg rr s' rg' rr' hs h
    unfold distributeReward.go at h
    cases h; exact hs
  | cons x rest ih =>
    intro s rg rr s' rg' rr' hs h
    unfold distributeReward.go at h
    cases hv : vget s x.address with
    | none => rw [hv] at h; cases h
    | some val =>
      rw [hv] at h
      dsimp only at h
      refine ih _ _ _ s' rg' rr' ⟨hs.1.trans (lu_vset _ _ _), ?_⟩ h
      rw [← hs.2]; unfold vset; rfl

theorem distributeReward_lu (s s' : State) (height : Int) (votes : List VoteInfo)
    (h : distributeReward s height votes = .ok s') : LUnchanged s s' ∧ s'.unlockQueue = s.unlockQueue := by
  unfold distributeReward at h
  split at h
  · cases h; exact ⟨LUnchanged.refl s, rfl⟩
  · split at h
    · cases h; exact ⟨LUnchanged.refl s, rfl⟩
    · dsimp only at h
      split at h
      · cases h
      · split at h
        · cases h
        · cases h
        · rename_i s2 rg rr heq
          cases h
          obtain ⟨k1, k2⟩ := distributeReward_go_lu _ s votes s _ _ s2 rg rr ⟨LUnchanged.refl s, rfl⟩ heq
          exact ⟨k1.trans ⟨rfl, rfl, rfl⟩, k2⟩

theorem updateRewardPool_lu (s s' : State) (height : Int) (gas grants : List Int)
    (h : updateRewardPool s height gas grants = .ok s') : LUnchanged s s' := by
  unfold updateRewardPool at h
  split at h
  · cases h
  · split at h
    · cases h
    · dsimp only at h
      split at h
      · cases h
      · cases h; exact ⟨rfl, rfl, rfl⟩

/-- **C (ops). claim appends** exactly the payout records of C12H (`payouts`: one per request, in
    request order, carrying the request's id and recipient) to the reward queue; the unlock queue
    and the nonce are untouched. -/
theorem claim_appends (s s' : State) (reqs : List ClaimReq) (h : claim s reqs = .ok s') :
    LAppends s s' (C12H.payouts s [] reqs) [] := by
  obtain ⟨k1, _, _⟩ := C12H.claim_exact s s' reqs h
  have k2 : s'.qUnlocks = s.qUnlocks ∧ s'.nonce = s.nonce := by
    unfold claim at h
    refine foldlM_inv (fun (b : State) => b.qUnlocks = s.qUnlocks ∧ b.nonce = s.nonce) _ ?_ reqs s s' ⟨rfl, rfl⟩ h
    intro b r b' hb hstep
    dsimp only at hstep
    cases hv : vget b r.validator with
    | none => rw [hv] at hstep; cases hstep
    | some u =>
      rw [hv] at hstep
      cases hstep
      obtain ⟨_, q2, q3⟩ := lu_vset { b with qRewards := b.qRewards ++ [{ id := r.id, recipient := r.recipient, goat := u.reward, gas := u.gasReward }] }
        r.validator { u with reward := 0, gasReward := 0 }
      exact ⟨q2.trans hb.1, q3.trans hb.2⟩
  exact ⟨k1, by rw [k2.1, List.append_nil], k2.2⟩

theorem payouts_ids (s : State) : ∀ (reqs : List ClaimReq) (seen : List Bytes),
    (C12H.payouts s seen reqs).map (·.id) = reqs.map (·.id) ∧
    (C12H.payouts s seen reqs).map (·.recipient) = reqs.map (·.recipient) := by
  intro reqs
  induction reqs with
  | nil => intro seen; exact ⟨rfl, rfl⟩
  | cons r rs ih =>
    intro seen
    obtain ⟨i1, i2⟩ := ih (r.validator :: seen)
    simp only [C12H.payouts, List.map_cons, i1, i2, and_self]

/-- **C (ops). The begin-block hook's maturity sweep appends** the unlocks that are due (time-queue
    entries with key ≤ now, in key order, each entry in insertion order) to the unlock queue; the
    reward queue and the nonce are untouched. -/
theorem dequeueMature_appends (s : State) (now : Int) :
    LAppends s (dequeueMature s now) [] (((dueUnlocks s now).map (·.2)).flatten) := by
  unfold dequeueMature
  split
  · rename_i hemp
    rw [List.isEmpty_iff] at hemp
    rw [hemp]
    exact LAppends.refl s
  · exact ⟨by simp, rfl, rfl⟩

/-- **C (ops). processRequests** (reward pool, tokens, create, lock, unlock, claim) is an append-only
    step: it appends the claim payouts — one record per claim request, in request order, with the
    request's id and recipient — and nothing else; the nonce is untouched. -/
theorem processRequests_appends (hash160 : Bytes → Bytes) (hasAccount : Bytes → Bool) (s s' : State) (height now : Int)
    (R : Reqs) (accs : List Bytes) (h : processRequests hash160 hasAccount s height now R = .ok (s', accs)) :
    ∃ rw : List Reward, LAppends s s' rw [] ∧ rw.map (·.id) = R.claims.map (·.id) ∧
      rw.map (·.recipient) = R.claims.map (·.recipient) := by
  unfold processRequests at h
  obtain ⟨s1, h1, h⟩ := (bind_eq_ok _ _ _).mp h
  obtain ⟨s2, h2, h⟩ := (bind_eq_ok _ _ _).mp h
  obtain ⟨⟨s3, accs3⟩, h3, h⟩ := (bind_eq_ok _ _ _).mp h
  dsimp only at h
  obtain ⟨s4, h4, h⟩ := (bind_eq_ok _ _ _).mp h
  obtain ⟨s5, h5, h⟩ := (bind_eq_ok _ _ _).mp h
  obtain ⟨s6, h6, h⟩ := (bind_eq_ok _ _ _).mp h
  have h : (Outcome.ok (s6, accs3) : Outcome (State × List Bytes)) = .ok (s', accs) := h
  simp only [Outcome.ok.injEq, Prod.mk.injEq] at h
  obtain ⟨rfl, _⟩ := h
  have k5 : LUnchanged s s5 :=
    ((((updateRewardPool_lu s s1 _ _ _ h1).trans (updateTokens_lu s1 s2 _ _ h2)).trans
      (create_lu _ _ s2 s3 _ _ h3)).trans (lock_lu s3 s4 _ _ h4)).trans (unlock_lu s4 s5 _ _ h5)
  have k6 := claim_appends s5 s6 R.claims h6
  have := k5.appends.trans k6
  simp only [List.nil_append] at this
  exact ⟨_, this, (payouts_ids s5 R.claims []).1, (payouts_ids s5 R.claims []).2⟩

/-- **C (ops). beginBlock** (reward distribution, maturity sweep, votes, evidence) is an append-only
    step: it appends exactly the unlocks due at `now` and nothing else; the nonce is untouched. -/
theorem beginBlock_appends (s s' : State) (height now : Int) (votes : List VoteInfo) (maxAge : Option (Int × Int))
    (evs : List Evidence) (h : beginBlock s height now votes maxAge evs = .ok s') :
    LAppends s s' [] (((dueUnlocks s now).map (·.2)).flatten) := by
  unfold beginBlock at h
  obtain ⟨s1, h1, h⟩ := (bind_eq_ok _ _ _).mp h
  obtain ⟨s3, h3, h⟩ := (bind_eq_ok _ _ _).mp h
  obtain ⟨k1, q1⟩ := distributeReward_lu s s1 height votes h1
  have k2 := dequeueMature_appends s1 now
  have hdue : dueUnlocks s1 now = dueUnlocks s now := by unfold dueUnlocks; rw [q1]
  rw [hdue] at k2
  have k3 : LUnchanged (dequeueMature s1 now) s3 := handleVotes_lu _ s3 now votes h3
  have k4 : LUnchanged s3 s' :=
    foldlM_inv (fun b => LUnchanged s3 b) _ (fun b x b' hb hstep => hb.trans (handleEvidence_lu b b' now height maxAge x hstep))
      evs s3 s' (LUnchanged.refl s3) h
  have := (k1.appends.trans k2).trans (k3.trans k4).appends
  simpa using this

/-- **C (ops). endBlocker** leaves both queues and the nonce unchanged -/
theorem endBlocker_unchanged (s s' : State) (ups : List Update) (h : endBlocker s = .ok (s', ups)) : LUnchanged s s' := by
  unfold endBlocker at h
  dsimp only at h
  split at h
  · cases h
  · cases h
  · rename_i s1 leftovers ups1 heq
    have h1 : LUnchanged s s1 := by
      refine foldlM_inv (fun (acc : State × List (Bytes × Nat) × List Update) => LUnchanged s acc.1) _ ?_ _ _ _ (LUnchanged.refl s) heq
      intro acc e acc' hacc hstep
      obtain ⟨b, last, ups0⟩ := acc
      dsimp only at hstep hacc
      cases hu : vget b e.2 with
      | none => rw [hu] at hstep; cases hstep
      | some u =>
        rw [hu] at hstep
        dsimp only at hstep
        split at hstep
        · split at hstep
          · cases hstep; exact hacc.trans ⟨rfl, rfl, rfl⟩
          · cases hstep; exact hacc
        · split at hstep
          · cases hstep
          · cases hstep
            refine hacc.trans ?_
            have q := lu_vset b e.2 { u with status := .active, offset := 0, missed := 0 }
            exact ⟨q.1, q.2.1, q.2.2⟩
        · cases hstep
    refine foldlM_inv (fun (acc : State × List Update) => LUnchanged s acc.1) _ ?_ _ _ _ h1 h
    intro acc e acc' hacc hstep
    obtain ⟨b, ups0⟩ := acc
    dsimp only at hstep hacc
    cases hu : vget b e.1 with
    | none => rw [hu] at hstep; cases hstep
    | some u =>
      rw [hu] at hstep
      dsimp only at hstep
      cases hstep
      refine hacc.trans ?_
      split
      · have q := lu_vset b e.1 { u with status := .pending }
        exact ⟨q.1, q.2.1, q.2.2⟩
      · exact ⟨rfl, rfl, rfl⟩

/-- one entry point of the locking module (the operation language of C11H / C12H / C14H: request
    processing, begin-block hook, end-block hook, dequeue; failures leave the state unchanged) is a
    one-step locking history -/
theorem lstep_hist (s : State) (op : C11H.Op) :
    ∃ bs rw ul, LHist s (Locking.step s op) bs rw ul ∧ bs.length ≤ 1 := by
  cases op with
  | process hash160 hasAccount height now r =>
    show ∃ bs rw ul, LHist s (match processRequests hash160 hasAccount s height now r with | .ok (s', _) => s' | _ => s) bs rw ul ∧ _
    cases h : processRequests hash160 hasAccount s height now r with
    | ok x =>
      obtain ⟨s', accs⟩ := x
      obtain ⟨rw, ha, _⟩ := processRequests_appends _ _ _ _ _ _ _ _ h
      exact ⟨[], rw, [], LHist.single_app ha, by simp⟩
    | err x => exact ⟨[], [], [], LHist.nil, by simp⟩
    | panic x => exact ⟨[], [], [], LHist.nil, by simp⟩
  | beginBlock height now votes maxAge evs =>
    show ∃ bs rw ul, LHist s (match beginBlock s height now votes maxAge evs with | .ok s' => s' | _ => s) bs rw ul ∧ _
    cases h : beginBlock s height now votes maxAge evs with
    | ok s' => exact ⟨[], [], _, LHist.single_app (beginBlock_appends _ _ _ _ _ _ _ h), by simp⟩
    | err x => exact ⟨[], [], [], LHist.nil, by simp⟩
    | panic x => exact ⟨[], [], [], LHist.nil, by simp⟩
  | endBlocker =>
    show ∃ bs rw ul, LHist s (match endBlocker s with | .ok (s', _) => s' | _ => s) bs rw ul ∧ _
    cases h : endBlocker s with
    | ok x =>
      obtain ⟨s', ups⟩ := x
      exact ⟨[], [], [], LHist.single_app (endBlocker_unchanged _ _ _ h).appends, by simp⟩
    | err x => exact ⟨[], [], [], LHist.nil, by simp⟩
    | panic x => exact ⟨[], [], [], LHist.nil, by simp⟩
  | dequeue =>
    refine ⟨[(Locking.dequeue s).2], [], [], ?_, by simp⟩
    show LHist s (Locking.dequeue s).1 ([] ++ [(Locking.dequeue s).2]) [] []
    exact LHist.deq LHist.nil

/-- **C (glue). Every run of the locking module is a locking history** -/
theorem lrun_hist : ∀ (ops : List C11H.Op) (s : State),
    ∃ bs rw ul, LHist s (Locking.runS s ops) bs rw ul ∧ bs.length ≤ ops.length := by
  intro ops
  induction ops with
  | nil => intro s; exact ⟨[], [], [], LHist.nil, by simp⟩
  | cons op ops ih =>
    intro s
    obtain ⟨bs1, r1, u1, h1, l1⟩ := lstep_hist s op
    obtain ⟨bs2, r2, u2, h2, l2⟩ := ih (Locking.step s op)
    exact ⟨bs1 ++ bs2, r1 ++ r2, u1 ++ u2, h1.trans h2, by simp; omega⟩

/-- **C06 over locking runs**: along any run of the locking module, rewards and unlocks handed over
    plus those still queued are those queued at the start plus those appended by claims / the
    maturity sweep, in order; per-dequeue caps hold; and, absent wrap-around, the locking system
    transactions of the whole run are numbered consecutively from the initial nonce. -/
theorem C06_locking_run (ops : List C11H.Op) (s : State) :
    ∃ bs rw ul,
      (rewardsOf (lhanded bs) ++ (Locking.runS s ops).qRewards = s.qRewards ++ rw ∧
       unlocksOf (lhanded bs) ++ (Locking.runS s ops).qUnlocks = s.qUnlocks ++ ul) ∧
      (s.nonce + (lhanded bs).length < two64 →
        C06.Consecutive s.nonce (lhanded bs) ∧ (Locking.runS s ops).nonce = s.nonce + (lhanded bs).length) ∧
      (∀ b ∈ bs, b.1.length ≤ 16 ∧ b.2.1.length ≤ 16) := by
  obtain ⟨bs, rw, ul, h, _⟩ := lrun_hist ops s
  exact ⟨bs, rw, ul, locking_fifo_txs h, locking_nonces_consecutive h, locking_caps h⟩

end Goat.C06H

/-! ## 7. non-vacuity -/

namespace Goat.C06H.Example
open Goat.Bitcoin Goat.C06

def mkDep (i : Nat) : DepositReceipt := { address := [], txid := [], txout := i, amount := 1000 + i, tax := 0 }
def mkPaid (i : Nat) : Nat × Receipt := (100 + i, { txid := [], txout := i, amount := 50 + i })

/-- 10 queued deposits, 9 paid notices, 3 refunds; nonce 5; cursor at height 0, voted tip 2 -/
def ex0 : State :=
  { params := default, pubkey := default, tip := 2, hashes := [(1, [1]), (2, [2])], deposited := [], nonce := 5,
    withdrawals := [], processId := 0, processing := [],
    queue := { blockNumber := 0, deposits := (List.range 10).map mkDep, paid := (List.range 9).map mkPaid,
               rejected := [200, 201, 202] } }

def okOr {α : Type} (d : α) : Outcome α → α
  | .ok a => a
  | _ => d

/-- first dequeue -/
def r1 : State × List SysTx := okOr (ex0, []) (dequeue ex0)
theorem r1_ok : dequeue ex0 = .ok r1 := rfl

/-- a real append in between: the execution layer asks for a withdrawal to an undecodable address,
    which is refunded at creation (refund notice 77) … -/
def s2 : State := okOr r1.1 (processBridgeRequest C05H.c0 r1.1 { withdraws := [{ id := 77, amount := 5, txPrice := 1, address := "bad" }] })
theorem s2_ok : processBridgeRequest C05H.c0 r1.1 { withdraws := [{ id := 77, amount := 5, txPrice := 1, address := "bad" }] } = .ok s2 := rfl
/-- … and one more deposit is credited -/
def s3 : State := { s2 with queue := { s2.queue with deposits := s2.queue.deposits ++ [mkDep 10] } }

/-- second dequeue -/
def r2 : State × List SysTx := okOr (s3, []) (dequeue s3)
theorem r2_ok : dequeue s3 = .ok r2 := rfl

theorem s2_appends : Appends r1.1 s2 [] [] [77] := processBridgeRequest_appends C05H.c0 r1.1 s2 _ s2_ok
theorem s3_appends : Appends s2 s3 [mkDep 10] [] [] := ⟨rfl, (List.append_nil _).symm, (List.append_nil _).symm, rfl, rfl⟩

/-- **the hypotheses of the history theorems are satisfiable**: two dequeues with two appends in between -/
theorem exHist : Hist ex0 r2.1 [r1.2, r2.2] [mkDep 10] [] [77] := by
  exact Hist.deq (Hist.app (Hist.app (Hist.deq Hist.nil r1_ok) s2_appends) s3_appends) r2_ok

/-- what the two batches are: 1 hash + 8 deposits + 8 paid (17, the caps bind), then
    1 hash + 3 deposits + 1 paid + 4 refunds -/
example : r1.2.length = 17 ∧ r2.2.length = 9 := by decide
example : hashesOf r1.2 = [[1]] ∧ hashesOf r2.2 = [[2]] := by decide
example : depositsOf r1.2 = (List.range 8).map mkDep ∧ depositsOf r2.2 = [mkDep 8, mkDep 9, mkDep 10] := by decide
example : paidOf r1.2 = (List.range 8).map mkPaid ∧ paidOf r2.2 = [mkPaid 8] := by decide
example : rejectedOf r1.2 = [] ∧ rejectedOf r2.2 = [200, 201, 202, 77] := by decide
/-- nonces 5 … 30 over both batches, the stored nonce ends at 31, the cursor at height 2, the queue is empty -/
example : (handed [r1.2, r2.2]).map SysTx.nonce = List.range' 5 26 := by decide
example : r2.1.nonce = 31 ∧ r2.1.queue.blockNumber = 2 ∧ r2.1.queue.deposits = [] ∧ r2.1.queue.paid = [] ∧
    r2.1.queue.rejected = [] := by decide

/-- the theorems applied to this history -/
example : depositsOf (handed [r1.2, r2.2]) ++ r2.1.queue.deposits = ex0.queue.deposits ++ [mkDep 10] := fifo_deposits exHist
example : paidOf (handed [r1.2, r2.2]) ++ r2.1.queue.paid = ex0.queue.paid ++ [] := fifo_paid exHist
example : rejectedOf (handed [r1.2, r2.2]) ++ r2.1.queue.rejected = ex0.queue.rejected ++ [77] := fifo_rejected exHist
example : Consecutive 5 (handed [r1.2, r2.2]) ∧ r2.1.nonce = 5 + (handed [r1.2, r2.2]).length :=
  nonces_consecutive exHist (by decide)
example : depositsOf (handed [r1.2, r2.2]) = ex0.queue.deposits ++ [mkDep 10] :=
  (drained_all_handed exHist (by decide) (by decide) (by decide)).1

/-- a dequeue on an empty queue with the cursor at the tip hands over nothing and changes nothing
    (`Hist.deq` with an empty batch) -/
example : ∃ s', dequeue r2.1 = .ok (s', []) := ⟨_, rfl⟩

/-- the same through the C05H operation language (`run_hist` is not vacuous): the refund 77 queued
    by a real request and handed over by a real dequeue -/
example : (C05H.run C05H.e0 { rel := C05H.rel0, st := ex0, dPaid := [], dRefund := [] }
    [.dequeue, .bridge { withdraws := [{ id := 77, amount := 5, txPrice := 1, address := "bad" }] }, .dequeue]).dRefund
    = [200, 201, 202, 77] := by decide

/-- the no-wrap hypothesis of `nonces_consecutive` cannot be dropped: at the very top of the 64-bit
    range the stored nonce wraps (31 would follow 2^64 − 1 + 2 ≡ 1) while the numbering inside the
    batch runs on — the next batch would reuse nonce 1 … (unreachable in practice: 2^64 hand-overs) -/
def exW : State :=
  { ex0 with nonce := two64 - 1, tip := 0, queue := { blockNumber := 0, deposits := [mkDep 0, mkDep 1], paid := [], rejected := [] } }
example : ∃ s' txs, dequeue exW = .ok (s', txs) ∧ txs.map SysTx.nonce = [two64 - 1, two64] ∧ s'.nonce = 1 :=
  ⟨_, _, rfl, by decide, by decide⟩

/-! ### locking -/
section
open Goat.Locking (Reward Unlock)

def mkRew (i : Nat) : Reward := { id := i, recipient := [], goat := 10 + i, gas := i }
def mkUnl (i : Nat) : Unlock := { id := i, token := [], recipient := [], amount := 7 + i }

/-- 20 claimed rewards and 3 matured unlocks queued, two unlocks maturing at time 5, nonce 100 -/
def l0 : Locking.State :=
  { (default : Locking.State) with
    nonce := 100
    qRewards := (List.range 20).map mkRew
    qUnlocks := (List.range 3).map mkUnl
    unlockQueue := [(5, [mkUnl 3, mkUnl 4]), (50, [mkUnl 5])] }

def l1 : Locking.State := (Locking.dequeue l0).1
def l2 : Locking.State := Locking.dequeueMature l1 10
def l3 : Locking.State := (Locking.dequeue l2).1

/-- dequeue, begin-block maturity sweep at time 10 (a real append), dequeue -/
theorem exLHist : LHist l0 l3 [(Locking.dequeue l0).2, (Locking.dequeue l2).2] [] (((Locking.dueUnlocks l1 10).map (·.2)).flatten) := by
  exact LHist.deq (LHist.app (LHist.deq (LHist.nil (s := l0))) (dequeueMature_appends l1 10))

example : ((Locking.dueUnlocks l1 10).map (·.2)).flatten = [mkUnl 3, mkUnl 4] := by decide +kernel
example : (Locking.dequeue l0).2 = ((List.range 16).map mkRew, (List.range 3).map mkUnl, 100) := by decide +kernel
example : (Locking.dequeue l2).2 = ([mkRew 16, mkRew 17, mkRew 18, mkRew 19], [mkUnl 3, mkUnl 4], 119) := by decide +kernel
example : (lhanded [(Locking.dequeue l0).2, (Locking.dequeue l2).2]).map SysTx.nonce = List.range' 100 25 := by decide +kernel
example : l3.nonce = 125 ∧ l3.qRewards = [] ∧ l3.qUnlocks = [] := by decide +kernel

example : rewardsOf (lhanded [(Locking.dequeue l0).2, (Locking.dequeue l2).2]) ++ l3.qRewards = l0.qRewards ++ [] :=
  (locking_fifo_txs exLHist).1
example : Consecutive 100 (lhanded [(Locking.dequeue l0).2, (Locking.dequeue l2).2]) ∧
    l3.nonce = 100 + (lhanded [(Locking.dequeue l0).2, (Locking.dequeue l2).2]).length :=
  locking_nonces_consecutive exLHist (by decide +kernel)
end

end Goat.C06H.Example

/-
  ## Index of theorems (namespace Goat.C06H)

  Definitions: `hashesOf` / `depositsOf` / `paidOf` / `rejectedOf` (what a list of bridge system
  transactions carries, in order); `items` (hash ‖ deposits ‖ paid ‖ refunds awaiting their nonce);
  `Appends s s' d p r` (append-only step: `d`, `p`, `r` appended at the back of the three queues, cursor
  and nonce untouched); `Unchanged s s'` (queue and nonce untouched); `Hist s s' batches d p r`
  (history: successful dequeues and append-only steps in any interleaving; `handed batches` is the
  hand-over log); `LAppends`, `LUnchanged`, `LHist`, `lockTxs`, `lhanded`, `rewardsOf`, `unlocksOf` (the
  same for the locking module).

  ### 1–2. one bridge dequeue
  * two64_eq — `two64` is 2^64.
  * hashesOf_append, depositsOf_append, paidOf_append, rejectedOf_append — the carried lists of a concatenation are the concatenations.
  * filterMap_number, filterMap_none, length_number, items_length, items_nonce, drop_take_length — list bookkeeping for `number` / `items`.
  * carried_number_items — a numbered batch `number n (items hb ds ps rs)` carries exactly `hb`, `ds`, `ps`, `rs`.
  * dequeue_shape — one successful dequeue hands over exactly `number nonce (≤1 voted hash of cursor+1 ‖ first 8 deposits ‖ first 8 paid ‖ first 8−#paid refunds)`, removes exactly these prefixes, moves the cursor by the number of hashes and the nonce by the number of transactions (mod 2^64); an empty hand-over changes nothing.
  * dequeue_carries — the carried lists of a batch are those prefixes; the batch is hash, deposits, paid, refunds in this order.
  * dequeue_conserves — handed over ++ still queued = previously queued, for each of the three kinds.
  * dequeue_caps — ≤ 1 hash, ≤ 8 deposits, ≤ 8 paid+refunds, ≤ 17 transactions per dequeue.

  ### 3. bridge histories (A)
  * Unchanged.refl / Unchanged.trans / Unchanged.appends, Appends.refl / Appends.trans — the trivial step (failed operation, dropped proposal) is an append-only step; steps compose.
  * Hist.single_deq, Hist.single_app, Hist.unchanged, Hist.trans — one-step histories; histories compose.
  * fifo (= fifo_deposits ∧ fifo_paid ∧ fifo_rejected) — A1: for every history, (items of a kind handed over, in order) ++ (items still queued) = (items queued at the start) ++ (items appended since, in order): nothing dropped, duplicated, invented or overtaken within its kind.
  * handed_prefix — what has been handed over is a prefix of (initially queued ++ appended).
  * drained_all_handed — when the queue is empty, exactly everything owed has been handed over.
  * proposal_deterministic — building a payload twice from the same committed state gives the same transactions and nonces: an unfinalised payload consumes nothing.
  * nonce_mod — the stored nonce after a history is (initial + number handed over) mod 2^64.
  * nonces_consecutive — A2: without wrap-around, the whole hand-over log carries the consecutive nonces `s.nonce, s.nonce+1, …` and the stored nonce advanced by exactly its length.
  * consecutive_getElem, nonce_at, nonce_injective — the i-th transaction ever handed over has nonce `s.nonce + i`; no nonce is reused.
  * caps — A3: every batch of a history has ≤ 1 hash, ≤ 8 deposits, ≤ 8 paid+refunds, ≤ 17 transactions, in the order hash, deposits, paid, refunds.
  * block_cursor — the block-hash cursor advanced by exactly the number of hashes handed over.

  ### 4. bridge entry points (B)
  * newDeposits_go_queue, newDeposits_appends — NewDeposits appends one receipt per message deposit to the deposit queue, nothing else.
  * newDeposits_appends_credited — those receipts are the ones C03 shows to be credited for the first time.
  * finalizeWithdrawal_appends — FinalizeWithdrawal appends one paid notice per withdrawal of the finalised record, nothing else.
  * approveCancellation_appends — ApproveCancellation appends exactly the approved ids to the refund queue, nothing else.
  * create_fold_rejecting, processBridgeRequest_appends — ProcessBridgeRequest appends exactly the ids of the creation requests with an undecodable address (in request order) to the refund queue, nothing else; no freshness hypothesis.
  * newBlockHashes_unchanged, newPubkey_unchanged, newConsolidation_unchanged, processWithdrawal_unchanged, replaceWithdrawal_unchanged — these handlers leave queue and nonce unchanged.
  * onlyWithdrawals_unchanged — a C05H `OnlyWithdrawals` step is `Unchanged`.
  * paidIds_eq, refundIds_eq — the C05H id extractors are projections of `paidOf` / `rejectedOf`.
  * apply_hist, run_hist — every operation / every run of the C05H operation language (all handlers, arbitrary arguments, failures rolled back, dequeues) is a `Hist`; the ghost delivery logs are what the batches carry.
  * C06_run — FIFO, nonces and caps for every such run, without any hypothesis on the start state.

  ### 5. locking histories (C)
  * rewardsOf_append, unlocksOf_append, lockItems_length, lockTxs_length, lockItems_nonce — bookkeeping.
  * lockTxs_carries, lockTxs_nonce_at — a locking batch (rewards first, then unlocks, numbered from the returned nonce) carries exactly its rewards and unlocks under consecutive nonces.
  * LUnchanged.refl / .trans / .appends, LAppends.refl / .trans, lhanded_snoc, LHist.single_app, LHist.trans — steps and histories compose.
  * locking_dequeue_shape, locking_dequeue_caps — one locking dequeue: first ≤ 16 rewards and first ≤ 16 unlocks leave the queues, returned nonce = stored nonce, stored nonce advances by their number (mod 2^64).
  * locking_fifo (= locking_fifo_rewards ∧ locking_fifo_unlocks), lhanded_carries, locking_fifo_txs — C1: handed over ++ still queued = initially queued ++ appended, for rewards and for unlocks, also read off the system transactions.
  * locking_nonces_consecutive — C2: without wrap-around all locking system transactions of a history carry consecutive nonces from `s.nonce`; the stored nonce advanced by their number.
  * locking_batch_start — every batch starts at `s.nonce +` (transactions of the earlier batches).
  * locking_caps — ≤ 16 rewards and ≤ 16 unlocks per dequeue.

  ### 6. locking entry points
  * lu_* , lockOne_lu, lock_lu, unlockCore_lu, unlockOne_lu, unlock_lu, handleVote_lu, handleVotes_lu, handleEvidence_lu, onWeightChanged_lu, updateTokens_lu, create_lu, distributeReward_go_lu, distributeReward_lu, updateRewardPool_lu — every writer except `claim`, `dequeueMature`, `dequeue` leaves both queues and the nonce unchanged.
  * claim_appends, payouts_ids — `claim` appends exactly C12H's payout records (one per request, request order, request's id and recipient).
  * dequeueMature_appends — the maturity sweep appends exactly the due unlocks (key order).
  * processRequests_appends — the whole request processing appends the claim payouts only.
  * beginBlock_appends — the whole begin-block hook appends the unlocks due at `now` only.
  * endBlocker_unchanged — the end-block hook leaves queues and nonce unchanged.
  * lstep_hist, lrun_hist, C06_locking_run — every run of the locking operation language (C11H.Op) is an `LHist`; FIFO, nonces and caps for every run.

  ### 7. non-vacuity (namespace Goat.C06H.Example)
  * r1_ok, s2_ok, r2_ok, s2_appends, s3_appends, exHist — a concrete bridge history (10 deposits, 9 paid, 3 refunds; dequeue, a real refund-at-creation and a deposit appended, dequeue) with the handed-over lists, nonces 5…30 and final state computed by `decide`; the theorems instantiated on it; the wrap-around counterexample `exW`.
  * exLHist — a concrete locking history (20 rewards, 3 unlocks; dequeue, real maturity sweep, dequeue), nonces 100…124.

  Not covered / limits: nothing is proved only partially.  The no-wrap hypothesis of the two
  `…nonces_consecutive` theorems is necessary in the model (`exW`): the stored nonce is reduced mod
  2^64 but the numbering inside a batch is not.  Block hashes are not queue items; for them only
  `block_cursor` and the per-dequeue statement in `dequeue_shape` (the hash is the voted hash of the
  height right above the cursor) are proved here; their gap-freeness is C06.blockhashes_gapfree.
-/
