/-
  C07 — determinism of the state transition: order-insensitivity of the consensus-path loops that
  range (or ranged) over Go maps.

  (a) x/locking/keeper/abci.go:EndBlocker, removal loop `for val := range lastSet`
  (b) x/locking/keeper/msg_lock.go:Lock (aggregation map; repaired to first-request order, F3)
  (c) CometBFT's validator-set update (the consumer of the update list) does not depend on the
      order of the list, so comparing validator updates *as a set* is justified.

  The static part of C07 (every map range of consensus-path code is allow-listed, every source of
  non-determinism is confined) is `FactsThms.map_ranges_allowlisted` / `FactsThms.nondeterminism_confined`.
-/
import GoatModel.Locking
import GoatModel.Comet
import GoatProofs.Lemmas.Locking
import GoatProofs.FactsThms
namespace Goat.C07
open Goat.Locking

/-! ## (a) EndBlocker: the removal loop -/

/-- body of the first (ranking) loop of `endBlocker`, verbatim -/
def rankStep (acc : State × List (Bytes × Nat) × List Update) (e : Nat × Bytes) :
    Outcome (State × List (Bytes × Nat) × List Update) :=
  let (s, last, ups) := acc
  let addr := e.2
  match vget s addr with
  | none => (Outcome.err "not-found" : Outcome (State × List (Bytes × Nat) × List Update))
  | some v =>
    match v.status with
    | .active =>
      let old := ((last.find? (·.1 == addr)).map (·.2)).getD 0
      let last' := last.filter (·.1 != addr)
      if old ≠ v.power then
        .ok ({ s with valset := (s.valset.filter (·.1 != addr)) ++ [(addr, v.power)] }, last', ups ++ [{ pubkey := v.pubkey, power := v.power }])
      else .ok (s, last', ups)
    | .pending =>
      if last.any (·.1 == addr) then .err "pending-in-set"
      else
        let s1 := vset s addr { v with status := .active, offset := 0, missed := 0 }
        .ok ({ s1 with valset := s1.valset ++ [(addr, v.power)] }, last, ups ++ [{ pubkey := v.pubkey, power := v.power }])
    | _ => .err "status-in-ranking"

/-- the first phase of `endBlocker`: walk the top of the ranking, starting with `lastSet := valset` -/
def rankPhase (s : State) : Outcome (State × List (Bytes × Nat) × List Update) :=
  ((rankingDesc s).take s.params.maxValidators.toNat).foldlM rankStep (s, s.valset, [])

/-- body of the removal loop of `endBlocker`, verbatim -/
def removeStep (acc : State × List Update) (e : Bytes × Nat) : Outcome (State × List Update) :=
  let (s, ups) := acc
  match vget s e.1 with
  | none => (Outcome.err "not-found" : Outcome (State × List Update))
  | some v =>
    let s' := if v.status == .active then vset s e.1 { v with status := .pending } else s
    .ok ({ s' with valset := s'.valset.filter (·.1 != e.1) }, ups ++ [{ pubkey := v.pubkey, power := 0 }])

/-- `endBlocker` with the leftovers (the Go map `lastSet`) visited in the order chosen by `order` -/
def endBlockerWith (order : List (Bytes × Nat) → List (Bytes × Nat)) (s : State) : Outcome (State × List Update) :=
  match rankPhase s with
  | .err e => .err e
  | .panic e => .panic e
  | .ok (s1, leftovers, ups) => (order leftovers).foldlM removeStep (s1, ups)

/-- the model's `endBlocker` is `endBlockerWith` for the sorted order -/
theorem endBlocker_eq (s : State) :
    endBlocker s = endBlockerWith (fun l => l.mergeSort (fun a b => !bytesLt b.1 a.1)) s := rfl

/-! ### the two effects of one removal, as list functions -/

/-- in-place replacement of the record of `a` -/
def setV (l : List (Bytes × Validator)) (a : Bytes) (v : Validator) : List (Bytes × Validator) :=
  l.map (fun e => if e.1 == a then (a, v) else e)

/-- what one removal does to the validator table -/
def rmValidators (l : List (Bytes × Validator)) (a : Bytes) (v : Validator) : List (Bytes × Validator) :=
  if v.status == .active then setV l a { v with status := .pending } else l

/-- the state after the removal of `a`, whose record is `v` -/
def rmState (s : State) (a : Bytes) (v : Validator) : State :=
  let s' := if v.status == .active then vset s a { v with status := .pending } else s
  { s' with valset := s'.valset.filter (·.1 != a) }

theorem removeStep_eq (s : State) (ups : List Update) (e : Bytes × Nat) :
    removeStep (s, ups) e =
      match vget s e.1 with
      | none => .err "not-found"
      | some v => .ok (rmState s e.1 v, ups ++ [{ pubkey := v.pubkey, power := 0 }]) := rfl

theorem any_of_vget {s : State} {a : Bytes} {v : Validator} (h : vget s a = some v) :
    s.validators.any (·.1 == a) = true := by
  unfold vget at h
  cases hf : s.validators.find? (·.1 == a) with
  | none => rw [hf] at h; cases h
  | some e =>
    have := List.find?_some hf
    exact List.any_eq_true.mpr ⟨e, List.mem_of_find?_eq_some hf, this⟩

/-- when `a` is present, a removal is a pure function of the two tables -/
theorem rmState_eq {s : State} {a : Bytes} {v : Validator} (h : vget s a = some v) :
    rmState s a v = { s with validators := rmValidators s.validators a v, valset := s.valset.filter (·.1 != a) } := by
  have hany := any_of_vget h
  unfold rmState rmValidators vset setV
  by_cases hs : (v.status == Status.active) = true
  · simp only [hs, if_true, hany]
  · simp only [hs, if_false, Bool.false_eq_true]

theorem vget_rmState_other (s : State) (a b : Bytes) (v : Validator) (hab : a ≠ b) :
    vget (rmState s a v) b = vget s b := by
  unfold rmState
  by_cases hs : (v.status == Status.active) = true
  · simp only [hs, if_true]
    exact (vget_congr _ (vset s a { v with status := .pending }) rfl b).trans (vget_vset_other s a b _ hab)
  · simp only [hs, if_false, Bool.false_eq_true]
    exact vget_congr _ s rfl b

theorem setV_comm (l : List (Bytes × Validator)) (a b : Bytes) (x y : Validator) (hab : a ≠ b) :
    setV (setV l a x) b y = setV (setV l b y) a x := by
  unfold setV
  rw [List.map_map, List.map_map]
  apply List.map_congr_left
  intro e _
  simp only [Function.comp]
  by_cases ha : (e.1 == a) = true
  · have hea : e.1 = a := by simpa using ha
    have hb : (e.1 == b) = false := by rw [hea]; simp [hab]
    have hab' : (a == b) = false := by simp [hab]
    simp [ha, hb, hab']
  · by_cases hb : (e.1 == b) = true
    · have hba : (b == a) = false := by simp [Ne.symm hab]
      simp [ha, hb, hba]
    · simp [ha, hb]

theorem rmValidators_comm (l : List (Bytes × Validator)) (a b : Bytes) (x y : Validator) (hab : a ≠ b) :
    rmValidators (rmValidators l a x) b y = rmValidators (rmValidators l b y) a x := by
  unfold rmValidators
  by_cases hx : (x.status == Status.active) = true <;> by_cases hy : (y.status == Status.active) = true
  · simp only [hx, hy, if_true]; exact setV_comm l a b _ _ hab
  · simp only [hx, hy, if_true, if_false, Bool.false_eq_true]
  · simp only [hx, hy, if_true, if_false, Bool.false_eq_true]
  · simp only [hx, hy, if_false, Bool.false_eq_true]

/-- **two removals of distinct addresses commute, exactly** (the validator table is updated in place,
    the recorded set is filtered) -/
theorem rmState_comm {s : State} {a b : Bytes} {va vb : Validator} (hab : a ≠ b)
    (ha : vget s a = some va) (hb : vget s b = some vb) :
    rmState (rmState s a va) b vb = rmState (rmState s b vb) a va := by
  have hb' : vget (rmState s a va) b = some vb := (vget_rmState_other s a b va hab).trans hb
  have ha' : vget (rmState s b vb) a = some va := (vget_rmState_other s b a vb (Ne.symm hab)).trans ha
  rw [rmState_eq hb', rmState_eq ha', rmState_eq ha, rmState_eq hb]
  simp only [rmValidators_comm s.validators a b va vb hab, List.filter_filter]
  congr 2
  funext e
  exact Bool.and_comm _ _

/-! ### agreement of two runs -/

/-- Two outcomes of the removal loop *agree*: the same error (or panic) class, or success with
    **equal** states and update lists that are permutations of one another. -/
def Agree : Outcome (State × List Update) → Outcome (State × List Update) → Prop
  | .ok (s1, u1), .ok (s2, u2) => s1 = s2 ∧ u1.Perm u2
  | .err e1, .err e2 => e1 = e2
  | .panic e1, .panic e2 => e1 = e2
  | _, _ => False

theorem Agree.refl (x : Outcome (State × List Update)) : Agree x x := by
  cases x with
  | ok p => exact ⟨rfl, List.Perm.refl _⟩
  | err e => exact rfl
  | panic e => exact rfl

theorem Agree.symm {x y : Outcome (State × List Update)} (h : Agree x y) : Agree y x := by
  cases x <;> cases y <;> first | exact h.elim | skip
  · exact ⟨h.1.symm, h.2.symm⟩
  · exact Eq.symm h
  · exact Eq.symm h

theorem Agree.trans {x y z : Outcome (State × List Update)} (h1 : Agree x y) (h2 : Agree y z) : Agree x z := by
  cases x <;> cases y <;> first | exact h1.elim | skip
  all_goals cases z <;> first | exact h2.elim | skip
  · exact ⟨h1.1.trans h2.1, h1.2.trans h2.2⟩
  · exact Eq.trans h1 h2
  · exact Eq.trans h1 h2

/-- unpacking: agreement with a successful run -/
theorem Agree.of_ok {x : Outcome (State × List Update)} {s : State} {u : List Update} (h : Agree x (.ok (s, u))) :
    ∃ u', x = .ok (s, u') ∧ u'.Perm u := by
  cases x with
  | ok p => obtain ⟨s', u'⟩ := p; obtain ⟨h1, h2⟩ := h; subst h1; exact ⟨u', rfl, h2⟩
  | err e => exact h.elim
  | panic e => exact h.elim

/-- unpacking: agreement with a failed run -/
theorem Agree.of_err {x : Outcome (State × List Update)} {e : String} (h : Agree x (.err e)) : x = .err e := by
  cases x with
  | ok p => exact h.elim
  | err e' => exact congrArg _ h
  | panic e => exact h.elim

/-- agreeing runs succeed or fail together -/
theorem Agree.isOk_eq {x y : Outcome (State × List Update)} (h : Agree x y) : x.isOk = y.isOk := by
  cases x <;> cases y <;> first | exact h.elim | rfl

/-- the removal loop from two accumulators that differ only by a permutation of the updates -/
theorem removals_congr (l : List (Bytes × Nat)) (s : State) {u1 u2 : List Update} (hu : u1.Perm u2) :
    Agree (l.foldlM removeStep (s, u1)) (l.foldlM removeStep (s, u2)) := by
  induction l generalizing s u1 u2 with
  | nil => exact ⟨rfl, hu⟩
  | cons e l ih =>
    rw [List.foldlM_cons, List.foldlM_cons, removeStep_eq, removeStep_eq]
    cases vget s e.1 with
    | none => exact rfl
    | some v => exact ih _ (List.Perm.append_right _ hu)

/-- **commutation of two removals** of distinct addresses, in front of any remaining list -/
theorem removeStep_swap (a b : Bytes × Nat) (l : List (Bytes × Nat)) (s : State) (u : List Update) (hab : a.1 ≠ b.1) :
    Agree ((a :: b :: l).foldlM removeStep (s, u)) ((b :: a :: l).foldlM removeStep (s, u)) := by
  rw [List.foldlM_cons, List.foldlM_cons, removeStep_eq, removeStep_eq]
  cases ha : vget s a.1 with
  | none =>
    cases hb : vget s b.1 with
    | none => exact rfl
    | some vb =>
      show Agree (.err "not-found") (List.foldlM removeStep _ (a :: l))
      rw [List.foldlM_cons, removeStep_eq, vget_rmState_other s b.1 a.1 vb (Ne.symm hab), ha]
      exact rfl
  | some va =>
    cases hb : vget s b.1 with
    | none =>
      show Agree (List.foldlM removeStep _ (b :: l)) (.err "not-found")
      rw [List.foldlM_cons, removeStep_eq, vget_rmState_other s a.1 b.1 va hab, hb]
      exact rfl
    | some vb =>
      show Agree (List.foldlM removeStep _ (b :: l)) (List.foldlM removeStep _ (a :: l))
      rw [List.foldlM_cons, removeStep_eq, vget_rmState_other s a.1 b.1 va hab, hb,
          List.foldlM_cons, removeStep_eq, vget_rmState_other s b.1 a.1 vb (Ne.symm hab), ha]
      show Agree (List.foldlM removeStep _ l) (List.foldlM removeStep _ l)
      rw [rmState_comm hab ha hb]
      apply removals_congr
      rw [List.append_assoc, List.append_assoc]
      exact List.Perm.append_left _ (List.Perm.swap _ _ [])

/-- **the removal loop is insensitive to the order in which the leftovers are visited**, as long as
    their addresses are pairwise distinct (they are the keys of a Go map) -/
theorem removals_perm {l l' : List (Bytes × Nat)} (hp : l.Perm l') (hnd : (l.map (·.1)).Nodup)
    (s : State) (u : List Update) :
    Agree (l.foldlM removeStep (s, u)) (l'.foldlM removeStep (s, u)) := by
  induction hp generalizing s u with
  | nil => exact Agree.refl _
  | cons x _ ih =>
    rw [List.map_cons, List.nodup_cons] at hnd
    rw [List.foldlM_cons, List.foldlM_cons, removeStep_eq]
    cases vget s x.1 with
    | none => exact rfl
    | some v => exact ih hnd.2 _ _
  | swap x y l =>
    rw [List.map_cons, List.map_cons, List.nodup_cons] at hnd
    exact removeStep_swap y x l s u (fun h => hnd.1 (by rw [h]; exact List.mem_cons_self))
  | trans h1 _ ih1 ih2 =>
    exact Agree.trans (ih1 hnd s u) (ih2 ((h1.map (·.1)).nodup hnd) s u)

/-! ### the leftovers have pairwise distinct addresses -/

theorem rankStep_sublist {acc res : State × List (Bytes × Nat) × List Update} {e : Nat × Bytes}
    (h : rankStep acc e = .ok res) : res.2.1.Sublist acc.2.1 := by
  obtain ⟨s, last, ups⟩ := acc
  unfold rankStep at h
  dsimp only at h
  split at h
  · cases h
  · split at h
    · split at h <;> cases h <;> exact List.filter_sublist
    · split at h <;> cases h
      exact List.Sublist.refl _
    · cases h

theorem rankFold_sublist (l : List (Nat × Bytes)) {acc res : State × List (Bytes × Nat) × List Update}
    (h : l.foldlM rankStep acc = .ok res) : res.2.1.Sublist acc.2.1 := by
  induction l generalizing acc with
  | nil => cases h; exact List.Sublist.refl _
  | cons e l ih =>
    rw [List.foldlM_cons] at h
    cases hr : rankStep acc e with
    | ok acc' =>
      rw [hr] at h
      exact (ih h).trans (rankStep_sublist hr)
    | err x => rw [hr] at h; cases h
    | panic x => rw [hr] at h; cases h

/-- the leftovers handed to the removal loop are a sub-list of the recorded validator set (entries
    are only ever deleted from `lastSet`) -/
theorem leftovers_sublist {s s1 : State} {lo : List (Bytes × Nat)} {ups : List Update}
    (h : rankPhase s = .ok (s1, lo, ups)) : lo.Sublist s.valset :=
  rankFold_sublist _ h

/-- hence their addresses are pairwise distinct whenever those of the recorded set are -/
theorem leftovers_nodup {s s1 : State} {lo : List (Bytes × Nat)} {ups : List Update}
    (h : rankPhase s = .ok (s1, lo, ups)) (hnd : (s.valset.map (·.1)).Nodup) : (lo.map (·.1)).Nodup :=
  List.Nodup.sublist ((leftovers_sublist h).map _) hnd

/-! ### main theorems of (a) -/

/-- **C07, removal loop, list form.**  Running the removal loop over any permutation `lo'` of the
    leftovers `lo` (pairwise distinct addresses) from the same state and the same updates-so-far
    fails with the same error, or succeeds with *exactly the same* state and a list of validator
    updates that is a permutation of the other one. -/
theorem removal_loop_order_insensitive (s1 : State) (ups : List Update) (lo lo' : List (Bytes × Nat))
    (hp : lo'.Perm lo) (hnd : (lo.map (·.1)).Nodup) :
    Agree (lo'.foldlM removeStep (s1, ups)) (lo.foldlM removeStep (s1, ups)) :=
  removals_perm hp ((hp.map (·.1)).symm.nodup hnd) s1 ups

/-- **C07, EndBlocker.**  Whatever order the Go runtime picks for `range lastSet` (any function
    `order` that returns a permutation of its argument), `EndBlocker` agrees with the model's sorted
    traversal: the same error, or the same final state and the same validator updates up to order.
    The only hypothesis is that the recorded validator set has pairwise distinct addresses. -/
theorem endBlocker_removal_order_insensitive (s : State) (order : List (Bytes × Nat) → List (Bytes × Nat))
    (hord : ∀ l, (order l).Perm l) (hnd : (s.valset.map (·.1)).Nodup) :
    Agree (endBlockerWith order s) (endBlocker s) := by
  rw [endBlocker_eq]
  unfold endBlockerWith
  cases hr : rankPhase s with
  | err e => exact rfl
  | panic e => exact rfl
  | ok r =>
    obtain ⟨s1, lo, ups⟩ := r
    have hlo := leftovers_nodup hr hnd
    exact removals_perm ((hord lo).trans (List.mergeSort_perm lo _).symm) (((hord lo).map (·.1)).symm.nodup hlo) s1 ups

/-- two arbitrary traversal orders agree with each other -/
theorem endBlocker_any_two_orders (s : State) (o1 o2 : List (Bytes × Nat) → List (Bytes × Nat))
    (h1 : ∀ l, (o1 l).Perm l) (h2 : ∀ l, (o2 l).Perm l) (hnd : (s.valset.map (·.1)).Nodup) :
    Agree (endBlockerWith o1 s) (endBlockerWith o2 s) :=
  (endBlocker_removal_order_insensitive s o1 h1 hnd).trans (endBlocker_removal_order_insensitive s o2 h2 hnd).symm

/-- explicit form: if the model's `endBlocker` succeeds, so does every other traversal order, with
    the same state and a permutation of the updates; if it fails, every order fails the same way -/
theorem endBlocker_order_explicit (s : State) (order : List (Bytes × Nat) → List (Bytes × Nat))
    (hord : ∀ l, (order l).Perm l) (hnd : (s.valset.map (·.1)).Nodup) :
    (∀ s' ups, endBlocker s = .ok (s', ups) → ∃ ups', endBlockerWith order s = .ok (s', ups') ∧ ups'.Perm ups) ∧
    (∀ e, endBlocker s = .err e → endBlockerWith order s = .err e) := by
  have h := endBlocker_removal_order_insensitive s order hord hnd
  constructor
  · intro s' ups he; rw [he] at h; exact h.of_ok
  · intro e he; rw [he] at h; exact h.of_err

/-! ### a concrete instance: the hypotheses are satisfiable and `Perm` (not `=`) is sharp for the updates -/

def exV (pk : Bytes) (st : Status) : Validator :=
  { pubkey := pk, power := 5, locking := [], reward := 0, gasReward := 0, status := st, offset := 0, missed := 0, jailedUntil := 0 }

def exS : State :=
  { (default : State) with
    validators := [([1], exV [11] .active), ([2], exV [12] .downgrade), ([3], exV [13] .active)],
    valset := [([1], 5), ([2], 5), ([3], 5)] }

def upsOf : Outcome (State × List Update) → List Update
  | .ok (_, u) => u
  | _ => []

example : (([([1], 5), ([2], 5)] : List (Bytes × Nat)).map (·.1)).Nodup := by decide
example : upsOf ([([1], 5), ([2], 5)].foldlM removeStep (exS, [])) = [⟨[11], 0⟩, ⟨[12], 0⟩] := by decide
example : upsOf ([([2], 5), ([1], 5)].foldlM removeStep (exS, [])) = [⟨[12], 0⟩, ⟨[11], 0⟩] := by decide
example : Agree ([([2], 5), ([1], 5)].foldlM removeStep (exS, [])) ([([1], 5), ([2], 5)].foldlM removeStep (exS, [])) :=
  removal_loop_order_insensitive exS [] _ _ (List.Perm.swap _ _ []) (by decide)

/-! ## (b) Lock: aggregation of the requests per validator -/

/-! ### sdk.Coins arithmetic: `amountOf` after `addCoin` (no sortedness needed) -/

theorem ins_find_same (d : String) (a : Int) (l : Coins) (hl : ∀ e ∈ l, e.1 ≠ d) :
    (setAmount.ins d a l).find? (·.1 == d) = some (d, a) := by
  induction l with
  | nil => simp [setAmount.ins]
  | cons e es ih =>
    have he : (e.1 == d) = false := by simpa using hl e List.mem_cons_self
    rw [setAmount.ins]
    by_cases hlt : d < e.1
    · rw [if_pos hlt]; simp
    · rw [if_neg hlt, List.find?_cons, he]
      exact ih (fun x hx => hl x (List.mem_cons_of_mem _ hx))

theorem ins_find_other (d d' : String) (a : Int) (l : Coins) (hd : d ≠ d') :
    (setAmount.ins d a l).find? (·.1 == d') = l.find? (·.1 == d') := by
  have hdd : (d == d') = false := by simpa using hd
  induction l with
  | nil => simp [setAmount.ins, hdd]
  | cons e es ih =>
    rw [setAmount.ins]
    by_cases hlt : d < e.1
    · rw [if_pos hlt, List.find?_cons]; simp only [hdd]
    · rw [if_neg hlt, List.find?_cons, List.find?_cons, ih]

theorem filter_find_other (d d' : String) (l : Coins) (hd : d ≠ d') :
    (l.filter (·.1 != d)).find? (·.1 == d') = l.find? (·.1 == d') := by
  induction l with
  | nil => rfl
  | cons e es ih =>
    rw [List.filter_cons]
    by_cases he : (e.1 != d) = true
    · rw [if_pos he, List.find?_cons, List.find?_cons, ih]
    · have hed : e.1 = d := by simpa using he
      have : (e.1 == d') = false := by rw [hed]; simpa using hd
      rw [if_neg he, List.find?_cons, this, ih]

theorem amountOf_setAmount (c : Coins) (d d' : String) (a : Int) :
    amountOf (setAmount c d a) d' = if d' = d then a else amountOf c d' := by
  unfold amountOf setAmount
  have hrest : ∀ e ∈ c.filter (·.1 != d), e.1 ≠ d := by
    intro e he; simpa using (List.mem_filter.mp he).2
  by_cases hd : d' = d
  · subst hd
    rw [if_pos rfl]
    by_cases ha : a = 0
    · simp only [ha, if_true]
      have : (c.filter (·.1 != d')).find? (·.1 == d') = none := by
        rw [List.find?_eq_none]; intro e he; simpa using hrest e he
      rw [this]; rfl
    · simp only [ha, if_false]
      rw [ins_find_same d' a _ hrest]; rfl
  · rw [if_neg hd]
    by_cases ha : a = 0
    · simp only [ha, if_true]
      rw [filter_find_other d d' c (Ne.symm hd)]
    · simp only [ha, if_false]
      rw [ins_find_other d d' a _ (Ne.symm hd), filter_find_other d d' c (Ne.symm hd)]

/-- `coins.Add(coin)` adds to the amount of that denom and to nothing else -/
theorem amountOf_addCoin (c : Coins) (d d' : String) (a : Int) :
    amountOf (addCoin c d a) d' = if d' = d then amountOf c d + a else amountOf c d' := by
  unfold addCoin
  rw [amountOf_setAmount]

/-! ### the aggregation fold -/

/-- body of the aggregation loop of `aggregateLocks`, verbatim -/
def aggStep (acc : List (Bytes × Coins)) (r : LockReq) : List (Bytes × Coins) :=
  let cur := ((acc.find? (·.1 == r.validator)).map (·.2)).getD []
  let cur' := addCoin cur r.token r.amount
  if acc.any (·.1 == r.validator) then acc.map (fun e => if e.1 == r.validator then (e.1, cur') else e)
  else acc ++ [(r.validator, cur')]

/-- the aggregated requests (the Go `updates` map together with its first-insertion order) -/
def aggregate (reqs : List LockReq) : List (Bytes × Coins) := reqs.foldl aggStep []

/-- `aggregateLocks` is `aggregate` plus the 256-bit overflow check; it depends on the request list
    only (no state, no clock, no map order) and never returns an error -/
theorem aggregateLocks_eq (reqs : List LockReq) :
    aggregateLocks reqs =
      if (aggregate reqs).any (fun e => e.2.any (fun c => !fits256 c.2)) then .panic "int-overflow"
      else .ok (aggregate reqs) := rfl

theorem aggregateLocks_ok {reqs : List LockReq} {agg : List (Bytes × Coins)} (h : aggregateLocks reqs = .ok agg) :
    agg = aggregate reqs := by
  rw [aggregateLocks_eq] at h
  split at h
  · cases h
  · cases h; rfl

theorem aggregateLocks_never_err (reqs : List LockReq) (e : String) : aggregateLocks reqs ≠ .err e := by
  rw [aggregateLocks_eq]
  split <;> intro h <;> cases h

/-- the validators of an aggregate, in list order -/
def keys (l : List (Bytes × Coins)) : List Bytes := l.map (·.1)

/-- the coins recorded for validator `v` -/
def coinsOf (v : Bytes) (l : List (Bytes × Coins)) : Coins := ((l.find? (·.1 == v)).map (·.2)).getD []

theorem any_eq_mem_keys (l : List (Bytes × Coins)) (v : Bytes) : l.any (·.1 == v) = true ↔ v ∈ keys l := by
  unfold keys
  simp only [List.any_eq_true, List.mem_map]
  constructor
  · rintro ⟨e, he, h⟩; exact ⟨e, he, by simpa using h⟩
  · rintro ⟨e, he, h⟩; exact ⟨e, he, by simpa using h⟩

/-- one request either leaves the key list alone (validator already present) or appends its validator -/
theorem keys_aggStep (acc : List (Bytes × Coins)) (r : LockReq) :
    keys (aggStep acc r) = if r.validator ∈ keys acc then keys acc else keys acc ++ [r.validator] := by
  unfold aggStep
  dsimp only
  by_cases h : acc.any (·.1 == r.validator) = true
  · rw [if_pos h, if_pos ((any_eq_mem_keys acc _).mp h)]
    unfold keys
    rw [List.map_map]
    apply List.map_congr_left
    intro e _
    simp only [Function.comp]
    split <;> rfl
  · rw [if_neg h, if_neg (fun hm => h ((any_eq_mem_keys acc _).mpr hm))]
    unfold keys
    rw [List.map_append]; rfl

theorem keys_fold (rs : List LockReq) (acc : List (Bytes × Coins)) :
    keys (rs.foldl aggStep acc) =
      keys acc ++ ((rs.map (·.validator)).filter (fun v => !(keys acc).contains v)).eraseDups := by
  induction rs generalizing acc with
  | nil => simp
  | cons r rs ih =>
    rw [List.foldl_cons, ih, keys_aggStep, List.map_cons]
    by_cases hm : r.validator ∈ keys acc
    · have hc : (keys acc).contains r.validator = true := by simpa using hm
      rw [if_pos hm]
      simp only [List.filter_cons, hc, Bool.not_true, Bool.false_eq_true, if_false]
    · have hc : (keys acc).contains r.validator = false := by simpa using hm
      rw [if_neg hm]
      simp only [List.filter_cons, hc, Bool.not_false, if_true, List.eraseDups_cons, List.filter_filter, List.append_assoc]
      congr 1
      show r.validator :: _ = r.validator :: _
      congr 1
      show List.eraseDups _ = List.eraseDups _
      congr 1
      apply List.filter_congr
      intro v _
      simp only [List.contains_append, List.contains_cons, List.contains_nil, Bool.or_false, Bool.not_or]
      rw [Bool.and_comm]

/-- **validators appear in the order of their first request**: the key list of the aggregate is the
    list of requested validators with later duplicates erased (`List.eraseDups` keeps first occurrences) -/
theorem keys_aggregate (reqs : List LockReq) : keys (aggregate reqs) = (reqs.map (·.validator)).eraseDups := by
  unfold aggregate
  rw [keys_fold]
  have : (List.filter (fun v => !(keys ([] : List (Bytes × Coins))).contains v) (reqs.map (·.validator))) = reqs.map (·.validator) :=
    List.filter_eq_self.mpr (fun _ _ => rfl)
  rw [this]; rfl

theorem keys_nodup_fold (rs : List LockReq) (acc : List (Bytes × Coins)) (h : (keys acc).Nodup) :
    (keys (rs.foldl aggStep acc)).Nodup := by
  induction rs generalizing acc with
  | nil => exact h
  | cons r rs ih =>
    rw [List.foldl_cons]
    apply ih
    rw [keys_aggStep]
    by_cases hm : r.validator ∈ keys acc
    · rw [if_pos hm]; exact h
    · rw [if_neg hm, List.nodup_append]
      refine ⟨h, by simp, ?_⟩
      intro a ha b hb
      have : b = r.validator := by simpa using hb
      subst this
      exact fun hab => hm (hab ▸ ha)

/-- **each validator appears once** in the aggregate -/
theorem keys_aggregate_nodup (reqs : List LockReq) : (keys (aggregate reqs)).Nodup :=
  keys_nodup_fold reqs [] (by simp [keys])

/-- the aggregate has an entry for exactly the validators that occur in some request -/
theorem mem_keys_aggregate (reqs : List LockReq) (v : Bytes) :
    v ∈ keys (aggregate reqs) ↔ ∃ r ∈ reqs, r.validator = v := by
  rw [keys_aggregate, List.mem_eraseDups, List.mem_map]

/-- first-occurrence order, spelled out with positions: if `a` comes before `b` in the aggregate then
    the first request for `a` comes before the first request for `b` -/
theorem keys_fold_idx (rs p : List LockReq) (acc : List (Bytes × Coins))
    (hmem : ∀ a, a ∈ keys acc ↔ a ∈ p.map (·.validator))
    (hpw : (keys acc).Pairwise (fun a b => (p.map (·.validator)).idxOf a < (p.map (·.validator)).idxOf b)) :
    (keys (rs.foldl aggStep acc)).Pairwise
      (fun a b => ((p ++ rs).map (·.validator)).idxOf a < ((p ++ rs).map (·.validator)).idxOf b) := by
  induction rs generalizing p acc with
  | nil => simpa using hpw
  | cons r rs ih =>
    rw [List.foldl_cons]
    have happ : p ++ r :: rs = (p ++ [r]) ++ rs := by simp
    rw [happ]
    have hidx : ∀ a, a ∈ p.map (·.validator) →
        ((p ++ [r]).map (·.validator)).idxOf a = (p.map (·.validator)).idxOf a := by
      intro a ha
      rw [List.map_append, List.idxOf_append, if_pos ha]
    apply ih
    · intro a
      rw [keys_aggStep]
      by_cases hm : r.validator ∈ keys acc
      · rw [if_pos hm, hmem a, List.map_append, List.mem_append]
        constructor
        · exact Or.inl
        · rintro (h | h)
          · exact h
          · have : a = r.validator := by simpa using h
            subst this; exact (hmem _).mp hm
      · rw [if_neg hm, List.mem_append, hmem a, List.map_append, List.mem_append]
        simp
    · rw [keys_aggStep]
      by_cases hm : r.validator ∈ keys acc
      · rw [if_pos hm]
        refine hpw.imp_of_mem ?_
        intro a b ha hb hab
        rw [hidx a ((hmem a).mp ha), hidx b ((hmem b).mp hb)]; exact hab
      · rw [if_neg hm, List.pairwise_append]
        refine ⟨?_, by simp, ?_⟩
        · refine hpw.imp_of_mem ?_
          intro a b ha hb hab
          rw [hidx a ((hmem a).mp ha), hidx b ((hmem b).mp hb)]; exact hab
        · intro a ha b hb
          have hb' : b = r.validator := by simpa using hb
          subst hb'
          have hnp : r.validator ∉ p.map (·.validator) := fun h => hm ((hmem _).mpr h)
          rw [hidx a ((hmem a).mp ha), List.map_append, List.idxOf_append, if_neg hnp]
          have := List.idxOf_lt_length_of_mem ((hmem a).mp ha)
          omega

theorem keys_aggregate_first_occurrence (reqs : List LockReq) :
    (keys (aggregate reqs)).Pairwise
      (fun a b => (reqs.map (·.validator)).idxOf a < (reqs.map (·.validator)).idxOf b) := by
  have := keys_fold_idx reqs [] [] (by simp [keys]) (by simp [keys])
  simpa [aggregate] using this

/-! ### the aggregated coins -/

theorem find_mapset_same (l : List (Bytes × Coins)) (k : Bytes) (c : Coins) :
    (l.map (fun e => if e.1 == k then (e.1, c) else e)).find? (·.1 == k) =
      (l.find? (·.1 == k)).map (fun e => (e.1, c)) := by
  induction l with
  | nil => rfl
  | cons e es ih =>
    rw [List.map_cons, List.find?_cons, List.find?_cons]
    by_cases he : (e.1 == k) = true
    · simp only [he, if_true, Option.map_some]
    · simp only [he, if_false, Bool.false_eq_true]
      exact ih

theorem find_mapset_other (l : List (Bytes × Coins)) (k k' : Bytes) (c : Coins) (hk : k ≠ k') :
    (l.map (fun e => if e.1 == k then (e.1, c) else e)).find? (·.1 == k') = l.find? (·.1 == k') := by
  induction l with
  | nil => rfl
  | cons e es ih =>
    rw [List.map_cons, List.find?_cons, List.find?_cons]
    by_cases he : (e.1 == k) = true
    · have hek : e.1 = k := by simpa using he
      have : (e.1 == k') = false := by rw [hek]; simpa using hk
      simp only [he, if_true, this]
      exact ih
    · simp only [he, if_false, Bool.false_eq_true]
      rw [ih]

/-- one request adds its coin to the coins of its validator and touches no other validator -/
theorem coinsOf_aggStep (v : Bytes) (acc : List (Bytes × Coins)) (r : LockReq) :
    coinsOf v (aggStep acc r) = if r.validator = v then addCoin (coinsOf v acc) r.token r.amount else coinsOf v acc := by
  unfold aggStep coinsOf
  dsimp only
  by_cases h : acc.any (·.1 == r.validator) = true
  · rw [if_pos h]
    by_cases hv : r.validator = v
    · subst hv
      rw [if_pos rfl, find_mapset_same]
      obtain ⟨e, he, hek⟩ := List.any_eq_true.mp h
      cases hf : acc.find? (·.1 == r.validator) with
      | none => exact absurd hek (by simpa using List.find?_eq_none.mp hf e he)
      | some x => rfl
    · rw [if_neg hv, find_mapset_other _ _ _ _ hv]
  · rw [if_neg h]
    have hnone : acc.find? (·.1 == r.validator) = none := by
      rw [List.find?_eq_none]
      intro e he hc
      exact h (List.any_eq_true.mpr ⟨e, he, hc⟩)
    rw [List.find?_append]
    by_cases hv : r.validator = v
    · subst hv
      rw [if_pos rfl, hnone]
      simp
    · rw [if_neg hv]
      have : (r.validator == v) = false := by simpa using hv
      simp [this]

/-- the coins of `v` after a run of requests: its own requests folded in request order -/
theorem coinsOf_fold (v : Bytes) (rs : List LockReq) (acc : List (Bytes × Coins)) :
    coinsOf v (rs.foldl aggStep acc) =
      (rs.filter (·.validator == v)).foldl (fun c r => addCoin c r.token r.amount) (coinsOf v acc) := by
  induction rs generalizing acc with
  | nil => rfl
  | cons r rs ih =>
    rw [List.foldl_cons, ih, coinsOf_aggStep, List.filter_cons]
    by_cases hv : r.validator = v
    · have : (r.validator == v) = true := by simpa using hv
      rw [if_pos hv, if_pos this, List.foldl_cons]
    · have : ¬ (r.validator == v) = true := by simpa using hv
      rw [if_neg hv, if_neg this]

theorem amountOf_fold_addCoin (rs : List LockReq) (c : Coins) (d : String) :
    amountOf (rs.foldl (fun c r => addCoin c r.token r.amount) c) d =
      amountOf c d + ((rs.filter (·.token == d)).map (·.amount)).sum := by
  induction rs generalizing c with
  | nil => simp
  | cons r rs ih =>
    rw [List.foldl_cons, ih, amountOf_addCoin, List.filter_cons]
    by_cases hd : r.token = d
    · have : (r.token == d) = true := by simpa using hd
      rw [if_pos hd.symm, if_pos this, List.map_cons, List.sum_cons, hd]
      omega
    · have : ¬ (r.token == d) = true := by simpa using hd
      rw [if_neg (fun h => hd h.symm), if_neg this]

/-- **the aggregated amount of token `d` for validator `v` is the sum of the amounts of `v`'s requests
    for `d`** (unconditionally — no assumption on signs, order or sortedness) -/
theorem aggregate_amount (reqs : List LockReq) (v : Bytes) (d : String) :
    amountOf (coinsOf v (aggregate reqs)) d =
      ((reqs.filter (fun r => r.validator == v && r.token == d)).map (·.amount)).sum := by
  unfold aggregate
  rw [coinsOf_fold, amountOf_fold_addCoin, List.filter_filter]
  have h0 : amountOf (coinsOf v []) d = 0 := rfl
  rw [h0, Int.zero_add]
  congr 2
  exact List.filter_congr (fun r _ => Bool.and_comm _ _)

/-- the *content* of the aggregate (what the Go map held) does not depend on the order of the
    requests at all; only the traversal order does, and that is fixed by `keys_aggregate` -/
theorem aggregate_amount_perm {reqs reqs' : List LockReq} (hp : reqs.Perm reqs') (v : Bytes) (d : String) :
    amountOf (coinsOf v (aggregate reqs)) d = amountOf (coinsOf v (aggregate reqs')) d := by
  rw [aggregate_amount, aggregate_amount]
  have h := (hp.filter (fun r => r.validator == v && r.token == d)).map (·.amount)
  generalize (reqs.filter _).map _ = l1 at h
  generalize (reqs'.filter _).map _ = l2 at h
  induction h with
  | nil => rfl
  | cons x _ ih => rw [List.sum_cons, List.sum_cons, ih]
  | swap x y l => rw [List.sum_cons, List.sum_cons, List.sum_cons, List.sum_cons]; omega
  | trans _ _ ih1 ih2 => exact ih1.trans ih2

/-- **C07, Lock.**  Everything that makes the (repaired) aggregation deterministic, in one statement:
    a successful `aggregateLocks` returns a list that is a function of the request list only, in which
    every requested validator appears exactly once, in the order of first request, holding for every
    token the sum of that validator's requested amounts. -/
theorem aggregateLocks_deterministic {reqs : List LockReq} {agg : List (Bytes × Coins)}
    (h : aggregateLocks reqs = .ok agg) :
    agg = aggregate reqs ∧
    (agg.map (·.1)).Nodup ∧
    agg.map (·.1) = (reqs.map (·.validator)).eraseDups ∧
    (agg.map (·.1)).Pairwise (fun a b => (reqs.map (·.validator)).idxOf a < (reqs.map (·.validator)).idxOf b) ∧
    (∀ v, v ∈ agg.map (·.1) ↔ ∃ r ∈ reqs, r.validator = v) ∧
    (∀ v d, amountOf (coinsOf v agg) d = ((reqs.filter (fun r => r.validator == v && r.token == d)).map (·.amount)).sum) := by
  have := aggregateLocks_ok h
  subst this
  exact ⟨rfl, keys_aggregate_nodup reqs, keys_aggregate reqs, keys_aggregate_first_occurrence reqs,
    mem_keys_aggregate reqs, aggregate_amount reqs⟩

/-- since each validator appears once, `coinsOf v agg` is the coins of *the* entry of `v` -/
theorem coinsOf_of_mem {agg : List (Bytes × Coins)} (hnd : (keys agg).Nodup) {v : Bytes} {c : Coins}
    (hm : (v, c) ∈ agg) : coinsOf v agg = c := by
  unfold coinsOf
  induction agg with
  | nil => cases hm
  | cons e es ih =>
    unfold keys at hnd ih
    rw [List.map_cons, List.nodup_cons] at hnd
    rw [List.find?_cons]
    rcases List.mem_cons.mp hm with h | h
    · subst h; simp
    · have hne : (e.1 == v) = false := by
        have : e.1 ≠ v := fun he => hnd.1 (he ▸ List.mem_map.mpr ⟨(v, c), h, rfl⟩)
        simpa using this
      rw [hne]
      exact ih hnd.2 h

/-- a concrete run: two validators, interleaved requests, two tokens -/
def exReqs : List LockReq :=
  [⟨[2], "btc", 5⟩, ⟨[1], "goat", 3⟩, ⟨[2], "btc", 7⟩, ⟨[2], "goat", 1⟩]

example : aggregateLocks exReqs = .ok [([2], [("btc", 12), ("goat", 1)]), ([1], [("goat", 3)])] := by decide +kernel

/-- the same requests in another order: same content, other traversal order (the order is part of the
    result, which is why the Go code must not take it from a map) -/
example : aggregateLocks [exReqs[1], exReqs[0], exReqs[3], exReqs[2]] =
    .ok [([1], [("goat", 3)]), ([2], [("btc", 12), ("goat", 1)])] := by decide +kernel

/-! ## (c) CometBFT's validator-set update does not depend on the order of the update list -/

section CometOrder
open Goat.Comet

theorem hasDup_false_iff_nodup (l : List Bytes) : hasDup l = false ↔ l.Nodup := by
  induction l with
  | nil => simp [hasDup]
  | cons x xs ih =>
    rw [hasDup, List.nodup_cons, Bool.or_eq_false_iff, ih]
    simp

/-- the duplicate check is itself order-insensitive -/
theorem hasDup_perm {l l' : List Bytes} (hp : l.Perm l') : hasDup l = hasDup l' := by
  cases h1 : hasDup l <;> cases h2 : hasDup l' <;> try rfl
  · have := hp.nodup ((hasDup_false_iff_nodup l).mp h1)
    rw [(hasDup_false_iff_nodup l').mpr this] at h2; cases h2
  · have := hp.symm.nodup ((hasDup_false_iff_nodup l').mp h2)
    rw [(hasDup_false_iff_nodup l).mpr this] at h1; cases h1

/-- looking up a key in a list with pairwise distinct keys does not depend on the list order -/
theorem find_key_perm {l l' : List (Bytes × Int)} (hp : l.Perm l') (hnd : (l.map (·.1)).Nodup) (k : Bytes) :
    l.find? (·.1 == k) = l'.find? (·.1 == k) := by
  induction hp with
  | nil => rfl
  | cons x _ ih =>
    rw [List.map_cons, List.nodup_cons] at hnd
    rw [List.find?_cons, List.find?_cons, ih hnd.2]
  | swap x y l =>
    rw [List.map_cons, List.map_cons, List.nodup_cons] at hnd
    rw [List.find?_cons, List.find?_cons, List.find?_cons, List.find?_cons]
    by_cases hx : (x.1 == k) = true <;> by_cases hy : (y.1 == k) = true
    · have h1 : x.1 = k := by simpa using hx
      have h2 : y.1 = k := by simpa using hy
      exact absurd (by rw [h1, h2]; exact List.mem_cons_self) hnd.1
    · simp [hx, hy]
    · simp [hx, hy]
    · simp [hx, hy]
  | trans h1 _ ih1 ih2 => exact (ih1 hnd).trans (ih2 ((h1.map (·.1)).nodup hnd))

/-- the removals of an update list -/
def dels (ups : List (Bytes × Int)) : List (Bytes × Int) := ups.filter (fun u => u.2 == 0)
/-- the power changes / additions of an update list -/
def upds (ups : List (Bytes × Int)) : List (Bytes × Int) := ups.filter (fun u => u.2 != 0)
/-- the additions: updates for keys that are not members yet, in list order -/
def news (s : VSet) (ups : List (Bytes × Int)) : VSet :=
  ((upds ups).filter (fun u => !(s.any (·.1 == u.1)))).map (fun u => (u.1, u.2.toNat))
/-- the surviving members with their new powers, in the order of the old set -/
def base (s : VSet) (ups : List (Bytes × Int)) : VSet :=
  (s.filter (fun e => !((dels ups).any (·.1 == e.1)))).map (fun e =>
    match (upds ups).find? (·.1 == e.1) with
    | some u => (e.1, u.2.toNat)
    | none => e)

/-- `Comet.apply`, with its intermediate lists named -/
theorem apply_eq (s : VSet) (ups : List (Bytes × Int)) :
    Comet.apply s ups =
      if ups.isEmpty then .ok s
      else if hasDup (ups.map (·.1)) then .error "duplicate"
      else if ups.any (fun u => u.2 < 0) then .error "negative"
      else if ups.any (fun u => u.2 > (maxTotal : Int)) then .error "too-high"
      else if (news s ups).length == 0 && s.length == (dels ups).length then .error "empty-set"
      else if (dels ups).any (fun d => !(s.any (·.1 == d.1))) then .error "remove-non-member"
      else if total (base s ups ++ news s ups) > maxTotal then .error "total-overflow"
      else .ok (base s ups ++ news s ups) := by
  unfold Comet.apply news base dels upds
  simp only [List.length_map]
  rfl

/-- Two results of `Comet.apply` *agree*: the same error, or two validator sets that consist of the
    same leading part (the surviving old members, in the old order, with their new powers) followed
    by the new members in possibly different order. -/
def CometAgree : Except String VSet → Except String VSet → Prop
  | .ok a, .ok b => ∃ pre n n', a = pre ++ n ∧ b = pre ++ n' ∧ n.Perm n'
  | .error e, .error e' => e = e'
  | _, _ => False

theorem CometAgree.perm {a b : VSet} (h : CometAgree (.ok a) (.ok b)) : a.Perm b := by
  obtain ⟨pre, n, n', rfl, rfl, hp⟩ := h
  exact List.Perm.append_left _ hp

theorem base_perm (s : VSet) {ups ups' : List (Bytes × Int)} (hp : ups.Perm ups') (hnd : (ups.map (·.1)).Nodup) :
    base s ups = base s ups' := by
  unfold base
  have hd : ∀ e : Bytes × Nat, (dels ups).any (·.1 == e.1) = (dels ups').any (·.1 == e.1) :=
    fun e => (hp.filter _).any_eq
  have hund : ((upds ups).map (·.1)).Nodup := List.Nodup.sublist (List.filter_sublist.map _) hnd
  have hf : ∀ e : Bytes × Nat, (upds ups).find? (·.1 == e.1) = (upds ups').find? (·.1 == e.1) :=
    fun e => find_key_perm (hp.filter _) hund e.1
  simp only [hd, hf]

/-- **C07, consumer side.**  CometBFT's update of the validator set gives the same verdict for every
    ordering of the update list: the same error, or the same set — identical on the surviving members,
    with the new members appended in the order of the list (CometBFT then sorts the set, so only the
    set matters).  No distinctness hypothesis is needed: a list with a repeated key is refused as
    "duplicate" in every order. -/
theorem comet_apply_order_insensitive (s : VSet) {ups ups' : List (Bytes × Int)} (hp : ups.Perm ups') :
    CometAgree (Comet.apply s ups) (Comet.apply s ups') := by
  rw [apply_eq, apply_eq]
  have h1 : ups'.isEmpty = ups.isEmpty := hp.symm.isEmpty_eq
  have h2 : hasDup (ups'.map (·.1)) = hasDup (ups.map (·.1)) := (hasDup_perm (hp.map _)).symm
  have h3 : ups'.any (fun u => u.2 < 0) = ups.any (fun u => u.2 < 0) := hp.symm.any_eq
  have h4 : ups'.any (fun u => u.2 > (maxTotal : Int)) = ups.any (fun u => u.2 > (maxTotal : Int)) := hp.symm.any_eq
  have hnews : (news s ups).Perm (news s ups') := ((hp.filter _).filter _).map _
  have h5 : (news s ups').length = (news s ups).length := hnews.symm.length_eq
  have h6 : (dels ups').length = (dels ups).length := (hp.filter _).symm.length_eq
  have h7 : (dels ups').any (fun d => !(s.any (·.1 == d.1))) = (dels ups).any (fun d => !(s.any (·.1 == d.1))) :=
    (hp.filter _).symm.any_eq
  rw [h1, h2, h3, h4, h5, h6, h7]
  by_cases c1 : ups.isEmpty = true
  · rw [if_pos c1, if_pos c1]; exact ⟨s, [], [], by simp, by simp, List.Perm.refl _⟩
  rw [if_neg c1, if_neg c1]
  by_cases c2 : hasDup (ups.map (·.1)) = true
  · rw [if_pos c2, if_pos c2]; exact rfl
  rw [if_neg c2, if_neg c2]
  have hnd : (ups.map (·.1)).Nodup := (hasDup_false_iff_nodup _).mp (by simpa using c2)
  rw [← base_perm s hp hnd]
  have ht : total (base s ups ++ news s ups') = total (base s ups ++ news s ups) := by
    unfold total
    exact ((List.Perm.append_left _ hnews.symm).map _).sum_nat
  rw [ht]
  by_cases c3 : ups.any (fun u => u.2 < 0) = true
  · rw [if_pos c3, if_pos c3]; exact rfl
  rw [if_neg c3, if_neg c3]
  by_cases c4 : ups.any (fun u => u.2 > (maxTotal : Int)) = true
  · rw [if_pos c4, if_pos c4]; exact rfl
  rw [if_neg c4, if_neg c4]
  by_cases c5 : ((news s ups).length == 0 && s.length == (dels ups).length) = true
  · rw [if_pos c5, if_pos c5]; exact rfl
  rw [if_neg c5, if_neg c5]
  by_cases c6 : (dels ups).any (fun d => !(s.any (·.1 == d.1))) = true
  · rw [if_pos c6, if_pos c6]; exact rfl
  rw [if_neg c6, if_neg c6]
  by_cases c7 : total (base s ups ++ news s ups) > maxTotal
  · rw [if_pos c7, if_pos c7]; exact rfl
  rw [if_neg c7, if_neg c7]
  exact ⟨base s ups, news s ups, news s ups', rfl, rfl, hnews⟩

/-- corollary in the plain form: both refuse with the same error, or both accept and the resulting
    sets are permutations of one another -/
theorem comet_apply_perm (s : VSet) {ups ups' : List (Bytes × Int)} (hp : ups.Perm ups') :
    (∀ e, Comet.apply s ups = .error e → Comet.apply s ups' = .error e) ∧
    (∀ v, Comet.apply s ups = .ok v → ∃ v', Comet.apply s ups' = .ok v' ∧ v.Perm v') := by
  have h := comet_apply_order_insensitive s hp
  constructor
  · intro e he
    rw [he] at h
    cases hr : Comet.apply s ups' with
    | error e' => rw [hr] at h; exact congrArg _ (Eq.symm h)
    | ok v' => rw [hr] at h; exact h.elim
  · intro v hv
    rw [hv] at h
    cases hr : Comet.apply s ups' with
    | error e' => rw [hr] at h; exact h.elim
    | ok v' => rw [hr] at h; exact ⟨v', rfl, h.perm⟩

/-- how the driver hands EndBlocker's updates to CometBFT (World.lean / Driver.lean) -/
def toComet (ups : List Update) : List (Bytes × Int) := ups.map (fun u => (u.pubkey, Comet.toInt64 u.power))

/-- **(a) and (c) together**: two EndBlocker runs that *agree* (same state, updates equal up to order)
    lead CometBFT to the same verdict and the same validator set up to order — comparing validator
    updates as a set loses nothing. -/
theorem agree_then_comet_agree (vs : VSet) {s s' : State} {u u' : List Update}
    (h : Agree (.ok (s, u)) (.ok (s', u'))) :
    s = s' ∧ CometAgree (Comet.apply vs (toComet u)) (Comet.apply vs (toComet u')) :=
  ⟨h.1, comet_apply_order_insensitive vs (h.2.map _)⟩

/-- sharpness: with two *new* members the resulting lists do differ in order, so `Perm` (equality of
    sets) and not `=` is the strongest statement for the model's list representation -/
example : (Comet.apply [([9], 1)] [([1], 1), ([2], 1)]).toOption = some [([9], 1), ([1], 1), ([2], 1)] ∧
          (Comet.apply [([9], 1)] [([2], 1), ([1], 1)]).toOption = some [([9], 1), ([2], 1), ([1], 1)] := by
  decide +kernel

/-- an instance with a removal, a power change and an addition, in two orders -/
example : CometAgree (Comet.apply [([7], 3), ([8], 4), ([9], 1)] [([8], 0), ([1], 2), ([9], 6)])
                     (Comet.apply [([7], 3), ([8], 4), ([9], 1)] [([9], 6), ([8], 0), ([1], 2)]) :=
  comet_apply_order_insensitive _ ((List.Perm.swap _ _ _).trans (List.Perm.cons _ (List.Perm.swap _ _ _))).symm

end CometOrder

end Goat.C07
