/-
  C12 — rewards are conserved and follow the emission schedule.
  Property statements; helper lemmas in GoatProofs/Lemmas/Arith.lean.
-/
import GoatModel.Locking
import GoatProofs.Lemmas.Arith
namespace Goat.C12
open Goat.Locking

/-- **Shares never exceed the pool.**  For every pool and every vector of voting powers with a
    positive total, the per-validator shares `⌊pool · ⌊pᵢ·10¹⁸/T⌋ / 10¹⁸⌋` (the repaired code:
    truncating fraction) add up to at most the pool — so no pool ever goes negative. -/
theorem shares_sum_le_pool (pool : Nat) (ps : List Nat) (ht : 0 < ps.sum) :
    (ps.map (fun p => mulTruncInt pool (decQuoTruncate p ps.sum))).sum ≤ pool :=
  shares_le_pool pool ps ht

/-- each share is at most the exact proportional amount `pool·pᵢ/T` (never more than its power's part) -/
theorem share_at_most_proportional (pool p t : Nat) (ht : 0 < t) :
    mulTruncInt pool (decQuoTruncate p t) * t ≤ pool * p :=
  share_le_proportional pool p t ht

/-- `initial / 2^k` is `k`-fold floor-halving: "halved once per elapsed halving interval" -/
def halve : Nat → Nat → Nat
  | 0, r => r
  | k + 1, r => halve k r / 2

theorem repeated_halving_eq (k r : Nat) : halve k r = r / 2 ^ k := by
  induction k with
  | zero => simp [halve]
  | succ n ih => simp [halve, ih, Nat.div_div_eq_div_mul, Nat.pow_succ]

/-- the scheduled reward is the initial reward floor-halved `height / interval` times -/
theorem scheduled_eq (p : Params) (h : Int) (hi : 0 < p.halvingInterval) (hh : 0 ≤ h) :
    scheduledReward p h = p.initialReward / (2 ^ (h / p.halvingInterval).toNat : Nat) := by
  unfold scheduledReward
  simp only
  split
  · rfl
  · rename_i hz
    have h0 : h / p.halvingInterval = 0 := by
      have := Int.ediv_nonneg hh (Int.le_of_lt hi)
      omega
    simp [h0]

/-- **Emission.**  `emit` moves exactly `min(remaining grant, scheduled)` from the grant into the
    distribution pool, nothing else changes, and the sum is conserved. -/
theorem emission (pool : Pool) (sched : Int) :
    let r := if sched > pool.remain then pool.remain else sched
    (emit pool sched).goat = pool.goat + r ∧ (emit pool sched).remain = pool.remain - r ∧
    (emit pool sched).gas = pool.gas ∧
    (emit pool sched).goat + (emit pool sched).remain = pool.goat + pool.remain := by
  unfold emit
  simp only
  split <;> split <;> simp_all <;> omega

/-- income: the single gas-revenue request is added when positive, grants are added to the grant -/
theorem grants_fold (gs : List Int) (acc : Int) (r : Int)
    (h : gs.foldl (fun (acc : Option Int) x => match acc with
          | none => none
          | some r => if fits256 (r + x) then some (r + x) else none) (some acc) = some r) : r = acc + gs.sum := by
  induction gs generalizing acc with
  | nil => simp at h; simp [h]
  | cons x xs ih =>
    simp only [List.foldl_cons] at h
    by_cases hf : fits256 (acc + x) = true
    · simp only [hf, if_true] at h
      have := ih (acc + x) h
      simp [List.sum_cons, this, Int.add_assoc]
    · simp only [hf] at h
      exfalso
      clear ih
      induction xs with
      | nil => simp at h
      | cons y ys ih2 => simp only [List.foldl_cons] at h; exact ih2 h

theorem income (pool p1 : Pool) (g : Int) (grants : List Int) (h : addIncome pool [g] grants = some p1) :
    p1.gas = pool.gas + (if g > 0 then g else 0) ∧ p1.remain = pool.remain + grants.sum ∧ p1.goat = pool.goat := by
  unfold addIncome at h
  by_cases hc : (!fits256 (List.foldl (fun (acc : Int) x => if x > 0 then acc + x else acc) pool.gas [g])) = true
  · simp only [hc, if_true] at h; cases h
  · simp only [hc, Bool.false_eq_true, if_false] at h
    rw [Option.map_eq_some_iff] at h
    obtain ⟨remain, hf, hp⟩ := h
    have hr := grants_fold grants pool.remain remain hf
    subst hp
    refine ⟨?_, hr, rfl⟩
    simp only [List.foldl_cons, List.foldl_nil]
    split <;> simp

/-- `UpdateRewardPool` = income then emission (conservation: granted + gas revenue all end up in
    remain + goat + gas; nothing is created or lost) -/
theorem updateRewardPool_conserves (s s' : State) (h : Int) (g : Int) (grants : List Int)
    (hok : updateRewardPool s h [g] grants = .ok s') :
    s'.pool.goat + s'.pool.remain + s'.pool.gas
      = s.pool.goat + s.pool.remain + s.pool.gas + grants.sum + (if g > 0 then g else 0) ∧
    s'.validators = s.validators ∧ s'.qRewards = s.qRewards := by
  unfold updateRewardPool at hok
  simp only [List.length_singleton, ne_eq, not_true_eq_false, if_false] at hok
  split at hok
  · cases hok
  · rename_i p1 hp1
    split at hok
    · cases hok
    · cases hok
      obtain ⟨h1, h2, h3⟩ := income s.pool p1 g grants hp1
      obtain ⟨_, _, e3, e4⟩ := emission p1 (scheduledReward s.params h)
      simp only
      refine ⟨?_, trivial, trivial⟩
      rw [e4, e3, h1, h2, h3]
      omega

/-! ### the unrepaired share fraction (rounded `Quo`) lets the shares exceed the pool — finding F5 -/

theorem F5_rounded_shares_exceed_pool :
    ∃ (pool : Nat) (ps : List Nat),
      (ps.map (fun p => mulTruncInt pool (decQuo p ps.sum))).sum > pool := by
  refine ⟨10000000000000000000, [100, 100, 100, 100, 100, 100], ?_⟩
  decide +kernel

/-! ### non-vacuity -/
example : (([100, 100, 100, 100, 100, 100] : List Nat).map (fun p => mulTruncInt 10000000000000000000 (decQuoTruncate p 600))).sum ≤ 10000000000000000000 := by
  decide +kernel

end Goat.C12
