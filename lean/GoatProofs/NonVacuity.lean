/-
  Non-vacuity audit of the property theorems (checklib/props.py).

  For every family of hypotheses for which no witness was found next to the theorems, an `example`
  here instantiates the hypotheses with concrete, non-degenerate values.  Families whose hypotheses
  can only be met degenerately, or whose conclusion is decided by the hypotheses alone, are recorded
  as theorems named `<thm>_hyps_inconsistent` / `<thm>_conclusion_always`.
-/
import GoatProofs.C01
import GoatProofs.C01S
import GoatProofs.C03
import GoatProofs.C03H
import GoatProofs.C04
import GoatProofs.C04I
import GoatProofs.C05H
import GoatProofs.C16
import GoatProofs.C17
import GoatProofs.C13H
import GoatProofs.C13B
import GoatProofs.C14
import GoatProofs.C14H
import GoatProofs.C15
import GoatProofs.C15H
import GoatProofs.C18
import GoatProofs.C18B
import GoatProofs.C19R
import GoatProofs.C06B
import GoatProofs.C20
import GoatProofs.Lemmas.ValSet

namespace Goat.NonVacuity

/-- the way the witnesses below are checked: evaluate the operation, test the result -/
theorem ok_with {α : Type} {o : Outcome α} (p : α → Bool)
    (h : (match o with | .ok r => p r | _ => false) = true) : ∃ r, o = .ok r ∧ p r = true := by
  cases o with
  | ok r => exact ⟨r, rfl, h⟩
  | err e => cases h
  | panic e => cases h

/-! ## C01 / C02 / C05H / C06 / C18B : the three voted handlers without a witness so far
    (`processWithdrawal`, `replaceWithdrawal`, `finalizeWithdrawal` have one in C05H) -/
section Voted
open Goat.Bitcoin Goat.C05H

def hash32 (b : UInt8) : Bytes := List.replicate 32 b
/-- the vote of C05H with a signature of the demanded length (48 bytes) -/
def voteV : Relayer.VoteMsg := { vote0 with signature := List.replicate 48 0 }

/-- `newBlockHashes … = .ok r` (C01.newBlockHashes_needs_quorum, C01S.newBlockHashes_ok_validated,
    C02.newBlockHashes_consumes, C05H.newBlockHashes_step, C06.blockhashes_gapfree): two hashes appended
    after tip 0 by a quorum of 2 out of 3 voters -/
example : ∃ r, newBlockHashes rc0 "x" rel0 s0 voteV true 1 [hash32 1, hash32 2] = .ok r ∧
    decide (r.2.tip = 2 ∧ nlookup r.2.hashes 2 = some (hash32 2) ∧ r.1.seq = 8) = true :=
  ok_with _ (by decide +kernel)

def pkNew : PubKey := { kind := 0, key := 2 :: List.replicate 32 0 }

/-- `newPubkey … = .ok r` (C01.newPubkey_needs_quorum, C01S.newPubkey_ok_validated, C02.newPubkey_consumes,
    C05H.newPubkey_step) -/
example : ∃ r, newPubkey rc0 "x" rel0 s0 voteV true pkNew = .ok r ∧
    decide (r.2.pubkey = pkNew ∧ r.1.pubkeys = [pkNew.encode]) = true :=
  ok_with _ (by decide +kernel)

/-- the bridge whose current key is `pkNew`; the toy `hash160` of C05H is 20 zero bytes -/
def sKey : State := { s0 with pubkey := pkNew }
/-- an 82-byte transaction with one output of value 5 to the P2WPKH script of the bridge key -/
def txCons : Bytes :=
  [0,0,0,0] ++ [1] ++ List.replicate 36 0 ++ [0] ++ [0,0,0,0] ++ [1] ++ le64 5 ++ [22] ++ ([0, 20] ++ List.replicate 20 0) ++ [0,0,0,0]

/-- `newConsolidation … = .ok r` (C01.newConsolidation_needs_quorum, C02.newConsolidation_consumes,
    C05H.newConsolidation_step) -/
example : ∃ r, newConsolidation c0 rc0 "x" rel0 sKey voteV true txCons = .ok r ∧
    decide (r.2.pubkey = pkNew ∧ r.1.seq = 8) = true :=
  ok_with _ (by decide +kernel)

end Voted

/-! ## C03.C03_value_exact : an accepted deposit in a bridge whose parameters satisfy `C20.ParamInv` -/
section Deposit
open Goat.Bitcoin Goat.C03H.Example

example : verifyDeposit c1 rel1 s1 [(3, hdr)] dep1 = .ok rcp1 ∧ C20.ParamInv s1.params ∧
    BtcTx.parseNoWitness dep1.noWitnessTx = some [{ value := 50000, pkScript := [0x00, 0x20] ++ List.replicate 32 0 }] ∧
    50000 < two64 := by
  refine ⟨by decide, by decide, by decide, by decide⟩

end Deposit

/-! ## C16 : `newVoter … = .ok` (newVoter_by_proof, newVoter_joined, newVoter_preserves) in a state satisfying `GroupInv` -/
section NewVoter
open Goat.Relayer Goat.C16

/-- toy crypto: the "hash" of a vote key is its first byte; every transaction key has the address "n2";
    a proof is accepted when it is the expected constant -/
def cV : Crypto :=
  { sha256 := fun b => b.take 1, hash160 := id, aggVerify := fun _ _ _ => false,
    blsVerify := fun _ _ p => p == List.replicate 48 8, ecdsaVerify := fun _ _ p => p == List.replicate 64 9,
    addrOf := fun _ => "n2" }
/-- the pending record "n2" of `C16.exampleState` (vote-key hash `[6]`) proves possession of both keys -/
def mV : NewVoterMsg :=
  { proposer := "p", blsKey := List.replicate 96 6, blsProof := List.replicate 48 8, txKey := List.replicate 33 2,
    txProof := List.replicate 64 9 }

example : GroupInv exampleState ∧
    ∃ r, newVoter cV "x" exampleState mV (fun _ => false) = .ok r ∧
      decide (r.2 = some "n2" ∧ r.1.onBoarding = ["n1", "n2"]) = true :=
  ⟨by constructor <;> decide, ok_with _ (by decide +kernel)⟩

/-- a wrong proof is refused: the verifier is not the always-true one -/
example : newVoter cV "x" exampleState { mV with txProof := List.replicate 64 0 } (fun _ => false) = .err "tx-proof" := by
  decide +kernel

end NewVoter

/-! ## C17 : the length hypotheses on the hash / tweak oracles of `v0_accept_iff`, `v0_roundtrip`,
    `v1_accept_iff`, `v1_roundtrip`, `system_script_ecdsa` -/
section Scripts
open Goat.Bitcoin

def pad (n : Nat) (b : Bytes) : Bytes := (b ++ List.replicate n 0).take n
theorem pad_length (n : Nat) (b : Bytes) : (pad n b).length = n := by simp [pad]

/-- non-constant oracles with the demanded output lengths -/
def c17 : Crypto :=
  { sha256 := pad 32, dsha256 := pad 32, hash160 := pad 20, tweak := fun k e => if k.length = 32 then some (pad 32 (e ++ k)) else none,
    tweakNoScript := fun k => some (pad 32 k), decodeAddr := fun _ => none }

def pkE : PubKey := { kind := 0, key := 2 :: List.replicate 32 5 }
def pkT : PubKey := { kind := 1, key := List.replicate 32 6 }
def evmA : Bytes := List.replicate 20 0xaa

example : (∀ b, (c17.sha256 b).length = 32) ∧ (∀ b, (c17.hash160 b).length = 20) ∧
    (∀ k e w, c17.tweak k e = some w → w.length = 32) ∧ pkE.validate = true ∧ pkT.validate = true := by
  refine ⟨pad_length 32, pad_length 20, ?_, by decide, by decide⟩
  intro k e w h
  simp only [c17] at h
  split at h
  · cases h; exact pad_length 32 _
  · cases h

/-- both builders succeed (ECDSA key and Taproot key), so `v0_roundtrip` / `v1_roundtrip` have instances -/
example : (depositOutputV0 c17 pkE evmA).isSome = true ∧ (depositOutputV0 c17 pkT evmA).isSome = true ∧
    (depositOutputsV1 c17 pkE [1, 2, 3, 4] evmA).isSome = true := by decide +kernel

end Scripts

/-! ## ValSet.comet_apply_spec : all eight hypotheses at once (one key added, one re-weighted, one removed) -/
section CometSpec
open Goat.Comet

example :
    let cs : VSet := [([1], 5), ([2], 6), ([3], 7)]
    let ups : List (Bytes × Int) := [([2], 9), ([3], 0), ([4], 1)]
    let target : VSet := [([1], 5), ([2], 9), ([4], 1)]
    (cs.map (·.1)).Nodup ∧ (ups.map (·.1)).Nodup ∧ (∀ u ∈ ups, 0 ≤ u.2 ∧ u.2 ≤ (maxTotal : Int)) ∧
    (∀ u ∈ ups, u.2 = 0 → u.1 ∈ cs.map (·.1)) ∧ (target.map (·.1)).Nodup ∧
    (∀ k p, (k, p) ∈ target ↔ (∃ u : Int, (k, u) ∈ ups ∧ u ≠ 0 ∧ p = u.toNat) ∨ ((k, p) ∈ cs ∧ k ∉ ups.map (·.1))) ∧
    total target ≤ maxTotal ∧ target ≠ [] := by
  intro cs ups target
  refine ⟨by decide, by decide, by decide, by decide, by decide, ?_, by decide, by decide⟩
  intro k p
  simp only [cs, ups, target, List.mem_cons, List.mem_nil_iff, Prod.mk.injEq, or_false, List.map]
  constructor
  · rintro (⟨rfl, rfl⟩ | ⟨rfl, rfl⟩ | ⟨rfl, rfl⟩)
    · exact Or.inr ⟨Or.inl ⟨rfl, rfl⟩, by decide⟩
    · exact Or.inl ⟨9, Or.inl ⟨rfl, rfl⟩, by decide, rfl⟩
    · exact Or.inl ⟨1, Or.inr (Or.inr ⟨rfl, rfl⟩), by decide, rfl⟩
  · rintro (⟨u, (⟨rfl, rfl⟩ | ⟨rfl, rfl⟩ | ⟨rfl, rfl⟩), hu, rfl⟩ | ⟨(⟨rfl, rfl⟩ | ⟨rfl, rfl⟩ | ⟨rfl, rfl⟩), hk⟩)
    · exact Or.inr (Or.inl ⟨rfl, rfl⟩)
    · exact absurd rfl hu
    · exact Or.inr (Or.inr ⟨rfl, rfl⟩)
    · exact Or.inl ⟨rfl, rfl⟩
    · exact absurd (by decide) hk
    · exact absurd (by decide) hk

end CometSpec

/-! ## C18 : `WfGenesis`, `CanonGenesis` (export_import, initGenesis_establishes_Derived, initGenesisCore_spec,
    C13B.start_of_genesis) and `ImportDemands` with both order hypotheses (relayer_export_import) -/
section Genesis
open Goat.Genesis Goat.C18 Goat.C18.Example

/-- `WfGenesis` is witnessed by `C13B.exGenesis` (`C13B.ex0_start`); the same genesis is in export form -/
example : CanonGenesis id C13B.exGenesis ∧ WfGenesis id C13B.exGenesis ∧ C13B.exGenesis.validators.length = 2 := by
  decide

/-- the export of the relayer store `C18.Example.r0` (five voter records, one public key) -/
example : ∃ r, ImportDemands addrOf dec (Finding.exportLit r0) r ∧
    (Finding.exportLit r0).voters.Pairwise (fun a b => addrOf a.address < addrOf b.address) ∧
    (Finding.exportLit r0).pubkeys.Pairwise (fun a b => Locking.bytesLt a.encode b.encode = true) ∧
    (Finding.exportLit r0).voters.length = 5 :=
  ⟨{ epoch := r0.epoch, proposer := r0.proposer, voters := r0.voters, lastElected := r0.lastElected, accepted := r0.accepted },
    by decide +kernel, by decide +kernel, by decide +kernel, by decide +kernel⟩

end Genesis

/-! ## C14 : the establishing steps succeed on a concrete state (C14.downtime_exact, evidence_tombstones,
    C14H.downtime_establishes_jailed, evidence_establishes_tomb); C14H has them only as hypotheses of examples -/
section Offences
open Goat.Locking Goat.C14H.Example

/-- `C14H.Example.s1`: validator `[1]` Active with 1000 btc, `maxMissed = 2`.  Fresh duplicate-vote evidence is
    processed and tombstones it -/
example : (∃ v, vget s1 [1] = some v ∧ v.status = .active ∧ Link s1 [1] v) ∧
    isStale 60 3 none { kind := 1, address := [1], height := 2, time := 55 } = false ∧
    ∃ s', handleEvidence s1 60 3 none { kind := 1, address := [1], height := 2, time := 55 } = .ok s' ∧
      ((vget s' [1]).map (·.status) == some Status.tombstoned) = true := by
  refine ⟨?_, by decide, ok_with _ (by decide +kernel)⟩
  cases hv : vget s1 [1] with
  | none => exact absurd hv (by decide +kernel)
  | some v => exact ⟨v, rfl, (s1_link v hv).2, (s1_link v hv).1⟩

/-- the state after one reported absence of `[1]` (first of the two absences of `C14H.Example.jailOps`) -/
def sMissedOnce : State :=
  runS (C11H.genesis params) (setup ++ [ .beginBlock 3 60 [{ address := [1], power := 1000, absent := true }] none [] ])

/-- a signed vote and a first absence of the Active validator are processed (the `else` branch of
    `downtime_exact`); the second absence reaches `maxMissed = 2` and jails it (the `then` branch) -/
example : (∃ s', handleVote s1 60 { address := [1], power := 1000, absent := false } = .ok s' ∧
      ((vget s' [1]).map (·.status) == some Status.active) = true) ∧
    ((vget sMissedOnce [1]).map (fun v => (v.status, v.missed)) == some (Status.active, 1)) = true ∧
    ∃ s', handleVote sMissedOnce 70 { address := [1], power := 1000, absent := true } = .ok s' ∧
      ((vget s' [1]).map (fun v => (v.status, v.power, v.jailedUntil)) == some (Status.downgrade, 0, 75)) = true :=
  ⟨ok_with _ (by decide +kernel), by decide +kernel, ok_with _ (by decide +kernel)⟩

end Offences

/-! ## C13H.rejected_if_empty : a non-empty recorded set that EndBlocker empties (the only member is jailed) -/
section Emptied
open Goat.Locking Goat.C13H

def sEmptying : State :=
  { (default : State) with
    params := { (default : Params) with maxValidators := 2 },
    validators := [([1], mkV [11] 0 .downgrade)], ranking := [], valset := [([1], 5)] }

theorem sEmptying_rankOk : RankOk sEmptying where
  rank_nodup := by decide
  rank_rec := by intro p a hm; cases hm
  rank_complete := by
    intro a v hv hst _
    have hm := mem_of_vget hv
    simp only [sEmptying, List.mem_cons, Prod.mk.injEq, List.not_mem_nil, or_false] at hm
    obtain ⟨rfl, rfl⟩ := hm
    revert hst; decide
  valset_nodup := by decide
  valset_rec := by
    intro a p hm
    simp only [sEmptying, List.mem_cons, Prod.mk.injEq, List.not_mem_nil, or_false] at hm
    obtain ⟨rfl, rfl⟩ := hm
    exact ⟨mkV [11] 0 .downgrade, by decide⟩
  pending_out := by
    intro a v hv hst
    have hm := mem_of_vget hv
    simp only [sEmptying, List.mem_cons, Prod.mk.injEq, List.not_mem_nil, or_false] at hm
    obtain ⟨rfl, rfl⟩ := hm
    revert hst; decide
  max_nonneg := by decide

theorem sEmptying_pkInj : PkInj sEmptying := by
  intro a b va vb ha hb _
  have hma := mem_of_vget ha
  have hmb := mem_of_vget hb
  simp only [sEmptying, List.mem_cons, Prod.mk.injEq, List.not_mem_nil, or_false] at hma hmb
  rw [hma.1, hmb.1]

example : RankOk sEmptying ∧ PkInj sEmptying ∧ Sync sEmptying (cometOf sEmptying) ∧ sEmptying.valset ≠ [] ∧
    ∃ r, endBlocker sEmptying = .ok r ∧ decide (r.1.valset = []) = true :=
  ⟨sEmptying_rankOk, sEmptying_pkInj, sync_genesis _, by decide, ok_with _ (by decide +kernel)⟩

end Emptied

/-! ## C15 / C15H : an exiting unlock (`below_threshold_exits`, `exit_is_immediate`) and an exited record
    (`exited_unlock_exact`, `exited_unlock_queued`, `exited_stays_withdrawable`), directly on states of `C15H.Example` -/
section Exits
open Goat.Locking Goat.C15H.Example

/-- after the first unlock: `[1]` Pending (no EndBlocker has run) with 700 btc, threshold 500 -/
def sExit : State := (C15H.grun start (ops.take 2)).1
def r8 : UnlockReq := { id := 8, validator := [1], recipient := [9], token := "btc", tokenAddr := [], amount := 300 }
/-- after the second unlock: `[1]` Inactive with 400 btc -/
def sOut : State := (C15H.grun start (ops.take 3)).1

example : (∃ x, unlockCore sExit r8 = .ok x ∧ decide (x.2.1 = true ∧ x.2.2 = 300) = true) ∧
    ((vget sExit [1]).map (fun v => (v.status, v.power, amountOf v.locking "btc")) == some (Status.pending, 0, 700)) = true ∧
    ((tget (rankRemove sExit 0 [1]) "btc").map (·.threshold) == some 500) = true ∧
    exitingOf Status.pending (700 - unlockAmount 700 300) 500 = true :=
  ⟨ok_with _ (by decide +kernel), by decide +kernel, by decide +kernel, by decide +kernel⟩

example : (∃ v, OutRec sOut [1] v ∧ v.status = .inactive) ∧ (tget sOut "btc").isSome = true :=
  ⟨C14H.Example.outB_sound sOut [1] Status.inactive (by decide) (by decide +kernel), by decide +kernel⟩

end Exits

/-! ## C18B : the hash clauses of `newBlockHashes_keeps_hash_clauses`; `tip_hash_missing_blocks_import` -/
section BtcGenesis
open Goat.Bitcoin Goat.C05H

/-- the bridge of `C03H.Example.s1` (one hash, at the tip 3): every clause with `lo = 3`, and the next hash is voted in -/
example :
    let s := C03H.Example.s1
    (∃ r, newBlockHashes rc0 "x" rel0 s voteV true 4 [hash32 1] = .ok r ∧ decide (r.2.tip = 4) = true) ∧
    (∀ e ∈ s.hashes, e.2.length = 32) ∧ (s.hashes.map (·.1)).Nodup ∧ 3 ≤ s.tip ∧
    (∀ k, (nlookup s.hashes k).isSome = true ↔ 3 ≤ k ∧ k ≤ s.tip) := by
  intro s
  refine ⟨ok_with _ (by decide +kernel), by decide, by decide, by decide, ?_⟩
  intro k
  by_cases hk : k = 3
  · subst hk; decide
  · have : (nlookup s.hashes k).isSome = false := by
      simp [s, C03H.Example.s1, nlookup]
      omega
    rw [this]
    constructor
    · intro h; cases h
    · intro h; exact absurd (by show k = 3; have : s.tip = 3 := rfl; omega) hk

/-- valid parameters and key, tip far from the maximum, no hash at the tip (`C18B.Example.s0` without its hashes) -/
example :
    let s : State := { C18B.Example.s0 with hashes := [] }
    paramsValidate s.params = true ∧ s.pubkey.validate = true ∧ s.tip + 1 < two64 ∧ nlookup s.hashes s.tip = none := by
  decide

end BtcGenesis

/-! ## C19R.decode_encode : a non-empty list of well-formed groups (gas, withdrawal, add-voter) -/
section Requests
open Goat.Requests Goat.C19R

example :
    let gs : List Group :=
      [.gas [{ height := 7, amount := 1000 }], .withdrawal [{ id := 1, amount := 2, txPrice := 3, address := [120] }],
       .cancel1 [{ id := 1 }, { id := 2 }]]
    gs.length ≤ 255 ∧ ∀ g ∈ gs, g.WF := by
  intro gs
  refine ⟨by decide, ?_⟩
  intro g hg
  simp only [gs, List.mem_cons, List.mem_nil_iff, or_false] at hg
  rcases hg with rfl | rfl | rfl
  · simp [Group.WF, GasRequest.WF]
  · simp [Group.WF, WithdrawalRequest.WF]
  · simp [Group.WF, Cancel1Request.WF]

end Requests

/-! ## C06B : `NumRange` (encodeSysTx_eq_iff_norm) outside `InRange`: the negative amount of `C06B.exNegative` -/
section SysTxRange
open Goat.C06B

example : NumRange exNegative ∧ ¬ InRange exNegative := by
  simp only [NumRange, InRange, DataInRange, exNegative]
  decide

end SysTxRange

/-! ## conclusions decided by the hypotheses alone (not vacuous, but without content as implications) -/
section Degenerate

/-- `C04.C04_position_binding_ideal` assumes `IdealHash H`, which no function satisfies
    (already recorded as `C04.idealHash_unsatisfiable`) -/
theorem C04_position_binding_ideal_hyps_inconsistent (H : Bytes → Bytes) : ¬ C04.IdealHash H :=
  C04.idealHash_unsatisfiable H

/-- Why `C04.C04_position_binding`, `C04_accepted_is_leaf`, `C04_same_position_same_leaf` and
    `C03.C03_coinbase_only_at_zero` conclude `… ∨ RunCollision …` (a collision among the finitely many strings the run
    itself hashed) and not `… ∨ Collision64 H`: the latter follows from `Out32 H` alone, so a theorem concluding it
    would be a consequence of the pigeonhole lemma.  (An intermediate version of those theorems did; this audit found it.) -/
theorem C04_position_binding_conclusion_always (H : Bytes → Bytes) (hH : C04.Out32 H) : C04.Collision64 H :=
  C04.collision64_exists H hH

/-- the same for `C01S.processWithdrawal_doc_binds_or_collision`: its hypothesis "the digest is 32 bytes"
    alone gives the right disjunct of its conclusion — hence `C01X.processWithdrawal_doc_binds_explicit`, which names the
    colliding pair (the two pre-images, or the two transactions) -/
theorem processWithdrawal_doc_binds_or_collision_conclusion_always (c : Relayer.Crypto)
    (h : ∀ x, (c.sha256 x).length = 32) : C01S.Collision c.sha256 := by
  apply Classical.byContradiction
  intro hn
  exact C01S.ideal_hash_hyps_inconsistent c
    ⟨fun x y e => Classical.byContradiction fun hne => hn ⟨x, y, hne, e⟩, h⟩

end Degenerate

end Goat.NonVacuity
