/-
  Non-vacuity audit of the property theorems (checklib/props.py).

  For every family of hypotheses for which no witness was found next to the theorems, an `example`
  here instantiates the hypotheses with concrete, non-degenerate values.  Families whose hypotheses
  can only be met degenerately, or whose conclusion is decided by the hypotheses alone, are recorded
  as theorems named `<thm>_hyps_inconsistent` / `<thm>_conclusion_always`.
-/
import GoatProofs.C01
import GoatProofs.C01S
import GoatProofs.C03
import GoatProofs.C03H
import GoatProofs.C04
import GoatProofs.C04I
import GoatProofs.C05H
import GoatProofs.C16
import GoatProofs.C17
import GoatProofs.C13B
import GoatProofs.C18
import GoatProofs.C20
import GoatProofs.Lemmas.ValSet

namespace Goat.NonVacuity

/-- the way the witnesses below are checked: evaluate the operation, test the result -/
theorem ok_with {α : Type} {o : Outcome α} (p : α → Bool)
    (h : (match o with | .ok r => p r | _ => false) = true) : ∃ r, o = .ok r ∧ p r = true := by
  cases o with
  | ok r => exact ⟨r, rfl, h⟩
  | err e => cases h
  | panic e => cases h

/-! ## C01 / C02 / C05H / C06 / C18B : the three voted handlers without a witness so far
    (`processWithdrawal`, `replaceWithdrawal`, `finalizeWithdrawal` have one in C05H) -/
section Voted
open Goat.Bitcoin Goat.C05H

def hash32 (b : UInt8) : Bytes := List.replicate 32 b
/-- the vote of C05H with a signature of the demanded length (48 bytes) -/
def voteV : Relayer.VoteMsg := { vote0 with signature := List.replicate 48 0 }

/-- `newBlockHashes … = .ok r` (C01.newBlockHashes_needs_quorum, C01S.newBlockHashes_ok_validated,
    C02.newBlockHashes_consumes, C05H.newBlockHashes_step, C06.blockhashes_gapfree): two hashes appended
    after tip 0 by a quorum of 2 out of 3 voters -/
example : ∃ r, newBlockHashes rc0 "x" rel0 s0 voteV true 1 [hash32 1, hash32 2] = .ok r ∧
    decide (r.2.tip = 2 ∧ nlookup r.2.hashes 2 = some (hash32 2) ∧ r.1.seq = 8) = true :=
  ok_with _ (by decide +kernel)

def pkNew : PubKey := { kind := 0, key := 2 :: List.replicate 32 0 }

/-- `newPubkey … = .ok r` (C01.newPubkey_needs_quorum, C01S.newPubkey_ok_validated, C02.newPubkey_consumes,
    C05H.newPubkey_step) -/
example : ∃ r, newPubkey rc0 "x" rel0 s0 voteV true pkNew = .ok r ∧
    decide (r.2.pubkey = pkNew ∧ r.1.pubkeys = [pkNew.encode]) = true :=
  ok_with _ (by decide +kernel)

/-- the bridge whose current key is `pkNew`; the toy `hash160` of C05H is 20 zero bytes -/
def sKey : State := { s0 with pubkey := pkNew }
/-- an 82-byte transaction with one output of value 5 to the P2WPKH script of the bridge key -/
def txCons : Bytes :=
  [0,0,0,0] ++ [1] ++ List.replicate 36 0 ++ [0] ++ [0,0,0,0] ++ [1] ++ le64 5 ++ [22] ++ ([0, 20] ++ List.replicate 20 0) ++ [0,0,0,0]

/-- `newConsolidation … = .ok r` (C01.newConsolidation_needs_quorum, C02.newConsolidation_consumes,
    C05H.newConsolidation_step) -/
example : ∃ r, newConsolidation c0 rc0 "x" rel0 sKey voteV true txCons = .ok r ∧
    decide (r.2.pubkey = pkNew ∧ r.1.seq = 8) = true :=
  ok_with _ (by decide +kernel)

end Voted

/-! ## C03.C03_value_exact : an accepted deposit in a bridge whose parameters satisfy `C20.ParamInv` -/
section Deposit
open Goat.Bitcoin Goat.C03H.Example

example : verifyDeposit c1 rel1 s1 [(3, hdr)] dep1 = .ok rcp1 ∧ C20.ParamInv s1.params ∧
    BtcTx.parseNoWitness dep1.noWitnessTx = some [{ value := 50000, pkScript := [0x00, 0x20] ++ List.replicate 32 0 }] ∧
    50000 < two64 := by
  refine ⟨by decide, by decide, by decide, by decide⟩

end Deposit

/-! ## C16 : `newVoter … = .ok` (newVoter_by_proof, newVoter_joined, newVoter_preserves) in a state satisfying `GroupInv` -/
section NewVoter
open Goat.Relayer Goat.C16

/-- toy crypto: the "hash" of a vote key is its first byte; every transaction key has the address "n2";
    a proof is accepted when it is the expected constant -/
def cV : Crypto :=
  { sha256 := fun b => b.take 1, hash160 := id, aggVerify := fun _ _ _ => false,
    blsVerify := fun _ _ p => p == List.replicate 48 8, ecdsaVerify := fun _ _ p => p == List.replicate 64 9,
    addrOf := fun _ => "n2" }
/-- the pending record "n2" of `C16.exampleState` (vote-key hash `[6]`) proves possession of both keys -/
def mV : NewVoterMsg :=
  { proposer := "p", blsKey := List.replicate 96 6, blsProof := List.replicate 48 8, txKey := List.replicate 33 2,
    txProof := List.replicate 64 9 }

example : GroupInv exampleState ∧
    ∃ r, newVoter cV "x" exampleState mV (fun _ => false) = .ok r ∧
      decide (r.2 = some "n2" ∧ r.1.onBoarding = ["n1", "n2"]) = true :=
  ⟨by constructor <;> decide, ok_with _ (by decide +kernel)⟩

/-- a wrong proof is refused: the verifier is not the always-true one -/
example : newVoter cV "x" exampleState { mV with txProof := List.replicate 64 0 } (fun _ => false) = .err "tx-proof" := by
  decide +kernel

end NewVoter

/-! ## C17 : the length hypotheses on the hash / tweak oracles of `v0_accept_iff`, `v0_roundtrip`,
    `v1_accept_iff`, `v1_roundtrip`, `system_script_ecdsa` -/
section Scripts
open Goat.Bitcoin

def pad (n : Nat) (b : Bytes) : Bytes := (b ++ List.replicate n 0).take n
theorem pad_length (n : Nat) (b : Bytes) : (pad n b).length = n := by simp [pad]

/-- non-constant oracles with the demanded output lengths -/
def c17 : Crypto :=
  { sha256 := pad 32, dsha256 := pad 32, hash160 := pad 20, tweak := fun k e => if k.length = 32 then some (pad 32 (e ++ k)) else none,
    tweakNoScript := fun k => some (pad 32 k), decodeAddr := fun _ => none }

def pkE : PubKey := { kind := 0, key := 2 :: List.replicate 32 5 }
def pkT : PubKey := { kind := 1, key := List.replicate 32 6 }
def evmA : Bytes := List.replicate 20 0xaa

example : (∀ b, (c17.sha256 b).length = 32) ∧ (∀ b, (c17.hash160 b).length = 20) ∧
    (∀ k e w, c17.tweak k e = some w → w.length = 32) ∧ pkE.validate = true ∧ pkT.validate = true := by
  refine ⟨pad_length 32, pad_length 20, ?_, by decide, by decide⟩
  intro k e w h
  simp only [c17] at h
  split at h
  · cases h; exact pad_length 32 _
  · cases h

/-- both builders succeed (ECDSA key and Taproot key), so `v0_roundtrip` / `v1_roundtrip` have instances -/
example : (depositOutputV0 c17 pkE evmA).isSome = true ∧ (depositOutputV0 c17 pkT evmA).isSome = true ∧
    (depositOutputsV1 c17 pkE [1, 2, 3, 4] evmA).isSome = true := by decide +kernel

end Scripts

/-! ## ValSet.comet_apply_spec : all eight hypotheses at once (one key added, one re-weighted, one removed) -/
section CometSpec
open Goat.Comet

example :
    let cs : VSet := [([1], 5), ([2], 6), ([3], 7)]
    let ups : List (Bytes × Int) := [([2], 9), ([3], 0), ([4], 1)]
    let target : VSet := [([1], 5), ([2], 9), ([4], 1)]
    (cs.map (·.1)).Nodup ∧ (ups.map (·.1)).Nodup ∧ (∀ u ∈ ups, 0 ≤ u.2 ∧ u.2 ≤ (maxTotal : Int)) ∧
    (∀ u ∈ ups, u.2 = 0 → u.1 ∈ cs.map (·.1)) ∧ (target.map (·.1)).Nodup ∧
    (∀ k p, (k, p) ∈ target ↔ (∃ u : Int, (k, u) ∈ ups ∧ u ≠ 0 ∧ p = u.toNat) ∨ ((k, p) ∈ cs ∧ k ∉ ups.map (·.1))) ∧
    total target ≤ maxTotal ∧ target ≠ [] := by
  intro cs ups target
  refine ⟨by decide, by decide, by decide, by decide, by decide, ?_, by decide, by decide⟩
  intro k p
  simp only [cs, ups, target, List.mem_cons, List.mem_nil_iff, Prod.mk.injEq, or_false, List.map]
  constructor
  · rintro (⟨rfl, rfl⟩ | ⟨rfl, rfl⟩ | ⟨rfl, rfl⟩)
    · exact Or.inr ⟨Or.inl ⟨rfl, rfl⟩, by decide⟩
    · exact Or.inl ⟨9, Or.inl ⟨rfl, rfl⟩, by decide, rfl⟩
    · exact Or.inl ⟨1, Or.inr (Or.inr ⟨rfl, rfl⟩), by decide, rfl⟩
  · rintro (⟨u, (⟨rfl, rfl⟩ | ⟨rfl, rfl⟩ | ⟨rfl, rfl⟩), hu, rfl⟩ | ⟨(⟨rfl, rfl⟩ | ⟨rfl, rfl⟩ | ⟨rfl, rfl⟩), hk⟩)
    · exact Or.inr (Or.inl ⟨rfl, rfl⟩)
    · exact absurd rfl hu
    · exact Or.inr (Or.inr ⟨rfl, rfl⟩)
    · exact Or.inl ⟨rfl, rfl⟩
    · exact absurd (by decide) hk
    · exact absurd (by decide) hk

end CometSpec

/-! ## C18 : `WfGenesis`, `CanonGenesis` (export_import, initGenesis_establishes_Derived, initGenesisCore_spec,
    C13B.start_of_genesis) and `ImportDemands` with both order hypotheses (relayer_export_import) -/
section Genesis
open Goat.Genesis Goat.C18 Goat.C18.Example

/-- `WfGenesis` is witnessed by `C13B.exGenesis` (`C13B.ex0_start`); the same genesis is in export form -/
example : CanonGenesis id C13B.exGenesis ∧ WfGenesis id C13B.exGenesis ∧ C13B.exGenesis.validators.length = 2 := by
  decide

/-- the export of the relayer store `C18.Example.r0` (five voter records, one public key) -/
example : ∃ r, ImportDemands addrOf dec (Finding.exportLit r0) r ∧
    (Finding.exportLit r0).voters.Pairwise (fun a b => addrOf a.address < addrOf b.address) ∧
    (Finding.exportLit r0).pubkeys.Pairwise (fun a b => Locking.bytesLt a.encode b.encode = true) ∧
    (Finding.exportLit r0).voters.length = 5 :=
  ⟨{ epoch := r0.epoch, proposer := r0.proposer, voters := r0.voters, lastElected := r0.lastElected, accepted := r0.accepted },
    by decide +kernel, by decide +kernel, by decide +kernel, by decide +kernel⟩

end Genesis

/-! ## conclusions decided by the hypotheses alone (not vacuous, but without content as implications) -/
section Degenerate

/-- `C04.C04_position_binding_ideal` assumes `IdealHash H`, which no function satisfies
    (already recorded as `C04.idealHash_unsatisfiable`) -/
theorem C04_position_binding_ideal_hyps_inconsistent (H : Bytes → Bytes) : ¬ C04.IdealHash H :=
  C04.idealHash_unsatisfiable H

/-- `C04.C04_position_binding`, `C04_accepted_is_leaf`, `C04_same_position_same_leaf` and
    `C03.C03_coinbase_only_at_zero` conclude `… ∨ Collision64 H` (the last: `Collision64 H`) under
    `Out32 H`; that disjunct follows from `Out32 H` alone (already recorded as `C04.collision64_exists`),
    so as propositions these four theorems are consequences of the pigeonhole lemma.  Their content is
    the construction in the proof (which pair collides), not the implication. -/
theorem C04_position_binding_conclusion_always (H : Bytes → Bytes) (hH : C04.Out32 H) : C04.Collision64 H :=
  C04.collision64_exists H hH

/-- the same for `C01S.processWithdrawal_doc_binds_or_collision`: its hypothesis "the digest is 32 bytes"
    alone gives the right disjunct of its conclusion -/
theorem processWithdrawal_doc_binds_or_collision_conclusion_always (c : Relayer.Crypto)
    (h : ∀ x, (c.sha256 x).length = 32) : C01S.Collision c.sha256 := by
  apply Classical.byContradiction
  intro hn
  exact C01S.ideal_hash_hyps_inconsistent c
    ⟨fun x y e => Classical.byContradiction fun hne => hn ⟨x, y, hne, e⟩, h⟩

end Degenerate

end Goat.NonVacuity
