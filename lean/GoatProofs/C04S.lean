/-
  C04S: the model's SHA-256 always outputs 32 bytes.
-/
import GoatModel.Sha256
namespace Goat.C04S
open Goat

theorem compress_size (h : Array UInt32) (m : ByteArray) (off : Nat) :
    (Sha256.compress h m off).size = 8 := by
  unfold Sha256.compress
  simp only [Id.run, bind, pure]
  rfl

theorem H0_size : Sha256.H0.size = 8 := rfl

/-- Folding `compress` over any list of block indices preserves the 8-word state size. -/
theorem foldl_compress_size (m : ByteArray) (l : List Nat) :
    ∀ h : Array UInt32, h.size = 8 →
      (List.foldl (fun b a => Sha256.compress b m (a * 64)) h l).size = 8 := by
  induction l with
  | nil => intro h hh; simpa using hh
  | cons a l ih => intro h _; exact ih _ (compress_size h m (a * 64))

/-- Folding four pushes per word adds `4 * length` bytes. -/
theorem foldl_push4_size (l : List UInt32) :
    ∀ out : ByteArray,
      (List.foldl
        (fun b a => (((b.push (a >>> 24).toUInt8).push (a >>> 16).toUInt8).push (a >>> 8).toUInt8).push a.toUInt8)
        out l).size = out.size + 4 * l.length := by
  induction l with
  | nil => intro out; simp
  | cons a l ih =>
    intro out
    rw [List.foldl_cons, ih]
    simp only [ByteArray.size_push, List.length_cons]
    omega

theorem hashBA_size (msg : ByteArray) : (Sha256.hashBA msg).size = 32 := by
  unfold Sha256.hashBA
  simp only [Std.Legacy.Range.forIn_eq_forIn_range', List.forIn_pure_yield_eq_foldl,
    Array.forIn_pure_yield_eq_foldl, pure_bind, bind_pure_comp, map_pure, Id.run_pure]
  rw [← Array.foldl_toList, foldl_push4_size, Array.length_toList,
    foldl_compress_size _ _ _ H0_size]
  rfl

/-- `ByteArray.toList` is the list of the underlying array (same proof as `C01S.byteArray_toList`). -/
theorem byteArray_toList_loop (bs : ByteArray) (i : Nat) (r : List UInt8) :
    ByteArray.toList.loop bs i r = r.reverse ++ bs.data.toList.drop i := by
  have hsz : bs.size = bs.data.toList.length := by rw [Array.length_toList]; rfl
  fun_induction ByteArray.toList.loop bs i r with
  | case1 i r h ih =>
    rw [ih]
    have h' : i < bs.data.toList.length := by omega
    rw [List.drop_eq_getElem_cons h']
    have : bs.get! i = bs.data.toList[i] := by
      cases bs with | mk d =>
      show d[i]! = _
      simp at h'
      simp [h']
    simp [this]
  | case2 i r h =>
    have h' : bs.data.toList.length ≤ i := by omega
    simp [List.drop_eq_nil_of_le h']

theorem byteArray_toList_length (bs : ByteArray) : bs.toList.length = bs.size := by
  have h : bs.toList = bs.data.toList := by simp [ByteArray.toList, byteArray_toList_loop]
  rw [h, Array.length_toList]; rfl

theorem sha256_length (bs : Bytes) : (Sha256.sha256 bs).length = 32 := by
  unfold Sha256.sha256
  rw [byteArray_toList_length]
  exact hashBA_size _

theorem dsha256_length (bs : Bytes) : (Sha256.dsha256 bs).length = 32 := by
  unfold Sha256.dsha256
  rw [byteArray_toList_length]
  exact hashBA_size _

#print axioms compress_size
#print axioms hashBA_size
#print axioms sha256_length
#print axioms dsha256_length
end Goat.C04S
