/-
  C08 — honest proposals are always accepted; accepted proposals are well-formed; no data races
  (the race clause is the regenerated footprint theorem FactsThms.no_conflicting_access — partial,
  see DESIGN §11).
-/
import GoatModel.App
import GoatProofs.FactsThms
namespace Goat.C08
open Goat.App

/-- the system transactions due now are the leading transactions and the count byte is their number -/
def DequeueOk (extra : Bytes) (txs dueB dueL : List String) : Prop :=
  extra.length = 33 ∧ (∃ rest, txs = dueB ++ dueL ++ rest) ∧ (extra.head!).toNat = dueB.length + dueL.length

/-- **VerifyDequeue, exactly**: a payload's transactions are accepted iff the extra-data is 33 bytes,
    the transactions start with exactly the system transactions due now (bridge first, then locking)
    and the count byte equals their number. -/
theorem verifyDequeue_exact (extra : Bytes) (txs dueB dueL : List String) :
    verifyDequeue extra txs dueB dueL = .ok () ↔ DequeueOk extra txs dueB dueL := by
  unfold DequeueOk
  dsimp only [verifyDequeue]
  by_cases h1 : extra.length ≠ 33
  · rw [if_pos h1]; constructor
    · intro h; cases h
    · rintro ⟨e, _⟩; exact absurd e h1
  rw [if_neg h1]
  have h1' : extra.length = 33 := by omega
  by_cases h2 : txs.length < (extra.head!).toNat
  · rw [if_pos h2]; constructor
    · intro h; cases h
    · rintro ⟨_, ⟨rest, rfl⟩, hc⟩; simp at h2; omega
  rw [if_neg h2]
  by_cases h3 : txs.length < dueB.length
  · rw [if_pos h3]; constructor
    · intro h; cases h
    · rintro ⟨_, ⟨rest, rfl⟩, _⟩; simp at h3; omega
  rw [if_neg h3]
  by_cases h4 : txs.take dueB.length ≠ dueB
  · rw [if_pos h4]; constructor
    · intro h; cases h
    · rintro ⟨_, ⟨rest, rfl⟩, _⟩; exact absurd (by simp [List.append_assoc]) h4
  rw [if_neg h4]
  have e1 : txs.take dueB.length = dueB := by simpa using h4
  by_cases h5 : (txs.drop dueB.length).length < dueL.length
  · rw [if_pos h5]; constructor
    · intro h; cases h
    · rintro ⟨_, ⟨rest, rfl⟩, _⟩; simp [List.append_assoc] at h5; omega
  rw [if_neg h5]
  by_cases h6 : (txs.drop dueB.length).take dueL.length ≠ dueL
  · rw [if_pos h6]; constructor
    · intro h; cases h
    · rintro ⟨_, ⟨rest, rfl⟩, _⟩; exact absurd (by simp [List.append_assoc]) h6
  rw [if_neg h6]
  have e2 : (txs.drop dueB.length).take dueL.length = dueL := by simpa using h6
  have hsplit : txs = dueB ++ dueL ++ (txs.drop dueB.length).drop dueL.length := by
    calc txs = txs.take dueB.length ++ txs.drop dueB.length := (List.take_append_drop _ _).symm
      _ = dueB ++ ((txs.drop dueB.length).take dueL.length ++ (txs.drop dueB.length).drop dueL.length) := by
          rw [e1, List.take_append_drop]
      _ = dueB ++ dueL ++ (txs.drop dueB.length).drop dueL.length := by rw [e2, List.append_assoc]
  by_cases h7 : ((extra.head!).toNat : Int) - dueB.length - dueL.length ≠ 0
  · rw [if_pos h7]; constructor
    · intro h; cases h
    · rintro ⟨_, _, hc⟩; omega
  rw [if_neg h7]
  constructor
  · intro _; exact ⟨h1', ⟨_, hsplit⟩, by omega⟩
  · intro _; rfl

/-- what makes a proposal acceptable — every clause of the statement -/
def WellFormed (g : GState) (dueB dueL : List String) (p : Proposal) : Prop :=
  1 ≤ p.kinds.length ∧ p.kinds.length ≤ 16 ∧ p.anteOk.any (· == false) = false ∧
  p.kinds.head? = some "eth" ∧ p.kinds.tail.any (fun k => k == "eth" || k == "eth+") = false ∧
  ∃ pl, p.payload = some pl ∧ p.proposer = p.comet ∧ p.proposer = pl.feeRecipient ∧ pl.timestampInFuture = false ∧
    g.head.blockHash = pl.parentHash ∧ g.head.blockNumber + 1 = pl.blockNumber ∧ p.reqDecodeOk = true ∧ p.gasRequests = 1 ∧
    g.beaconRoot = pl.beaconRoot ∧ DequeueOk pl.extraData pl.txs dueB dueL ∧ p.engineStatus = "VALID"

/-- **ProcessProposal, exactly.**  A proposal is accepted iff it has 1–16 transactions that all pass
    the ante chain, exactly one execution-block message, first and alone in its transaction, authored
    by that height's consensus proposer and naming it as fee recipient, not from the future, extending
    the recorded head by one with the recorded beacon root, with a decodable request list holding a
    single gas-revenue request, exactly the due system transactions, and the engine reports VALID. -/
theorem processProposal_exact (g : GState) (dueB dueL : List String) (p : Proposal) :
    processProposal g dueB dueL p = .ok () ↔ WellFormed g dueB dueL p := by
  unfold WellFormed processProposal
  by_cases c1 : p.kinds.length = 0
  · rw [if_pos c1]; constructor
    · intro h; cases h
    · rintro ⟨h, _⟩; omega
  rw [if_neg c1]
  by_cases c2 : p.kinds.length > 16
  · rw [if_pos c2]; constructor
    · intro h; cases h
    · rintro ⟨_, h, _⟩; omega
  rw [if_neg c2]
  by_cases c3 : p.anteOk.any (· == false) = true
  · rw [if_pos c3]; constructor
    · intro h; cases h
    · rintro ⟨_, _, h, _⟩; rw [c3] at h; cases h
  rw [if_neg c3]
  by_cases c4 : p.kinds.head? ≠ some "eth"
  · rw [if_pos c4]; constructor
    · intro h; cases h
    · rintro ⟨_, _, _, h, _⟩; exact absurd h c4
  rw [if_neg c4]
  by_cases c5 : p.kinds.tail.any (fun k => k == "eth" || k == "eth+") = true
  · rw [if_pos c5]; constructor
    · intro h; cases h
    · rintro ⟨_, _, _, _, h, _⟩; rw [c5] at h; cases h
  rw [if_neg c5]
  have b3 : p.anteOk.any (· == false) = false := by simpa using c3
  have b4 : p.kinds.head? = some "eth" := by simpa using c4
  have b5 : p.kinds.tail.any (fun k => k == "eth" || k == "eth+") = false := by simpa using c5
  cases hpl : p.payload with
  | none =>
    constructor
    · intro h; cases h
    · rintro ⟨_, _, _, _, _, pl, h, _⟩; cases h
  | some pl =>
    simp only
    by_cases d1 : p.proposer ≠ p.comet
    · rw [if_pos d1]; constructor
      · intro h; cases h
      · rintro ⟨_, _, _, _, _, pl', h, e, _⟩; exact absurd e d1
    rw [if_neg d1]
    by_cases d2 : p.proposer ≠ pl.feeRecipient
    · rw [if_pos d2]; constructor
      · intro h; cases h
      · rintro ⟨_, _, _, _, _, pl', h, _, e, _⟩; cases h; exact absurd e d2
    rw [if_neg d2]
    by_cases d3 : pl.timestampInFuture = true
    · rw [if_pos d3]; constructor
      · intro h; cases h
      · rintro ⟨_, _, _, _, _, pl', h, _, _, e, _⟩; cases h; rw [d3] at e; cases e
    rw [if_neg d3]
    by_cases d4 : g.head.blockHash ≠ pl.parentHash
    · rw [if_pos d4]; constructor
      · intro h; cases h
      · rintro ⟨_, _, _, _, _, pl', h, _, _, _, e, _⟩; cases h; exact absurd e d4
    rw [if_neg d4]
    by_cases d5 : g.head.blockNumber + 1 ≠ pl.blockNumber
    · rw [if_pos d5]; constructor
      · intro h; cases h
      · rintro ⟨_, _, _, _, _, pl', h, _, _, _, _, e, _⟩; cases h; exact absurd e d5
    rw [if_neg d5]
    by_cases d6 : (!p.reqDecodeOk) = true
    · rw [if_pos d6]; constructor
      · intro h; cases h
      · rintro ⟨_, _, _, _, _, pl', h, _, _, _, _, _, e, _⟩; rw [e] at d6; cases d6
    rw [if_neg d6]
    by_cases d7 : p.gasRequests ≠ 1
    · rw [if_pos d7]; constructor
      · intro h; cases h
      · rintro ⟨_, _, _, _, _, pl', h, _, _, _, _, _, _, e, _⟩; exact absurd e d7
    rw [if_neg d7]
    by_cases d8 : g.beaconRoot ≠ pl.beaconRoot
    · rw [if_pos d8]; constructor
      · intro h; cases h
      · rintro ⟨_, _, _, _, _, pl', h, _, _, _, _, _, _, _, e, _⟩; cases h; exact absurd e d8
    rw [if_neg d8]
    have front : 1 ≤ p.kinds.length ∧ p.kinds.length ≤ 16 := ⟨by omega, by omega⟩
    cases hvd : verifyDequeue pl.extraData pl.txs dueB dueL with
    | err e =>
      simp only
      constructor
      · intro h; cases h
      · rintro ⟨_, _, _, _, _, pl', h, _, _, _, _, _, _, _, _, dq, _⟩
        cases h
        rw [(verifyDequeue_exact _ _ _ _).mpr dq] at hvd; cases hvd
    | panic e =>
      simp only
      constructor
      · intro h; cases h
      · rintro ⟨_, _, _, _, _, pl', h, _, _, _, _, _, _, _, _, dq, _⟩
        cases h
        rw [(verifyDequeue_exact _ _ _ _).mpr dq] at hvd; cases hvd
    | ok u =>
      cases u
      simp only
      have dq := (verifyDequeue_exact _ _ _ _).mp hvd
      by_cases d9 : (p.engineStatus != "VALID") = true
      · rw [if_pos d9]; constructor
        · intro h; cases h
        · rintro ⟨_, _, _, _, _, pl', h, _, _, _, _, _, _, _, _, _, e⟩; rw [e] at d9; simp at d9
      rw [if_neg d9]
      constructor
      · intro _
        exact ⟨front.1, front.2, b3, b4, b5, pl, rfl, by simpa using d1, by simpa using d2, by simpa using d3, by simpa using d4,
          by omega, by simpa using d6, by omega, by simpa using d8, dq, by simpa using d9⟩
      · intro _; rfl

/-- **Accepted proposals are well-formed.** -/
theorem accepted_wellformed (g : GState) (dueB dueL : List String) (p : Proposal)
    (h : processProposal g dueB dueL p = .ok ()) : WellFormed g dueB dueL p :=
  (processProposal_exact g dueB dueL p).mp h

/-- **Honest proposals are accepted.**  A proposal whose first transaction is the single
    execution-block message by the consensus proposer, whose payload extends the recorded head with the
    recorded beacon root, starts with exactly the due system transactions (count byte = their number,
    fewer than 256 as the caps guarantee), carries one gas request, has a past timestamp, whose other
    (≤ 15) transactions are ante-valid relayer transactions, and which the engine reports VALID, is
    accepted — whatever the state. -/
theorem honest_accepted (g : GState) (dueB dueL : List String) (proposer : Bytes) (user : List String) (rel : Nat)
    (hrel : rel ≤ 15) (hash : Bytes) (blob : Nat) (hcap : dueB.length + dueL.length < 256) :
    processProposal g dueB dueL
      { kinds := "eth" :: List.replicate rel "rel", anteOk := List.replicate (rel + 1) true,
        payload := some { parentHash := g.head.blockHash, feeRecipient := proposer, blockNumber := g.head.blockNumber + 1, blockHash := hash,
                          blobGasUsed := blob, beaconRoot := g.beaconRoot,
                          extraData := UInt8.ofNat (dueB.length + dueL.length) :: List.replicate 32 0,
                          txs := dueB ++ dueL ++ user, timestampInFuture := false },
        proposer := proposer, comet := proposer, reqDecodeOk := true, gasRequests := 1, engineStatus := "VALID" } = .ok () := by
  rw [processProposal_exact]
  unfold WellFormed
  refine ⟨by simp, by simp; omega, ?_, by simp, ?_, _, rfl, rfl, rfl, rfl, rfl, rfl, rfl, rfl, rfl, ?_, rfl⟩
  · rw [List.any_eq_false]; intro x hx; have := List.eq_of_mem_replicate hx; simp [this]
  · simp only [List.tail_cons]
    rw [List.any_eq_false]; intro x hx; have := List.eq_of_mem_replicate hx; subst this; decide
  · refine ⟨by simp, ⟨user, rfl⟩, ?_⟩
    show (UInt8.ofNat (dueB.length + dueL.length)).toNat = dueB.length + dueL.length
    rw [UInt8.toNat_ofNat']
    omega

/-- the dues of one block stay far below 256: ≤ 1 + 8 + 8 bridge and ≤ 16 + 16 locking transactions -/
theorem due_cap : (1 + 8 + 8) + (16 + 16) < 256 := by decide

/-- the race clause, re-decided against the goroutine footprints of the current source -/
theorem no_conflicting_access : FactsThms.conflicts Facts.goroutineAccess = [] := FactsThms.no_conflicting_access

end Goat.C08
