/-
  C09 — the execution head advances only by valid child blocks; engine faults commit nothing.
-/
import GoatModel.App
import GoatModel.Driver
namespace Goat.C09
open Goat.App

/-- **The head changes only by a direct child**: the execution-block message passes its structural
    checks only if it is authored by the block's consensus proposer who is also the fee recipient, its
    payload's parent is the recorded head with number + 1, it carries no blob gas and names the
    recorded beacon root. -/
theorem head_only_by_child (g : GState) (proposer comet : Bytes) (p p' : Payload)
    (h : newEthBlockChecks g proposer comet (some p) = .ok p') :
    p' = p ∧ proposer = comet ∧ proposer = p.feeRecipient ∧ p.parentHash = g.head.blockHash ∧
    p.blockNumber = g.head.blockNumber + 1 ∧ p.blobGasUsed = 0 ∧ p.beaconRoot = g.beaconRoot := by
  unfold newEthBlockChecks at h
  simp only at h
  split at h; · cases h
  rename_i h1
  split at h; · cases h
  rename_i h2
  split at h; · cases h
  rename_i h3
  split at h; · cases h
  rename_i h4
  cases h
  refine ⟨rfl, ?_, ?_, ?_, ?_, by omega, ?_⟩
  · by_cases e : proposer = comet
    · exact e
    · exact absurd (Or.inl e) h1
  · by_cases e : proposer = p.feeRecipient
    · exact e
    · exact absurd (Or.inr e) h1
  · by_cases e : g.head.blockHash = p.parentHash
    · exact e.symm
    · exact absurd (Or.inl e) h2
  · by_cases e : g.head.blockNumber + 1 = p.blockNumber
    · exact e.symm
    · exact absurd (Or.inr e) h2
  · by_cases e : g.beaconRoot = p.beaconRoot
    · exact e.symm
    · exact absurd e h4

/-- a missing payload never advances the head -/
theorem nil_payload_rejected (g : GState) (proposer comet : Bytes) : ∀ p, newEthBlockChecks g proposer comet none ≠ .ok p := by
  intro p h; unfold newEthBlockChecks at h; cases h

/-- **`Finalized`, exactly**: the end-of-block notification succeeds iff neither engine call errors
    or answers INVALID (SYNCING / ACCEPTED are not faults here). -/
theorem finalized_exact (newStatus fcuStatus : String) :
    finalized newStatus fcuStatus = .ok () ↔
      newStatus ≠ "ERROR" ∧ newStatus ≠ "INVALID" ∧ fcuStatus ≠ "ERROR" ∧ fcuStatus ≠ "INVALID" := by
  unfold finalized
  by_cases a : newStatus = "ERROR"
  · simp [a]
  by_cases b : newStatus = "INVALID"
  · simp [b]
  by_cases c : fcuStatus = "ERROR"
  · simp [a, b, c]
  by_cases d : fcuStatus = "INVALID"
  · simp [a, b, d]
  simp [a, b, c, d]

open Goat.Driver

theorem failBlock_not_committed (d : D) (eng : List String) (cls : String) : (failBlock d eng cls).2.1 = false := by
  unfold failBlock; split <;> rfl

theorem failBlock_restores (d : D) (eng : List String) (cls : String) (w0 : World.W) (g0 : GState)
    (hs : d.snap = some (w0, g0)) :
    (failBlock d eng cls).1.w = w0 ∧ (failBlock d eng cls).1.goat = g0 ∧ (failBlock d eng cls).1.snap = none := by
  unfold failBlock; rw [hs]; exact ⟨rfl, rfl, rfl⟩

/-- the end of a block either commits or is `failBlock` -/
theorem endBlock_cases (d : D) (time : Int) (ns fs : String) :
    (endBlock d time ns fs).2.1 = true ∨ ∃ eng cls, endBlock d time ns fs = failBlock d eng cls := by
  unfold endBlock
  dsimp only
  split
  · exact Or.inr ⟨_, _, rfl⟩
  split
  · exact Or.inr ⟨_, _, rfl⟩
  · exact Or.inr ⟨_, _, rfl⟩
  split
  · exact Or.inr ⟨_, _, rfl⟩
  · exact Or.inr ⟨_, _, rfl⟩
  split
  · exact Or.inr ⟨_, _, rfl⟩
  · exact Or.inr ⟨_, _, rfl⟩
  · exact Or.inl rfl

/-- **A block that is not committed leaves nothing behind**: whatever happened inside the block
    (transactions, hooks), if its end-of-block step does not commit — an engine fault or a failing hook —
    the state is exactly the one saved when the block started. -/
theorem uncommitted_block_restores_prestate (d : D) (time : Int) (ns fs : String) (w0 : World.W) (g0 : GState)
    (hs : d.snap = some (w0, g0)) (hnc : (endBlock d time ns fs).2.1 = false) :
    (endBlock d time ns fs).1.w = w0 ∧ (endBlock d time ns fs).1.goat = g0 ∧ (endBlock d time ns fs).1.snap = none := by
  rcases endBlock_cases d time ns fs with h | ⟨eng, cls, h⟩
  · rw [h] at hnc; cases hnc
  · rw [h]; exact failBlock_restores d eng cls w0 g0 hs

/-- **An engine fault at the end of a block prevents the commit.** -/
theorem engine_fault_not_committed (d : D) (time : Int) (ns fs : String)
    (hf : finalized ns fs ≠ .ok ()) : (endBlock d time ns fs).2.1 = false := by
  unfold endBlock
  dsimp only
  split
  · exact failBlock_not_committed ..
  split
  · exact failBlock_not_committed ..
  · exact failBlock_not_committed ..
  split
  · exact failBlock_not_committed ..
  · exact failBlock_not_committed ..
  · rename_i h; exact absurd h hf

/-- a committed block had a fault-free engine notification and no failed step before it -/
theorem committed_needs_engine_ok (d : D) (time : Int) (ns fs : String)
    (hc : (endBlock d time ns fs).2.1 = true) : finalized ns fs = .ok () ∧ d.failed = none := by
  constructor
  · by_cases hf : finalized ns fs = .ok ()
    · exact hf
    · rw [engine_fault_not_committed d time ns fs hf] at hc; cases hc
  · cases hd : d.failed with
    | none => rfl
    | some c =>
      have : (endBlock d time ns fs).2.1 = false := by
        unfold endBlock; dsimp only; rw [hd]; exact failBlock_not_committed ..
      rw [this] at hc; cases hc

/-- **The head then becomes that payload, and the beacon root the finalising block's hash**: whenever
    the execution-block message is applied, its payload is a direct child of the head recorded
    before, authored by the consensus proposer, with no blob gas and the recorded beacon root; the new
    head is exactly (hash, number, parent) of the payload and the new beacon root is the hash of the
    consensus block being finalised. -/
theorem head_becomes_payload (d d' : D) (o : Wire.Op) (h : newEthBlock d o = .ok d') :
    ∃ p, payloadOf o = some p ∧
      o.bytes "proposer" = o.bytes "comet" ∧ o.bytes "proposer" = p.feeRecipient ∧
      p.parentHash = d.goat.head.blockHash ∧ p.blockNumber = d.goat.head.blockNumber + 1 ∧
      p.blobGasUsed = 0 ∧ p.beaconRoot = d.goat.beaconRoot ∧
      d'.goat.head = { blockHash := p.blockHash, blockNumber := p.blockNumber, parentHash := p.parentHash } ∧
      d'.goat.beaconRoot = o.bytes "headerhash" := by
  unfold newEthBlock at h
  dsimp only at h
  split at h
  · split at h <;> cases h
  rename_i p hp
  split at h
  · cases h
  · cases h
  rename_i p' hchk
  obtain ⟨rfl, h1, h2, h3, h4, h5, h6⟩ := head_only_by_child _ _ _ _ _ hchk
  refine ⟨p', hp, h1, h2, h3, h4, h5, h6, ?_⟩
  split at h
  · cases h
  · cases h
  split at h
  · cases h
  · cases h
  split at h
  · cases h
  split at h
  · cases h
  · cases h
  split at h
  · cases h
  · cases h
  cases h
  exact ⟨rfl, rfl⟩

/-- whenever the execution-block message is not applied the head and beacon root stay -/
theorem head_unchanged_on_failure (d : D) (o : Wire.Op) (hf : (runTx d o).2 ≠ "=> ok") :
    (runTx d o).1.goat = d.goat := by
  suffices h : ∀ p, runTx d o = p → p.2 ≠ "=> ok" → p.1.goat = d.goat from h _ rfl hf
  intro p hp
  unfold runTx at hp
  split at hp
  · subst hp; intro _; rfl
  · subst hp; intro _; rfl
  · split at hp
    · subst hp; intro _; rfl
    · split at hp
      · split at hp
        · subst hp; intro h; exact absurd rfl h
        · subst hp; intro _; rfl
        · subst hp; intro _; rfl
      · split at hp
        · subst hp; intro _; rfl
        · subst hp; intro _; rfl

/-- only the execution-block message moves the head: every other transaction kind leaves it -/
theorem only_ethblock_moves_head (d : D) (o : Wire.Op) (hk : o.kind ≠ "tx.ethblock") :
    (runTx d o).1.goat = d.goat := by
  unfold runTx
  split
  · rfl
  · rfl
  · split
    · rfl
    · split
      · rename_i h; simp at h; exact absurd h hk
      · split <;> rfl


/-! ### retrying after the fault clears gives the same result as a fault-free run -/

theorem newEthBlock_keeps_snap (d d' : D) (o : Wire.Op) (h : newEthBlock d o = .ok d') : d'.snap = d.snap := by
  unfold newEthBlock at h
  dsimp only at h
  split at h
  · split at h <;> cases h
  split at h
  · cases h
  · cases h
  split at h
  · cases h
  · cases h
  split at h
  · cases h
  · cases h
  split at h
  · cases h
  split at h
  · cases h
  · cases h
  split at h
  · cases h
  · cases h
  cases h
  rfl

theorem runTx_keeps_snap (d : D) (o : Wire.Op) : (runTx d o).1.snap = d.snap := by
  unfold runTx
  split
  · rfl
  · rfl
  · split
    · rfl
    · split
      · split
        · rename_i d' h; exact newEthBlock_keeps_snap d d' o h
        · rfl
        · rfl
      · split <;> rfl

/-- **Retry = fault-free run.**  Let a block be started on `d`, let `body` be whatever runs inside it
    (any composition of steps that do not touch the saved pre-state, e.g. transactions: `runTx_keeps_snap`),
    and let its end-of-block step not commit (engine error / INVALID at either call, or a failing hook).
    Then starting the next attempt from the resulting state is *the same state* as starting it from `d`:
    every later step — in particular the retried block once the fault has cleared — behaves exactly as if
    the faulty attempt had never happened. -/
theorem retry_equals_fault_free (d : D) (halt halt' : Bool) (body : D → D) (hsnap : ∀ x, (body x).snap = x.snap)
    (time : Int) (ns fs : String)
    (hnc : (endBlock (body (startBlock d halt)) time ns fs).2.1 = false) :
    startBlock (endBlock (body (startBlock d halt)) time ns fs).1 halt' = startBlock d halt' := by
  have hs : (body (startBlock d halt)).snap = some (d.w, d.goat) := by rw [hsnap]; rfl
  obtain ⟨h1, h2, _⟩ := uncommitted_block_restores_prestate _ time ns fs d.w d.goat hs hnc
  generalize (endBlock (body (startBlock d halt)) time ns fs).1 = r at h1 h2
  unfold startBlock
  rw [h1, h2]

/-- a block body made of transactions keeps the saved pre-state -/
theorem txs_keep_snap (ops : List Wire.Op) (d : D) : (ops.foldl (fun x o => (runTx x o).1) d).snap = d.snap := by
  induction ops generalizing d with
  | nil => rfl
  | cons o os ih => rw [List.foldl_cons, ih, runTx_keeps_snap]

end Goat.C09
