/-
  C02 — a vote is single-use: the sequence advances exactly once per accepted proposal.
-/
import GoatModel.Relayer
import GoatModel.Bitcoin
import GoatProofs.C01
import GoatProofs.FactsThms
namespace Goat.C02
open Goat.Relayer

/-- what an accepted vote does to the relayer state, exactly: sequence + 1, randao chained over the
    vote's signature, proposer-accepted flag set; nothing else -/
def Consumed (c : Crypto) (rel rel' : State) (sig : Bytes) : Prop :=
  rel'.seq = (rel.seq + 1) % two64 ∧ rel'.randao = c.sha256 (rel.randao ++ sig) ∧ rel'.accepted = true ∧
  rel'.epoch = rel.epoch ∧ rel'.proposer = rel.proposer ∧ rel'.voters = rel.voters

theorem verify_then_consume (c : Crypto) (chainId : String) (rel rel1 : State) (m : VoteMsg) (q : Nat)
    (h : verifyProposal c chainId rel m = .ok (rel1, q)) :
    Consumed c rel (consumeVote c rel1 q m.signature) m.signature ∧ m.seq = rel.seq ∧ m.epoch = rel.epoch := by
  obtain ⟨hq, h1, h2⟩ := C01.C01_accept_sound c chainId rel m rel1 q h
  subst h1; subst h2
  unfold Consumed consumeVote
  exact ⟨⟨rfl, rfl, rfl, rfl, rfl, rfl⟩, hq.2.1, hq.2.2.1⟩

/-- **Each accepted voted proposal consumes exactly one sequence number** (all five handlers). -/
theorem newBlockHashes_consumes (rc : Crypto) (chainId : String) (rel : State) (s : Bitcoin.State)
    (vote : VoteMsg) (hv : Bool) (start : Nat) (hashes : List Bytes) (r : State × Bitcoin.State)
    (h : Bitcoin.newBlockHashes rc chainId rel s vote hv start hashes = .ok r) :
    Consumed rc rel r.1 vote.signature ∧ vote.seq = rel.seq ∧ vote.epoch = rel.epoch := by
  unfold Bitcoin.newBlockHashes at h
  repeat (split at h; · cases h)
  dsimp only at h
  split at h
  · cases h
  · cases h
  · rename_i rel1 q hvp
    cases h
    exact verify_then_consume rc chainId rel rel1 { vote with method := "Bitcoin/NewBlocks", sigDoc := List.replicate 8 0 ++ le64 start ++ hashes.flatten } q hvp

theorem newConsolidation_consumes (c : Bitcoin.Crypto) (rc : Crypto) (chainId : String) (rel : State) (s : Bitcoin.State)
    (vote : VoteMsg) (hv : Bool) (tx : Bytes) (r : State × Bitcoin.State)
    (h : Bitcoin.newConsolidation c rc chainId rel s vote hv tx = .ok r) :
    Consumed rc rel r.1 vote.signature ∧ vote.seq = rel.seq ∧ vote.epoch = rel.epoch ∧ r.2 = s := by
  unfold Bitcoin.newConsolidation at h
  repeat (split at h; · cases h)
  · dsimp only at h
    split at h
    · cases h
    · cases h
    · rename_i rel1 q hvp
      cases h
      obtain ⟨a, b, c'⟩ := verify_then_consume rc chainId rel rel1 { vote with method := "Bitcoin/NewConsolidation", sigDoc := rc.sha256 tx } q hvp
      exact ⟨a, b, c', rfl⟩

theorem newPubkey_consumes (rc : Crypto) (chainId : String) (rel : State) (s : Bitcoin.State)
    (vote : VoteMsg) (hv : Bool) (pk : Bitcoin.PubKey) (r : State × Bitcoin.State)
    (h : Bitcoin.newPubkey rc chainId rel s vote hv pk = .ok r) :
    Consumed rc rel r.1 vote.signature ∧ vote.seq = rel.seq ∧ vote.epoch = rel.epoch := by
  unfold Bitcoin.newPubkey at h
  repeat (split at h; · cases h)
  dsimp only at h
  split at h
  · cases h
  · cases h
  · rename_i rel1 q hvp
    split at h; · cases h
    cases h
    obtain ⟨hq, h1, h2⟩ := C01.C01_accept_sound rc chainId rel _ rel1 q hvp
    subst h1; subst h2
    unfold Consumed consumeVote
    exact ⟨⟨rfl, rfl, rfl, rfl, rfl, rfl⟩, hq.2.1, hq.2.2.1⟩

theorem processWithdrawal_consumes (c : Bitcoin.Crypto) (rc : Crypto) (chainId : String) (rel : State) (s : Bitcoin.State)
    (vote : VoteMsg) (hv : Bool) (ids : List Nat) (tx : Bytes) (fee : Nat) (r : State × Bitcoin.State)
    (h : Bitcoin.processWithdrawal c rc chainId rel s vote hv ids tx fee = .ok r) :
    Consumed rc rel r.1 vote.signature ∧ vote.seq = rel.seq ∧ vote.epoch = rel.epoch := by
  cases hvp : verifyProposal rc chainId rel { vote with method := "Bitcoin/ProcessWithdrawal", sigDoc := (ids.map le64).flatten ++ rc.sha256 tx ++ le64 fee } with
  | err e => exfalso; unfold Bitcoin.processWithdrawal at h; simp only [hvp] at h; repeat (split at h <;> try cases h)
  | panic e => exfalso; unfold Bitcoin.processWithdrawal at h; simp only [hvp] at h; repeat (split at h <;> try cases h)
  | ok p =>
    obtain ⟨rel1, q⟩ := p
    have hc := verify_then_consume rc chainId rel rel1 _ q hvp
    unfold Bitcoin.processWithdrawal at h; simp only [hvp] at h
    repeat (split at h <;> try cases h)
    all_goals exact hc

theorem replaceWithdrawal_consumes (c : Bitcoin.Crypto) (rc : Crypto) (chainId : String) (rel : State) (s : Bitcoin.State)
    (vote : VoteMsg) (hv : Bool) (pid : Nat) (tx : Bytes) (fee : Nat) (r : State × Bitcoin.State)
    (h : Bitcoin.replaceWithdrawal c rc chainId rel s vote hv pid tx fee = .ok r) :
    Consumed rc rel r.1 vote.signature ∧ vote.seq = rel.seq ∧ vote.epoch = rel.epoch := by
  cases hvp : verifyProposal rc chainId rel { vote with method := "Bitcoin/ReplaceWithdrawal", sigDoc := le64 pid ++ le64 fee ++ rc.sha256 tx } with
  | err e => exfalso; unfold Bitcoin.replaceWithdrawal at h; simp only [hvp] at h; repeat (split at h <;> try cases h)
  | panic e => exfalso; unfold Bitcoin.replaceWithdrawal at h; simp only [hvp] at h; repeat (split at h <;> try cases h)
  | ok p =>
    obtain ⟨rel1, q⟩ := p
    have hc := verify_then_consume rc chainId rel rel1 _ q hvp
    unfold Bitcoin.replaceWithdrawal at h; simp only [hvp] at h
    repeat (split at h <;> try cases h)
    all_goals exact hc

/-! ### everything else leaves the sequence and the randao alone -/

theorem nonProposal_keeps_seq (rel rel' : State) (p : String) (h : verifyNonProposal rel p = .ok rel') :
    rel'.seq = rel.seq ∧ rel'.randao = rel.randao ∧ rel'.epoch = rel.epoch := by
  unfold verifyNonProposal at h
  split at h
  · cases h
  · cases h; exact ⟨rfl, rfl, rfl⟩

theorem acceptProposer_keeps_seq (rel rel' : State) (p : String) (e : Nat) (now : Int) (h : acceptProposer rel p e now = .ok rel') :
    rel'.seq = rel.seq ∧ rel'.randao = rel.randao := by
  unfold acceptProposer at h
  repeat (split at h; · cases h)
  cases h; exact ⟨rfl, rfl⟩

theorem endBlocker_keeps_seq (c : Crypto) (rel rel' : State) (now : Int) (h : endBlocker c rel now = .ok rel') :
    rel'.seq = rel.seq ∧ rel'.randao = rel.randao ∧ (rel'.epoch = rel.epoch ∨ rel'.epoch = (rel.epoch + 1) % two64) := by
  unfold endBlocker at h
  split at h
  · cases h; exact ⟨rfl, rfl, Or.inl rfl⟩
  · dsimp only at h
    repeat' (split at h)
    all_goals (first | (cases h; done) | (cases h; exact ⟨rfl, rfl, Or.inr rfl⟩))

theorem processRequest_keeps_seq (c : Crypto) (rel : State) (height : Nat) (adds : List AddReq) (removes : List Bytes) :
    (processRequest c rel height adds removes).seq = rel.seq ∧ (processRequest c rel height adds removes).randao = rel.randao := by
  unfold processRequest
  have hadd : ∀ (l : List AddReq) (s : State),
      (l.foldl (fun (s : State) a =>
        let addr := c.addrOf a.voter
        if (lookup s.recs addr).isSome then s
        else { s with recs := insert s.recs addr { address := a.voter, voteKey := a.keyHash, status := .pending, height := height } }) s).seq = s.seq ∧
      (l.foldl (fun (s : State) a =>
        let addr := c.addrOf a.voter
        if (lookup s.recs addr).isSome then s
        else { s with recs := insert s.recs addr { address := a.voter, voteKey := a.keyHash, status := .pending, height := height } }) s).randao = s.randao := by
    intro l
    induction l with
    | nil => intro s; exact ⟨rfl, rfl⟩
    | cons a as ih =>
      intro s
      rw [List.foldl_cons]
      obtain ⟨i1, i2⟩ := ih (if (lookup s.recs (c.addrOf a.voter)).isSome then s
        else { s with recs := insert s.recs (c.addrOf a.voter) { address := a.voter, voteKey := a.keyHash, status := .pending, height := height } })
      constructor
      · rw [i1]; split <;> rfl
      · rw [i2]; split <;> rfl
  have hgo : ∀ (l : List Bytes) (s : State) (a : Int), (processRequest.go c l s a).seq = s.seq ∧ (processRequest.go c l s a).randao = s.randao := by
    intro l
    induction l with
    | nil => intro s a; exact ⟨rfl, rfl⟩
    | cons x xs ih =>
      intro s a
      unfold processRequest.go
      dsimp only
      split
      · exact ih s a
      · split
        · exact ih s a
        · split
          · exact ⟨rfl, rfl⟩
          · obtain ⟨i1, i2⟩ := ih { s with recs := insert s.recs (c.addrOf x) { (‹Voter›) with status := .offBoarding },
                                            offBoarding := s.offBoarding ++ [c.addrOf x] } (a - 1)
            exact ⟨i1, i2⟩
  obtain ⟨a1, a2⟩ := hadd adds rel
  split
  · exact ⟨a1, a2⟩
  · obtain ⟨g1, g2⟩ := hgo removes _ _
    exact ⟨g1.trans a1, g2.trans a2⟩

/-! ### no replay -/

/-- a vote is accepted only for the *current* sequence and epoch -/
theorem accept_needs_current_seq (c : Crypto) (chainId : String) (s : State) (m : VoteMsg) (r : State × Nat)
    (h : verifyProposal c chainId s m = .ok r) : m.seq = s.seq ∧ m.epoch = s.epoch := by
  obtain ⟨hq, _, _⟩ := C01.C01_accept_sound c chainId s m r.1 r.2 h
  exact ⟨hq.2.1, hq.2.2.1⟩

/-- **No replay**: in any later state whose sequence has moved on, a vote produced for an earlier
    (or any other) sequence is rejected by every voted handler (they all go through `verifyProposal`). -/
theorem stale_vote_rejected (c : Crypto) (chainId : String) (s : State) (m : VoteMsg) (h : m.seq ≠ s.seq) :
    ∀ r, verifyProposal c chainId s m ≠ .ok r := by
  intro r hr
  exact h (accept_needs_current_seq c chainId s m r hr).1

/-- a vote signed for another epoch is rejected as well -/
theorem other_epoch_rejected (c : Crypto) (chainId : String) (s : State) (m : VoteMsg) (h : m.epoch ≠ s.epoch) :
    ∀ r, verifyProposal c chainId s m ≠ .ok r := by
  intro r hr
  exact h (accept_needs_current_seq c chainId s m r hr).2

/-- steps of the relayer state that the model allows (successful operations only; failing ones keep
    the state by the transactional wrapper) -/
inductive Step (c : Crypto) : State → State → Prop where
  | consume (s : State) (sig : Bytes) (h : s.seq + 1 < two64) : Step c s (consumeVote c { s with accepted := true } s.seq sig)
  | addKey (s : State) (k : Bytes) : Step c s { s with pubkeys := s.pubkeys ++ [k] }
  | nonProposal (s s' : State) (p : String) (h : verifyNonProposal s p = .ok s') : Step c s s'
  | accept (s s' : State) (p : String) (e : Nat) (now : Int) (h : acceptProposer s p e now = .ok s') : Step c s s'
  | endBlock (s s' : State) (now : Int) (h : endBlocker c s now = .ok s') : Step c s s'
  | request (s : State) (height : Nat) (adds : List AddReq) (removes : List Bytes) : Step c s (processRequest c s height adds removes)

theorem step_seq_mono (c : Crypto) (s s' : State) (h : Step c s s') : s.seq ≤ s'.seq := by
  cases h
  · rename_i sig hw
    unfold consumeVote
    show s.seq ≤ (s.seq + 1) % two64
    rw [Nat.mod_eq_of_lt hw]; omega
  · exact Nat.le_refl _
  · rename_i p h; rw [(nonProposal_keeps_seq s s' p h).1]; exact Nat.le_refl _
  · rename_i p e now h; rw [(acceptProposer_keeps_seq s s' p e now h).1]; exact Nat.le_refl _
  · rename_i now h; rw [(endBlocker_keeps_seq c s s' now h).1]; exact Nat.le_refl _
  · rename_i height adds removes; rw [(processRequest_keeps_seq c s height adds removes).1]; exact Nat.le_refl _

/-- reachability by any history of steps -/
inductive Reach (c : Crypto) : State → State → Prop where
  | refl (s : State) : Reach c s s
  | step (s t u : State) : Reach c s t → Step c t u → Reach c s u

theorem reach_seq_mono (c : Crypto) (s s' : State) (h : Reach c s s') : s.seq ≤ s'.seq := by
  induction h with
  | refl => exact Nat.le_refl _
  | step t u _ hs ih => exact Nat.le_trans ih (step_seq_mono c t u hs)

/-- **A vote that was accepted once can never be accepted again**: after the acceptance consumed
    sequence `q`, in every state reachable by any history of relayer messages, elections and membership
    changes, a vote carrying sequence `q` is rejected. -/
theorem accepted_vote_never_again (c : Crypto) (chainId : String) (s s' : State) (sig : Bytes) (hw : s.seq + 1 < two64)
    (hreach : Reach c (consumeVote c { s with accepted := true } s.seq sig) s') (m : VoteMsg) (hm : m.seq = s.seq) :
    ∀ r, verifyProposal c chainId s' m ≠ .ok r := by
  apply stale_vote_rejected
  have h1 := reach_seq_mono c _ s' hreach
  have h2 : (consumeVote c { s with accepted := true } s.seq sig).seq = s.seq + 1 := by
    unfold consumeVote
    show (s.seq + 1) % two64 = s.seq + 1
    exact Nat.mod_eq_of_lt hw
  omega

/-- in the *code*, a write of the sequence / randao is reachable only from the five voted bridge handlers (each behind
    VerifyProposal) and from genesis (facts regenerated from the source) -/
theorem code_writers_closed :
    Facts.seqReach.all (fun e => FactsThms.votedHandlers.contains e.1 || e.1 == "x/relayer/module.InitGenesis") = true :=
  FactsThms.seq_writers_closed

end Goat.C02
