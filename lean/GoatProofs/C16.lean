/-
  C16 — the relayer group is always well formed.
-/
import GoatModel.Relayer
import GoatProofs.Lemmas.RelayerGroup
import GoatProofs.C01
namespace Goat.C16
open Goat.Relayer

/-- proposer followed by the voters: the current members of the group -/
def members (s : State) : List String := s.proposer :: s.voters

/-- **Group well-formedness.**  `stat recs k` is the status of the record stored under `k`. -/
structure GroupInv (s : State) : Prop where
  /-- proposer and voters are pairwise distinct (in particular the proposer is not a voter) -/
  nodup : (members s).Nodup
  /-- every member has a record, activated or awaiting removal at the next election -/
  memberRec : ∀ m ∈ members s, stat s.recs m = some .activated ∨ stat s.recs m = some .offBoarding
  /-- every queued joiner has a record in status on-boarding (so it is not a member) -/
  onRec : ∀ m ∈ s.onBoarding, stat s.recs m = some .onBoarding
  onNodup : s.onBoarding.Nodup
  /-- every entry of the removal queue has a record in status off-boarding -/
  offRec : ∀ m ∈ s.offBoarding, stat s.recs m = some .offBoarding
  offNodup : s.offBoarding.Nodup
  /-- a member awaiting removal is in the removal queue -/
  offListed : ∀ m ∈ members s, stat s.recs m = some .offBoarding → m ∈ s.offBoarding
  /-- at least one member is not in the removal queue -/
  count : ((members s).filter (fun m => s.offBoarding.contains m)).length ≤ s.voters.length

/-! ### the invariant is satisfiable -/

def exampleState : State :=
  { params := { electingPeriod := 600, acceptProposerTimeout := 60 }
    proposer := "p", voters := ["v1", "v2", "v3"], epoch := 7, lastElected := 0, accepted := true, seq := 3,
    randao := [], pubkeys := []
    recs := [("p", ⟨[1], [1], .activated, 0⟩), ("v1", ⟨[2], [2], .activated, 0⟩),
             ("v2", ⟨[3], [3], .offBoarding, 5⟩), ("v3", ⟨[4], [4], .activated, 1⟩),
             ("n1", ⟨[5], [5], .onBoarding, 6⟩), ("n2", ⟨[6], [6], .pending, 6⟩),
             ("x", ⟨[7], [7], .offBoarding, 6⟩)]
    onBoarding := ["n1"], offBoarding := ["v2", "x"] }

example : GroupInv exampleState := by
  constructor <;> decide

/-! ### general consequences -/

theorem filter_nil_contains (l : List String) : l.filter (fun m => ([] : List String).contains m) = [] := by
  apply List.filter_eq_nil_iff.mpr; intro a _; simp

theorem GroupInv.proposer_not_voter {s : State} (h : GroupInv s) : s.proposer ∉ s.voters :=
  (List.nodup_cons.mp h.nodup).1

theorem GroupInv.voters_nodup {s : State} (h : GroupInv s) : s.voters.Nodup :=
  (List.nodup_cons.mp h.nodup).2

/-- a member is never queued for joining -/
theorem GroupInv.member_not_onBoarding {s : State} (h : GroupInv s) {m : String} (hm : m ∈ members s) :
    m ∉ s.onBoarding := by
  intro hon
  have h1 := h.onRec m hon
  rcases h.memberRec m hm with h2 | h2 <;> rw [h1] at h2 <;> cases h2

/-- **at least one member is active** (activated and not awaiting removal) -/
theorem GroupInv.exists_active {s : State} (h : GroupInv s) :
    ∃ m ∈ members s, m ∉ s.offBoarding ∧ stat s.recs m = some .activated := by
  have hlt : ((members s).filter (fun m => s.offBoarding.contains m)).length < (members s).length := by
    have := h.count
    show _ < (s.proposer :: s.voters).length
    rw [List.length_cons]; exact Nat.lt_succ_of_le this
  obtain ⟨m, hm, hc⟩ := exists_not_of_filter_length_lt _ _ hlt
  have hno : m ∉ s.offBoarding := by simpa using hc
  refine ⟨m, hm, hno, ?_⟩
  rcases h.memberRec m hm with h2 | h2
  · exact h2
  · exact absurd (h.offListed m hm h2) hno

/-- the invariant reads only proposer, voters, records (through their status) and the two queues -/
theorem GroupInv.of_stat_eq {s s' : State} (h : GroupInv s)
    (hp : s'.proposer = s.proposer) (hv : s'.voters = s.voters)
    (hon : s'.onBoarding = s.onBoarding) (hoff : s'.offBoarding = s.offBoarding)
    (hst : ∀ m, (m ∈ members s ∨ m ∈ s.onBoarding ∨ m ∈ s.offBoarding) → stat s'.recs m = stat s.recs m) :
    GroupInv s' := by
  have hm : members s' = members s := by unfold members; rw [hp, hv]
  constructor
  · rw [hm]; exact h.nodup
  · rw [hm]; intro m hmm; rw [hst m (Or.inl hmm)]; exact h.memberRec m hmm
  · rw [hon]; intro m hmm; rw [hst m (Or.inr (Or.inl hmm))]; exact h.onRec m hmm
  · rw [hon]; exact h.onNodup
  · rw [hoff]; intro m hmm; rw [hst m (Or.inr (Or.inr hmm))]; exact h.offRec m hmm
  · rw [hoff]; exact h.offNodup
  · rw [hm, hoff]; intro m hmm; rw [hst m (Or.inl hmm)]; exact h.offListed m hmm
  · rw [hm, hoff, hv]; exact h.count

theorem GroupInv.congr {s s' : State} (h : GroupInv s)
    (hp : s'.proposer = s.proposer) (hv : s'.voters = s.voters) (hr : s'.recs = s.recs)
    (hon : s'.onBoarding = s.onBoarding) (hoff : s'.offBoarding = s.offBoarding) : GroupInv s' :=
  h.of_stat_eq hp hv hon hoff (fun _ _ => by rw [hr])

/-- every listed key (member or queued) has a record -/
theorem GroupInv.listed_isSome {s : State} (h : GroupInv s) {m : String}
    (hm : m ∈ members s ∨ m ∈ s.onBoarding ∨ m ∈ s.offBoarding) : (stat s.recs m).isSome := by
  rcases hm with hm | hm | hm
  · rcases h.memberRec m hm with h2 | h2 <;> rw [h2] <;> rfl
  · rw [h.onRec m hm]; rfl
  · rw [h.offRec m hm]; rfl

/-! ### what an election does (no invariant needed) -/

/-- the effect of an election on the group -/
structure Elected (s s' : State) (now : Int) : Prop where
  /-- records: removal queue erased, joiners activated, everything else untouched -/
  recs : ∀ k, stat s'.recs k =
    if k ∈ s.offBoarding then none
    else if k ∈ s.onBoarding ∧ (stat s.recs k).isSome then some .activated else stat s.recs k
  /-- the new group is a rearrangement of old members plus joiners, minus the removal queue -/
  perm : (members s').Perm ((s.proposer :: (s.voters ++ s.onBoarding)).filter (fun v => !s.offBoarding.contains v))
  onB : s'.onBoarding = []
  offB : s'.offBoarding = []
  epoch : s'.epoch = (s.epoch + 1) % two64
  last : s'.lastElected = now
  rest : s'.params = s.params ∧ s'.seq = s.seq ∧ s'.randao = s.randao ∧ s'.pubkeys = s.pubkeys

theorem endBlocker_elected (c : Crypto) (s s' : State) (now : Int) (hdue : electionDue s now = true)
    (h : endBlocker c s now = .ok s') : Elected s s' now := by
  unfold endBlocker at h
  rw [hdue] at h
  simp only [Bool.not_true, Bool.false_eq_true, if_false] at h
  rw [ite_notEmpty_append, ite_notEmpty_filter] at h
  simp only [ite_clear_on, ite_clear_off] at h
  have hrecsOf : ∀ recs1, List.foldlM (fun (recs : List (String × Voter)) v =>
        match lookup recs v with
        | some r => some (Relayer.insert recs v { r with status := .activated })
        | none => none) s.recs s.onBoarding = some recs1 →
      ∀ k, stat (List.foldl erase recs1 s.offBoarding) k =
        if k ∈ s.offBoarding then none
        else if k ∈ s.onBoarding ∧ (stat s.recs k).isSome then some .activated else stat s.recs k := by
    intro recs1 hfold k
    rw [stat_eraseAll, activate_fold_some _ (fun _ _ => rfl) _ _ _ hfold]
  generalize hNV : List.filter (fun v => !s.offBoarding.contains v) (s.voters ++ s.onBoarding) = NV at h
  split at h
  · cases h
  · rename_i recs1 hfold
    have hrecs := hrecsOf recs1 hfold
    by_cases hrem : s.offBoarding.contains s.proposer = true
    · have hne : (!s.offBoarding.isEmpty) = true := notEmpty_of_contains _ _ hrem
      simp only [hne, hrem, and_self, true_and, if_true] at h
      split at h
      · cases h
      · rename_i hemp
        cases h
        refine ⟨hrecs, ?_, rfl, rfl, rfl, rfl, rfl, rfl, rfl, rfl⟩
        show (NV.head! :: NV.tail).Perm _
        rw [head_tail_of_ne_nil NV (by simpa using hemp), List.filter_cons]
        simp only [hrem, Bool.not_true, Bool.false_eq_true, if_false]
        rw [hNV]
    · simp only [hrem, and_false, false_and, if_false, Bool.false_eq_true] at h
      have hrem' : s.proposer ∉ s.offBoarding := by simpa using hrem
      have hfil : (s.proposer :: (s.voters ++ s.onBoarding)).filter (fun v => !s.offBoarding.contains v)
          = s.proposer :: NV := by
        rw [List.filter_cons, hNV]
        simp [hrem']
      split at h
      · cases h
        refine ⟨hrecs, ?_, rfl, rfl, rfl, rfl, rfl, rfl, rfl, rfl⟩
        rw [hfil]; exact List.Perm.refl _
      · rename_i hn
        cases h
        refine ⟨hrecs, ?_, rfl, rfl, rfl, rfl, rfl, rfl, rfl, rfl⟩
        rw [hfil]
        have hidx : (if NV.length > 1 then beToNat (c.sha256 (s.randao ++ le64 ((s.epoch + 1) % two64))) % NV.length else 0)
            < NV.length := by
          split
          · exact Nat.mod_lt _ (by omega)
          · omega
        show (NV[_]! :: NV.set _ s.proposer).Perm _
        rw [getElem!_pos NV _ hidx]
        exact getElem_set_perm _ _ _ hidx

/-! ### 3. the end-of-block logic never fails -/

/-- the removal queue never swallows the whole group: some voter survives when the proposer goes -/
theorem GroupInv.survivor {s : State} (h : GroupInv s) (hrem : s.offBoarding.contains s.proposer = true) :
    (List.filter (fun v => !s.offBoarding.contains v) (s.voters ++ s.onBoarding)).isEmpty = false := by
  obtain ⟨m, hm, hno, _⟩ := h.exists_active
  have hmp : m ≠ s.proposer := by
    intro e; subst e; exact hno (by simpa using hrem)
  have hmv : m ∈ s.voters := by
    rcases List.mem_cons.mp hm with e | e
    · exact absurd e hmp
    · exact e
  have : m ∈ List.filter (fun v => !s.offBoarding.contains v) (s.voters ++ s.onBoarding) := by
    rw [List.mem_filter]
    exact ⟨List.mem_append_left _ hmv, by simpa using hno⟩
  cases hl : List.filter (fun v => !s.offBoarding.contains v) (s.voters ++ s.onBoarding) with
  | nil => rw [hl] at this; cases this
  | cons a t => rfl

/-- **EndBlocker never fails** on a well-formed group: neither the missing-record error nor
    "delete too many voters" is reachable. -/
theorem endBlocker_never_fails (c : Crypto) (s : State) (now : Int) (hinv : GroupInv s) :
    ∃ s', endBlocker c s now = .ok s' := by
  unfold endBlocker
  by_cases hdue : electionDue s now = true
  · rw [hdue]
    simp only [Bool.not_true, Bool.false_eq_true, if_false]
    rw [ite_notEmpty_append, ite_notEmpty_filter]
    generalize hf : List.foldlM (m := Option) _ s.recs s.onBoarding = res
    have hres : ∃ recs1, res = some recs1 := by
      rw [← hf]
      obtain ⟨recs1, hfold, _⟩ := activate_fold_spec _ (fun _ _ => rfl) s.onBoarding s.recs
        (fun k hk => hinv.listed_isSome (Or.inr (Or.inl hk)))
      exact ⟨recs1, hfold⟩
    obtain ⟨recs1, rfl⟩ := hres
    dsimp only
    have hnot : ¬ ((!s.offBoarding.isEmpty) = true ∧ s.offBoarding.contains s.proposer = true ∧
        (List.filter (fun v => !s.offBoarding.contains v) (s.voters ++ s.onBoarding)).isEmpty = true) := by
      rintro ⟨_, hrem, hemp⟩
      rw [hinv.survivor hrem] at hemp
      cases hemp
    rw [if_neg hnot]
    by_cases hrem : s.offBoarding.contains s.proposer = true
    · rw [if_pos hrem]; exact ⟨_, rfl⟩
    · rw [if_neg hrem]
      simp only [hrem, and_false, if_false, Bool.false_eq_true]
      split <;> exact ⟨_, rfl⟩
  · have : electionDue s now = false := by simpa using hdue
    rw [this]
    exact ⟨s, rfl⟩

/-! ### 2. preservation -/

/-- EndBlocker keeps the group well formed -/
theorem endBlocker_preserves (c : Crypto) (s s' : State) (now : Int) (hinv : GroupInv s)
    (h : endBlocker c s now = .ok s') : GroupInv s' := by
  by_cases hdue : electionDue s now = true
  · have e := endBlocker_elected c s s' now hdue h
    -- the candidate list: old members and joiners, minus the removal queue
    have hdisj : ∀ a ∈ s.proposer :: s.voters, ∀ b ∈ s.onBoarding, a ≠ b := by
      intro a ha b hb hab
      subst hab
      exact hinv.member_not_onBoarding ha hb
    have hnd : (s.proposer :: (s.voters ++ s.onBoarding)).Nodup := by
      have : ((s.proposer :: s.voters) ++ s.onBoarding).Nodup :=
        List.nodup_append.mpr ⟨hinv.nodup, hinv.onNodup, hdisj⟩
      simpa using this
    have hmem : ∀ m ∈ members s', (m ∈ members s ∨ m ∈ s.onBoarding) ∧ m ∉ s.offBoarding := by
      intro m hm
      have := (e.perm.mem_iff).mp hm
      rw [List.mem_filter] at this
      obtain ⟨h1, h2⟩ := this
      refine ⟨?_, by simpa using h2⟩
      rcases List.mem_cons.mp h1 with e1 | e1
      · exact Or.inl (e1 ▸ List.mem_cons_self ..)
      · rcases List.mem_append.mp e1 with e2 | e2
        · exact Or.inl (List.mem_cons_of_mem _ e2)
        · exact Or.inr e2
    have hact : ∀ m ∈ members s', stat s'.recs m = some .activated := by
      intro m hm
      obtain ⟨h1, h2⟩ := hmem m hm
      rw [e.recs m, if_neg h2]
      rcases h1 with h1 | h1
      · have hno : m ∉ s.onBoarding := hinv.member_not_onBoarding h1
        rw [if_neg (fun hc => hno hc.1)]
        rcases hinv.memberRec m h1 with h3 | h3
        · exact h3
        · exact absurd (hinv.offListed m h1 h3) h2
      · rw [if_pos ⟨h1, hinv.listed_isSome (Or.inr (Or.inl h1))⟩]
    constructor
    · exact (e.perm.nodup_iff).mpr (hnd.filter _)
    · intro m hm; exact Or.inl (hact m hm)
    · rw [e.onB]; intro m hm; cases hm
    · rw [e.onB]; exact List.nodup_nil
    · rw [e.offB]; intro m hm; cases hm
    · rw [e.offB]; exact List.nodup_nil
    · intro m hm hs; rw [hact m hm] at hs; cases hs
    · rw [e.offB, filter_nil_contains]; exact Nat.zero_le _
  · have hd : electionDue s now = false := by simpa using hdue
    unfold endBlocker at h
    rw [hd] at h
    simp only [Bool.not_false, if_true] at h
    cases h; exact hinv

/-- inserting a record under a key that had none keeps the group well formed -/
theorem insert_fresh_preserves (s : State) (addr : String) (v : Voter) (hinv : GroupInv s)
    (hnone : lookup s.recs addr = none) : GroupInv { s with recs := Relayer.insert s.recs addr v } := by
  refine hinv.of_stat_eq (s' := { s with recs := Relayer.insert s.recs addr v }) rfl rfl rfl rfl ?_
  intro m hm
  show stat (Relayer.insert s.recs addr v) m = _
  rw [stat_insert]
  have hsome := hinv.listed_isSome hm
  have : m ≠ addr := by
    intro e; subst e
    rw [stat_none_iff.mpr hnone] at hsome; cases hsome
  rw [if_neg this]

/-- one accepted removal request -/
theorem remove_one_preserves (s : State) (addr : String) (v : Voter) (hinv : GroupInv s)
    (hl : lookup s.recs addr = some v) (hact : v.status = .activated)
    (hroom : s.offBoarding.length + 1 ≤ s.voters.length) :
    GroupInv { s with recs := Relayer.insert s.recs addr { v with status := .offBoarding },
                      offBoarding := s.offBoarding ++ [addr] } := by
  have hst : stat s.recs addr = some .activated := by rw [stat_some_of_lookup hl, hact]
  have hnew : ∀ m, stat (Relayer.insert s.recs addr { v with status := .offBoarding }) m
      = if m = addr then some .offBoarding else stat s.recs m := by
    intro m; rw [stat_insert]
  have hnoff : addr ∉ s.offBoarding := by
    intro hc; have := hinv.offRec addr hc; rw [hst] at this; cases this
  constructor
  · exact hinv.nodup
  · intro m hm
    show stat (Relayer.insert _ _ _) m = _ ∨ stat (Relayer.insert _ _ _) m = _
    rw [hnew]
    by_cases e : m = addr
    · rw [if_pos e]; exact Or.inr rfl
    · rw [if_neg e]; exact hinv.memberRec m hm
  · intro m hm
    show stat (Relayer.insert _ _ _) m = _
    rw [hnew]
    have e : m ≠ addr := by
      intro e; subst e
      have := hinv.onRec m hm; rw [hst] at this; cases this
    rw [if_neg e]; exact hinv.onRec m hm
  · exact hinv.onNodup
  · intro m hm
    show stat (Relayer.insert _ _ _) m = _
    rw [hnew]
    by_cases e : m = addr
    · rw [if_pos e]
    · rw [if_neg e]
      have hm' : m ∈ s.offBoarding ++ [addr] := hm
      rcases List.mem_append.mp hm' with h1 | h1
      · exact hinv.offRec m h1
      · exact absurd (List.mem_singleton.mp h1) e
  · show (s.offBoarding ++ [addr]).Nodup
    refine List.nodup_append.mpr ⟨hinv.offNodup, (by simp), ?_⟩
    intro a ha b hb hab
    rw [List.mem_singleton.mp hb] at hab
    exact hnoff (hab ▸ ha)
  · intro m hm hs
    show m ∈ s.offBoarding ++ [addr]
    have hs' : stat (Relayer.insert s.recs addr { v with status := .offBoarding }) m = some .offBoarding := hs
    rw [hnew] at hs'
    by_cases e : m = addr
    · exact List.mem_append_right _ (List.mem_singleton.mpr e)
    · rw [if_neg e] at hs'
      exact List.mem_append_left _ (hinv.offListed m hm hs')
  · show ((members s).filter (fun m => (s.offBoarding ++ [addr]).contains m)).length ≤ s.voters.length
    have := filter_contains_length_le (members s) (s.offBoarding ++ [addr]) hinv.nodup
    rw [List.length_append, List.length_singleton] at this
    omega

/-- the add loop of ProcessRelayerRequest -/
theorem adds_preserve (c : Crypto) (height : Nat) (adds : List AddReq) (s : State) (hinv : GroupInv s) :
    let s1 := adds.foldl (fun (s : State) a =>
      let addr := c.addrOf a.voter
      if (lookup s.recs addr).isSome then s
      else { s with recs := Relayer.insert s.recs addr { address := a.voter, voteKey := a.keyHash, status := .pending, height := height } }) s
    GroupInv s1 ∧ s1.proposer = s.proposer ∧ s1.voters = s.voters ∧ s1.onBoarding = s.onBoarding ∧
      s1.offBoarding = s.offBoarding := by
  induction adds generalizing s with
  | nil => exact ⟨hinv, rfl, rfl, rfl, rfl⟩
  | cons a t ih =>
    intro s1
    have hstep : GroupInv (if (lookup s.recs (c.addrOf a.voter)).isSome then s
        else { s with recs := Relayer.insert s.recs (c.addrOf a.voter) { address := a.voter, voteKey := a.keyHash, status := .pending, height := height } }) := by
      split
      · exact hinv
      · rename_i hn
        exact insert_fresh_preserves s _ _ hinv (by simpa using hn)
    obtain ⟨i1, i2, i3, i4, i5⟩ := ih _ hstep
    refine ⟨i1, ?_, ?_, ?_, ?_⟩
    · exact i2.trans (by split <;> rfl)
    · exact i3.trans (by split <;> rfl)
    · exact i4.trans (by split <;> rfl)
    · exact i5.trans (by split <;> rfl)

/-- the remove loop of ProcessRelayerRequest: `active` under-approximates the number of members not
    in the removal queue, and a removal is applied only while it stays ≥ 1 -/
theorem removes_preserve (c : Crypto) (removes : List Bytes) (s : State) (active : Int) (hinv : GroupInv s)
    (hact : active ≤ (s.voters.length : Int) + 1 - (s.offBoarding.length : Int)) :
    GroupInv (processRequest.go c removes s active) := by
  induction removes generalizing s active with
  | nil => exact hinv
  | cons rm rest ih =>
    unfold processRequest.go
    dsimp only
    split
    · exact ih s active hinv hact
    · rename_i v hl
      split
      · exact ih s active hinv hact
      · rename_i hst
        have hst' : v.status = .activated := by simpa using hst
        split
        · exact hinv
        · rename_i hge
          have hroom : s.offBoarding.length + 1 ≤ s.voters.length := by omega
          apply ih _ _ (remove_one_preserves s _ v hinv hl hst' hroom)
          show active - 1 ≤ (s.voters.length : Int) + 1 - ((s.offBoarding ++ [c.addrOf rm]).length : Int)
          rw [List.length_append, List.length_singleton]
          omega

/-- **ProcessRelayerRequest keeps the group well formed** — for every list of add and remove
    requests and every address encoding (no injectivity of `addrOf` is needed: the code keys every
    check on the *encoded* address, and an add is skipped whenever a record already exists). -/
theorem processRequest_preserves (c : Crypto) (s : State) (height : Nat) (adds : List AddReq) (removes : List Bytes)
    (hinv : GroupInv s) : GroupInv (processRequest c s height adds removes) := by
  unfold processRequest
  obtain ⟨i1, _, i3, _, i5⟩ := adds_preserve c height adds s hinv
  dsimp only
  split
  · exact i1
  · apply removes_preserve c removes _ _ i1
    exact Int.le_refl _

/-- queueing a key that is neither member nor queued (its record is pending) for removal -/
theorem enqueue_off_preserves (s : State) (addr : String) (v : Voter) (hinv : GroupInv s)
    (hpend : stat s.recs addr = some .pending) (hv : v.status = .offBoarding) :
    GroupInv { s with recs := Relayer.insert s.recs addr v, offBoarding := s.offBoarding ++ [addr] } := by
  have hnew : ∀ m, stat (Relayer.insert s.recs addr v) m
      = if m = addr then some .offBoarding else stat s.recs m := by
    intro m; rw [stat_insert, hv]
  have hnmem : addr ∉ members s := by
    intro hc; rcases hinv.memberRec addr hc with h | h <;> rw [hpend] at h <;> cases h
  have hnon : addr ∉ s.onBoarding := by
    intro hc; have := hinv.onRec addr hc; rw [hpend] at this; cases this
  have hnoff : addr ∉ s.offBoarding := by
    intro hc; have := hinv.offRec addr hc; rw [hpend] at this; cases this
  have hne1 : ∀ m ∈ members s, m ≠ addr := fun m hm e => hnmem (e ▸ hm)
  have hne2 : ∀ m ∈ s.onBoarding, m ≠ addr := fun m hm e => hnon (e ▸ hm)
  have hne3 : ∀ m ∈ s.offBoarding, m ≠ addr := fun m hm e => hnoff (e ▸ hm)
  constructor
  · exact hinv.nodup
  · intro m hm
    show stat (Relayer.insert _ _ _) m = _ ∨ stat (Relayer.insert _ _ _) m = _
    rw [hnew, if_neg (hne1 m hm)]; exact hinv.memberRec m hm
  · intro m hm
    show stat (Relayer.insert _ _ _) m = _
    rw [hnew, if_neg (hne2 m hm)]; exact hinv.onRec m hm
  · exact hinv.onNodup
  · intro m hm
    show stat (Relayer.insert _ _ _) m = _
    rw [hnew]
    by_cases e : m = addr
    · rw [if_pos e]
    · rw [if_neg e]
      have hm' : m ∈ s.offBoarding ++ [addr] := hm
      rcases List.mem_append.mp hm' with h1 | h1
      · exact hinv.offRec m h1
      · exact absurd (List.mem_singleton.mp h1) e
  · show (s.offBoarding ++ [addr]).Nodup
    refine List.nodup_append.mpr ⟨hinv.offNodup, (by simp), ?_⟩
    intro a ha b hb hab
    rw [List.mem_singleton.mp hb] at hab
    exact hnoff (hab ▸ ha)
  · intro m hm hs
    show m ∈ s.offBoarding ++ [addr]
    have hs' : stat (Relayer.insert s.recs addr v) m = some .offBoarding := hs
    rw [hnew, if_neg (hne1 m hm)] at hs'
    exact List.mem_append_left _ (hinv.offListed m hm hs')
  · show ((members s).filter (fun m => (s.offBoarding ++ [addr]).contains m)).length ≤ s.voters.length
    have : (members s).filter (fun m => (s.offBoarding ++ [addr]).contains m)
        = (members s).filter (fun m => s.offBoarding.contains m) := by
      apply List.filter_congr
      intro m hm
      have : m ≠ addr := fun e => hnmem (e ▸ hm)
      simp [this]
    rw [this]; exact hinv.count

/-- queueing a key whose record is pending for joining -/
theorem enqueue_on_preserves (s : State) (addr : String) (v : Voter) (hinv : GroupInv s)
    (hpend : stat s.recs addr = some .pending) (hv : v.status = .onBoarding) :
    GroupInv { s with recs := Relayer.insert s.recs addr v, onBoarding := s.onBoarding ++ [addr] } := by
  have hnew : ∀ m, stat (Relayer.insert s.recs addr v) m
      = if m = addr then some .onBoarding else stat s.recs m := by
    intro m; rw [stat_insert, hv]
  have hnmem : addr ∉ members s := by
    intro hc; rcases hinv.memberRec addr hc with h | h <;> rw [hpend] at h <;> cases h
  have hnon : addr ∉ s.onBoarding := by
    intro hc; have := hinv.onRec addr hc; rw [hpend] at this; cases this
  have hnoff : addr ∉ s.offBoarding := by
    intro hc; have := hinv.offRec addr hc; rw [hpend] at this; cases this
  have hne1 : ∀ m ∈ members s, m ≠ addr := fun m hm e => hnmem (e ▸ hm)
  have hne2 : ∀ m ∈ s.onBoarding, m ≠ addr := fun m hm e => hnon (e ▸ hm)
  have hne3 : ∀ m ∈ s.offBoarding, m ≠ addr := fun m hm e => hnoff (e ▸ hm)
  constructor
  · exact hinv.nodup
  · intro m hm
    show stat (Relayer.insert _ _ _) m = _ ∨ stat (Relayer.insert _ _ _) m = _
    rw [hnew, if_neg (hne1 m hm)]; exact hinv.memberRec m hm
  · intro m hm
    show stat (Relayer.insert _ _ _) m = _
    rw [hnew]
    by_cases e : m = addr
    · rw [if_pos e]
    · rw [if_neg e]
      have hm' : m ∈ s.onBoarding ++ [addr] := hm
      rcases List.mem_append.mp hm' with h1 | h1
      · exact hinv.onRec m h1
      · exact absurd (List.mem_singleton.mp h1) e
  · show (s.onBoarding ++ [addr]).Nodup
    refine List.nodup_append.mpr ⟨hinv.onNodup, (by simp), ?_⟩
    intro a ha b hb hab
    rw [List.mem_singleton.mp hb] at hab
    exact hnon (hab ▸ ha)
  · intro m hm
    show stat (Relayer.insert _ _ _) m = _
    rw [hnew, if_neg (hne3 m hm)]; exact hinv.offRec m hm
  · exact hinv.offNodup
  · intro m hm hs
    have hs' : stat (Relayer.insert s.recs addr v) m = some .offBoarding := hs
    rw [hnew, if_neg (hne1 m hm)] at hs'
    exact hinv.offListed m hm hs'
  · exact hinv.count

theorem verifyNonProposal_eq (s s' : State) (p : String) (h : verifyNonProposal s p = .ok s') :
    s.proposer = p ∧ s' = { s with accepted := true } := by
  unfold verifyNonProposal at h
  split at h
  · cases h
  · rename_i hp
    cases h
    exact ⟨Classical.not_not.mp hp, rfl⟩

theorem verifyNonProposal_preserves (s s' : State) (p : String) (hinv : GroupInv s)
    (h : verifyNonProposal s p = .ok s') : GroupInv s' := by
  rw [(verifyNonProposal_eq s s' p h).2]
  exact hinv.congr rfl rfl rfl rfl rfl

theorem acceptProposer_preserves (s s' : State) (p : String) (e : Nat) (now : Int) (hinv : GroupInv s)
    (h : acceptProposer s p e now = .ok s') : GroupInv s' := by
  unfold acceptProposer at h
  repeat (split at h; · cases h)
  cases h
  exact hinv.congr rfl rfl rfl rfl rfl

theorem verifyProposal_preserves (c : Crypto) (chain : String) (s s' : State) (m : VoteMsg) (q : Nat)
    (hinv : GroupInv s) (h : verifyProposal c chain s m = .ok (s', q)) : GroupInv s' := by
  rw [(C01.C01_accept_sound c chain s m s' q h).2.1]
  exact hinv.congr rfl rfl rfl rfl rfl

theorem consumeVote_preserves (c : Crypto) (s : State) (seq : Nat) (sig : Bytes) (hinv : GroupInv s) :
    GroupInv (consumeVote c s seq sig) :=
  hinv.congr rfl rfl rfl rfl rfl

/-! ### 6. a voter joins only by proof of possession, and votes only from the next election -/

/-- what a successful NewVoter establishes -/
structure JoinedByProof (c : Crypto) (chain : String) (s s' : State) (m : NewVoterMsg)
    (has : String → Bool) (acc : Option String) : Prop where
  /-- submitted by the current proposer -/
  byProposer : m.proposer = s.proposer
  /-- the execution layer registered this address (record pending) with this key hash -/
  registered : ∃ v, lookup s.recs (c.addrOf (c.hash160 m.txKey)) = some v ∧ v.status = .pending ∧
    c.sha256 m.blsKey = v.voteKey ∧
    -- both proofs of possession verify over a document bound to chain, epoch, proposer and registration
    c.ecdsaVerify m.txKey (voteSignDoc c "Relayer/NewVoter" chain m.proposer 0 s.epoch
        (le64 v.height ++ c.hash160 m.txKey ++ v.voteKey)) m.txProof = true ∧
    c.blsVerify m.blsKey (voteSignDoc c "Relayer/NewVoter" chain m.proposer 0 s.epoch
        (le64 v.height ++ c.hash160 m.txKey ++ v.voteKey)) m.blsProof = true ∧
    -- the record now carries the proved BLS key, queued for joining (fresh account) or discarded
    -- at the next election (an account already exists for the address)
    (has (c.addrOf (c.hash160 m.txKey)) = false →
      s'.recs = Relayer.insert s.recs (c.addrOf (c.hash160 m.txKey)) { v with voteKey := m.blsKey, status := .onBoarding } ∧
      s'.onBoarding = s.onBoarding ++ [c.addrOf (c.hash160 m.txKey)] ∧ s'.offBoarding = s.offBoarding ∧
      acc = some (c.addrOf (c.hash160 m.txKey))) ∧
    (has (c.addrOf (c.hash160 m.txKey)) = true →
      s'.recs = Relayer.insert s.recs (c.addrOf (c.hash160 m.txKey)) { v with voteKey := m.blsKey, status := .offBoarding } ∧
      s'.offBoarding = s.offBoarding ++ [c.addrOf (c.hash160 m.txKey)] ∧ s'.onBoarding = s.onBoarding ∧
      acc = none)
  wellFormed : newVoterValidate m = true
  /-- the quorum is unchanged: the joiner takes part only from the next election -/
  voters : s'.voters = s.voters
  proposer : s'.proposer = s.proposer
  epoch : s'.epoch = s.epoch
  seq : s'.seq = s.seq

theorem newVoter_joined (c : Crypto) (chain : String) (s s' : State) (m : NewVoterMsg) (has : String → Bool)
    (acc : Option String) (h : newVoter c chain s m has = .ok (s', acc)) :
    JoinedByProof c chain s s' m has acc := by
  unfold newVoter at h
  split at h; · cases h
  rename_i hval
  split at h
  · cases h
  · cases h
  · rename_i s1 hnp
    obtain ⟨hp, hs1⟩ := verifyNonProposal_eq s s1 m.proposer hnp
    subst hs1
    dsimp only at h
    split at h; · cases h
    rename_i v hl
    split at h; · cases h
    rename_i hpend
    split at h; · cases h
    rename_i hkey
    split at h; · cases h
    rename_i htx
    split at h; · cases h
    rename_i hbls
    have hpend' : v.status = .pending := Classical.not_not.mp hpend
    have hkey' : c.sha256 m.blsKey = v.voteKey := Classical.not_not.mp hkey
    have htx' : c.ecdsaVerify m.txKey (voteSignDoc c "Relayer/NewVoter" chain m.proposer 0 s.epoch
        (le64 v.height ++ c.hash160 m.txKey ++ v.voteKey)) m.txProof = true := by simpa using htx
    have hbls' : c.blsVerify m.blsKey (voteSignDoc c "Relayer/NewVoter" chain m.proposer 0 s.epoch
        (le64 v.height ++ c.hash160 m.txKey ++ v.voteKey)) m.blsProof = true := by simpa using hbls
    have hval' : newVoterValidate m = true := by simpa using hval
    split at h
    · rename_i hhas
      simp only [Outcome.ok.injEq, Prod.mk.injEq] at h
      obtain ⟨h1, h2⟩ := h
      subst h1; subst h2
      exact ⟨hp.symm, ⟨v, hl, hpend', hkey', htx', hbls',
        fun hf => (by rw [hf] at hhas; cases hhas), fun _ => ⟨rfl, rfl, rfl, rfl⟩⟩, hval', rfl, rfl, rfl, rfl⟩
    · rename_i hhas
      simp only [Outcome.ok.injEq, Prod.mk.injEq] at h
      obtain ⟨h1, h2⟩ := h
      subst h1; subst h2
      exact ⟨hp.symm, ⟨v, hl, hpend', hkey', htx', hbls',
        fun _ => ⟨rfl, rfl, rfl, rfl⟩, fun ht => absurd ht hhas⟩, hval', rfl, rfl, rfl, rfl⟩

/-- **join by proof** (flat form): a successful NewVoter was submitted by the proposer for a
    registered, still pending address whose key hash matches the BLS key; both proofs of possession
    verify over a document bound to chain, epoch, proposer and the registration (height, address,
    key hash); proposer and voters are unchanged, so the joiner is in no quorum before an election -/
theorem newVoter_by_proof (c : Crypto) (chain : String) (s s' : State) (m : NewVoterMsg) (has : String → Bool)
    (acc : Option String) (h : newVoter c chain s m has = .ok (s', acc)) :
    m.proposer = s.proposer ∧
    ∃ v, lookup s.recs (c.addrOf (c.hash160 m.txKey)) = some v ∧ v.status = .pending ∧
      c.sha256 m.blsKey = v.voteKey ∧
      c.ecdsaVerify m.txKey (voteSignDoc c "Relayer/NewVoter" chain m.proposer 0 s.epoch
        (le64 v.height ++ c.hash160 m.txKey ++ v.voteKey)) m.txProof = true ∧
      c.blsVerify m.blsKey (voteSignDoc c "Relayer/NewVoter" chain m.proposer 0 s.epoch
        (le64 v.height ++ c.hash160 m.txKey ++ v.voteKey)) m.blsProof = true ∧
      s'.voters = s.voters ∧ s'.proposer = s.proposer := by
  have j := newVoter_joined c chain s s' m has acc h
  obtain ⟨v, a1, a2, a3, a4, a5, _, _⟩ := j.registered
  exact ⟨j.byProposer, v, a1, a2, a3, a4, a5, j.voters, j.proposer⟩

/-- NewVoter keeps the group well formed -/
theorem newVoter_preserves (c : Crypto) (chain : String) (s s' : State) (m : NewVoterMsg) (has : String → Bool)
    (acc : Option String) (hinv : GroupInv s) (h : newVoter c chain s m has = .ok (s', acc)) : GroupInv s' := by
  have j := newVoter_joined c chain s s' m has acc h
  obtain ⟨v, hl, hpend, _, _, _, hfresh, hexist⟩ := j.registered
  have hst : stat s.recs (c.addrOf (c.hash160 m.txKey)) = some .pending := by
    rw [stat_some_of_lookup hl, hpend]
  cases hh : has (c.addrOf (c.hash160 m.txKey)) with
  | false =>
    obtain ⟨r1, r2, r3, _⟩ := hfresh hh
    have := enqueue_on_preserves s _ { v with voteKey := m.blsKey, status := .onBoarding } hinv hst rfl
    exact this.congr j.proposer j.voters r1 r2 r3
  | true =>
    obtain ⟨r1, r2, r3, _⟩ := hexist hh
    have := enqueue_off_preserves s _ { v with voteKey := m.blsKey, status := .offBoarding } hinv hst rfl
    exact this.congr j.proposer j.voters r1 r3 r2

/-! ### 4. election timing -/

/-- **when an election is due**: the electing period has elapsed, or the proposer has not accepted
    within the (non-zero) accept timeout -/
theorem electionDue_iff (s : State) (now : Int) :
    electionDue s now = true ↔
      (now - s.lastElected ≥ s.params.electingPeriod ∨
        (¬ s.accepted ∧ s.params.acceptProposerTimeout ≠ 0 ∧ now - s.lastElected ≥ s.params.acceptProposerTimeout)) := by
  unfold electionDue
  dsimp only
  rw [Bool.not_eq_true', decide_eq_false_iff_not]
  constructor
  · intro h
    by_cases h1 : now - s.lastElected < s.params.electingPeriod
    · right
      by_cases ha : s.accepted = true
      · exact absurd ⟨h1, Or.inl ha⟩ h
      · by_cases ht : s.params.acceptProposerTimeout = 0
        · exact absurd ⟨h1, Or.inr (Or.inl ht)⟩ h
        · by_cases hd : now - s.lastElected < s.params.acceptProposerTimeout
          · exact absurd ⟨h1, Or.inr (Or.inr hd)⟩ h
          · exact ⟨ha, ht, by omega⟩
    · left; omega
  · rintro (h | ⟨ha, ht, hd⟩) ⟨h1, h2⟩
    · omega
    · rcases h2 with h2 | h2 | h2
      · exact ha h2
      · exact ht h2
      · omega

/-- **elections happen exactly when due**: otherwise EndBlocker changes nothing; when due, the epoch
    is incremented (mod 2^64) and the election time recorded -/
theorem endBlocker_timing (c : Crypto) (s s' : State) (now : Int) (h : endBlocker c s now = .ok s') :
    (electionDue s now = false → s' = s) ∧
    (electionDue s now = true → s'.epoch = (s.epoch + 1) % two64 ∧ s'.lastElected = now) := by
  constructor
  · intro hd
    unfold endBlocker at h
    rw [hd] at h
    simp only [Bool.not_false, if_true] at h
    cases h; rfl
  · intro hd
    have e := endBlocker_elected c s s' now hd h
    exact ⟨e.epoch, e.last⟩

/-- the epoch changes only by an election -/
theorem endBlocker_epoch_iff (c : Crypto) (s s' : State) (now : Int) (h : endBlocker c s now = .ok s')
    (hw : s.epoch + 1 < two64) : s'.epoch ≠ s.epoch ↔ electionDue s now = true := by
  obtain ⟨t1, t2⟩ := endBlocker_timing c s s' now h
  cases hd : electionDue s now with
  | false => rw [t1 hd]; simp
  | true =>
    have := (t2 hd).1
    rw [Nat.mod_eq_of_lt hw] at this
    simp only [iff_true]; omega

/-! ### 5/6. who is in the group after an election -/

/-- membership after an election: exactly the old members and queued joiners that are not in the
    removal queue (no invariant needed) -/
theorem Elected.mem_iff {s s' : State} {now : Int} (e : Elected s s' now) (m : String) :
    m ∈ members s' ↔ (m ∈ members s ∨ m ∈ s.onBoarding) ∧ m ∉ s.offBoarding := by
  rw [e.perm.mem_iff, List.mem_filter]
  have : m ∈ s.proposer :: (s.voters ++ s.onBoarding) ↔ (m ∈ members s ∨ m ∈ s.onBoarding) := by
    unfold members
    simp only [List.mem_cons, List.mem_append]
    constructor
    · rintro (h | h | h)
      · exact Or.inl (Or.inl h)
      · exact Or.inl (Or.inr h)
      · exact Or.inr h
    · rintro ((h | h) | h)
      · exact Or.inl h
      · exact Or.inr (Or.inl h)
      · exact Or.inr (Or.inr h)
  rw [this]
  simp

/-- **only queued joiners are added at an election**, and nobody in the removal queue stays -/
theorem endBlocker_members (c : Crypto) (s s' : State) (now : Int) (hdue : electionDue s now = true)
    (h : endBlocker c s now = .ok s') (m : String) :
    m ∈ members s' ↔ (m ∈ members s ∨ m ∈ s.onBoarding) ∧ m ∉ s.offBoarding :=
  (endBlocker_elected c s s' now hdue h).mem_iff m

/-- a voter that was not one before the election was a queued joiner -/
theorem endBlocker_new_voter_was_onBoarding (c : Crypto) (s s' : State) (now : Int) (hdue : electionDue s now = true)
    (h : endBlocker c s now = .ok s') (m : String) (hm : m ∈ s'.voters) (hnew : m ∉ members s) :
    m ∈ s.onBoarding := by
  have := (endBlocker_members c s s' now hdue h m).mp (List.mem_cons_of_mem _ hm)
  rcases this.1 with h1 | h1
  · exact absurd h1 hnew
  · exact h1

/-- **after an election** from a well-formed group, the proposer was a member or a queued joiner,
    was not queued for removal, and is activated; and so is every voter -/
theorem endBlocker_proposer_origin (c : Crypto) (s s' : State) (now : Int) (hinv : GroupInv s)
    (hdue : electionDue s now = true) (h : endBlocker c s now = .ok s') :
    (s'.proposer ∈ members s ∨ s'.proposer ∈ s.onBoarding) ∧ s'.proposer ∉ s.offBoarding ∧
    (∀ m ∈ members s', stat s'.recs m = some .activated) ∧ s'.onBoarding = [] ∧ s'.offBoarding = [] := by
  have e := endBlocker_elected c s s' now hdue h
  have hp := (e.mem_iff s'.proposer).mp (List.mem_cons_self ..)
  have hinv' := endBlocker_preserves c s s' now hinv h
  refine ⟨hp.1, hp.2, ?_, e.onB, e.offB⟩
  intro m hm
  rcases hinv'.memberRec m hm with h1 | h1
  · exact h1
  · have := hinv'.offListed m hm h1
    rw [e.offB] at this; cases this

/-- ProcessRelayerRequest changes neither proposer nor voters nor the join queue: removals only mark
    and queue, they take effect at the next election -/
theorem processRequest_keeps_group (c : Crypto) (s : State) (height : Nat) (adds : List AddReq) (removes : List Bytes) :
    (processRequest c s height adds removes).proposer = s.proposer ∧
    (processRequest c s height adds removes).voters = s.voters ∧
    (processRequest c s height adds removes).onBoarding = s.onBoarding := by
  unfold processRequest
  have hadd : ∀ (l : List AddReq) (s : State),
      let s1 := l.foldl (fun (s : State) a =>
        let addr := c.addrOf a.voter
        if (lookup s.recs addr).isSome then s
        else { s with recs := Relayer.insert s.recs addr { address := a.voter, voteKey := a.keyHash, status := .pending, height := height } }) s
      s1.proposer = s.proposer ∧ s1.voters = s.voters ∧ s1.onBoarding = s.onBoarding := by
    intro l
    induction l with
    | nil => intro s; exact ⟨rfl, rfl, rfl⟩
    | cons a t ih =>
      intro s s1
      obtain ⟨i1, i2, i3⟩ := ih (if (lookup s.recs (c.addrOf a.voter)).isSome then s
        else { s with recs := Relayer.insert s.recs (c.addrOf a.voter) { address := a.voter, voteKey := a.keyHash, status := .pending, height := height } })
      exact ⟨i1.trans (by split <;> rfl), i2.trans (by split <;> rfl), i3.trans (by split <;> rfl)⟩
  have hgo : ∀ (l : List Bytes) (s : State) (a : Int),
      (processRequest.go c l s a).proposer = s.proposer ∧ (processRequest.go c l s a).voters = s.voters ∧
      (processRequest.go c l s a).onBoarding = s.onBoarding := by
    intro l
    induction l with
    | nil => intro s a; exact ⟨rfl, rfl, rfl⟩
    | cons x xs ih =>
      intro s a
      unfold processRequest.go
      dsimp only
      split
      · exact ih s a
      · split
        · exact ih s a
        · split
          · exact ⟨rfl, rfl, rfl⟩
          · exact ih _ _
  obtain ⟨a1, a2, a3⟩ := hadd adds s
  dsimp only
  split
  · exact ⟨a1, a2, a3⟩
  · obtain ⟨g1, g2, g3⟩ := hgo removes _ _
    exact ⟨g1.trans a1, g2.trans a2, g3.trans a3⟩

/-- **removals that would empty the group are ignored**: whatever is requested, after
    ProcessRelayerRequest some member is still activated and not queued for removal -/
theorem processRequest_keeps_active (c : Crypto) (s : State) (height : Nat) (adds : List AddReq) (removes : List Bytes)
    (hinv : GroupInv s) :
    ∃ m ∈ members s, m ∉ (processRequest c s height adds removes).offBoarding ∧
      stat (processRequest c s height adds removes).recs m = some .activated := by
  obtain ⟨m, hm, h1, h2⟩ := (processRequest_preserves c s height adds removes hinv).exists_active
  obtain ⟨k1, k2, _⟩ := processRequest_keeps_group c s height adds removes
  have : members (processRequest c s height adds removes) = members s := by
    unfold members; rw [k1, k2]
  exact ⟨m, this ▸ hm, h1, h2⟩

/-! ### 2 (cont.) any finite history -/

/-- the operations that write relayer state.  A failing message leaves the state unchanged (the
    transaction is rolled back); `vote` is what every voted handler does: VerifyProposal, then
    SetProposalSeq/UpdateRandao. -/
inductive Op where
  | request (height : Nat) (adds : List AddReq) (removes : List Bytes)
  | newVoter (chain : String) (m : NewVoterMsg) (has : String → Bool)
  | accept (p : String) (epoch : Nat) (now : Int)
  | vote (chain : String) (m : VoteMsg)
  | verify (chain : String) (m : VoteMsg)
  | consume (seq : Nat) (sig : Bytes)
  | nonProposal (p : String)
  | endBlock (now : Int)

def apply (c : Crypto) (s : State) : Op → State
  | .request h a r => processRequest c s h a r
  | .newVoter chain m has => match newVoter c chain s m has with | .ok (s', _) => s' | _ => s
  | .accept p e now => match acceptProposer s p e now with | .ok s' => s' | _ => s
  | .vote chain m => match verifyProposal c chain s m with | .ok (s', q) => consumeVote c s' q m.signature | _ => s
  | .verify chain m => match verifyProposal c chain s m with | .ok (s', _) => s' | _ => s
  | .consume q sig => consumeVote c s q sig
  | .nonProposal p => match verifyNonProposal s p with | .ok s' => s' | _ => s
  | .endBlock now => match endBlocker c s now with | .ok s' => s' | _ => s

def run (c : Crypto) (s : State) (ops : List Op) : State := ops.foldl (apply c) s

theorem apply_preserves (c : Crypto) (s : State) (op : Op) (hinv : GroupInv s) : GroupInv (apply c s op) := by
  cases op with
  | request h a r => exact processRequest_preserves c s h a r hinv
  | newVoter chain m has =>
    simp only [apply]
    split
    · rename_i s' acc hh; exact newVoter_preserves c chain s s' m has acc hinv hh
    · exact hinv
  | accept p e now =>
    simp only [apply]
    split
    · rename_i s' hh; exact acceptProposer_preserves s s' p e now hinv hh
    · exact hinv
  | vote chain m =>
    simp only [apply]
    split
    · rename_i s' q hh
      exact consumeVote_preserves c s' q m.signature (verifyProposal_preserves c chain s s' m q hinv hh)
    · exact hinv
  | verify chain m =>
    simp only [apply]
    split
    · rename_i s' q hh; exact verifyProposal_preserves c chain s s' m q hinv hh
    · exact hinv
  | consume q sig => exact consumeVote_preserves c s q sig hinv
  | nonProposal p =>
    simp only [apply]
    split
    · rename_i s' hh; exact verifyNonProposal_preserves s s' p hinv hh
    · exact hinv
  | endBlock now =>
    simp only [apply]
    split
    · rename_i s' hh; exact endBlocker_preserves c s s' now hinv hh
    · exact hinv

/-- **the group stays well formed along every finite history** of requests, messages and blocks -/
theorem run_preserves (c : Crypto) (s : State) (ops : List Op) (hinv : GroupInv s) : GroupInv (run c s ops) := by
  unfold run
  induction ops generalizing s with
  | nil => exact hinv
  | cons op rest ih => exact ih (apply c s op) (apply_preserves c s op hinv)

/-- **the end-of-block logic never fails, for any history** of add/remove requests, messages and
    earlier blocks -/
theorem run_endBlocker_never_fails (c : Crypto) (s0 : State) (ops : List Op) (now : Int) (h0 : GroupInv s0) :
    ∃ s', endBlocker c (run c s0 ops) now = .ok s' :=
  endBlocker_never_fails c _ now (run_preserves c s0 ops h0)

/-- proposer and voters change only at an election -/
theorem apply_members (c : Crypto) (s : State) (op : Op)
    (hno : ∀ now, op = .endBlock now → electionDue s now = false) : members (apply c s op) = members s := by
  cases op with
  | request h a r =>
    obtain ⟨k1, k2, _⟩ := processRequest_keeps_group c s h a r
    show members (processRequest c s h a r) = _
    unfold members; rw [k1, k2]
  | newVoter chain m has =>
    simp only [apply]
    split
    · rename_i s' acc hh
      have j := newVoter_joined c chain s s' m has acc hh
      unfold members; rw [j.proposer, j.voters]
    · rfl
  | accept p e now =>
    simp only [apply]
    split
    · rename_i s' hh
      unfold acceptProposer at hh
      repeat (split at hh; · cases hh)
      cases hh; rfl
    · rfl
  | vote chain m =>
    simp only [apply]
    split
    · rename_i s' q hh
      rw [(C01.C01_accept_sound c chain s m s' q hh).2.1]; rfl
    · rfl
  | verify chain m =>
    simp only [apply]
    split
    · rename_i s' q hh
      rw [(C01.C01_accept_sound c chain s m s' q hh).2.1]; rfl
    · rfl
  | consume q sig => rfl
  | nonProposal p =>
    simp only [apply]
    split
    · rename_i s' hh; rw [(verifyNonProposal_eq s s' p hh).2]; rfl
    · rfl
  | endBlock now =>
    simp only [apply]
    split
    · rename_i s' hh
      rw [(endBlocker_timing c s s' now hh).1 (hno now rfl)]
    · rfl

/-! ### C16 -/

/-- **C16.** Start from any well-formed group and apply any finite history of add/remove requests,
    NewVoter / AcceptProposer / voted and non-voted messages and end-of-block calls.  Then:
    the group is well formed (one proposer, a current member, activated or awaiting removal, not
    among the voters; all members distinct; some member not awaiting removal), and the end-of-block
    logic succeeds at any time. -/
theorem C16 (c : Crypto) (s0 : State) (ops : List Op) (h0 : GroupInv s0) :
    let s := run c s0 ops
    GroupInv s ∧
    s.proposer ∉ s.voters ∧ s.voters.Nodup ∧
    (stat s.recs s.proposer = some .activated ∨ stat s.recs s.proposer = some .offBoarding) ∧
    (∃ m ∈ members s, m ∉ s.offBoarding ∧ stat s.recs m = some .activated) ∧
    (∀ now, ∃ s', endBlocker c s now = .ok s' ∧ GroupInv s' ∧
      (electionDue s now = false → s' = s) ∧
      (electionDue s now = true → s'.epoch = (s.epoch + 1) % two64 ∧ s'.lastElected = now ∧
        ∀ m, m ∈ members s' ↔ (m ∈ members s ∨ m ∈ s.onBoarding) ∧ m ∉ s.offBoarding)) := by
  intro s
  have hinv : GroupInv s := run_preserves c s0 ops h0
  refine ⟨hinv, hinv.proposer_not_voter, hinv.voters_nodup, hinv.memberRec _ (List.mem_cons_self ..),
    hinv.exists_active, ?_⟩
  intro now
  obtain ⟨s', hs'⟩ := endBlocker_never_fails c s now hinv
  obtain ⟨t1, t2⟩ := endBlocker_timing c s s' now hs'
  refine ⟨s', hs', endBlocker_preserves c s s' now hinv hs', t1, ?_⟩
  intro hd
  exact ⟨(t2 hd).1, (t2 hd).2, endBlocker_members c s s' now hd hs'⟩

/-! ### an observation on the removal counter (not a violation of C16)

`ProcessRelayerRequest` computes the number of members that would stay as
`len(voters) + 1 - len(queue.OffBoarding)`.  The removal queue can also hold *non-members*: a
`NewVoter` for an address that already has an account is queued for removal.  Each such entry makes
the counter one too small, so a removal that would leave the group non-empty is dropped.  The
invariant is unaffected (the counter errs on the safe side); the dropped request is simply lost. -/

def obsCrypto : Crypto :=
  { sha256 := id, hash160 := id, aggVerify := fun _ _ _ => true, blsVerify := fun _ _ _ => true,
    ecdsaVerify := fun _ _ _ => true, addrOf := fun b => if b = [1] then "v1" else "other" }

/-- proposer `p` and voter `v1`, both activated; `x` is a rejected joiner waiting in the removal queue -/
def obsState : State :=
  { exampleState with
    voters := ["v1"]
    recs := [("p", ⟨[0], [0], .activated, 0⟩), ("v1", ⟨[1], [1], .activated, 0⟩), ("x", ⟨[7], [7], .offBoarding, 6⟩)]
    onBoarding := [], offBoarding := ["x"] }

theorem obs_wellFormed : GroupInv obsState := by constructor <;> decide

/-- the request to remove `v1` (which would leave the proposer as sole member) is ignored -/
theorem obs_removal_dropped : processRequest obsCrypto obsState 9 [] [[1]] = obsState := by decide

/-- without the rejected joiner in the queue the same request is applied -/
theorem obs_removal_applied :
    (processRequest obsCrypto { obsState with offBoarding := [] } 9 [] [[1]]).offBoarding = ["v1"] := by decide

end Goat.C16
