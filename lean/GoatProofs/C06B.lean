/-
  GoatProofs.C06B — the BYTES of the system transactions (property C06: "an execution payload is accepted only if its
  leading system transactions are byte-for-byte the ones due at that point").

  The real `VerifyDequeue` compares `tx.MarshalBinary()` of the payload's leading transactions with the bytes of the due
  ones; the model (`GoatProofs/C08.lean`, `verifyDequeue_exact`) compares them field by field.  This file proves, on the
  executable byte model `GoatModel.SysTxBytes` (validated against 24 608 transactions serialised by the real code, no
  mismatch), that the two comparisons coincide: the byte encoding — type byte 0x60 ‖ RLP list [module, action, nonce,
  data], data = method id ‖ ABI words — is injective on in-range system transactions.

    1. RLP: `rlpNat_injective`, `rlpBytes_injective` (unconditional), `rlp_prefix_free`, `rlpList_injective`,
       `rlp_concat_injective`; `beMin_no_leading_zero`.
    2. `encodeData_injective` (data bytes determine the fields, nonce apart), with the witnesses that the range
       hypotheses are needed (`encodeData_sign_blind`, `encodeData_crops`).
    3. `encodeSysTx_eq_iff`, `encodeSysTx_injective`, `map_encodeSysTx_eq_iff` (byte-for-byte = field-for-field).
    4. `decode_encode`.
    5. `encode_nonce_only_in_envelope`, `encode_nonce_ne`.
    5b. `encodeSysTx_eq_iff_norm`: over everything the Go types can hold, the collisions are exactly cropping / padding
       of hashes and addresses and the sign of `math.Int` amounts.
    6. the six kinds of transaction with their real bytes, checked by the kernel and by `#guard`.
  A reading of every theorem is at the end of the file.
-/
import GoatModel.World
import GoatModel.SysTxBytes

namespace Goat.C06B
open Goat Goat.Bitcoin Goat.SysTxBytes

/-! ## 0. bytes -/

theorem leBytes_length (k n : Nat) : (leBytes k n).length = k := by
  induction k generalizing n with
  | zero => simp [leBytes]
  | succ k ih => simp [leBytes, ih]

theorem leToNat_leBytes (k n : Nat) : leToNat (leBytes k n) = n % 256 ^ k := by
  induction k generalizing n with
  | zero => simp [leBytes, leToNat, Nat.mod_one]
  | succ k ih =>
    have hb : (UInt8.ofNat (n % 256)).toNat = n % 256 := by
      rw [UInt8.toNat_ofNat']; omega
    simp only [leBytes, leToNat, ih, hb]
    rw [Nat.pow_succ, Nat.mul_comm (256 ^ k) 256, Nat.mod_mul]

theorem beFixed_length (k n : Nat) : (beFixed k n).length = k := by
  simp [beFixed, leBytes_length]

theorem natOfBE_beFixed (k n : Nat) : natOfBE (beFixed k n) = n % 256 ^ k := by
  rw [natOfBE, beFixed, List.reverse_reverse, leToNat_leBytes]

theorem natOfBE_beFixed_of_lt {k n : Nat} (h : n < 256 ^ k) : natOfBE (beFixed k n) = n := by
  rw [natOfBE_beFixed, Nat.mod_eq_of_lt h]

theorem p32 : (256 : Nat) ^ 4 = 2 ^ 32 := by decide
theorem p64 : (256 : Nat) ^ 8 = 2 ^ 64 := by decide
theorem p256 : (256 : Nat) ^ 32 = 2 ^ 256 := by decide

theorem pow256 (k : Nat) : (256 : Nat) ^ k = 2 ^ (8 * k) := by
  rw [Nat.pow_mul]

/-- every number fits its own `byteLen` -/
theorem lt_pow_byteLen (n : Nat) : n < 256 ^ byteLen n := by
  unfold byteLen
  split
  · next h => subst h; decide
  · next h =>
    rw [pow256]
    exact (Nat.log2_lt h).mp (by omega)

/-- … and no fewer bytes would do -/
theorem byteLen_le {n k : Nat} (h : n < 256 ^ k) : byteLen n ≤ k := by
  unfold byteLen
  split
  · omega
  · next h0 =>
    rw [pow256] at h
    have := (Nat.log2_lt h0).mpr h
    omega

theorem byteLen_pos {n : Nat} (h : n ≠ 0) : 0 < byteLen n := by
  unfold byteLen; rw [if_neg h]; omega

theorem beMin_length (n : Nat) : (beMin n).length = byteLen n := beFixed_length _ _

theorem natOfBE_beMin (n : Nat) : natOfBE (beMin n) = n :=
  natOfBE_beFixed_of_lt (lt_pow_byteLen n)

theorem beMin_injective {n m : Nat} (h : beMin n = beMin m) : n = m := by
  rw [← natOfBE_beMin n, ← natOfBE_beMin m, h]

theorem beMin_zero : beMin 0 = [] := rfl

theorem leToNat_lt (l : Bytes) : leToNat l < 256 ^ l.length := by
  induction l with
  | nil => simp [leToNat]
  | cons b t ih =>
    have hb : b.toNat < 256 := b.toNat_lt
    simp only [leToNat, List.length_cons, Nat.pow_succ]
    omega

theorem leToNat_append (a b : Bytes) : leToNat (a ++ b) = leToNat a + 256 ^ a.length * leToNat b := by
  induction a with
  | nil => simp [leToNat]
  | cons x t ih =>
    simp only [List.cons_append, leToNat, ih, List.length_cons, Nat.pow_succ]
    rw [Nat.mul_add, Nat.mul_comm (256 ^ t.length) 256, Nat.mul_assoc, Nat.add_assoc]

theorem natOfBE_lt (l : Bytes) : natOfBE l < 256 ^ l.length := by
  have := leToNat_lt l.reverse
  rwa [List.length_reverse] at this

theorem natOfBE_zero_cons (t : Bytes) : natOfBE (0 :: t) = natOfBE t := by
  simp [natOfBE, leToNat_append, leToNat]

/-- **no leading zero**: the minimal big-endian bytes of a number never start with 0 -/
theorem beMin_no_leading_zero (n : Nat) : (beMin n).head? ≠ some 0 := by
  intro h
  cases hb : beMin n with
  | nil => rw [hb] at h; cases h
  | cons x t =>
    rw [hb] at h
    simp only [List.head?_cons, Option.some.injEq] at h
    subst h
    have h1 := natOfBE_beMin n
    rw [hb, natOfBE_zero_cons] at h1
    have h2 := natOfBE_lt t
    rw [h1] at h2
    have h3 := byteLen_le h2
    have h4 := beMin_length n
    rw [hb, List.length_cons] at h4
    omega

/-! ## 1. RLP -/

theorem u8 {n : Nat} (h : n < 256) : (UInt8.ofNat n).toNat = n := by
  rw [UInt8.toNat_ofNat']; omega

theorem byteLen_le8 {n : Nat} (h : n < 2 ^ 64) : byteLen n ≤ 8 := byteLen_le (by rw [p64]; exact h)

theorem byteLen_mono {n m : Nat} (h : n ≤ m) : byteLen n ≤ byteLen m :=
  byteLen_le (Nat.lt_of_le_of_lt h (lt_pow_byteLen m))

theorem lenPrefix_length (base len : Nat) :
    (lenPrefix base len).length = if len < 56 then 1 else 1 + byteLen len := by
  unfold lenPrefix; split <;> simp [beMin_length]; omega

theorem lenPrefix_length_pos (base len : Nat) : 0 < (lenPrefix base len).length := by
  rw [lenPrefix_length]; split <;> omega

theorem lenPrefix_length_mono (base : Nat) {a b : Nat} (h : a ≤ b) :
    (lenPrefix base a).length ≤ (lenPrefix base b).length := by
  rw [lenPrefix_length, lenPrefix_length]
  have := byteLen_mono h
  split <;> split <;> omega

theorem rlpBytes_cases (b : Bytes) :
    (∃ x, b = [x] ∧ x < 0x80 ∧ rlpBytes b = [x]) ∨ rlpBytes b = lenPrefix 0x80 b.length ++ b := by
  unfold rlpBytes
  split
  · next x =>
    split
    · next hx => exact .inl ⟨x, rfl, hx, rfl⟩
    · exact .inr rfl
  · exact .inr rfl

theorem single_ne_generic {x : UInt8} (hx : x < 0x80) (b : Bytes) : [x] ≠ lenPrefix 0x80 b.length ++ b := by
  intro h
  have hl := congrArg List.length h
  have hp := lenPrefix_length_pos 0x80 b.length
  simp only [List.length_cons, List.length_nil, List.length_append] at hl
  have hb : b = [] := List.eq_nil_of_length_eq_zero (by omega)
  subst hb
  have : x = 0x80 := by simpa [lenPrefix] using h
  subst this
  exact absurd hx (by decide)

/-- **`rlpBytes` is injective** — on all byte strings, whatever their length. -/
theorem rlpBytes_injective {a b : Bytes} (h : rlpBytes a = rlpBytes b) : a = b := by
  rcases rlpBytes_cases a with ⟨x, rfl, hx, ea⟩ | ea <;> rcases rlpBytes_cases b with ⟨y, rfl, hy, eb⟩ | eb
  · rw [ea, eb] at h; exact h
  · rw [ea, eb] at h; exact absurd h (single_ne_generic hx b)
  · rw [ea, eb] at h; exact absurd h.symm (single_ne_generic hy a)
  · rw [ea, eb] at h
    have hl := congrArg List.length h
    simp only [List.length_append] at hl
    have hlen : a.length = b.length := by
      rcases Nat.lt_trichotomy a.length b.length with lt | eq | gt
      · have := lenPrefix_length_mono 0x80 (Nat.le_of_lt lt); omega
      · exact eq
      · have := lenPrefix_length_mono 0x80 (Nat.le_of_lt gt); omega
    rw [hlen] at h
    exact List.append_cancel_left h

theorem rlpNat_injective {n m : Nat} (h : rlpNat n = rlpNat m) : n = m :=
  beMin_injective (rlpBytes_injective h)


/-- the item decoder undoes a string / list header followed by its payload -/
theorem decodeItem_lenPrefix (isList : Bool) (p rest : Bytes) (h : p.length < 2 ^ 64) :
    decodeItem (lenPrefix (if isList then 0xc0 else 0x80) p.length ++ (p ++ rest)) = some (isList, p, rest) := by
  unfold lenPrefix
  by_cases hs : p.length < 56
  · rw [if_pos hs]
    cases isList
    · have ht : (UInt8.ofNat (0x80 + p.length)).toNat = 0x80 + p.length := u8 (by omega)
      simp only [Bool.false_eq_true, if_false, List.cons_append, List.nil_append, decodeItem, header, ht]
      rw [if_neg (by omega), if_pos (by omega)]
      have e : 128 + p.length - 128 = p.length := by omega
      simp only [e, List.length_cons, List.length_append]
      rw [if_pos (by omega), Nat.add_comm 1, List.drop_succ_cons, List.drop_succ_cons, List.drop_zero,
        List.take_left' rfl, List.drop_left' rfl]
    · have ht : (UInt8.ofNat (0xc0 + p.length)).toNat = 0xc0 + p.length := u8 (by omega)
      simp only [if_true, List.cons_append, List.nil_append, decodeItem, header, ht]
      rw [if_neg (by omega), if_neg (by omega), if_neg (by omega), if_pos (by omega)]
      have e : 192 + p.length - 192 = p.length := by omega
      simp only [e, List.length_cons, List.length_append]
      rw [if_pos (by omega), Nat.add_comm 1, List.drop_succ_cons, List.drop_succ_cons, List.drop_zero,
        List.take_left' rfl, List.drop_left' rfl]
  · rw [if_neg hs]
    have hl := beMin_length p.length
    have h8 := byteLen_le8 h
    have h1 : 0 < byteLen p.length := byteLen_pos (by omega)
    have hn := natOfBE_beMin p.length
    cases isList
    · have ht : (UInt8.ofNat (0x80 + 55 + (beMin p.length).length)).toNat = 0xb7 + byteLen p.length := by
        rw [hl]; exact u8 (by omega)
      simp only [Bool.false_eq_true, if_false, List.cons_append, decodeItem, header, ht]
      rw [if_neg (by omega), if_neg (by omega), if_pos (by omega)]
      have e : 183 + byteLen p.length - 183 = byteLen p.length := by omega
      simp only [e, List.take_left' hl, hn, List.length_cons, List.length_append, hl]
      rw [if_pos (by omega)]
      rw [Nat.add_comm 1, List.drop_succ_cons, List.drop_left' hl]
      rw [show byteLen p.length + 1 + p.length = (byteLen p.length + p.length) + 1 by omega, List.drop_succ_cons,
        ← List.append_assoc, List.drop_left' (by simp [hl]), List.take_left' rfl]
    · have ht : (UInt8.ofNat (0xc0 + 55 + (beMin p.length).length)).toNat = 0xf7 + byteLen p.length := by
        rw [hl]; exact u8 (by omega)
      simp only [if_true, List.cons_append, decodeItem, header, ht]
      rw [if_neg (by omega), if_neg (by omega), if_neg (by omega), if_neg (by omega)]
      have e : 247 + byteLen p.length - 247 = byteLen p.length := by omega
      simp only [e, List.take_left' hl, hn, List.length_cons, List.length_append, hl]
      rw [if_pos (by omega)]
      rw [Nat.add_comm 1, List.drop_succ_cons, List.drop_left' hl]
      rw [show byteLen p.length + 1 + p.length = (byteLen p.length + p.length) + 1 by omega, List.drop_succ_cons,
        ← List.append_assoc, List.drop_left' (by simp [hl]), List.take_left' rfl]

/-- the item decoder undoes `rlpBytes` (whatever follows) -/
theorem decodeItem_rlpBytes (b rest : Bytes) (h : b.length < 2 ^ 64) :
    decodeItem (rlpBytes b ++ rest) = some (false, b, rest) := by
  have gen : decodeItem (lenPrefix 0x80 b.length ++ b ++ rest) = some (false, b, rest) := by
    have := decodeItem_lenPrefix false b rest h
    simpa [List.append_assoc] using this
  unfold rlpBytes
  split
  · next x =>
    split
    · next hx =>
      have hx' : x.toNat < 128 := by simpa using UInt8.lt_iff_toNat_lt.mp hx
      simp only [List.cons_append, List.nil_append, decodeItem, header]
      rw [if_pos hx']
      simp
    · exact gen
  · exact gen

/-- the item decoder undoes `rlpList`: the payload is the concatenation of the items -/
theorem decodeItem_rlpList (items : List Bytes) (rest : Bytes) (h : items.flatten.length < 2 ^ 64) :
    decodeItem (rlpList items ++ rest) = some (true, items.flatten, rest) := by
  have := decodeItem_lenPrefix true items.flatten rest h
  simpa [rlpList, List.append_assoc] using this

theorem byteLen_small {n : Nat} (h : n < 2 ^ 256) : byteLen n < 2 ^ 64 := by
  have : byteLen n ≤ 32 := byteLen_le (by rw [p256]; exact h)
  have : (32 : Nat) < 2 ^ 64 := by decide
  omega

/-- The encodings RLP can produce: a string or a list (of already-encoded items) with a payload below 2^64 bytes. -/
inductive IsItem : Bytes → Prop
  | str (b : Bytes) (h : b.length < 2 ^ 64) : IsItem (rlpBytes b)
  | list (items : List Bytes) (h : items.flatten.length < 2 ^ 64) : IsItem (rlpList items)

theorem IsItem.nat {n : Nat} (h : n < 2 ^ 256) : IsItem (rlpNat n) :=
  .str _ (by rw [beMin_length]; exact byteLen_small h)

/-- an item's own bytes tell where it ends -/
theorem IsItem.decode {e : Bytes} (h : IsItem e) : ∃ l p, ∀ rest, decodeItem (e ++ rest) = some (l, p, rest) := by
  cases h with
  | str b hb => exact ⟨false, b, fun rest => decodeItem_rlpBytes b rest hb⟩
  | list items hi => exact ⟨true, items.flatten, fun rest => decodeItem_rlpList items rest hi⟩

theorem IsItem.ne_nil {e : Bytes} (h : IsItem e) : e ≠ [] := by
  intro he
  obtain ⟨l, p, hd⟩ := h.decode
  have := hd []
  rw [he] at this
  simp [decodeItem, header] at this

/-- **RLP is prefix-free**: no item encoding is a proper prefix of another item encoding (hence a concatenation of
    items splits in exactly one way). -/
theorem rlp_prefix_free {e1 e2 : Bytes} (h1 : IsItem e1) (h2 : IsItem e2) (hp : e1 <+: e2) : e1 = e2 := by
  obtain ⟨t, rfl⟩ := hp
  obtain ⟨l1, p1, d1⟩ := h1.decode
  obtain ⟨l2, p2, d2⟩ := h2.decode
  have a := d1 t
  have b := d2 []
  rw [List.append_nil] at b
  rw [a] at b
  have : t = [] := by simpa using congrArg (fun o => o.map (fun x => x.2.2)) b
  rw [this, List.append_nil]

/-- concatenations of prefix-free non-empty blocks split uniquely -/
theorem flatten_injective {P : Bytes → Prop} (hne : ∀ e, P e → e ≠ [])
    (hpf : ∀ e1 e2, P e1 → P e2 → e1 <+: e2 → e1 = e2) :
    ∀ (l1 l2 : List Bytes), (∀ e ∈ l1, P e) → (∀ e ∈ l2, P e) → l1.flatten = l2.flatten → l1 = l2 := by
  intro l1
  induction l1 with
  | nil =>
    intro l2 _ h2 h
    cases l2 with
    | nil => rfl
    | cons b bs =>
      have hb := hne b (h2 b (by simp))
      simp only [List.flatten_nil, List.flatten_cons] at h
      have := List.append_eq_nil_iff.mp h.symm
      exact absurd this.1 hb
  | cons a as ih =>
    intro l2 h1 h2 h
    cases l2 with
    | nil =>
      have ha := hne a (h1 a (by simp))
      simp only [List.flatten_nil, List.flatten_cons] at h
      have := List.append_eq_nil_iff.mp h
      exact absurd this.1 ha
    | cons b bs =>
      simp only [List.flatten_cons] at h
      have pa : P a := h1 a (by simp)
      have pb : P b := h2 b (by simp)
      have hab : a = b := by
        rcases List.append_eq_append_iff.mp h with ⟨c, hc, _⟩ | ⟨c, hc, _⟩
        · exact hpf a b pa pb ⟨c, hc.symm⟩
        · exact (hpf b a pb pa ⟨c, hc.symm⟩).symm
      subst hab
      have ht := List.append_cancel_left h
      rw [ih bs (fun e he => h1 e (by simp [he])) (fun e he => h2 e (by simp [he])) ht]

/-- **`rlpList` is injective on lists of RLP items.** -/
theorem rlpList_injective {l1 l2 : List Bytes} (h1 : ∀ e ∈ l1, IsItem e) (h2 : ∀ e ∈ l2, IsItem e)
    (n1 : l1.flatten.length < 2 ^ 64) (n2 : l2.flatten.length < 2 ^ 64) (h : rlpList l1 = rlpList l2) : l1 = l2 := by
  have a := decodeItem_rlpList l1 [] n1
  have b := decodeItem_rlpList l2 [] n2
  rw [h, b] at a
  have hf : l1.flatten = l2.flatten := by simpa using a.symm
  exact flatten_injective (fun e he => he.ne_nil) (fun _ _ => rlp_prefix_free) l1 l2 h1 h2 hf

/-- a string is never a list: the two kinds of items have different encodings -/
theorem rlpBytes_ne_rlpList {b : Bytes} {items : List Bytes} (hb : b.length < 2 ^ 64) (hi : items.flatten.length < 2 ^ 64) :
    rlpBytes b ≠ rlpList items := by
  intro h
  have a := decodeItem_rlpBytes b [] hb
  have c := decodeItem_rlpList items [] hi
  rw [h, c] at a
  simp at a

/-- a concatenation of RLP items splits in exactly one way -/
theorem rlp_concat_injective {l1 l2 : List Bytes} (h1 : ∀ e ∈ l1, IsItem e) (h2 : ∀ e ∈ l2, IsItem e)
    (h : l1.flatten = l2.flatten) : l1 = l2 :=
  flatten_injective (fun _ he => he.ne_nil) (fun _ _ => rlp_prefix_free) l1 l2 h1 h2 h

theorem rlpBytes_of_length_ne_one {b : Bytes} (h : b.length ≠ 1) : rlpBytes b = lenPrefix 0x80 b.length ++ b := by
  rcases rlpBytes_cases b with ⟨x, rfl, _, _⟩ | e
  · exact absurd rfl h
  · exact e

/-- Without the 2^64 bound of `IsItem` prefix-freeness FAILS in the model: a string of 2^64 bytes needs 9 length
    bytes, its header byte 0xb7 + 9 = 0xc0 is the encoding of the empty list.  (Real RLP cannot encode such a string:
    lengths are uint64.) -/
theorem prefix_witness (b : Bytes) (hb : b.length = 2 ^ 64) : rlpList [] <+: rlpBytes b ∧ rlpList [] ≠ rlpBytes b := by
  have e : rlpBytes b = lenPrefix 0x80 (2 ^ 64) ++ b := by
    have := rlpBytes_of_length_ne_one (b := b) (by omega)
    rwa [hb] at this
  have e2 : lenPrefix 0x80 (2 ^ 64) = 0xc0 :: beMin (2 ^ 64) := by decide +kernel
  have e3 : rlpList [] = [0xc0] := by decide
  rw [e, e2, e3]
  constructor
  · exact ⟨beMin (2 ^ 64) ++ b, rfl⟩
  · intro h
    have := congrArg List.length h
    simp only [List.length_cons, List.length_nil, List.length_append, beMin_length] at this
    omega

theorem rlp_prefix_free_unbounded_false :
    ∃ b : Bytes, rlpList [] <+: rlpBytes b ∧ rlpList [] ≠ rlpBytes b :=
  ⟨List.replicate (2 ^ 64) 0, prefix_witness _ List.length_replicate⟩

/-! ## 2. the data: method id ‖ ABI words -/

theorem fit_eq_fitLeft : fit = World.fitLeft := rfl

theorem fit_length (n : Nat) (b : Bytes) : (fit n b).length = n := by
  unfold fit; split <;> simp <;> omega

theorem fit_of_length {n : Nat} {b : Bytes} (h : b.length = n) : fit n b = b := by
  unfold fit; rw [if_pos (by omega)]; simp [h]

theorem fit_idem (n : Nat) (b : Bytes) : fit n (fit n b) = fit n b := fit_of_length (fit_length n b)

theorem zeros_length (n : Nat) : (zeros n).length = n := by simp [zeros]

theorem wordHash_length (h : Bytes) : (wordHash h).length = 32 := fit_length _ _
theorem wordAddr_length (a : Bytes) : (wordAddr a).length = 32 := by
  simp [wordAddr, zeros_length, fit_length]
theorem wordU32_length (n : Nat) : (wordU32 n).length = 32 := by simp [wordU32, zeros_length, beFixed_length]
theorem wordU64_length (n : Nat) : (wordU64 n).length = 32 := by simp [wordU64, zeros_length, beFixed_length]
theorem wordNat_length (n : Nat) : (wordNat n).length = 32 := beFixed_length _ _
theorem wordInt_length (x : Int) : (wordInt x).length = 32 := beFixed_length _ _

/-- method id of a system transaction -/
def midOf : SysTx → Bytes
  | .newBlock .. => midNewBlock
  | .deposit .. => midDeposit
  | .paid .. => midPaid
  | .cancel2 .. => midCancel2
  | .reward .. => midReward
  | .unlock .. => midUnlock

/-- ABI words of a system transaction -/
def wordsOf : SysTx → List Bytes
  | .newBlock _ h => [wordHash h]
  | .deposit _ r => [wordHash r.txid, wordU32 r.txout, wordAddr r.address, wordNat (r.amount * satoshi), wordNat (r.tax * satoshi)]
  | .paid _ id r => [wordNat id, wordHash r.txid, wordU32 r.txout, wordNat (r.amount * satoshi)]
  | .cancel2 _ id => [wordNat id]
  | .reward _ id rc g gs => [wordU64 id, wordAddr rc, wordInt g, wordInt gs]
  | .unlock _ id rc tk a => [wordU64 id, wordAddr rc, wordAddr tk, wordInt a]

theorem encodeData_eq (tx : SysTx) : encodeData tx = midOf tx ++ (wordsOf tx).flatten := by
  cases tx <;> simp [encodeData, midOf, wordsOf, List.append_assoc]

theorem midOf_length (tx : SysTx) : (midOf tx).length = 4 := by cases tx <;> rfl

theorem wordsOf_length32 (tx : SysTx) : ∀ w ∈ wordsOf tx, w.length = 32 := by
  cases tx <;>
    simp [wordsOf, wordHash_length, wordAddr_length, wordU32_length, wordU64_length, wordNat_length, wordInt_length]

theorem flatten_length32 (ws : List Bytes) (hw : ∀ w ∈ ws, w.length = 32) : ws.flatten.length = 32 * ws.length := by
  induction ws with
  | nil => rfl
  | cons w t ih =>
    have h1 := hw w (by simp)
    have h2 := ih (fun x hx => hw x (by simp [hx]))
    simp only [List.flatten_cons, List.length_append, List.length_cons, h1, h2]; omega

theorem flatten_word (ws : List Bytes) (hw : ∀ w ∈ ws, w.length = 32) (i : Nat) (hi : i < ws.length) :
    (ws.flatten.drop (32 * i)).take 32 = ws[i] := by
  induction ws generalizing i with
  | nil => simp at hi
  | cons w t ih =>
    have h1 := hw w (by simp)
    cases i with
    | zero => simp [List.take_left' h1]
    | succ j =>
      have e : 32 * (j + 1) = 32 + 32 * j := by omega
      rw [e, List.flatten_cons, ← List.drop_drop, List.drop_left' h1]
      simpa using ih (fun x hx => hw x (by simp [hx])) j (by simpa using hi)

/-- the data are always 36, 132 or 164 bytes — whatever the fields -/
theorem encodeData_length (tx : SysTx) : (encodeData tx).length = 4 + 32 * (wordsOf tx).length := by
  rw [encodeData_eq, List.length_append, midOf_length, flatten_length32 _ (wordsOf_length32 tx)]

theorem encodeData_length_le (tx : SysTx) : (encodeData tx).length ≤ 164 := by
  rw [encodeData_length]; cases tx <;> simp [wordsOf]

theorem encodeData_take4 (tx : SysTx) : (encodeData tx).take 4 = midOf tx := by
  rw [encodeData_eq, List.take_left' (midOf_length tx)]

theorem wordAt_encodeData (tx : SysTx) (i : Nat) (hi : i < (wordsOf tx).length) :
    wordAt (encodeData tx) i = (wordsOf tx)[i] := by
  rw [wordAt, encodeData_eq, ← List.drop_drop, List.drop_left' (midOf_length tx)]
  exact flatten_word _ (wordsOf_length32 tx) i hi

/-- replace the nonce -/
def setNonce (n : Nat) : SysTx → SysTx
  | .newBlock _ h => .newBlock n h
  | .deposit _ r => .deposit n r
  | .paid _ id r => .paid n id r
  | .cancel2 _ id => .cancel2 n id
  | .reward _ id rc g gs => .reward n id rc g gs
  | .unlock _ id rc tk a => .unlock n id rc tk a

/-- the payload fields within the range in which the encoding loses nothing: hashes 32 bytes, addresses 20 bytes,
    txout a uint32, locking ids uint64, bridge ids and all (scaled) amounts below 2^256 and not negative. -/
def DataInRange : SysTx → Prop
  | .newBlock _ h => h.length = 32
  | .deposit _ r => r.txid.length = 32 ∧ r.txout < 2 ^ 32 ∧ r.address.length = 20 ∧
      r.amount * satoshi < 2 ^ 256 ∧ r.tax * satoshi < 2 ^ 256
  | .paid _ id r => id < 2 ^ 256 ∧ r.txid.length = 32 ∧ r.txout < 2 ^ 32 ∧ r.amount * satoshi < 2 ^ 256
  | .cancel2 _ id => id < 2 ^ 256
  | .reward _ id rc g gs => id < 2 ^ 64 ∧ rc.length = 20 ∧ 0 ≤ g ∧ g < 2 ^ 256 ∧ 0 ≤ gs ∧ gs < 2 ^ 256
  | .unlock _ id rc tk a => id < 2 ^ 64 ∧ rc.length = 20 ∧ tk.length = 20 ∧ 0 ≤ a ∧ a < 2 ^ 256

/-- in range: the nonce is a uint64 and the payload is in range -/
def InRange (tx : SysTx) : Prop := nonceOf tx < 2 ^ 64 ∧ DataInRange tx

/-- what the Go types can hold (uint64 ids and satoshi amounts, uint32 txout, 256-bit `math.Int`), with normalised hashes and
    addresses and no negative amount -/
def GoRange : SysTx → Prop
  | .newBlock n h => n < 2 ^ 64 ∧ h.length = 32
  | .deposit n r => n < 2 ^ 64 ∧ r.txid.length = 32 ∧ r.txout < 2 ^ 32 ∧ r.address.length = 20 ∧ r.amount < 2 ^ 64 ∧ r.tax < 2 ^ 64
  | .paid n id r => n < 2 ^ 64 ∧ id < 2 ^ 64 ∧ r.txid.length = 32 ∧ r.txout < 2 ^ 32 ∧ r.amount < 2 ^ 64
  | .cancel2 n id => n < 2 ^ 64 ∧ id < 2 ^ 64
  | .reward n id rc g gs => n < 2 ^ 64 ∧ id < 2 ^ 64 ∧ rc.length = 20 ∧ 0 ≤ g ∧ g < 2 ^ 256 ∧ 0 ≤ gs ∧ gs < 2 ^ 256
  | .unlock n id rc tk a => n < 2 ^ 64 ∧ id < 2 ^ 64 ∧ rc.length = 20 ∧ tk.length = 20 ∧ 0 ≤ a ∧ a < 2 ^ 256

theorem GoRange.inRange {tx : SysTx} (h : GoRange tx) : InRange tx := by
  cases tx <;> simp only [GoRange, InRange, DataInRange, nonceOf, satoshi] at h ⊢ <;> omega

theorem lo_wordAddr {a : Bytes} (h : a.length = 20) : (wordAddr a).drop (32 - 20) = a := by
  rw [wordAddr, List.drop_left' (zeros_length 12), fit_of_length h]

theorem lo_wordU32 {n : Nat} (h : n < 2 ^ 32) : natOfBE ((wordU32 n).drop (32 - 4)) = n := by
  rw [wordU32, List.drop_left' (zeros_length 28), natOfBE_beFixed_of_lt (by rw [p32]; exact h)]

theorem lo_wordU64 {n : Nat} (h : n < 2 ^ 64) : natOfBE ((wordU64 n).drop (32 - 8)) = n := by
  rw [wordU64, List.drop_left' (zeros_length 24), natOfBE_beFixed_of_lt (by rw [p64]; exact h)]

theorem nat_wordNat {n : Nat} (h : n < 2 ^ 256) : natOfBE (wordNat n) = n :=
  natOfBE_beFixed_of_lt (by rw [p256]; exact h)

theorem int_wordInt {x : Int} (h0 : 0 ≤ x) (h : x < 2 ^ 256) : Int.ofNat (natOfBE (wordInt x)) = x := by
  rw [wordInt, natOfBE_beFixed_of_lt (by rw [p256]; omega)]
  exact Int.natAbs_of_nonneg h0

theorem scaled_div (n : Nat) : n * satoshi / satoshi = n := Nat.mul_div_cancel n (by decide)

/-- **the data decoder undoes `encodeData`** (the nonce is not in the data: it is given back as supplied) -/
theorem decodeData_encodeData (tx : SysTx) (n : Nat) (h : DataInRange tx) :
    decodeData (moduleOf tx) (actionOf tx) n (encodeData tx) = some (setNonce n tx) := by
  have hl := encodeData_length tx
  have ht := encodeData_take4 tx
  have hw := wordAt_encodeData tx
  cases tx with
  | newBlock m hh =>
    have w0 := hw 0 (by simp [wordsOf])
    simp only [wordsOf, List.getElem_cons_zero, List.length_cons, List.length_nil, midOf] at w0 hl ht
    simp +decide only [decodeData, moduleOf, actionOf, bridgeModule, lockingModule, setNonce, reduceIte]
    rw [if_pos ⟨hl, ht⟩, w0, wordHash, fit_of_length h]
  | deposit m r =>
    obtain ⟨h1, h2, h3, h4, h5⟩ := h
    have w0 := hw 0 (by simp [wordsOf])
    have w1 := hw 1 (by simp [wordsOf])
    have w2 := hw 2 (by simp [wordsOf])
    have w3 := hw 3 (by simp [wordsOf])
    have w4 := hw 4 (by simp [wordsOf])
    simp only [wordsOf, List.getElem_cons_zero, List.getElem_cons_succ, List.length_cons, List.length_nil, midOf] at w0 w1 w2 w3 w4 hl ht
    simp +decide only [decodeData, moduleOf, actionOf, bridgeModule, lockingModule, setNonce, reduceIte]
    rw [if_pos ⟨hl, ht⟩, w0, w1, w2, w3, w4, wordHash, fit_of_length h1, lo_wordU32 h2, lo_wordAddr h3,
      nat_wordNat h4, nat_wordNat h5, scaled_div, scaled_div]
  | paid m id r =>
    obtain ⟨h1, h2, h3, h4⟩ := h
    have w0 := hw 0 (by simp [wordsOf])
    have w1 := hw 1 (by simp [wordsOf])
    have w2 := hw 2 (by simp [wordsOf])
    have w3 := hw 3 (by simp [wordsOf])
    simp only [wordsOf, List.getElem_cons_zero, List.getElem_cons_succ, List.length_cons, List.length_nil, midOf] at w0 w1 w2 w3 hl ht
    simp +decide only [decodeData, moduleOf, actionOf, bridgeModule, lockingModule, setNonce, reduceIte]
    rw [if_pos ⟨hl, ht⟩, w0, w1, w2, w3, wordHash, fit_of_length h2,
      lo_wordU32 h3, nat_wordNat h1, nat_wordNat h4, scaled_div]
  | cancel2 m id =>
    have w0 := hw 0 (by simp [wordsOf])
    simp only [wordsOf, List.getElem_cons_zero, List.length_cons, List.length_nil, midOf] at w0 hl ht
    simp +decide only [decodeData, moduleOf, actionOf, bridgeModule, lockingModule, setNonce, reduceIte]
    rw [if_pos ⟨hl, ht⟩, w0, nat_wordNat h]
  | reward m id rc g gs =>
    obtain ⟨h1, h2, h3, h4, h5, h6⟩ := h
    have w0 := hw 0 (by simp [wordsOf])
    have w1 := hw 1 (by simp [wordsOf])
    have w2 := hw 2 (by simp [wordsOf])
    have w3 := hw 3 (by simp [wordsOf])
    simp only [wordsOf, List.getElem_cons_zero, List.getElem_cons_succ, List.length_cons, List.length_nil, midOf] at w0 w1 w2 w3 hl ht
    simp +decide only [decodeData, moduleOf, actionOf, bridgeModule, lockingModule, setNonce, reduceIte]
    rw [if_pos ⟨hl, ht⟩, w0, w1, w2, w3, lo_wordU64 h1, lo_wordAddr h2,
      int_wordInt h3 h4, int_wordInt h5 h6]
  | unlock m id rc tk a =>
    obtain ⟨h1, h2, h3, h4, h5⟩ := h
    have w0 := hw 0 (by simp [wordsOf])
    have w1 := hw 1 (by simp [wordsOf])
    have w2 := hw 2 (by simp [wordsOf])
    have w3 := hw 3 (by simp [wordsOf])
    simp only [wordsOf, List.getElem_cons_zero, List.getElem_cons_succ, List.length_cons, List.length_nil, midOf] at w0 w1 w2 w3 hl ht
    simp +decide only [decodeData, moduleOf, actionOf, bridgeModule, lockingModule, setNonce, reduceIte]
    rw [if_pos ⟨hl, ht⟩, w0, w1, w2, w3, lo_wordU64 h1, lo_wordAddr h2, lo_wordAddr h3,
      int_wordInt h4 h5]

theorem encodeData_setNonce (n : Nat) (tx : SysTx) : encodeData (setNonce n tx) = encodeData tx := by
  cases tx <;> rfl

theorem moduleOf_setNonce (n : Nat) (tx : SysTx) : moduleOf (setNonce n tx) = moduleOf tx := by cases tx <;> rfl
theorem actionOf_setNonce (n : Nat) (tx : SysTx) : actionOf (setNonce n tx) = actionOf tx := by cases tx <;> rfl
theorem nonceOf_setNonce (n : Nat) (tx : SysTx) : nonceOf (setNonce n tx) = n := by cases tx <;> rfl
theorem setNonce_nonceOf (tx : SysTx) : setNonce (nonceOf tx) tx = tx := by cases tx <;> rfl
theorem setNonce_setNonce (n m : Nat) (tx : SysTx) : setNonce n (setNonce m tx) = setNonce n tx := by cases tx <;> rfl
theorem DataInRange.setNonce {tx : SysTx} (h : DataInRange tx) (n : Nat) : DataInRange (setNonce n tx) := by
  cases tx <;> exact h

/-- the method id determines module and action (the six ids are pairwise different) -/
theorem kind_of_mid {a b : SysTx} (h : midOf a = midOf b) : moduleOf a = moduleOf b ∧ actionOf a = actionOf b := by
  cases a <;> cases b <;> first | exact ⟨rfl, rfl⟩ | (simp only [midOf] at h; exact absurd h (by decide))

/-- **2. `encodeData` is injective within range**: equal data bytes — equal transactions up to the nonce (which is not
    part of the data). -/
theorem encodeData_injective {a b : SysTx} (ha : DataInRange a) (hb : DataInRange b)
    (h : encodeData a = encodeData b) : setNonce 0 a = setNonce 0 b := by
  have hm : midOf a = midOf b := by rw [← encodeData_take4, ← encodeData_take4, h]
  obtain ⟨k1, k2⟩ := kind_of_mid hm
  have da := decodeData_encodeData a 0 ha
  have db := decodeData_encodeData b 0 hb
  rw [h, k1, k2, db] at da
  exact (Option.some.inj da).symm

theorem encodeData_eq_iff {a b : SysTx} (ha : DataInRange a) (hb : DataInRange b) :
    encodeData a = encodeData b ↔ setNonce 0 a = setNonce 0 b :=
  ⟨encodeData_injective ha hb, fun h => by rw [← encodeData_setNonce 0 a, h, encodeData_setNonce]⟩

/-- Outside the range the data lose information — with values the Go types CAN hold: `big.Int.FillBytes` writes the
    absolute value, so a negative reward amount encodes like its opposite; `BytesToHash` crops, so a 33-byte hash
    encodes like its last 32 bytes.  Hence the range hypotheses of `encodeData_injective` cannot be dropped. -/
theorem encodeData_sign_blind (n id : Nat) (rc : Bytes) (g gs : Int) :
    encodeData (.reward n id rc (-g) gs) = encodeData (.reward n id rc g gs) := by
  simp [encodeData, wordInt]

theorem encodeData_crops (n : Nat) (x : UInt8) (h : Bytes) (hh : h.length = 32) :
    encodeData (.newBlock n (x :: h)) = encodeData (.newBlock n h) := by
  simp [encodeData, wordHash, fit, hh]

theorem encodeData_injective_unrestricted_false :
    ¬ ∀ a b : SysTx, encodeData a = encodeData b → setNonce 0 a = setNonce 0 b := by
  intro h
  have := h (.reward 0 0 [] (-1) 0) (.reward 0 0 [] 1 0) (encodeData_sign_blind 0 0 [] 1 0)
  simp [setNonce] at this

/-! ## 3. the envelope -/

theorem lenPrefix_length_le (base len : Nat) (h : len < 2 ^ 64) : (lenPrefix base len).length ≤ 9 := by
  unfold lenPrefix
  split
  · simp
  · have := byteLen_le8 h
    simp only [List.length_cons, beMin_length]; omega

theorem rlpBytes_length_le (b : Bytes) (h : b.length < 2 ^ 64) : (rlpBytes b).length ≤ b.length + 9 := by
  unfold rlpBytes
  split
  · split
    · simp
    · have := lenPrefix_length_le 0x80 1 (by decide)
      simp only [List.length_append, List.length_cons, List.length_nil]; omega
  · have := lenPrefix_length_le 0x80 b.length h
    simp only [List.length_append]; omega

theorem rlpNat_length_le {n : Nat} (h : n < 2 ^ 64) : (rlpNat n).length ≤ 17 := by
  have h8 := byteLen_le8 h
  have := rlpBytes_length_le (beMin n) (by rw [beMin_length]; omega)
  rw [beMin_length] at this
  unfold rlpNat; omega

theorem moduleOf_lt (tx : SysTx) : moduleOf tx < 256 := by cases tx <;> simp [moduleOf, bridgeModule, lockingModule]
theorem actionOf_lt (tx : SysTx) : actionOf tx < 256 := by cases tx <;> simp [actionOf]

theorem data_small (tx : SysTx) : (encodeData tx).length < 2 ^ 64 := by
  have := encodeData_length_le tx; omega

theorem envelope_isItem (tx : SysTx) (hn : nonceOf tx < 2 ^ 64) : ∀ e ∈ envelopeItems tx, IsItem e := by
  intro e he
  simp only [envelopeItems, List.mem_cons, List.not_mem_nil, or_false] at he
  have hm := moduleOf_lt tx
  have hac := actionOf_lt tx
  rcases he with rfl | rfl | rfl | rfl
  · exact IsItem.nat (by omega)
  · exact IsItem.nat (by omega)
  · exact IsItem.nat (by omega)
  · exact IsItem.str _ (data_small tx)

theorem envelope_small (tx : SysTx) (hn : nonceOf tx < 2 ^ 64) : (envelopeItems tx).flatten.length < 2 ^ 64 := by
  have h1 := rlpNat_length_le (n := moduleOf tx) (by have := moduleOf_lt tx; omega)
  have h2 := rlpNat_length_le (n := actionOf tx) (by have := actionOf_lt tx; omega)
  have h3 := rlpNat_length_le hn
  have h4 := rlpBytes_length_le _ (data_small tx)
  have h5 := encodeData_length_le tx
  simp only [envelopeItems, List.flatten_cons, List.flatten_nil, List.length_append, List.length_nil]
  omega

/-- **the envelope is injective on its four fields** (uint64 nonces; nothing is assumed about the payload fields) -/
theorem encodeSysTx_eq_iff {a b : SysTx} (ha : nonceOf a < 2 ^ 64) (hb : nonceOf b < 2 ^ 64) :
    encodeSysTx a = encodeSysTx b ↔
      moduleOf a = moduleOf b ∧ actionOf a = actionOf b ∧ nonceOf a = nonceOf b ∧ encodeData a = encodeData b := by
  constructor
  · intro h
    simp only [encodeSysTx, List.cons.injEq, true_and] at h
    have hi := rlpList_injective (envelope_isItem a ha) (envelope_isItem b hb) (envelope_small a ha) (envelope_small b hb) h
    simp only [envelopeItems, List.cons.injEq, and_true] at hi
    obtain ⟨i1, i2, i3, i4⟩ := hi
    exact ⟨rlpNat_injective i1, rlpNat_injective i2,
      rlpNat_injective i3, rlpBytes_injective i4⟩
  · rintro ⟨h1, h2, h3, h4⟩
    simp only [encodeSysTx, envelopeItems, h1, h2, h3, h4]

/-- **3. `encodeSysTx` is injective within range**: equal bytes — equal system transactions, nonce included. -/
theorem encodeSysTx_injective {a b : SysTx} (ha : InRange a) (hb : InRange b)
    (h : encodeSysTx a = encodeSysTx b) : a = b := by
  obtain ⟨_, _, hn, hd⟩ := (encodeSysTx_eq_iff ha.1 hb.1).mp h
  have h0 := encodeData_injective ha.2 hb.2 hd
  rw [← setNonce_nonceOf a, ← setNonce_setNonce (nonceOf a) 0 a, h0, hn, setNonce_setNonce, setNonce_nonceOf]

theorem encodeSysTx_inj_iff {a b : SysTx} (ha : InRange a) (hb : InRange b) :
    encodeSysTx a = encodeSysTx b ↔ a = b :=
  ⟨encodeSysTx_injective ha hb, fun h => by rw [h]⟩

/-- **byte-for-byte = field-for-field**: two lists of in-range system transactions have the same byte encodings
    (what the real `VerifyDequeue` compares, `bytes.Equal` item by item) iff they are the same transactions (what the
    model's `verifyDequeue_exact`, GoatProofs/C08.lean, compares). -/
theorem map_encodeSysTx_eq_iff {l1 l2 : List SysTx} (h1 : ∀ t ∈ l1, InRange t) (h2 : ∀ t ∈ l2, InRange t) :
    l1.map encodeSysTx = l2.map encodeSysTx ↔ l1 = l2 := by
  constructor
  · intro h
    induction l1 generalizing l2 with
    | nil => cases l2 with
      | nil => rfl
      | cons b bs => simp at h
    | cons a as ih =>
      cases l2 with
      | nil => simp at h
      | cons b bs =>
        simp only [List.map_cons, List.cons.injEq] at h
        have hab := encodeSysTx_injective (h1 a (by simp)) (h2 b (by simp)) h.1
        rw [hab, ih (fun t ht => h1 t (by simp [ht])) (fun t ht => h2 t (by simp [ht])) h.2]
  · intro h; rw [h]

/-- the same for the leading transactions of a payload: the first `due.length` raw transactions are the encodings of
    the due ones iff they are the encodings of some in-range list that IS the due list -/
theorem leading_bytes_iff {raw : List Bytes} {due got : List SysTx} (hd : ∀ t ∈ due, InRange t) (hg : ∀ t ∈ got, InRange t)
    (hraw : raw.take due.length = got.map encodeSysTx) :
    raw.take due.length = due.map encodeSysTx ↔ got = due := by
  rw [hraw]; exact map_encodeSysTx_eq_iff hg hd

/-! ## 4. decoding -/

/-- **4. the decoder undoes the encoder** on in-range transactions -/
theorem decode_encode (tx : SysTx) (h : InRange tx) : decodeSysTx (encodeSysTx tx) = some tx := by
  obtain ⟨hn, hd⟩ := h
  have hm := moduleOf_lt tx
  have ha := actionOf_lt tx
  have bl : ∀ {n : Nat}, n < 2 ^ 64 → (beMin n).length < 2 ^ 64 := by
    intro n h; rw [beMin_length]; have := byteLen_le8 h; omega
  have e0 := decodeItem_rlpList (envelopeItems tx) [] (envelope_small tx hn)
  rw [List.append_nil] at e0
  have e1 := decodeItem_rlpBytes (beMin (moduleOf tx))
    (rlpBytes (beMin (actionOf tx)) ++ (rlpBytes (beMin (nonceOf tx)) ++ (rlpBytes (encodeData tx) ++ []))) (bl (by omega))
  have e2 := decodeItem_rlpBytes (beMin (actionOf tx))
    (rlpBytes (beMin (nonceOf tx)) ++ (rlpBytes (encodeData tx) ++ [])) (bl (by omega))
  have e3 := decodeItem_rlpBytes (beMin (nonceOf tx)) (rlpBytes (encodeData tx) ++ []) (bl hn)
  have e4 := decodeItem_rlpBytes (encodeData tx) [] (data_small tx)
  have ef : (envelopeItems tx).flatten = rlpBytes (beMin (moduleOf tx)) ++
      (rlpBytes (beMin (actionOf tx)) ++ (rlpBytes (beMin (nonceOf tx)) ++ (rlpBytes (encodeData tx) ++ []))) := by
    simp [envelopeItems, rlpNat]
  rw [ef] at e0
  simp only [decodeSysTx, encodeSysTx, ne_eq, not_true_eq_false, if_false, e0, e1, e2, e3, e4, natOfBE_beMin]
  rw [decodeData_encodeData tx _ hd, setNonce_nonceOf]

/-! ## 5. the nonce lives in the envelope only -/

/-- changing the nonce changes exactly the third item of the envelope … -/
theorem encode_nonce_only_in_envelope (n : Nat) (tx : SysTx) :
    encodeSysTx (setNonce n tx) =
      goatTxType :: rlpList [rlpNat (moduleOf tx), rlpNat (actionOf tx), rlpNat n, rlpBytes (encodeData tx)] := by
  cases tx <;> rfl

theorem envelopeItems_setNonce (n : Nat) (tx : SysTx) :
    envelopeItems (setNonce n tx) = (envelopeItems tx).set 2 (rlpNat n) := by
  cases tx <;> rfl

/-- … and the bytes with it: the same payload under two different (uint64) nonces is two different byte strings — a
    replayed system transaction with an old nonce is not byte-equal to the one due.  No range hypothesis on the payload. -/
theorem encode_nonce_ne {n n' : Nat} (tx : SysTx) (hn : n < 2 ^ 64) (hn' : n' < 2 ^ 64) :
    encodeSysTx (setNonce n tx) = encodeSysTx (setNonce n' tx) ↔ n = n' := by
  rw [encodeSysTx_eq_iff (by rw [nonceOf_setNonce]; exact hn) (by rw [nonceOf_setNonce]; exact hn')]
  simp only [moduleOf_setNonce, actionOf_setNonce, nonceOf_setNonce, encodeData_setNonce, true_and, and_true]

/-! ## 5b. exactly what the encoding forgets -/

/-- the numeric fields within what the Go types can hold (uint64 nonce and locking ids, uint32 txout, scaled amounts and
    bridge ids below 2^256, `math.Int` amounts of at most 256 bits and of EITHER sign); byte strings of ANY length -/
def NumRange : SysTx → Prop
  | .newBlock n _ => n < 2 ^ 64
  | .deposit n r => n < 2 ^ 64 ∧ r.txout < 2 ^ 32 ∧ r.amount * satoshi < 2 ^ 256 ∧ r.tax * satoshi < 2 ^ 256
  | .paid n id r => n < 2 ^ 64 ∧ id < 2 ^ 256 ∧ r.txout < 2 ^ 32 ∧ r.amount * satoshi < 2 ^ 256
  | .cancel2 n id => n < 2 ^ 64 ∧ id < 2 ^ 256
  | .reward n id _ g gs => n < 2 ^ 64 ∧ id < 2 ^ 64 ∧ g.natAbs < 2 ^ 256 ∧ gs.natAbs < 2 ^ 256
  | .unlock n id _ _ a => n < 2 ^ 64 ∧ id < 2 ^ 64 ∧ a.natAbs < 2 ^ 256

/-- the normal form the encoder applies: hashes cropped / padded to 32 bytes, addresses to 20, amounts replaced by their
    absolute value -/
def norm : SysTx → SysTx
  | .newBlock n h => .newBlock n (fit 32 h)
  | .deposit n r => .deposit n { r with txid := fit 32 r.txid, address := fit 20 r.address }
  | .paid n id r => .paid n id { r with txid := fit 32 r.txid }
  | .cancel2 n id => .cancel2 n id
  | .reward n id rc g gs => .reward n id (fit 20 rc) g.natAbs gs.natAbs
  | .unlock n id rc tk a => .unlock n id (fit 20 rc) (fit 20 tk) a.natAbs

theorem encodeSysTx_norm (tx : SysTx) : encodeSysTx (norm tx) = encodeSysTx tx := by
  cases tx <;>
    simp [norm, encodeSysTx, envelopeItems, encodeData, moduleOf, actionOf, nonceOf, wordHash, wordAddr, wordInt, fit_idem]

theorem norm_inRange {tx : SysTx} (h : NumRange tx) : InRange (norm tx) := by
  cases tx <;> simp only [NumRange, norm, InRange, DataInRange, nonceOf, fit_length, true_and, and_true] at h ⊢ <;> omega

theorem inRange_norm {tx : SysTx} (h : InRange tx) : norm tx = tx := by
  obtain ⟨_, hd⟩ := h
  cases tx with
  | newBlock n hh => simp only [norm, fit_of_length hd]
  | deposit n r => obtain ⟨h1, _, h3, _, _⟩ := hd; simp only [norm, fit_of_length h1, fit_of_length h3]
  | paid n id r => obtain ⟨_, h2, _, _⟩ := hd; simp only [norm, fit_of_length h2]
  | cancel2 n id => rfl
  | reward n id rc g gs =>
    obtain ⟨_, h2, h3, _, h5, _⟩ := hd
    simp only [norm, fit_of_length h2, Int.natAbs_of_nonneg h3, Int.natAbs_of_nonneg h5]
  | unlock n id rc tk a =>
    obtain ⟨_, h2, h3, h4, _⟩ := hd
    simp only [norm, fit_of_length h2, fit_of_length h3, Int.natAbs_of_nonneg h4]

/-- **the collisions, exactly**: over everything the Go types can hold, two system transactions have the same bytes iff
    they have the same normal form — the encoding forgets the cropped part of over-long hashes / addresses, leading zero
    padding of short ones, and the sign of `math.Int` amounts; nothing else. -/
theorem encodeSysTx_eq_iff_norm {a b : SysTx} (ha : NumRange a) (hb : NumRange b) :
    encodeSysTx a = encodeSysTx b ↔ norm a = norm b := by
  rw [← encodeSysTx_norm a, ← encodeSysTx_norm b]
  exact encodeSysTx_inj_iff (norm_inRange ha) (norm_inRange hb)

/-- decoding what the encoder produced gives the normal form -/
theorem decode_encode_norm (tx : SysTx) (h : NumRange tx) : decodeSysTx (encodeSysTx tx) = some (norm tx) := by
  rw [← encodeSysTx_norm tx]; exact decode_encode _ (norm_inRange h)

/-! ## 6. non-vacuity: real transactions -/

-- RLP integer rules
example : rlpNat 0 = [0x80] := by decide
example : rlpNat 1 = [0x01] := by decide
example : rlpNat 127 = [0x7f] := by decide
example : rlpNat 128 = [0x81, 0x80] := by decide
example : rlpNat 255 = [0x81, 0xff] := by decide
example : rlpNat 256 = [0x82, 0x01, 0x00] := by decide
example : rlpNat (2 ^ 32) = [0x85, 0x01, 0x00, 0x00, 0x00, 0x00] := by decide
example : rlpNat (2 ^ 64 - 1) = [0x88, 0xff, 0xff, 0xff, 0xff, 0xff, 0xff, 0xff, 0xff] := by decide
example : rlpBytes [] = [0x80] := by decide
example : rlpList [] = [0xc0] := by decide
example : lenPrefix 0x80 55 = [0xb7] := by decide
example : lenPrefix 0x80 56 = [0xb8, 56] := by decide
example : lenPrefix 0xc0 55 = [0xf7] := by decide
example : lenPrefix 0xc0 256 = [0xf9, 0x01, 0x00] := by decide

/-- The six kinds, copied from traces of the real code (`kdrive -stream bitcoin -seed 7`, `-stream locking -seed 7`): the
    `txs=` text gives the fields (first `#guard`), the `raw=` hex is the real `tx.MarshalBinary()` (second `#guard`); the
    theorem is checked by the kernel.  `exBoundary` / `exNegative` come from a Go program calling the repository's own
    constructors: `NewRejectEthTx(2^64-1, 2^64-1)` and `Unlock{Id: 65536, Amount: -1}.EthTx(2^32-1)` (the negative amount
    is written as its absolute value). -/
def exNewBlock : SysTx :=
  .newBlock 1
    [0xd6, 0xf9, 0xb7, 0xbd, 0x85, 0x3b, 0x2b, 0xaf, 0x8f, 0x90, 0x0e, 0x2f, 0xcf, 0xae, 0x4f, 0x3c, 0xf6, 0x31, 0x40, 0x56, 0xe5, 0x81, 0xc3, 0x32,
      0x01, 0x4f, 0x9c, 0x58, 0xd2, 0xdc, 0x33, 0x1f]
def exNewBlockRaw : Bytes :=
  [0x60, 0xe8, 0x01, 0x04, 0x01, 0xa4, 0x94, 0xf4, 0x90, 0xbd, 0xd6, 0xf9, 0xb7, 0xbd, 0x85, 0x3b, 0x2b, 0xaf, 0x8f, 0x90, 0x0e, 0x2f, 0xcf, 0xae,
   0x4f, 0x3c, 0xf6, 0x31, 0x40, 0x56, 0xe5, 0x81, 0xc3, 0x32, 0x01, 0x4f, 0x9c, 0x58, 0xd2, 0xdc, 0x33, 0x1f]
#guard World.sysTxText exNewBlock == "nb|1|d6f9b7bd853b2baf8f900e2fcfae4f3cf6314056e581c332014f9c58d2dc331f"
#guard toHex exNewBlockRaw == "60e8010401a494f490bdd6f9b7bd853b2baf8f900e2fcfae4f3cf6314056e581c332014f9c58d2dc331f"
theorem exNewBlock_bytes : encodeSysTx exNewBlock = exNewBlockRaw := by decide +kernel

def exDeposit : SysTx :=
  .deposit 4
    { txid := [0xfc, 0xed, 0xf9, 0x4f, 0xf1, 0xb7, 0xd6, 0xfc, 0x6a, 0x8a, 0x1c, 0x4c, 0xd5, 0x74, 0x14, 0x79, 0x7e, 0x8a, 0x16, 0xaf, 0x61, 0x7a, 0xa6, 0x45,
      0xe2, 0xf6, 0x80, 0x8f, 0xa1, 0x1a, 0x50, 0x29],
      txout := 0,
      address := [0x47, 0x11, 0x3c, 0x95, 0xed, 0xd9, 0x1b, 0xd1, 0x94, 0xb2, 0x7a, 0x5a, 0x92, 0x9a, 0x85, 0x82, 0xa9, 0x9b, 0xa2, 0xb8],
      amount := 187526, tax := 360 }
def exDepositRaw : Bytes :=
  [0x60, 0xf8, 0xa9, 0x01, 0x01, 0x04, 0xb8, 0xa4, 0x90, 0x41, 0x83, 0xcb, 0xfc, 0xed, 0xf9, 0x4f, 0xf1, 0xb7, 0xd6, 0xfc, 0x6a, 0x8a, 0x1c, 0x4c,
   0xd5, 0x74, 0x14, 0x79, 0x7e, 0x8a, 0x16, 0xaf, 0x61, 0x7a, 0xa6, 0x45, 0xe2, 0xf6, 0x80, 0x8f, 0xa1, 0x1a, 0x50, 0x29, 0x00, 0x00, 0x00, 0x00,
   0x00, 0x00, 0x00, 0x00, 0x00, 0x00, 0x00, 0x00, 0x00, 0x00, 0x00, 0x00, 0x00, 0x00, 0x00, 0x00, 0x00, 0x00, 0x00, 0x00, 0x00, 0x00, 0x00, 0x00,
   0x00, 0x00, 0x00, 0x00, 0x00, 0x00, 0x00, 0x00, 0x00, 0x00, 0x00, 0x00, 0x00, 0x00, 0x00, 0x00, 0x47, 0x11, 0x3c, 0x95, 0xed, 0xd9, 0x1b, 0xd1,
   0x94, 0xb2, 0x7a, 0x5a, 0x92, 0x9a, 0x85, 0x82, 0xa9, 0x9b, 0xa2, 0xb8, 0x00, 0x00, 0x00, 0x00, 0x00, 0x00, 0x00, 0x00, 0x00, 0x00, 0x00, 0x00,
   0x00, 0x00, 0x00, 0x00, 0x00, 0x00, 0x00, 0x00, 0x00, 0x00, 0x00, 0x00, 0x00, 0x06, 0xa9, 0x89, 0xfe, 0x29, 0x58, 0x00, 0x00, 0x00, 0x00, 0x00,
   0x00, 0x00, 0x00, 0x00, 0x00, 0x00, 0x00, 0x00, 0x00, 0x00, 0x00, 0x00, 0x00, 0x00, 0x00, 0x00, 0x00, 0x00, 0x00, 0x00, 0x00, 0x00, 0x03, 0x46,
   0x30, 0xb8, 0xa0, 0x00]
#guard World.sysTxText exDeposit == "dep|4|fcedf94ff1b7d6fc6a8a1c4cd57414797e8a16af617aa645e2f6808fa11a5029|0|47113c95edd91bd194b27a5a929a8582a99ba2b8|1875260000000000|3600000000000"
#guard toHex exDepositRaw == "60f8a9010104b8a4904183cbfcedf94ff1b7d6fc6a8a1c4cd57414797e8a16af617aa645e2f6808fa11a5029000000000000000000000000000000000000000000000000000000000000000000000000000000000000000047113c95edd91bd194b27a5a929a8582a99ba2b80000000000000000000000000000000000000000000000000006a989fe2958000000000000000000000000000000000000000000000000000000034630b8a000"
theorem exDeposit_bytes : encodeSysTx exDeposit = exDepositRaw := by decide +kernel

def exPaid : SysTx :=
  .paid 23 7
    { txid := [0xce, 0xc2, 0xbf, 0x17, 0x65, 0xdb, 0x7d, 0xbb, 0xdb, 0x72, 0x96, 0x1a, 0xcc, 0x22, 0xd4, 0xee, 0x5b, 0xe4, 0xa2, 0x8a, 0x9d, 0xa2, 0x52, 0x30,
      0x1b, 0x8e, 0x92, 0xb1, 0xaa, 0xef, 0xf9, 0x7a],
      txout := 1, amount := 983 }
def exPaidRaw : Bytes :=
  [0x60, 0xf8, 0x89, 0x01, 0x03, 0x17, 0xb8, 0x84, 0xb6, 0x70, 0xab, 0x5e, 0x00, 0x00, 0x00, 0x00, 0x00, 0x00, 0x00, 0x00, 0x00, 0x00, 0x00, 0x00,
   0x00, 0x00, 0x00, 0x00, 0x00, 0x00, 0x00, 0x00, 0x00, 0x00, 0x00, 0x00, 0x00, 0x00, 0x00, 0x00, 0x00, 0x00, 0x00, 0x07, 0xce, 0xc2, 0xbf, 0x17,
   0x65, 0xdb, 0x7d, 0xbb, 0xdb, 0x72, 0x96, 0x1a, 0xcc, 0x22, 0xd4, 0xee, 0x5b, 0xe4, 0xa2, 0x8a, 0x9d, 0xa2, 0x52, 0x30, 0x1b, 0x8e, 0x92, 0xb1,
   0xaa, 0xef, 0xf9, 0x7a, 0x00, 0x00, 0x00, 0x00, 0x00, 0x00, 0x00, 0x00, 0x00, 0x00, 0x00, 0x00, 0x00, 0x00, 0x00, 0x00, 0x00, 0x00, 0x00, 0x00,
   0x00, 0x00, 0x00, 0x00, 0x00, 0x00, 0x00, 0x00, 0x00, 0x00, 0x00, 0x01, 0x00, 0x00, 0x00, 0x00, 0x00, 0x00, 0x00, 0x00, 0x00, 0x00, 0x00, 0x00,
   0x00, 0x00, 0x00, 0x00, 0x00, 0x00, 0x00, 0x00, 0x00, 0x00, 0x00, 0x00, 0x00, 0x00, 0x08, 0xf0, 0xb9, 0xa8, 0x7c, 0x00]
#guard World.sysTxText exPaid == "paid|23|7|cec2bf1765db7dbbdb72961acc22d4ee5be4a28a9da252301b8e92b1aaeff97a|1|9830000000000"
#guard toHex exPaidRaw == "60f889010317b884b670ab5e0000000000000000000000000000000000000000000000000000000000000007cec2bf1765db7dbbdb72961acc22d4ee5be4a28a9da252301b8e92b1aaeff97a0000000000000000000000000000000000000000000000000000000000000001000000000000000000000000000000000000000000000000000008f0b9a87c00"
theorem exPaid_bytes : encodeSysTx exPaid = exPaidRaw := by decide +kernel

def exCancel2 : SysTx :=
  .cancel2 2 1
def exCancel2Raw : Bytes :=
  [0x60, 0xe8, 0x01, 0x02, 0x02, 0xa4, 0xc1, 0x9d, 0xd3, 0x20, 0x00, 0x00, 0x00, 0x00, 0x00, 0x00, 0x00, 0x00, 0x00, 0x00, 0x00, 0x00, 0x00, 0x00,
   0x00, 0x00, 0x00, 0x00, 0x00, 0x00, 0x00, 0x00, 0x00, 0x00, 0x00, 0x00, 0x00, 0x00, 0x00, 0x00, 0x00, 0x01]
#guard World.sysTxText exCancel2 == "c2|2|1"
#guard toHex exCancel2Raw == "60e8010202a4c19dd3200000000000000000000000000000000000000000000000000000000000000001"
theorem exCancel2_bytes : encodeSysTx exCancel2 = exCancel2Raw := by decide +kernel

def exReward : SysTx :=
  .reward 2 187
    [0x52, 0x53, 0xa5, 0xa7, 0x6b, 0xb2, 0x69, 0x33, 0x0a, 0x7a, 0x20, 0xb9, 0xae, 0x9b, 0xef, 0x55, 0xb6, 0xee, 0x3d, 0xf1]
    3374999999999999989 123456789123458791
def exRewardRaw : Bytes :=
  [0x60, 0xf8, 0x89, 0x02, 0x02, 0x02, 0xb8, 0x84, 0xbd, 0x9f, 0xad, 0xb5, 0x00, 0x00, 0x00, 0x00, 0x00, 0x00, 0x00, 0x00, 0x00, 0x00, 0x00, 0x00,
   0x00, 0x00, 0x00, 0x00, 0x00, 0x00, 0x00, 0x00, 0x00, 0x00, 0x00, 0x00, 0x00, 0x00, 0x00, 0x00, 0x00, 0x00, 0x00, 0xbb, 0x00, 0x00, 0x00, 0x00,
   0x00, 0x00, 0x00, 0x00, 0x00, 0x00, 0x00, 0x00, 0x52, 0x53, 0xa5, 0xa7, 0x6b, 0xb2, 0x69, 0x33, 0x0a, 0x7a, 0x20, 0xb9, 0xae, 0x9b, 0xef, 0x55,
   0xb6, 0xee, 0x3d, 0xf1, 0x00, 0x00, 0x00, 0x00, 0x00, 0x00, 0x00, 0x00, 0x00, 0x00, 0x00, 0x00, 0x00, 0x00, 0x00, 0x00, 0x00, 0x00, 0x00, 0x00,
   0x00, 0x00, 0x00, 0x00, 0x2e, 0xd6, 0x68, 0x9e, 0x54, 0xf1, 0x7f, 0xf5, 0x00, 0x00, 0x00, 0x00, 0x00, 0x00, 0x00, 0x00, 0x00, 0x00, 0x00, 0x00,
   0x00, 0x00, 0x00, 0x00, 0x00, 0x00, 0x00, 0x00, 0x00, 0x00, 0x00, 0x00, 0x01, 0xb6, 0x9b, 0x4b, 0xac, 0xd0, 0x66, 0xe7]
#guard World.sysTxText exReward == "rew|2|187|5253a5a76bb269330a7a20b9ae9bef55b6ee3df1|3374999999999999989|123456789123458791"
#guard toHex exRewardRaw == "60f889020202b884bd9fadb500000000000000000000000000000000000000000000000000000000000000bb0000000000000000000000005253a5a76bb269330a7a20b9ae9bef55b6ee3df10000000000000000000000000000000000000000000000002ed6689e54f17ff500000000000000000000000000000000000000000000000001b69b4bacd066e7"
theorem exReward_bytes : encodeSysTx exReward = exRewardRaw := by decide +kernel

def exUnlock : SysTx :=
  .unlock 11 5
    [0xf5, 0x5f, 0x19, 0xa3, 0xdd, 0x7a, 0x22, 0x20, 0x82, 0x7b, 0xbd, 0xf9, 0x4d, 0x50, 0xdf, 0x93, 0xb7, 0x9c, 0x05, 0x4a]
    [0x5f, 0xac, 0xb8, 0x06, 0xae, 0x28, 0xaa, 0x7c, 0x73, 0xb0, 0xa2, 0xc9, 0x85, 0x6d, 0x6c, 0x33, 0x5a, 0x47, 0x58, 0xd2]
    71000000000000000680
def exUnlockRaw : Bytes :=
  [0x60, 0xf8, 0x89, 0x02, 0x01, 0x0b, 0xb8, 0x84, 0x00, 0xab, 0xa5, 0x1a, 0x00, 0x00, 0x00, 0x00, 0x00, 0x00, 0x00, 0x00, 0x00, 0x00, 0x00, 0x00,
   0x00, 0x00, 0x00, 0x00, 0x00, 0x00, 0x00, 0x00, 0x00, 0x00, 0x00, 0x00, 0x00, 0x00, 0x00, 0x00, 0x00, 0x00, 0x00, 0x05, 0x00, 0x00, 0x00, 0x00,
   0x00, 0x00, 0x00, 0x00, 0x00, 0x00, 0x00, 0x00, 0xf5, 0x5f, 0x19, 0xa3, 0xdd, 0x7a, 0x22, 0x20, 0x82, 0x7b, 0xbd, 0xf9, 0x4d, 0x50, 0xdf, 0x93,
   0xb7, 0x9c, 0x05, 0x4a, 0x00, 0x00, 0x00, 0x00, 0x00, 0x00, 0x00, 0x00, 0x00, 0x00, 0x00, 0x00, 0x5f, 0xac, 0xb8, 0x06, 0xae, 0x28, 0xaa, 0x7c,
   0x73, 0xb0, 0xa2, 0xc9, 0x85, 0x6d, 0x6c, 0x33, 0x5a, 0x47, 0x58, 0xd2, 0x00, 0x00, 0x00, 0x00, 0x00, 0x00, 0x00, 0x00, 0x00, 0x00, 0x00, 0x00,
   0x00, 0x00, 0x00, 0x00, 0x00, 0x00, 0x00, 0x00, 0x00, 0x00, 0x00, 0x03, 0xd9, 0x52, 0xab, 0xd3, 0x6c, 0xbc, 0x02, 0xa8]
#guard World.sysTxText exUnlock == "unl|11|5|f55f19a3dd7a2220827bbdf94d50df93b79c054a|5facb806ae28aa7c73b0a2c9856d6c335a4758d2|71000000000000000680"
#guard toHex exUnlockRaw == "60f88902010bb88400aba51a0000000000000000000000000000000000000000000000000000000000000005000000000000000000000000f55f19a3dd7a2220827bbdf94d50df93b79c054a0000000000000000000000005facb806ae28aa7c73b0a2c9856d6c335a4758d2000000000000000000000000000000000000000000000003d952abd36cbc02a8"
theorem exUnlock_bytes : encodeSysTx exUnlock = exUnlockRaw := by decide +kernel

def exBoundary : SysTx :=
  .cancel2 18446744073709551615 18446744073709551615
def exBoundaryRaw : Bytes :=
  [0x60, 0xf0, 0x01, 0x02, 0x88, 0xff, 0xff, 0xff, 0xff, 0xff, 0xff, 0xff, 0xff, 0xa4, 0xc1, 0x9d, 0xd3, 0x20, 0x00, 0x00, 0x00, 0x00, 0x00, 0x00,
   0x00, 0x00, 0x00, 0x00, 0x00, 0x00, 0x00, 0x00, 0x00, 0x00, 0x00, 0x00, 0x00, 0x00, 0x00, 0x00, 0x00, 0x00, 0xff, 0xff, 0xff, 0xff, 0xff, 0xff,
   0xff, 0xff]
#guard World.sysTxText exBoundary == "c2|18446744073709551615|18446744073709551615"
#guard toHex exBoundaryRaw == "60f0010288ffffffffffffffffa4c19dd320000000000000000000000000000000000000000000000000ffffffffffffffff"
theorem exBoundary_bytes : encodeSysTx exBoundary = exBoundaryRaw := by decide +kernel

def exNegative : SysTx :=
  .unlock 4294967295 65536
    [0x00, 0x00, 0x00, 0x00, 0x00, 0x00, 0x00, 0x00, 0x00, 0x00, 0x00, 0x00, 0x00, 0x00, 0x00, 0x00, 0x00, 0x00, 0x00, 0x00]
    [0x02, 0x27, 0x4c, 0x71, 0x96, 0xbb, 0xe0, 0x05, 0x2a, 0x4f, 0x74, 0x99, 0xbe, 0xe3, 0x08, 0x2d, 0x52, 0x77, 0x9c, 0xc1]
    (-1)
def exNegativeRaw : Bytes :=
  [0x60, 0xf8, 0x8d, 0x02, 0x01, 0x84, 0xff, 0xff, 0xff, 0xff, 0xb8, 0x84, 0x00, 0xab, 0xa5, 0x1a, 0x00, 0x00, 0x00, 0x00, 0x00, 0x00, 0x00, 0x00,
   0x00, 0x00, 0x00, 0x00, 0x00, 0x00, 0x00, 0x00, 0x00, 0x00, 0x00, 0x00, 0x00, 0x00, 0x00, 0x00, 0x00, 0x00, 0x00, 0x00, 0x00, 0x01, 0x00, 0x00,
   0x00, 0x00, 0x00, 0x00, 0x00, 0x00, 0x00, 0x00, 0x00, 0x00, 0x00, 0x00, 0x00, 0x00, 0x00, 0x00, 0x00, 0x00, 0x00, 0x00, 0x00, 0x00, 0x00, 0x00,
   0x00, 0x00, 0x00, 0x00, 0x00, 0x00, 0x00, 0x00, 0x00, 0x00, 0x00, 0x00, 0x00, 0x00, 0x00, 0x00, 0x00, 0x00, 0x00, 0x00, 0x02, 0x27, 0x4c, 0x71,
   0x96, 0xbb, 0xe0, 0x05, 0x2a, 0x4f, 0x74, 0x99, 0xbe, 0xe3, 0x08, 0x2d, 0x52, 0x77, 0x9c, 0xc1, 0x00, 0x00, 0x00, 0x00, 0x00, 0x00, 0x00, 0x00,
   0x00, 0x00, 0x00, 0x00, 0x00, 0x00, 0x00, 0x00, 0x00, 0x00, 0x00, 0x00, 0x00, 0x00, 0x00, 0x00, 0x00, 0x00, 0x00, 0x00, 0x00, 0x00, 0x00, 0x01]
#guard World.sysTxText exNegative == "unl|4294967295|65536|0000000000000000000000000000000000000000|02274c7196bbe0052a4f7499bee3082d52779cc1|-1"
#guard toHex exNegativeRaw == "60f88d020184ffffffffb88400aba51a0000000000000000000000000000000000000000000000000000000000010000000000000000000000000000000000000000000000000000000000000000000000000000000000000000000002274c7196bbe0052a4f7499bee3082d52779cc10000000000000000000000000000000000000000000000000000000000000001"
theorem exNegative_bytes : encodeSysTx exNegative = exNegativeRaw := by decide +kernel

/-- the hypotheses of the theorems are satisfiable: the six real transactions are in range (also in the narrower range
    of the Go types) -/
theorem examples_inRange : InRange exNewBlock ∧ InRange exDeposit ∧ InRange exPaid ∧ InRange exCancel2 ∧
    InRange exReward ∧ InRange exUnlock := by
  simp only [InRange, DataInRange, nonceOf, exNewBlock, exDeposit, exPaid, exCancel2, exReward, exUnlock]
  decide

theorem examples_goRange : GoRange exNewBlock ∧ GoRange exDeposit ∧ GoRange exPaid ∧ GoRange exCancel2 ∧
    GoRange exReward ∧ GoRange exUnlock := by
  simp only [GoRange, exNewBlock, exDeposit, exPaid, exCancel2, exReward, exUnlock]
  decide

-- … and the real bytes decode back to them
#guard decodeSysTx exNewBlockRaw == some exNewBlock
#guard decodeSysTx exDepositRaw == some exDeposit
#guard decodeSysTx exPaidRaw == some exPaid
#guard decodeSysTx exCancel2Raw == some exCancel2
#guard decodeSysTx exRewardRaw == some exReward
#guard decodeSysTx exUnlockRaw == some exUnlock
theorem exCancel2_decodes : decodeSysTx exCancel2Raw = some exCancel2 := by decide

/-- a replayed nonce gives other bytes (instance of `encode_nonce_ne`) -/
example : encodeSysTx (setNonce 1 exCancel2) ≠ encodeSysTx exCancel2 := by decide

/-- the negative amount of `exNegative` (a value `math.Int` can hold) is outside the range, and indeed collides with
    its opposite -/
example : encodeSysTx exNegative = encodeSysTx (.unlock 4294967295 65536 (List.replicate 20 0)
    [0x02, 0x27, 0x4c, 0x71, 0x96, 0xbb, 0xe0, 0x05, 0x2a, 0x4f, 0x74, 0x99, 0xbe, 0xe3, 0x08, 0x2d, 0x52, 0x77, 0x9c, 0xc1] 1) := by decide +kernel

end Goat.C06B

/-
  READING OF THE THEOREMS

  bytes
    natOfBE_beFixed, natOfBE_beMin    big-endian bytes read back give the number (mod 256^k for the fixed width).
    lt_pow_byteLen, byteLen_le        `byteLen n` is the least k with n < 256^k.
    beMin_injective                   minimal big-endian bytes determine the number.
    beMin_no_leading_zero             RLP integers never start with a zero byte (0 is the empty string).

  1. RLP
    rlpBytes_injective                two byte strings with the same RLP encoding are equal (any length).
    rlpNat_injective                  two numbers with the same RLP encoding are equal (any size).
    decodeItem_rlpBytes / _rlpList    the item splitter returns the string / the concatenated list payload and exactly
                                      what followed the item (payloads below 2^64 bytes).
    IsItem                            "is the RLP encoding of a string or of a list of already-encoded items, payload
                                      below 2^64 bytes" (the domain of real RLP, whose lengths are uint64).
    rlp_prefix_free                   no item encoding is a proper prefix of another item encoding.
    rlp_concat_injective              a concatenation of items splits in exactly one way.
    rlpList_injective                 two lists of items with the same list encoding are equal.
    rlpBytes_ne_rlpList               a string and a list never have the same encoding.
    rlp_prefix_free_unbounded_false   NEGATIVE: without the 2^64 bound prefix-freeness fails in the model (a string of
                                      2^64 bytes gets header byte 0xb7 + 9 = 0xc0 = the empty list); this is why `IsItem`,
                                      `rlp_prefix_free` and `rlpList_injective` carry the bound.  Real RLP cannot encode such
                                      a string.

  2. data = method id ‖ ABI words
    fit_eq_fitLeft                    the model's crop / left-pad is `World.fitLeft` (the convention of `sysTxText`).
    encodeData_eq, encodeData_length  the data are the 4-byte method id followed by 1, 4 or 5 words of 32 bytes: always
                                      36, 132 or 164 bytes whatever the fields.
    kind_of_mid                       the six method ids are pairwise different: the id determines module and action.
    decodeData_encodeData             `goattypes.DecodeTx` on the data of an in-range transaction gives its fields back.
    encodeData_injective (_eq_iff)    in range (hashes 32 bytes, addresses 20, txout < 2^32, locking ids < 2^64, bridge ids
                                      and scaled amounts < 2^256, amounts ≥ 0): equal data bytes iff equal transactions up
                                      to the nonce.
    encodeData_sign_blind             NEGATIVE: `big.Int.FillBytes` writes the absolute value — a reward / unlock amount and
                                      its opposite have the same data (confirmed on the real code with `Amount: -1`).
    encodeData_crops                  NEGATIVE: `BytesToHash` keeps the last 32 bytes — a 33-byte hash and its tail have
                                      the same data.
    encodeData_injective_unrestricted_false   hence injectivity fails without the range hypotheses.

  3. envelope = 0x60 ‖ rlp [module, action, nonce, data]
    encodeSysTx_eq_iff                for uint64 nonces and ANY payload: equal bytes iff equal module, action, nonce and
                                      data bytes.
    encodeSysTx_injective (_inj_iff)  in range: equal bytes iff equal system transactions, nonce included.
    map_encodeSysTx_eq_iff            COROLLARY for C06/C08: two lists of in-range system transactions have the same byte
                                      strings (what the real VerifyDequeue compares) iff they are the same list (what the
                                      model's `verifyDequeue_exact` compares).
    leading_bytes_iff                 the same for the first `due.length` raw transactions of a payload.
    GoRange.inRange                   the narrower range of the Go field types (uint64 ids and satoshi amounts) is in range.

  4. decode_encode                    `decodeSysTx (encodeSysTx tx) = some tx` for in-range tx (type byte, one list of four
                                      strings with nothing after it, `DecodeTx` by module / action).

  5. nonce
    encode_nonce_only_in_envelope,    changing the nonce changes the third item of the envelope and nothing else (the data
    envelopeItems_setNonce            do not contain it).
    encode_nonce_ne                   the same payload under two uint64 nonces: equal bytes iff equal nonces — a replayed
                                      system transaction with an old nonce is a different byte string.

  5b. what the encoding forgets
    encodeSysTx_norm                  the bytes only depend on the normal form (hashes / addresses fitted, |amount|).
    encodeSysTx_eq_iff_norm           over all values the Go types can hold (`NumRange`: numeric bounds only, byte strings of
                                      any length, amounts of either sign): equal bytes iff equal normal forms.
    decode_encode_norm                decoding an encoding gives the normal form.

  6. non-vacuity
    ex*_bytes                         the six kinds, fields and bytes copied from traces of the real code (kernel-checked;
                                      the `#guard`s tie the literals to the trace text / hex), two boundary transactions
                                      from a Go program using the repository's constructors (nonce and id 2^64-1; a
                                      negative amount).
    examples_inRange / _goRange       the range hypotheses hold for the real transactions.
    exCancel2_decodes                 a real byte string decodes to its transaction.

  MODELLED: the exact bytes of `ethtypes.NewTx(ethtypes.NewGoatTx(module, action, nonce, inner)).MarshalBinary()` for the
  six constructors of x/bitcoin/types/ethtx.go and x/locking/types/ethtx.go — RLP (integer, string, list; short and long
  headers), type byte, method ids, ABI word layout, ×10^10 scaling, BytesToHash / BytesToAddress, FillBytes of |x|.
  LEFT OUT: the strictness of the Go RLP decoder (`decodeSysTx` accepts non-canonical headers / integers and, like Go,
  ignores the padding of uint32 / uint64 / address words; only `decode ∘ encode` is stated, not `encode ∘ decode`); the
  panic of `FillBytes` above 2^256 (unreachable: `math.Int` is capped at 256 bits, receipts are uint64 — the model
  truncates instead); transaction hashing / signatures (a GoatTx has none); the injectivity of the textual rendering
  `World.sysTxText` (the traces compare texts; this file relates bytes to FIELDS).
-/
