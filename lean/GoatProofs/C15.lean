/-
  C15 — unlocked funds are released only after the unlock or exit delay, once.
-/
import GoatModel.Locking
import GoatProofs.Lemmas.Locking
namespace Goat.C15
open Goat.Locking

/-- the released amount is never more than requested nor more than the holding -/
theorem unlock_amount_bounded (held requested : Int) :
    unlockAmount held requested ≤ requested ∧ unlockAmount held requested ≤ held := by
  unfold unlockAmount; split <;> omega

/-- the maturity is the request's block time plus the unlock period, or the exit period when exiting -/
theorem unlock_time_exact (p : Params) (now : Int) (exiting : Bool) :
    unlockTime p now exiting = now + (if exiting then p.exitingDuration else p.unlockDuration) := by
  unfold unlockTime; split <;> simp_all

/-- with validated parameters (`ExitingDuration ≥ UnlockDuration`) every unlock matures no earlier
    than the unlock period after its request -/
theorem unlock_time_lower_bound (p : Params) (now : Int) (exiting : Bool) (hp : p.unlockDuration ≤ p.exitingDuration) :
    now + p.unlockDuration ≤ unlockTime p now exiting := by
  unfold unlockTime; split <;> omega

/-- **An unlock request is queued under exactly its maturity time, with the clipped amount.**
    `exiting` is exactly "inactive or tombstoned, or the holding after the unlock is below the token's
    threshold". -/
theorem unlock_queued_at_maturity (s s' : State) (now : Int) (r : UnlockReq) (hok : unlockOne s now r = .ok s') :
    ∃ v tok s3, vget s r.validator = some v ∧ tget s r.token = some tok ∧
      let held := amountOf v.locking r.token
      let amount := unlockAmount held r.amount
      let exiting := exitingOf v.status (held - amount) tok.threshold
      s' = enqueueUnlock s3 (unlockTime s.params now exiting)
            { id := r.id, token := r.tokenAddr, recipient := r.recipient, amount := amount } := by
  unfold unlockOne at hok
  cases hc : unlockCore s r with
  | err e => simp [hc] at hok
  | panic e => simp [hc] at hok
  | ok p =>
    obtain ⟨s3, exiting, amount⟩ := p
    simp only [hc] at hok
    cases hok
    unfold unlockCore at hc
    cases hv : vget s r.validator with
    | none => simp [hv] at hc
    | some v =>
      simp only [hv] at hc
      cases ht : tget (rankRemove s v.power r.validator) r.token with
      | none => simp [ht] at hc
      | some tok =>
        simp only [ht] at hc
        split at hc
        · cases hc
        · split at hc
          · cases hc
          · cases hc
          · cases hc
            exact ⟨v, tok, _, rfl, ht, rfl⟩

/-- the enqueue keeps every earlier entry and files the new unlock under its maturity -/
theorem enqueue_files_under_time (s : State) (t : Int) (u : Unlock) :
    ∃ us, (t, us) ∈ (enqueueUnlock s t u).unlockQueue ∧ u ∈ us := by
  unfold enqueueUnlock
  by_cases h : s.unlockQueue.any (·.1 == t) = true
  · simp only [h, if_true]
    obtain ⟨e, he, hk⟩ := List.any_eq_true.mp h
    refine ⟨e.2 ++ [u], ?_, by simp⟩
    rw [List.mem_map]
    exact ⟨e, he, by simp [hk]⟩
  · simp only [h, if_false, Bool.false_eq_true]
    exact ⟨[u], by simp, by simp⟩

/-- **Released no earlier than maturity**: the begin-block dequeue moves an unlock into the delivery
    queue only if its maturity key is not after the block time; everything else stays queued. -/
theorem mature_only (s : State) (now : Int) (u : Unlock) (h : u ∈ (dequeueMature s now).qUnlocks) :
    u ∈ s.qUnlocks ∨ ∃ t us, (t, us) ∈ s.unlockQueue ∧ t ≤ now ∧ u ∈ us := by
  unfold dequeueMature at h
  by_cases hd : (dueUnlocks s now).isEmpty = true
  · rw [if_pos hd] at h; exact Or.inl h
  · rw [if_neg hd] at h
    simp only [List.mem_append, List.mem_flatten, List.mem_map] at h
    rcases h with h | ⟨us, ⟨e, he, rfl⟩, hu⟩
    · exact Or.inl h
    · right
      unfold dueUnlocks at he
      have he' := (List.mergeSort_perm _ _).mem_iff.mp he
      rw [List.mem_filter] at he'
      exact ⟨e.1, e.2, he'.1, by simpa using he'.2, hu⟩

/-- what is not yet mature stays in the time queue -/
theorem immature_stay (s : State) (now : Int) (e : Int × List Unlock) (he : e ∈ s.unlockQueue) (hlt : now < e.1) :
    e ∈ (dequeueMature s now).unlockQueue := by
  unfold dequeueMature
  by_cases hd : (dueUnlocks s now).isEmpty = true
  · rw [if_pos hd]; exact he
  · rw [if_neg hd]
    simp only [List.mem_filter]
    refine ⟨he, ?_⟩
    simp; omega

/-- **Released once**: a matured entry leaves the time queue in the very step that releases it -/
theorem mature_leave_queue (s : State) (now : Int) (e : Int × List Unlock) (he : e ∈ s.unlockQueue) (hle : e.1 ≤ now) :
    e ∉ (dequeueMature s now).unlockQueue ∧ ∀ u ∈ e.2, u ∈ (dequeueMature s now).qUnlocks := by
  have hmem : e ∈ dueUnlocks s now := by
    unfold dueUnlocks
    rw [(List.mergeSort_perm _ _).mem_iff, List.mem_filter]
    exact ⟨he, by simpa using hle⟩
  have hne : ¬ (dueUnlocks s now).isEmpty = true := by
    intro h
    rw [List.isEmpty_iff] at h
    rw [h] at hmem
    cases hmem
  unfold dequeueMature
  rw [if_neg hne]
  constructor
  · simp only [List.mem_filter, not_and]
    intro _
    simp [hle]
  · intro u hu
    simp only [List.mem_append, List.mem_flatten, List.mem_map]
    exact Or.inr ⟨e.2, ⟨e, hmem, rfl⟩, hu⟩

/-- **Dropping below a threshold exits at once**: an unlock that leaves the holding below the token's
    threshold sets the power to 0, takes the validator out of the ranking and (unless tombstoned)
    makes it inactive; its remaining funds stay on record for later unlocks. -/
theorem below_threshold_exits (s : State) (r : UnlockReq) (v : Validator) (tok : Token) (s3 : State) (amount : Int)
    (hv : vget s r.validator = some v) (ht : tget (rankRemove s v.power r.validator) r.token = some tok)
    (hex : exitingOf v.status (amountOf v.locking r.token - unlockAmount (amountOf v.locking r.token) r.amount) tok.threshold = true)
    (hok : unlockCore s r = .ok (s3, true, amount)) :
    ∃ v', vget s3 r.validator = some v' ∧ v'.power = 0 ∧ (v.power, r.validator) ∉ s3.ranking ∧
      (v.status ≠ .tombstoned → v'.status = .inactive) ∧
      v'.locking = setAmount v.locking r.token (amountOf v.locking r.token - amount) := by
  unfold unlockCore at hok
  simp only [hv, ht] at hok
  split at hok
  · cases hok
  · rw [hex] at hok
    simp only [Bool.not_true, Bool.false_eq_true, and_false, false_and, if_false, if_true] at hok
    simp only [Outcome.ok.injEq, Prod.mk.injEq, true_and] at hok
    obtain ⟨h1, h2⟩ := hok
    subst h2
    subst h1
    refine ⟨_, vget_vset_same _ _ _, rfl, ?_, ?_, rfl⟩
    · rw [vset_ranking]
      have : ∀ (cs : Coins) (st : State), (cs.foldl (fun s c => idxRemove s c.1 r.validator) st).ranking = st.ranking := by
        intro cs
        induction cs with
        | nil => intro st; rfl
        | cons c cs ih => intro st; rw [List.foldl_cons, ih]; rfl
      rw [this]
      exact rankRemove_not_mem s v.power r.validator
    · intro hnt
      cases hs : v.status <;> simp_all

end Goat.C15
